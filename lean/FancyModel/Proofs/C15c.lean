import FancyModel.Proofs.C19b
/-!
# C15 (parser part) — how the parser reads the three forms of a conditional

Proofs/C15.lean proves what the three trees *mean*; which tree the parser builds for which spelling
was left to the expected-tree oracle (F13, F16).  With the parser model (`Model/Parse.lean`,
`parseConditional`), for all inputs:

* `C15_parse_forms`: `parse_conditional` as a function of its three sub-parses (the condition
  `condPart`, the `)` after it, the body parsed by `parse_re`) — the general statement, for
  arbitrary sub-patterns (they enter through the results of the sub-parses);
* its readable corollaries: `C15_parse_bare_test` (`(?(N))` is `BackrefExistsCondition(N)` alone),
  `C15_parse_bare_expr` (`(?(cond))` is an error), `C15_parse_yes_no` (`(?(c)yes|no)`; also
  `(?(1)|)`: two empty branches — fix F13), `C15_parse_yes_alts` (more alternatives),
  `C15_parse_yes_only` (`(?(c)yes)`: `no = Empty`, and the whole body is ONE branch whenever the
  body's `parse_re` saw no top-level `|`, even if the body is an `Alt` from inside a group — fix
  F16), `C15_parse_empty_body`;
* `C15_cond_number`, `C15_cond_quote`, `C15_cond_angle`, `C15_cond_expr`: which of the three kinds of
  condition is read; `C15_group_dispatch`: `(?(` in `parse_group` leads here;
* fix F21 — a back-reference *expression* as condition (`(?(\1)yes|no)`, `(?((?:\1))yes|no)`) is a
  general condition, not the group test: the rewriting `Backref(g) ↦ BackrefExistsCondition(g)` is
  done only for the three group-test spellings `(?(N)`, `(?('n')`, `(?(<n>)`, i.e. according to the
  byte after `(?(` (`isGroupTest`).  `C15_innerCond_general`, `C15_innerCond_group_test`,
  `C15_general_condition_kept` (whatever `parse_conditional` returns for a general condition
  contains exactly the tree `parse_re` returned for it), `C15_general_backref_condition`,
  `C15_general_backref_bare`.

The section "Tests by evaluation" evaluates the whole model parser on representative concrete
patterns in the kernel; those are tests, not the general claim.
-/
namespace Fancy.Parse
open Fancy.Utf8 (codepointLen isLead)
open Fancy

/-! ## the parts of `parse_conditional` -/

/-- the condition of a conditional, as `parse_conditional` reads it at the byte `b` after `(?(`:
    a group number, a group name in quotes or angle brackets, or a whole expression -/
def condPart (isAlnum : Char → Bool) (f : Nat) (re : Bytes) (st : PState) (ix d b : Nat) :
    Res (Nat × Expr × PState) :=
  if isDigit b then parseNumberedBackref re st ix .backref
  else if b == ch '\'' then parseNamedBackref isAlnum re st ix [ch '\''] [ch '\''] true .backref
  else if b == ch '<' then parseNamedBackref isAlnum re st ix [ch '<'] [ch '>'] true .backref
  else parseRe isAlnum f re st ix d

/-- the two branches `parse_conditional` makes of the body and of `last_re_had_alt` -/
def condBranches (child : Expr) (hasElse : Bool) : Res (Expr × Expr) :=
  match child, hasElse with
  | .alt alternatives, true =>
    match alternatives with
    | [] => .panic "parse_conditional: alternatives.remove(0)"
    | t :: rest =>
      match rest with
      | [e] => pure (t, e)
      | _ => pure (t, .alt rest)
  | c, _ => pure (c, .empty)

/-- `is_group_test`: the byte after `(?(` starts one of the three group-test spellings `(?(N)`,
    `(?('name')`, `(?(<name>)` -/
def isGroupTest (b : Nat) : Bool := isDigit b || b == ch '\'' || b == ch '<'

/-- in a group-test spelling (`gt`) the reference read as condition is the test "has this group
    matched"; any other condition — also a back-reference expression — stays what it is (fix F21) -/
def innerCond (gt : Bool) (condition : Expr) : Expr :=
  match gt, condition with
  | true, .backref g => .backrefExists g
  | _, c => c

/-- a general condition is never rewritten -/
theorem C15_innerCond_general (c : Expr) : innerCond false c = c := rfl

/-- in a group-test spelling a reference becomes the group test; anything else stays -/
theorem C15_innerCond_group_test (g : Nat) : innerCond true (.backref g) = .backrefExists g := rfl

theorem innerCond_of_not_backref (gt : Bool) {c : Expr} (h : ∀ g, c ≠ .backref g) :
    innerCond gt c = c := by
  cases gt
  · rfl
  · cases c <;> first | rfl | exact absurd rfl (h _)

/-- `parse_conditional` in terms of its three sub-parses (the condition, the `)` after it, the
    body): the exact mirror of the function with the sub-results named -/
theorem C15_parse_forms (isAlnum : Char → Bool) {re : Bytes} {f : Nat} {st st1 st2 : PState}
    {ix d b next next2 end_ : Nat} {condition child : Expr}
    (hb : re[ix]? = some b)
    (hcond : condPart isAlnum f re st ix d b = .ok (next, condition, st1))
    (hc1 : checkForCloseParen re st1.flags next = .ok next2)
    (hre : parseRe isAlnum f re st1 next2 d = .ok (end_, child, st2)) :
    parseConditional isAlnum (f + 1) re st ix d =
      if end_ = next2 then
        match isGroupTest b, condition with
        | true, .backref g =>
          checkForCloseParen re st2.flags end_ >>= fun after => .ok (after, .backrefExists g, st2)
        | _, _ => .err (.general .expectedConditional) end_
      else
        condBranches child st2.lastReHadAlt >>= fun br =>
        checkForCloseParen re st2.flags end_ >>= fun after =>
        if !st2.lastReHadAlt && br.1.isEmpty then .ok (after, innerCond (isGroupTest b) condition, st2)
        else .ok (after, .cond (innerCond (isGroupTest b) condition) br.1 br.2, st2) := by
  have hlt := lt_size_of_get hb
  have hge : ¬ (ix ≥ re.size) := by omega
  unfold condPart at hcond
  rw [parseConditional]
  simp only [hge, ↓reduceIte, byteAt, hb, Res.ok_bind, hcond, hc1, hre]
  unfold isGroupTest innerCond
  by_cases he : end_ = next2
  · subst he
    simp only [beq_self_eq_true, ↓reduceIte]
    generalize (isDigit b || b == ch '\'' || b == ch '<') = gt
    cases gt <;> cases condition <;> rfl
  · have he' : (end_ == next2) = false := by simpa using he
    simp only [he', Bool.false_eq_true, ↓reduceIte, he]
    rfl

/-! ## C15_parse_forms: the forms of a conditional -/

section forms
variable (isAlnum : Char → Bool) {re : Bytes} {f : Nat} {st st1 st2 : PState}
  {ix d b next next2 end_ after : Nat} {condition child : Expr}

/-- **`(?(N))`, `(?(<name>))`, `(?('name'))` — the bare group test**: when nothing stands between the
    `)` that closes the condition and the `)` that closes the group, and the condition is a group
    reference in one of the three group-test spellings, the result is `BackrefExistsCondition(g)`
    alone (fix F13: not a conditional with two empty branches) -/
theorem C15_parse_bare_test {g : Nat} (hb : re[ix]? = some b) (hgt : isGroupTest b = true)
    (hcond : condPart isAlnum f re st ix d b = .ok (next, .backref g, st1))
    (hc1 : checkForCloseParen re st1.flags next = .ok next2)
    (hre : parseRe isAlnum f re st1 next2 d = .ok (next2, child, st2))
    (hc2 : checkForCloseParen re st2.flags next2 = .ok after) :
    parseConditional isAlnum (f + 1) re st ix d = .ok (after, .backrefExists g, st2) := by
  rw [C15_parse_forms isAlnum hb hcond hc1 hre]
  simp [hgt, hc2]

/-- an expression as condition with no body is the error "expected conditional …" — every general
    condition (the byte after `(?(` does not start a group-test spelling), also one that is a
    back-reference expression such as `(?(\1))` (fix F21), and anything that is not a reference -/
theorem C15_parse_bare_expr (hb : re[ix]? = some b)
    (hcond : condPart isAlnum f re st ix d b = .ok (next, condition, st1))
    (hnb : isGroupTest b = false ∨ ∀ g, condition ≠ .backref g)
    (hc1 : checkForCloseParen re st1.flags next = .ok next2)
    (hre : parseRe isAlnum f re st1 next2 d = .ok (next2, child, st2)) :
    parseConditional isAlnum (f + 1) re st ix d = .err (.general .expectedConditional) next2 := by
  rw [C15_parse_forms isAlnum hb hcond hc1 hre]
  simp only [↓reduceIte]
  rcases hnb with hgt | hnb
  · rw [hgt]
  · cases isGroupTest b
    · rfl
    · cases condition <;> first | rfl | exact absurd rfl (hnb _)

/-- **`(?(cond)yes|no)`** — the body is a top-level alternation of exactly two branches (the body's
    `parse_re` saw a `|`: `last_re_had_alt`): `Conditional { cond, yes, no }`, where a group
    reference as `cond` in a group-test spelling becomes the group test (only there: fix F21).  Holds also when `yes` or `no` is empty:
    `(?(1)|)` is a conditional with two empty branches (fix F13). -/
theorem C15_parse_yes_no {y n : Expr} (hb : re[ix]? = some b)
    (hcond : condPart isAlnum f re st ix d b = .ok (next, condition, st1))
    (hc1 : checkForCloseParen re st1.flags next = .ok next2)
    (hre : parseRe isAlnum f re st1 next2 d = .ok (end_, .alt [y, n], st2)) (hne : end_ ≠ next2)
    (halt : st2.lastReHadAlt = true)
    (hc2 : checkForCloseParen re st2.flags end_ = .ok after) :
    parseConditional isAlnum (f + 1) re st ix d =
      .ok (after, .cond (innerCond (isGroupTest b) condition) y n, st2) := by
  rw [C15_parse_forms isAlnum hb hcond hc1 hre]
  simp [hne, halt, condBranches, hc2]

/-- **`(?(cond)yes|no1|no2…)`** — more than two top-level alternatives: the first is `yes`, the
    alternation of the others is `no` -/
theorem C15_parse_yes_alts {y n1 n2 : Expr} {ns : List Expr} (hb : re[ix]? = some b)
    (hcond : condPart isAlnum f re st ix d b = .ok (next, condition, st1))
    (hc1 : checkForCloseParen re st1.flags next = .ok next2)
    (hre : parseRe isAlnum f re st1 next2 d = .ok (end_, .alt (y :: n1 :: n2 :: ns), st2))
    (hne : end_ ≠ next2) (halt : st2.lastReHadAlt = true)
    (hc2 : checkForCloseParen re st2.flags end_ = .ok after) :
    parseConditional isAlnum (f + 1) re st ix d =
      .ok (after, .cond (innerCond (isGroupTest b) condition) y (.alt (n1 :: n2 :: ns)), st2) := by
  rw [C15_parse_forms isAlnum hb hcond hc1 hre]
  simp [hne, halt, condBranches, hc2]

/-- **`(?(cond)yes)`** — the body's `parse_re` saw no top-level `|` (`last_re_had_alt = false`):
    the **whole** body is the `yes` branch and `no` is `Empty` — *whatever the body is*, in
    particular when it is itself an `Alt` that came out of a group such as `(?:a|b)` (fix F16: an
    alternation inside a group is ONE branch, it is not split into yes/no) -/
theorem C15_parse_yes_only (hb : re[ix]? = some b)
    (hcond : condPart isAlnum f re st ix d b = .ok (next, condition, st1))
    (hc1 : checkForCloseParen re st1.flags next = .ok next2)
    (hre : parseRe isAlnum f re st1 next2 d = .ok (end_, child, st2)) (hne : end_ ≠ next2)
    (halt : st2.lastReHadAlt = false) (hemp : child.isEmpty = false)
    (hc2 : checkForCloseParen re st2.flags end_ = .ok after) :
    parseConditional isAlnum (f + 1) re st ix d =
      .ok (after, .cond (innerCond (isGroupTest b) condition) child .empty, st2) := by
  rw [C15_parse_forms isAlnum hb hcond hc1 hre]
  have hbr : condBranches child false = pure (child, .empty) := by
    unfold condBranches; split <;> first | rfl | (rename_i h; cases h)
  simp [hne, halt, hbr, hc2, hemp]

/-- a body that consumed something but is `Empty` (an inline flag group, a comment) without a
    top-level `|`: the condition alone -/
theorem C15_parse_empty_body (hb : re[ix]? = some b)
    (hcond : condPart isAlnum f re st ix d b = .ok (next, condition, st1))
    (hc1 : checkForCloseParen re st1.flags next = .ok next2)
    (hre : parseRe isAlnum f re st1 next2 d = .ok (end_, .empty, st2)) (hne : end_ ≠ next2)
    (halt : st2.lastReHadAlt = false)
    (hc2 : checkForCloseParen re st2.flags end_ = .ok after) :
    parseConditional isAlnum (f + 1) re st ix d = .ok (after, innerCond (isGroupTest b) condition, st2) := by
  rw [C15_parse_forms isAlnum hb hcond hc1 hre]
  simp [hne, halt, condBranches, hc2, Expr.isEmpty]

end forms

/-! ### the three kinds of condition -/

/-- `(?(N)…`: a digit starts a group number; the condition is `Backref(N)` (so the test is
    `BackrefExistsCondition(N)`), the group is recorded as referenced -/
theorem C15_cond_number (isAlnum : Char → Bool) {re : Bytes} (f : Nat) (st : PState) {ix d b : Nat}
    (hd : isDigit b = true) :
    condPart isAlnum f re st ix d b = parseNumberedBackref re st ix .backref := by
  simp [condPart, hd]

theorem parseNumberedBackref_ok {re : Bytes} {st st' : PState} {ix e : Nat} {k : RefKind} {x : Expr}
    (h : parseNumberedBackref re st ix k = .ok (e, x, st')) :
    ∃ g, parseDecimal re ix = .ok (some (e, g)) ∧ g < re.size / 2 ∧ x = k.mk g ∧
      st' = { st with numericBackrefs := true, backrefs := bitsetInsert st.backrefs g } := by
  unfold parseNumberedBackref at h
  cases hp : parseDecimal re ix with
  | ok r =>
    rw [hp] at h
    simp only [Res.ok_bind] at h
    cases r with
    | none => cases h
    | some p =>
      obtain ⟨e', g⟩ := p
      simp only at h
      split at h
      · simp only [Res.ok.injEq, Prod.mk.injEq] at h
        obtain ⟨rfl, rfl, rfl⟩ := h
        exact ⟨g, rfl, by assumption, rfl, rfl⟩
      · cases h
  | err k p => rw [hp] at h; cases h
  | cerr => rw [hp] at h; cases h
  | panic s => rw [hp] at h; cases h
  | outOfFuel => rw [hp] at h; cases h

/-- `(?('name')…` and `(?(<name>)…`: the condition is a named (or relative, or numbered-by-name)
    reference read by `parse_named_backref` -/
theorem C15_cond_quote (isAlnum : Char → Bool) {re : Bytes} (f : Nat) (st : PState) {ix d : Nat} :
    condPart isAlnum f re st ix d (ch '\'') =
      parseNamedBackref isAlnum re st ix [ch '\''] [ch '\''] true .backref := by
  simp [condPart, isDigit, ch]

theorem C15_cond_angle (isAlnum : Char → Bool) {re : Bytes} (f : Nat) (st : PState) {ix d : Nat} :
    condPart isAlnum f re st ix d (ch '<') =
      parseNamedBackref isAlnum re st ix [ch '<'] [ch '>'] true .backref := by
  simp [condPart, isDigit, ch]

/-- `(?(cond)…` with anything else: the condition is parsed by `parse_re` -/
theorem C15_cond_expr (isAlnum : Char → Bool) {re : Bytes} (f : Nat) (st : PState) {ix d b : Nat}
    (h1 : isDigit b = false) (h2 : b ≠ ch '\'') (h3 : b ≠ ch '<') :
    condPart isAlnum f re st ix d b = parseRe isAlnum f re st ix d := by
  have e2 : (b == ch '\'') = false := by simpa using h2
  have e3 : (b == ch '<') = false := by simpa using h3
  simp [condPart, h1, e2, e3]

/-! ### fix F21: only the three group-test spellings are turned into the group test -/

/-- the byte after `(?(` is not a digit, `'` or `<`: a general condition -/
theorem isGroupTest_eq_false {b : Nat} (h1 : isDigit b = false) (h2 : b ≠ ch '\'') (h3 : b ≠ ch '<') :
    isGroupTest b = false := by
  have e2 : (b == ch '\'') = false := by simpa using h2
  have e3 : (b == ch '<') = false := by simpa using h3
  simp [isGroupTest, h1, e2, e3]

/-- `\` does not start a group-test spelling: `(?(\1)…`, `(?(\k<n>)…` are general conditions -/
theorem isGroupTest_backslash : isGroupTest (ch '\\') = false := by decide

theorem Res.bind_eq_ok {α β : Type} {x : Res α} {f : α → Res β} {r : β} (h : (x >>= f) = .ok r) :
    ∃ a, x = .ok a ∧ f a = .ok r := by
  cases x <;> first | exact ⟨_, rfl, h⟩ | cases h

/-- **a general condition is never rewritten** (fix F21): when the byte after `(?(` is not a digit,
    `'` or `<`, whatever `parse_conditional` returns is the tree `condition` that `parse_re` returned
    for the condition — alone (body without content) or as the condition of the `Conditional` —
    also when `condition` is a back-reference expression `Backref(g)`.  The rewriting to
    `BackrefExistsCondition(g)` happens only in the three group-test spellings
    (`C15_parse_forms` with `isGroupTest b = true`). -/
theorem C15_general_condition_kept (isAlnum : Char → Bool) {re : Bytes} {f : Nat} {st st1 st' : PState}
    {ix d b next after : Nat} {condition e : Expr}
    (hb : re[ix]? = some b) (h1 : isDigit b = false) (h2 : b ≠ ch '\'') (h3 : b ≠ ch '<')
    (hcond : parseRe isAlnum f re st ix d = .ok (next, condition, st1))
    (h : parseConditional isAlnum (f + 1) re st ix d = .ok (after, e, st')) :
    e = condition ∨ ∃ y n, e = .cond condition y n := by
  have hlt := lt_size_of_get hb
  have hge : ¬ (ix ≥ re.size) := by omega
  have e2 : (b == ch '\'') = false := by simpa using h2
  have e3 : (b == ch '<') = false := by simpa using h3
  rw [parseConditional] at h
  simp only [hge, ↓reduceIte, byteAt, hb, Res.ok_bind, h1, e2, e3, Bool.false_eq_true, hcond,
    Bool.or_false] at h
  obtain ⟨next2, hc1, h⟩ := Res.bind_eq_ok h
  obtain ⟨⟨end_, child, st2⟩, hre, h⟩ := Res.bind_eq_ok h
  simp only at h
  split at h
  · cases h
  · obtain ⟨br, hbr, h⟩ := Res.bind_eq_ok h
    obtain ⟨after', hc2, h⟩ := Res.bind_eq_ok h
    split at h <;> simp only [Res.ok.injEq, Prod.mk.injEq] at h <;> obtain ⟨_, rfl, _⟩ := h
    · exact .inl rfl
    · exact .inr ⟨_, _, rfl⟩

/-- the same for the group-test spellings, for contrast: there a reference `Backref(g)` read as
    condition never survives — the result is `BackrefExistsCondition(g)`, alone or as the condition -/
theorem C15_group_test_rewritten (isAlnum : Char → Bool) {re : Bytes} {f : Nat} {st st1 st' : PState}
    {ix d b next after g : Nat} {e : Expr}
    (hb : re[ix]? = some b) (hgt : isGroupTest b = true)
    (hcond : condPart isAlnum f re st ix d b = .ok (next, .backref g, st1))
    (h : parseConditional isAlnum (f + 1) re st ix d = .ok (after, e, st')) :
    e = .backrefExists g ∨ ∃ y n, e = .cond (.backrefExists g) y n := by
  have hlt := lt_size_of_get hb
  have hge : ¬ (ix ≥ re.size) := by omega
  unfold condPart at hcond
  unfold isGroupTest at hgt
  rw [parseConditional] at h
  simp only [hge, ↓reduceIte, byteAt, hb, Res.ok_bind, hcond, hgt] at h
  obtain ⟨next2, hc1, h⟩ := Res.bind_eq_ok h
  obtain ⟨⟨end_, child, st2⟩, hre, h⟩ := Res.bind_eq_ok h
  simp only at h
  split at h
  · obtain ⟨after', hc2, h⟩ := Res.bind_eq_ok h
    simp only [Res.ok.injEq, Prod.mk.injEq] at h
    obtain ⟨_, rfl, _⟩ := h
    exact .inl rfl
  · obtain ⟨br, hbr, h⟩ := Res.bind_eq_ok h
    obtain ⟨after', hc2, h⟩ := Res.bind_eq_ok h
    split at h <;> simp only [Res.ok.injEq, Prod.mk.injEq] at h <;> obtain ⟨_, rfl, _⟩ := h
    · exact .inl rfl
    · exact .inr ⟨_, _, rfl⟩

/-! ### how `parse_group` gets there -/

/-- `(?(` is a conditional: `parse_group` at the `(` hands over to `parse_conditional` just after
    `(?(`, one level deeper (or reports `RecursionExceeded`) — for every flag state -/
theorem C15_group_dispatch (isAlnum : Char → Bool) {re : Bytes} (f : Nat) (st : PState) {ix : Nat} (d : Nat)
    (h1 : re[ix + 1]? = some (ch '?')) (h2 : re[ix + 2]? = some (ch '(')) :
    parseGroup isAlnum (f + 1) re st ix d =
      if d + 1 ≥ Generated.maxRecursion then .err .recursionExceeded ix
      else parseConditional isAlnum f re st (ix + 3) (d + 1) := by
  have hws : optWs re st.flags (ix + 1) = .ok (ix + 1) := by
    rw [optWs_step h1]
    have e1 : (ch '?' == ch '#') = false := by decide
    have e2 : (ch '?' == ch ' ' || ch '?' == ch '\r' || ch '?' == ch '\n' || ch '?' == ch '\t') = false := by
      decide
    have e3 : (ch '?' == ch '(') = false := by decide
    simp only [e1, e2, e3, Bool.false_and, Bool.false_eq_true, ↓reduceIte]
  have hb : isBoundary re (ix + 1) = true := isBoundary_of_ascii h1 (by decide)
  rw [parseGroup]
  by_cases hd : d + 1 ≥ Generated.maxRecursion
  · simp only [hd, ↓reduceIte]
  · have e1 : ch '(' ≠ ch '=' := by decide
    have e2 : ch '(' ≠ ch '!' := by decide
    have e3 : ch '(' ≠ ch '<' := by decide
    have e4 : ch '(' ≠ ch 'P' := by decide
    have e5 : ch '(' ≠ ch '>' := by decide
    simp [hd, hws, sliceFrom, sliceFromOk, hb, lookOf, startsWithAt, h1, h2, e1, e2, e3, e4, e5]

/-! ### Non-vacuity: the hypotheses of the general theorems on `(a)(?(1)b|c)` -/

/-- the parser state when the conditional of `(a)(?(1)b|c)` is reached, and after its condition -/
private def st0 : PState := { currGroup := 1 }
private def st1 : PState := { currGroup := 1, numericBackrefs := true, backrefs := [1] }

example :
    parseConditional (fun c => c.isAlphanum) 51 (bytesOf "(a)(?(1)b|c)".toList) st0 6 1 =
      .ok (12, .cond (.backrefExists 1) (.literal ['b'] false) (.literal ['c'] false),
        { st1 with lastReHadAlt := true }) :=
  C15_parse_yes_no _ (b := ch '1') (next := 7) (next2 := 8) (end_ := 11) (st1 := st1)
    (condition := .backref 1)
    (by decide +kernel)
    (by rw [C15_cond_number _ _ _ (by decide)]; exact isOk3_sound (by decide +kernel))
    (isOkVal_sound (by decide +kernel))
    (isOk3_sound (by decide +kernel)) (by omega) rfl (isOkVal_sound (by decide +kernel))

/-- the same for the general condition `\\1` of `(a)(?(\\1)b|c)` (fix F21): the hypotheses of
    `C15_parse_yes_no` and of `C15_general_condition_kept` hold there, the condition stays
    `Backref(1)` -/
example :
    parseConditional (fun c => c.isAlphanum) 51 (bytesOf "(a)(?(\\1)b|c)".toList) st0 6 1 =
      .ok (13, .cond (.backref 1) (.literal ['b'] false) (.literal ['c'] false),
        { st1 with lastReHadAlt := true }) :=
  C15_parse_yes_no _ (b := ch '\\') (next := 8) (next2 := 9) (end_ := 12) (st1 := st1)
    (condition := .backref 1)
    (by decide +kernel)
    (by rw [C15_cond_expr _ _ _ (by decide) (by decide) (by decide)]
        exact isOk3_sound (by decide +kernel))
    (isOkVal_sound (by decide +kernel))
    (isOk3_sound (by decide +kernel)) (by omega) rfl (isOkVal_sound (by decide +kernel))

example {after : Nat} {e : Expr} {st' : PState}
    (h : parseConditional (fun c => c.isAlphanum) 51 (bytesOf "(a)(?(\\1)b|c)".toList) st0 6 1 =
      .ok (after, e, st')) : e = .backref 1 ∨ ∃ y n, e = .cond (.backref 1) y n :=
  C15_general_condition_kept _ (b := ch '\\') (next := 8) (st1 := st1) (by decide +kernel)
    (by decide) (by decide) (by decide) (isOk3_sound (by decide +kernel)) h

/-! ### fix F21 on concrete patterns -/

/-- **`(?(\1)yes|no)` tries `\1` as an expression** (fix F21): the pattern `(a)(?(\1)b|c)` parses to a
    `Conditional` whose condition is the back-reference expression `Backref(1)`; `(a)(?(1)b|c)`
    to the group test `BackrefExistsCondition(1)` -/
theorem C15_general_backref_condition :
    parseStr (fun c => c.isAlphanum) "(a)(?(\\1)b|c)".toList false =
      .ok ⟨.concat [.group 0 (.literal ['a'] false),
        .cond (.backref 1) (.literal ['b'] false) (.literal ['c'] false)], [1], []⟩ ∧
    parseStr (fun c => c.isAlphanum) "(a)(?(1)b|c)".toList false =
      .ok ⟨.concat [.group 0 (.literal ['a'] false),
        .cond (.backrefExists 1) (.literal ['b'] false) (.literal ['c'] false)], [1], []⟩ :=
  ⟨isTree_sound (by decide +kernel), isTree_sound (by decide +kernel)⟩

/-- `(?(\1))` — a general condition without a body — is the error "expected conditional to be a
    backreference or at least an expression for when the condition is true" at the closing `)`
    (byte 9), as for every expression; the bare group test `(?(1))` is still
    `BackrefExistsCondition(1)` -/
theorem C15_general_backref_bare :
    parseStr (fun c => c.isAlphanum) "(a)(?(\\1))".toList false =
      .err (.general .expectedConditional) 9 ∧
    parseStr (fun c => c.isAlphanum) "(a)(?(1))".toList false =
      .ok ⟨.concat [.group 0 (.literal ['a'] false), .backrefExists 1], [1], []⟩ :=
  ⟨isErr_sound (by decide +kernel), isTree_sound (by decide +kernel)⟩

/-! ### Tests by evaluation of the whole parser (concrete patterns, not the general claim) -/

/-- shorthand for the tests -/
private def P (s : String) : Res Tree := parseStr (fun c => c.isAlphanum) s.toList false
private def a : Expr := .literal ['a'] false
private def b : Expr := .literal ['b'] false
private def c : Expr := .literal ['c'] false
private def dd : Expr := .literal ['d'] false

-- `(?(N)yes|no)`, `(?(N)yes)`, `(?(N))`
example : P "(a)(?(1)b|c)" = .ok ⟨.concat [.group 0 a, .cond (.backrefExists 1) b c], [1], []⟩ :=
  isTree_sound (by decide +kernel)
example : P "(a)(?(1)b)" = .ok ⟨.concat [.group 0 a, .cond (.backrefExists 1) b .empty], [1], []⟩ :=
  isTree_sound (by decide +kernel)
example : P "(a)(?(1))" = .ok ⟨.concat [.group 0 a, .backrefExists 1], [1], []⟩ :=
  isTree_sound (by decide +kernel)
-- by name
example : P "(?<n>a)(?(<n>)b|c)" =
    .ok ⟨.concat [.group 0 a, .cond (.backrefExists 1) b c], [1], [([110], 1)]⟩ :=
  isTree_sound (by decide +kernel)
example : P "(?<n>a)(?('n')b)" =
    .ok ⟨.concat [.group 0 a, .cond (.backrefExists 1) b .empty], [1], [([110], 1)]⟩ :=
  isTree_sound (by decide +kernel)
-- fix F21: a back-reference expression as condition is a general condition
example : P "(a)(?((?:\\1))b|c)" = .ok ⟨.concat [.group 0 a, .cond (.backref 1) b c], [1], []⟩ :=
  isTree_sound (by decide +kernel)
example : P "(a)(?(\\1)b)" = .ok ⟨.concat [.group 0 a, .cond (.backref 1) b .empty], [1], []⟩ :=
  isTree_sound (by decide +kernel)
example : P "(?<n>a)(?(\\k<n>)b|c)" =
    .ok ⟨.concat [.group 0 a, .cond (.backref 1) b c], [1], [([110], 1)]⟩ :=
  isTree_sound (by decide +kernel)
example : P "(a)(?(\\1)(?i))" = .ok ⟨.concat [.group 0 a, .backref 1], [1], []⟩ :=
  isTree_sound (by decide +kernel)
-- a general condition
example : P "(?(a)b|c)" = .ok ⟨.cond a b c, [], []⟩ := isTree_sound (by decide +kernel)
example : P "(?(a))" = .err (.general .expectedConditional) 5 := isErr_sound (by decide +kernel)
-- F16: an alternation inside a group (capturing or not) is ONE branch
example : P "(a)(?(1)(?:b|c))" =
    .ok ⟨.concat [.group 0 a, .cond (.backrefExists 1) (.alt [b, c]) .empty], [1], []⟩ :=
  isTree_sound (by decide +kernel)
example : P "(a)(?(1)(b|c))" =
    .ok ⟨.concat [.group 0 a, .cond (.backrefExists 1) (.group 0 (.alt [b, c])) .empty], [1], []⟩ :=
  isTree_sound (by decide +kernel)
-- F13: `(?(1)|)` has two empty branches, `(?(1))` is the bare test
example : P "(a)(?(1)|)" = .ok ⟨.concat [.group 0 a, .cond (.backrefExists 1) .empty .empty], [1], []⟩ :=
  isTree_sound (by decide +kernel)
-- three alternatives: the first is `yes`, the rest `no`
example : P "(a)(?(1)b|c|d)" =
    .ok ⟨.concat [.group 0 a, .cond (.backrefExists 1) b (.alt [c, dd])], [1], []⟩ :=
  isTree_sound (by decide +kernel)
-- a body that is only an inline flag group: the condition alone
example : P "(a)(?(1)(?i))" = .ok ⟨.concat [.group 0 a, .backrefExists 1], [1], []⟩ :=
  isTree_sound (by decide +kernel)

end Fancy.Parse
