import FancyModel.Proofs.C08
/-!
# C08b — the iterator state machine equals the property's wording

`Spec/ApiSpec.lean` writes the C08 sentence "repeatedly taking the leftmost match from the previous
end, stepping one character after an empty match and dropping an empty match adjacent to the
previous match" as the algorithm `ApiSpec.iter`. Here: the mirror of `Matches::next` /
`CaptureMatches::next` (`Api.Iter`, drained by `findIter` / `capturesIter`) yields exactly that
sequence, for every well-formed search oracle; and none of the fuel / item caps on either side is
ever the reason a side stops.

* `C08_eq_spec`            — `find_iter`, error-free oracle
* `C08_eq_spec_captures`   — `captures_iter`, error-free oracle, arbitrary span projection
* `C08_eq_spec_until_error`— oracle that may fail: the `Ok` items are a prefix of the spec
  iteration of *any* error-free well-formed search that agrees with the oracle where it succeeds,
  followed by exactly one `Err` item (or the full spec sequence if no error occurs)
* `C08_eq_spec_restrict`   — the same with the canonical restriction (error ↦ no match): equality
-/
namespace Fancy.Api
open Fancy.Utf8 Fancy.ApiSpec

variable {α : Type}

/-! ### `iterFrom`: one-step unfolding and fuel independence -/

/-- the `skipped` flag of `ApiSpec.iterFrom` -/
def skipFlag (pos : Nat) (prevEnd : Option Nat) : Bool :=
  match prevEnd with
  | some pe => decide (pos > pe)
  | none => false

theorem flag_eq_skipFlag (it : Iter) : it.flag = skipFlag it.lastEnd it.lastMatch := by
  unfold Iter.flag skipFlag
  cases it.lastMatch <;> rfl

theorem iterFrom_succ (search : Nat → Bool → Option (Nat × Nat)) (text : Bytes) (F pos : Nat)
    (pe : Option Nat) :
    iterFrom search text (F + 1) pos pe =
      if pos > text.length then [] else
      match search pos (skipFlag pos pe) with
      | none => []
      | some (s, e) =>
        if s == e then
          if some e == pe then iterFrom search text F (nextUtf8 text e) pe
          else (s, e) :: iterFrom search text F (nextUtf8 text e) (some e)
        else (s, e) :: iterFrom search text F e (some e) := by
  cases pe <;> rfl

theorem iterFrom_past (search : Nat → Bool → Option (Nat × Nat)) (text : Bytes) (F pos : Nat)
    (pe : Option Nat) (h : pos > text.length) : iterFrom search text F pos pe = [] := by
  cases F with
  | zero => rfl
  | succ F => rw [iterFrom_succ]; simp [h]

/-- a search that reports matches at or after the search position -/
def WFSearch (search : Nat → Bool → Option (Nat × Nat)) : Prop :=
  ∀ p fl s e, search p fl = some (s, e) → p ≤ s ∧ s ≤ e

/-- **the fuel of `ApiSpec.iterFrom` is never what stops it**: any two fuels of at least
    `len + 2 - pos` give the same sequence (every step moves the position strictly forward) -/
theorem iterFrom_fuel (search : Nat → Bool → Option (Nat × Nat)) (text : Bytes)
    (hw : WFSearch search) (F F' pos : Nat) (pe : Option Nat)
    (h1 : text.length + 2 ≤ F + pos) (h2 : text.length + 2 ≤ F' + pos) :
    iterFrom search text F pos pe = iterFrom search text F' pos pe := by
  induction F generalizing F' pos pe with
  | zero =>
    rw [iterFrom_past _ _ _ _ _ (by omega), iterFrom_past _ _ _ _ _ (by omega)]
  | succ F ih =>
    cases F' with
    | zero => rw [iterFrom_past _ _ _ _ _ (by omega), iterFrom_past _ _ _ _ _ (by omega)]
    | succ F' =>
      rw [iterFrom_succ, iterFrom_succ]
      by_cases hp : pos > text.length
      · simp [hp]
      · simp only [hp, if_false]
        cases hs : search pos (skipFlag pos pe) with
        | none => rfl
        | some se =>
          obtain ⟨s, e⟩ := se
          obtain ⟨w1, w2⟩ := hw _ _ _ _ hs
          have hn := nextUtf8_gt text e
          simp only
          by_cases hse : (s == e) = true
          · simp only [hse, if_true]
            by_cases hadj : (some e == pe) = true
            · simp only [hadj, if_true]
              exact ih _ _ _ (by omega) (by omega)
            · rw [if_neg hadj, if_neg hadj, ih F' _ _ (by omega) (by omega)]
          · rw [if_neg hse, if_neg hse]
            have : s ≠ e := by simpa using hse
            rw [ih F' _ _ (by omega) (by omega)]

/-! ### One `next()` against one round of the spec -/

/-- the spec-level search induced by an `α`-valued search and a span projection -/
def spanSearch (search : Nat → Bool → Option α) (span : α → Nat × Nat) :
    Nat → Bool → Option (Nat × Nat) :=
  fun p fl => (search p fl).map span

/-- `search` is an error-free completion of the oracle `f` -/
def Agrees (f : Oracle α) (search : Nat → Bool → Option α) : Prop :=
  ∀ p fl r, f p fl = .ok r → search p fl = r

/-- well-formedness of an error-free search (= `WFOracle` of the oracle that wraps it) -/
abbrev WFS (search : Nat → Bool → Option α) (span : α → Nat × Nat) (len : Nat) : Prop :=
  WFOracle (fun p fl => .ok (search p fl)) span len

theorem WFS.wfSearch {search : Nat → Bool → Option α} {span : α → Nat × Nat} {len : Nat}
    (h : WFS search span len) : WFSearch (spanSearch search span) := by
  intro p fl s e hs
  unfold spanSearch at hs
  cases ha : search p fl with
  | none => simp [ha] at hs
  | some a =>
    simp only [ha, Option.map_some, Option.some.injEq] at hs
    obtain ⟨w1, w2, _⟩ := h p fl a (by simp [ha])
    rw [hs] at w1 w2
    exact ⟨w1, w2⟩

/-- the relation between the result `r` of one `next()` from state `it` (new state `it'`) and the
    spec sequence from `it` -/
def NextSpec (f : Oracle α) (S : Nat → Bool → Option (Nat × Nat)) (span : α → Nat × Nat)
    (text : Bytes) (F : Nat) (it it' : Iter) : Option (Except SearchErr α) → Prop
  | none => iterFrom S text F it.lastEnd it.lastMatch = []
  | some (.ok a) =>
      it.lastEnd < it'.lastEnd ∧
      ∀ F', text.length + 2 ≤ F' + it'.lastEnd →
        iterFrom S text F it.lastEnd it.lastMatch = span a :: iterFrom S text F' it'.lastEnd it'.lastMatch
  | some (.error e) => ∃ p fl, f p fl = .error e

/-- what one call of `next()` (with enough recursion fuel) does, in terms of the spec:
    * `None`     — the spec sequence from this state is empty;
    * `Some(Ok)` — the spec sequence from this state is that match followed by the spec sequence
                   from the new state, and the search position moved strictly forward;
    * `Some(Err)`— the oracle returned that error. -/
theorem next_vs_spec (f : Oracle α) (search : Nat → Bool → Option α) (span : α → Nat × Nat)
    (text : Bytes) (hag : Agrees f search) (hwf : WFS search span text.length)
    (k : Nat) (it : Iter) (F : Nat)
    (hk : text.length + 1 ≤ k + it.lastEnd) (hF : text.length + 2 ≤ F + it.lastEnd)
    (r : Option (Except SearchErr α)) (it' : Iter) (oof : Bool)
    (h : Iter.next f span text (k + 1) it = (r, it', oof)) :
    NextSpec f (spanSearch search span) span text F it it' r := by
  have hws := hwf.wfSearch
  induction k generalizing it F with
  | zero =>
    have hgt : it.lastEnd > text.length := by omega
    simp only [Iter.next, hgt, if_true, Prod.mk.injEq] at h
    obtain ⟨rfl, _, _⟩ := h
    exact iterFrom_past _ _ _ _ _ hgt
  | succ k ih =>
    unfold Iter.next at h
    by_cases hgt : it.lastEnd > text.length
    · simp only [hgt, if_true, Prod.mk.injEq] at h
      obtain ⟨rfl, _, _⟩ := h
      exact iterFrom_past _ _ _ _ _ hgt
    · simp only [hgt, if_false] at h
      obtain ⟨F0, rfl⟩ : ∃ F0, F = F0 + 1 := ⟨F - 1, by omega⟩
      cases hf : f it.lastEnd it.flag with
      | error e =>
        simp only [hf, Prod.mk.injEq] at h
        obtain ⟨rfl, _, _⟩ := h
        exact ⟨_, _, hf⟩
      | ok res =>
        have hs := hag _ _ _ hf
        cases res with
        | none =>
          simp only [hf, Prod.mk.injEq] at h
          obtain ⟨rfl, _, _⟩ := h
          show iterFrom _ _ _ _ _ = []
          have hS : spanSearch search span it.lastEnd (skipFlag it.lastEnd it.lastMatch) = none := by
            unfold spanSearch; rw [← flag_eq_skipFlag, hs]; rfl
          rw [iterFrom_succ, if_neg hgt, hS]
        | some a =>
          simp only [hf] at h
          obtain ⟨w1, w2, w3⟩ := hwf it.lastEnd it.flag a (by simp [hs])
          have hS : spanSearch search span it.lastEnd (skipFlag it.lastEnd it.lastMatch) =
              some (span a) := by
            unfold spanSearch; rw [← flag_eq_skipFlag, hs]; rfl
          generalize hsp : span a = se at h w1 w2 w3 hS
          obtain ⟨s0, e0⟩ := se
          simp only at h w1 w2 w3
          have hn := nextUtf8_gt text e0
          have hunf := iterFrom_succ (spanSearch search span) text F0 it.lastEnd it.lastMatch
          simp only [hgt, if_false, hS] at hunf
          by_cases hse : (s0 == e0) = true
          · simp only [hse, if_true] at h hunf
            by_cases hadj : (some e0 == it.lastMatch) = true
            · -- dropped empty match adjacent to the previous match
              simp only [hadj, if_true] at h hunf
              have := ih { it with lastEnd := nextUtf8 text e0 } F0
                (by simp only; omega) (by simp only; omega) h
              cases r with
              | none =>
                simp only [NextSpec] at this ⊢
                rw [hunf]; exact this
              | some x =>
                cases x with
                | error e => exact this
                | ok a' =>
                  simp only [NextSpec] at this ⊢
                  obtain ⟨t1, t2⟩ := this
                  refine ⟨by omega, ?_⟩
                  intro F' hF'
                  rw [hunf]; exact t2 F' hF'
            · rw [if_neg hadj] at h hunf
              simp only [Prod.mk.injEq] at h
              obtain ⟨rfl, rfl, _⟩ := h
              refine ⟨by simp only; omega, ?_⟩
              intro F' hF'
              simp only at hF' ⊢
              rw [hunf, hsp,
                iterFrom_fuel _ text hws F0 F' _ _ (by omega) hF']
          · rw [if_neg hse] at h hunf
            simp only [Prod.mk.injEq] at h
            have hne : s0 ≠ e0 := by simpa using hse
            obtain ⟨rfl, rfl, _⟩ := h
            refine ⟨by simp only; omega, ?_⟩
            intro F' hF'
            simp only at hF' ⊢
            rw [hunf, hsp,
              iterFrom_fuel _ text hws F0 F' _ _ (by omega) hF']

/-! ### Draining the iterator against the spec -/

/-- the general statement, from any iterator state, with any adequate caps: the drained iterator is
    either the whole spec sequence, or a prefix of it followed by one error the oracle returned -/
theorem collect_vs_spec (f : Oracle α) (search : Nat → Bool → Option α) (span : α → Nat × Nat)
    (text : Bytes) (hag : Agrees f search) (hwf : WFS search span text.length)
    (n : Nat) (it : Iter) (F : Nat)
    (hn : text.length + 1 ≤ n + it.lastEnd) (hF : text.length + 2 ≤ F + it.lastEnd) :
    ∃ as : List α,
      (Iter.collect f span text n it = as.map Except.ok ∧
        as.map span = iterFrom (spanSearch search span) text F it.lastEnd it.lastMatch) ∨
      (∃ e, Iter.collect f span text n it = as.map Except.ok ++ [.error e] ∧
        as.map span <+: iterFrom (spanSearch search span) text F it.lastEnd it.lastMatch ∧
        ∃ p fl, f p fl = .error e) := by
  induction n generalizing it F with
  | zero =>
    refine ⟨[], Or.inl ⟨rfl, ?_⟩⟩
    rw [iterFrom_past _ _ _ _ _ (by omega)]; rfl
  | succ n ih =>
    unfold Iter.collect
    generalize hnx : Iter.next f span text (text.length + 2) it = res
    obtain ⟨r, it', oof⟩ := res
    have hsp := next_vs_spec f search span text hag hwf (text.length + 1) it F (by omega) hF
      r it' oof hnx
    cases r with
    | none =>
      simp only at hsp ⊢
      exact ⟨[], Or.inl ⟨rfl, by rw [hsp]; rfl⟩⟩
    | some x =>
      cases x with
      | error e =>
        simp only at hsp ⊢
        have hstop : Iter.collect f span text n it' = [] := by
          apply C08_err_stops f span text (n + 1) it [] e
          rw [Iter.collect, hnx]; rfl
        refine ⟨[], Or.inr ⟨e, by rw [hstop]; rfl, ?_, hsp⟩⟩
        exact List.nil_prefix
      | ok a =>
        simp only at hsp ⊢
        obtain ⟨hlt, hrest⟩ := hsp
        obtain ⟨as, has⟩ := ih it' (text.length + 2) (by omega) (by omega)
        rw [hrest (text.length + 2) (by omega)]
        refine ⟨a :: as, ?_⟩
        rcases has with ⟨h1, h2⟩ | ⟨e, h1, h2, h3⟩
        · left
          exact ⟨by rw [h1]; rfl, by rw [List.map_cons, h2]⟩
        · right
          refine ⟨e, by rw [h1]; rfl, ?_, h3⟩
          rw [List.map_cons]
          exact List.prefix_cons_inj _ |>.mpr h2

/-- the caps of `ApiSpec.iter` and of `capturesIter` / `findIter` are adequate -/
theorem drain_vs_spec (f : Oracle α) (search : Nat → Bool → Option α) (span : α → Nat × Nat)
    (text : Bytes) (hag : Agrees f search) (hwf : WFS search span text.length) :
    ∃ as : List α,
      (capturesIter f span text = as.map Except.ok ∧
        as.map span = ApiSpec.iter (spanSearch search span) text) ∨
      (∃ e, capturesIter f span text = as.map Except.ok ++ [.error e] ∧
        as.map span <+: ApiSpec.iter (spanSearch search span) text ∧
        ∃ p fl, f p fl = .error e) :=
  collect_vs_spec f search span text hag hwf (text.length + 3) Iter.start
    (2 * text.length + 4) (by omega) (by omega)

/-! ### The property theorems -/

/-- **C08 (captures_iter), "the sequence equals the one obtained by repeatedly taking the reference
    leftmost match from the previous end, stepping one character after an empty match and dropping
    an empty match adjacent to the previous match"**: for every error-free well-formed search
    (`search`, values of any type `α` with a span projection), `captures_iter` yields only `Ok`
    items and their spans are exactly `ApiSpec.iter` of the span-projected search. -/
theorem C08_eq_spec_captures (search : Nat → Bool → Option α) (span : α → Nat × Nat) (text : Bytes)
    (hwf : WFOracle (fun pos flag => .ok (search pos flag)) span text.length) :
    ∃ as : List α,
      capturesIter (fun pos flag => .ok (search pos flag)) span text = as.map Except.ok ∧
      as.map span = ApiSpec.iter (fun p fl => (search p fl).map span) text := by
  obtain ⟨as, h | ⟨e, _, _, p, fl, he⟩⟩ :=
    drain_vs_spec (fun pos flag => .ok (search pos flag)) search span text
      (by intro p fl r h; simpa using h) hwf
  · exact ⟨as, h⟩
  · simp at he

/-- the same, as an equation between the lists of spans -/
theorem C08_eq_spec_captures_spans (search : Nat → Bool → Option α) (span : α → Nat × Nat)
    (text : Bytes) (hwf : WFOracle (fun pos flag => .ok (search pos flag)) span text.length) :
    (capturesIter (fun pos flag => .ok (search pos flag)) span text).map
        (fun r => match r with | .ok a => Except.ok (span a) | .error e => .error e) =
      (ApiSpec.iter (fun p fl => (search p fl).map span) text).map Except.ok := by
  obtain ⟨as, h1, h2⟩ := C08_eq_spec_captures search span text hwf
  rw [h1, ← h2, List.map_map, List.map_map]
  rfl

/-- **C08 (find_iter) equals the property's wording**: for every error-free well-formed oracle,
    `find_iter` is exactly `ApiSpec.iter` (every item `Ok`). -/
theorem C08_eq_spec (search : Nat → Bool → Option (Nat × Nat)) (text : Bytes)
    (hwf : WFOracle (fun pos flag => .ok (search pos flag)) id text.length) :
    findIter (fun pos flag => .ok (search pos flag)) text =
      (ApiSpec.iter search text).map Except.ok := by
  obtain ⟨as, h1, h2⟩ := C08_eq_spec_captures search id text hwf
  have hid : (fun p fl => (search p fl).map id) = search := by
    funext p fl; simp
  rw [hid, List.map_id] at h2
  rw [← h2]
  exact h1

/-- **C08, oracle that may fail**: let `search` be any error-free well-formed search that agrees
    with the oracle wherever the oracle succeeds (e.g. the reference search, when the engine's only
    failures are its limits). Then `captures_iter` is
    * either all `Ok`, with spans exactly the spec iteration of `search`,
    * or `Ok` items whose spans are a prefix of the spec iteration of `search`, followed by exactly
      one `Err` item, which is the last item and is an error the oracle returned. -/
theorem C08_eq_spec_until_error (f : Oracle α) (search : Nat → Bool → Option α)
    (span : α → Nat × Nat) (text : Bytes)
    (hag : ∀ p fl r, f p fl = .ok r → search p fl = r)
    (hwf : WFOracle (fun pos flag => .ok (search pos flag)) span text.length) :
    ∃ as : List α,
      (capturesIter f span text = as.map Except.ok ∧
        as.map span = ApiSpec.iter (fun p fl => (search p fl).map span) text) ∨
      (∃ e, capturesIter f span text = as.map Except.ok ++ [.error e] ∧
        as.map span <+: ApiSpec.iter (fun p fl => (search p fl).map span) text ∧
        ∃ p fl, f p fl = .error e) :=
  drain_vs_spec f search span text hag hwf

/-- the error-free restriction of an oracle: an error counts as "no match" -/
def restrict (f : Oracle α) : Nat → Bool → Option α :=
  fun p fl => match f p fl with
    | .ok r => r
    | .error _ => none

/-- with the canonical restriction the `Ok` items are the *whole* spec iteration (the spec stops
    where the oracle fails), and an `Err` item, if any, is the last one -/
theorem C08_eq_spec_restrict (f : Oracle α) (span : α → Nat × Nat) (text : Bytes)
    (hwf : WFOracle f span text.length) :
    ∃ (as : List α) (tail : List (Except SearchErr α)),
      capturesIter f span text = as.map Except.ok ++ tail ∧
      (tail = [] ∨ ∃ e, tail = [.error e] ∧ ∃ p fl, f p fl = .error e) ∧
      as.map span <+: ApiSpec.iter (fun p fl => (restrict f p fl).map span) text ∧
      (tail = [] → as.map span = ApiSpec.iter (fun p fl => (restrict f p fl).map span) text) := by
  have hag : ∀ p fl r, f p fl = .ok r → restrict f p fl = r := by
    intro p fl r h; simp [restrict, h]
  have hwf' : WFOracle (fun pos flag => .ok (restrict f pos flag)) span text.length := by
    intro p fl a h
    simp only [Except.ok.injEq] at h
    unfold restrict at h
    cases hf : f p fl with
    | error e => simp [hf] at h
    | ok r =>
      simp only [hf] at h
      subst h
      exact hwf p fl a hf
  obtain ⟨as, ⟨h1, h2⟩ | ⟨e, h1, h2, h3⟩⟩ := C08_eq_spec_until_error f (restrict f) span text hag hwf'
  · exact ⟨as, [], by simpa using h1, Or.inl rfl, by rw [h2]; exact List.prefix_rfl, fun _ => h2⟩
  · exact ⟨as, [.error e], h1, Or.inr ⟨e, rfl, h3⟩, h2, by simp⟩

/-! ### Non-vacuity -/

/-- the error-free search behind `demoOracle` (`a*` on "aab") -/
def demoSearch : Nat → Bool → Option (Nat × Nat) := fun pos _ =>
  if pos ≤ 0 then some (0, 2)
  else if pos ≤ 3 then some (max pos 2 |> fun p => if p == 2 then (2, 2) else (3, 3)) else none

theorem demoSearch_wf : WFOracle (fun pos flag => .ok (demoSearch pos flag)) id 3 := by
  intro pos flag a h
  simp only [demoSearch, Except.ok.injEq] at h
  split at h
  · simp only [Option.some.injEq] at h; subst h; simp; omega
  · split at h
    · simp only [Option.some.injEq] at h
      subst h
      simp only [id]
      split <;> simp_all <;> omega
    · simp at h

/-- the hypotheses of `C08_eq_spec` hold for `a*` on "aab"; the sequence has a non-empty match, a
    dropped adjacent empty match (at 2) and a yielded empty match (at 3) -/
example : WFOracle (fun pos flag => .ok (demoSearch pos flag)) id [97, 97, 98].length := demoSearch_wf
example : ApiSpec.iter demoSearch [97, 97, 98] = [(0, 2), (3, 3)] := by rfl
example : findIter (fun pos flag => .ok (demoSearch pos flag)) [97, 97, 98] =
    (ApiSpec.iter demoSearch [97, 97, 98]).map Except.ok :=
  C08_eq_spec demoSearch _ demoSearch_wf

/-- `C08_eq_spec_captures` with a non-trivial span projection (`α` = span plus a tag) -/
example : ∃ as : List ((Nat × Nat) × String),
    capturesIter (fun pos flag => .ok ((demoSearch pos flag).map (fun s => (s, "cap")))) Prod.fst
      [97, 97, 98] = as.map Except.ok ∧
    as.map Prod.fst = ApiSpec.iter
      (fun p fl => ((demoSearch p fl).map (fun s => (s, "cap"))).map Prod.fst) [97, 97, 98] :=
  C08_eq_spec_captures _ _ _ (by
    intro pos flag a h
    simp only [Except.ok.injEq, Option.map_eq_some_iff] at h
    obtain ⟨s, hs, rfl⟩ := h
    exact demoSearch_wf pos flag s (by simp [hs]))

/-- an oracle that fails (at position 3) and agrees with `demoSearch` elsewhere: one `Ok` item, a
    prefix of the spec sequence, then the error -/
def demoFailing : Oracle (Nat × Nat) := fun pos flag =>
  if pos == 3 then .error .limit else .ok (demoSearch pos flag)

example : ∀ p fl r, demoFailing p fl = .ok r → demoSearch p fl = r := by
  intro p fl r h
  unfold demoFailing at h
  split at h
  · simp at h
  · simpa using h
example : findIter demoFailing [97, 97, 98] = [.ok (0, 2), .error .limit] := by rfl

end Fancy.Api
