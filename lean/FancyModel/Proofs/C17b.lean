import FancyModel.Proofs.C06b
import FancyModel.Proofs.C17
/-!
# C17 (parser part) — `Regex::new(escape(s))` parses to the literal tree of `s`

Closes the gap stated in Proofs/C17.lean ("the recursive-descent parser is not modelled"): with the
parser model `Model/Parse.lean`, for **every** string `s`

* `C17_parse_escaped`: `parseStr isAlnum (pushQuoted Generated.isSpecial s) false = .ok ⟨litTree s, [], []⟩`
  (`C17_parse_escapeStr` for `escape` with its borrowed case, `C17_parse_escaped_ci` for either
  value of the builder's `case_insensitive` option);
* `C17_escape_compiles_to_literal`: the reference semantics / reference search of that tree finds
  the first literal occurrence of `s`.

The loop invariant of `parse_branch` (`branchLoop_escaped`): the remaining bytes are the encoding
of `pushQuoted isSpecial rest`; each step is either `\` + a special character (→ `parse_escape`,
which for these 15 bytes falls through its whole chain to the final `make_literal`:
`special_escPlain`, decided over the **regenerated** table `Generated.specialChars`) or a character
that is not special (→ the literal arm of `parse_atom`, because its lead byte is not the byte of a
special character: `lead_plain`); after either, the next byte is a backslash or the lead byte of a
non-special character, hence never a quantifier, `{`, or `(?#` (`head_quiet`), so `parse_piece`
returns the atom unchanged.  The `x` flag is off (the parser starts with it off and an escaped
string contains no flag group), so no white space or `#` is skipped.  Nothing depends on
`is_alphanumeric`.
-/
namespace Fancy.Parse
open Fancy.Utf8 (codepointLen isLead)
open Fancy

@[simp] theorem Res.ok_bind {α β : Type} (a : α) (f : α → Res β) : (Res.ok a >>= f) = f a := rfl
@[simp] theorem Res.pure_bind' {α β : Type} (a : α) (f : α → Res β) : ((pure a : Res α) >>= f) = f a := rfl

/-- what the escape chain needs of a special byte -/
def escPlain (b : Nat) : Bool :=
  !isDigit b && !(b == ch 'k') && !(b == ch 'A') && !(b == ch 'z') && !(b == ch 'Z') && !(b == ch 'b') &&
  !(b == ch 'B') && !(b == ch '<') && !(b == ch '>') &&
  !((b ||| 32) == ch 'd' || (b ||| 32) == ch 's' || (b ||| 32) == ch 'w') && !((b ||| 32) == ch 'h') &&
  !(b == ch 'x') && !(b == ch 'u') && !(b == ch 'U') && !((b ||| 32) == ch 'p') && !(b == ch 'K') &&
  !(b == ch 'G') && !(b == ch 'g') && !(b == ch 'a') && !(b == ch 'f') && !(b == ch 'n') && !(b == ch 'r') &&
  !(b == ch 't') && !(b == ch 'v') && !(b == ch 'e') && !(b == ch ' ') && !isAsciiAlphabetic b && decide (b < 128)

theorem special_escPlain : ∀ c ∈ Generated.specialChars, escPlain c.toNat = true := by decide

theorem codepointLen_ascii {b : Nat} (h : b < 128) : codepointLen b = 1 := by
  simp [codepointLen]; omega

theorem get_of_split {re : Bytes} {pre post : List Nat} {b : Nat} (h : re.toList = pre ++ b :: post) :
    re[pre.length]? = some b := by
  rw [← Array.getElem?_toList, h]; simp

theorem extract_of_split {re : Bytes} {pre mid post : List Nat} (h : re.toList = pre ++ (mid ++ post)) :
    (re.extract pre.length (pre.length + mid.length)).toList = mid := by
  rw [Array.toList_extract, List.extract_eq_take_drop, h]; simp

theorem size_of_split {re : Bytes} {pre post : List Nat} (h : re.toList = pre ++ post) :
    re.size = pre.length + post.length := by
  rw [← Array.length_toList, h]; simp

theorem mkChar_toNat (c : Char) : mkChar c.toNat = c := by
  unfold mkChar
  have h : c.toNat.isValidChar := c.valid
  simp only [h, ↓reduceDIte]
  rfl

theorem extract_one {re : Bytes} {i b : Nat} (h : re[i]? = some b) :
    (re.extract i (i + 1)).toList = [b] := by
  have hlt := lt_size_of_get h
  rw [Array.toList_extract, List.extract_eq_take_drop]
  have h' : re.toList[i]? = some b := by simpa using h
  rw [List.drop_eq_getElem_cons (by simpa using hlt)]
  have : re.toList[i] = b := by
    rw [List.getElem?_eq_getElem (by simpa using hlt)] at h'
    exact Option.some.inj h'
  simp [this]

/-- `\` followed by a special (non-alphanumeric ASCII) character is the literal of that
    character, `casei = false` (`make_literal`) -/
theorem parseEscape_plain {re : Bytes} (hwf : WF re) (isAlnum : Char → Bool) (st : PState) {ix : Nat}
    {c : Char} (hg : re[ix]? = some (ch '\\')) (hg1 : re[ix + 1]? = some c.toNat)
    (hc : escPlain c.toNat = true) :
    parseEscape isAlnum re st ix false = .ok (ix + 2, .literal [c] false, st) := by
  simp only [escPlain, Bool.and_eq_true, Bool.not_eq_true', decide_eq_true_eq, Bool.or_eq_false_iff] at hc
  obtain ⟨⟨⟨⟨⟨⟨⟨⟨⟨⟨⟨⟨⟨⟨⟨⟨⟨⟨⟨⟨⟨⟨⟨⟨⟨⟨⟨h1, h2⟩, h3⟩, h4⟩, h5⟩, h6⟩, h7⟩, h8⟩, h9⟩, h10⟩, h11⟩, h12⟩, h13⟩,
    h14⟩, h15⟩, h16⟩, h17⟩, h18⟩, h19⟩, h20⟩, h21⟩, h22⟩, h23⟩, h24⟩, h25⟩, h26⟩, h27⟩, h28⟩ := hc
  have hb1 : isBoundary re (ix + 1) = true := hwf.step_ascii hg (by decide)
  have hb2 : isBoundary re (ix + 2) = true := hwf.step_ascii hg1 h28
  have hcl := codepointLen_ascii h28
  have hsl : slice re (ix + 1) (ix + 2) "parse_escape: self.re[ix + 1..end]" = .ok [c.toNat] := by
    have := isBoundary_le hb2
    have he := extract_one hg1
    simp only [slice, sliceOk, hb1, hb2, this, he]
    simp
  unfold parseEscape
  simp only [hg1, hcl, h1, h2, h3, h4, h5, h6, h7, h8, h9, h10, h11, h12, h13, h14, h15, h16, h17,
    h18, h19, h20, h21, h22, h23, h24, h25, h26, h27, Bool.false_and, Bool.false_eq_true, ↓reduceIte,
    Bool.or_self, hsl, Res.ok_bind, makeLiteral]
  simp [decodeList, h28, mkChar_toNat]

/-! ## `optional_whitespace` stays put -/

/-- without the `x` flag `optional_whitespace` moves only over `(?#…)` comments: at the end of the
    pattern or at a byte other than `(` it returns its argument -/
theorem optWs_stay {re : Bytes} {fl : Flags} {ix : Nat} (hfl : fl.ignoreSpace = false)
    (hle : ix ≤ re.size) (hq : ∀ b, re[ix]? = some b → b ≠ ch '(') : optWs re fl ix = .ok ix := by
  unfold optWs optionalWhitespace
  by_cases hsz : ix = re.size
  · simp [hsz]
  · have hlt : ix < re.size := by omega
    have hne : (ix == re.size) = false := by simpa using hsz
    have hget : re[ix]? = some re[ix] := by simp [hlt]
    have := hq _ hget
    simp only [hne, hget, hfl, Bool.and_false, Bool.false_eq_true, ↓reduceIte]
    have : (re[ix] == ch '(') = false := by simpa using this
    simp [this]

/-- the bytes that may not follow an atom if it is to stay unquantified, or start a comment -/
def quiet (b : Nat) : Bool :=
  !(b == ch '(') && !(b == ch '?') && !(b == ch '*') && !(b == ch '+') && !(b == ch '{')

/-- `parse_piece` adds nothing to an atom that is followed by the end of the pattern or a byte that
    starts neither a quantifier nor a comment (no `x` flag) -/
theorem parsePiece_quiet {re : Bytes} (isAlnum : Char → Bool) {f : Nat} {st st' : PState} {ix ix' depth : Nat}
    {child : Expr} (ha : parseAtom isAlnum f re st ix depth = .ok (ix', child, st'))
    (hfl : st'.flags.ignoreSpace = false) (hle : ix' ≤ re.size)
    (hq : ∀ b, re[ix']? = some b → quiet b = true) :
    parsePiece isAlnum (f + 1) re st ix depth = .ok (ix', child, st') := by
  have hws : optWs re st'.flags ix' = .ok ix' := optWs_stay hfl hle (by
    intro b hb; have := hq b hb
    simp only [quiet, Bool.and_eq_true, Bool.not_eq_true', beq_eq_false_iff_ne] at this
    exact this.1.1.1.1)
  unfold parsePiece
  simp only [ha, Res.ok_bind, hws]
  by_cases hlt : ix' < re.size
  · obtain ⟨b, hget⟩ : ∃ b, re[ix']? = some b := ⟨re[ix'], by simp [hlt]⟩
    have := hq _ hget
    simp only [quiet, Bool.and_eq_true, Bool.not_eq_true'] at this
    obtain ⟨⟨⟨⟨_, h2⟩, h3⟩, h4⟩, h5⟩ := this
    simp only [hlt, ↓reduceIte, byteAt, hget, Res.ok_bind, h2, h3, h4, h5, Bool.false_eq_true,
      Res.pure_bind']
  · simp [hlt]

/-! ## decoding one encoded character -/

theorem mkChar_eq {c : Char} {n : Nat} (h : n = c.toNat) : mkChar n = c := by
  subst h; exact mkChar_toNat c

/-- the decoder inverts the encoder on a scalar value -/
theorem decodeList_encodeChar (c : Char) : decodeList (Utf8.encodeChar c.toNat) = [c] := by
  have hv : c.toNat < 0x110000 := by
    have : c.toNat.isValidChar := c.valid
    unfold Nat.isValidChar at this
    omega
  generalize hn : c.toNat = n at hv
  unfold Utf8.encodeChar
  split
  · rename_i h
    simp only [decodeList, h, ↓reduceIte, List.cons.injEq, and_true]
    exact mkChar_eq hn.symm
  · split
    · rename_i h1 h2
      have e1 : ¬ (0xc0 + n / 64 < 0x80) := by omega
      have e2 : 0xc0 + n / 64 < 0xe0 := by omega
      simp only [decodeList, e1, e2, ↓reduceIte, List.cons.injEq, and_true]
      exact mkChar_eq (by omega)
    · split
      · rename_i h1 h2 h3
        have e1 : ¬ (0xe0 + n / 4096 < 0x80) := by omega
        have e2 : ¬ (0xe0 + n / 4096 < 0xe0) := by omega
        have e3 : 0xe0 + n / 4096 < 0xf0 := by omega
        simp only [decodeList, e1, e2, e3, ↓reduceIte, List.cons.injEq, and_true]
        exact mkChar_eq (by omega)
      · rename_i h1 h2 h3
        have e1 : ¬ (0xf0 + n / 262144 < 0x80) := by omega
        have e2 : ¬ (0xf0 + n / 262144 < 0xe0) := by omega
        have e3 : ¬ (0xf0 + n / 262144 < 0xf0) := by omega
        simp only [decodeList, e1, e2, e3, ↓reduceIte, List.cons.injEq, and_true]
        exact mkChar_eq (by omega)

/-! ## the two kinds of atoms of an escaped string -/

/-- the bytes that start an atom other than a literal -/
def atomPlain (b : Nat) : Bool :=
  !(b == ch '.') && !(b == ch '^') && !(b == ch '$') && !(b == ch '(') && !(b == ch '\\') &&
  !(b == ch '+') && !(b == ch '*') && !(b == ch '?') && !(b == ch '|') && !(b == ch ')') &&
  !(b == ch '[')

theorem parseAtom_escaped {re : Bytes} (hwf : WF re) (isAlnum : Char → Bool) (f : Nat) (st : PState)
    {ix : Nat} (depth : Nat) {c : Char} (hfl : st.flags.ignoreSpace = false)
    (hg : re[ix]? = some (ch '\\')) (hg1 : re[ix + 1]? = some c.toNat)
    (hc : escPlain c.toNat = true) :
    parseAtom isAlnum (f + 1) re st ix depth = .ok (ix + 2, .literal [c] false, st) := by
  have hlt := lt_size_of_get hg
  have hws : optWs re st.flags ix = .ok ix := optWs_stay hfl (by omega) (by
    intro b hb; rw [hg] at hb; cases hb; decide)
  have hne : (ix == re.size) = false := by simpa using (by omega : ix ≠ re.size)
  unfold parseAtom
  simp only [hws, Res.ok_bind, hne, Bool.false_eq_true, ↓reduceIte, byteAt, hg]
  have e1 : (ch '\\' == ch '.') = false := by decide
  have e2 : (ch '\\' == ch '^') = false := by decide
  have e3 : (ch '\\' == ch '$') = false := by decide
  have e4 : (ch '\\' == ch '(') = false := by decide
  simp only [e1, e2, e3, e4, Bool.false_eq_true, ↓reduceIte, beq_self_eq_true]
  exact parseEscape_plain hwf isAlnum st hg hg1 hc

theorem parseAtom_plain {re : Bytes} (hwf : WF re) (isAlnum : Char → Bool) (f : Nat) (st : PState)
    (depth : Nat) {c : Char} {pre post : List Nat}
    (h : re.toList = pre ++ (Utf8.encodeChar c.toNat ++ post))
    (hfl : st.flags.ignoreSpace = false)
    (hb : ∀ b rest, Utf8.encodeChar c.toNat = b :: rest → atomPlain b = true) :
    parseAtom isAlnum (f + 1) re st pre.length depth =
      .ok (pre.length + (Utf8.encodeChar c.toNat).length, .literal [c] st.flags.casei, st) := by
  obtain ⟨b, rest, he, hlead, hcl, _⟩ := Utf8.encodeChar_shape c.toNat
  have hp := hb b rest he
  have hg : re[pre.length]? = some b := get_of_split (post := rest ++ post) (by rw [h, he]; simp)
  have hlt := lt_size_of_get hg
  have hb0 : isBoundary re pre.length = true := isBoundary_of_lead hg hlead
  have hb1 : isBoundary re (pre.length + codepointLen b) = true := hwf.step hg hb0
  have hlen : (Utf8.encodeChar c.toNat).length = codepointLen b := by rw [he, hcl]; simp
  simp only [atomPlain, Bool.and_eq_true, Bool.not_eq_true'] at hp
  obtain ⟨⟨⟨⟨⟨⟨⟨⟨⟨⟨p1, p2⟩, p3⟩, p4⟩, p5⟩, p6⟩, p7⟩, p8⟩, p9⟩, p10⟩, p11⟩ := hp
  have hws : optWs re st.flags pre.length = .ok pre.length := optWs_stay hfl (by omega) (by
    intro b' hb'; rw [hg] at hb'; cases hb'; simpa using p4)
  have hne : (pre.length == re.size) = false := by simpa using (by omega : pre.length ≠ re.size)
  have hsl : slice re pre.length (pre.length + codepointLen b) "parse_atom: self.re[ix..next]" =
      .ok (Utf8.encodeChar c.toNat) := by
    have := isBoundary_le hb1
    have hx := extract_of_split h
    rw [hlen] at hx
    simp only [slice, sliceOk, hb0, hb1, this, hx]
    simp
  unfold parseAtom
  simp only [hws, Res.ok_bind, hne, Bool.false_eq_true, ↓reduceIte, byteAt, hg, p1, p2, p3, p4, p5, p6,
    p7, p8, p9, p10, p11, Bool.or_self, hsl, decodeList_encodeChar, hlen]

/-! ## the bytes of an escaped string -/

/-- UTF-8 bytes of a string -/
def enc (cs : List Char) : List Nat := Utf8.encode (cs.map Char.toNat)

theorem bytesOf_toList (cs : List Char) : (bytesOf cs).toList = enc cs := rfl

theorem enc_nil : enc [] = [] := rfl

theorem enc_cons (c : Char) (cs : List Char) : enc (c :: cs) = Utf8.encodeChar c.toNat ++ enc cs := by
  simp [enc, Utf8.encode]

theorem special_ascii : ∀ c ∈ Generated.specialChars, c.toNat < 128 := by decide

theorem mem_special {c : Char} (h : Generated.isSpecial c = true) : c ∈ Generated.specialChars := by
  simpa [Generated.isSpecial] using h

theorem enc_pushQuoted_special {c : Char} (cs : List Char) (h : Generated.isSpecial c = true) :
    enc (pushQuoted Generated.isSpecial (c :: cs)) =
      ch '\\' :: c.toNat :: enc (pushQuoted Generated.isSpecial cs) := by
  have hc := special_ascii c (mem_special h)
  have e1 : Utf8.encodeChar c.toNat = [c.toNat] := by simp [Utf8.encodeChar, hc]
  have e2 : Utf8.encodeChar 92 = [92] := by decide
  simp [pushQuoted, h, enc_cons, e1, e2]
  rfl

theorem enc_pushQuoted_plain {c : Char} (cs : List Char) (h : Generated.isSpecial c = false) :
    enc (pushQuoted Generated.isSpecial (c :: cs)) =
      Utf8.encodeChar c.toNat ++ enc (pushQuoted Generated.isSpecial cs) := by
  simp [pushQuoted, h, enc_cons]

/-- the lead byte of a character that is not special is not the byte of a special character -/
theorem lead_plain {c : Char} (h : Generated.isSpecial c = false) {b : Nat} {rest : List Nat}
    (he : Utf8.encodeChar c.toNat = b :: rest) : ∀ d ∈ Generated.specialChars, b ≠ d.toNat := by
  intro d hd hbd
  have hd128 := special_ascii d hd
  unfold Utf8.encodeChar at he
  split at he
  · simp only [List.cons.injEq] at he
    have : c = d := Char.toNat_inj.mp (by omega)
    subst this
    have : Generated.isSpecial c = true := by simpa [Generated.isSpecial] using hd
    rw [h] at this; cases this
  · split at he
    · simp only [List.cons.injEq] at he; omega
    · split at he <;> (simp only [List.cons.injEq] at he; omega)

theorem plain_atomPlain {b : Nat} (h : ∀ d ∈ Generated.specialChars, b ≠ d.toNat) :
    atomPlain b = true ∧ quiet b = true := by
  simp only [Generated.specialChars, List.mem_cons, List.not_mem_nil, or_false, forall_eq_or_imp,
    forall_eq] at h
  simp only [atomPlain, quiet, ch, Bool.and_eq_true, Bool.not_eq_true', beq_eq_false_iff_ne]
  simp only [ne_eq, h, not_false_eq_true, and_self]

/-- the escaped string never continues with a quantifier or a comment -/
theorem head_quiet : ∀ (s : List Char) (b : Nat),
    (enc (pushQuoted Generated.isSpecial s)).head? = some b → quiet b = true := by
  intro s b hb
  cases s with
  | nil => simp [pushQuoted, enc_nil] at hb
  | cons c cs =>
    cases hs : Generated.isSpecial c with
    | true =>
      rw [enc_pushQuoted_special cs hs] at hb
      simp only [List.head?_cons, Option.some.injEq] at hb
      subst hb; decide
    | false =>
      rw [enc_pushQuoted_plain cs hs] at hb
      obtain ⟨b', rest, he, _⟩ := Utf8.encodeChar_shape c.toNat
      rw [he] at hb
      simp only [List.cons_append, List.head?_cons, Option.some.injEq] at hb
      subst hb
      exact (plain_atomPlain (lead_plain hs he)).2

/-! ## the loop of `parse_branch` over an escaped string -/

/-- the pieces `parse_branch` collects from `escape(s)`: one single-character literal per
    character of `s`; an escaped (special) character is a `make_literal` (never case-insensitive),
    a plain character carries the `i` flag of the parser -/
def litPieces (ci : Bool) (s : List Char) : List Expr :=
  s.map fun c => Expr.literal [c] (ci && !Generated.isSpecial c)

theorem head_get {re : Bytes} {pre l : List Nat} (h : re.toList = pre ++ l) (b : Nat)
    (hb : re[pre.length]? = some b) : l.head? = some b := by
  rw [← Array.getElem?_toList, h, List.getElem?_append_right (Nat.le_refl _)] at hb
  simpa [List.head?_eq_getElem?] using hb

theorem branchLoop_escaped {re : Bytes} (hwf : WF re) (isAlnum : Char → Bool) (depth : Nat) :
    ∀ (s : List Char) (pre : List Nat) (f : Nat) (st : PState),
    re.toList = pre ++ enc (pushQuoted Generated.isSpecial s) → st.flags.ignoreSpace = false →
    s.length + 2 ≤ f →
    branchLoop isAlnum f re st pre.length depth = .ok (re.size, litPieces st.flags.casei s, st) := by
  intro s
  induction s with
  | nil =>
    intro pre f st h _ hf
    obtain ⟨f, rfl⟩ : ∃ f', f = f' + 1 := ⟨f - 1, by omega⟩
    have hsz := size_of_split h
    simp only [pushQuoted, enc_nil, List.length_nil, Nat.add_zero] at hsz
    unfold branchLoop
    simp [hsz, litPieces]
  | cons c cs ih =>
    intro pre f st h hfl hf
    obtain ⟨f, rfl⟩ : ∃ f', f = f' + 3 := ⟨f - 3, by simp only [List.length_cons] at hf; omega⟩
    simp only [List.length_cons] at hf
    cases hs : Generated.isSpecial c with
    | true =>
      rw [enc_pushQuoted_special cs hs] at h
      have hg : re[pre.length]? = some (ch '\\') := get_of_split h
      have h' : re.toList = (pre ++ [ch '\\', c.toNat]) ++ enc (pushQuoted Generated.isSpecial cs) := by
        rw [h]; simp
      have hg1 : re[pre.length + 1]? = some c.toNat := by
        have := get_of_split (re := re) (pre := pre ++ [ch '\\']) (b := c.toNat)
          (post := enc (pushQuoted Generated.isSpecial cs)) (by rw [h]; simp)
        simpa using this
      have hlen : (pre ++ [ch '\\', c.toNat]).length = pre.length + 2 := by simp
      have hsz := size_of_split h'
      have hatom := parseAtom_escaped hwf isAlnum f st depth hfl hg hg1
        (special_escPlain c (mem_special hs))
      have hpiece := parsePiece_quiet isAlnum hatom hfl (by omega) (by
        intro b hb; rw [← hlen] at hb
        exact head_quiet cs b (head_get h' b hb))
      have hrest := ih (pre ++ [ch '\\', c.toNat]) (f + 2) st h' hfl (by omega)
      rw [hlen] at hrest
      have hlt : pre.length < re.size := by omega
      have hne : (pre.length + 2 == pre.length) = false := by simp
      unfold branchLoop
      simp only [hlt, ↓reduceIte, hpiece, Res.ok_bind, hne, Bool.false_eq_true, hrest, Expr.isEmpty,
        litPieces, List.map_cons, hs, Bool.not_true, Bool.and_false]
    | false =>
      rw [enc_pushQuoted_plain cs hs] at h
      obtain ⟨b, rest, he, _⟩ := Utf8.encodeChar_shape c.toNat
      have hpos : 0 < (Utf8.encodeChar c.toNat).length := by rw [he]; simp
      have h' : re.toList = (pre ++ Utf8.encodeChar c.toNat) ++ enc (pushQuoted Generated.isSpecial cs) := by
        rw [h]; simp
      have hlen : (pre ++ Utf8.encodeChar c.toNat).length = pre.length + (Utf8.encodeChar c.toNat).length := by
        simp
      have hsz := size_of_split h'
      have hatom := parseAtom_plain hwf isAlnum f st depth h hfl (by
        intro b' rest' he'
        exact (plain_atomPlain (lead_plain hs he')).1)
      have hpiece := parsePiece_quiet isAlnum hatom hfl (by omega) (by
        intro b' hb'; rw [← hlen] at hb'
        exact head_quiet cs b' (head_get h' b' hb'))
      have hrest := ih (pre ++ Utf8.encodeChar c.toNat) (f + 2) st h' hfl (by omega)
      rw [hlen] at hrest
      have hlt : pre.length < re.size := by omega
      have hne : (pre.length + (Utf8.encodeChar c.toNat).length == pre.length) = false := by
        have : pre.length + (Utf8.encodeChar c.toNat).length ≠ pre.length := by omega
        simpa using this
      unfold branchLoop
      simp only [hlt, ↓reduceIte, hpiece, Res.ok_bind, hne, Bool.false_eq_true, hrest, Expr.isEmpty,
        litPieces, List.map_cons, hs, Bool.not_false, Bool.and_true]

/-! ## the whole parser on an escaped string -/

/-- what `parse_branch` makes of its pieces -/
def branchTree : List Expr → Expr
  | [] => .empty
  | [c] => c
  | cs => .concat cs

theorem encodeChar_len_pos (n : Nat) : 0 < (Utf8.encodeChar n).length :=
  Utf8.encodeChar_length_pos n

theorem enc_length_ge : ∀ cs : List Char, cs.length ≤ (enc cs).length := by
  intro cs
  induction cs with
  | nil => simp [enc_nil]
  | cons c cs ih =>
    have := encodeChar_len_pos c.toNat
    rw [enc_cons]; simp only [List.length_cons, List.length_append]; omega

theorem pushQuoted_length_ge (sp : Char → Bool) : ∀ s : List Char, s.length ≤ (pushQuoted sp s).length := by
  intro s
  induction s with
  | nil => simp [pushQuoted]
  | cons c cs ih =>
    simp only [pushQuoted]
    split <;> simp only [List.length_cons] <;> omega

theorem parseBranch_escaped {re : Bytes} (hwf : WF re) (isAlnum : Char → Bool) (depth : Nat)
    (s : List Char) (f : Nat) (st : PState)
    (h : re.toList = enc (pushQuoted Generated.isSpecial s)) (hfl : st.flags.ignoreSpace = false)
    (hf : s.length + 3 ≤ f) :
    parseBranch isAlnum f re st 0 depth = .ok (re.size, branchTree (litPieces st.flags.casei s), st) := by
  obtain ⟨f, rfl⟩ : ∃ f', f = f' + 1 := ⟨f - 1, by omega⟩
  have := branchLoop_escaped hwf isAlnum depth s [] f st (by simpa using h) hfl (by omega)
  simp only [List.length_nil] at this
  unfold parseBranch
  simp only [this, Res.ok_bind]
  generalize litPieces st.flags.casei s = l
  match l with
  | [] => rfl
  | [_] => rfl
  | _ :: _ :: _ => rfl

theorem parseRe_escaped {re : Bytes} (hwf : WF re) (isAlnum : Char → Bool) (depth : Nat)
    (s : List Char) (f : Nat) (st : PState)
    (h : re.toList = enc (pushQuoted Generated.isSpecial s)) (hfl : st.flags.ignoreSpace = false)
    (hnb : st.numericBackrefs = false) (hf : s.length + 4 ≤ f) :
    parseRe isAlnum f re st 0 depth =
      .ok (re.size, branchTree (litPieces st.flags.casei s), { st with lastReHadAlt := false }) := by
  obtain ⟨f, rfl⟩ : ∃ f', f = f' + 1 := ⟨f - 1, by omega⟩
  have hb := parseBranch_escaped hwf isAlnum depth s f st h hfl (by omega)
  have hws : optWs re st.flags re.size = .ok re.size :=
    optWs_stay hfl (Nat.le_refl _) (by intro b hb; simp at hb)
  unfold parseRe
  simp [hb, hws, sliceFrom, sliceFromOk, isBoundary_size, hnb]

/-- **C17_parse_escaped** (general form): for every string `s`, whatever `is_alphanumeric` is and
    whether or not the builder's `case_insensitive` option is set, the parser accepts
    `escape(s)` (the model `pushQuoted` of `push_quoted`) and returns exactly what `parse_branch`
    makes of one single-character literal per character of `s` (`Empty` for none, the literal
    itself for one, a `Concat` otherwise), no back-references, no named groups.  A character that
    `escape` quoted is a `make_literal` (`casei = false` always — such a character is never a
    letter), the others carry the option. -/
theorem C17_parse_escaped_ci (isAlnum : Char → Bool) (s : List Char) (casei : Bool) :
    parseStr isAlnum (pushQuoted Generated.isSpecial s) casei =
      .ok ⟨branchTree (litPieces casei s), [], []⟩ := by
  have hwf := WF_bytesOf (pushQuoted Generated.isSpecial s)
  have hlen : s.length ≤ (bytesOf (pushQuoted Generated.isSpecial s)).size := by
    have h1 := pushQuoted_length_ge Generated.isSpecial s
    have h2 := enc_length_ge (pushQuoted Generated.isSpecial s)
    rw [← Array.length_toList, bytesOf_toList]; omega
  have := parseRe_escaped hwf isAlnum 0 s
    (descentFuel (bytesOf (pushQuoted Generated.isSpecial s)).size)
    { flags := { casei := casei } } (bytesOf_toList _) rfl rfl (by simp only [descentFuel]; omega)
  unfold parseStr parseBytes
  simp only [this]
  simp

theorem branchTree_litPieces_false (s : List Char) : branchTree (litPieces false s) = litTree s := by
  unfold litPieces litTree
  match s with
  | [] => rfl
  | [_] => rfl
  | _ :: _ :: _ => simp [branchTree]

/-- **C17_parse_escaped**: `Regex::new(escape(s))` parses, for every `s`, to the literal tree of
    `s` (`litTree` of Proofs/C17.lean: `Empty`, one literal, or the concatenation of the
    single-character literals), with no back-references and no named groups -/
theorem C17_parse_escaped (isAlnum : Char → Bool) (s : List Char) :
    parseStr isAlnum (pushQuoted Generated.isSpecial s) false = .ok ⟨litTree s, [], []⟩ := by
  rw [C17_parse_escaped_ci, branchTree_litPieces_false]

/-- the same for `escape` as the crate exports it (`Cow::Borrowed` when nothing is quoted) -/
theorem C17_parse_escapeStr (isAlnum : Char → Bool) (s : List Char) :
    parseStr isAlnum (escapeStr Generated.isSpecial s) false = .ok ⟨litTree s, [], []⟩ := by
  rw [escapeStr_eq_pushQuoted, C17_parse_escaped]

/-! ## Corollary: what the escaped pattern finds -/

/-- the reference scan with the literal tree of `s` stops at the first position where `s` occurs -/
theorem scanFrom_litTree (c : Ctx) (hceq : ∀ a b, c.ceq false a b = (a == b)) (s : List Char) :
    ∀ (n start : Nat), c.pos ≤ start →
    scanFrom c (litTree s) 1 n start =
      ((List.range' start n).find? fun k => c.litAt false s k).map
        fun k => ⟨[some k, some (k + s.length)]⟩ := by
  intro n
  induction n with
  | zero => intro start _; simp [scanFrom]
  | succ n ih =>
    intro start hs
    unfold scanFrom
    rw [C17_literal_sem c hceq, List.range'_succ, List.find?_cons]
    simp only
    cases hl : c.litAt false s start with
    | true =>
      have h1 : ¬ (start > start + s.length) := by omega
      have h2 : ¬ (start < c.pos) := by omega
      simp [finish, initSlots, St.slot, List.replicate, h1, h2]
    | false =>
      simp only [Bool.false_eq_true, ↓reduceIte, List.head?_nil]
      exact ih (start + 1) (by omega)

/-- **C17_escape_compiles_to_literal**: for every string `s` the pattern `escape(s)` parses (no
    back-references, no named groups) to a tree whose reference semantics at any state is "`s`
    occurs here, and the match ends right after it", so that the reference search returns the
    first position `k ≥ pos` at which `s` occurs literally, with the match `[k, k + |s|)` — or
    nothing if `s` does not occur (what `str::find` computes).  `hceq`: the context compares
    case-sensitively by equality (the instantiation of the engine's table for `casei = false`). -/
theorem C17_escape_compiles_to_literal (isAlnum : Char → Bool) (s : List Char) :
    ∃ t : Tree, parseStr isAlnum (escapeStr Generated.isSpecial s) false = .ok t ∧
      t.backrefs = [] ∧ t.namedGroups = [] ∧
      ∀ (c : Ctx), (∀ a b, c.ceq false a b = (a == b)) →
        (∀ st : St, sem c t.expr st =
          if c.litAt false s st.ix then [{ st with ix := st.ix + s.length }] else []) ∧
        refSearch c t.expr 1 =
          if c.pos ≤ c.len then
            ((List.range' c.pos (c.len - c.pos + 1)).find? fun k => c.litAt false s k).map
              fun k => ⟨[some k, some (k + s.length)]⟩
          else none := by
  refine ⟨⟨litTree s, [], []⟩, C17_parse_escapeStr isAlnum s, rfl, rfl, fun c hceq => ⟨?_, ?_⟩⟩
  · exact C17_literal_sem c hceq s
  · unfold refSearch
    split
    · exact scanFrom_litTree c hceq s _ _ (Nat.le_refl _)
    · rfl

/-! ### Non-vacuity -/

-- `a.b` is escaped to `a\.b`, which parses to the concatenation of the three literals
example : parseStr (fun c => c.isAlphanum) "a\\.b".toList false =
    .ok ⟨.concat [.literal ['a'] false, .literal ['.'] false, .literal ['b'] false], [], []⟩ :=
  C17_parse_escaped _ "a.b".toList
-- with the option set, the plain characters are case-insensitive, the quoted one is not
example : parseStr (fun c => c.isAlphanum) "a\\.b".toList true =
    .ok ⟨.concat [.literal ['a'] true, .literal ['.'] false, .literal ['b'] true], [], []⟩ :=
  C17_parse_escaped_ci _ "a.b".toList true
-- a non-ASCII character and the empty string
example : parseStr (fun c => c.isAlphanum) "é".toList false = .ok ⟨.literal ['é'] false, [], []⟩ :=
  C17_parse_escaped _ "é".toList
example : parseStr (fun c => c.isAlphanum) [] false = .ok ⟨.empty, [], []⟩ :=
  C17_parse_escaped _ []
-- the search: `+` in `1+1=2` is found at 1
example : refSearch ⟨"1+1=2".toList, 0, false, fun _ => false, fun _ _ _ => false, fun _ a b => a == b⟩
    (litTree "+".toList) 1 = some ⟨[some 1, some 2]⟩ := by
  simp [refSearch, Ctx.len, scanFrom, litTree, sem, Ctx.litAt, Ctx.at?, initSlots, finish, St.slot]

/-! ## deciding equality of trees (helpers for the concrete evaluations in C19b / C15c / C14b) -/
mutual
/-- Boolean equality of expression trees (`Expr` is a nested inductive without a derived
    `DecidableEq`); sound by `exprBeq_sound` -/
def exprBeq : Expr → Expr → Bool
  | .empty, .empty => true
  | .any a, .any b => a == b
  | .assertion a, .assertion b => a == b
  | .literal v c, .literal v' c' => v == v' && c == c'
  | .concat es, .concat es' => exprListBeq es es'
  | .alt es, .alt es' => exprListBeq es es'
  | .group g e, .group g' e' => g == g' && exprBeq e e'
  | .look e l, .look e' l' => exprBeq e e' && l == l'
  | .repeat e lo hi gr, .repeat e' lo' hi' gr' => exprBeq e e' && lo == lo' && hi == hi' && gr == gr'
  | .delegate i s c, .delegate i' s' c' => i == i' && s == s' && c == c'
  | .backref g, .backref g' => g == g'
  | .atomic e, .atomic e' => exprBeq e e'
  | .keepOut, .keepOut => true
  | .contPrev, .contPrev => true
  | .backrefExists g, .backrefExists g' => g == g'
  | .cond c y n, .cond c' y' n' => exprBeq c c' && exprBeq y y' && exprBeq n n'
  | .subroutine g, .subroutine g' => g == g'
  | _, _ => false
def exprListBeq : List Expr → List Expr → Bool
  | [], [] => true
  | a :: as, b :: bs => exprBeq a b && exprListBeq as bs
  | _, _ => false
end

mutual
theorem exprBeq_sound : ∀ (a b : Expr), exprBeq a b = true → a = b
  | .empty, b, h => by cases b <;> simp_all [exprBeq]
  | .any _, b, h => by cases b <;> simp_all [exprBeq]
  | .assertion _, b, h => by cases b <;> simp_all [exprBeq]
  | .literal _ _, b, h => by cases b <;> simp_all [exprBeq]
  | .concat es, b, h => by
    cases b <;> simp only [exprBeq] at h <;> try cases h
    rw [exprListBeq_sound es _ h]
  | .alt es, b, h => by
    cases b <;> simp only [exprBeq] at h <;> try cases h
    rw [exprListBeq_sound es _ h]
  | .group _ e, b, h => by
    cases b <;> simp only [exprBeq] at h <;> try cases h
    simp only [Bool.and_eq_true, beq_iff_eq] at h
    rw [h.1, exprBeq_sound e _ h.2]
  | .look e _, b, h => by
    cases b <;> simp only [exprBeq] at h <;> try cases h
    simp only [Bool.and_eq_true, beq_iff_eq] at h
    rw [h.2, exprBeq_sound e _ h.1]
  | .repeat e _ _ _, b, h => by
    cases b <;> simp only [exprBeq] at h <;> try cases h
    simp only [Bool.and_eq_true, beq_iff_eq] at h
    rw [h.2, h.1.2, h.1.1.2, exprBeq_sound e _ h.1.1.1]
  | .delegate _ _ _, b, h => by cases b <;> simp_all [exprBeq]
  | .backref _, b, h => by cases b <;> simp_all [exprBeq]
  | .atomic e, b, h => by
    cases b <;> simp only [exprBeq] at h <;> try cases h
    rw [exprBeq_sound e _ h]
  | .keepOut, b, h => by cases b <;> simp_all [exprBeq]
  | .contPrev, b, h => by cases b <;> simp_all [exprBeq]
  | .backrefExists _, b, h => by cases b <;> simp_all [exprBeq]
  | .cond c y n, b, h => by
    cases b <;> simp only [exprBeq] at h <;> try cases h
    simp only [Bool.and_eq_true] at h
    rw [exprBeq_sound c _ h.1.1, exprBeq_sound y _ h.1.2, exprBeq_sound n _ h.2]
  | .subroutine _, b, h => by cases b <;> simp_all [exprBeq]
theorem exprListBeq_sound : ∀ (as bs : List Expr), exprListBeq as bs = true → as = bs
  | [], bs, h => by cases bs <;> simp_all [exprListBeq]
  | a :: as, bs, h => by
    cases bs with
    | nil => simp [exprListBeq] at h
    | cons b bs =>
      simp only [exprListBeq, Bool.and_eq_true] at h
      rw [exprBeq_sound a b h.1, exprListBeq_sound as bs h.2]
end

/-- (for concrete evaluations) the outcome is this tree -/
def isTree (r : Res Tree) (e : Expr) (backrefs : List Nat) (named : List (List Nat × Nat)) : Bool :=
  match r with
  | .ok t => exprBeq t.expr e && t.backrefs == backrefs && t.namedGroups == named
  | _ => false

theorem isTree_sound {r : Res Tree} {e : Expr} {br : List Nat} {ng : List (List Nat × Nat)}
    (h : isTree r e br ng = true) : r = .ok ⟨e, br, ng⟩ := by
  cases r with
  | ok t =>
    simp only [isTree, Bool.and_eq_true, beq_iff_eq] at h
    obtain ⟨e', br', ng'⟩ := t
    simp only at h
    rw [exprBeq_sound _ _ h.1.1, h.1.2, h.2]
  | _ => simp [isTree] at h

/-- (for concrete evaluations) the outcome is this error -/
def isErr (r : Res Tree) (k : PErr) (p : Nat) : Bool :=
  match r with
  | .err k' p' => k' == k && p' == p
  | _ => false

theorem isErr_sound {r : Res Tree} {k : PErr} {p : Nat} (h : isErr r k p = true) : r = .err k p := by
  cases r with
  | err k' p' =>
    simp only [isErr, Bool.and_eq_true, beq_iff_eq] at h
    rw [h.1, h.2]
  | _ => simp [isErr] at h

/-- (for concrete evaluations) equality of parser states, field by field -/
def pstateBeq (a b : PState) : Bool :=
  a.backrefs == b.backrefs && a.flags == b.flags && a.namedGroups == b.namedGroups &&
  a.numericBackrefs == b.numericBackrefs && a.currGroup == b.currGroup &&
  a.lastReHadAlt == b.lastReHadAlt

theorem pstateBeq_sound {a b : PState} (h : pstateBeq a b = true) : a = b := by
  cases a; cases b
  simp only [pstateBeq, Bool.and_eq_true, beq_iff_eq] at h
  obtain ⟨⟨⟨⟨⟨h1, h2⟩, h3⟩, h4⟩, h5⟩, h6⟩ := h
  subst h1 h2 h3 h4 h5 h6
  rfl

/-- (for concrete evaluations) the outcome of a descent function is this triple -/
def isOk3 (r : Res (Nat × Expr × PState)) (ix : Nat) (e : Expr) (st : PState) : Bool :=
  match r with
  | .ok (ix', e', st') => ix' == ix && exprBeq e' e && pstateBeq st' st
  | _ => false

theorem isOk3_sound {r : Res (Nat × Expr × PState)} {ix : Nat} {e : Expr} {st : PState}
    (h : isOk3 r ix e st = true) : r = .ok (ix, e, st) := by
  cases r with
  | ok t =>
    obtain ⟨ix', e', st'⟩ := t
    simp only [isOk3, Bool.and_eq_true, beq_iff_eq] at h
    rw [h.1.1, exprBeq_sound _ _ h.1.2, pstateBeq_sound h.2]
  | _ => simp [isOk3] at h

/-- (for concrete evaluations) the outcome is this value -/
def isOkVal {α : Type} [BEq α] (r : Res α) (a : α) : Bool :=
  match r with
  | .ok a' => a' == a
  | _ => false

theorem isOkVal_sound {α : Type} [BEq α] [LawfulBEq α] {r : Res α} {a : α}
    (h : isOkVal r a = true) : r = .ok a := by
  cases r with
  | ok a' =>
    simp only [isOkVal, beq_iff_eq] at h
    rw [h]
  | _ => simp [isOkVal] at h

-- kernel evaluation of the parser model on a concrete pattern
example : parseStr (fun c => c.isAlphanum) "a\\.b".toList false =
    .ok ⟨.concat [.literal ['a'] false, .literal ['.'] false, .literal ['b'] false], [], []⟩ :=
  isTree_sound (by decide +kernel)

end Fancy.Parse
