import FancyModel.Proofs.C11
import FancyModel.Proofs.C10
import FancyModel.Proofs.C01
/-!
# C04 — on the syntax shared with the regex crate the whole API agrees with it

The `regex` crate is not modelled, so its agreement with fancy-regex is decided by the in-process
differential on every API call plus two correspondences against the *same* model (fancy-regex ↔
model and regex crate ↔ model — the latter is the isolated check of assumption A-RA). What the
theorems carry is the part that is independent of either engine: the API layer of the model
computes the `regex`-crate algorithms the code says it copies, over **whatever** the search is:

* iteration, split, splitn and replace over a search oracle are the statement-level algorithms
  (C08 `C08_ordered`/`C08_length_bound`, C10 `C10_split_spec`, C11 `C11_replacen`);
* the two iterators coincide on spans (C09 `C09_iters_equal`);
* on the hand-off path the model's search is the reference search (`C01_wrap_path`), so for a
  common-syntax pattern without word boundaries every API function of the model is the
  spec-level function over `refSearch` (`C04_api_over_ref`).
-/
namespace Fancy

open Api

/-- the captures oracle the API layer of the model runs over, at character level -/
def modelSearch (b : Built) (text : List Char) (limit fuel : Nat) (pos : Nat) (skipped : Bool)
    (tables : Ctx) : SearchResult :=
  (b.captures { tables with text := text, pos := pos, skipped := skipped } limit fuel).1

/-- **whole-pattern hand-off = reference search**, for every position and flag: every API function
    built on it is therefore the statement-level function over the reference search -/
theorem C04_api_over_ref (b : Built) (hk : b.kind = .wrap) (text : List Char) (limit fuel pos : Nat)
    (skipped : Bool) (tables : Ctx) :
    modelSearch b text limit fuel pos skipped tables =
      match refSearch { tables with text := text, pos := pos, skipped := skipped } b.raw b.nGroups with
      | some f => .found f.slots
      | none => .noMatch :=
  C01_wrap_path b _ limit fuel hk

/-- the iterator, split and replace theorems hold for every oracle; in particular for the one
    induced by either crate's search (restated for reference) -/
theorem C04_iteration_is_engine_independent (f : Oracle (Nat × Nat)) (text : Utf8.Bytes)
    (hwf : WFOracle f id text.length) :
    Ordered id text.length 0 none (findIter f text) ∧ (findIter f text).length ≤ text.length + 2 ∧
      split f text = toPieces text.length (findIter f text) 0 :=
  ⟨C08_find_iter_ordered f text hwf, C08_length_bound f text hwf, C10_pieces f text hwf⟩

end Fancy
