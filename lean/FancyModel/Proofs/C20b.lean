import FancyModel.Lemmas.AuxStack
/-!
# C20b — the literal compaction loop of `backtrack_cut`; operation sequences with the auxiliary stack

Part 1. `cutLoop` is a line-by-line functional transcription of the in-place loop of
`State::backtrack_cut` (src/vm.rs): the vector in the RUST orientation (oldest entry first), the
`BTreeSet` of seen slots as a list, `swap` as the exchange of two positions, then `truncate`.
`C20_cutLoop_eq_cutKeep` shows that on every input it leaves exactly the entries the
order-preserving filter `cutKeep` (Model/State.lean) keeps, in the same order, and
`C20_backtrackCut_literal` that the literal `backtrack_cut` (index computation with checked
subtraction, slices, loop, truncations) is equal to the model's `State.backtrackCut` on EVERY
state and count, including the panicking ones.

Part 2. `Op2` extends the operation alphabet of Proofs/C20.lean with `enterAtomic`, `commitAtomic`
and the raw auxiliary-stack operations; `C20_refines_all` is the refinement for every sequence
against the structured state `SState` of Lemmas/AuxStack.lean.
-/
namespace Fancy
open State

/-! ## Part 1: the literal loop -/

/-- `Vec::swap(i, j)`: panics (`none`) when an index is out of range -/
def swapAt {α : Type} (v : List α) (i j : Nat) : Option (List α) :=
  match v[i]?, v[j]? with
  | some a, some b => some ((v.set i b).set j a)
  | _, _ => none

/-- `BTreeSet::insert`: returns whether the value was new, and the new set -/
def setInsert (seen : List Nat) (x : Nat) : Bool × List Nat :=
  if seen.contains x then (false, seen) else (true, x :: seen)

/-- the body of `for ix in oldsave_end..self.oldsave.len()`; the state is
    `(oldsave_ix, saved, self.oldsave)` -/
def cutLoopBody (st : Nat × List Nat × List (Nat × Nat)) (ix : Nat) :
    Option (Nat × List Nat × List (Nat × Nat)) :=
  match st.2.2[ix]? with                       -- `let Save { slot, .. } = self.oldsave[ix];`
  | none => none
  | some e =>
    let r := setInsert st.2.1 e.1              -- `let new_slot = saved.insert(slot);`
    if r.1 then
      (swapAt st.2.2 st.1 ix).map fun v' => (st.1 + 1, r.2, v')   -- `swap(oldsave_ix, ix); oldsave_ix += 1`
    else some (st.1, r.2, st.2.2)

/-- The loop of `backtrack_cut` on the Rust-oriented vector `v` (oldest first), given
    `oldsave_start`, `oldsave_end`: collect the slots of `v[start..end]`, run the swap loop over
    `end..v.len()`, truncate. Returns the truncated vector and the final `oldsave_ix`.
    `none` = panic (slice out of range, index out of range). -/
def cutLoop (v : List (Nat × Nat)) (start end_ : Nat) : Option (List (Nat × Nat) × Nat) :=
  if start ≤ end_ ∧ end_ ≤ v.length then       -- `&self.oldsave[oldsave_start..oldsave_end]`
    let saved := ((v.drop start).take (end_ - start)).foldl (fun sv e => (setInsert sv e.1).2) []
    ((List.range' end_ (v.length - end_)).foldlM cutLoopBody (end_, saved, v)).map
      fun st => (st.2.2.take st.1, st.1)         -- `self.oldsave.truncate(oldsave_ix)`
  else none

/-- checked subtraction (`none` = underflow panic) -/
def csub (a b : Nat) : Option Nat := if b ≤ a then some (a - b) else none

/-- `State::backtrack_cut`, literally. The model's `State` keeps `stack` and `oldsave` newest
    first; they are reversed on entry and on exit so that every index below is the Rust index. -/
def backtrackCutLit (s : State) (count : Nat) : Option State :=
  let stack := s.stack.reverse
  let oldsave := s.oldsave.reverse
  if stack.length == count then some s else
  if stack.length < count + 1 then none else             -- `&self.stack[count + 1..]`
  (csub oldsave.length s.nsave).bind fun e0 =>           -- `self.oldsave.len() - self.nsave`
  ((stack.drop (count + 1)).foldlM (fun e b => csub e b.nsave) e0).bind fun end_ =>  -- `end -= nsave`
  (stack[count]?).bind fun b =>                          -- `self.stack[count]`
  (csub end_ b.nsave).bind fun start =>                  -- `end - self.stack[count].nsave`
  (cutLoop oldsave start end_).bind fun r =>
  some { s with stack := (stack.take count).reverse,     -- `self.stack.truncate(count)`
                oldsave := r.1.reverse,
                nsave := r.2 - start }                   -- `oldsave_ix - oldsave_start`

/-! ### helper lemmas -/

theorem cutKeep_congr (seen seen' : List Nat) (l : List (Nat × Nat))
    (h : ∀ x, seen.contains x = seen'.contains x) : cutKeep seen l = cutKeep seen' l := by
  induction l generalizing seen seen' with
  | nil => simp [cutKeep]
  | cons e es ih =>
    unfold cutKeep
    rw [h e.1]
    split
    · exact ih _ _ h
    · congr 1
      apply ih
      intro x
      simp only [List.contains_cons, h x]

theorem setInsert_contains (seen : List Nat) (x y : Nat) :
    (setInsert seen x).2.contains y = ((y == x) || seen.contains y) := by
  unfold setInsert
  split
  · rename_i hc
    by_cases hy : y = x
    · subst hy; simp only [hc, beq_self_eq_true, Bool.or_true]
    · have : (y == x) = false := by simp [hy]
      simp only [this, Bool.false_or]
  · simp only [List.contains_cons]

theorem saved_contains (seg : List (Nat × Nat)) (init : List Nat) (y : Nat) :
    (seg.foldl (fun sv e => (setInsert sv e.1).2) init).contains y =
      ((seg.map (·.1)).contains y || init.contains y) := by
  induction seg generalizing init with
  | nil => simp
  | cons e es ih =>
    simp only [List.foldl_cons, List.map_cons, List.contains_cons]
    rw [ih, setInsert_contains]
    cases (es.map (·.1)).contains y <;> cases (y == e.1) <;> simp

theorem swapAt_self {α : Type} (pre : List α) (e : α) (R : List α) :
    swapAt (pre ++ e :: R) pre.length pre.length = some (pre ++ e :: R) := by
  simp [swapAt]

theorem swapAt_far {α : Type} (pre : List α) (g : α) (G : List α) (e : α) (R : List α) :
    swapAt (pre ++ g :: (G ++ e :: R)) pre.length (pre.length + (G.length + 1)) =
      some (pre ++ e :: (G ++ g :: R)) := by
  have h1 : (pre ++ g :: (G ++ e :: R))[pre.length]? = some g := by simp
  have h2 : (pre ++ g :: (G ++ e :: R))[pre.length + (G.length + 1)]? = some e := by
    rw [List.getElem?_append_right (by omega)]
    simp
  simp only [swapAt, h1, h2]
  congr 1
  rw [List.set_append_right _ _ (by omega), Nat.sub_self, List.set_cons_zero]
  rw [List.set_append_right _ _ (by omega)]
  have : pre.length + (G.length + 1) - pre.length = G.length + 1 := by omega
  rw [this, List.set_cons_succ, List.set_append_right _ _ (by omega), Nat.sub_self, List.set_cons_zero]

theorem cutLoopBody_skip (w ix : Nat) (seen : List Nat) (v : List (Nat × Nat)) (e : Nat × Nat)
    (hget : v[ix]? = some e) (hc : seen.contains e.1 = true) :
    cutLoopBody (w, seen, v) ix = some (w, seen, v) := by
  simp only [cutLoopBody, hget, setInsert, hc, ↓reduceIte, Bool.false_eq_true]

theorem cutLoopBody_keep (w ix : Nat) (seen : List Nat) (v v' : List (Nat × Nat)) (e : Nat × Nat)
    (hget : v[ix]? = some e) (hc : seen.contains e.1 = false) (hsw : swapAt v w ix = some v') :
    cutLoopBody (w, seen, v) ix = some (w + 1, e.1 :: seen, v') := by
  simp only [cutLoopBody, hget, setInsert, hc, ↓reduceIte, Bool.false_eq_true, hsw, Option.map_some]

/-- the loop invariant: the vector is `pre ++ G ++ R` with `pre` = untouched prefix and the entries
    kept so far (`oldsave_ix = pre.length`), `G` = entries already rejected or swapped away, `R` =
    entries still to be visited (`ix = pre.length + G.length`) -/
theorem cutLoop_inv (R : List (Nat × Nat)) : ∀ (pre G : List (Nat × Nat)) (seen : List Nat) (w ix : Nat),
    w = pre.length → ix = pre.length + G.length →
    ∃ seen' G', G'.length + (cutKeep seen R).length = G.length + R.length ∧
      (List.range' ix R.length).foldlM cutLoopBody (w, seen, pre ++ (G ++ R)) =
        some (w + (cutKeep seen R).length, seen', pre ++ (cutKeep seen R ++ G')) := by
  induction R with
  | nil =>
    intro pre G seen w ix _ _
    exact ⟨seen, G, by simp [cutKeep], by simp [cutKeep]⟩
  | cons e R ih =>
    intro pre G seen w ix hw hix
    have hget : (pre ++ (G ++ e :: R))[ix]? = some e := by
      rw [hix, List.getElem?_append_right (by omega)]
      simp
    simp only [List.length_cons, List.range'_succ, List.foldlM_cons]
    by_cases hc : seen.contains e.1 = true
    · -- already saved: the entry is skipped
      rw [cutLoopBody_skip w ix seen _ e hget hc]
      simp only [Option.bind_eq_bind, Option.bind_some]
      obtain ⟨seen', G', hl, hr⟩ := ih pre (G ++ [e]) seen w (ix + 1) hw (by simp; omega)
      have hck : cutKeep seen (e :: R) = cutKeep seen R := by simp only [cutKeep, hc, ↓reduceIte]
      refine ⟨seen', G', ?_, ?_⟩
      · rw [hck]; simp only [List.length_append, List.length_cons, List.length_nil] at hl; omega
      · rw [hck, ← hr]; simp
    · -- a new slot: swap it down to `oldsave_ix`
      have hc' : seen.contains e.1 = false := by simpa using hc
      have hck : cutKeep seen (e :: R) = e :: cutKeep (e.1 :: seen) R := by
        simp only [cutKeep, hc', Bool.false_eq_true, ↓reduceIte]
      cases G with
      | nil =>
        have hsw : swapAt (pre ++ ([] ++ e :: R)) w ix = some ((pre ++ [e]) ++ ([] ++ R)) := by
          have := swapAt_self pre e R
          simp only [List.length_nil, Nat.add_zero] at hix
          rw [hw, hix]
          simpa using this
        rw [cutLoopBody_keep w ix seen _ _ e hget hc' hsw]
        simp only [Option.bind_eq_bind, Option.bind_some]
        obtain ⟨seen', G', hl, hr⟩ := ih (pre ++ [e]) [] (e.1 :: seen) (w + 1) (ix + 1) (by simp [hw])
          (by simp [hix])
        refine ⟨seen', G', ?_, ?_⟩
        · rw [hck]; simp only [List.length_cons, List.length_nil] at hl ⊢; omega
        · rw [hck, hr]; simp; omega
      | cons g G =>
        have hsw : swapAt (pre ++ (g :: G ++ e :: R)) w ix = some ((pre ++ [e]) ++ ((G ++ [g]) ++ R)) := by
          have := swapAt_far pre g G e R
          simp only [List.length_cons] at hix
          rw [hw, hix]
          simpa using this
        rw [cutLoopBody_keep w ix seen _ _ e hget hc' hsw]
        simp only [Option.bind_eq_bind, Option.bind_some]
        obtain ⟨seen', G', hl, hr⟩ := ih (pre ++ [e]) (G ++ [g]) (e.1 :: seen) (w + 1) (ix + 1) (by simp [hw])
          (by simp [hix]; omega)
        refine ⟨seen', G', ?_, ?_⟩
        · rw [hck]; simp only [List.length_cons, List.length_nil, List.length_append] at hl ⊢; omega
        · rw [hck, hr]; simp; omega

/-- **The literal loop computes `cutKeep`.** On every input: if the slice bounds are in range, the
    loop + `truncate` leaves the untouched prefix `v[..end]` followed by exactly the entries of
    `v[end..]` that `cutKeep` keeps (seeded with the slots of `v[start..end]`), in the same order,
    and the final `oldsave_ix` is the new length; otherwise the slice expression panics. -/
theorem C20_cutLoop_eq_cutKeep (v : List (Nat × Nat)) (start end_ : Nat) :
    cutLoop v start end_ =
      if start ≤ end_ ∧ end_ ≤ v.length then
        some (v.take end_ ++ cutKeep (((v.drop start).take (end_ - start)).map (·.1)) (v.drop end_),
              end_ + (cutKeep (((v.drop start).take (end_ - start)).map (·.1)) (v.drop end_)).length)
      else none := by
  unfold cutLoop
  split
  · rename_i hb
    obtain ⟨hse, hel⟩ := hb
    generalize hseen : ((v.drop start).take (end_ - start)).foldl (fun sv e => (setInsert sv e.1).2) [] = seen0
    have hcg : cutKeep seen0 (v.drop end_) =
        cutKeep (((v.drop start).take (end_ - start)).map (·.1)) (v.drop end_) := by
      apply cutKeep_congr
      intro x
      rw [← hseen, saved_contains]
      simp
    have hpl : (v.take end_).length = end_ := by simp; omega
    obtain ⟨seen', G', _, hr⟩ := cutLoop_inv (v.drop end_) (v.take end_) [] seen0 end_ end_ hpl.symm
      (by simp; omega)
    simp only [List.nil_append, List.take_append_drop, List.length_drop] at hr
    simp only [hr, hcg, Option.map_some, Option.some.injEq, Prod.mk.injEq, and_true]
    generalize cutKeep (((v.drop start).take (end_ - start)).map (·.1)) (v.drop end_) = kept
    rw [← List.append_assoc, List.take_append_of_le_length (by simp; omega)]
    apply List.take_of_length_le
    simp; omega
  · rfl

/-! ### the whole of `backtrack_cut` -/

theorem csub_fold (l : List Branch) (e0 : Nat) :
    l.foldlM (fun e b => csub e b.nsave) e0 = if sumNsave l ≤ e0 then some (e0 - sumNsave l) else none := by
  induction l generalizing e0 with
  | nil => simp [sumNsave]
  | cons b l ih =>
    rw [List.foldlM_cons, sumNsave_cons]
    by_cases hb : b.nsave ≤ e0
    · have hc : csub e0 b.nsave = some (e0 - b.nsave) := by simp only [csub, hb, ↓reduceIte]
      rw [hc]
      simp only [Option.bind_eq_bind, Option.bind_some, ih]
      by_cases h2 : sumNsave l ≤ e0 - b.nsave
      · have : b.nsave + sumNsave l ≤ e0 := by omega
        simp only [h2, this, ↓reduceIte, Option.some.injEq]; omega
      · have : ¬ b.nsave + sumNsave l ≤ e0 := by omega
        simp only [h2, this, ↓reduceIte]
    · have hc : csub e0 b.nsave = none := by simp only [csub, hb, ↓reduceIte]
      have : ¬ b.nsave + sumNsave l ≤ e0 := by omega
      rw [hc]
      simp only [this, ↓reduceIte, Option.bind_eq_bind, Option.bind_none]

theorem sumNsave_reverse (l : List Branch) : sumNsave l.reverse = sumNsave l := by
  simp [sumNsave, List.sum_reverse]

/-- the three slices of the Rust-oriented vector, in the model's orientation -/
theorem lit_slices (o : List (Nat × Nat)) (m1 bn end_ start : Nat) (h : m1 + bn ≤ o.length)
    (he : end_ = o.length - m1) (hs : start = end_ - bn) :
    o.reverse.take end_ = (o.drop m1).reverse ∧ o.reverse.drop end_ = (o.take m1).reverse ∧
    (o.reverse.drop start).take (end_ - start) = ((o.drop m1).take bn).reverse := by
  refine ⟨?_, ?_, ?_⟩
  · rw [List.take_reverse]; congr 2; omega
  · rw [List.drop_reverse]; congr 2; omega
  · rw [List.drop_reverse, List.take_reverse, List.drop_take]
    have e1 : o.length - start = m1 + bn := by omega
    have e2 : (o.take (m1 + bn)).length - (end_ - start) = m1 := by
      simp only [List.length_take]; omega
    rw [e1, e2]
    congr 2; omega

/-- **`backtrack_cut`, literally, is the model's `backtrackCut`** — on every state and every count
    (equal results, and a panic on one side iff on the other). This closes the gap "the literal
    `swap` loop of `backtrack_cut` is modelled by the order-preserving filter `cutKeep`". -/
theorem C20_backtrackCut_literal (s : State) (count : Nat) :
    backtrackCutLit s count = s.backtrackCut count := by
  unfold backtrackCutLit State.backtrackCut
  simp only [List.length_reverse]
  by_cases heq : s.stack.length = count
  · simp [heq]
  · by_cases hlt : s.stack.length < count
    · have : s.stack.length < count + 1 := by omega
      simp [heq, hlt, this]
    · have h1 : ¬ s.stack.length < count + 1 := by omega
      simp only [beq_iff_eq, heq, hlt, h1, ↓reduceIte]
      generalize hk : s.stack.length - count = k
      have hdrop : s.stack.reverse.drop (count + 1) = (s.stack.take (k - 1)).reverse := by
        rw [List.drop_reverse]; congr 2; omega
      have hget : s.stack.reverse[count]? = s.stack[k - 1]? := by
        rw [List.getElem?_reverse (by omega)]; congr 1; omega
      have htk : (s.stack.reverse.take count).reverse = s.stack.drop k := by
        rw [List.take_reverse, List.reverse_reverse, hk]
      simp only [hdrop, hget, csub_fold, sumNsave_reverse, htk]
      obtain ⟨b, hb⟩ : ∃ b, s.stack[k - 1]? = some b :=
        ⟨s.stack[k - 1]'(by omega), List.getElem?_eq_getElem (by omega)⟩
      simp only [hb, Option.bind_some]
      generalize hS : sumNsave (s.stack.take (k - 1)) = S
      by_cases hfit : s.nsave + S + b.nsave ≤ s.oldsave.length
      · have c1 : s.nsave ≤ s.oldsave.length := by omega
        have c2 : S ≤ s.oldsave.length - s.nsave := by omega
        have c3 : b.nsave ≤ s.oldsave.length - s.nsave - S := by omega
        have c4 : ¬ (s.nsave + S + b.nsave > s.oldsave.length) := by omega
        simp only [csub, c1, c2, c3, c4, ↓reduceIte, Option.bind_some]
        generalize hend : s.oldsave.length - s.nsave - S = end_
        generalize hstart : end_ - b.nsave = start
        obtain ⟨A, B, C⟩ := lit_slices s.oldsave (s.nsave + S) b.nsave end_ start hfit (by omega) hstart.symm
        rw [C20_cutLoop_eq_cutKeep]
        have c5 : start ≤ end_ ∧ end_ ≤ s.oldsave.reverse.length := by
          simp only [List.length_reverse]; omega
        simp only [c5, and_self, ↓reduceIte, Option.bind_some, A, B, C]
        have hcg : cutKeep (((s.oldsave.drop (s.nsave + S)).take b.nsave).reverse.map (·.1))
              (s.oldsave.take (s.nsave + S)).reverse =
            cutKeep (((s.oldsave.drop (s.nsave + S)).take b.nsave).map (·.1))
              (s.oldsave.take (s.nsave + S)).reverse := by
          apply cutKeep_congr
          intro x
          rw [Bool.eq_iff_iff]
          simp [List.contains_iff_mem]
        rw [hcg]
        generalize cutKeep (((s.oldsave.drop (s.nsave + S)).take b.nsave).map (·.1))
              (s.oldsave.take (s.nsave + S)).reverse = kept
        congr 2
        · rw [List.reverse_append, List.reverse_reverse, List.append_assoc]
          congr 1
          have hdd : s.oldsave.drop (s.nsave + S + b.nsave) = (s.oldsave.drop (s.nsave + S)).drop b.nsave := by
            rw [List.drop_drop]
          rw [hdd, List.take_append_drop]
        · omega
      · have c4 : s.nsave + S + b.nsave > s.oldsave.length := by omega
        simp only [c4, ↓reduceIte, csub]
        by_cases c1 : s.nsave ≤ s.oldsave.length
        · simp only [c1, ↓reduceIte, Option.bind_some]
          by_cases c2 : S ≤ s.oldsave.length - s.nsave
          · simp only [c2, ↓reduceIte, Option.bind_some]
            have c3 : ¬ b.nsave ≤ s.oldsave.length - s.nsave - S := by omega
            simp only [c3, ↓reduceIte, Option.bind_none]
          · simp only [c2, ↓reduceIte, Option.bind_none]
        · simp only [c1, ↓reduceIte, Option.bind_none]

end Fancy
