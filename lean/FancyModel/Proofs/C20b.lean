import FancyModel.Lemmas.AuxStack
/-!
# C20b — the literal compaction loop of `backtrack_cut`; operation sequences with the auxiliary stack

Part 1. `cutLoop` is a line-by-line functional transcription of the in-place loop of
`State::backtrack_cut` (src/vm.rs): the vector in the RUST orientation (oldest entry first), the
`BTreeSet` of seen slots as a list, `swap` as the exchange of two positions, then `truncate`.
`C20_cutLoop_eq_cutKeep` shows that on every input it leaves exactly the entries the
order-preserving filter `cutKeep` (Model/State.lean) keeps, in the same order, and
`C20_backtrackCut_literal` that the literal `backtrack_cut` (index computation with checked
subtraction, slices, loop, truncations) is equal to the model's `State.backtrackCut` on EVERY
state and count, including the panicking ones.

Part 2. `Op2` extends the operation alphabet of Proofs/C20.lean with `enterAtomic`, `commitAtomic`
and the raw auxiliary-stack operations; `C20_refines_all` is the refinement for every sequence
against the structured state `SState` of Lemmas/AuxStack.lean.
-/
namespace Fancy
open State

/-! ## Part 1: the literal loop -/

/-- `Vec::swap(i, j)`: panics (`none`) when an index is out of range -/
def swapAt {α : Type} (v : List α) (i j : Nat) : Option (List α) :=
  match v[i]?, v[j]? with
  | some a, some b => some ((v.set i b).set j a)
  | _, _ => none

/-- `BTreeSet::insert`: returns whether the value was new, and the new set -/
def setInsert (seen : List Nat) (x : Nat) : Bool × List Nat :=
  if seen.contains x then (false, seen) else (true, x :: seen)

/-- the body of `for ix in oldsave_end..self.oldsave.len()`; the state is
    `(oldsave_ix, saved, self.oldsave)` -/
def cutLoopBody (st : Nat × List Nat × List (Nat × Nat)) (ix : Nat) :
    Option (Nat × List Nat × List (Nat × Nat)) :=
  match st.2.2[ix]? with                       -- `let Save { slot, .. } = self.oldsave[ix];`
  | none => none
  | some e =>
    let r := setInsert st.2.1 e.1              -- `let new_slot = saved.insert(slot);`
    if r.1 then
      (swapAt st.2.2 st.1 ix).map fun v' => (st.1 + 1, r.2, v')   -- `swap(oldsave_ix, ix); oldsave_ix += 1`
    else some (st.1, r.2, st.2.2)

/-- The loop of `backtrack_cut` on the Rust-oriented vector `v` (oldest first), given
    `oldsave_start`, `oldsave_end`: collect the slots of `v[start..end]`, run the swap loop over
    `end..v.len()`, truncate. Returns the truncated vector and the final `oldsave_ix`.
    `none` = panic (slice out of range, index out of range). -/
def cutLoop (v : List (Nat × Nat)) (start end_ : Nat) : Option (List (Nat × Nat) × Nat) :=
  if start ≤ end_ ∧ end_ ≤ v.length then       -- `&self.oldsave[oldsave_start..oldsave_end]`
    let saved := ((v.drop start).take (end_ - start)).foldl (fun sv e => (setInsert sv e.1).2) []
    ((List.range' end_ (v.length - end_)).foldlM cutLoopBody (end_, saved, v)).map
      fun st => (st.2.2.take st.1, st.1)         -- `self.oldsave.truncate(oldsave_ix)`
  else none

/-- checked subtraction (`none` = underflow panic) -/
def csub (a b : Nat) : Option Nat := if b ≤ a then some (a - b) else none

/-- `State::backtrack_cut`, literally. The model's `State` keeps `stack` and `oldsave` newest
    first; they are reversed on entry and on exit so that every index below is the Rust index. -/
def backtrackCutLit (s : State) (count : Nat) : Option State :=
  let stack := s.stack.reverse
  let oldsave := s.oldsave.reverse
  if stack.length == count then some s else
  if stack.length < count + 1 then none else             -- `&self.stack[count + 1..]`
  (csub oldsave.length s.nsave).bind fun e0 =>           -- `self.oldsave.len() - self.nsave`
  ((stack.drop (count + 1)).foldlM (fun e b => csub e b.nsave) e0).bind fun end_ =>  -- `end -= nsave`
  (stack[count]?).bind fun b =>                          -- `self.stack[count]`
  (csub end_ b.nsave).bind fun start =>                  -- `end - self.stack[count].nsave`
  (cutLoop oldsave start end_).bind fun r =>
  some { s with stack := (stack.take count).reverse,     -- `self.stack.truncate(count)`
                oldsave := r.1.reverse,
                nsave := r.2 - start }                   -- `oldsave_ix - oldsave_start`

/-! ### helper lemmas -/

theorem cutKeep_congr (seen seen' : List Nat) (l : List (Nat × Nat))
    (h : ∀ x, seen.contains x = seen'.contains x) : cutKeep seen l = cutKeep seen' l := by
  induction l generalizing seen seen' with
  | nil => simp [cutKeep]
  | cons e es ih =>
    unfold cutKeep
    rw [h e.1]
    split
    · exact ih _ _ h
    · congr 1
      apply ih
      intro x
      simp only [List.contains_cons, h x]

theorem setInsert_contains (seen : List Nat) (x y : Nat) :
    (setInsert seen x).2.contains y = ((y == x) || seen.contains y) := by
  unfold setInsert
  split
  · rename_i hc
    by_cases hy : y = x
    · subst hy; simp only [hc, beq_self_eq_true, Bool.or_true]
    · have : (y == x) = false := by simp [hy]
      simp only [this, Bool.false_or]
  · simp only [List.contains_cons]

theorem saved_contains (seg : List (Nat × Nat)) (init : List Nat) (y : Nat) :
    (seg.foldl (fun sv e => (setInsert sv e.1).2) init).contains y =
      ((seg.map (·.1)).contains y || init.contains y) := by
  induction seg generalizing init with
  | nil => simp
  | cons e es ih =>
    simp only [List.foldl_cons, List.map_cons, List.contains_cons]
    rw [ih, setInsert_contains]
    cases (es.map (·.1)).contains y <;> cases (y == e.1) <;> simp

theorem swapAt_self {α : Type} (pre : List α) (e : α) (R : List α) :
    swapAt (pre ++ e :: R) pre.length pre.length = some (pre ++ e :: R) := by
  simp [swapAt]

theorem swapAt_far {α : Type} (pre : List α) (g : α) (G : List α) (e : α) (R : List α) :
    swapAt (pre ++ g :: (G ++ e :: R)) pre.length (pre.length + (G.length + 1)) =
      some (pre ++ e :: (G ++ g :: R)) := by
  have h1 : (pre ++ g :: (G ++ e :: R))[pre.length]? = some g := by simp
  have h2 : (pre ++ g :: (G ++ e :: R))[pre.length + (G.length + 1)]? = some e := by
    rw [List.getElem?_append_right (by omega)]
    simp
  simp only [swapAt, h1, h2]
  congr 1
  rw [List.set_append_right _ _ (by omega), Nat.sub_self, List.set_cons_zero]
  rw [List.set_append_right _ _ (by omega)]
  have : pre.length + (G.length + 1) - pre.length = G.length + 1 := by omega
  rw [this, List.set_cons_succ, List.set_append_right _ _ (by omega), Nat.sub_self, List.set_cons_zero]

theorem cutLoopBody_skip (w ix : Nat) (seen : List Nat) (v : List (Nat × Nat)) (e : Nat × Nat)
    (hget : v[ix]? = some e) (hc : seen.contains e.1 = true) :
    cutLoopBody (w, seen, v) ix = some (w, seen, v) := by
  simp only [cutLoopBody, hget, setInsert, hc, ↓reduceIte, Bool.false_eq_true]

theorem cutLoopBody_keep (w ix : Nat) (seen : List Nat) (v v' : List (Nat × Nat)) (e : Nat × Nat)
    (hget : v[ix]? = some e) (hc : seen.contains e.1 = false) (hsw : swapAt v w ix = some v') :
    cutLoopBody (w, seen, v) ix = some (w + 1, e.1 :: seen, v') := by
  simp only [cutLoopBody, hget, setInsert, hc, ↓reduceIte, Bool.false_eq_true, hsw, Option.map_some]

/-- the loop invariant: the vector is `pre ++ G ++ R` with `pre` = untouched prefix and the entries
    kept so far (`oldsave_ix = pre.length`), `G` = entries already rejected or swapped away, `R` =
    entries still to be visited (`ix = pre.length + G.length`) -/
theorem cutLoop_inv (R : List (Nat × Nat)) : ∀ (pre G : List (Nat × Nat)) (seen : List Nat) (w ix : Nat),
    w = pre.length → ix = pre.length + G.length →
    ∃ seen' G', G'.length + (cutKeep seen R).length = G.length + R.length ∧
      (List.range' ix R.length).foldlM cutLoopBody (w, seen, pre ++ (G ++ R)) =
        some (w + (cutKeep seen R).length, seen', pre ++ (cutKeep seen R ++ G')) := by
  induction R with
  | nil =>
    intro pre G seen w ix _ _
    exact ⟨seen, G, by simp [cutKeep], by simp [cutKeep]⟩
  | cons e R ih =>
    intro pre G seen w ix hw hix
    have hget : (pre ++ (G ++ e :: R))[ix]? = some e := by
      rw [hix, List.getElem?_append_right (by omega)]
      simp
    simp only [List.length_cons, List.range'_succ, List.foldlM_cons]
    by_cases hc : seen.contains e.1 = true
    · -- already saved: the entry is skipped
      rw [cutLoopBody_skip w ix seen _ e hget hc]
      simp only [Option.bind_eq_bind, Option.bind_some]
      obtain ⟨seen', G', hl, hr⟩ := ih pre (G ++ [e]) seen w (ix + 1) hw (by simp; omega)
      have hck : cutKeep seen (e :: R) = cutKeep seen R := by simp only [cutKeep, hc, ↓reduceIte]
      refine ⟨seen', G', ?_, ?_⟩
      · rw [hck]; simp only [List.length_append, List.length_cons, List.length_nil] at hl; omega
      · rw [hck, ← hr]; simp
    · -- a new slot: swap it down to `oldsave_ix`
      have hc' : seen.contains e.1 = false := by simpa using hc
      have hck : cutKeep seen (e :: R) = e :: cutKeep (e.1 :: seen) R := by
        simp only [cutKeep, hc', Bool.false_eq_true, ↓reduceIte]
      cases G with
      | nil =>
        have hsw : swapAt (pre ++ ([] ++ e :: R)) w ix = some ((pre ++ [e]) ++ ([] ++ R)) := by
          have := swapAt_self pre e R
          simp only [List.length_nil, Nat.add_zero] at hix
          rw [hw, hix]
          simpa using this
        rw [cutLoopBody_keep w ix seen _ _ e hget hc' hsw]
        simp only [Option.bind_eq_bind, Option.bind_some]
        obtain ⟨seen', G', hl, hr⟩ := ih (pre ++ [e]) [] (e.1 :: seen) (w + 1) (ix + 1) (by simp [hw])
          (by simp [hix])
        refine ⟨seen', G', ?_, ?_⟩
        · rw [hck]; simp only [List.length_cons, List.length_nil] at hl ⊢; omega
        · rw [hck, hr]; simp; omega
      | cons g G =>
        have hsw : swapAt (pre ++ (g :: G ++ e :: R)) w ix = some ((pre ++ [e]) ++ ((G ++ [g]) ++ R)) := by
          have := swapAt_far pre g G e R
          simp only [List.length_cons] at hix
          rw [hw, hix]
          simpa using this
        rw [cutLoopBody_keep w ix seen _ _ e hget hc' hsw]
        simp only [Option.bind_eq_bind, Option.bind_some]
        obtain ⟨seen', G', hl, hr⟩ := ih (pre ++ [e]) (G ++ [g]) (e.1 :: seen) (w + 1) (ix + 1) (by simp [hw])
          (by simp [hix]; omega)
        refine ⟨seen', G', ?_, ?_⟩
        · rw [hck]; simp only [List.length_cons, List.length_nil, List.length_append] at hl ⊢; omega
        · rw [hck, hr]; simp; omega

/-- **The literal loop computes `cutKeep`.** On every input: if the slice bounds are in range, the
    loop + `truncate` leaves the untouched prefix `v[..end]` followed by exactly the entries of
    `v[end..]` that `cutKeep` keeps (seeded with the slots of `v[start..end]`), in the same order,
    and the final `oldsave_ix` is the new length; otherwise the slice expression panics. -/
theorem C20_cutLoop_eq_cutKeep (v : List (Nat × Nat)) (start end_ : Nat) :
    cutLoop v start end_ =
      if start ≤ end_ ∧ end_ ≤ v.length then
        some (v.take end_ ++ cutKeep (((v.drop start).take (end_ - start)).map (·.1)) (v.drop end_),
              end_ + (cutKeep (((v.drop start).take (end_ - start)).map (·.1)) (v.drop end_)).length)
      else none := by
  unfold cutLoop
  split
  · rename_i hb
    obtain ⟨hse, hel⟩ := hb
    generalize hseen : ((v.drop start).take (end_ - start)).foldl (fun sv e => (setInsert sv e.1).2) [] = seen0
    have hcg : cutKeep seen0 (v.drop end_) =
        cutKeep (((v.drop start).take (end_ - start)).map (·.1)) (v.drop end_) := by
      apply cutKeep_congr
      intro x
      rw [← hseen, saved_contains]
      simp
    have hpl : (v.take end_).length = end_ := by simp; omega
    obtain ⟨seen', G', _, hr⟩ := cutLoop_inv (v.drop end_) (v.take end_) [] seen0 end_ end_ hpl.symm
      (by simp; omega)
    simp only [List.nil_append, List.take_append_drop, List.length_drop] at hr
    simp only [hr, hcg, Option.map_some, Option.some.injEq, Prod.mk.injEq, and_true]
    generalize cutKeep (((v.drop start).take (end_ - start)).map (·.1)) (v.drop end_) = kept
    rw [← List.append_assoc, List.take_append_of_le_length (by simp; omega)]
    apply List.take_of_length_le
    simp; omega
  · rfl

/-! ### the whole of `backtrack_cut` -/

theorem csub_fold (l : List Branch) (e0 : Nat) :
    l.foldlM (fun e b => csub e b.nsave) e0 = if sumNsave l ≤ e0 then some (e0 - sumNsave l) else none := by
  induction l generalizing e0 with
  | nil => simp [sumNsave]
  | cons b l ih =>
    rw [List.foldlM_cons, sumNsave_cons]
    by_cases hb : b.nsave ≤ e0
    · have hc : csub e0 b.nsave = some (e0 - b.nsave) := by simp only [csub, hb, ↓reduceIte]
      rw [hc]
      simp only [Option.bind_eq_bind, Option.bind_some, ih]
      by_cases h2 : sumNsave l ≤ e0 - b.nsave
      · have : b.nsave + sumNsave l ≤ e0 := by omega
        simp only [h2, this, ↓reduceIte, Option.some.injEq]; omega
      · have : ¬ b.nsave + sumNsave l ≤ e0 := by omega
        simp only [h2, this, ↓reduceIte]
    · have hc : csub e0 b.nsave = none := by simp only [csub, hb, ↓reduceIte]
      have : ¬ b.nsave + sumNsave l ≤ e0 := by omega
      rw [hc]
      simp only [this, ↓reduceIte, Option.bind_eq_bind, Option.bind_none]

theorem sumNsave_reverse (l : List Branch) : sumNsave l.reverse = sumNsave l := by
  simp [sumNsave, List.sum_reverse]

/-- the three slices of the Rust-oriented vector, in the model's orientation -/
theorem lit_slices (o : List (Nat × Nat)) (m1 bn end_ start : Nat) (h : m1 + bn ≤ o.length)
    (he : end_ = o.length - m1) (hs : start = end_ - bn) :
    o.reverse.take end_ = (o.drop m1).reverse ∧ o.reverse.drop end_ = (o.take m1).reverse ∧
    (o.reverse.drop start).take (end_ - start) = ((o.drop m1).take bn).reverse := by
  refine ⟨?_, ?_, ?_⟩
  · rw [List.take_reverse]; congr 2; omega
  · rw [List.drop_reverse]; congr 2; omega
  · rw [List.drop_reverse, List.take_reverse, List.drop_take]
    have e1 : o.length - start = m1 + bn := by omega
    have e2 : (o.take (m1 + bn)).length - (end_ - start) = m1 := by
      simp only [List.length_take]; omega
    rw [e1, e2]
    congr 2; omega

/-- **`backtrack_cut`, literally, is the model's `backtrackCut`** — on every state and every count
    (equal results, and a panic on one side iff on the other). This closes the gap "the literal
    `swap` loop of `backtrack_cut` is modelled by the order-preserving filter `cutKeep`". -/
theorem C20_backtrackCut_literal (s : State) (count : Nat) :
    backtrackCutLit s count = s.backtrackCut count := by
  unfold backtrackCutLit State.backtrackCut
  simp only [List.length_reverse]
  by_cases heq : s.stack.length = count
  · simp [heq]
  · by_cases hlt : s.stack.length < count
    · have : s.stack.length < count + 1 := by omega
      simp [heq, hlt, this]
    · have h1 : ¬ s.stack.length < count + 1 := by omega
      simp only [beq_iff_eq, heq, hlt, h1, ↓reduceIte]
      generalize hk : s.stack.length - count = k
      have hdrop : s.stack.reverse.drop (count + 1) = (s.stack.take (k - 1)).reverse := by
        rw [List.drop_reverse]; congr 2; omega
      have hget : s.stack.reverse[count]? = s.stack[k - 1]? := by
        rw [List.getElem?_reverse (by omega)]; congr 1; omega
      have htk : (s.stack.reverse.take count).reverse = s.stack.drop k := by
        rw [List.take_reverse, List.reverse_reverse, hk]
      simp only [hdrop, hget, csub_fold, sumNsave_reverse, htk]
      obtain ⟨b, hb⟩ : ∃ b, s.stack[k - 1]? = some b :=
        ⟨s.stack[k - 1]'(by omega), List.getElem?_eq_getElem (by omega)⟩
      simp only [hb, Option.bind_some]
      generalize hS : sumNsave (s.stack.take (k - 1)) = S
      by_cases hfit : s.nsave + S + b.nsave ≤ s.oldsave.length
      · have c1 : s.nsave ≤ s.oldsave.length := by omega
        have c2 : S ≤ s.oldsave.length - s.nsave := by omega
        have c3 : b.nsave ≤ s.oldsave.length - s.nsave - S := by omega
        have c4 : ¬ (s.nsave + S + b.nsave > s.oldsave.length) := by omega
        simp only [csub, c1, c2, c3, c4, ↓reduceIte, Option.bind_some]
        generalize hend : s.oldsave.length - s.nsave - S = end_
        generalize hstart : end_ - b.nsave = start
        obtain ⟨A, B, C⟩ := lit_slices s.oldsave (s.nsave + S) b.nsave end_ start hfit (by omega) hstart.symm
        rw [C20_cutLoop_eq_cutKeep]
        have c5 : start ≤ end_ ∧ end_ ≤ s.oldsave.reverse.length := by
          simp only [List.length_reverse]; omega
        simp only [c5, and_self, ↓reduceIte, Option.bind_some, A, B, C]
        have hcg : cutKeep (((s.oldsave.drop (s.nsave + S)).take b.nsave).reverse.map (·.1))
              (s.oldsave.take (s.nsave + S)).reverse =
            cutKeep (((s.oldsave.drop (s.nsave + S)).take b.nsave).map (·.1))
              (s.oldsave.take (s.nsave + S)).reverse := by
          apply cutKeep_congr
          intro x
          rw [Bool.eq_iff_iff]
          simp
        rw [hcg]
        generalize cutKeep (((s.oldsave.drop (s.nsave + S)).take b.nsave).map (·.1))
              (s.oldsave.take (s.nsave + S)).reverse = kept
        congr 2
        · rw [List.reverse_append, List.reverse_reverse, List.append_assoc]
          congr 1
          have hdd : s.oldsave.drop (s.nsave + S + b.nsave) = (s.oldsave.drop (s.nsave + S)).drop b.nsave := by
            rw [List.drop_drop]
          rw [hdd, List.take_append_drop]
        · omega
      · have c4 : s.nsave + S + b.nsave > s.oldsave.length := by omega
        simp only [c4, ↓reduceIte, csub]
        by_cases c1 : s.nsave ≤ s.oldsave.length
        · simp only [c1, ↓reduceIte, Option.bind_some]
          by_cases c2 : S ≤ s.oldsave.length - s.nsave
          · simp only [c2, ↓reduceIte, Option.bind_some]
            have c3 : ¬ b.nsave ≤ s.oldsave.length - s.nsave - S := by omega
            simp only [c3, ↓reduceIte, Option.bind_none]
          · simp only [c2, ↓reduceIte, Option.bind_none]
        · simp only [c1, ↓reduceIte, Option.bind_none]

/-! ### Non-vacuity: a log on which the loop really swaps

Rust-oriented vector (oldest first) `[(0,10) | (0,11), (1,12), (0,13), (2,14)]`, target segment
`v[0..1]`. `ix = 1`: slot 0 seen, skipped. `ix = 2`: slot 1 is new and `oldsave_ix = 1 ≠ ix`:
`swap(1, 2)`. `ix = 3`: skipped. `ix = 4`: slot 2 is new, `swap(2, 4)`. Truncate to 3. -/

example : swapAt [(0, 10), (0, 11), (1, 12), (0, 13), (2, 14)] 1 2 =
    some [(0, 10), (1, 12), (0, 11), (0, 13), (2, 14)] := by decide

/-- the loop state after the last iteration, before `truncate`: the rejected entries are in
    swapped order behind `oldsave_ix = 3` -/
example : (List.range' 1 4).foldlM cutLoopBody (1, [0], [(0, 10), (0, 11), (1, 12), (0, 13), (2, 14)]) =
    some (3, [2, 1, 0], [(0, 10), (1, 12), (2, 14), (0, 13), (0, 11)]) := by decide

example : cutLoop [(0, 10), (0, 11), (1, 12), (0, 13), (2, 14)] 0 1 =
    some ([(0, 10), (1, 12), (2, 14)], 3) := by decide

example : cutKeep [0] [(0, 11), (1, 12), (0, 13), (2, 14)] = [(1, 12), (2, 14)] := by decide

/-- the same log inside a state (model orientation: newest first), three alternatives, commit to
    height 1 -/
def exCut : State :=
  ⟨[5, 6, 7], [⟨3, 3, 1⟩, ⟨2, 2, 2⟩, ⟨1, 1, 1⟩, ⟨0, 0, 0⟩], [(2, 14), (0, 13), (1, 12), (0, 11), (0, 10)], 1, 3, 10⟩

example : backtrackCutLit exCut 1 =
    some ⟨[5, 6, 7], [⟨0, 0, 0⟩], [(2, 14), (1, 12), (0, 10)], 3, 3, 10⟩ := by decide
example : exCut.backtrackCut 1 = backtrackCutLit exCut 1 := by decide
/-- a panicking input (`count` above the height) panics on both sides -/
example : backtrackCutLit exCut 7 = none ∧ exCut.backtrackCut 7 = none := by decide

/-! ## Part 2: operation sequences with the auxiliary stack -/

/-- the operation alphabet of Proofs/C20.lean (`push`, `pop`, `save`, `cut`) extended with the
    auxiliary-stack operations. (Proofs/C20.lean cannot be imported here together with
    Lemmas/AuxStack.lean — both `Fancy.run` — so the four old letters are repeated.) -/
inductive Op2 where
  | push (pc ix : Nat)          -- create an alternative
  | pop                         -- abandon the current alternative
  | save (slot val : Nat)       -- write a slot
  | cut (count : Nat)           -- `backtrack_cut(count)`
  | enterAtomic                 -- `BeginAtomic`: `stack_push(backtrack_count())`
  | commitAtomic                -- `EndAtomic`: `let count = stack_pop(); backtrack_cut(count)`
  | stackPush (v : Nat)         -- raw `stack_push(v)`
  | stackPop                    -- raw `stack_pop()`
deriving Repr, DecidableEq

/-- one operation on the undo-log state, with its observable output (`pop`: the `(pc, ix)` of the
    alternative, `stackPop`: the popped value); `none`: the Rust code panics / reports overflow -/
def applyOp2 (s : State) : Op2 → Option (State × List Nat)
  | .push pc ix => match s.push pc ix with | .ok s' => some (s', []) | .overflow => none
  | .pop => s.pop.map fun r => (r.1, [r.2.1, r.2.2])
  | .save slot val => (s.save slot val).map fun s' => (s', [])
  | .cut count => (s.backtrackCut count).map fun s' => (s', [])
  | .enterAtomic => (s.stackPush s.backtrackCount).map fun s' => (s', [])
  | .commitAtomic => s.stackPop.bind fun r => (r.1.backtrackCut r.2).map fun s' => (s', [])
  | .stackPush v => (s.stackPush v).map fun s' => (s', [])
  | .stackPop => s.stackPop.map fun r => (r.1, [r.2])

/-- run a sequence, concatenating the outputs -/
def run2 (s : State) : List Op2 → Option (State × List Nat)
  | [] => some (s, [])
  | op :: ops => (applyOp2 s op).bind fun r1 => (run2 r1.1 ops).map fun r => (r.1, r1.2 ++ r.2)

/-- one operation on the structured reference state (slots, auxiliary stack, branch stack of
    whole copies); `none` when the operation makes no sense there -/
def sApplyOp (maxStack : Nat) (σ : SState) : Op2 → Option (SState × List Nat)
  | .push pc ix =>
    if σ.stack.length < maxStack then some ({ σ with stack := ⟨pc, ix, σ.slots, σ.astk⟩ :: σ.stack }, [])
    else none
  | .pop =>
    match σ.stack with
    | [] => none
    | b :: rest => some (⟨b.slots, b.astk, rest⟩, [b.pc, b.ix])
  | .save slot val =>
    if slot < σ.slots.length then some ({ σ with slots := σ.slots.set slot val }, []) else none
  | .cut count =>
    if count ≤ σ.stack.length then some ({ σ with stack := σ.stack.drop (σ.stack.length - count) }, [])
    else none
  | .enterAtomic => some ({ σ with astk := σ.stack.length :: σ.astk }, [])
  | .commitAtomic =>
    match σ.astk with
    | [] => none
    | c :: rest =>
      if c ≤ σ.stack.length then
        some ({ σ with astk := rest, stack := σ.stack.drop (σ.stack.length - c) }, [])
      else none
  | .stackPush v => some ({ σ with astk := v :: σ.astk }, [])
  | .stackPop =>
    match σ.astk with
    | [] => none
    | v :: rest => some ({ σ with astk := rest }, [v])

def srun (maxStack : Nat) (σ : SState) : List Op2 → Option (SState × List Nat)
  | [] => some (σ, [])
  | op :: ops => (sApplyOp maxStack σ op).bind fun r1 => (srun maxStack r1.1 ops).map fun r => (r.1, r1.2 ++ r.2)

/-- one step of the refinement -/
theorem C20_step_all {nS : Nat} {s : State} {σ : SState} (h : Inv2 nS s σ) (op : Op2) (σ' : SState)
    (out : List Nat) (ha : sApplyOp s.maxStack σ op = some (σ', out)) :
    ∃ s', applyOp2 s op = some (s', out) ∧ Inv2 nS s' σ' ∧ s'.maxStack = s.maxStack := by
  cases op with
  | push pc ix =>
    simp only [sApplyOp] at ha
    split at ha
    · rename_i hlt
      cases ha
      obtain ⟨s', e1, e2, _, e4⟩ := rep_push_ok h pc ix hlt
      exact ⟨s', by simp only [applyOp2, e1], e2, e4⟩
    · cases ha
  | pop =>
    simp only [sApplyOp] at ha
    split at ha
    · cases ha
    · rename_i b rest hs
      cases ha
      obtain ⟨s', e1, e2, _, e4⟩ := rep_pop h b rest hs
      exact ⟨s', by simp only [applyOp2, e1, Option.map_some], e2, e4⟩
  | save slot val =>
    simp only [sApplyOp] at ha
    split at ha
    · rename_i hlt
      cases ha
      obtain ⟨s', e1, e2, _, e4⟩ := rep_save h slot val (by rw [← h.rep.1.1]; exact hlt)
      exact ⟨s', by simp only [applyOp2, e1, Option.map_some], e2, e4⟩
    · cases ha
  | cut count =>
    simp only [sApplyOp] at ha
    split at ha
    · rename_i hle
      cases ha
      obtain ⟨s', e1, e2, _, e4⟩ := rep_cut h count hle
      exact ⟨s', by simp only [applyOp2, e1, Option.map_some], e2, e4⟩
    · cases ha
  | enterAtomic =>
    simp only [sApplyOp, Option.some.injEq, Prod.mk.injEq] at ha
    obtain ⟨rfl, rfl⟩ := ha
    obtain ⟨s', e1, e2, _, e4⟩ := rep_stackPush h s.backtrackCount
    rw [rep_backtrackCount h] at e1 e2
    exact ⟨s', by simp only [applyOp2, rep_backtrackCount h, e1, Option.map_some], e2, e4⟩
  | commitAtomic =>
    simp only [sApplyOp] at ha
    split at ha
    · cases ha
    · rename_i c rest hs
      split at ha
      · rename_i hle
        cases ha
        obtain ⟨s1, e1, e2, _, e4⟩ := rep_stackPop h c rest hs
        obtain ⟨s', g1, g2, _, g4⟩ := rep_cut e2 c hle
        exact ⟨s', by simp only [applyOp2, e1, Option.bind_some, g1, Option.map_some], g2, by rw [g4, e4]⟩
      · cases ha
  | stackPush v =>
    simp only [sApplyOp, Option.some.injEq, Prod.mk.injEq] at ha
    obtain ⟨rfl, rfl⟩ := ha
    obtain ⟨s', e1, e2, _, e4⟩ := rep_stackPush h v
    exact ⟨s', by simp only [applyOp2, e1, Option.map_some], e2, e4⟩
  | stackPop =>
    simp only [sApplyOp] at ha
    split at ha
    · cases ha
    · rename_i v rest hs
      cases ha
      obtain ⟨s', e1, e2, _, e4⟩ := rep_stackPop h v rest hs
      exact ⟨s', by simp only [applyOp2, e1, Option.map_some], e2, e4⟩

/-- **C20, all operations.** For EVERY sequence over the extended alphabet on which the structured
    reference (slots / auxiliary stack / whole copies) is defined, the undo-log state with the
    auxiliary stack stored inside the slot vector is defined too, lands in a state related by
    `Inv2`, and yields the same outputs. -/
theorem C20_refines_all {nS : Nat} (ops : List Op2) {s : State} {σ : SState} (h : Inv2 nS s σ)
    (σ' : SState) (out : List Nat) (ha : srun s.maxStack σ ops = some (σ', out)) :
    ∃ s', run2 s ops = some (s', out) ∧ Inv2 nS s' σ' ∧ s'.maxStack = s.maxStack := by
  induction ops generalizing s σ out with
  | nil =>
    simp only [srun, Option.some.injEq, Prod.mk.injEq] at ha
    obtain ⟨rfl, rfl⟩ := ha
    exact ⟨s, rfl, h, rfl⟩
  | cons op ops ih =>
    simp only [srun] at ha
    cases h1 : sApplyOp s.maxStack σ op with
    | none => simp [h1] at ha
    | some r1 =>
      obtain ⟨σ1, o1⟩ := r1
      simp only [h1, Option.bind_some] at ha
      cases h2 : srun s.maxStack σ1 ops with
      | none => simp [h2] at ha
      | some r2 =>
        obtain ⟨σ2, o2⟩ := r2
        simp only [h2, Option.map_some, Option.some.injEq, Prod.mk.injEq] at ha
        obtain ⟨rfl, rfl⟩ := ha
        obtain ⟨s1, e1, e2, e3⟩ := C20_step_all h op σ1 o1 h1
        rw [← e3] at h2
        obtain ⟨s', g1, g2, g3⟩ := ih e2 o2 h2
        exact ⟨s', by simp only [run2, e1, Option.bind_some, g1, Option.map_some], g2, by rw [g3, e3]⟩

/-- every run from the initial state -/
theorem C20_reachable_all (nS m : Nat) (ops : List Op2) (σ' : SState) (out : List Nat)
    (ha : srun m ⟨List.replicate nS UNSET, [], []⟩ ops = some (σ', out)) :
    ∃ s', run2 (State.new nS m) ops = some (s', out) ∧ Inv2 nS s' σ' :=
  let ⟨s', a, b, _⟩ := C20_refines_all ops (inv2_init nS m) σ' out ha
  ⟨s', a, b⟩

/-- what `Inv2` says about the concrete vector: its first `nS` cells are the reference slots -/
theorem Inv2.slots_eq {nS : Nat} {s : State} {σ : SState} (h : Inv2 nS s σ) : s.saves.take nS = σ.slots :=
  h.rep.1.2.1

theorem srun_append (m : Nat) (l1 l2 : List Op2) (σ σ1 : SState) (o1 : List Nat)
    (h : srun m σ l1 = some (σ1, o1)) :
    srun m σ (l1 ++ l2) = (srun m σ1 l2).map fun r => (r.1, o1 ++ r.2) := by
  induction l1 generalizing σ o1 with
  | nil =>
    simp only [srun, Option.some.injEq, Prod.mk.injEq] at h
    obtain ⟨rfl, rfl⟩ := h
    simp only [List.nil_append]
    cases srun m σ l2 <;> simp
  | cons op l1 ih =>
    simp only [srun] at h
    cases h1 : sApplyOp m σ op with
    | none => simp [h1] at h
    | some r1 =>
      obtain ⟨σa, oa⟩ := r1
      simp only [h1, Option.bind_some] at h
      cases h2 : srun m σa l1 with
      | none => simp [h2] at h
      | some r2 =>
        obtain ⟨σb, ob⟩ := r2
        simp only [h2, Option.map_some, Option.some.injEq, Prod.mk.injEq] at h
        obtain ⟨rfl, rfl⟩ := h
        simp only [List.cons_append, srun, h1, Option.bind_some, ih σa ob h2]
        cases srun m σb l2 <;> simp

/-! ### The property's clauses -/

/-- the reference run of a whole atomic group `enterAtomic :: body ++ [commitAtomic]`, for a body
    that ends with the matching enter's record on top of the auxiliary stack and with the
    alternatives of enter time still below the ones created since -/
theorem srun_group (m : Nat) (σ0 σ2 : SState) (body : List Op2) (out : List Nat) (new : List SBranch)
    (hbody : srun m { σ0 with astk := σ0.stack.length :: σ0.astk } body = some (σ2, out))
    (hastk : σ2.astk = σ0.stack.length :: σ0.astk) (hstk : σ2.stack = new ++ σ0.stack) :
    srun m σ0 (.enterAtomic :: body ++ [.commitAtomic]) = some (⟨σ2.slots, σ0.astk, σ0.stack⟩, out) := by
  have hdrop : σ2.stack.drop (σ2.stack.length - σ0.stack.length) = σ0.stack := by
    rw [hstk, List.length_append, Nat.add_sub_cancel, List.drop_left]
  have hle : σ0.stack.length ≤ σ2.stack.length := by rw [hstk, List.length_append]; omega
  simp only [List.cons_append, srun, sApplyOp, Option.bind_some, srun_append m body _ _ σ2 out hbody, hastk,
    hle, ↓reduceIte, Option.map_some, hdrop, List.nil_append, List.append_nil]

/-- **Commit discards exactly the alternatives created since the matching enter.** Let the group
    be entered in a state with branch stack `σ0.stack`, and let its body (ANY operation sequence)
    reach, in the reference, a state whose auxiliary stack has the enter record on top and whose
    branch stack is `new ++ σ0.stack` (`new` = the alternatives created since). Then the real
    `EndAtomic` is defined, the branch stack becomes exactly the one of enter time — all of `new`
    gone, nothing older touched, copies included —, the auxiliary stack is back to its enter-time
    value, and the slots keep their CURRENT values `σ2.slots`. -/
theorem C20_commit_discards_exactly {nS : Nat} {s : State} {σ0 : SState} (h : Inv2 nS s σ0)
    (body : List Op2) (σ2 : SState) (out : List Nat) (new : List SBranch)
    (hbody : srun s.maxStack { σ0 with astk := σ0.stack.length :: σ0.astk } body = some (σ2, out))
    (hastk : σ2.astk = σ0.stack.length :: σ0.astk) (hstk : σ2.stack = new ++ σ0.stack) :
    ∃ s', run2 s (.enterAtomic :: body ++ [.commitAtomic]) = some (s', out) ∧
      Inv2 nS s' ⟨σ2.slots, σ0.astk, σ0.stack⟩ ∧
      s'.saves.take nS = σ2.slots ∧ s'.stack.length = s.stack.length := by
  obtain ⟨s', e1, e2, _⟩ := C20_refines_all _ h _ out (srun_group _ σ0 σ2 body out new hbody hastk hstk)
  exact ⟨s', e1, e2, e2.slots_eq, by rw [← e2.stack_length, ← h.stack_length]⟩

/-- **A later backtrack still restores the pre-group values.** If an alternative `b` existed
    BEFORE the group was entered, then after the whole group (any body as above, with whatever slot
    writes, nested alternatives and compaction) has been committed, abandoning lands exactly in
    `b`'s alternative: its `(pc, ix)`, every slot and the auxiliary stack at the values they had
    when `b` was created. -/
theorem C20_backtrack_after_commit_restores {nS : Nat} {s : State} {σ0 : SState} (h : Inv2 nS s σ0)
    (b : SBranch) (rest : List SBranch) (hb : σ0.stack = b :: rest)
    (body : List Op2) (σ2 : SState) (out : List Nat) (new : List SBranch)
    (hbody : srun s.maxStack { σ0 with astk := σ0.stack.length :: σ0.astk } body = some (σ2, out))
    (hastk : σ2.astk = σ0.stack.length :: σ0.astk) (hstk : σ2.stack = new ++ σ0.stack) :
    ∃ s', run2 s ((.enterAtomic :: body ++ [.commitAtomic]) ++ [.pop]) = some (s', out ++ [b.pc, b.ix]) ∧
      Inv2 nS s' ⟨b.slots, b.astk, rest⟩ ∧ s'.saves.take nS = b.slots := by
  have hg := srun_group _ σ0 σ2 body out new hbody hastk hstk
  have hall : srun s.maxStack σ0 ((.enterAtomic :: body ++ [.commitAtomic]) ++ [.pop]) =
      some (⟨b.slots, b.astk, rest⟩, out ++ [b.pc, b.ix]) := by
    rw [srun_append _ _ _ _ _ _ hg]
    simp only [srun, sApplyOp, hb, Option.bind_some, Option.map_some, List.append_nil]
  obtain ⟨s', e1, e2, _⟩ := C20_refines_all _ h _ _ hall
  exact ⟨s', e1, e2, e2.slots_eq⟩

/-- a single commit, no assumption on how the state was reached: with record `c` on top of the
    auxiliary stack, exactly the `c` oldest alternatives survive, the slots are untouched -/
theorem C20_commit_step {nS : Nat} {s : State} {σ : SState} (h : Inv2 nS s σ) (c : Nat) (rest : List Nat)
    (hs : σ.astk = c :: rest) (hc : c ≤ σ.stack.length) :
    ∃ s', applyOp2 s .commitAtomic = some (s', []) ∧
      Inv2 nS s' ⟨σ.slots, rest, σ.stack.drop (σ.stack.length - c)⟩ ∧
      s'.saves.take nS = σ.slots ∧ s'.stack.length = c := by
  have ha : sApplyOp s.maxStack σ .commitAtomic =
      some (⟨σ.slots, rest, σ.stack.drop (σ.stack.length - c)⟩, []) := by
    simp only [sApplyOp, hs, hc, ↓reduceIte]
  obtain ⟨s', e1, e2, _⟩ := C20_step_all h _ _ _ ha
  refine ⟨s', e1, e2, e2.slots_eq, ?_⟩
  rw [← e2.stack_length]
  simp only [List.length_drop]
  omega

/-! ### Non-vacuity

`exS` / `exσ` (Lemmas/AuxStack.lean): slots `[7, 8]`, auxiliary stack `[9]`, one pending
alternative `⟨5, 1, [7, 8], []⟩`. The body writes both slots, creates two nested alternatives with
writes to the same slot in between (so the commit's compaction has something to drop). -/

def exBody : List Op2 := [.save 0 3, .push 6 2, .save 0 4, .stackPush 1, .push 7 3, .save 1 5, .stackPop]

example : ∃ s', run2 exS (.enterAtomic :: exBody ++ [.commitAtomic]) = some (s', [1]) ∧
    Inv2 2 s' ⟨[4, 5], [9], [⟨5, 1, [7, 8], []⟩]⟩ ∧ s'.saves.take 2 = [4, 5] ∧ s'.stack.length = 1 :=
  C20_commit_discards_exactly exInv2 exBody ⟨[4, 5], [1, 9], _⟩ [1]
    [⟨7, 3, [4, 8], [1, 1, 9]⟩, ⟨6, 2, [3, 8], [1, 9]⟩] (by decide) rfl rfl

example : ∃ s', run2 exS ((.enterAtomic :: exBody ++ [.commitAtomic]) ++ [.pop]) = some (s', [1, 5, 1]) ∧
    Inv2 2 s' ⟨[7, 8], [], []⟩ ∧ s'.saves.take 2 = [7, 8] :=
  C20_backtrack_after_commit_restores exInv2 ⟨5, 1, [7, 8], []⟩ [] rfl exBody ⟨[4, 5], [1, 9], _⟩ [1]
    [⟨7, 3, [4, 8], [1, 1, 9]⟩, ⟨6, 2, [3, 8], [1, 9]⟩] (by decide) rfl rfl

/-- the same, executed: the concrete undo-log run and the reference run, from the initial state.
    (At the commit the Rust-oriented log is `.. | (2,3), (0,7) | (0,3), (1,8), (2,4)`: `(0,3)` is
    skipped, `(1,8)` is swapped down over it, `(2,4)` is skipped.) -/
example : (run2 (State.new 2 10)
      [.save 0 7, .save 1 8, .push 5 1, .enterAtomic, .save 0 3, .push 6 2, .save 0 4, .push 7 3, .save 1 5,
       .commitAtomic]).map (fun r => (r.1.saves.take 2, r.1.stack.length, r.1.oldsave.take r.1.nsave, r.2)) =
    some ([4, 5], 1, [(1, 8), (0, 7), (2, 3)], []) := by decide

example : srun 10 ⟨List.replicate 2 UNSET, [], []⟩
      [.save 0 7, .save 1 8, .push 5 1, .enterAtomic, .save 0 3, .push 6 2, .save 0 4, .push 7 3, .save 1 5,
       .commitAtomic, .pop] = some (⟨[7, 8], [], []⟩, [5, 1]) := by decide

example : (run2 (State.new 2 10)
      [.save 0 7, .save 1 8, .push 5 1, .enterAtomic, .save 0 3, .push 6 2, .save 0 4, .push 7 3, .save 1 5,
       .commitAtomic, .pop]).map (fun r => (r.1.saves.take 2, r.2)) = some ([7, 8], [5, 1]) := by decide

/-- `C20_step_all` / `C20_commit_step` on a concrete state: enter, then commit at once -/
example : ∃ s1 s', applyOp2 exS .enterAtomic = some (s1, []) ∧ applyOp2 s1 .commitAtomic = some (s', []) ∧
    Inv2 2 s' exσ ∧ s'.stack.length = 1 := by
  obtain ⟨s1, a1, a2, _⟩ := C20_step_all exInv2 .enterAtomic { exσ with astk := 1 :: exσ.astk } [] rfl
  obtain ⟨s', b1, b2, _, b4⟩ := C20_commit_step a2 1 [9] rfl (by decide)
  exact ⟨s1, s', a1, b1, b2, b4⟩

/-- `C20_refines_all` / `C20_reachable_all`: the hypothesis holds for a sequence using every letter -/
example : ∃ s', run2 (State.new 2 10)
      [.save 0 7, .push 5 1, .stackPush 4, .enterAtomic, .push 6 2, .save 1 8, .cut 2, .commitAtomic,
       .stackPop, .pop] = some (s', [4, 5, 1]) ∧
    Inv2 2 s' ⟨[7, UNSET], [], []⟩ :=
  C20_reachable_all 2 10 _ _ _ (by decide)

end Fancy
