import FancyModel.Lemmas.SimCompile3
import FancyModel.Lemmas.DelegFrame
import FancyModel.Lemmas.AVM2Fuel
import FancyModel.Proofs.C01c
/-!
# C01 / C02 / C15 / C07 / C05 — compiler correctness with delegation (engine refinement, stage S3)

`C01_vm_correct_s3`: for every pattern inside the decidable stage predicate `s3Stage` — the tree is
well shaped, has no bare `\Z` node, satisfies `s3ok` (Spec/Stage.lean: everything of stage S2, plus
classes and case-insensitive literals, whole easy sub-trees in non-hard contexts, constant-size easy
prefixes / suffixes without capture groups in hard contexts, trailing easy runs in non-hard
contexts), and every `Delegate` of the compiled program stays inside the ordinary slots — for every
text and start offset, the VM run of the compiled wrapped tree returns exactly the reference search
result (match / no match, span, every capture group), unless it stops for a resource reason.

`Delegate es sg eg` is executed by `delegateOracle`: the first result, in priority order, of the
reference semantics of `es` anchored at the current position, with the delegate's own groups
starting unset — assumption **A-RA** about regex-automata (checked by the correspondence on every
delegated piece of every explored pattern, not proved).

Also here, from the same derivation: the run **terminates** (`C07_terminates_s3`: some amount of
fuel suffices and bounds the number of executed instructions) and **never panics**
(`C05_no_panic_s3`).
-/
namespace Fancy

/-- the decidable side conditions of the stage-S3 theorems, as the driver evaluates them -/
def s3Stage (tree : Expr) (backrefs : List Nat) : Bool :=
  match build tree backrefs with
  | .ok b => (match b.kind with
    | .fancy prog =>
      s3ok (fun g => backrefs.contains g) b.raw true && wellShaped b.raw && noBareEndZ b.raw &&
        progDelegOK prog.nSaves prog.body
    | .wrap => false)
  | .error _ => false

/-- what the structured machine answers from the initial configuration of a search -/
def refAns (c : Ctx) (b : Built) : Ans :=
  match (sem c b.wrapped ⟨c.pos, initSlots b.nGroups⟩).head? with
  | some r => .matched (capSaves (unview r.slots) c.pos)
  | none => .noMatch

/-- **the structured machine reaches the reference answer** -/
theorem big2_s3 (tree : Expr) (backrefs : List Nat) (b : Built) (prog : Prog) (c : Ctx)
    (hb : build tree backrefs = .ok b) (hk : b.kind = .fancy prog)
    (hok : s3ok (fun g => backrefs.contains g) b.raw true = true) (hws : wellShaped b.raw = true)
    (hz : noBareEndZ b.raw = true) (hlen : c.len < UNSET) (hpos : c.pos ≤ c.len) :
    Big2 c prog.body prog.nSaves (.run 0 c.pos (List.replicate prog.nSaves UNSET) [] []) (refAns c b) := by
  obtain ⟨hw, hwr, hchk, hhard, hcomp⟩ := build_fancy tree backrefs b prog hb hk
  generalize (fun g => backrefs.contains g) = br at hhard hcomp hok
  unfold compile at hcomp
  have hgc : groupCount b.wrapped = b.nGroups := by
    have := checkRefs_count _ _ _ hchk; omega
  simp only [hgc] at hcomp
  cases hv : visit br b.wrapped false 0 (b.nGroups * 2) 0 with
  | error e => simp [hv] at hcomp
  | ok p =>
    obtain ⟨code, nsv⟩ := p
    simp only [hv, Except.ok.injEq] at hcomp
    subst hcomp
    have hn0 : 0 < b.nGroups := by
      rw [hw] at hgc; simp only [groupCount, groupCountList] at hgc; omega
    -- the hypotheses of the simulation theorem for the wrapped tree
    have hwh : isHard br b.wrapped = true := by rw [hw]; simp [isHard, isHardAny, hhard]
    have hokw : s3ok br b.wrapped false = true := by
      rw [hw, s3ok]
      have hsp := concatSplit_wrapped br b.raw 0 (by simp [isHard, hhard])
      simp [isHard, isHardAny, hhard, hsp, s3okAll, s3ok, hok, noBareEndZAll, noBareEndZ, hz, groupCountList, minSize]
    have h3 : H3 (2 * b.nGroups) b.wrapped 0 := by
      refine ⟨?_, ?_, ?_, by omega⟩
      · rw [hw]; simp [wellShaped, wellShapedAll, hws]
      · have := slotsBelow_renumber b.nGroups hn0 (wrapTree tree) 0 b.nGroups (by rw [← hwr]; exact hchk) (Nat.le_refl _)
        rw [← hwr] at this; exact this
      · rw [hwr]; exact numbered_renumber _ _
    have hcode : CodeAt (code ++ [Insn.end_]) 0 code := ⟨[], [Insn.end_], by simp, rfl⟩
    obtain ⟨hle, hsim⟩ := sim3_visit c (2 * b.nGroups) nsv br hlen b.wrapped false 0 (b.nGroups * 2) 0 code nsv
      (code ++ [Insn.end_]) hokw h3 hv hcode (by omega)
    have hsim := hsim (Nat.le_refl _) true (Or.inr rfl)
    have hst0 : (⟨c.pos, initSlots b.nGroups⟩ : St).Good c (2 * b.nGroups) :=
      ⟨hpos, by simp [initSlots], by intro v hv; simp [initSlots] at hv⟩
    have hend : (code ++ [Insn.end_])[code.length]? = some Insn.end_ := by simp
    have hbig := hsim.apply_all ⟨c.pos, initSlots b.nGroups⟩ (List.replicate (nsv - 2 * b.nGroups) UNSET) [] []
      (fun r _ => .matched (capSaves (unview r.slots) c.pos)) .noMatch hst0 (by simp; omega)
      (by simpa [SuccOK] using Commit.const (fun r => Ans.matched (capSaves (unview r.slots) c.pos))) Big2.failEmpty
      (by
        intro r hr aux' junk S acc hag _ _ _
        have hrg := sem_good c _ _ _ r hst0 hr
        have hl' : (unview r.slots ++ aux').length = nsv := by
          simp only [List.length_append, unview_length, hrg.len, hag.1, List.length_replicate]; omega
        have := Big2.done (c := c) (prog := code ++ [Insn.end_]) (nS := nsv) (0 + code.length) r.ix (unview r.slots ++ aux')
          (junk ++ []) (S ++ []) (2 * b.nGroups) (by simpa using hend) (by omega) (by omega) hl'
        rw [capSaves_take _ _ _ (by omega) (by rw [hl']; omega)] at this
        have htk : (unview r.slots ++ aux').take (2 * b.nGroups) = unview r.slots := by
          rw [List.take_append_of_le_length (by simp [hrg.len])]
          exact List.take_of_length_le (by simp [hrg.len])
        rw [htk] at this
        simpa using this)
    have huv : unview (initSlots b.nGroups) ++ List.replicate (nsv - 2 * b.nGroups) UNSET = List.replicate nsv UNSET := by
      have : unview (initSlots b.nGroups) = List.replicate (2 * b.nGroups) UNSET := by simp [unview, initSlots]
      rw [this, List.replicate_append_replicate]; congr 1; omega
    simp only [huv] at hbig
    have hfold : ∀ (l : List St), l.foldr (fun r (_ : Ans) => Ans.matched (capSaves (unview r.slots) c.pos)) .noMatch =
        match l.head? with
        | some r => .matched (capSaves (unview r.slots) c.pos)
        | none => .noMatch := by
      intro l; cases l <;> rfl
    rw [hfold] at hbig
    exact hbig

/-- the reference answer, read as a search result, is the reference search -/
theorem refAns_eq (tree : Expr) (backrefs : List Nat) (b : Built) (prog : Prog) (c : Ctx)
    (hb : build tree backrefs = .ok b) (hk : b.kind = .fancy prog) (hlen : c.len < UNSET) (hpos : c.pos ≤ c.len) :
    (match refAns c b with
      | .matched sl => SearchResult.found (viewSlots sl)
      | .noMatch => SearchResult.noMatch) =
    (match refSearch c b.raw b.nGroups with
      | some f => SearchResult.found f.slots
      | none => SearchResult.noMatch) ∧
    (∀ sl, refAns c b = .matched sl → sl.length = b.nGroups * 2) := by
  obtain ⟨hw, _, hchk, _, _⟩ := build_fancy tree backrefs b prog hb hk
  have hn0 : 0 < b.nGroups := by
    have := checkRefs_count _ _ _ hchk
    rw [hw] at this; simp only [groupCount, groupCountList] at this; omega
  have hhead := sem_wrapped_head c b.raw b.nGroups hpos
  have href : refSearch c b.raw b.nGroups =
      (List.range (c.len - c.pos + 1)).findSome? fun k =>
        ((sem c b.raw ⟨c.pos + k, (initSlots b.nGroups).set 0 (some (c.pos + k))⟩).head?).map (finish c) := by
    unfold refSearch
    simp only [hpos, ↓reduceIte]
    exact scanFrom_findSome c b.raw b.nGroups _ _
  unfold refAns
  rw [hw, hhead, href]
  have hks : ∀ k ∈ List.range (c.len - c.pos + 1), c.pos + k ≤ c.len := by
    intro k hk'; have := List.mem_range.mp hk'; omega
  generalize (List.range (c.len - c.pos + 1)) = ks at hks
  induction ks with
  | nil => simp
  | cons k ks ih =>
    simp only [List.findSome?_cons]
    cases hh : (sem c b.raw ⟨c.pos + k, (initSlots b.nGroups).set 0 (some (c.pos + k))⟩).head? with
    | none => simpa using ih (fun k' hk' => hks k' (List.mem_cons_of_mem _ hk'))
    | some r =>
      simp only [Option.map_some]
      have hrg : r.Good c (b.nGroups * 2) := by
        have hmem : r ∈ sem c b.raw ⟨c.pos + k, (initSlots b.nGroups).set 0 (some (c.pos + k))⟩ :=
          List.mem_of_mem_head? hh
        have hk' := hks k (by simp)
        refine sem_good c _ b.raw _ r ?_ hmem
        have h0 : (⟨c.pos + k, initSlots b.nGroups⟩ : St).Good c (b.nGroups * 2) :=
          ⟨hk', by simp [initSlots, Nat.mul_comm], by intro v hv; simp [initSlots] at hv⟩
        exact h0.setSlot 0 (c.pos + k) hk'
      have hfin := finish_eq c r (b.nGroups * 2) hrg (by omega) hlen hpos
      have hlen' : (capSaves (unview (r.setSlot 1 (some r.ix)).slots) c.pos).length = b.nGroups * 2 := by
        have : (unview (r.setSlot 1 (some r.ix)).slots).length = b.nGroups * 2 := by
          simp [St.setSlot, hrg.len]
        rw [← this]; unfold capSaves; split <;> simp
      constructor
      · simp only [SearchResult.found.injEq]
        rw [← hfin, List.take_of_length_le (by simp [viewSlots, hlen'])]
      · intro sl hsl
        simp only [Ans.matched.injEq] at hsl
        rw [← hsl]; exact hlen'

theorem s3Stage_spec (tree : Expr) (backrefs : List Nat) (h : s3Stage tree backrefs = true) :
    ∃ b prog, build tree backrefs = .ok b ∧ b.kind = .fancy prog ∧
      s3ok (fun g => backrefs.contains g) b.raw true = true ∧ wellShaped b.raw = true ∧ noBareEndZ b.raw = true ∧
      progDelegOK prog.nSaves prog.body = true := by
  unfold s3Stage at h
  cases hb : build tree backrefs with
  | error e => simp [hb] at h
  | ok b =>
    simp only [hb] at h
    cases hk : b.kind with
    | wrap => simp [hk] at h
    | fancy prog =>
      simp only [hk, Bool.and_eq_true] at h
      exact ⟨b, prog, rfl, hk, h.1.1.1, h.1.1.2, h.1.2, h.2⟩

/-- **C01 (and C02, C15), stage S3** -/
theorem C01_vm_correct_s3 (tree : Expr) (backrefs : List Nat) (b : Built) (prog : Prog) (c : Ctx)
    (hb : build tree backrefs = .ok b) (hk : b.kind = .fancy prog)
    (hok : s3ok (fun g => backrefs.contains g) b.raw true = true) (hws : wellShaped b.raw = true)
    (hz : noBareEndZ b.raw = true) (hdok : progDelegOK prog.nSaves prog.body = true)
    (hlen : c.len < UNSET) (hpos : c.pos ≤ c.len) : VmCorrectR b c := by
  intro limit fuel
  have hbig := big2_s3 tree backrefs b prog c hb hk hok hws hz hlen hpos
  have hgood := link2_initial c prog ⟨limit, maxStackDefault⟩ (delegOK_of_prog c prog.body prog.nSaves hdok) _ hbig fuel
  obtain ⟨href, hlensl⟩ := refAns_eq tree backrefs b prog c hb hk hlen hpos
  unfold Built.captures
  simp only [hk]
  unfold Good2 at hgood
  generalize run c prog ⟨limit, maxStackDefault⟩ fuel = res at hgood ⊢
  obtain ⟨out, stats⟩ := res
  simp only at hgood
  rcases hgood with h | h | h | h
  · left; subst h; rfl
  · right; left; subst h; rfl
  · right; right; left; subst h; rfl
  · right; right; right
    refine Eq.trans ?_ href
    cases hra : refAns c b with
    | noMatch => simp only [hra] at h; subst h; rfl
    | matched sl =>
      simp only [hra] at h
      obtain ⟨saves, rfl, hsv⟩ := h
      have := hlensl sl hra
      rw [this] at hsv
      simp only
      rw [← hsv]
      simp [viewSlots, List.map_take]

/-- **C07, stage S3: the search terminates** — some amount of fuel suffices for every larger amount -/
theorem C07_terminates_s3 (tree : Expr) (backrefs : List Nat) (b : Built) (prog : Prog) (c : Ctx)
    (hb : build tree backrefs = .ok b) (hk : b.kind = .fancy prog)
    (hok : s3ok (fun g => backrefs.contains g) b.raw true = true) (hws : wellShaped b.raw = true)
    (hz : noBareEndZ b.raw = true) (hdok : progDelegOK prog.nSaves prog.body = true)
    (hlen : c.len < UNSET) (hpos : c.pos ≤ c.len) (limit : Nat) :
    ∃ N, ∀ fuel, N ≤ fuel → (b.captures c limit fuel).1 ≠ .outOfFuel := by
  have hbig := big2_s3 tree backrefs b prog c hb hk hok hws hz hlen hpos
  obtain ⟨N, hN⟩ := link2_initial_terminates c prog ⟨limit, maxStackDefault⟩
    (delegOK_of_prog c prog.body prog.nSaves hdok) _ hbig
  refine ⟨N, fun fuel hf => ?_⟩
  have := hN fuel hf
  unfold Built.captures
  simp only [hk]
  generalize run c prog ⟨limit, maxStackDefault⟩ fuel = res at this ⊢
  obtain ⟨out, stats⟩ := res
  cases out <;> simp_all

/-- **C05, stage S3: the search never panics** -/
theorem C05_no_panic_s3 (tree : Expr) (backrefs : List Nat) (b : Built) (prog : Prog) (c : Ctx)
    (hb : build tree backrefs = .ok b) (hk : b.kind = .fancy prog)
    (hok : s3ok (fun g => backrefs.contains g) b.raw true = true) (hws : wellShaped b.raw = true)
    (hz : noBareEndZ b.raw = true) (hdok : progDelegOK prog.nSaves prog.body = true)
    (hlen : c.len < UNSET) (hpos : c.pos ≤ c.len) (limit fuel : Nat) (site : String) :
    (b.captures c limit fuel).1 ≠ .panic site := by
  have h := C01_vm_correct_s3 tree backrefs b prog c hb hk hok hws hz hdok hlen hpos limit fuel
  intro hp
  rw [hp] at h
  rcases h with h | h | h | h
  · cases h
  · cases h
  · cases h
  · cases href : refSearch c b.raw b.nGroups <;> simp [href] at h

/-! ### Non-vacuity: `\w+(?=\d)(?i:x)` — a class in a loop, a delegated look-ahead body, a case-insensitive literal -/
def exTree3 : Expr :=
  .concat [.repeat (.delegate ['\\', 'w'] 1 false) 1 none true, .look (.delegate ['\\', 'd'] 1 false) .ahead,
    .literal ['x'] true]

set_option linter.unusedSimpArgs false in
example : s3Stage exTree3 [] = true := by
  simp [s3Stage, build, exTree3, wrapTree, renumber, renumberList, checkRefs, checkRefsList, isHard, isHardAny,
    compile, visit, visitMiddle, visitAlt, concatSplit, groupCount, groupCountList, constSize, constSizeAll, minSize, minSizeMin,
    minSizeSum, allMinSize, compileDelegates, compileDelegate, isLiteral, isLiteralAll, s3ok, s3okAll, s3okAlts, condFree, condFreeAll,
    boundsEq, satMul, satAdd, sureReps, UNSET, Assertion.isHard, wrapPosLook, posLookBodyPc, pushLiteral, wellShaped, wellShapedAll,
    noBareEndZ, noBareEndZAll, progDelegOK, slotsBelow, slotsBelowAll]

/-! ### Non-vacuity: look-behinds over an alternation body, all four layouts of the compiler -/
/-- `(?<=a|bb)c`: alternatives of different sizes — an atomic group around an alternation of look-behinds -/
def exBehindAltDiff : Expr :=
  .concat [.look (.alt [.literal ['a'] false, .concat [.literal ['b'] false, .literal ['b'] false]]) .behind,
    .literal ['c'] false]
/-- `(?<!a|b)c`: alternatives of one size — the ordinary layout around the (delegated) alternation -/
def exBehindNegAltConst : Expr :=
  .concat [.look (.alt [.literal ['a'] false, .literal ['b'] false]) .behindNeg, .literal ['c'] false]
/-- `(?<=a|b)c` -/
def exBehindAltConst : Expr :=
  .concat [.look (.alt [.literal ['a'] false, .literal ['b'] false]) .behind, .literal ['c'] false]
/-- `(?<!a|bb)c`: a sequence of negative look-behinds -/
def exBehindNegAltDiff : Expr :=
  .concat [.look (.alt [.literal ['a'] false, .concat [.literal ['b'] false, .literal ['b'] false]]) .behindNeg,
    .literal ['c'] false]
/-- `(?<=\ba|bb)c`, `(?<=\ba|b)c`: a hard alternative (atomic layout, alternation compiled for the VM) -/
def exBehindAltHardDiff : Expr :=
  .concat [.look (.alt [.concat [.assertion .wordB, .literal ['a'] false],
    .concat [.literal ['b'] false, .literal ['b'] false]]) .behind, .literal ['c'] false]
def exBehindAltHardConst : Expr :=
  .concat [.look (.alt [.concat [.assertion .wordB, .literal ['a'] false], .literal ['b'] false]) .behind,
    .literal ['c'] false]

set_option linter.unusedSimpArgs false in
example : s3Stage exBehindAltDiff [] = true ∧ s3Stage exBehindNegAltConst [] = true ∧
    s3Stage exBehindAltConst [] = true ∧ s3Stage exBehindNegAltDiff [] = true ∧
    s3Stage exBehindAltHardDiff [] = true ∧ s3Stage exBehindAltHardConst [] = true := by
  simp [s3Stage, build, exBehindAltDiff, exBehindNegAltConst, exBehindAltConst, exBehindNegAltDiff, exBehindAltHardDiff,
    exBehindAltHardConst, wrapTree, renumber, renumberList, checkRefs, checkRefsList, isHard, isHardAny,
    compile, visit, visitMiddle, visitAlt, visitAltBody, lookBehindAlts, lookBehindNegAlts, concatSplit, groupCount, groupCountList,
    constSize, constSizeAll, minSize, minSizeMin, minSizeSum, allMinSize, compileDelegates, compileDelegate, isLiteral, isLiteralAll,
    s3ok, s3okAll, s3okAlts, condFree, condFreeAll, boundsEq, satMul, satAdd, sureReps, UNSET, Assertion.isHard, wrapPosLook,
    posLookBodyPc, wrapNegLook, negLookBodyPc, pushLiteral, pushLiteralAll, wellShaped, wellShapedAll,
    noBareEndZ, noBareEndZAll, progDelegOK, slotsBelow, slotsBelowAll]

/-! ### Non-vacuity: a delegated piece that owns a capture group and contains an alternation, in front of a hard item

`(a|b)(?=c)`, `(foo|bar)\b`: the prefix `(a|b)` is handed to the automata engine (`Delegate`, groups 1..2)
and the continuation may come back. The alternation has no capture groups inside and its alternatives
have one constant size, so all results of the piece are one state (`linearE`, `linear_same`). -/
def exAltGroupLook : Expr :=
  .concat [.group 0 (.alt [.literal ['a'] false, .literal ['b'] false]), .look (.literal ['c'] false) .ahead]
def exAltGroupWordB : Expr :=
  .concat [.group 0 (.alt [.concat [.literal ['f'] false, .literal ['o'] false, .literal ['o'] false],
    .concat [.literal ['b'] false, .literal ['a'] false, .literal ['r'] false]]), .assertion .wordB]
/-- `(?:x(a)|y(b))\2` (with an empty back-reference list, so that the alternation is not hard and is
    delegated): the alternatives write different groups — outside, and it has to be. Telling the
    alternatives apart by their first characters is not sound: `Ctx.ceq` is a free table, and for the
    context with `ceq := fun _ _ _ => true` on the text `zww` the program
    `… save:0, del:(?:x(a)|y(b)):1:3, backref:4, save:1, end` answers *no match* (the `Delegate` keeps the
    first result, group 2 unset, the back-reference fails) while the reference search matches `[0,3)` with
    group 2 = `[1,2)` through the second alternative. Every other hypothesis of `C01_vm_correct_s3`
    holds for this tree; only the `linearAll` conjunct of `s3ok` rejects it. -/
def exAltGroupsInside : Expr :=
  .concat [.alt [.concat [.literal ['x'] false, .group 0 (.literal ['a'] false)],
    .concat [.literal ['y'] false, .group 0 (.literal ['b'] false)]], .backref 2]

set_option linter.unusedSimpArgs false in
example : s3Stage exAltGroupLook [] = true ∧ s3Stage exAltGroupWordB [] = true ∧
    s3Stage exAltGroupsInside [] = false := by
  simp [s3Stage, build, exAltGroupLook, exAltGroupWordB, exAltGroupsInside, wrapTree, renumber, renumberList,
    checkRefs, checkRefsList, isHard, isHardAny,
    compile, visit, visitMiddle, visitAlt, concatSplit, groupCount, groupCountList, constSize, constSizeAll, minSize, minSizeMin,
    minSizeSum, allMinSize, compileDelegates, compileDelegate, isLiteral, isLiteralAll, s3ok, s3okAll, s3okAlts, condFree, condFreeAll,
    boundsEq, satMul, satAdd, sureReps, UNSET, Assertion.isHard, wrapPosLook, posLookBodyPc, pushLiteral, pushLiteralAll,
    wellShaped, wellShapedAll, noBareEndZ, noBareEndZAll, progDelegOK, slotsBelow, slotsBelowAll, linearE, linearAll]

end Fancy
