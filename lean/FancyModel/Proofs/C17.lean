import FancyModel.Model.ToStr
import FancyModel.Spec.Sem
import FancyModel.Generated
/-!
# C17 — escape(text) is a pattern that matches exactly text

`escape` / `push_quoted` are modelled over an arbitrary "special" predicate; the facts that the
parse of an escaped string relies on are then proved about `Generated.isSpecial`, the table
**re-extracted from src/lib.rs on every run** — so a change to `is_special` re-checks (and possibly
breaks) these theorems.

Not proved here: the recursive-descent parser is not modelled, so "`parse (escape s)` is the
literal tree of `s`" is decided by the correspondence (exhaustive to length 2/3 over 35 characters);
what is proved is what that argument needs from the table, the unescape round trip, the requote
identity for the string handed to the automata engine, and the reference semantics of the
literal tree.
-/
namespace Fancy

variable (sp : Char → Bool)

/-- **borrow**: `escape` borrows its input iff nothing needed escaping -/
theorem C17_borrow (s : List Char) : escape sp s = none ↔ s.any sp = false := by
  unfold escape; split <;> simp_all

/-- reading an escaped string back: a backslash makes the next character literal -/
def unquote : List Char → List Char
  | [] => []
  | '\\' :: c :: cs => c :: unquote cs
  | c :: cs => c :: unquote cs

theorem unquote_cons_ne (c : Char) (l : List Char) (h : c ≠ '\\') : unquote (c :: l) = c :: unquote l := by
  cases l with
  | nil => simp [unquote]
  | cons d ds => simp [unquote, h]

/-- **unescape round trip**: provided the backslash itself is special, dropping the escaping
    backslashes gives back the original string -/
theorem C17_unquote (hb : sp '\\' = true) (s : List Char) : unquote (pushQuoted sp s) = s := by
  induction s with
  | nil => rfl
  | cons c cs ih =>
    simp only [pushQuoted]
    split
    · simp [unquote, ih]
    · rename_i hc
      have hne : c ≠ '\\' := by intro h; rw [h] at hc; exact hc hb
      rw [unquote_cons_ne c _ hne, ih]

/-- in the escaped text every special character is preceded by an escaping backslash:
    scanning left to right, a special character only occurs in escaped position -/
def wellQuoted (sp : Char → Bool) : List Char → Bool
  | [] => true
  | '\\' :: _ :: cs => wellQuoted sp cs
  | c :: cs => !sp c && wellQuoted sp cs

theorem wellQuoted_cons_ne (c : Char) (l : List Char) (h : c ≠ '\\') :
    wellQuoted sp (c :: l) = (!sp c && wellQuoted sp l) := by
  cases l with
  | nil => simp [wellQuoted]
  | cons d ds => simp [wellQuoted, h]

theorem C17_well_quoted (hb : sp '\\' = true) (s : List Char) : wellQuoted sp (pushQuoted sp s) = true := by
  induction s with
  | nil => rfl
  | cons c cs ih =>
    simp only [pushQuoted]
    split
    · simp [wellQuoted, ih]
    · rename_i hc
      have hne : c ≠ '\\' := by intro h; rw [h] at hc; exact hc hb
      rw [wellQuoted_cons_ne sp c _ hne, ih]
      simpa using hc

/-- the literal tree of a string: one single-character literal per character -/
def litTree (s : List Char) : Expr :=
  match s with
  | [] => .empty
  | [c] => .literal [c] false
  | cs => .concat (cs.map fun c => .literal [c] false)

theorem toStrConcat_lits (s : List Char) :
    toStrConcat sp (s.map fun c => Expr.literal [c] false) = some (pushQuoted sp s) := by
  induction s with
  | nil => rfl
  | cons c cs ih =>
    simp only [List.map_cons, toStrConcat, toStr, ih, pushQuoted, Bool.false_eq_true, ↓reduceIte]
    split <;> simp

/-- **requote**: `to_str` of the literal tree — the string handed to the automata engine — is the
    escaped string again -/
theorem C17_requote (s : List Char) : toStr sp (litTree s) 0 = some (escapeStr sp s) ∨
    toStr sp (litTree s) 0 = some (pushQuoted sp s) := by
  right
  unfold litTree
  split
  · rfl
  · simp [toStr, pushQuoted]
  · simp only [toStr, toStrConcat_lits]
    simp

theorem escapeStr_eq_pushQuoted (s : List Char) : escapeStr sp s = pushQuoted sp s := by
  unfold escapeStr escape
  split
  · rfl
  · rename_i h
    simp only [Option.getD_none]
    induction s with
    | nil => rfl
    | cons c cs ih =>
      simp only [List.any_cons, Bool.or_eq_true, not_or] at h
      simp only [pushQuoted, h.1, Bool.false_eq_true, ↓reduceIte, List.cons.injEq, true_and]
      exact ih (by simpa using h.2)

/-- the reference semantics of a sequence of single-character literals: it matches exactly the
    string, at exactly that position -/
theorem semConcat_lits (c : Ctx) (hceq : ∀ a b, c.ceq false a b = (a == b)) (s : List Char) (st : St) :
    semConcat c (s.map fun ch => Expr.literal [ch] false) st =
      if c.litAt false s st.ix then [{ st with ix := st.ix + s.length }] else [] := by
  induction s generalizing st with
  | nil => simp [semConcat, Ctx.litAt]
  | cons a as ih =>
    cases hat : c.at? st.ix with
    | none => simp [semConcat, sem, Ctx.litAt, hat]
    | some b =>
      by_cases hab : (a == b) = true
      · simp only [List.map_cons, semConcat, sem, Ctx.litAt, hat, hceq, hab, Bool.true_and, ↓reduceIte,
          List.length_cons, List.length_nil, List.flatMap_cons, List.flatMap_nil, List.append_nil, Nat.zero_add]
        rw [ih]
        simp only
        split
        · simp; omega
        · rfl
      · simp [semConcat, sem, Ctx.litAt, hat, hceq, hab]

/-- **find**: the literal tree has a result at position `ix` iff the string occurs there, and the
    match then ends after exactly the string — so the leftmost-scanning reference search finds the
    first literal occurrence (what `str::find` returns) -/
theorem C17_literal_sem (c : Ctx) (hceq : ∀ a b, c.ceq false a b = (a == b)) (s : List Char) (st : St) :
    sem c (litTree s) st = if c.litAt false s st.ix then [{ st with ix := st.ix + s.length }] else [] := by
  unfold litTree
  split
  · simp [sem, Ctx.litAt]
  · rename_i ch
    simp only [sem, List.length_cons, List.length_nil, Nat.zero_add]
  · simp only [sem]
    exact semConcat_lits c hceq _ st

/-! ### Facts about the table extracted from the source (re-checked on every run) -/

/-- the backslash is special (needed by `C17_unquote` / `C17_well_quoted`) -/
theorem C17_backslash_special : Generated.isSpecial '\\' = true := by decide

/-- every character that starts a quantifier, group, class, anchor, alternation, free-spacing
    comment or escape in the pattern syntax is special: an escaped string can contain none of them
    unescaped (with `C17_well_quoted`) -/
theorem C17_meta_special :
    ∀ c ∈ ['\\', '.', '+', '*', '?', '(', ')', '|', '[', ']', '{', '}', '^', '$', '#'],
      Generated.isSpecial c = true := by decide

/-- no letter, digit or whitespace is special (an escaped letter could become a class or an
    assertion such as `\d`, `\b`, `\A`) -/
theorem C17_alnum_not_special :
    ∀ c ∈ ("abcdefghijklmnopqrstuvwxyzABCDEFGHIJKLMNOPQRSTUVWXYZ0123456789_ \n\t<>='!:,-&~".toList),
      Generated.isSpecial c = false := by decide

theorem C17_unquote_generated (s : List Char) : unquote (pushQuoted Generated.isSpecial s) = s :=
  C17_unquote _ C17_backslash_special s

/-! ### Non-vacuity -/
example : escape Generated.isSpecial "fo*o".toList = some "fo\\*o".toList := by decide
example : escape Generated.isSpecial "@foo".toList = none := by decide

end Fancy
