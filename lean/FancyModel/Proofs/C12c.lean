import FancyModel.GeneratedExpand
import FancyModel.Proofs.C05b
/-!
# C12 (third part) — the expansion model is `Expander` of expand.rs

`GeneratedExpand.lean` is `Expander::default`, `python`, `exec`, `check`, `escape`, `write_expansion`,
`write_expansion_vec` and `expansion` (src/expand.rs) translated statement by statement by `tools/rs2lean_expand.py` on
every run of the check. The scanners `parse_id` / `parse_decimal` (src/parse.rs) are NOT translated (iterator
combinators with closures over byte indices): they are the model's `parseId isId` / `parseDecimal`
(GenExpandPrelude.lean). This file proves:

* `C12_default_translated_eq`, `C12_python_translated_eq`: the two configurations;
* `C12_exec_translated_eq`: for EVERY expander, template, state-passing callback `f` and initial state,
  `genExec isId x t f st = runSteps f (steps isId x t) st` - the translated `while let` loop hands the callback exactly
  the model's steps (`$$`, the delimited then the undelimited name, the number, the error pair), in order, stopping at the
  first error;
* `C12_check_translated_eq`: `genCheck isId x t r = check isId x t r`;
* `C12_escape_translated_eq`: `genEscape x t = Expand.escape x t` (Borrowed / Owned included);
* `C12_write_expansion_translated_eq`, `C12_write_expansion_vec_translated_eq`: both writers append
  `strBytes (expansion isId x t c)` to `dst`; `C12_expansion_translated_eq` / `C12_expansion_nostd_translated_eq`:
  `expansion` returns `some (expansion isId x t c)` under `feature = "std"` and without it - neither `expect` panics
  (`fromUtf8_strBytes`: `String::from_utf8` of what was written as UTF-8 gives the characters back; `encode_injective`).

A change of meaning in these functions changes the generated definitions and breaks these proofs
(notes/translator-expand.md lists the mutations that were tried).
-/
set_option linter.unusedSimpArgs false
namespace Fancy
open Fancy.Expand Fancy.GenExpand Fancy.Utf8

theorem C12_default_translated_eq : genDefault = dollar := rfl
theorem C12_python_translated_eq : genPython = python := rfl

/-! ## `exec` -/

/-- hand the steps to a state-passing callback, in order; stop at the first error (`f(step)?`) -/
def runSteps {σ ε : Type} (f : Step → σ → Except ε σ) : List Step → σ → Except ε σ
  | [], st => .ok st
  | s :: ss, st =>
    match f s st with
    | .error e => .error e
    | .ok st' => runSteps f ss st'

theorem loopExec_nil {σ ε : Type} (isId : Char → Bool) (x : Expander) (f : Step → σ → Except ε σ) (fuel : Nat) (st : σ) :
    loopExec isId x f fuel [] st = .ok st := by
  cases fuel <;> simp [loopExec]

theorem parse_nil (isId : Char → Bool) (o c : List Char) : parseId isId [] o c false = none := by
  simp [parseId, idCharsOf]

theorem loopExec_eq {σ ε : Type} (isId : Char → Bool) (x : Expander) (f : Step → σ → Except ε σ) (fuel : Nat)
    (t : List Char) (st : σ) :
    loopExec isId x f fuel t st = runSteps f (exec isId x fuel t) st := by
  induction fuel generalizing t st with
  | zero => simp [loopExec, exec, runSteps]
  | succ fuel ih =>
    cases t with
    | nil => simp [loopExec, exec, runSteps]
    | cons c tail =>
      simp only [loopExec, exec, parse_id, parse_decimal]
      by_cases hc : c = x.subChar
      · simp only [hc, beq_self_eq_true, if_true]
        cases tail with
        | nil =>
          simp only [List.head?_nil, parse_nil, Option.orElse, parseDecimal, List.takeWhile_nil, List.isEmpty_nil, if_true,
            runSteps, List.drop_nil, loopExec_nil]
          have : (none == some x.subChar) = false := rfl
          simp only [this, Bool.false_eq_true, if_false]
          have hn : (if x.allowUndelimited = true then (none : Option (List Char × Nat)) else none) = none := by split <;> rfl
          rw [hn]
          simp only
          cases f Step.error st with
          | error e => rfl
          | ok s1 => simp only; cases f (Step.char x.subChar) s1 <;> rfl
        | cons d rest =>
          simp only [List.head?_cons]
          by_cases hd : d = x.subChar
          · simp only [hd, beq_self_eq_true, if_true, runSteps]
            cases f (Step.char x.subChar) st with
            | error e => rfl
            | ok s1 => simp only; exact ih _ _
          · have hb : (some d == some x.subChar) = false := by simpa using hd
            have hb' : (d == x.subChar) = false := by simpa using hd
            simp only [hb, hb', Bool.false_eq_true, if_false]
            cases hp : (parseId isId (d :: rest) x.openD x.closeD false).orElse
                (fun _ => if x.allowUndelimited then parseId isId (d :: rest) [] [] false else none) with
            | some r =>
              obtain ⟨id, skip⟩ := r
              simp only [runSteps]
              cases f (Step.groupName id) st with
              | error e => rfl
              | ok s1 => simp only; exact ih _ _
            | none =>
              simp only
              cases hq : parseDecimal (d :: rest) with
              | some r =>
                obtain ⟨skip, num⟩ := r
                simp only [runSteps]
                cases f (Step.groupNum num) st with
                | error e => rfl
                | ok s1 => simp only; exact ih _ _
              | none =>
                simp only [runSteps, List.drop_zero]
                cases f Step.error st with
                | error e => rfl
                | ok s1 =>
                  simp only
                  cases f (Step.char x.subChar) s1 with
                  | error e => rfl
                  | ok s2 => simp only; exact ih _ _
      · have hb : (c == x.subChar) = false := by simpa using hc
        simp only [hb, Bool.false_eq_true, if_false, runSteps]
        cases f (Step.char c) st with
        | error e => rfl
        | ok s1 => simp only; exact ih _ _

/-- **`exec` as translated hands the callback exactly the model's steps**, for every expander, template, callback and
    initial state -/
theorem C12_exec_translated_eq {σ ε : Type} (isId : Char → Bool) (x : Expander) (t : List Char)
    (f : Step → σ → Except ε σ) (st : σ) :
    genExec isId x t f st = runSteps f (steps isId x t) st := by
  simp only [genExec, loopExec_eq, steps]
  cases runSteps f (exec isId x (t.length + 1) t) st <;> rfl

/-! ## `check` -/

theorem runSteps_check (r : RegexInfo) (g : Step → Unit → Except CheckErr Unit)
    (hg : ∀ s u, g s u = checkStep r s) (ss : List Step) : runSteps g ss () = checkSteps r ss := by
  induction ss with
  | nil => rfl
  | cons s ss ih =>
    simp only [runSteps, checkSteps, hg]
    cases checkStep r s with
    | error e => rfl
    | ok u => simp only; exact ih

theorem onGroupNum_eq (r : RegexInfo) (n : Nat) :
    (if (n == 0) = true then (Except.ok () : Except CheckErr Unit)
      else if (!r.names.isEmpty) = true then .error .namedBackrefOnly
      else if decide (n < r.capturesLen) = true then .ok () else .error .invalidBackref) = onGroupNum r n := by
  unfold onGroupNum
  by_cases h0 : n = 0 <;> by_cases h1 : r.names.isEmpty = true <;> by_cases h2 : n < r.capturesLen <;> simp [h0, h1, h2]

theorem C12_check_translated_eq (isId : Char → Bool) (x : Expander) (t : List Char) (r : RegexInfo) :
    genCheck isId x t r = check isId x t r := by
  unfold genCheck check
  rw [C12_exec_translated_eq]
  refine runSteps_check r _ (fun s u => ?_) _
  cases s with
  | char c => rfl
  | groupName id =>
    simp only [checkStep]
    by_cases hn : r.names.contains id = true
    · simp only [hn, if_true]
    · simp only [hn, Bool.false_eq_true, if_false]
      cases parseUsize id with
      | none => rfl
      | some n => exact onGroupNum_eq r n
  | groupNum n => exact onGroupNum_eq r n
  | error => rfl

/-! ## `escape` -/

theorem C12_escape_translated_eq (x : Expander) (t : List Char) : genEscape x t = Expand.escape x t := by
  have hf : (fun c : Char => if c == x.subChar then [x.subChar, x.subChar] else [c]) =
      (fun c => if c == x.subChar then [c, c] else [c]) := by
    funext c; by_cases hc : c = x.subChar <;> simp [hc]
  unfold genEscape Expand.escape replaceChar
  simp only [List.nil_append, List.cons_append, hf]

/-! ## `write_expansion`, `write_expansion_vec`, `expansion` -/

theorem strBytes_append (a b : List Char) : strBytes (a ++ b) = strBytes a ++ strBytes b := by
  simp [strBytes, encode_append]

theorem encode_injective : ∀ (a b : List Nat), encode a = encode b → a = b
  | [], [], _ => rfl
  | [], d :: ds, h => by
    have := encodeChar_length_pos d
    rw [encode_nil, encode_cons] at h
    have hl := congrArg List.length h
    simp only [List.length_nil, List.length_append] at hl; omega
  | c :: cs, [], h => by
    have := encodeChar_length_pos c
    rw [encode_nil, encode_cons] at h
    have hl := congrArg List.length h
    simp only [List.length_nil, List.length_append] at hl; omega
  | c :: cs, d :: ds, h => by
    rw [encode_cons, encode_cons] at h
    have hcd : c = d := encodeChar_prefix_free c d (encode cs) (encode ds) (by rw [h]; exact List.prefix_refl _)
    subst hcd
    rw [encode_injective cs ds (List.append_cancel_left h)]

theorem map_toNat_injective : ∀ (a b : List Char), a.map Char.toNat = b.map Char.toNat → a = b
  | [], [], _ => rfl
  | [], _ :: _, h => by simp at h
  | _ :: _, [], h => by simp at h
  | x :: xs, y :: ys, h => by
    simp only [List.map_cons, List.cons.injEq] at h
    rw [Char.toNat_inj.mp h.1, map_toNat_injective xs ys h.2]

theorem strBytes_injective (a b : List Char) (h : strBytes a = strBytes b) : a = b :=
  map_toNat_injective _ _ (encode_injective _ _ h)

/-- `String::from_utf8` of what was written as UTF-8 gives the characters back -/
theorem fromUtf8_strBytes (cs : List Char) : fromUtf8 (strBytes cs) = some cs := by
  unfold fromUtf8
  have h : ∃ cs', strBytes cs' = strBytes cs := ⟨cs, rfl⟩
  rw [dif_pos h]
  exact congrArg some (strBytes_injective _ _ (Classical.choose_spec h))

/-- the callback of `write_expansion` / `write_expansion_vec` appends the bytes of `stepOut` -/
theorem write_steps (c : Caps) (g : Step → List Nat → Except Unit (List Nat))
    (hg : ∀ s dst, g s dst = .ok (dst ++ strBytes (stepOut c s))) (ss : List Step) (dst : List Nat) :
    runSteps g ss dst = .ok (dst ++ strBytes (ss.flatMap (stepOut c))) := by
  induction ss generalizing dst with
  | nil => simp [runSteps, strBytes, encode]
  | cons s ss ih =>
    simp only [runSteps, hg, ih, List.flatMap_cons, strBytes_append, List.append_assoc]

theorem stepOut_cases (c : Caps) (s : Step) (dst : List Nat) :
    (match s with
      | .char ch => (Except.ok (dst ++ strBytes [ch]) : Except Unit (List Nat))
      | .groupName name =>
        (match c.name name with
          | some m => .ok (dst ++ strBytes m)
          | _ => (match (parseUsize name).bind (fun num => c.get num) with
            | some m => .ok (dst ++ strBytes m)
            | _ => .ok dst))
      | .groupNum num => (match c.get num with | some m => .ok (dst ++ strBytes m) | _ => .ok dst)
      | .error => .ok dst) = .ok (dst ++ strBytes (stepOut c s)) := by
  cases s with
  | char ch => rfl
  | groupName id =>
    simp only [stepOut]
    cases c.name id with
    | some m => rfl
    | none =>
      simp only
      cases (parseUsize id).bind c.get <;> simp [strBytes, encode]
  | groupNum n =>
    simp only [stepOut]
    cases c.get n <;> simp [strBytes, encode]
  | error => simp [stepOut, strBytes, encode]

theorem C12_write_expansion_translated_eq (isId : Char → Bool) (x : Expander) (dst : List Nat) (t : List Char) (c : Caps) :
    genWriteExpansion isId x dst t c = .ok (dst ++ strBytes (expansion isId x t c)) := by
  unfold genWriteExpansion expansion
  rw [C12_exec_translated_eq]
  exact write_steps c _ (fun s d => stepOut_cases c s d) _ _

theorem C12_write_expansion_vec_translated_eq (isId : Char → Bool) (x : Expander) (dst : List Nat) (t : List Char) (c : Caps) :
    genWriteExpansionVec isId x dst t c = .ok (dst ++ strBytes (expansion isId x t c)) := by
  unfold genWriteExpansionVec expansion
  rw [C12_exec_translated_eq]
  exact write_steps c _ (fun s d => stepOut_cases c s d) _ _

/-- **`expansion` as translated is the model's `expansion`** (and neither `expect` panics), with `feature = "std"` … -/
theorem C12_expansion_translated_eq (isId : Char → Bool) (x : Expander) (t : List Char) (c : Caps) :
    genExpansion isId x t c = some (expansion isId x t c) := by
  simp only [genExpansion, C12_write_expansion_translated_eq, List.nil_append, fromUtf8_strBytes]

/-- … and without it -/
theorem C12_expansion_nostd_translated_eq (isId : Char → Bool) (x : Expander) (t : List Char) (c : Caps) :
    genExpansionNoStd isId x t c = some (expansion isId x t c) := by
  simp only [genExpansionNoStd, C12_write_expansion_vec_translated_eq, List.nil_append, fromUtf8_strBytes]

end Fancy
