import FancyModel.Lemmas.SimCompile5
import FancyModel.Proofs.C01g
/-!
# C01h — stage S5: delegated runs with capture groups anywhere in the pattern

Stage S4 (Proofs/C01g.lean) accepts an easy constant-size run that owns capture groups and is not linear
— compiled to ONE `Delegate`, which yields only the first result of the run — in the concatenation at the
TOP of the pattern. Stage S5 accepts such runs in every concatenation the compiler meets: inside groups,
alternations, repeats (`?`, `*`, `+`, `{m,n}`, greedy and lazy), look-around bodies (ahead and behind, all
four layouts of a look-behind), atomic groups and the branches of conditionals: `(?:(?:x(a)|y(b))(?=c))+`, `(?=(?:x(a)|y(b))\b)z`, `(z)|(?:x(a)|y(b))(?!c)`.

* machine half (`Lemmas/SimCompile5.lean`, `sim5_visit`): the code of `e` simulates the semantics of
  `atomizeP br e hard`, the tree with those runs wrapped in atomic groups;
* semantic half (`Lemmas/Atomize2.lean`, `dom_sem`, `atomizeP_head`): from every good state the result
  list of the atomized tree is DOMINATED by that of the original tree — it is obtained by dropping
  results that agree, outside the slots `U` of the atomized runs, with an earlier kept result — and
  domination is kept by every constructor of `sem` (concatenation, alternation, the loop `repLoop` for all
  bounds, look-aheads, look-behinds with their backward reading of the body, atomic groups, conditionals)
  as long as nothing READS a slot of `U`; dominated lists have the same head;
* the side condition `unref5OK br raw` (Spec/Stage5.lean) is the conservative one: no back-reference and
  no group test ANYWHERE in the raw tree names a group owned by an atomized run. (Stage S4 asks less of
  the top-level concatenation — only of what comes after the run — so `s5Stage` is defined as
  `s4Stage || …`.)

-/
namespace Fancy

/-- **the structured machine reaches the reference answer, stage S5** -/
theorem big2_s5 (tree : Expr) (backrefs : List Nat) (b : Built) (prog : Prog) (c : Ctx)
    (hb : build tree backrefs = .ok b) (hk : b.kind = .fancy prog)
    (hok : s5ok (fun g => backrefs.contains g) b.raw true = true)
    (hu : unref5OK (fun g => backrefs.contains g) b.raw = true) (hws : wellShaped b.raw = true)
    (hz : noBareEndZ b.raw = true) (hlen : c.len < UNSET) (hpos : c.pos ≤ c.len) :
    Big2 c prog.body prog.nSaves (.run 0 c.pos (List.replicate prog.nSaves UNSET) [] []) (refAns c b) := by
  obtain ⟨hw, hwr, hchk, hhard, hcomp⟩ := build_fancy tree backrefs b prog hb hk
  generalize (fun g => backrefs.contains g) = br at hhard hcomp hok hu
  unfold compile at hcomp
  have hgc : groupCount b.wrapped = b.nGroups := by
    have := checkRefs_count _ _ _ hchk; omega
  simp only [hgc] at hcomp
  cases hv : visit br b.wrapped false 0 (b.nGroups * 2) 0 with
  | error e => simp [hv] at hcomp
  | ok p =>
    obtain ⟨code, nsv⟩ := p
    simp only [hv, Except.ok.injEq] at hcomp
    subst hcomp
    have hn0 : 0 < b.nGroups := by
      rw [hw] at hgc; simp only [groupCount, groupCountList] at hgc; omega
    have hwh : isHard br b.wrapped = true := by rw [hw]; simp [isHard, isHardAny, hhard]
    have hokw : s5ok br b.wrapped false = true := by
      rw [hw, s5ok]
      simp [isHard, isHardAny, hhard, s5okAll, s5ok, hok, noBareEndZAll, noBareEndZ, hz, minSize]
    have h3 : H3 (2 * b.nGroups) b.wrapped 0 := by
      refine ⟨?_, ?_, ?_, by omega⟩
      · rw [hw]; simp [wellShaped, wellShapedAll, hws]
      · have := slotsBelow_renumber b.nGroups hn0 (wrapTree tree) 0 b.nGroups (by rw [← hwr]; exact hchk) (Nat.le_refl _)
        rw [← hwr] at this; exact this
      · rw [hwr]; exact numbered_renumber _ _
    have hcode : CodeAt (code ++ [Insn.end_]) 0 code := ⟨[], [Insn.end_], by simp, rfl⟩
    obtain ⟨hle, hsim⟩ := sim5_visit c (2 * b.nGroups) nsv br hlen b.wrapped false 0 (b.nGroups * 2) 0 code nsv
      (code ++ [Insn.end_]) hokw h3 hv hcode (by omega)
    have hsim := hsim (Nat.le_refl _) true (Or.inr rfl)
    have hst0 : (⟨c.pos, initSlots b.nGroups⟩ : St).Good c (2 * b.nGroups) :=
      ⟨hpos, by simp [initSlots], by intro v hv; simp [initSlots] at hv⟩
    have hend : (code ++ [Insn.end_])[code.length]? = some Insn.end_ := by simp
    have hbig := hsim.apply_all ⟨c.pos, initSlots b.nGroups⟩ (List.replicate (nsv - 2 * b.nGroups) UNSET) [] []
      (fun r _ => .matched (capSaves (unview r.slots) c.pos)) .noMatch hst0 (by simp; omega)
      (by simpa [SuccOK] using Commit.const (fun r => Ans.matched (capSaves (unview r.slots) c.pos))) Big2.failEmpty
      (by
        intro r hr aux' junk S acc hag _ _ _
        have hrg := sem_good c _ _ _ r hst0 hr
        have hl' : (unview r.slots ++ aux').length = nsv := by
          simp only [List.length_append, unview_length, hrg.len, hag.1, List.length_replicate]; omega
        have := Big2.done (c := c) (prog := code ++ [Insn.end_]) (nS := nsv) (0 + code.length) r.ix (unview r.slots ++ aux')
          (junk ++ []) (S ++ []) (2 * b.nGroups) (by simp) (by omega) (by omega) hl'
        rw [capSaves_take _ _ _ (by omega) (by rw [hl']; omega)] at this
        have htk : (unview r.slots ++ aux').take (2 * b.nGroups) = unview r.slots := by
          rw [List.take_append_of_le_length (by simp [hrg.len])]
          exact List.take_of_length_le (by simp [hrg.len])
        rw [htk] at this
        simpa using this)
    have huv : unview (initSlots b.nGroups) ++ List.replicate (nsv - 2 * b.nGroups) UNSET = List.replicate nsv UNSET := by
      have : unview (initSlots b.nGroups) = List.replicate (2 * b.nGroups) UNSET := by simp [unview, initSlots]
      rw [this, List.replicate_append_replicate]; congr 1; omega
    simp only [huv] at hbig
    have hfold : ∀ (l : List St), l.foldr (fun r (_ : Ans) => Ans.matched (capSaves (unview r.slots) c.pos)) .noMatch =
        match l.head? with
        | some r => .matched (capSaves (unview r.slots) c.pos)
        | none => .noMatch := by
      intro l; cases l <;> rfl
    rw [hfold] at hbig
    -- the semantic half: the atomized wrapped tree and the wrapped tree have the same first result
    have hnrw : noRead (atzSlots br b.raw true) b.wrapped = true := by
      rw [hw]
      simp only [noRead, noReadAll, Bool.and_true, Bool.true_and]
      exact hu
    have hUw : ∀ i, i ∈ atzSlots br b.wrapped false → i ∈ atzSlots br b.raw true := by
      intro i hi
      have hsp := concatSplit_wrapped br b.raw 0 (by simp [isHard, hhard])
      rw [hw, atzSlots] at hi
      rw [← hw] at hi
      simp only [hwh, Bool.not_true, Bool.and_false, Bool.false_eq_true, ↓reduceIte, hsp, List.take_zero, runSlots,
        groupCountList, BEq.rfl, Bool.true_or, List.nil_append, List.append_nil, atzSlotsAll, List.mem_append] at hi
      rcases hi with hi | hi
      · rw [atzSlots] at hi
        simp only [Bool.not_true, Bool.false_and, Bool.false_eq_true, ↓reduceIte] at hi
        rw [atzSlots.eq_def] at hi
        simp at hi
      · rw [atzSlots] at hi
        simpa only [Bool.not_true, Bool.false_and, Bool.false_eq_true, ↓reduceIte] using hi
    rw [atomizeP_head c (2 * b.nGroups) (atzSlots br b.raw true) br hlen b.wrapped false hokw h3.ws hnrw hUw _ hst0] at hbig
    unfold refAns
    exact hbig

/-- **C01 (and C02, C15), stage S5**: the statement of `C01_vm_correct_s3` for the larger stage -/
theorem C01_vm_correct_s5 (tree : Expr) (backrefs : List Nat) (b : Built) (prog : Prog) (c : Ctx)
    (hb : build tree backrefs = .ok b) (hk : b.kind = .fancy prog)
    (hok : s5Raw (fun g => backrefs.contains g) b.raw = true) (hws : wellShaped b.raw = true)
    (hz : noBareEndZ b.raw = true) (hlen : c.len < UNSET) (hpos : c.pos ≤ c.len) : VmCorrectR b c := by
  intro limit fuel
  simp only [s5Raw, Bool.and_eq_true] at hok
  have hbig := big2_s5 tree backrefs b prog c hb hk hok.1 hok.2 hws hz hlen hpos
  have hgood := link2_initial c prog ⟨limit, maxStackDefault⟩
    (delegOK_of_prog c prog.body prog.nSaves (build_progDelegOK tree backrefs b prog hb hk)) _ hbig fuel
  obtain ⟨href, hlensl⟩ := refAns_eq tree backrefs b prog c hb hk hlen hpos
  unfold Built.captures
  simp only [hk]
  unfold Good2 at hgood
  generalize run c prog ⟨limit, maxStackDefault⟩ fuel = res at hgood ⊢
  obtain ⟨out, stats⟩ := res
  simp only at hgood
  rcases hgood with h | h | h | h
  · left; subst h; rfl
  · right; left; subst h; rfl
  · right; right; left; subst h; rfl
  · right; right; right
    refine Eq.trans ?_ href
    cases hra : refAns c b with
    | noMatch => simp only [hra] at h; subst h; rfl
    | matched sl =>
      simp only [hra] at h
      obtain ⟨saves, rfl, hsv⟩ := h
      have := hlensl sl hra
      rw [this] at hsv
      simp only
      rw [← hsv]
      simp [viewSlots, List.map_take]

/-- **C05, stage S5: the search never panics** -/
theorem C05_no_panic_s5 (tree : Expr) (backrefs : List Nat) (b : Built) (prog : Prog) (c : Ctx)
    (hb : build tree backrefs = .ok b) (hk : b.kind = .fancy prog)
    (hok : s5Raw (fun g => backrefs.contains g) b.raw = true) (hws : wellShaped b.raw = true)
    (hz : noBareEndZ b.raw = true) (hlen : c.len < UNSET) (hpos : c.pos ≤ c.len) (limit fuel : Nat) (site : String) :
    (b.captures c limit fuel).1 ≠ .panic site :=
  VmCorrectR_not_panic (C01_vm_correct_s5 tree backrefs b prog c hb hk hok hws hz hlen hpos) limit fuel site

/-- **C07, stage S5: the search terminates** -/
theorem C07_terminates_s5 (tree : Expr) (backrefs : List Nat) (b : Built) (prog : Prog) (c : Ctx)
    (hb : build tree backrefs = .ok b) (hk : b.kind = .fancy prog)
    (hok : s5Raw (fun g => backrefs.contains g) b.raw = true) (hws : wellShaped b.raw = true)
    (hz : noBareEndZ b.raw = true) (hlen : c.len < UNSET) (hpos : c.pos ≤ c.len) (limit : Nat) :
    ∃ N, ∀ fuel, N ≤ fuel → (b.captures c limit fuel).1 ≠ .outOfFuel := by
  simp only [s5Raw, Bool.and_eq_true] at hok
  have hbig := big2_s5 tree backrefs b prog c hb hk hok.1 hok.2 hws hz hlen hpos
  obtain ⟨N, hN⟩ := link2_initial_terminates c prog ⟨limit, maxStackDefault⟩
    (delegOK_of_prog c prog.body prog.nSaves (build_progDelegOK tree backrefs b prog hb hk)) _ hbig
  refine ⟨N, fun fuel hf => ?_⟩
  have := hN fuel hf
  unfold Built.captures
  simp only [hk]
  generalize run c prog ⟨limit, maxStackDefault⟩ fuel = res at this ⊢
  obtain ⟨out, stats⟩ := res
  cases out <;> simp_all

/-! ### the decidable stage, the from-the-string form -/

/-- the new part of stage S5 (what `C01_vm_correct_s5` asks for) -/
def s5New (tree : Expr) (backrefs : List Nat) : Bool :=
  match build tree backrefs with
  | .ok b => (match b.kind with
    | .fancy _ => s5Raw (fun g => backrefs.contains g) b.raw && wellShaped b.raw && noBareEndZ b.raw
    | .wrap => false)
  | .error _ => false

/-- the decidable stage S5 (what the driver prints as `s5=`): stage S4, or the side conditions of
    `C01_vm_correct_s5` -/
def s5Stage (tree : Expr) (backrefs : List Nat) : Bool := s4Stage tree backrefs || s5New tree backrefs

theorem s5New_spec (tree : Expr) (backrefs : List Nat) (h : s5New tree backrefs = true) :
    ∃ b prog, build tree backrefs = .ok b ∧ b.kind = .fancy prog ∧
      s5Raw (fun g => backrefs.contains g) b.raw = true ∧ wellShaped b.raw = true ∧ noBareEndZ b.raw = true := by
  unfold s5New at h
  cases hb : build tree backrefs with
  | error e => simp [hb] at h
  | ok b =>
    simp only [hb] at h
    cases hk : b.kind with
    | wrap => simp [hk] at h
    | fancy prog =>
      simp only [hk, Bool.and_eq_true] at h
      exact ⟨b, prog, rfl, hk, h.1.1, h.1.2, h.2⟩

/-- S5 ⊇ S4 at the level of the decidable stages -/
theorem s5Stage_of_s4Stage (tree : Expr) (backrefs : List Nat) (h : s4Stage tree backrefs = true) :
    s5Stage tree backrefs = true := by
  simp [s5Stage, h]

/-- S5 ⊇ S3 -/
theorem s5Stage_of_s3Stage (tree : Expr) (backrefs : List Nat) (h : s3Stage tree backrefs = true) :
    s5Stage tree backrefs = true :=
  s5Stage_of_s4Stage tree backrefs (s4Stage_of_s3Stage tree backrefs h)

/-- the form the driver checks per pattern -/
theorem C01_checked_s5 (tree : Expr) (backrefs : List Nat) (h : s5Stage tree backrefs = true) (c : Ctx)
    (hlen : c.len < UNSET) (hpos : c.pos ≤ c.len) :
    ∃ b, build tree backrefs = .ok b ∧ VmCorrectR b c := by
  rcases (Bool.or_eq_true _ _).mp h with h4 | h5
  · exact C01_checked_s4 tree backrefs h4 c hlen hpos
  · obtain ⟨b, prog, hb, hk, hok, hws, hz⟩ := s5New_spec tree backrefs h5
    exact ⟨b, hb, C01_vm_correct_s5 tree backrefs b prog c hb hk hok hws hz hlen hpos⟩

/-- stage S5 for a parsed pattern -/
def s5Pattern (t : Parse.Tree) (b : Built) : Bool :=
  s4Pattern t b || (s5Raw (fun g => t.backrefs.contains g) b.raw && noBareEndZ t.expr)

/-- **from the pattern string** (the form of `C01_pipeline_s3`) -/
theorem C01_pipeline_s5 (isAlnum : Char → Bool) (cs : List Char) (casei : Bool) (t : Parse.Tree) (b : Built)
    (prog : Prog) (c : Ctx)
    (hp : Parse.parseStr isAlnum cs casei = .ok t) (hb : build t.expr t.backrefs = .ok b)
    (hk : b.kind = .fancy prog) (hst : s5Pattern t b = true)
    (hlen : c.len < UNSET) (hpos : c.pos ≤ c.len) : VmCorrectR b c := by
  rcases (Bool.or_eq_true _ _).mp hst with h4 | h5
  · exact C01_pipeline_s4 isAlnum cs casei t b prog c hp hb hk h4 hlen hpos
  · simp only [Bool.and_eq_true] at h5
    exact C01_vm_correct_s5 t.expr t.backrefs b prog c hb hk h5.1
      (Parse.parse_build_wellShaped isAlnum cs casei t b hp hb).2
      (build_raw_noBareEndZ t.expr t.backrefs b hb h5.2) hlen hpos

/-! ### Examples -/

/-- `(?:x(a)|y(b))` as the parser delivers it (the groups are numbered by `build`) -/
def exRun : Expr := .alt [.concat [.literal ['x'] false, .group 0 (.literal ['a'] false)],
  .concat [.literal ['y'] false, .group 0 (.literal ['b'] false)]]

/-- `(?:(?:x(a)|y(b))(?=c))+`: the run is the prefix of a concatenation inside an unbounded loop -/
def ex5a : Expr := .repeat (.concat [exRun, .look (.literal ['c'] false) .ahead]) 1 none true

/-- `(?=(?:x(a)|y(b))\b)z`: the run is the prefix of the body of a look-ahead -/
def ex5b : Expr := .concat [.look (.concat [exRun, .assertion .wordB]) .ahead, .literal ['z'] false]

/-- `(z)|(?:x(a)|y(b))(?!c)`: the run is the prefix of the second alternative -/
def ex5c : Expr := .alt [.group 0 (.literal ['z'] false),
  .concat [exRun, .look (.literal ['c'] false) .aheadNeg]]

set_option linter.unusedSimpArgs false in
theorem ex5a_stage : s5Stage ex5a [] = true ∧ s4Stage ex5a [] = false := by
  constructor <;>
  simp [s5Stage, s5New, s5Raw, s5ok, s5okAll, s5okAlts, unref5OK, noRead, noReadAll, atzSlots, atzSlotsAll, atzSlotsAlts, runSlots,
    s4Stage, s3Stage, s4ok, unrefOK, untouched, untouchedAll, ownSlotsS, ownSlotsListS, linearE, linearAll, build, ex5a, exRun,
    wrapTree, renumber, renumberList, checkRefs, checkRefsList, isHard, isHardAny,
    compile, visit, visitMiddle, visitAlt, concatSplit, groupCount, groupCountList, constSize, constSizeAll, minSize, minSizeMin,
    minSizeSum, allMinSize, compileDelegates, compileDelegate, isLiteral, isLiteralAll, s3ok, s3okAll, s3okAlts, condFree, condFreeAll,
    boundsEq, satMul, satAdd, sureReps, UNSET, Assertion.isHard, wrapPosLook, wrapNegLook, posLookBodyPc, negLookBodyPc, pushLiteral,
    wellShaped, wellShapedAll, noBareEndZ, noBareEndZAll, slotsBelow, slotsBelowAll, progDelegOK]

set_option linter.unusedSimpArgs false in
theorem ex5b_stage : s5Stage ex5b [] = true ∧ s4Stage ex5b [] = false := by
  constructor <;>
  simp [s5Stage, s5New, s5Raw, s5ok, s5okAll, s5okAlts, unref5OK, noRead, noReadAll, atzSlots, atzSlotsAll, atzSlotsAlts, runSlots,
    s4Stage, s3Stage, s4ok, unrefOK, untouched, untouchedAll, ownSlotsS, ownSlotsListS, linearE, linearAll, build, ex5b, exRun,
    wrapTree, renumber, renumberList, checkRefs, checkRefsList, isHard, isHardAny,
    compile, visit, visitMiddle, visitAlt, concatSplit, groupCount, groupCountList, constSize, constSizeAll, minSize, minSizeMin,
    minSizeSum, allMinSize, compileDelegates, compileDelegate, isLiteral, isLiteralAll, s3ok, s3okAll, s3okAlts, condFree, condFreeAll,
    boundsEq, satMul, satAdd, sureReps, UNSET, Assertion.isHard, wrapPosLook, wrapNegLook, posLookBodyPc, negLookBodyPc, pushLiteral,
    wellShaped, wellShapedAll, noBareEndZ, noBareEndZAll, slotsBelow, slotsBelowAll, progDelegOK]

set_option linter.unusedSimpArgs false in
theorem ex5c_stage : s5Stage ex5c [] = true ∧ s4Stage ex5c [] = false := by
  constructor <;>
  simp [s5Stage, s5New, s5Raw, s5ok, s5okAll, s5okAlts, unref5OK, noRead, noReadAll, atzSlots, atzSlotsAll, atzSlotsAlts, runSlots,
    s4Stage, s3Stage, s4ok, unrefOK, untouched, untouchedAll, ownSlotsS, ownSlotsListS, linearE, linearAll, build, ex5c, exRun,
    wrapTree, renumber, renumberList, checkRefs, checkRefsList, isHard, isHardAny,
    compile, visit, visitMiddle, visitAlt, concatSplit, groupCount, groupCountList, constSize, constSizeAll, minSize, minSizeMin,
    minSizeSum, allMinSize, compileDelegates, compileDelegate, isLiteral, isLiteralAll, s3ok, s3okAll, s3okAlts, condFree, condFreeAll,
    boundsEq, satMul, satAdd, sureReps, UNSET, Assertion.isHard, wrapPosLook, wrapNegLook, posLookBodyPc, negLookBodyPc, pushLiteral,
    wellShaped, wellShapedAll, noBareEndZ, noBareEndZAll, slotsBelow, slotsBelowAll, progDelegOK]

/-- the engine theorem for the three patterns, every text, start position, limit and fuel -/
example (c : Ctx) (hlen : c.len < UNSET) (hpos : c.pos ≤ c.len) : ∃ b, build ex5a [] = .ok b ∧ VmCorrectR b c :=
  C01_checked_s5 ex5a [] ex5a_stage.1 c hlen hpos

example (c : Ctx) (hlen : c.len < UNSET) (hpos : c.pos ≤ c.len) : ∃ b, build ex5b [] = .ok b ∧ VmCorrectR b c :=
  C01_checked_s5 ex5b [] ex5b_stage.1 c hlen hpos

example (c : Ctx) (hlen : c.len < UNSET) (hpos : c.pos ≤ c.len) : ∃ b, build ex5c [] = .ok b ∧ VmCorrectR b c :=
  C01_checked_s5 ex5c [] ex5c_stage.1 c hlen hpos

/-- `(?<=(?:x(a)|y(b))\b)z`: the run is the prefix of the body of a look-behind -/
def ex5d : Expr := .concat [.look (.concat [exRun, .assertion .wordB]) .behind, .literal ['z'] false]

/-- `(?<!(?:x(a)|y(b))\b|qqq\b)w`: a negative look-behind whose alternatives have different sizes (compiled to a
    sequence of negative look-behinds); the run is the prefix of the first alternative -/
def ex5e : Expr := .concat [.look (.alt [.concat [exRun, .assertion .wordB],
  .concat [.literal ['q'] false, .literal ['q'] false, .literal ['q'] false, .assertion .wordB]]) .behindNeg,
  .literal ['w'] false]

set_option linter.unusedSimpArgs false in
theorem ex5d_stage : s5Stage ex5d [] = true ∧ s4Stage ex5d [] = false := by
  constructor <;>
  simp [s5Stage, s5New, s5Raw, s5ok, s5okAll, s5okAlts, unref5OK, noRead, noReadAll, atzSlots, atzSlotsAll, atzSlotsAlts, runSlots,
    s4Stage, s3Stage, s4ok, unrefOK, untouched, untouchedAll, ownSlotsS, ownSlotsListS, linearE, linearAll, build, ex5d, exRun,
    wrapTree, renumber, renumberList, checkRefs, checkRefsList, isHard, isHardAny,
    compile, visit, visitMiddle, visitAlt, visitAltBody, lookBehindAlts, lookBehindNegAlts, concatSplit, groupCount, groupCountList,
    constSize, constSizeAll, minSize, minSizeMin,
    minSizeSum, allMinSize, compileDelegates, compileDelegate, isLiteral, isLiteralAll, s3ok, s3okAll, s3okAlts, condFree, condFreeAll,
    boundsEq, satMul, satAdd, sureReps, UNSET, Assertion.isHard, wrapPosLook, wrapNegLook, posLookBodyPc, negLookBodyPc, pushLiteral,
    wellShaped, wellShapedAll, noBareEndZ, noBareEndZAll, slotsBelow, slotsBelowAll, progDelegOK]

set_option linter.unusedSimpArgs false in
theorem ex5e_stage : s5Stage ex5e [] = true ∧ s4Stage ex5e [] = false := by
  constructor <;>
  simp [s5Stage, s5New, s5Raw, s5ok, s5okAll, s5okAlts, unref5OK, noRead, noReadAll, atzSlots, atzSlotsAll, atzSlotsAlts, runSlots,
    s4Stage, s3Stage, s4ok, unrefOK, untouched, untouchedAll, ownSlotsS, ownSlotsListS, linearE, linearAll, build, ex5e, exRun,
    wrapTree, renumber, renumberList, checkRefs, checkRefsList, isHard, isHardAny,
    compile, visit, visitMiddle, visitAlt, visitAltBody, lookBehindAlts, lookBehindNegAlts, concatSplit, groupCount, groupCountList,
    constSize, constSizeAll, minSize, minSizeMin,
    minSizeSum, allMinSize, compileDelegates, compileDelegate, isLiteral, isLiteralAll, s3ok, s3okAll, s3okAlts, condFree, condFreeAll,
    boundsEq, satMul, satAdd, sureReps, UNSET, Assertion.isHard, wrapPosLook, wrapNegLook, posLookBodyPc, negLookBodyPc, pushLiteral,
    wellShaped, wellShapedAll, noBareEndZ, noBareEndZAll, slotsBelow, slotsBelowAll, progDelegOK]

example (c : Ctx) (hlen : c.len < UNSET) (hpos : c.pos ≤ c.len) : ∃ b, build ex5d [] = .ok b ∧ VmCorrectR b c :=
  C01_checked_s5 ex5d [] ex5d_stage.1 c hlen hpos

example (c : Ctx) (hlen : c.len < UNSET) (hpos : c.pos ≤ c.len) : ∃ b, build ex5e [] = .ok b ∧ VmCorrectR b c :=
  C01_checked_s5 ex5e [] ex5e_stage.1 c hlen hpos

end Fancy
