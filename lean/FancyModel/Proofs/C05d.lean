import FancyModel.Proofs.C01d
/-!
# C05 — a search never panics, in the proved engine stage with delegation
-/
namespace Fancy

theorem C05_search_never_panics (tree : Expr) (backrefs : List Nat) (b : Built) (prog : Prog) (c : Ctx)
    (hb : build tree backrefs = .ok b) (hk : b.kind = .fancy prog)
    (hok : s3ok (fun g => backrefs.contains g) b.raw true = true) (hws : wellShaped b.raw = true)
    (hz : noBareEndZ b.raw = true) (hdok : progDelegOK prog.nSaves prog.body = true)
    (hlen : c.len < UNSET) (hpos : c.pos ≤ c.len) (limit fuel : Nat) (site : String) :
    (b.captures c limit fuel).1 ≠ .panic site :=
  C05_no_panic_s3 tree backrefs b prog c hb hk hok hws hz hdok hlen hpos limit fuel site

end Fancy
