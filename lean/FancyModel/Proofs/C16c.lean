import FancyModel.GeneratedLib
import FancyModel.Proofs.C16b
/-!
# C16 (third part) — the group-metadata model is the code of lib.rs

`GeneratedLib.lean` is (among others) `Regex::captures_len`, `Regex::capture_names`, `Captures::{len, get, name, iter}`,
`SubCaptureMatches::next` and `Match::{new, start, end, range, as_str}` translated statement by statement by
`tools/rs2lean_lib.py` on every run of the check. This file proves them equal to the model of Proofs/C16b (`Caps`, `Got`,
`captureNames`), through the representation map `toCaps` (the saves of the VM path viewed as slots; the slots
regex-automata reports on the wrapped path):

* `C16_captures_len_translated_eq`: `captures_len()` is `nGroups` for a translated `Regex` that corresponds to the model's
  `Built` (`Corr`: the program and `n_groups`, or - assumption A-RA - what regex-automata made of the pattern string);
* `C16_capture_names_translated_eq` / `_model`: `capture_names()` is `captureNames order len` for EVERY order in which the
  `HashMap` is iterated, the index panic included;
* `C16_captures_len_of_translated_eq`, `C16_captures_get_translated_eq`, `C16_captures_name_translated_eq`,
  `C16_captures_iter_translated_eq` (the iterator drained through the translated `next`): `len`, `get`, `name`, `iter` are
  `Caps.len`, `Caps.get`, `Caps.name`, `Caps.iter` - so the accessor laws `C16_caps_accessors` hold of the translated code;
* `C16_match_accessors`.
-/
set_option linter.unusedSimpArgs false
namespace Fancy
open Fancy.Parse Fancy.GenLib

/-! ## the representation maps -/

/-- a translated `Captures` as the model's `Caps`: the saves of the VM path viewed as slots (`usize::MAX` = unset), the
    slots regex-automata reported on the other path -/
def toCaps (c : RCaptures) : Caps :=
  ⟨match c.inner with
    | .fancy saves => viewSlots saves
    | .wrap locs => locs.getD [], c.namedGroups⟩

/-- what a translated accessor returns, as the model's `Got` -/
def gotOf : LRes (Option (Nat × Nat)) → Got
  | .ok none => .absent
  | .ok (some (a, b)) => .span a b
  | .panic _ => .panic
  | .err _ => .panic

/-- the translated `Regex` value and the model's `Built` describe the same regex: on the VM path the program and
    `n_groups`; on the wrapped path what regex-automata made of the pattern string (assumption A-RA) -/
def Corr (sem : RaSem) (rx : RRegex) (b : Built) : Prop :=
  match rx.inner with
  | .wrap inner _ => b.kind = .wrap ∧ sem inner = some (b.raw, b.nGroups)
  | .fancy prog n _ => b.kind = .fancy prog ∧ n = b.nGroups

theorem viewSlots_get (saves : List Nat) (k : Nat) :
    (viewSlots saves)[k]? = (saves[k]?).map fun v => if v == UNSET then none else some v := by
  simp [viewSlots]

theorem viewSlots_length (saves : List Nat) : (viewSlots saves).length = saves.length := by simp [viewSlots]

/-! ## `Regex::captures_len`, `Captures::len` -/

theorem C16_captures_len_translated_eq (sem : RaSem) (rx : RRegex) (b : Built) (h : Corr sem rx b) :
    genCapturesLen sem rx = b.nGroups := by
  unfold Corr at h
  unfold genCapturesLen
  cases hi : rx.inner with
  | wrap inner o => rw [hi] at h; simp [raCapturesLen, h.2]
  | fancy prog n o => rw [hi] at h; simp [h.2]

theorem C16_captures_len_of_translated_eq (c : RCaptures) : genCapturesLenOf c = (toCaps c).len := by
  unfold genCapturesLenOf toCaps Caps.len
  cases c.inner with
  | wrap locs => cases locs <;> simp [raGroupLen]
  | fancy saves => simp [viewSlots_length]

/-! ## `Captures::get`, `name` -/

/-- `Captures::get(i)`: on the VM path for every value; on the wrapped path for a slot vector of even length (what
    regex-automata hands out) -/
theorem C16_captures_get_translated_eq (c : RCaptures) (i : Nat)
    (hw : ∀ slots, c.inner = .wrap (some slots) → slots.length % 2 = 0)
    (hl : ∀ saves, c.inner = .fancy saves → saves.length ≤ 2 ^ 64) :
    gotOf (genCapturesGet c i) = (toCaps c).get i := by
  unfold genCapturesGet toCaps Caps.get
  cases hi : c.inner with
  | wrap locs =>
    cases locs with
    | none => simp [raGetGroup, gotOf]
    | some slots =>
      have hev := hw slots hi
      simp only [raGetGroup, Option.getD_some]
      by_cases hge : i * 2 ≥ slots.length
      · have h1 : slots[i * 2]? = none := List.getElem?_eq_none hge
        simp [h1, hge, gotOf]
      · have hlt : i * 2 + 1 < slots.length := by omega
        simp only [hge, if_false]
        rw [List.getElem?_eq_getElem (by omega : i * 2 < slots.length), List.getElem?_eq_getElem hlt]
        cases slots[i * 2] <;> simp [gotOf, rawOf]
  | fancy saves =>
    have hlen := hl saves hi
    simp only [viewSlots_length, viewSlots_get]
    by_cases hov' : 18446744073709551616 ≤ i * 2
    · -- the slot number does not fit a `usize`: `checked_mul` gives `None`, and the slot is beyond the vector
      have hge : i * 2 ≥ saves.length := by omega
      rw [if_neg (by omega), if_pos hge]; rfl
    have hov : i * 2 < 18446744073709551616 := by omega
    rw [if_pos hov]; simp only []
    by_cases hge : i * 2 ≥ saves.length
    · simp [hge, gotOf]
    · simp only [hge, decide_false, Bool.false_eq_true, if_false]
      rw [List.getElem?_eq_getElem (by omega : i * 2 < saves.length)]
      simp only [Option.map_some]
      by_cases hlo : saves[i * 2] = UNSET
      · simp [hlo, gotOf]
      · have hb : (saves[i * 2] == UNSET) = false := by simpa using hlo
        simp only [hb, Bool.false_eq_true, if_false]
        cases hh : saves[i * 2 + 1]? with
        | none => simp [gotOf]
        | some hi2 =>
          simp only [Option.map_some, gotOf]
          by_cases hu : hi2 = UNSET <;> simp [hu]

theorem C16_captures_name_translated_eq (c : RCaptures) (nm : GenLib.Name)
    (hw : ∀ slots, c.inner = .wrap (some slots) → slots.length % 2 = 0)
    (hl : ∀ saves, c.inner = .fancy saves → saves.length ≤ 2 ^ 64) :
    gotOf (genCapturesName c nm) = (toCaps c).name nm := by
  unfold genCapturesName Caps.name
  have hn : (toCaps c).names = c.namedGroups := rfl
  rw [hn]
  cases namedGet c.namedGroups nm with
  | none => simp [gotOf]
  | some i =>
    simp only
    rw [← C16_captures_get_translated_eq c i hw hl]
    cases genCapturesGet c i <;> rfl

/-! ## `Captures::iter` + `SubCaptureMatches::next` -/

/-- drain a `SubCaptureMatches`: at most `n` calls of the translated `next` -/
def subDrain : Nat → RSubCaptureMatches → List Got
  | 0, _ => []
  | n + 1, s =>
    match genSubCaptureMatchesNext s with
    | .ok (some r, s') => gotOf (.ok r) :: subDrain n s'
    | .ok (none, _) => []
    | .panic _ => [.panic]
    | .err _ => []

theorem subDrain_eq (c : RCaptures) (hw : ∀ slots, c.inner = .wrap (some slots) → slots.length % 2 = 0)
    (hl : ∀ saves, c.inner = .fancy saves → saves.length ≤ 2 ^ 64)
    (hnp : ∀ i, (toCaps c).get i ≠ .panic) :
    ∀ (k i : Nat), (toCaps c).len - i = k → subDrain (k + 1) ⟨c, i⟩ = (List.range' i k).map (toCaps c).get := by
  intro k
  induction k with
  | zero =>
    intro i h
    have : ¬ i < (toCaps c).len := by omega
    simp [subDrain, genSubCaptureMatchesNext, C16_captures_len_of_translated_eq, this]
  | succ k ih =>
    intro i h
    have hlt : i < (toCaps c).len := by omega
    have hg := C16_captures_get_translated_eq c i hw hl
    have hn := hnp i
    rw [subDrain]
    simp only [genSubCaptureMatchesNext, C16_captures_len_of_translated_eq, hlt, decide_true, if_true]
    cases hr : genCapturesGet c i with
    | ok r =>
      simp only [List.range'_succ, List.map_cons]
      rw [← hg, hr, ih (i + 1) (by omega)]
    | panic s => rw [hr] at hg; exact absurd hg.symm hn
    | err e => rw [hr] at hg; exact absurd hg.symm hn

/-- `caps.iter()` drained through the translated `next` is the model's `Caps.iter`, for a `Captures` with `2 * n` slots -/
theorem C16_captures_iter_translated_eq (c : RCaptures) (n : Nat) (hlen : (toCaps c).slots.length = 2 * n)
    (hl : ∀ saves, c.inner = .fancy saves → saves.length ≤ 2 ^ 64) :
    subDrain ((toCaps c).len + 1) (genCapturesIter c) = (toCaps c).iter := by
  have hacc := C16_caps_accessors (toCaps c) n hlen
  have hw : ∀ slots, c.inner = .wrap (some slots) → slots.length % 2 = 0 := by
    intro slots hs
    have : (toCaps c).slots = slots := by simp [toCaps, hs]
    rw [this] at hlen; omega
  rw [Caps.iter_eq, List.range_eq_range']
  exact subDrain_eq c hw hl hacc.2.2.2.2.1 _ 0 (by omega)

/-! ## `Regex::capture_names` -/

theorem foldl_step_none (order : GenLib.Names) : order.foldl captureNamesStep none = none := by
  induction order with
  | nil => rfl
  | cons e es ih => simp [List.foldl, captureNamesStep, ih]

theorem loopCaptureNames_eq (order : GenLib.Names) (v : List (Option GenLib.Name)) :
    loopCaptureNames order v =
      match order.foldl captureNamesStep (some v) with
      | some v' => .ok v'
      | none => .panic "capture_names: index" := by
  induction order generalizing v with
  | nil => simp [loopCaptureNames]
  | cons e es ih =>
    obtain ⟨nm, i⟩ := e
    simp only [loopCaptureNames, List.foldl_cons, captureNamesStep, vecSet]
    by_cases h : i < v.length
    · simp only [h, if_true]; exact ih _
    · simp [h, foldl_step_none]

/-- **`capture_names` as translated is the model's `captureNames`, for EVERY order in which the map is iterated**
    (the index panic included) -/
theorem C16_capture_names_translated_eq (sem : RaSem) (order : GenLib.Names) (rx : RRegex) :
    genCaptureNames sem order rx =
      match captureNames order (genCapturesLen sem rx) with
      | some v => .ok v
      | none => .panic "capture_names: index" := by
  unfold genCaptureNames captureNames
  simp only [vecResize, List.take_nil, List.nil_append, List.length_nil, Nat.sub_zero, loopCaptureNames_eq]
  cases List.foldl captureNamesStep (some (List.replicate (genCapturesLen sem rx) none)) order <;> rfl

/-- with `captures_len`: the vector has one cell per group -/
theorem C16_capture_names_translated_model (sem : RaSem) (order : GenLib.Names) (rx : RRegex) (b : Built) (h : Corr sem rx b) :
    genCaptureNames sem order rx =
      match captureNames order b.nGroups with
      | some v => .ok v
      | none => .panic "capture_names: index" := by
  rw [C16_capture_names_translated_eq, C16_captures_len_translated_eq sem rx b h]

/-! ## `Match` -/

theorem C16_match_accessors (s e : Nat) :
    genMatchStart (genMatchNew s e) = s ∧ genMatchEnd (genMatchNew s e) = e ∧
    genMatchRange (genMatchNew s e) = (s, e) ∧ genMatchAsStr (genMatchNew s e) = (s, e) := by
  simp [genMatchStart, genMatchEnd, genMatchRange, genMatchAsStr, genMatchNew]

end Fancy
