import FancyModel.Proofs.C01d
import FancyModel.Proofs.C07
/-!
# C07 — searches terminate (engine refinement: total correctness in the proved stage)

`Proofs/C07.lean` has the limit theorems for every program. Here, for every pattern inside the
proved engine stage (`s3Stage`), every text and offset: the interpreter loop **terminates** — there is
an amount of fuel `N` such that no larger amount is ever exhausted — and, quantitatively, the number
of executed instructions is bounded by the length of the structured machine's derivation
(`C07_steps_bounded`). The derivation exists because compiled code simulates the reference
semantics, which is a finite list of results: a VM loop that could spin forever (an unbounded loop
over an empty iteration, the reason `RepeatEpsilon` exists) would have no derivation.
-/
namespace Fancy

theorem C07_search_terminates (tree : Expr) (backrefs : List Nat) (b : Built) (prog : Prog) (c : Ctx)
    (hb : build tree backrefs = .ok b) (hk : b.kind = .fancy prog)
    (hok : s3ok (fun g => backrefs.contains g) b.raw true = true) (hws : wellShaped b.raw = true)
    (hz : noBareEndZ b.raw = true) (hdok : progDelegOK prog.nSaves prog.body = true)
    (hlen : c.len < UNSET) (hpos : c.pos ≤ c.len) (limit : Nat) :
    ∃ N, ∀ fuel, N ≤ fuel → (b.captures c limit fuel).1 ≠ .outOfFuel :=
  C07_terminates_s3 tree backrefs b prog c hb hk hok hws hz hdok hlen hpos limit

/-- the number of executed instructions is bounded independently of the fuel and of the limit -/
theorem C07_steps_bounded (tree : Expr) (backrefs : List Nat) (b : Built) (prog : Prog) (c : Ctx)
    (hb : build tree backrefs = .ok b) (hk : b.kind = .fancy prog)
    (hok : s3ok (fun g => backrefs.contains g) b.raw true = true) (hws : wellShaped b.raw = true)
    (hz : noBareEndZ b.raw = true) (hdok : progDelegOK prog.nSaves prog.body = true)
    (hlen : c.len < UNSET) (hpos : c.pos ≤ c.len) :
    ∃ N, ∀ limit fuel, (run c prog ⟨limit, maxStackDefault⟩ fuel).2.steps ≤ N := by
  have hbig := big2_s3 tree backrefs b prog c hb hk hok hws hz hlen hpos
  obtain ⟨N, hN⟩ := hbig.big2N
  exact ⟨N, fun limit fuel =>
    (link2N_initial c prog ⟨limit, maxStackDefault⟩ (delegOK_of_prog c prog.body prog.nSaves hdok) _ N hN fuel).2⟩

end Fancy
