import FancyModel.Model.Api
import FancyModel.Spec.ApiSpec
/-!
# C08 — find_iter yields the successive leftmost non-overlapping matches

All theorems are about `Api.Iter` (the mirror of `Matches::next` / `CaptureMatches::next`) over an
**arbitrary** search oracle `f`, so they hold whatever the engine does. The only premise about the
engine is well-formedness of what it reports (`WFOracle`: `pos ≤ start ≤ end ≤ len`), which is C05's
business (`Insn::End` caps the start into `[pos, end]`).
-/
namespace Fancy.Api
open Fancy.Utf8

variable {α : Type}

/-- what the iterator needs from the search: a reported match lies inside `[pos, len]` -/
def WFOracle (f : Oracle α) (span : α → Nat × Nat) (len : Nat) : Prop :=
  ∀ pos flag a, f pos flag = .ok (some a) → pos ≤ (span a).1 ∧ (span a).1 ≤ (span a).2 ∧ (span a).2 ≤ len

/-- invariant of iterator states: the last match's end is not beyond the next search position -/
def Iter.J (it : Iter) : Prop := ∀ lm, it.lastMatch = some lm → lm ≤ it.lastEnd

theorem nextUtf8_gt (text : Bytes) (i : Nat) : i < nextUtf8 text i := by
  unfold nextUtf8
  cases h : text[i]? with
  | none => simp
  | some b => simp only [codepointLen]; split <;> (try split) <;> (try split) <;> omega

theorem Iter.J_start : Iter.start.J := by
  intro lm h; simp [Iter.start] at h

/-- **the flag**: the skipped-empty-match flag is set exactly when the search position lies past
    the previous match's end -/
theorem C08_flag (it : Iter) :
    it.flag = true ↔ ∃ lm, it.lastMatch = some lm ∧ lm < it.lastEnd := by
  unfold Iter.flag
  cases it.lastMatch with
  | none => simp
  | some lm => simp

/-- one `next()` that yields a match: where it lies and what the new state is -/
theorem next_ok_spec (f : Oracle α) (span : α → Nat × Nat) (text : Bytes) (hwf : WFOracle f span text.length)
    (fuel : Nat) (it it' : Iter) (a : α) (oof : Bool) (hj : it.J)
    (h : Iter.next f span text fuel it = (some (.ok a), it', oof)) :
    it.lastEnd ≤ (span a).1 ∧ (span a).1 ≤ (span a).2 ∧ (span a).2 ≤ text.length ∧
      it'.lastMatch = some (span a).2 ∧ (span a).2 ≤ it'.lastEnd ∧ (span a).1 < it'.lastEnd ∧
      (∀ lm, it.lastMatch = some lm → lm < (span a).2) ∧ it'.J := by
  induction fuel generalizing it with
  | zero => simp [Iter.next] at h
  | succ fuel ih =>
    unfold Iter.next at h
    split at h
    · simp at h
    · split at h
      · simp at h
      · simp at h
      · rename_i hle a0 hf
        obtain ⟨w1, w2, w3⟩ := hwf _ _ _ hf
        generalize hsp : span a0 = se at h w1 w2 w3
        obtain ⟨s0, e0⟩ := se
        simp only at h w1 w2 w3
        split at h
        · rename_i hempty
          have hse : s0 = e0 := by simpa using hempty
          split at h
          · -- dropped empty match adjacent to the previous match: recursion
            rename_i hadj
            have hlm : it.lastMatch = some e0 := by
              cases hl : it.lastMatch with
              | none => simp [hl] at hadj
              | some lm => simp [hl] at hadj; simp [hadj]
            have hj' : ({ it with lastEnd := nextUtf8 text e0 } : Iter).J := by
              intro lm hl; simp only at hl; rw [hlm] at hl; cases hl
              exact Nat.le_of_lt (nextUtf8_gt text _)
            obtain ⟨r1, r2, r3, r4, r5, r6, r7, r8⟩ := ih _ hj' h
            have := nextUtf8_gt text e0
            refine ⟨by simp only at r1; omega, r2, r3, r4, r5, r6, ?_, r8⟩
            intro lm hl
            exact r7 lm (by simpa using hl)
          · rename_i hadj
            simp only [Prod.mk.injEq, Option.some.injEq, Except.ok.injEq] at h
            obtain ⟨rfl, rfl, _⟩ := h
            rw [hsp]
            have := nextUtf8_gt text e0
            refine ⟨w1, w2, w3, rfl, Nat.le_of_lt this, by simp only; omega, ?_, ?_⟩
            · intro lm hl
              have h1 := hj lm hl
              simp only
              rcases Nat.lt_or_ge lm e0 with hlt | hge
              · exact hlt
              · exfalso
                have : lm = e0 := by omega
                apply hadj; simp [hl, this]
            · intro lm hl; simp only at hl; cases hl; exact Nat.le_of_lt this
        · rename_i hne
          have hlt : s0 < e0 := by
            have : s0 ≠ e0 := by simpa using hne
            omega
          simp only [Prod.mk.injEq, Option.some.injEq, Except.ok.injEq] at h
          obtain ⟨rfl, rfl, _⟩ := h
          rw [hsp]
          refine ⟨w1, w2, w3, rfl, Nat.le_refl _, hlt, ?_, ?_⟩
          · intro lm hl; have := hj lm hl; simp only; omega
          · intro lm hl; simp only at hl; cases hl; exact Nat.le_refl _

/-- after an error item the iterator is exhausted -/
theorem next_err_spec (f : Oracle α) (span : α → Nat × Nat) (text : Bytes)
    (fuel : Nat) (it it' : Iter) (e : SearchErr) (oof : Bool)
    (h : Iter.next f span text fuel it = (some (.error e), it', oof)) :
    it'.lastEnd = text.length + 1 := by
  induction fuel generalizing it with
  | zero => simp [Iter.next] at h
  | succ fuel ih =>
    unfold Iter.next at h
    split at h
    · simp at h
    · split at h
      · simp only [Prod.mk.injEq, Option.some.injEq, Except.error.injEq] at h
        obtain ⟨_, rfl, _⟩ := h; rfl
      · simp at h
      · split at h
        · split at h
          · split at h
            · exact ih _ h
            · simp at h
          · simp at h
        all_goals simp at h

theorem next_exhausted (f : Oracle α) (span : α → Nat × Nat) (text : Bytes) (fuel : Nat) (it : Iter)
    (h : it.lastEnd > text.length) : (Iter.next f span text (fuel + 1) it).1 = none := by
  simp [Iter.next, h]

/-- **after an `Err` item the iterator yields nothing more** -/
theorem C08_err_stops (f : Oracle α) (span : α → Nat × Nat) (text : Bytes) (n : Nat) (it : Iter)
    (pre : List (Except SearchErr α)) (e : SearchErr) (post : List (Except SearchErr α))
    (h : Iter.collect f span text n it = pre ++ .error e :: post) : post = [] := by
  induction n generalizing it pre with
  | zero => simp [Iter.collect] at h
  | succ n ih =>
    unfold Iter.collect at h
    generalize hn : Iter.next f span text (text.length + 2) it = r at h
    obtain ⟨item, it', oof⟩ := r
    cases item with
    | none => simp at h
    | some item =>
      simp only at h
      cases pre with
      | nil =>
        simp only [List.nil_append, List.cons.injEq] at h
        obtain ⟨rfl, hpost⟩ := h
        have hl := next_err_spec f span text _ it it' e oof hn
        cases n with
        | zero => simpa [Iter.collect] using hpost.symm
        | succ n =>
          have : (Iter.next f span text (text.length + 2) it').1 = none :=
            next_exhausted f span text _ it' (by omega)
          unfold Iter.collect at hpost
          generalize hn2 : Iter.next f span text (text.length + 2) it' = r2 at hpost this
          obtain ⟨i2, it2, o2⟩ := r2
          simp only at this; subst this
          simpa using hpost.symm
      | cons p pre =>
        simp only [List.cons_append, List.cons.injEq] at h
        exact ih it' pre h.2

/-- consecutive items: ordered, non-overlapping, none starts before the previous match's end -/
def Ordered (span : α → Nat × Nat) (len lo : Nat) (lastM : Option Nat) : List (Except SearchErr α) → Prop
  | [] => True
  | .error _ :: rest => rest = []
  | .ok a :: rest =>
    lo ≤ (span a).1 ∧ (span a).1 ≤ (span a).2 ∧ (span a).2 ≤ len ∧ (∀ lm, lastM = some lm → lm < (span a).2) ∧
      Ordered span len (max (span a).2 ((span a).1 + 1)) (some (span a).2) rest

theorem Ordered_mono (span : α → Nat × Nat) (len lo lo' : Nat) (lm : Option Nat) (l : List (Except SearchErr α))
    (h : Ordered span len lo lm l) (hle : lo' ≤ lo) : Ordered span len lo' lm l := by
  cases l with
  | nil => trivial
  | cons x xs =>
    cases x with
    | error e => exact h
    | ok a => exact ⟨Nat.le_trans hle h.1, h.2⟩

/-- **strictly increasing, never overlapping**: every yielded match starts at or after the previous
    match's end (and after its start), and ends after it -/
theorem C08_ordered (f : Oracle α) (span : α → Nat × Nat) (text : Bytes) (hwf : WFOracle f span text.length)
    (n : Nat) (it : Iter) (hj : it.J) :
    Ordered span text.length it.lastEnd it.lastMatch (Iter.collect f span text n it) := by
  induction n generalizing it with
  | zero => simp [Iter.collect, Ordered]
  | succ n ih =>
    unfold Iter.collect
    generalize hn : Iter.next f span text (text.length + 2) it = r
    obtain ⟨item, it', oof⟩ := r
    cases item with
    | none => simp [Ordered]
    | some item =>
      cases item with
      | error e =>
        simp only [Ordered]
        have hl := next_err_spec f span text _ it it' e oof hn
        cases n with
        | zero => simp [Iter.collect]
        | succ n =>
          have : (Iter.next f span text (text.length + 2) it').1 = none :=
            next_exhausted f span text _ it' (by omega)
          unfold Iter.collect
          generalize hn2 : Iter.next f span text (text.length + 2) it' = r2 at this
          obtain ⟨i2, it2, o2⟩ := r2
          simp only at this; subst this; rfl
      | ok a =>
        obtain ⟨r1, r2, r3, r4, r5, r6, r7, r8⟩ := next_ok_spec f span text hwf _ it it' a oof hj hn
        refine ⟨r1, r2, r3, r7, ?_⟩
        have := ih it' r8
        rw [r4] at this
        exact Ordered_mono span _ _ _ _ _ this (by omega)

/-- the whole `find_iter` sequence is ordered -/
theorem C08_find_iter_ordered (f : Oracle (Nat × Nat)) (text : Bytes) (hwf : WFOracle f id text.length) :
    Ordered id text.length 0 none (findIter f text) :=
  C08_ordered f id text hwf _ Iter.start Iter.J_start

/-- an ordered sequence is short: ends strictly increase inside `[0, len]`, plus at most one error -/
theorem Ordered_length_some (span : α → Nat × Nat) (len lo lm : Nat) (l : List (Except SearchErr α))
    (h : Ordered span len lo (some lm) l) : l.length + lm ≤ len + 1 ∨ l.length ≤ 1 := by
  induction l generalizing lo lm with
  | nil => right; simp
  | cons x xs ih =>
    cases x with
    | error e => right; simp only [Ordered] at h; simp [h]
    | ok a =>
      obtain ⟨_, _, h3, h4, h5⟩ := h
      have hlt := h4 lm rfl
      rcases ih _ _ h5 with h6 | h6
      · left; simp only [List.length_cons]; omega
      · left; simp only [List.length_cons]; omega

theorem Ordered_length (span : α → Nat × Nat) (len lo : Nat) (l : List (Except SearchErr α))
    (h : Ordered span len lo none l) : l.length ≤ len + 2 := by
  cases l with
  | nil => simp
  | cons x xs =>
    cases x with
    | error e => simp only [Ordered] at h; simp [h]
    | ok a =>
      obtain ⟨_, _, h3, _, h5⟩ := h
      rcases Ordered_length_some span len _ _ xs h5 with h6 | h6
      · simp only [List.length_cons]; omega
      · simp only [List.length_cons]; omega

/-- **the item cap of the model is never what ends the sequence**: `find_iter` yields at most
    `len + 2` items under a well-formed oracle (the model drains with a cap of `len + 3`) -/
theorem C08_length_bound (f : Oracle (Nat × Nat)) (text : Bytes) (hwf : WFOracle f id text.length) :
    (findIter f text).length ≤ text.length + 2 :=
  Ordered_length id _ _ _ (C08_find_iter_ordered f text hwf)

/-- **termination**: under a well-formed oracle the recursion of `next()` on dropped empty matches
    never exhausts its fuel (`len + 2 - lastEnd` calls suffice) -/
theorem C08_next_fuel (f : Oracle α) (span : α → Nat × Nat) (text : Bytes) (hwf : WFOracle f span text.length)
    (fuel : Nat) (it : Iter) (hfuel : text.length + 1 ≤ fuel + it.lastEnd) :
    (Iter.next f span text (fuel + 1) it).2.2 = false := by
  induction fuel generalizing it with
  | zero =>
    have : it.lastEnd > text.length := by omega
    simp [Iter.next, this]
  | succ fuel ih =>
    unfold Iter.next
    split
    · rfl
    · split
      · rfl
      · rfl
      · rename_i hle a0 hf
        obtain ⟨w1, w2, w3⟩ := hwf _ _ _ hf
        generalize span a0 = se at w1 w2 w3
        obtain ⟨s0, e0⟩ := se
        simp only at w1 w2 w3 ⊢
        split
        · split
          · apply ih
            have := nextUtf8_gt text e0
            simp only; omega
          · rfl
        · rfl

/-- in particular with the fuel the model uses -/
theorem C08_terminates (f : Oracle α) (span : α → Nat × Nat) (text : Bytes) (hwf : WFOracle f span text.length)
    (it : Iter) : (Iter.next f span text (text.length + 2) it).2.2 = false :=
  C08_next_fuel f span text hwf (text.length + 1) it (by omega)

/-- **fused**: once `next()` has returned `None` (without running out of fuel) it returns `None`
    again from the state it left (the oracle is a function of its arguments) -/
theorem C08_fused (f : Oracle α) (span : α → Nat × Nat) (text : Bytes) (fuel fuel' : Nat) (it it' : Iter)
    (h : Iter.next f span text fuel it = (none, it', false)) :
    (Iter.next f span text (fuel' + 1) it').1 = none := by
  induction fuel generalizing it with
  | zero => simp [Iter.next] at h
  | succ fuel ih =>
    unfold Iter.next at h
    split at h
    · rename_i hgt
      simp only [Prod.mk.injEq, true_and] at h
      obtain ⟨rfl, _⟩ := h
      simp [Iter.next, hgt]
    · rename_i hle
      split at h
      · simp at h
      · rename_i hf
        simp only [Prod.mk.injEq, true_and] at h
        obtain ⟨rfl, _⟩ := h
        simp [Iter.next, hle, hf]
      · split at h
        · split at h
          · split at h
            · exact ih _ h
            · simp at h
          · simp at h
        all_goals simp at h

/-! ### Non-vacuity: a concrete well-formed oracle (`a*` on the bytes of "aab") -/

def demoOracle : Oracle (Nat × Nat) := fun pos _ =>
  .ok (if pos ≤ 0 then some (0, 2) else if pos ≤ 3 then some (max pos 2 |> fun p => if p == 2 then (2, 2) else (3, 3)) else none)

example : findIter demoOracle [97, 97, 98] = [.ok (0, 2), .ok (3, 3)] := by rfl

example : WFOracle demoOracle id 3 := by
  intro pos flag a h
  simp only [demoOracle] at h
  split at h
  · simp only [Except.ok.injEq, Option.some.injEq] at h; subst h; simp; omega
  · split at h
    · simp only [Except.ok.injEq, Option.some.injEq] at h
      subst h
      simp only [id]
      split <;> simp_all <;> omega
    · simp at h

end Fancy.Api
