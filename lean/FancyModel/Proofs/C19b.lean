import FancyModel.Proofs.C17b
/-!
# C19 (parser part) — equivalent spellings parse to the same tree (`Model/Parse.lean`)

Proofs/C19.lean proves the spellings whose trees differ but whose semantics coincide; the
spellings whose *trees* are the same were left to the harness because the parser was not modelled.
With the parser model, proved here for all inputs (numbering of the brief):

2. `C19_optWs_comment` / `C19_comment_skipped`: `optional_whitespace` skips a `(?#…)` comment under
   every flag state; `C19_optWs_space`, `C19_optWs_line_comment(_end)`: white space and `#…\n`
   comments are skipped under `x`; `C19_optWs_no_x`: and only under `x`.
   `C19_skipped_before_piece`: a skipped stretch in front of a piece adds nothing to the children
   collected by the loop of `parse_branch` (same array, two start indices).
3. `C19_escape_h/H/e/A/z`, `C19_escape_hex_fixed` (`\xHH`, `\uHHHH`, `\UHHHHHHHH`),
   `C19_escape_hex_brace` (`\x{…}`, `\u{…}`, `\U{…}`): equations for `parse_escape`.
4. `C19_scoped_flags_restore` (+ `C19_scoped_flags_outer`, `C19_inline_flags_stay`), and the
   negative theorem `C19_F19_flags_leak` / `C19_F19_trees_differ` (known finding F19).
5. `C19_relative_backref` (and `C19_absolute_backref` for comparison).
1. `parsePiece_suffix` / `C19_possessive_is_atomic` / `C19_not_possessive` (the quantifier-suffix
   handling of `parse_piece`: `Xq+` is `AtomicGroup` of the very node `Xq` is) and
   `C19_atomic_group` (`(?>Y)` is `AtomicGroup` of the tree of `Y`); at the end of the file.

NOT proved: the two-pattern form "the pattern with a comment inserted parses to the same tree as
the pattern without it" for arbitrary surroundings.  It is not true as an unconditional statement
of the parser: every index after the insertion shifts, and the validity bound of a back-reference
is `group < re.len() / 2`, which the insertion changes (`\1` alone is a parse error, `(?#c)\1` is
not: see the last example of section 2).  The concrete instances are evaluated in the examples.

Concrete patterns are evaluated in the kernel (`isTree_sound (by decide +kernel)`).
-/
namespace Fancy.Parse
open Fancy.Utf8 (codepointLen isLead)
open Fancy

/-! ## 2. comments and free-spacing white space -/

/-- `optional_whitespace` does not depend on its fuel once there is enough of it -/
theorem optionalWhitespace_fuel (re : Bytes) (fl : Flags) : ∀ (f f' ix : Nat), ix ≤ re.size →
    re.size < ix + f → re.size < ix + f' →
    optionalWhitespace f re fl ix = optionalWhitespace f' re fl ix := by
  intro f
  induction f with
  | zero => intro f' ix h1 h2 _; omega
  | succ f ih =>
    intro f' ix hix hf hf'
    obtain ⟨f', rfl⟩ : ∃ g, f' = g + 1 := ⟨f' - 1, by omega⟩
    simp only [optionalWhitespace]
    by_cases h0 : (ix == re.size) = true
    · simp only [h0, ↓reduceIte]
    · simp only [h0, Bool.false_eq_true, ↓reduceIte]
      have hlt : ix < re.size := by
        have : ix ≠ re.size := by simpa using h0
        omega
      cases hg : re[ix]? with
      | none => exact absurd (Array.getElem?_eq_none_iff.mp hg) (by omega)
      | some b =>
        simp only
        by_cases h1 : (b == ch '#' && fl.ignoreSpace) = true
        · simp only [h1, ↓reduceIte]
          cases hx : (re.toList.drop ix).findIdx? (· == 10) with
          | none => rfl
          | some x =>
            obtain ⟨hxl, _, _⟩ := List.findIdx?_eq_some_iff_getElem.mp hx
            simp only [List.length_drop, Array.length_toList] at hxl
            exact ih f' (ix + x + 1) (by omega) (by omega) (by omega)
        · simp only [h1, Bool.false_eq_true, ↓reduceIte]
          by_cases h2 : ((b == ch ' ' || b == ch '\r' || b == ch '\n' || b == ch '\t') && fl.ignoreSpace) = true
          · simp only [h2, ↓reduceIte]
            exact ih f' (ix + 1) (by omega) (by omega) (by omega)
          · simp only [h2, Bool.false_eq_true, ↓reduceIte]
            by_cases h3 : (b == ch '(' && startsWithAt re ix [ch '(', ch '?', ch '#']) = true
            · simp only [h3, ↓reduceIte]
              have hsc := goodS_skipComment re (re.size + 1) (ix + 3) (by omega) (by omega)
              cases hres : skipComment (re.size + 1) re (ix + 3) with
              | ok ix' =>
                rw [hres] at hsc
                simp only [GoodS_ok] at hsc
                exact ih f' ix' hsc.2.1 (by omega) (by omega)
              | _ => rfl
            · simp only [h3, Bool.false_eq_true, ↓reduceIte]

theorem optionalWhitespace_eq_optWs {re : Bytes} {fl : Flags} {f ix : Nat} (hix : ix ≤ re.size)
    (hf : re.size < ix + f) : optionalWhitespace f re fl ix = optWs re fl ix :=
  optionalWhitespace_fuel re fl f (re.size + 2) ix hix hf (by omega)

/-- one step of `optional_whitespace` at a byte -/
theorem optWs_step {re : Bytes} {fl : Flags} {ix b : Nat} (hg : re[ix]? = some b) :
    optWs re fl ix =
      if b == ch '#' && fl.ignoreSpace then
        match (re.toList.drop ix).findIdx? (· == 10) with
        | some x => optionalWhitespace (re.size + 1) re fl (ix + x + 1)
        | none => .ok re.size
      else if (b == ch ' ' || b == ch '\r' || b == ch '\n' || b == ch '\t') && fl.ignoreSpace then
        optionalWhitespace (re.size + 1) re fl (ix + 1)
      else if b == ch '(' && startsWithAt re ix [ch '(', ch '?', ch '#'] then
        match skipComment (re.size + 1) re (ix + 3) with
        | .ok ix' => optionalWhitespace (re.size + 1) re fl ix'
        | .err k p => .err k p
        | .cerr => .cerr
        | .panic s => .panic s
        | .outOfFuel => .outOfFuel
      else .ok ix := by
  have hlt := lt_size_of_get hg
  have hne : (ix == re.size) = false := by simpa using (by omega : ix ≠ re.size)
  unfold optWs
  rw [optionalWhitespace]
  simp only [hne, Bool.false_eq_true, ↓reduceIte, hg]
  rfl

/-- **a `(?#…)` comment is skipped, whatever the flags**: if `(?#` starts at `ix` and the comment
    loop ends at `j` (just after the closing parenthesis), `optional_whitespace` from `ix` is
    `optional_whitespace` from `j` -/
theorem C19_optWs_comment {re : Bytes} (fl : Flags) {ix j : Nat}
    (hs : startsWithAt re ix [ch '(', ch '?', ch '#'] = true)
    (hc : skipComment (re.size + 1) re (ix + 3) = .ok j) : optWs re fl ix = optWs re fl j := by
  have hg := (startsWithAt_head hs).1
  have hlt := lt_size_of_get hg
  have hsc := goodS_skipComment re (re.size + 1) (ix + 3) (by omega) (by omega)
  rw [hc] at hsc
  simp only [GoodS_ok] at hsc
  rw [optWs_step hg]
  have e1 : (ch '(' == ch '#') = false := by decide
  have e2 : (ch '(' == ch ' ' || ch '(' == ch '\r' || ch '(' == ch '\n' || ch '(' == ch '\t') = false := by
    decide
  simp only [e1, e2, Bool.false_and, Bool.false_eq_true, ↓reduceIte, beq_self_eq_true, hs, Bool.and_self, hc]
  exact optionalWhitespace_eq_optWs hsc.2.1 (by omega)

/-- the comment loop over a body without `)` and `\` ends after the next `)` -/
theorem skipComment_body {re : Bytes} : ∀ (cm pre post : List Nat) (f : Nat),
    re.toList = pre ++ (cm ++ ch ')' :: post) → (∀ b ∈ cm, b ≠ ch ')' ∧ b ≠ ch '\\') →
    cm.length < f → skipComment f re pre.length = .ok (pre.length + cm.length + 1) := by
  intro cm
  induction cm with
  | nil =>
    intro pre post f h _ hf
    obtain ⟨f, rfl⟩ : ∃ g, f = g + 1 := ⟨f - 1, by simp at hf; omega⟩
    have hg : re[pre.length]? = some (ch ')') := get_of_split (by simpa using h)
    have hlt := lt_size_of_get hg
    have : ¬ (pre.length ≥ re.size) := by omega
    simp [skipComment, this, hg]
  | cons c cm ih =>
    intro pre post f h hb hf
    obtain ⟨f, rfl⟩ : ∃ g, f = g + 1 := ⟨f - 1, by simp at hf; omega⟩
    have hg : re[pre.length]? = some c := get_of_split (by simpa using h)
    have hlt := lt_size_of_get hg
    have hge : ¬ (pre.length ≥ re.size) := by omega
    have hc := hb c (by simp)
    have h1 : (c == ch ')') = false := by simpa using hc.1
    have h2 : (c == ch '\\') = false := by simpa using hc.2
    have := ih (pre ++ [c]) post f (by rw [h]; simp) (fun b hb' => hb b (by simp [hb']))
      (by simp only [List.length_cons] at hf; omega)
    simp only [List.length_append, List.length_cons, List.length_nil, Nat.zero_add] at this
    simp only [skipComment, hge, ↓reduceIte, hg, h1, h2, Bool.false_eq_true, this, List.length_cons]
    congr 1; omega

/-- **C19_comment_skipped** (`optional_whitespace` part): in a pattern `pre (?# cm ) post` whose
    comment text `cm` contains no `)` and no backslash, `optional_whitespace` from the `(` equals
    `optional_whitespace` from just after the `)` — for every flag state -/
theorem C19_comment_skipped {re : Bytes} (fl : Flags) (pre cm post : List Nat)
    (h : re.toList = pre ++ ([ch '(', ch '?', ch '#'] ++ cm ++ ch ')' :: post))
    (hcm : ∀ b ∈ cm, b ≠ ch ')' ∧ b ≠ ch '\\') :
    optWs re fl pre.length = optWs re fl (pre.length + cm.length + 4) := by
  have hsz := size_of_split h
  simp only [List.length_append, List.length_cons, List.length_nil] at hsz
  have hs : startsWithAt re pre.length [ch '(', ch '?', ch '#'] = true := by
    have g0 : re[pre.length]? = some (ch '(') :=
      get_of_split (post := ch '?' :: ch '#' :: (cm ++ ch ')' :: post)) (by rw [h]; simp)
    have g1 : re[pre.length + 1]? = some (ch '?') := by
      have := get_of_split (re := re) (pre := pre ++ [ch '(']) (b := ch '?')
        (post := ch '#' :: (cm ++ ch ')' :: post)) (by rw [h]; simp)
      simpa using this
    have g2 : re[pre.length + 2]? = some (ch '#') := by
      have := get_of_split (re := re) (pre := pre ++ [ch '(', ch '?']) (b := ch '#')
        (post := cm ++ ch ')' :: post) (by rw [h]; simp)
      simpa using this
    simp [startsWithAt, g0, g1, g2]
  have hc := skipComment_body (re := re) cm (pre ++ [ch '(', ch '?', ch '#']) post (re.size + 1)
    (by rw [h]; simp) hcm (by omega)
  simp only [List.length_append, List.length_cons, List.length_nil, Nat.zero_add] at hc
  rw [C19_optWs_comment fl hs hc]
  congr 1; omega

/-- **white space is skipped under the `x` flag** -/
theorem C19_optWs_space {re : Bytes} {fl : Flags} {ix b : Nat} (hx : fl.ignoreSpace = true)
    (hg : re[ix]? = some b) (hb : b = ch ' ' ∨ b = ch '\r' ∨ b = ch '\n' ∨ b = ch '\t') :
    optWs re fl ix = optWs re fl (ix + 1) := by
  have hlt := lt_size_of_get hg
  rw [optWs_step hg]
  have e1 : (b == ch '#') = false := by rcases hb with h | h | h | h <;> (subst h; decide)
  have e2 : (b == ch ' ' || b == ch '\r' || b == ch '\n' || b == ch '\t') = true := by
    rcases hb with h | h | h | h <;> (subst h; decide)
  simp only [e1, e2, hx, Bool.false_and, Bool.false_eq_true, ↓reduceIte, Bool.and_self]
  exact optionalWhitespace_eq_optWs (by omega) (by omega)

/-- **a `#` comment is skipped to the end of the line under the `x` flag** (`x` = distance to the
    next newline) -/
theorem C19_optWs_line_comment {re : Bytes} {fl : Flags} {ix x : Nat} (hx : fl.ignoreSpace = true)
    (hg : re[ix]? = some (ch '#')) (hnl : (re.toList.drop ix).findIdx? (· == 10) = some x) :
    optWs re fl ix = optWs re fl (ix + x + 1) := by
  rw [optWs_step hg]
  obtain ⟨hxl, _, _⟩ := List.findIdx?_eq_some_iff_getElem.mp hnl
  simp only [List.length_drop, Array.length_toList] at hxl
  simp only [beq_self_eq_true, hx, Bool.and_self, ↓reduceIte, hnl]
  exact optionalWhitespace_eq_optWs (by omega) (by omega)

/-- … and to the end of the pattern if there is no newline -/
theorem C19_optWs_line_comment_end {re : Bytes} {fl : Flags} {ix : Nat} (hx : fl.ignoreSpace = true)
    (hg : re[ix]? = some (ch '#')) (hnl : (re.toList.drop ix).findIdx? (· == 10) = none) :
    optWs re fl ix = .ok re.size := by
  rw [optWs_step hg]
  simp only [beq_self_eq_true, hx, Bool.and_self, ↓reduceIte, hnl]

/-- **… and exactly under the `x` flag**: without it white space and `#` (every byte but a `(`)
    stop `optional_whitespace` -/
theorem C19_optWs_no_x {re : Bytes} {fl : Flags} {ix b : Nat} (hx : fl.ignoreSpace = false)
    (hg : re[ix]? = some b) (hb : b ≠ ch '(') : optWs re fl ix = .ok ix :=
  optWs_stay hx (Nat.le_of_lt (lt_size_of_get hg)) (by intro b' hb'; rw [hg] at hb'; cases hb'; exact hb)

/-! ### what skipping means for the descent -/

/-- `parse_atom` starts with `optional_whitespace`: two indices from which that gives the same
    answer give the same atom (same fuel, same state) -/
theorem parseAtom_skip (isAlnum : Char → Bool) {re : Bytes} (f : Nat) (st : PState) (d : Nat) {ix j : Nat}
    (h : optWs re st.flags ix = optWs re st.flags j) :
    parseAtom isAlnum f re st ix d = parseAtom isAlnum f re st j d := by
  cases f with
  | zero => simp [parseAtom]
  | succ f => simp only [parseAtom, h]

theorem parsePiece_skip (isAlnum : Char → Bool) {re : Bytes} (f : Nat) (st : PState) (d : Nat) {ix j : Nat}
    (h : optWs re st.flags ix = optWs re st.flags j) :
    parsePiece isAlnum f re st ix d = parsePiece isAlnum f re st j d := by
  cases f with
  | zero => simp [parsePiece]
  | succ f => simp only [parsePiece, parseAtom_skip isAlnum f st d h]

/-- **C19_comment_skipped** (`parse_branch` part): a stretch `[ix, j)` that `optional_whitespace`
    skips (a `(?#…)` comment — `C19_comment_skipped` —, or white space / a `#` comment under `x`)
    in front of a piece that consumes something adds nothing to the children of the branch: the
    loop of `parse_branch` from `ix` is the loop from `j` -/
theorem C19_skipped_before_piece (isAlnum : Char → Bool) {re : Bytes} (f : Nat) (st : PState) (d : Nat)
    {ix j : Nat} (h : optWs re st.flags ix = optWs re st.flags j) (hij : ix < j) (hj : j < re.size)
    (hp : ∀ next child st', parsePiece isAlnum f re st j d = .ok (next, child, st') → j < next) :
    branchLoop isAlnum (f + 1) re st ix d = branchLoop isAlnum (f + 1) re st j d := by
  have hi : ix < re.size := by omega
  rw [branchLoop, branchLoop]
  simp only [hi, hj, ↓reduceIte, parsePiece_skip isAlnum f st d h]
  cases hres : parsePiece isAlnum f re st j d with
  | ok r =>
    obtain ⟨next, child, st'⟩ := r
    have := hp next child st' hres
    have e1 : (next == ix) = false := by simpa using (by omega : next ≠ ix)
    have e2 : (next == j) = false := by simpa using (by omega : next ≠ j)
    simp only [Res.ok_bind, e1, e2, Bool.false_eq_true, ↓reduceIte]
  | _ => rfl

-- the hypotheses are satisfiable: in `a(?#c)b` the comment at 1..6 is skipped, the piece `b` follows
example : startsWithAt (bytesOf "a(?#c)b".toList) 1 [ch '(', ch '?', ch '#'] = true ∧
    skipComment ((bytesOf "a(?#c)b".toList).size + 1) (bytesOf "a(?#c)b".toList) 4 = .ok 6 :=
  ⟨by decide +kernel, by rfl⟩

-- whole patterns, by evaluation of the model: comments, and white space / `#` comments under `x`,
-- leave no trace in the tree; without `x` they are literals
example : parseStr (fun c => c.isAlphanum) "a(?#c)b".toList false =
    parseStr (fun c => c.isAlphanum) "ab".toList false :=
  (isTree_sound (e := .concat [.literal ['a'] false, .literal ['b'] false]) (br := []) (ng := [])
    (by decide +kernel)).trans (isTree_sound (by decide +kernel)).symm
example : parseStr (fun c => c.isAlphanum) "(?x) a b # c\n c".toList false =
    parseStr (fun c => c.isAlphanum) "(?x)abc".toList false :=
  (isTree_sound (e := .concat [.literal ['a'] false, .literal ['b'] false, .literal ['c'] false])
    (br := []) (ng := []) (by decide +kernel)).trans (isTree_sound (by decide +kernel)).symm
example : parseStr (fun c => c.isAlphanum) "a #".toList false =
    .ok ⟨.concat [.literal ['a'] false, .literal [' '] false, .literal ['#'] false], [], []⟩ :=
  isTree_sound (by decide +kernel)
-- why "inserting a comment never changes the outcome" is false without side conditions: the
-- back-reference bound `group < re.len() / 2` depends on the length of the pattern
example : parseStr (fun c => c.isAlphanum) "\\1".toList false = .err .invalidBackref 1 ∧
    parseStr (fun c => c.isAlphanum) "(?#c)\\1".toList false = .ok ⟨.backref 1, [1], []⟩ :=
  ⟨isErr_sound (by decide +kernel), isTree_sound (by decide +kernel)⟩

/-! ## 3. the escape table -/

/-- `\h` is the class of hex digits (a delegate, never case-insensitive), in or out of a class,
    whatever the flags -/
theorem C19_escape_h (isAlnum : Char → Bool) {re : Bytes} (st : PState) {ix : Nat} (inClass : Bool)
    (h1 : re[ix + 1]? = some (ch 'h')) :
    parseEscape isAlnum re st ix inClass =
      .ok (ix + 2, .delegate "[0-9A-Fa-f]".toList 1 false, st) := by
  simp [parseEscape, h1, isDigit, ch, codepointLen]

/-- `\H` is its complement -/
theorem C19_escape_H (isAlnum : Char → Bool) {re : Bytes} (st : PState) {ix : Nat} (inClass : Bool)
    (h1 : re[ix + 1]? = some (ch 'H')) :
    parseEscape isAlnum re st ix inClass =
      .ok (ix + 2, .delegate "[^0-9A-Fa-f]".toList 1 false, st) := by
  simp [parseEscape, h1, isDigit, ch, codepointLen]

/-- `\e` is the literal U+001B (`make_literal`: `casei = false`) -/
theorem C19_escape_e (isAlnum : Char → Bool) {re : Bytes} (st : PState) {ix : Nat} (inClass : Bool)
    (h1 : re[ix + 1]? = some (ch 'e')) :
    parseEscape isAlnum re st ix inClass = .ok (ix + 2, .literal ['\x1b'] false, st) := by
  simp [parseEscape, h1, isDigit, ch, codepointLen, makeLiteral]

/-- `\A` is the start-of-text assertion (what `^` is without the `m` flag) -/
theorem C19_escape_A (isAlnum : Char → Bool) {re : Bytes} (st : PState) {ix : Nat}
    (h1 : re[ix + 1]? = some (ch 'A')) :
    parseEscape isAlnum re st ix false = .ok (ix + 2, .assertion .startText, st) := by
  simp [parseEscape, h1, isDigit, ch, codepointLen]

/-- `\z` is the end-of-text assertion (what `$` is without the `m` flag) -/
theorem C19_escape_z (isAlnum : Char → Bool) {re : Bytes} (st : PState) {ix : Nat}
    (h1 : re[ix + 1]? = some (ch 'z')) :
    parseEscape isAlnum re st ix false = .ok (ix + 2, .assertion .endText, st) := by
  simp [parseEscape, h1, isDigit, ch, codepointLen]

/-! ### hex and unicode escapes -/

theorem get_mid {re : Bytes} {pre mid post : List Nat} (h : re.toList = pre ++ (mid ++ post)) {k : Nat}
    (hk : k < mid.length) : re[pre.length + k]? = mid[k]? := by
  rw [← Array.getElem?_toList, h, List.getElem?_append_right (by omega),
    show pre.length + k - pre.length = k by omega, List.getElem?_append_left hk]

/-- value of a string of hex digits -/
def hexValue (ds : List Nat) : Nat := ds.foldl (fun a d => a * 16 + hexVal d) 0

theorem parseHexU32_hex {ds : List Nat} (hne : ds ≠ []) (hall : ∀ d ∈ ds, isHexDigit d = true)
    (hlen : ds.length ≤ 8) : parseHexU32 ds = some (hexValue ds) := by
  unfold parseHexU32 hexValue
  have hb := foldl_hex_bound ds 0 hall
  have hp : 16 ^ ds.length ≤ 16 ^ 8 := Nat.pow_le_pow_right (by omega) hlen
  have : ds.isEmpty = false := by cases ds <;> simp_all
  simp only [this, Bool.false_eq_true, ↓reduceIte]
  simp only [Nat.zero_add, Nat.one_mul] at hb
  have h8 : (16:Nat) ^ 8 = 4294967296 := by decide
  rw [if_pos (by omega)]

/-- what `parse_hex` makes of the digits `ds` ending at `e`: the literal of the scalar value, or
    `InvalidCodepointValue` (a surrogate, or beyond U+10FFFF) -/
def hexResult (fl : Flags) (ix e : Nat) (ds : List Nat) : Res (Nat × Expr) :=
  if (hexValue ds).isValidChar then .ok (e, .literal [mkChar (hexValue ds)] fl.casei)
  else .err .invalidCodepointValue ix

/-- `parse_hex(ix, digits)` on exactly `digits` hex digits (`\xHH`, `\uHHHH`, `\UHHHHHHHH`) -/
theorem parseHex_fixed {re : Bytes} (hwf : WF re) (fl : Flags) {pre ds post : List Nat}
    (h : re.toList = pre ++ (ds ++ post)) (hne : ds ≠ []) (hall : ∀ d ∈ ds, isHexDigit d = true)
    (hlen : ds.length ≤ 8) :
    parseHex re fl pre.length ds.length = hexResult fl pre.length (pre.length + ds.length) ds := by
  have hpos : 0 < ds.length := List.length_pos_iff.mpr hne
  have hsz := size_of_split h
  simp only [List.length_append] at hsz
  have hg0 : re[pre.length]? = ds[0]? := by simpa using get_mid h hpos
  obtain ⟨b, hb⟩ : ∃ b, ds[0]? = some b := ⟨ds[0], by simp⟩
  have hbh : isHexDigit b = true := hall b (List.mem_of_getElem? hb)
  rw [hb] at hg0
  have hb0 : isBoundary re pre.length = true := isBoundary_of_ascii hg0 (isHexDigit_ascii hbh)
  have hb1 : isBoundary re (pre.length + ds.length) = true := by
    have hl := get_mid h (k := ds.length - 1) (by omega)
    obtain ⟨l, hlast⟩ : ∃ l, ds[ds.length - 1]? = some l := ⟨ds[ds.length - 1], by simp⟩
    rw [hlast] at hl
    have := hwf.step_ascii hl (isHexDigit_ascii (hall l (List.mem_of_getElem? hlast)))
    rwa [show pre.length + (ds.length - 1) + 1 = pre.length + ds.length by omega] at this
  have hex := extract_of_split h
  have hge : ¬ (pre.length ≥ re.size) := by omega
  have hle : pre.length + ds.length ≤ re.size := by omega
  have hallb : ds.all isHexDigit = true := List.all_eq_true.mpr hall
  unfold parseHex
  simp only [hge, ↓reduceIte, byteAt, hg0, Res.ok_bind, hle, decide_true, hex, hallb, Bool.and_self,
    slice, sliceOk, Nat.le_add_right, hb0, hb1, Res.pure_bind', parseHexU32_hex hne hall hlen, hexResult]

/-- the `{…}` loop of `parse_hex` over the digits `ds` followed by `}` -/
theorem hexBraceLoop_digits {re : Bytes} (ix0 : Nat) {pre ds post : List Nat}
    (h : re.toList = pre ++ (ds ++ ch '}' :: post)) (hne : ds ≠ [])
    (hall : ∀ d ∈ ds, isHexDigit d = true) (hlen : ds.length ≤ 8) :
    ∀ (n k f : Nat), k + n = ds.length → n < f →
    hexBraceLoop f re ix0 pre.length (pre.length + k) = .ok (pre.length + ds.length) := by
  have hpos : 0 < ds.length := List.length_pos_iff.mpr hne
  have hsz := size_of_split h
  simp only [List.length_append, List.length_cons] at hsz
  intro n
  induction n with
  | zero =>
    intro k f hk hf
    obtain ⟨f, rfl⟩ : ∃ g, f = g + 1 := ⟨f - 1, by omega⟩
    have hk' : k = ds.length := by omega
    subst hk'
    have hg : re[pre.length + ds.length]? = some (ch '}') := by
      have := get_of_split (re := re) (pre := pre ++ ds) (b := ch '}') (post := post) (by rw [h]; simp)
      simpa using this
    have hne' : (pre.length + ds.length == re.size) = false := by
      simpa using (by omega : pre.length + ds.length ≠ re.size)
    have hgt : pre.length + ds.length > pre.length := by omega
    simp [hexBraceLoop, hne', hg, hgt]
  | succ n ih =>
    intro k f hk hf
    obtain ⟨f, rfl⟩ : ∃ g, f = g + 1 := ⟨f - 1, by omega⟩
    have hkl : k < ds.length := by omega
    have hg : re[pre.length + k]? = ds[k]? := get_mid (post := ch '}' :: post) h hkl
    obtain ⟨b, hb⟩ : ∃ b, ds[k]? = some b := ⟨ds[k], by simp [hkl]⟩
    rw [hb] at hg
    have hbh : isHexDigit b = true := hall b (List.mem_of_getElem? hb)
    have hnb : (b == ch '}') = false := by
      cases hc : b == ch '}' with
      | false => rfl
      | true =>
        have : b = ch '}' := by simpa using hc
        subst this; exact absurd hbh (by decide)
    have hne' : (pre.length + k == re.size) = false := by
      simpa using (by omega : pre.length + k ≠ re.size)
    have hlt8 : pre.length + k < pre.length + 8 := by omega
    have := ih (k + 1) f (by omega) (by omega)
    rw [show pre.length + (k + 1) = pre.length + k + 1 by omega] at this
    simp only [hexBraceLoop, hne', Bool.false_eq_true, ↓reduceIte, hg, hnb, Bool.and_false, hbh, hlt8,
      decide_true, Bool.and_self, this]

/-- `parse_hex(ix, digits)` on `{H…}` (1 to 8 hex digits): `\x{…}`, `\u{…}`, `\U{…}` -/
theorem parseHex_brace {re : Bytes} (hwf : WF re) (fl : Flags) {pre ds post : List Nat} {digits : Nat}
    (h : re.toList = pre ++ (ch '{' :: ds ++ ch '}' :: post)) (hne : ds ≠ [])
    (hall : ∀ d ∈ ds, isHexDigit d = true) (hlen : ds.length ≤ 8) (hd : 0 < digits) :
    parseHex re fl pre.length digits =
      hexResult fl pre.length (pre.length + ds.length + 2) ds := by
  have hpos : 0 < ds.length := List.length_pos_iff.mpr hne
  have hsz := size_of_split h
  simp only [List.length_append, List.length_cons] at hsz
  have hg0 : re[pre.length]? = some (ch '{') := get_of_split (post := ds ++ ch '}' :: post) (by rw [h]; simp)
  have h' : re.toList = (pre ++ [ch '{']) ++ (ds ++ ch '}' :: post) := by rw [h]; simp
  have hlen' : (pre ++ [ch '{']).length = pre.length + 1 := by simp
  have hloop := hexBraceLoop_digits pre.length h' hne hall hlen ds.length 0 16 (by omega) (by omega)
  rw [hlen'] at hloop
  have hb1 : isBoundary re (pre.length + 1) = true := hwf.step_ascii hg0 (by decide)
  have hgc : re[pre.length + 1 + ds.length]? = some (ch '}') := by
    have := get_of_split (re := re) (pre := pre ++ [ch '{'] ++ ds) (b := ch '}') (post := post)
      (by rw [h]; simp)
    simp only [List.length_append, List.length_cons, List.length_nil, Nat.zero_add] at this
    exact this
  have hb2 : isBoundary re (pre.length + 1 + ds.length) = true := isBoundary_of_ascii hgc (by decide)
  have hex := extract_of_split h'
  rw [hlen'] at hex
  have hge : ¬ (pre.length ≥ re.size) := by omega
  have hfirst : (decide (pre.length + digits ≤ re.size) &&
      (re.extract pre.length (pre.length + digits)).toList.all isHexDigit) = false := by
    rw [Array.toList_extract, List.extract_eq_take_drop, h]
    obtain ⟨dg, rfl⟩ : ∃ g, digits = g + 1 := ⟨digits - 1, by omega⟩
    have : isHexDigit (ch '{') = false := by decide
    simp [this]
  have hle : pre.length + 1 ≤ pre.length + 1 + ds.length := by omega
  have hle2 : pre.length + 1 + ds.length ≤ re.size := by omega
  unfold parseHex
  simp only [hge, ↓reduceIte, byteAt, hg0, Res.ok_bind, hfirst, Bool.false_eq_true, beq_self_eq_true,
    hloop, slice, sliceOk, hle, hle2, decide_true, hb1, hb2, Bool.and_self, hex,
    Res.pure_bind', parseHexU32_hex hne hall hlen, hexResult]
  rw [show pre.length + 1 + ds.length + 1 = pre.length + ds.length + 2 by omega]

/-- the three hex escapes hand over to `parse_hex` with 2, 4, 8 digits -/
theorem parseEscape_hex (isAlnum : Char → Bool) {re : Bytes} (st : PState) {ix : Nat} (inClass : Bool)
    {l digits : Nat} (h1 : re[ix + 1]? = some l)
    (hl : (l = ch 'x' ∧ digits = 2) ∨ (l = ch 'u' ∧ digits = 4) ∨ (l = ch 'U' ∧ digits = 8)) :
    parseEscape isAlnum re st ix inClass =
      (parseHex re st.flags (ix + 2) digits >>= fun r => .ok (r.1, r.2, st)) := by
  rcases hl with ⟨rfl, rfl⟩ | ⟨rfl, rfl⟩ | ⟨rfl, rfl⟩ <;>
    simp [parseEscape, h1, isDigit, ch, codepointLen] <;> rfl

/-- the result of a hex escape: `hexResult` with the parser state attached -/
def hexEscResult (st : PState) (ix e : Nat) (ds : List Nat) : Res (Nat × Expr × PState) :=
  if (hexValue ds).isValidChar then .ok (e, .literal [mkChar (hexValue ds)] st.flags.casei, st)
  else .err .invalidCodepointValue ix

theorem hexResult_bind (st : PState) (ix e : Nat) (ds : List Nat) :
    (hexResult st.flags ix e ds >>= fun r => Res.ok (r.1, r.2, st)) = hexEscResult st ix e ds := by
  unfold hexResult hexEscResult
  split <;> rfl

/-- **`\xHH`, `\uHHHH`, `\UHHHHHHHH`**: the escape letter followed by exactly 2 / 4 / 8 hex digits
    `ds` is the literal of the scalar value `hexValue ds` with the current `i` flag — the tree of
    that character written directly (`parseAtom_plain` in C17b) — or `InvalidCodepointValue` if the
    value is not a scalar value; in or out of a class, whatever the flags -/
theorem C19_escape_hex_fixed (isAlnum : Char → Bool) {re : Bytes} (hwf : WF re) (st : PState)
    (inClass : Bool) {pre ds post : List Nat} {l : Nat}
    (h : re.toList = pre ++ (ch '\\' :: l :: ds ++ post))
    (hl : (l = ch 'x' ∧ ds.length = 2) ∨ (l = ch 'u' ∧ ds.length = 4) ∨ (l = ch 'U' ∧ ds.length = 8))
    (hall : ∀ d ∈ ds, isHexDigit d = true) :
    parseEscape isAlnum re st pre.length inClass =
      hexEscResult st (pre.length + 2) (pre.length + 2 + ds.length) ds := by
  have hne : ds ≠ [] := by
    intro e; subst e; simp at hl
  have hlen : ds.length ≤ 8 := by omega
  have h1 : re[pre.length + 1]? = some l := by
    have := get_of_split (re := re) (pre := pre ++ [ch '\\']) (b := l) (post := ds ++ post)
      (by rw [h]; simp)
    simpa using this
  have h' : re.toList = (pre ++ [ch '\\', l]) ++ (ds ++ post) := by rw [h]; simp
  have hlen' : (pre ++ [ch '\\', l]).length = pre.length + 2 := by simp
  have hx := parseHex_fixed hwf st.flags h' hne hall hlen
  rw [hlen'] at hx
  rw [parseEscape_hex isAlnum st inClass h1 hl, hx, hexResult_bind]

/-- **`\x{H…}`, `\u{H…}`, `\U{H…}`** (1 to 8 hex digits in braces): the same literal -/
theorem C19_escape_hex_brace (isAlnum : Char → Bool) {re : Bytes} (hwf : WF re) (st : PState)
    (inClass : Bool) {pre ds post : List Nat} {l : Nat}
    (h : re.toList = pre ++ (ch '\\' :: l :: ch '{' :: ds ++ ch '}' :: post))
    (hl : l = ch 'x' ∨ l = ch 'u' ∨ l = ch 'U') (hne : ds ≠ [])
    (hall : ∀ d ∈ ds, isHexDigit d = true) (hlen : ds.length ≤ 8) :
    parseEscape isAlnum re st pre.length inClass =
      hexEscResult st (pre.length + 2) (pre.length + ds.length + 4) ds := by
  have h1 : re[pre.length + 1]? = some l := by
    have := get_of_split (re := re) (pre := pre ++ [ch '\\']) (b := l)
      (post := ch '{' :: ds ++ ch '}' :: post) (by rw [h]; simp)
    simpa using this
  have h' : re.toList = (pre ++ [ch '\\', l]) ++ (ch '{' :: ds ++ ch '}' :: post) := by rw [h]; simp
  have hlen' : (pre ++ [ch '\\', l]).length = pre.length + 2 := by simp
  obtain ⟨digits, hd, hl'⟩ : ∃ digits, 0 < digits ∧
      ((l = ch 'x' ∧ digits = 2) ∨ (l = ch 'u' ∧ digits = 4) ∨ (l = ch 'U' ∧ digits = 8)) := by
    rcases hl with rfl | rfl | rfl
    · exact ⟨2, by omega, Or.inl ⟨rfl, rfl⟩⟩
    · exact ⟨4, by omega, Or.inr (Or.inl ⟨rfl, rfl⟩)⟩
    · exact ⟨8, by omega, Or.inr (Or.inr ⟨rfl, rfl⟩)⟩
  have hx := parseHex_brace hwf st.flags (digits := digits) h' hne hall hlen hd
  rw [hlen'] at hx
  rw [parseEscape_hex isAlnum st inClass h1 hl', hx, hexResult_bind]
  rw [show pre.length + 2 + ds.length + 2 = pre.length + ds.length + 4 by omega]

-- `\x41`, `A`, `\x{41}` and `A` are the same tree; `\e` is `\x1B`; `\A`/`\z` are `^`/`$`
example : hexValue [52, 49] = 65 ∧ mkChar 65 = 'A' := by decide
example : parseStr (fun c => c.isAlphanum) "\\x41\\u0041\\x{41}\\U00000041".toList false =
    parseStr (fun c => c.isAlphanum) "AAAA".toList false :=
  (isTree_sound (e := .concat [.literal ['A'] false, .literal ['A'] false, .literal ['A'] false,
    .literal ['A'] false]) (br := []) (ng := []) (by decide +kernel)).trans
    (isTree_sound (by decide +kernel)).symm
example : parseStr (fun c => c.isAlphanum) "\\e\\A\\z\\h".toList false =
    parseStr (fun c => c.isAlphanum) "\\x1B^$[0-9A-Fa-f]".toList false :=
  (isTree_sound (e := .concat [.literal ['\x1b'] false, .assertion .startText, .assertion .endText,
    .delegate "[0-9A-Fa-f]".toList 1 false]) (br := []) (ng := []) (by decide +kernel)).trans
    (isTree_sound (by decide +kernel)).symm
-- a surrogate is rejected
example : parseStr (fun c => c.isAlphanum) "\\uD800".toList false = .err .invalidCodepointValue 2 :=
  isErr_sound (by decide +kernel)

/-! ## 4. scoped flag groups restore the flags; inline flags do not (F19) -/

/-- **C19_scoped_flags_restore**: what `parse_flags` returns, in terms of where its letter loop
    stops.  At `)` (an inline flag group `(?i)`) the result is an `Empty` piece and the **new** flags
    stay in force; at `:` (a scoped group `(?i:X)`) the body `X` is parsed by `parse_re` under the
    new flags, must be followed by `)`, and the flags the parser had **before the group** are put
    back — whatever `X` did to them. -/
theorem C19_scoped_flags_restore (isAlnum : Char → Bool) {re : Bytes} {f : Nat} {st st' : PState}
    {ix d ix' : Nat} {e : Expr} (h : parseFlags isAlnum (f + 1) re st ix d = .ok (ix', e, st')) :
    ∃ fe fl, flagsLoop (re.size + 2) re st.flags (ix + 1) (ix + 1) false = .ok (fe, fl) ∧
      match fe with
      | .close i => ix' = i + 1 ∧ e = .empty ∧ st' = { st with flags := fl }
      | .colon i => ∃ ix2 st2, parseRe isAlnum f re { st with flags := fl } (i + 1) d = .ok (ix2, e, st2) ∧
          re[ix2]? = some (ch ')') ∧ ix' = ix2 + 1 ∧ st' = { st2 with flags := st.flags } := by
  simp only [parseFlags] at h
  cases hl : flagsLoop (re.size + 2) re st.flags (ix + 1) (ix + 1) false with
  | ok r =>
    obtain ⟨fe, fl⟩ := r
    rw [hl] at h
    simp only [Res.ok_bind] at h
    refine ⟨fe, fl, rfl, ?_⟩
    cases fe with
    | close i =>
      simp only [Res.ok.injEq, Prod.mk.injEq] at h
      exact ⟨h.1.symm, h.2.1.symm, h.2.2.symm⟩
    | colon i =>
      simp only at h
      cases hr : parseRe isAlnum f re { st with flags := fl } (i + 1) d with
      | ok r =>
        obtain ⟨ix2, child, st2⟩ := r
        rw [hr] at h
        simp only [Res.ok_bind] at h
        split at h
        · cases h
        · rename_i hne
          unfold byteAt at h
          cases hg : re[ix2]? with
          | none => rw [hg] at h; cases h
          | some b =>
            rw [hg] at h
            simp only [Res.ok_bind] at h
            split at h
            · cases h
            · rename_i hb
              have hb' : b = ch ')' := by simpa using hb
              simp only [Res.ok.injEq, Prod.mk.injEq] at h
              refine ⟨ix2, st2, ?_, by rw [hg, hb'], h.1.symm, h.2.2.symm⟩
              rw [← h.2.1]; exact hr
      | err k p => rw [hr] at h; cases h
      | cerr => rw [hr] at h; cases h
      | panic s => rw [hr] at h; cases h
      | outOfFuel => rw [hr] at h; cases h
  | err k p => rw [hl] at h; cases h
  | cerr => rw [hl] at h; cases h
  | panic s => rw [hl] at h; cases h
  | outOfFuel => rw [hl] at h; cases h

/-- after a scoped flag group the parser's flags are the ones before the group: in `(?i:X)Y` the
    piece `Y` is parsed under the outer flags -/
theorem C19_scoped_flags_outer (isAlnum : Char → Bool) {re : Bytes} {f : Nat} {st st' : PState}
    {ix d ix' i : Nat} {e : Expr} {fl : Flags}
    (h : parseFlags isAlnum (f + 1) re st ix d = .ok (ix', e, st'))
    (hl : flagsLoop (re.size + 2) re st.flags (ix + 1) (ix + 1) false = .ok (.colon i, fl)) :
    st'.flags = st.flags := by
  obtain ⟨fe, fl', h1, h2⟩ := C19_scoped_flags_restore isAlnum h
  rw [hl] at h1
  cases h1
  obtain ⟨ix2, st2, _, _, _, rfl⟩ := h2
  rfl

/-- after an inline flag group the new flags stay -/
theorem C19_inline_flags_stay (isAlnum : Char → Bool) {re : Bytes} {f : Nat} {st st' : PState}
    {ix d ix' i : Nat} {e : Expr} {fl : Flags}
    (h : parseFlags isAlnum (f + 1) re st ix d = .ok (ix', e, st'))
    (hl : flagsLoop (re.size + 2) re st.flags (ix + 1) (ix + 1) false = .ok (.close i, fl)) :
    st'.flags = fl ∧ e = .empty := by
  obtain ⟨fe, fl', h1, h2⟩ := C19_scoped_flags_restore isAlnum h
  rw [hl] at h1
  cases h1
  obtain ⟨_, rfl, rfl⟩ := h2
  exact ⟨rfl, rfl⟩

-- `(?i:a)b`: `b` is parsed under the outer flags; `(?i)ab`: both under `i`; `(?i:(?-i)a)b`: the
-- body switched `i` off again, `b` still gets the outer flags
example : parseStr (fun c => c.isAlphanum) "(?i:a)b".toList false =
    .ok ⟨.concat [.literal ['a'] true, .literal ['b'] false], [], []⟩ := isTree_sound (by decide +kernel)
example : parseStr (fun c => c.isAlphanum) "(?i)ab".toList false =
    .ok ⟨.concat [.literal ['a'] true, .literal ['b'] true], [], []⟩ := isTree_sound (by decide +kernel)
example : parseStr (fun c => c.isAlphanum) "(?i:(?-i)a)b".toList true =
    .ok ⟨.concat [.literal ['a'] false, .literal ['b'] true], [], []⟩ := isTree_sound (by decide +kernel)

/-- **C19_F19_flags_leak** (the model mirrors the known defect F19, negative theorem): an inline
    flag group inside a *capturing* group leaks out of it — `((?i)a)b` parses with a
    case-insensitive `b`, whereas the scoped spelling `((?i:a))b` does not; `parse_group` does not
    restore the flags after the group body, only `(?flags:…)` does.  The same for an atomic group
    and a look-ahead. -/
theorem C19_F19_flags_leak :
    parseStr (fun c => c.isAlphanum) "((?i)a)b".toList false =
      .ok ⟨.concat [.group 0 (.literal ['a'] true), .literal ['b'] true], [], []⟩ ∧
    parseStr (fun c => c.isAlphanum) "((?i:a))b".toList false =
      .ok ⟨.concat [.group 0 (.literal ['a'] true), .literal ['b'] false], [], []⟩ ∧
    parseStr (fun c => c.isAlphanum) "(?>(?i)a)b".toList false =
      .ok ⟨.concat [.atomic (.literal ['a'] true), .literal ['b'] true], [], []⟩ ∧
    parseStr (fun c => c.isAlphanum) "(?=(?i)a)ab".toList false =
      .ok ⟨.concat [.look (.literal ['a'] true) .ahead, .literal ['a'] true, .literal ['b'] true], [], []⟩ :=
  ⟨isTree_sound (by decide +kernel), isTree_sound (by decide +kernel),
   isTree_sound (by decide +kernel), isTree_sound (by decide +kernel)⟩

/-- the two spellings are not the same tree -/
theorem C19_F19_trees_differ :
    parseStr (fun c => c.isAlphanum) "((?i)a)b".toList false ≠
      parseStr (fun c => c.isAlphanum) "((?i:a))b".toList false := by
  rw [C19_F19_flags_leak.1, C19_F19_flags_leak.2.1]
  intro h
  simp at h

/-! ## 5. relative back-references -/

/-- `"-n".parse::<isize>()` -/
theorem parseIsize_neg {ds : List Nat} (hne : ds ≠ []) (hall : ds.all isDigit = true)
    (hv : digitsVal ds ≤ isizeMax + 1) : parseIsize (ch '-' :: ds) = some (-(digitsVal ds : Int)) := by
  have he : ds.isEmpty = false := by cases ds <;> simp_all
  simp [parseIsize, ch, he, hall, hv]

/-- **C19_relative_backref**: when the identifier between the delimiters is `-n` (not a group
    name, `n ≥ 1`), `parse_named_backref` names group `curr_group + 1 − n` — the `n`-th group
    opened before this point, counting backwards — exactly as the absolute spelling of that number
    would (same expression, same entry in the back-reference set); it is an
    `InvalidGroupNameBackref` error if that is negative or not below `len / 2`. -/
theorem C19_relative_backref (isAlnum : Char → Bool) {re : Bytes} (st : PState) {ix : Nat}
    {open_ close : List Nat} {allowRel : Bool} (k : RefKind) {a b skip n : Nat}
    (hs : sliceFromOk re ix = true)
    (hid : parseId isAlnum re ix open_ close allowRel = .ok (some (a, b, skip)))
    (hname : namedGet st.namedGroups (re.extract a b).toList = none)
    (hrel : parseIsize (re.extract a b).toList = some (-(n : Int))) (hn : 0 < n) :
    parseNamedBackref isAlnum re st ix open_ close allowRel k =
      if n ≤ st.currGroup + 1 ∧ st.currGroup + 1 - n < re.size / 2 then
        .ok (ix + skip, k.mk (st.currGroup + 1 - n),
          { st with backrefs := bitsetInsert st.backrefs (st.currGroup + 1 - n) })
      else .err (.invalidGroupNameBackref (re.extract a b).toList) ix := by
  unfold parseNamedBackref
  simp only [sliceFrom, hs, ↓reduceIte, Res.ok_bind, hid, hname, hrel]
  have hneg : ¬ (-(n : Int) ≥ 0) := by omega
  simp only [hneg, ↓reduceIte]
  by_cases h1 : n ≤ st.currGroup + 1
  · have hr : ((st.currGroup : Int) + (-(n : Int) + 1) ≥ 0) := by omega
    have ht : ((st.currGroup : Int) + (-(n : Int) + 1)).toNat = st.currGroup + 1 - n := by omega
    simp only [hr, ↓reduceIte, ht, Option.filter, h1, true_and]
    by_cases h2 : st.currGroup + 1 - n < re.size / 2
    · simp [h2]
    · simp [h2]
  · have hr : ¬ ((st.currGroup : Int) + (-(n : Int) + 1) ≥ 0) := by omega
    simp [hr, h1, Option.filter]

/-- the absolute spelling, for comparison: a non-negative number `g` that is not a group name -/
theorem C19_absolute_backref (isAlnum : Char → Bool) {re : Bytes} (st : PState) {ix : Nat}
    {open_ close : List Nat} {allowRel : Bool} (k : RefKind) {a b skip g : Nat}
    (hs : sliceFromOk re ix = true)
    (hid : parseId isAlnum re ix open_ close allowRel = .ok (some (a, b, skip)))
    (hname : namedGet st.namedGroups (re.extract a b).toList = none)
    (habs : parseIsize (re.extract a b).toList = some (g : Int)) :
    parseNamedBackref isAlnum re st ix open_ close allowRel k =
      if g < re.size / 2 then
        .ok (ix + skip, k.mk g, { st with backrefs := bitsetInsert st.backrefs g })
      else .err (.invalidGroupNameBackref (re.extract a b).toList) ix := by
  unfold parseNamedBackref
  simp only [sliceFrom, hs, ↓reduceIte, Res.ok_bind, hid, hname, habs]
  have hpos : ((g : Int) ≥ 0) := by omega
  simp only [hpos, ↓reduceIte, Int.toNat_natCast, Option.filter]
  by_cases h2 : g < re.size / 2
  · simp [h2]
  · simp [h2]

-- the hypotheses are satisfiable: in `(a)(b)\k<-1>` the identifier at 9..11 is `-1`
example : parseId (fun c => c.isAlphanum) (bytesOf "(a)(b)\\k<-1>".toList) 8 [ch '<'] [ch '>'] true =
    .ok (some (9, 11, 4)) ∧
    parseIsize ((bytesOf "(a)(b)\\k<-1>".toList).extract 9 11).toList = some (-(1 : Nat) : Int) :=
  ⟨by rfl, by decide +kernel⟩

-- whole patterns: `\k<-1>` after two groups is `\2`, `\k<-2>` is `\1`; a name and its number;
-- `(?P=n)` and `\k<n>`; (`\2` also sets `numeric_backrefs`, which is not part of the tree)
example : parseStr (fun c => c.isAlphanum) "(a)(b)\\k<-1>\\k<-2>".toList false =
    parseStr (fun c => c.isAlphanum) "(a)(b)\\2\\1".toList false :=
  (isTree_sound (e := .concat [.group 0 (.literal ['a'] false), .group 0 (.literal ['b'] false),
    .backref 2, .backref 1]) (br := [1, 2]) (ng := []) (by decide +kernel)).trans
    (isTree_sound (by decide +kernel)).symm
example : parseStr (fun c => c.isAlphanum) "(?<n>a)\\k<n>(?P=n)\\k'n'".toList false =
    .ok ⟨.concat [.group 0 (.literal ['a'] false), .backref 1, .backref 1, .backref 1], [1],
      [([110], 1)]⟩ := isTree_sound (by decide +kernel)
example : parseStr (fun c => c.isAlphanum) "(?<n>a)\\k<n>".toList false =
    .ok ⟨.concat [.group 0 (.literal ['a'] false), .backref 1], [1], [([110], 1)]⟩ ∧
    parseStr (fun c => c.isAlphanum) "(a)\\1".toList false =
    .ok ⟨.concat [.group 0 (.literal ['a'] false), .backref 1], [1], []⟩ :=
  ⟨isTree_sound (by decide +kernel), isTree_sound (by decide +kernel)⟩
/-! ## 1. possessive quantifiers are atomic groups -/

/-- the quantifier `parse_piece` reads at the byte `b` at `ix`: `(lo, hi, index of its last byte)`,
    or none -/
def quantAt (re : Bytes) (fl : Flags) (ix b : Nat) : Res (Option (Nat × Nat × Nat)) :=
  if b == ch '?' then pure (some (0, 1, ix))
  else if b == ch '*' then pure (some (0, usizeMax, ix))
  else if b == ch '+' then pure (some (1, usizeMax, ix))
  else if b == ch '{' then
    match parseRepeat re fl ix with
    | .ok (next, lo, hi) =>
      if next == 0 then .panic "parse_piece: next - 1" else pure (some (lo, hi, next - 1))
    | .err _ _ => pure none
    | .cerr => pure none
    | .panic s => .panic s
    | .outOfFuel => .outOfFuel
  else pure none

/-- is the quantifier that ends before `ix3` followed by the lazy mark `?` -/
def lazyAt (re : Bytes) (ix3 : Nat) : Bool := decide (ix3 < re.size) && re[ix3]? == some (ch '?')

/-- the index after the optional lazy mark -/
def afterLazy (re : Bytes) (ix3 : Nat) : Nat := if lazyAt re ix3 then ix3 + 1 else ix3

/-- the node of a quantified atom -/
def repNode (re : Bytes) (st1 : PState) (child : Expr) (lo hi ix3 : Nat) : Expr :=
  .repeat child lo (hiOf hi) ((!lazyAt re ix3) ^^ st1.flags.swapGreed)

/-- `parse_piece` with the quantifier reading named -/
theorem parsePiece_eq (isAlnum : Char → Bool) (re : Bytes) (f : Nat) (st : PState) (ix d : Nat) :
    parsePiece isAlnum (f + 1) re st ix d = (do
      let (ix, child, st) ← parseAtom isAlnum f re st ix d
      let ix ← optWs re st.flags ix
      if ix < re.size then
        let b ← byteAt re ix "parse_piece: bytes[ix]"
        let q ← quantAt re st.flags ix b
        match q with
        | none => .ok (ix, child, st)
        | some (lo, hi, ix) =>
          if !isRepeatable child then .err .targetNotRepeatable ix
          else
            let ix ← optWs re st.flags (ix + 1)
            if re[afterLazy re ix]? = some (ch '+') then
              .ok (afterLazy re ix + 1, .atomic (repNode re st child lo hi ix), st)
            else .ok (afterLazy re ix, repNode re st child lo hi ix, st)
      else .ok (ix, child, st)) := by
  rw [parsePiece]
  congr 1; funext r
  obtain ⟨ix1, child, st1⟩ := r
  simp only
  congr 1; funext ix2
  split
  · congr 1; funext b
    unfold quantAt
    congr 1; funext q
    cases q with
    | none => rfl
    | some p =>
      obtain ⟨lo, hi, qe⟩ := p
      simp only
      split
      · rfl
      · congr 1; funext ix3
        have e : (decide (afterLazy re ix3 < re.size) && re[afterLazy re ix3]? == some (ch '+')) =
            decide (re[afterLazy re ix3]? = some (ch '+')) := by
          by_cases hp : re[afterLazy re ix3]? = some (ch '+')
          · have := lt_size_of_get hp
            rw [hp]; simp [this]
          · simp [hp]
        show (if (decide (afterLazy re ix3 < re.size) && re[afterLazy re ix3]? == some (ch '+')) = true
          then _ else _) = _
        rw [e]
        by_cases hp : re[afterLazy re ix3]? = some (ch '+')
        · simp only [hp, decide_true, ↓reduceIte]; rfl
        · simp only [hp, decide_false, Bool.false_eq_true, ↓reduceIte]; rfl
  · rfl

/-- **the quantifier-suffix handling of `parse_piece`**: after the atom `child` and a quantifier
    `(lo, hi)` whose last byte is at `qe`, an optional `?` makes it lazy (`afterLazy`), and then an
    optional `+` wraps **the very node the piece would otherwise be** (`repNode`) into
    `AtomicGroup` and consumes one more byte -/
theorem parsePiece_suffix (isAlnum : Char → Bool) {re : Bytes} {f : Nat} {st st1 : PState}
    {ix d ix1 ix2 b lo hi qe ix3 : Nat} {child : Expr}
    (ha : parseAtom isAlnum f re st ix d = .ok (ix1, child, st1))
    (hw : optWs re st1.flags ix1 = .ok ix2) (hb : re[ix2]? = some b)
    (hq : quantAt re st1.flags ix2 b = .ok (some (lo, hi, qe)))
    (hr : isRepeatable child = true)
    (hw3 : optWs re st1.flags (qe + 1) = .ok ix3) :
    parsePiece isAlnum (f + 1) re st ix d =
      if re[afterLazy re ix3]? = some (ch '+') then
        .ok (afterLazy re ix3 + 1, .atomic (repNode re st1 child lo hi ix3), st1)
      else .ok (afterLazy re ix3, repNode re st1 child lo hi ix3, st1) := by
  have hlt := lt_size_of_get hb
  rw [parsePiece_eq]
  simp only [ha, Res.ok_bind, hw, hlt, ↓reduceIte, byteAt, hb, hq, hr, Bool.not_true, Bool.false_eq_true,
    hw3]

/-- **C19_possessive_is_atomic**: with the atom `X` (`child`), a quantifier `q` (`*`, `+`, `?`,
    `{n,m}`; optionally lazy), then `+`: the piece `Xq+` is `AtomicGroup(node)`, where `node` is
    exactly the piece that `Xq` is when no `+` follows (`C19_not_possessive`), i.e. the body of
    `(?>Xq)` (`C19_atomic_group`) -/
theorem C19_possessive_is_atomic (isAlnum : Char → Bool) {re : Bytes} {f : Nat} {st st1 : PState}
    {ix d ix1 ix2 b lo hi qe ix3 : Nat} {child : Expr}
    (ha : parseAtom isAlnum f re st ix d = .ok (ix1, child, st1))
    (hw : optWs re st1.flags ix1 = .ok ix2) (hb : re[ix2]? = some b)
    (hq : quantAt re st1.flags ix2 b = .ok (some (lo, hi, qe)))
    (hr : isRepeatable child = true)
    (hw3 : optWs re st1.flags (qe + 1) = .ok ix3)
    (hplus : re[afterLazy re ix3]? = some (ch '+')) :
    parsePiece isAlnum (f + 1) re st ix d =
      .ok (afterLazy re ix3 + 1, .atomic (repNode re st1 child lo hi ix3), st1) := by
  rw [parsePiece_suffix isAlnum ha hw hb hq hr hw3, if_pos hplus]

theorem C19_not_possessive (isAlnum : Char → Bool) {re : Bytes} {f : Nat} {st st1 : PState}
    {ix d ix1 ix2 b lo hi qe ix3 : Nat} {child : Expr}
    (ha : parseAtom isAlnum f re st ix d = .ok (ix1, child, st1))
    (hw : optWs re st1.flags ix1 = .ok ix2) (hb : re[ix2]? = some b)
    (hq : quantAt re st1.flags ix2 b = .ok (some (lo, hi, qe)))
    (hr : isRepeatable child = true)
    (hw3 : optWs re st1.flags (qe + 1) = .ok ix3)
    (hplus : re[afterLazy re ix3]? ≠ some (ch '+')) :
    parsePiece isAlnum (f + 1) re st ix d =
      .ok (afterLazy re ix3, repNode re st1 child lo hi ix3, st1) := by
  rw [parsePiece_suffix isAlnum ha hw hb hq hr hw3, if_neg hplus]

/-- the four quantifiers -/
theorem quantAt_star (re : Bytes) (fl : Flags) (ix : Nat) :
    quantAt re fl ix (ch '*') = .ok (some (0, usizeMax, ix)) := by simp [quantAt, ch]; rfl
theorem quantAt_plus (re : Bytes) (fl : Flags) (ix : Nat) :
    quantAt re fl ix (ch '+') = .ok (some (1, usizeMax, ix)) := by simp [quantAt, ch]; rfl
theorem quantAt_opt (re : Bytes) (fl : Flags) (ix : Nat) :
    quantAt re fl ix (ch '?') = .ok (some (0, 1, ix)) := by simp [quantAt, ch]; rfl
theorem quantAt_brace {re : Bytes} {fl : Flags} {ix next lo hi : Nat}
    (h : parseRepeat re fl ix = .ok (next, lo, hi)) (hn : next ≠ 0) :
    quantAt re fl ix (ch '{') = .ok (some (lo, hi, next - 1)) := by
  have : (next == 0) = false := by simpa using hn
  simp [quantAt, ch, h, this]; rfl

/-- `(?>Y)`: `parse_group` at the `(` parses `Y` with `parse_re` one level deeper, expects the `)`,
    and wraps the tree of `Y` into `AtomicGroup` — for every flag state -/
theorem C19_atomic_group (isAlnum : Char → Bool) {re : Bytes} (f : Nat) (st : PState) {ix : Nat} (d : Nat)
    (h1 : re[ix + 1]? = some (ch '?')) (h2 : re[ix + 2]? = some (ch '>')) :
    parseGroup isAlnum (f + 1) re st ix d =
      if d + 1 ≥ Generated.maxRecursion then .err .recursionExceeded ix
      else (do
        let (ix2, child, st2) ← parseRe isAlnum f re st (ix + 3) (d + 1)
        let ix3 ← checkForCloseParen re st2.flags ix2
        .ok (ix3, .atomic child, st2)) := by
  have hws : optWs re st.flags (ix + 1) = .ok (ix + 1) := by
    rw [optWs_step h1]
    have e1 : (ch '?' == ch '#') = false := by decide
    have e2 : (ch '?' == ch ' ' || ch '?' == ch '\r' || ch '?' == ch '\n' || ch '?' == ch '\t') = false := by
      decide
    have e3 : (ch '?' == ch '(') = false := by decide
    simp only [e1, e2, e3, Bool.false_and, Bool.false_eq_true, ↓reduceIte]
  have hb : isBoundary re (ix + 1) = true := isBoundary_of_ascii h1 (by decide)
  rw [parseGroup]
  by_cases hd : d + 1 ≥ Generated.maxRecursion
  · simp only [hd, ↓reduceIte]
  · have e1 : ch '>' ≠ ch '=' := by decide
    have e2 : ch '>' ≠ ch '!' := by decide
    have e3 : ch '>' ≠ ch '<' := by decide
    have e4 : ch '>' ≠ ch 'P' := by decide
    simp [hd, hws, sliceFrom, sliceFromOk, hb, lookOf, startsWithAt, h1, h2, e1, e2, e3, e4]

-- the hypotheses are satisfiable: `a*+` (atom `a` ends at 1, `*` at 1, `+` at 2)
example : parsePiece (fun c => c.isAlphanum) 3 (bytesOf "a*+".toList) {} 0 0 =
    .ok (3, .atomic (.repeat (.literal ['a'] false) 0 none true), {}) :=
  isOk3_sound (by decide +kernel)

-- whole patterns: `X*+`, `X++`, `X?+`, `X{n,m}+`, and a lazy possessive, against `(?>…)`
example : parseStr (fun c => c.isAlphanum) "a*+b++c?+d{1,2}+e*?+".toList false =
    parseStr (fun c => c.isAlphanum) "(?>a*)(?>b+)(?>c?)(?>d{1,2})(?>e*?)".toList false :=
  (isTree_sound (e := .concat [.atomic (.repeat (.literal ['a'] false) 0 none true),
    .atomic (.repeat (.literal ['b'] false) 1 none true),
    .atomic (.repeat (.literal ['c'] false) 0 (some 1) true),
    .atomic (.repeat (.literal ['d'] false) 1 (some 2) true),
    .atomic (.repeat (.literal ['e'] false) 0 none false)]) (br := []) (ng := [])
    (by decide +kernel)).trans (isTree_sound (by decide +kernel)).symm
end Fancy.Parse
