import FancyModel.Lemmas.Atomize
import FancyModel.Proofs.C01e
/-!
# C01g — stage S4: the delegated runs of the top-level concatenation may own capture groups

Stage S3 (`s3ok`) keeps a pattern outside the proved stage when an easy constant-size prefix / suffix run
of a concatenation — compiled to ONE `Delegate`, which yields only the first result of the run — owns
capture groups and is not linear: `(?:\w(a)|\d(b))(?=c)`, `((a)|a)\b`. Stage S4 accepts such runs in the
concatenation at the TOP of the pattern:

* machine half (`Lemmas/SimCompile4.lean`, `sim4_wrapped`): the compiled code simulates the semantics of
  the tree with those runs wrapped in atomic groups (`wrapA`), since `Delegate es` simulates
  `firstOnly (semConcat c es ·)` under every continuation;
* semantic half (`Lemmas/Atomize.lean`, `concatA_head`): the atomized tree has the same first result as
  the original one when the rest of the pattern does not touch the own groups of the atomized prefix run
  (`unrefOK`; the suffix run is last, nothing is asked of it) — by obliviousness of `sem` for ARBITRARY
  expressions (`sem_agr`) and the fact that all results of a constant-size run are at one position and
  differ only in the run's own groups;
* here: `big2_s4` (the structured machine reaches the reference answer), `C01_vm_correct_s4`
  (= the statement of `C01_vm_correct_s3` with `s4ok`), `s4ok_of_s3ok` (S4 ⊇ S3), the consequences
  (`C05_no_panic_s4`, `C07_terminates_s4`), and examples.

NOT covered (left): such runs below the top-level concatenation (inside groups, alternations, loops,
look-arounds); there the semantic half needs the domination argument over result lists.
-/
namespace Fancy

theorem s4ok_of_s3ok (br : Nat → Bool) (raw : Expr) (h : s3ok br raw true = true) : s4ok br raw = true := by
  simp [s4ok, h]

/-- the atomized wrapped pattern and the wrapped pattern have the same first result -/
theorem wrapA_head (c : Ctx) (br : Nat → Bool) (es : List Expr) (nG : Nat) (hlen : c.len < UNSET)
    (hpos : c.pos ≤ c.len) (hw : wellShapedAll es = true) (hz : noBareEndZAll es = true)
    (hu : unrefOK br es = true) :
    (sem c (wrapA br es) ⟨c.pos, initSlots nG⟩).head? =
      (sem c (.concat [.repeat (.any true) 0 none false, .group 0 (.concat es)]) ⟨c.pos, initSlots nG⟩).head? := by
  unfold wrapA
  rw [sem_wrapped_head c (concatA br es) nG hpos, sem_wrapped_head c (.concat es) nG hpos]
  have hks : ∀ k ∈ List.range (c.len - c.pos + 1), c.pos + k ≤ c.len := by
    intro k hk'; have := List.mem_range.mp hk'; omega
  generalize (List.range (c.len - c.pos + 1)) = ks at hks
  induction ks with
  | nil => rfl
  | cons k ks ih =>
    have hk' := hks k (by simp)
    have h0 : (⟨c.pos + k, initSlots nG⟩ : St).Good c (2 * nG) :=
      ⟨hk', by simp [initSlots], by intro v hv; simp [initSlots] at hv⟩
    have hgood : (⟨c.pos + k, (initSlots nG).set 0 (some (c.pos + k))⟩ : St).Good c (2 * nG) :=
      h0.setSlot 0 (c.pos + k) hk'
    simp only [List.findSome?_cons]
    rw [concatA_head c (2 * nG) br es hlen hw hz hu _ hgood]
    rw [ih (fun k' hk'' => hks k' (List.mem_cons_of_mem _ hk''))]

/-- **the structured machine reaches the reference answer, stage S4** (the new case: a top-level
    concatenation) -/
theorem big2_s4_concat (tree : Expr) (backrefs : List Nat) (b : Built) (prog : Prog) (c : Ctx)
    (hb : build tree backrefs = .ok b) (hk : b.kind = .fancy prog) (es : List Expr) (hraw : b.raw = .concat es)
    (hokAll : s3okAll (fun g => backrefs.contains g) es = true) (hzAll : noBareEndZAll es = true)
    (hu : unrefOK (fun g => backrefs.contains g) es = true)
    (hws : wellShaped b.raw = true) (hlen : c.len < UNSET) (hpos : c.pos ≤ c.len) :
    Big2 c prog.body prog.nSaves (.run 0 c.pos (List.replicate prog.nSaves UNSET) [] []) (refAns c b) := by
  obtain ⟨hw, hwr, hchk, hhard, hcomp⟩ := build_fancy tree backrefs b prog hb hk
  generalize (fun g => backrefs.contains g) = br at hhard hcomp hokAll hu
  unfold compile at hcomp
  have hgc : groupCount b.wrapped = b.nGroups := by
    have := checkRefs_count _ _ _ hchk; omega
  simp only [hgc] at hcomp
  cases hv : visit br b.wrapped false 0 (b.nGroups * 2) 0 with
  | error e => simp [hv] at hcomp
  | ok p =>
    obtain ⟨code, nsv⟩ := p
    simp only [hv, Except.ok.injEq] at hcomp
    subst hcomp
    have hn0 : 0 < b.nGroups := by
      rw [hw] at hgc; simp only [groupCount, groupCountList] at hgc; omega
    rw [hraw] at hw hhard hws
    have h3 : H3 (2 * b.nGroups) b.wrapped 0 := by
      refine ⟨?_, ?_, ?_, by omega⟩
      · rw [hw]; simp [wellShaped, wellShapedAll] at hws ⊢; exact hws
      · have := slotsBelow_renumber b.nGroups hn0 (wrapTree tree) 0 b.nGroups (by rw [← hwr]; exact hchk) (Nat.le_refl _)
        rw [← hwr] at this; exact this
      · rw [hwr]; exact numbered_renumber _ _
    rw [hw] at h3 hv
    have hcode : CodeAt (code ++ [Insn.end_]) 0 code := ⟨[], [Insn.end_], by simp, rfl⟩
    obtain ⟨hle, hsim⟩ := sim4_wrapped c (2 * b.nGroups) nsv br hlen es 0 (b.nGroups * 2) code nsv
      (code ++ [Insn.end_]) hhard hokAll hzAll h3 hv hcode (by omega)
    have hsim := hsim (Nat.le_refl _)
    have hst0 : (⟨c.pos, initSlots b.nGroups⟩ : St).Good c (2 * b.nGroups) :=
      ⟨hpos, by simp [initSlots], by intro v hv; simp [initSlots] at hv⟩
    have hend : (code ++ [Insn.end_])[code.length]? = some Insn.end_ := by simp
    have hbig := hsim.apply_all ⟨c.pos, initSlots b.nGroups⟩ (List.replicate (nsv - 2 * b.nGroups) UNSET) [] []
      (fun r _ => .matched (capSaves (unview r.slots) c.pos)) .noMatch hst0 (by simp; omega)
      (by simpa [SuccOK] using Commit.const (fun r => Ans.matched (capSaves (unview r.slots) c.pos))) Big2.failEmpty
      (by
        intro r hr aux' junk S acc hag _ _ _
        have hrg := sem_good c _ _ _ r hst0 hr
        have hl' : (unview r.slots ++ aux').length = nsv := by
          simp only [List.length_append, unview_length, hrg.len, hag.1, List.length_replicate]; omega
        have := Big2.done (c := c) (prog := code ++ [Insn.end_]) (nS := nsv) (0 + code.length) r.ix (unview r.slots ++ aux')
          (junk ++ []) (S ++ []) (2 * b.nGroups) (by simpa using hend) (by omega) (by omega) hl'
        rw [capSaves_take _ _ _ (by omega) (by rw [hl']; omega)] at this
        have htk : (unview r.slots ++ aux').take (2 * b.nGroups) = unview r.slots := by
          rw [List.take_append_of_le_length (by simp [hrg.len])]
          exact List.take_of_length_le (by simp [hrg.len])
        rw [htk] at this
        simpa using this)
    have huv : unview (initSlots b.nGroups) ++ List.replicate (nsv - 2 * b.nGroups) UNSET = List.replicate nsv UNSET := by
      have : unview (initSlots b.nGroups) = List.replicate (2 * b.nGroups) UNSET := by simp [unview, initSlots]
      rw [this, List.replicate_append_replicate]; congr 1; omega
    simp only [huv] at hbig
    have hfold : ∀ (l : List St), l.foldr (fun r (_ : Ans) => Ans.matched (capSaves (unview r.slots) c.pos)) .noMatch =
        match l.head? with
        | some r => .matched (capSaves (unview r.slots) c.pos)
        | none => .noMatch := by
      intro l; cases l <;> rfl
    rw [hfold] at hbig
    have hwsAll : wellShapedAll es = true := by simpa [wellShaped] using hws
    rw [wrapA_head c br es b.nGroups hlen hpos hwsAll hzAll hu] at hbig
    unfold refAns
    rw [hw]
    exact hbig

/-- **the structured machine reaches the reference answer, stage S4** -/
theorem big2_s4 (tree : Expr) (backrefs : List Nat) (b : Built) (prog : Prog) (c : Ctx)
    (hb : build tree backrefs = .ok b) (hk : b.kind = .fancy prog)
    (hok : s4ok (fun g => backrefs.contains g) b.raw = true) (hws : wellShaped b.raw = true)
    (hz : noBareEndZ b.raw = true) (hlen : c.len < UNSET) (hpos : c.pos ≤ c.len) :
    Big2 c prog.body prog.nSaves (.run 0 c.pos (List.replicate prog.nSaves UNSET) [] []) (refAns c b) := by
  unfold s4ok at hok
  rcases (Bool.or_eq_true _ _).mp hok with h | h
  · exact big2_s3 tree backrefs b prog c hb hk h hws hz hlen hpos
  · cases hraw : b.raw with
    | concat es =>
      rw [hraw] at h
      simp only [Bool.and_eq_true] at h
      exact big2_s4_concat tree backrefs b prog c hb hk es hraw h.1.1 h.1.2 h.2 hws hlen hpos
    | _ => rw [hraw] at h; simp at h

/-- **C01 (and C02, C15), stage S4**: the statement of `C01_vm_correct_s3` for the larger stage -/
theorem C01_vm_correct_s4 (tree : Expr) (backrefs : List Nat) (b : Built) (prog : Prog) (c : Ctx)
    (hb : build tree backrefs = .ok b) (hk : b.kind = .fancy prog)
    (hok : s4ok (fun g => backrefs.contains g) b.raw = true) (hws : wellShaped b.raw = true)
    (hz : noBareEndZ b.raw = true) (hlen : c.len < UNSET) (hpos : c.pos ≤ c.len) : VmCorrectR b c := by
  intro limit fuel
  have hbig := big2_s4 tree backrefs b prog c hb hk hok hws hz hlen hpos
  have hgood := link2_initial c prog ⟨limit, maxStackDefault⟩
    (delegOK_of_prog c prog.body prog.nSaves (build_progDelegOK tree backrefs b prog hb hk)) _ hbig fuel
  obtain ⟨href, hlensl⟩ := refAns_eq tree backrefs b prog c hb hk hlen hpos
  unfold Built.captures
  simp only [hk]
  unfold Good2 at hgood
  generalize run c prog ⟨limit, maxStackDefault⟩ fuel = res at hgood ⊢
  obtain ⟨out, stats⟩ := res
  simp only at hgood
  rcases hgood with h | h | h | h
  · left; subst h; rfl
  · right; left; subst h; rfl
  · right; right; left; subst h; rfl
  · right; right; right
    refine Eq.trans ?_ href
    cases hra : refAns c b with
    | noMatch => simp only [hra] at h; subst h; rfl
    | matched sl =>
      simp only [hra] at h
      obtain ⟨saves, rfl, hsv⟩ := h
      have := hlensl sl hra
      rw [this] at hsv
      simp only
      rw [← hsv]
      simp [viewSlots, List.map_take]

/-- **C05, stage S4: the search never panics** -/
theorem C05_no_panic_s4 (tree : Expr) (backrefs : List Nat) (b : Built) (prog : Prog) (c : Ctx)
    (hb : build tree backrefs = .ok b) (hk : b.kind = .fancy prog)
    (hok : s4ok (fun g => backrefs.contains g) b.raw = true) (hws : wellShaped b.raw = true)
    (hz : noBareEndZ b.raw = true) (hlen : c.len < UNSET) (hpos : c.pos ≤ c.len) (limit fuel : Nat) (site : String) :
    (b.captures c limit fuel).1 ≠ .panic site :=
  VmCorrectR_not_panic (C01_vm_correct_s4 tree backrefs b prog c hb hk hok hws hz hlen hpos) limit fuel site

/-- **C07, stage S4: the search terminates** -/
theorem C07_terminates_s4 (tree : Expr) (backrefs : List Nat) (b : Built) (prog : Prog) (c : Ctx)
    (hb : build tree backrefs = .ok b) (hk : b.kind = .fancy prog)
    (hok : s4ok (fun g => backrefs.contains g) b.raw = true) (hws : wellShaped b.raw = true)
    (hz : noBareEndZ b.raw = true) (hlen : c.len < UNSET) (hpos : c.pos ≤ c.len) (limit : Nat) :
    ∃ N, ∀ fuel, N ≤ fuel → (b.captures c limit fuel).1 ≠ .outOfFuel := by
  have hbig := big2_s4 tree backrefs b prog c hb hk hok hws hz hlen hpos
  obtain ⟨N, hN⟩ := link2_initial_terminates c prog ⟨limit, maxStackDefault⟩
    (delegOK_of_prog c prog.body prog.nSaves (build_progDelegOK tree backrefs b prog hb hk)) _ hbig
  refine ⟨N, fun fuel hf => ?_⟩
  have := hN fuel hf
  unfold Built.captures
  simp only [hk]
  generalize run c prog ⟨limit, maxStackDefault⟩ fuel = res at this ⊢
  obtain ⟨out, stats⟩ := res
  cases out <;> simp_all

/-! ### the decidable stage, the from-the-string form -/

/-- the decidable side conditions of `C01_vm_correct_s4` (what the driver prints as `s4=`) -/
def s4Stage (tree : Expr) (backrefs : List Nat) : Bool :=
  match build tree backrefs with
  | .ok b => (match b.kind with
    | .fancy _ => s4ok (fun g => backrefs.contains g) b.raw && wellShaped b.raw && noBareEndZ b.raw
    | .wrap => false)
  | .error _ => false

theorem s4Stage_spec (tree : Expr) (backrefs : List Nat) (h : s4Stage tree backrefs = true) :
    ∃ b prog, build tree backrefs = .ok b ∧ b.kind = .fancy prog ∧
      s4ok (fun g => backrefs.contains g) b.raw = true ∧ wellShaped b.raw = true ∧ noBareEndZ b.raw = true := by
  unfold s4Stage at h
  cases hb : build tree backrefs with
  | error e => simp [hb] at h
  | ok b =>
    simp only [hb] at h
    cases hk : b.kind with
    | wrap => simp [hk] at h
    | fancy prog =>
      simp only [hk, Bool.and_eq_true] at h
      exact ⟨b, prog, rfl, hk, h.1.1, h.1.2, h.2⟩

/-- S4 ⊇ S3 at the level of the decidable stages -/
theorem s4Stage_of_s3Stage (tree : Expr) (backrefs : List Nat) (h : s3Stage tree backrefs = true) :
    s4Stage tree backrefs = true := by
  obtain ⟨b, prog, hb, hk, hok, hws, hz, _⟩ := s3Stage_spec tree backrefs h
  have h4 := s4ok_of_s3ok _ _ hok
  simp only [s4Stage, hb, hk, h4, hws, hz, Bool.and_self]

/-- the form the driver checks per pattern -/
theorem C01_checked_s4 (tree : Expr) (backrefs : List Nat) (h : s4Stage tree backrefs = true) (c : Ctx)
    (hlen : c.len < UNSET) (hpos : c.pos ≤ c.len) :
    ∃ b, build tree backrefs = .ok b ∧ VmCorrectR b c := by
  obtain ⟨b, prog, hb, hk, hok, hws, hz⟩ := s4Stage_spec tree backrefs h
  exact ⟨b, hb, C01_vm_correct_s4 tree backrefs b prog c hb hk hok hws hz hlen hpos⟩

/-- stage S4 for a parsed pattern -/
def s4Pattern (t : Parse.Tree) (b : Built) : Bool :=
  s4ok (fun g => t.backrefs.contains g) b.raw && noBareEndZ t.expr

/-- **from the pattern string** (the form of `C01_pipeline_s3`) -/
theorem C01_pipeline_s4 (isAlnum : Char → Bool) (cs : List Char) (casei : Bool) (t : Parse.Tree) (b : Built)
    (prog : Prog) (c : Ctx)
    (hp : Parse.parseStr isAlnum cs casei = .ok t) (hb : build t.expr t.backrefs = .ok b)
    (hk : b.kind = .fancy prog) (hst : s4Pattern t b = true)
    (hlen : c.len < UNSET) (hpos : c.pos ≤ c.len) : VmCorrectR b c := by
  simp only [s4Pattern, Bool.and_eq_true] at hst
  exact C01_vm_correct_s4 t.expr t.backrefs b prog c hb hk hst.1
    (Parse.parse_build_wellShaped isAlnum cs casei t b hp hb).2
    (build_raw_noBareEndZ t.expr t.backrefs b hb hst.2) hlen hpos

/-! ### Examples -/

/-- `(?:x(a)|y(b))(?=c)`: the easy prefix `(?:x(a)|y(b))` owns two groups and is not linear -/
def ex4a : Expr := .concat [.alt [.concat [.literal ['x'] false, .group 0 (.literal ['a'] false)],
  .concat [.literal ['y'] false, .group 0 (.literal ['b'] false)]], .look (.literal ['c'] false) .ahead]

/-- `((a)|a)\b`: the easy prefix `((a)|a)` owns two groups, its alternatives write different ones -/
def ex4b : Expr :=
  .concat [.group 0 (.alt [.group 0 (.literal ['a'] false), .literal ['a'] false]), .assertion .wordB]

/-- `(?:x(a)|y(b))\2` -/
def ex4c : Expr := .concat [.alt [.concat [.literal ['x'] false, .group 0 (.literal ['a'] false)],
  .concat [.literal ['y'] false, .group 0 (.literal ['b'] false)]], .backref 2]

set_option linter.unusedSimpArgs false in
/-- in stage S4, not in stage S3 -/
theorem ex4a_stage : s4Stage ex4a [] = true ∧ s3Stage ex4a [] = false := by
  constructor <;>
  simp [s4Stage, s3Stage, s4ok, unrefOK, untouched, untouchedAll, ownSlotsS, ownSlotsListS, linearE, linearAll, build, ex4a,
    wrapTree, renumber, renumberList, checkRefs, checkRefsList, isHard, isHardAny,
    compile, visit, visitMiddle, visitAlt, concatSplit, groupCount, groupCountList, constSize, constSizeAll, minSize, minSizeMin,
    minSizeSum, allMinSize, compileDelegates, compileDelegate, isLiteral, isLiteralAll, s3ok, s3okAll, s3okAlts, condFree, condFreeAll,
    boundsEq, satMul, satAdd, sureReps, UNSET, Assertion.isHard, wrapPosLook, posLookBodyPc, pushLiteral, wellShaped, wellShapedAll,
    noBareEndZ, noBareEndZAll, slotsBelow, slotsBelowAll, progDelegOK]

set_option linter.unusedSimpArgs false in
theorem ex4b_stage : s4Stage ex4b [] = true ∧ s3Stage ex4b [] = false := by
  constructor <;>
  simp [s4Stage, s3Stage, s4ok, unrefOK, untouched, untouchedAll, ownSlotsS, ownSlotsListS, linearE, linearAll, build, ex4b,
    wrapTree, renumber, renumberList, checkRefs, checkRefsList, isHard, isHardAny,
    compile, visit, visitMiddle, visitAlt, concatSplit, groupCount, groupCountList, constSize, constSizeAll, minSize, minSizeMin,
    minSizeSum, allMinSize, compileDelegates, compileDelegate, isLiteral, isLiteralAll, s3ok, s3okAll, s3okAlts, condFree, condFreeAll,
    boundsEq, satMul, satAdd, sureReps, UNSET, Assertion.isHard, wrapPosLook, posLookBodyPc, pushLiteral, wellShaped, wellShapedAll,
    noBareEndZ, noBareEndZAll, slotsBelow, slotsBelowAll, progDelegOK]

/-- the engine theorem for the two patterns, every text, start position, limit and fuel -/
example (c : Ctx) (hlen : c.len < UNSET) (hpos : c.pos ≤ c.len) : ∃ b, build ex4a [] = .ok b ∧ VmCorrectR b c :=
  C01_checked_s4 ex4a [] ex4a_stage.1 c hlen hpos

example (c : Ctx) (hlen : c.len < UNSET) (hpos : c.pos ≤ c.len) : ∃ b, build ex4b [] = .ok b ∧ VmCorrectR b c :=
  C01_checked_s4 ex4b [] ex4b_stage.1 c hlen hpos

set_option linter.unusedSimpArgs false in
/-- how the predicates classify `(?:x(a)|y(b))\2`: with an (inconsistent) empty back-reference set the
    prefix would be delegated although group 2 is read afterwards — `unrefOK` fails, the pattern is outside
    S4 (and S3); with the real set `[2]` group 2 makes the prefix hard, it is compiled for the VM, and the
    pattern is in stage S3 already -/
theorem ex4c_stage : s4Stage ex4c [] = false ∧ s3Stage ex4c [2] = true ∧ s4Stage ex4c [2] = true := by
  refine ⟨?_, ?_, ?_⟩ <;>
  simp [s4Stage, s3Stage, s4ok, unrefOK, untouched, untouchedAll, ownSlotsS, ownSlotsListS, linearE, linearAll, build, ex4c,
    wrapTree, renumber, renumberList, checkRefs, checkRefsList, isHard, isHardAny,
    compile, visit, visitMiddle, visitAlt, concatSplit, groupCount, groupCountList, constSize, constSizeAll, minSize, minSizeMin,
    minSizeSum, allMinSize, compileDelegates, compileDelegate, isLiteral, isLiteralAll, s3ok, s3okAll, s3okAlts, condFree, condFreeAll,
    boundsEq, satMul, satAdd, sureReps, UNSET, Assertion.isHard, wrapPosLook, posLookBodyPc, pushLiteral, wellShaped, wellShapedAll,
    noBareEndZ, noBareEndZAll, slotsBelow, slotsBelowAll, progDelegOK]

end Fancy
