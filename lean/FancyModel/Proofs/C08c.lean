import FancyModel.Driver.ApiOps
import FancyModel.Proofs.C01e
import FancyModel.Proofs.C05c
import FancyModel.Proofs.C08b
import FancyModel.Proofs.C09
import FancyModel.Proofs.C10
/-!
# C08c — `find_iter` / `captures_iter` / `split` from the engine down: the API layer over the
model engine yields the iteration of the REFERENCE search

Two layers were proved separately: (E) the engine — `VmCorrectR b c`: `Built.captures` is the
reference search `refSearch` up to the three resource stops (a theorem on the hand-off path and for
every pattern of stage S3) — and (A) the API state machines of `Model/Api.lean` over an ABSTRACT
well-formed oracle (`C08_eq_spec…`, `C10_pieces`, …). The glue between them (character indices ↔
byte offsets, `modelOracle`, `spanOracle`) existed only in the driver (`Driver/ApiOps.lean`). This
file composes them:

* `refCapsOracle` / `refSpanOracle` — the reference search as an oracle over BYTE positions;
* `C09_engine_agrees` / `C08_engine_agrees` / `C08_engine_errors` — under (E) an `Ok` answer of the
  driver's engine oracle is the reference answer, an `Err` answer is a resource stop;
* `C09_ref_wf` / `C08_ref_wf` / `C08_engine_wf` — the reference oracle (hence the engine's) is
  well-formed (`WFOracle`: `pos ≤ start ≤ end ≤ len` in bytes);
* `C08_find_iter_is_reference`, `C09_captures_iter_is_reference`, `C10_split_is_reference`
  (`C10_split_pieces_engine`) — the composition;
* `…_wrap`, `…_s3`, `…_s3_tree`, `…_driver` — (E) discharged: hand-off path / stage S3 from the
  pattern string / from the tree / on the driver's own `mkText`, `modelOracle`, `driverFuel`.

`modelOracleF` is `Drv.modelOracle` with the engine fuel as a parameter (`modelOracle_eq : … = …
driverFuel`, by `rfl`). The text is any byte list of the UTF-8 length of `chars` (`byteLen`); the
driver's `bytesOf s` has that length for `chars = s.toList` (`bytesOf_length`).
-/
namespace Fancy.Api
open Fancy Fancy.Drv Fancy.Utf8 Fancy.ApiSpec

/-! ### The byte layer of the driver glue: `offsets`, `charIndexOf`, `bytesOf` -/


def boff (cs : List Char) (k : Nat) : Nat := ((cs.take k).map Char.utf8Size).sum
def byteLen (cs : List Char) : Nat := (cs.map Char.utf8Size).sum

theorem boff_zero (cs : List Char) : boff cs 0 = 0 := by simp [boff]
theorem boff_cons_succ (c : Char) (cs : List Char) (k : Nat) :
    boff (c :: cs) (k + 1) = c.utf8Size + boff cs k := by simp [boff]
theorem boff_length (cs : List Char) : boff cs cs.length = byteLen cs := by simp [boff, byteLen]

theorem boff_mono (cs : List Char) (i j : Nat) (h : i ≤ j) : boff cs i ≤ boff cs j := by
  obtain ⟨d, rfl⟩ : ∃ d, j = i + d := ⟨j - i, by omega⟩
  unfold boff
  rw [List.take_add, List.map_append, List.sum_append]
  omega

theorem boff_le_byteLen (cs : List Char) (k : Nat) (hk : k ≤ cs.length) : boff cs k ≤ byteLen cs := by
  rw [← boff_length]; exact boff_mono cs k _ hk

theorem offsets_fold_toList (cs : List Char) (arr : Array Nat) (n : Nat) :
    (cs.foldl (fun (acc : Array Nat × Nat) ch => (acc.1.push (acc.2 + ch.utf8Size), acc.2 + ch.utf8Size))
      (arr, n)).1.toList = arr.toList ++ (List.range cs.length).map (fun j => n + boff cs (j + 1)) := by
  induction cs generalizing arr n with
  | nil => simp
  | cons c cs ih =>
    rw [List.foldl_cons, ih]
    simp only [Array.toList_push, List.length_cons, List.append_assoc, List.singleton_append]
    congr 1
    rw [List.range_succ_eq_map, List.map_cons, List.map_map]
    congr 1
    · simp [boff]
      intro a _; omega

theorem offsets_toList (cs : List Char) :
    (offsets cs).toList = (List.range (cs.length + 1)).map (boff cs) := by
  unfold offsets
  rw [offsets_fold_toList, List.range_succ_eq_map, List.map_cons, List.map_map]
  simp [boff_zero, Function.comp]

theorem offsets_getElem? (cs : List Char) (k : Nat) :
    (offsets cs)[k]? = if k ≤ cs.length then some (boff cs k) else none := by
  rw [← Array.getElem?_toList, offsets_toList, List.getElem?_map]
  by_cases h : k ≤ cs.length
  · rw [List.getElem?_range (by omega)]; simp [h]
  · rw [List.getElem?_eq_none (by simp; omega)]; simp [h]

theorem offsets_getD (cs : List Char) (k : Nat) (hk : k ≤ cs.length) :
    (offsets cs).getD k 0 = boff cs k := by
  rw [Array.getD_eq_getD_getElem?, offsets_getElem?]; simp [hk]

theorem charIndexOf_some (cs : List Char) (pos k : Nat) (h : charIndexOf (offsets cs) pos = some k) :
    k ≤ cs.length ∧ boff cs k = pos := by
  unfold charIndexOf at h
  rw [List.findIdx?_eq_some_iff_getElem] at h
  obtain ⟨hk, hp, _⟩ := h
  have hk' : k ≤ cs.length := by
    rw [offsets_toList] at hk; simp at hk; omega
  refine ⟨hk', ?_⟩
  have : (offsets cs).toList[k]? = some (boff cs k) := by
    rw [Array.getElem?_toList, offsets_getElem?]; simp [hk']
  rw [List.getElem?_eq_getElem hk] at this
  simp only [Option.some.injEq] at this
  rw [this] at hp
  simpa using hp


theorem ba_loop_length (bs : ByteArray) (i : Nat) (r : List UInt8) (hi : i ≤ bs.size) :
    (ByteArray.toList.loop bs i r).length = r.length + (bs.size - i) := by
  induction h : bs.size - i generalizing i r with
  | zero =>
    unfold ByteArray.toList.loop
    have : ¬ i < bs.size := by omega
    simp [this]
  | succ n ih =>
    unfold ByteArray.toList.loop
    have : i < bs.size := by omega
    simp only [this, if_true]
    rw [ih (i + 1) _ (by omega) (by omega)]
    simp; omega

theorem ba_toList_length (bs : ByteArray) : bs.toList.length = bs.size := by
  unfold ByteArray.toList
  rw [ba_loop_length bs 0 [] (Nat.zero_le _)]; simp

theorem flatMap_enc_length (l : List Char) :
    (l.flatMap String.utf8EncodeChar).length = (l.map Char.utf8Size).sum := by
  induction l with
  | nil => rfl
  | cons c cs ih => simp [List.flatMap_cons, ih]

theorem bytesOf_length (s : String) : (bytesOf s).length = byteLen s.toList := by
  unfold bytesOf
  rw [List.length_map, String.toUTF8, ← String.utf8Encode_toList, ba_toList_length]
  simp [List.utf8Encode, byteLen]

/-! ### facts about `build` -/

theorem build_nGroups_pos (tree : Expr) (backrefs : List Nat) (b : Built) (h : build tree backrefs = .ok b) :
    1 ≤ b.nGroups := by
  unfold build at h
  simp only at h
  cases hc : checkRefs (renumber (wrapTree tree) 0).1 0 with
  | error e => simp [hc] at h
  | ok n =>
    simp only [hc] at h
    have hshape : (renumber (wrapTree tree) 0).1 =
        .concat [.repeat (.any true) 0 none false, .group 0 (renumber tree 1).1] := by
      simp [wrapTree, renumber, renumberList]
    rw [hshape] at h hc
    have hn := checkRefs_count _ _ _ hc
    simp only [groupCount, groupCountList] at hn
    simp only at h
    split at h
    · cases h; simp only; omega
    · split at h
      · cases h
      · cases h; simp only; omega

/-! ### The two oracles: the engine, and the reference search, over byte positions -/

/-- `Drv.modelOracle` with the engine fuel as a parameter (the theorems hold for every fuel) -/
def modelOracleF (b : Built) (chars : List Char) (off : Array Nat) (limit fuel : Nat) :
    Oracle (List (Option Nat)) := fun pos flag =>
  match charIndexOf off pos with
  | none => .ok none
  | some cpos =>
    match (b.captures (mkCtx chars cpos flag) limit fuel).1 with
    | .found slots => .ok (some (slotsToBytes off slots))
    | .noMatch => .ok none
    | .errLimit => .error .limit
    | .errStack => .error .stack
    | .panic _ => .error .panicked
    | .outOfFuel => .error .outOfFuel

/-- the driver's oracle is the instance with the driver's fuel -/
theorem modelOracle_eq (b : Built) (chars : List Char) (off : Array Nat) (limit : Nat) :
    modelOracle b chars off limit = modelOracleF b chars off limit driverFuel := rfl

/-- the REFERENCE search as a captures oracle over byte positions: at a byte position that is a
    character boundary of `chars`, `refSearch` in the context the driver builds (`mkCtx`: the text,
    the character index of the position, the skipped-empty-match flag, the modelled tables), every
    slot converted to its byte offset; no match off a boundary (as `modelOracle`) -/
def refCapsOracle (b : Built) (chars : List Char) : Nat → Bool → Option (List (Option Nat)) :=
  fun pos flag =>
    match charIndexOf (offsets chars) pos with
    | none => none
    | some cpos =>
      match refSearch (mkCtx chars cpos flag) b.raw b.nGroups with
      | some f => some (slotsToBytes (offsets chars) f.slots)
      | none => none

/-- … and its overall span (slots 0 and 1) -/
def refSpanOracle (b : Built) (chars : List Char) : Nat → Bool → Option (Nat × Nat) :=
  fun pos flag => (refCapsOracle b chars pos flag).map spanOfSlots

/-- the engine hypothesis (E): the engine is the reference search up to the three resource stops, in
    every context the oracle can build (the character index of a boundary is `≤ chars.length`) -/
def EngineOK (b : Built) (chars : List Char) : Prop :=
  ∀ cpos flag, cpos ≤ chars.length → VmCorrectR b (mkCtx chars cpos flag)

/-! ### 2. the engine oracle agrees with the reference oracle wherever it succeeds -/

/-- captures: an `Ok` answer of the engine oracle is the reference answer -/
theorem C09_engine_agrees (b : Built) (chars : List Char) (limit fuel : Nat) (hE : EngineOK b chars)
    (pos : Nat) (flag : Bool) (r : Option (List (Option Nat)))
    (h : modelOracleF b chars (offsets chars) limit fuel pos flag = .ok r) :
    refCapsOracle b chars pos flag = r := by
  unfold modelOracleF at h
  unfold refCapsOracle
  cases hci : charIndexOf (offsets chars) pos with
  | none => simp only [hci] at h ⊢; cases h; rfl
  | some cpos =>
    simp only [hci] at h ⊢
    have hv := hE cpos flag (charIndexOf_some chars pos cpos hci).1 limit fuel
    rcases hv with hv | hv | hv | hv
    · rw [hv] at h; cases h
    · rw [hv] at h; cases h
    · rw [hv] at h; cases h
    · rw [hv] at h
      cases href : refSearch (mkCtx chars cpos flag) b.raw b.nGroups with
      | none => rw [href] at h; simp only at h ⊢; cases h; rfl
      | some f => rw [href] at h; simp only at h ⊢; cases h; rfl

/-- an `Err` answer of the engine oracle is one of the three resource stops (never a panic) -/
theorem C08_engine_errors (b : Built) (chars : List Char) (limit fuel : Nat) (hE : EngineOK b chars)
    (pos : Nat) (flag : Bool) (e : SearchErr)
    (h : modelOracleF b chars (offsets chars) limit fuel pos flag = .error e) :
    e = .limit ∨ e = .stack ∨ e = .outOfFuel := by
  unfold modelOracleF at h
  cases hci : charIndexOf (offsets chars) pos with
  | none => simp only [hci] at h; cases h
  | some cpos =>
    simp only [hci] at h
    have hv := hE cpos flag (charIndexOf_some chars pos cpos hci).1 limit fuel
    rcases hv with hv | hv | hv | hv
    · rw [hv] at h; cases h; simp
    · rw [hv] at h; cases h; simp
    · rw [hv] at h; cases h; simp
    · rw [hv] at h
      cases href : refSearch (mkCtx chars cpos flag) b.raw b.nGroups with
      | none => rw [href] at h; cases h
      | some f => rw [href] at h; cases h

theorem spanOracle_error (f : Oracle (List (Option Nat))) (pos : Nat) (flag : Bool) (e : SearchErr)
    (h : spanOracle f pos flag = .error e) : f pos flag = .error e := by
  unfold spanOracle at h
  cases hf : f pos flag with
  | error e' => simp only [hf] at h; cases h; rfl
  | ok r => cases r <;> simp [hf] at h

/-- **spans: an `Ok` answer of the engine's span oracle is the reference answer** -/
theorem C08_engine_agrees (b : Built) (chars : List Char) (limit fuel : Nat) (hE : EngineOK b chars)
    (pos : Nat) (flag : Bool) (r : Option (Nat × Nat))
    (h : spanOracle (modelOracleF b chars (offsets chars) limit fuel) pos flag = .ok r) :
    refSpanOracle b chars pos flag = r := by
  unfold spanOracle at h
  unfold refSpanOracle
  cases hf : modelOracleF b chars (offsets chars) limit fuel pos flag with
  | error e => simp [hf] at h
  | ok r' =>
    rw [C09_engine_agrees b chars limit fuel hE pos flag r' hf]
    cases r' with
    | none => simp only [hf] at h; cases h; rfl
    | some sl => simp only [hf] at h; cases h; rfl

/-! ### 3. the reference search, seen through the byte offsets, is a well-formed oracle -/

theorem spanOfSlots_slotsToBytes (off : Array Nat) (slots : List (Option Nat)) (s e : Nat)
    (h0 : slots[0]? = some (some s)) (h1 : slots[1]? = some (some e)) :
    spanOfSlots (slotsToBytes off slots) = (off.getD s 0, off.getD e 0) := by
  match slots, h0, h1 with
  | a :: b :: rest, h0, h1 =>
    simp only [List.getElem?_cons_zero, List.getElem?_cons_succ, Option.some.injEq] at h0 h1
    subst h0; subst h1
    simp [slotsToBytes, spanOfSlots]

/-- **the reference captures oracle is well-formed**: a reported overall span lies inside
    `[pos, len]` in byte offsets, `start ≤ end` — for every expression `renumber` can produce
    (`noSelfNest`) with at least the implicit group -/
theorem C09_ref_wf (b : Built) (chars : List Char) (hns : noSelfNest b.raw = true) (hg : 1 ≤ b.nGroups) :
    WFOracle (fun p fl => .ok (refCapsOracle b chars p fl)) spanOfSlots (byteLen chars) := by
  intro pos flag a h
  simp only [Except.ok.injEq] at h
  unfold refCapsOracle at h
  cases hci : charIndexOf (offsets chars) pos with
  | none => simp [hci] at h
  | some cpos =>
    simp only [hci] at h
    obtain ⟨hcl, hcp⟩ := charIndexOf_some chars pos cpos hci
    cases href : refSearch (mkCtx chars cpos flag) b.raw b.nGroups with
    | none => simp [href] at h
    | some f =>
      simp only [href, Option.some.injEq] at h
      subst h
      have hv := refSearch_valid (mkCtx chars cpos flag) b.raw b.nGroups hns f href
      obtain ⟨s, e, h0, h1, hps, hse, hel⟩ := hv.span (by omega)
      have hel' : e ≤ chars.length := hel
      have hps' : cpos ≤ s := hps
      rw [spanOfSlots_slotsToBytes _ _ s e h0 h1, offsets_getD chars s (by omega),
        offsets_getD chars e hel']
      refine ⟨?_, boff_mono chars s e hse, boff_le_byteLen chars e hel'⟩
      rw [← hcp]; exact boff_mono chars cpos s hps'

/-- **the reference span oracle is well-formed** -/
theorem C08_ref_wf (b : Built) (chars : List Char) (hns : noSelfNest b.raw = true) (hg : 1 ≤ b.nGroups) :
    WFOracle (fun p fl => .ok (refSpanOracle b chars p fl)) id (byteLen chars) := by
  intro pos flag a h
  simp only [Except.ok.injEq, refSpanOracle, Option.map_eq_some_iff] at h
  obtain ⟨sl, hsl, rfl⟩ := h
  exact C09_ref_wf b chars hns hg pos flag sl (by simp [hsl])

/-- hence so is the engine's own oracle, under (E) -/
theorem C08_engine_wf (b : Built) (chars : List Char) (limit fuel : Nat) (hE : EngineOK b chars)
    (hns : noSelfNest b.raw = true) (hg : 1 ≤ b.nGroups) :
    WFOracle (spanOracle (modelOracleF b chars (offsets chars) limit fuel)) id (byteLen chars) := by
  intro pos flag a h
  exact C08_ref_wf b chars hns hg pos flag a
    (by show Except.ok _ = _; rw [C08_engine_agrees b chars limit fuel hE pos flag _ h])

/-! ### 4. the composition -/

/-- every `Ok` item of one `next()` is an answer of the oracle -/
theorem next_ok_from_oracle {α : Type} (f : Oracle α) (span : α → Nat × Nat) (text : Bytes)
    (fuel : Nat) (it it' : Iter) (a : α) (oof : Bool)
    (h : Iter.next f span text fuel it = (some (.ok a), it', oof)) :
    ∃ p fl, f p fl = .ok (some a) := by
  induction fuel generalizing it with
  | zero => simp [Iter.next] at h
  | succ fuel ih =>
    unfold Iter.next at h
    split at h
    · simp at h
    · split at h
      · simp at h
      · simp at h
      · rename_i a0 hf
        split at h
        split at h
        · split at h
          · exact ih _ h
          · simp only [Prod.mk.injEq, Option.some.injEq, Except.ok.injEq] at h
            obtain ⟨rfl, _⟩ := h
            exact ⟨_, _, hf⟩
        · simp only [Prod.mk.injEq, Option.some.injEq, Except.ok.injEq] at h
          obtain ⟨rfl, _⟩ := h
          exact ⟨_, _, hf⟩

/-- every `Ok` item of the drained iterator is an answer of the oracle -/
theorem collect_ok_from_oracle {α : Type} (f : Oracle α) (span : α → Nat × Nat) (text : Bytes)
    (n : Nat) (it : Iter) (a : α) (h : .ok a ∈ Iter.collect f span text n it) :
    ∃ p fl, f p fl = .ok (some a) := by
  induction n generalizing it with
  | zero => simp [Iter.collect] at h
  | succ n ih =>
    unfold Iter.collect at h
    generalize hn : Iter.next f span text (text.length + 2) it = r at h
    obtain ⟨item, it', oof⟩ := r
    cases item with
    | none => simp at h
    | some item =>
      simp only [List.mem_cons] at h
      rcases h with h | h
      · subst h; exact next_ok_from_oracle f span text _ it it' a oof hn
      · exact ih it' h

/-- the composition with everything kept: the drained `find_iter` over the engine is the spec
    iteration of the reference search, or a prefix of it and one error the engine returned -/
theorem find_iter_core (b : Built) (chars : List Char) (limit fuel : Nat) (hE : EngineOK b chars)
    (hns : noSelfNest b.raw = true) (hg : 1 ≤ b.nGroups) (text : Bytes)
    (htext : text.length = byteLen chars) :
    findIter (spanOracle (modelOracleF b chars (offsets chars) limit fuel)) text =
        (ApiSpec.iter (refSpanOracle b chars) text).map .ok ∨
    ∃ ms e, findIter (spanOracle (modelOracleF b chars (offsets chars) limit fuel)) text =
          ms.map .ok ++ [.error e] ∧
        ms <+: ApiSpec.iter (refSpanOracle b chars) text ∧
        ∃ p fl, modelOracleF b chars (offsets chars) limit fuel p fl = .error e := by
  have hid : (fun p fl => (refSpanOracle b chars p fl).map id) = refSpanOracle b chars := by
    funext p fl; simp
  obtain ⟨as, ⟨h1, h2⟩ | ⟨e, h1, h2, p, fl, h3⟩⟩ :=
    C08_eq_spec_until_error (spanOracle (modelOracleF b chars (offsets chars) limit fuel))
      (refSpanOracle b chars) id text
      (C08_engine_agrees b chars limit fuel hE) (htext ▸ C08_ref_wf b chars hns hg)
  · left
    rw [hid, List.map_id] at h2
    rw [← h2]; exact h1
  · right
    rw [hid, List.map_id] at h2
    exact ⟨as, e, h1, h2, p, fl, spanOracle_error _ p fl e h3⟩

/-- **C08, from the engine down.** Let the engine be correct up to its resource stops on `chars`
    (`EngineOK`: a theorem for the patterns of `C08_find_iter_is_reference_wrap` / `_s3` below), and
    let `text` be as long as the UTF-8 encoding of `chars`. Then `find_iter` over the model engine is
    * either exactly the property's iteration (`ApiSpec.iter`: leftmost match from the previous end,
      one character after an empty match, empty match adjacent to the previous match dropped) of the
      REFERENCE search, every item `Ok`,
    * or `Ok` items that are a prefix of that iteration, followed by exactly one `Err` item, which
      is a resource stop (backtrack limit, stack cap, model fuel) — never a panic. -/
theorem C08_find_iter_is_reference (b : Built) (chars : List Char) (limit fuel : Nat)
    (hE : EngineOK b chars) (hns : noSelfNest b.raw = true) (hg : 1 ≤ b.nGroups) (text : Bytes)
    (htext : text.length = byteLen chars) :
    findIter (spanOracle (modelOracleF b chars (offsets chars) limit fuel)) text =
        (ApiSpec.iter (refSpanOracle b chars) text).map .ok ∨
    ∃ ms e, findIter (spanOracle (modelOracleF b chars (offsets chars) limit fuel)) text =
          ms.map .ok ++ [.error e] ∧
        ms <+: ApiSpec.iter (refSpanOracle b chars) text ∧
        (e = .limit ∨ e = .stack ∨ e = .outOfFuel) := by
  rcases find_iter_core b chars limit fuel hE hns hg text htext with h | ⟨ms, e, h1, h2, p, fl, h3⟩
  · exact Or.inl h
  · exact Or.inr ⟨ms, e, h1, h2, C08_engine_errors b chars limit fuel hE p fl e h3⟩

/-- **C09, from the engine down**: `captures_iter` over the model engine yields captures values
    whose overall spans are the property's iteration of the reference search (or a prefix of it and
    one resource stop), and every yielded value is, group for group, the reference search's answer
    at some search position (byte offsets). -/
theorem C09_captures_iter_is_reference (b : Built) (chars : List Char) (limit fuel : Nat)
    (hE : EngineOK b chars) (hns : noSelfNest b.raw = true) (hg : 1 ≤ b.nGroups) (text : Bytes)
    (htext : text.length = byteLen chars) :
    ∃ as : List (List (Option Nat)),
      (∀ a ∈ as, ∃ p fl, refCapsOracle b chars p fl = some a) ∧
      ((capturesIter (modelOracleF b chars (offsets chars) limit fuel) spanOfSlots text =
            as.map .ok ∧
          as.map spanOfSlots = ApiSpec.iter (refSpanOracle b chars) text) ∨
       (∃ e, capturesIter (modelOracleF b chars (offsets chars) limit fuel) spanOfSlots text =
            as.map .ok ++ [.error e] ∧
          as.map spanOfSlots <+: ApiSpec.iter (refSpanOracle b chars) text ∧
          (e = .limit ∨ e = .stack ∨ e = .outOfFuel))) := by
  have hmem : ∀ as : List (List (Option Nat)),
      (∀ a ∈ as, .ok a ∈ capturesIter (modelOracleF b chars (offsets chars) limit fuel) spanOfSlots text) →
      ∀ a ∈ as, ∃ p fl, refCapsOracle b chars p fl = some a := by
    intro as hsub a ha
    obtain ⟨p, fl, hp⟩ := collect_ok_from_oracle _ _ _ _ _ a (hsub a ha)
    exact ⟨p, fl, C09_engine_agrees b chars limit fuel hE p fl _ hp⟩
  obtain ⟨as, ⟨h1, h2⟩ | ⟨e, h1, h2, p, fl, h3⟩⟩ :=
    C08_eq_spec_until_error (modelOracleF b chars (offsets chars) limit fuel)
      (refCapsOracle b chars) spanOfSlots text
      (C09_engine_agrees b chars limit fuel hE) (htext ▸ C09_ref_wf b chars hns hg)
  · refine ⟨as, hmem as ?_, Or.inl ⟨h1, h2⟩⟩
    intro a ha; rw [h1]; exact List.mem_map_of_mem ha
  · refine ⟨as, hmem as ?_, Or.inr ⟨e, h1, h2, C08_engine_errors b chars limit fuel hE p fl e h3⟩⟩
    intro a ha; rw [h1]; exact List.mem_append_left _ (List.mem_map_of_mem ha)

/-- **C10, from the engine down**: when `find_iter` yields no `Err` item, `split` over the model
    engine yields exactly the substrings between consecutive matches of the reference iteration
    and then the rest of the text — one more piece than matches. -/
theorem C10_split_is_reference (b : Built) (chars : List Char) (limit fuel : Nat)
    (hE : EngineOK b chars) (hns : noSelfNest b.raw = true) (hg : 1 ≤ b.nGroups) (text : Bytes)
    (htext : text.length = byteLen chars)
    (hnoerr : ∀ e, .error e ∉ findIter (spanOracle (modelOracleF b chars (offsets chars) limit fuel)) text) :
    split (spanOracle (modelOracleF b chars (offsets chars) limit fuel)) text =
        (ApiSpec.pieces text.length (ApiSpec.iter (refSpanOracle b chars) text)).map
          (fun p => Item.piece p.1 p.2) ∧
      (split (spanOracle (modelOracleF b chars (offsets chars) limit fuel)) text).length =
        (ApiSpec.iter (refSpanOracle b chars) text).length + 1 := by
  have hwf := C08_engine_wf b chars limit fuel hE hns hg
  rw [← htext] at hwf
  rcases C08_find_iter_is_reference b chars limit fuel hE hns hg text htext with h | ⟨ms, e, h, _⟩
  · exact C10_split_spec _ text hwf _ h
  · exact absurd (by rw [h]; simp) (hnoerr e)

/-- in general (errors or not): the pieces `split` yields are those induced by the `find_iter`
    sequence (`toPieces`), which `C08_find_iter_is_reference` describes -/
theorem C10_split_pieces_engine (b : Built) (chars : List Char) (limit fuel : Nat)
    (hE : EngineOK b chars) (hns : noSelfNest b.raw = true) (hg : 1 ≤ b.nGroups) (text : Bytes)
    (htext : text.length = byteLen chars) :
    split (spanOracle (modelOracleF b chars (offsets chars) limit fuel)) text =
      toPieces text.length
        (findIter (spanOracle (modelOracleF b chars (offsets chars) limit fuel)) text) 0 := by
  have hwf := C08_engine_wf b chars limit fuel hE hns hg
  rw [← htext] at hwf
  exact C10_pieces _ text hwf

/-! ### 5. the engine hypothesis is a theorem: hand-off path, stage S3 -/

theorem mkCtx_len (chars : List Char) (cpos : Nat) (flag : Bool) : (mkCtx chars cpos flag).len = chars.length := rfl
theorem mkCtx_pos (chars : List Char) (cpos : Nat) (flag : Bool) : (mkCtx chars cpos flag).pos = cpos := rfl

/-- (E) on the hand-off path: every pattern `build` hands to the automata engine as a whole -/
theorem engineOK_wrap (b : Built) (chars : List Char) (hk : b.kind = .wrap) : EngineOK b chars :=
  fun cpos flag _ limit fuel => Or.inr (Or.inr (Or.inr (C01_wrap_path b (mkCtx chars cpos flag) limit fuel hk)))

/-- (E) for stage S3, from the tree (hypotheses of `C01_vm_correct_s3`) -/
theorem engineOK_s3_tree (tree : Expr) (backrefs : List Nat) (b : Built) (prog : Prog)
    (hb : build tree backrefs = .ok b) (hk : b.kind = .fancy prog)
    (hok : s3ok (fun g => backrefs.contains g) b.raw true = true) (hws : wellShaped b.raw = true)
    (hz : noBareEndZ b.raw = true) (hdok : progDelegOK prog.nSaves prog.body = true)
    (chars : List Char) (hlen : chars.length < UNSET) : EngineOK b chars :=
  fun cpos flag hc =>
    C01_vm_correct_s3 tree backrefs b prog (mkCtx chars cpos flag) hb hk hok hws hz hdok hlen hc

/-- (E) for stage S3, from the pattern string (hypotheses of `C01_pipeline_s3`) -/
theorem engineOK_s3 (isAlnum : Char → Bool) (cs : List Char) (casei : Bool) (t : Parse.Tree) (b : Built)
    (prog : Prog) (hp : Parse.parseStr isAlnum cs casei = .ok t) (hb : build t.expr t.backrefs = .ok b)
    (hk : b.kind = .fancy prog) (hst : s3Pattern t b = true)
    (chars : List Char) (hlen : chars.length < UNSET) : EngineOK b chars :=
  fun cpos flag hc =>
    C01_pipeline_s3 isAlnum cs casei t b prog (mkCtx chars cpos flag) hp hb hk hst hlen hc

/-- **hand-off path**: for every pattern that `build` hands to the automata engine as a whole
    (modelled by the reference search: assumption A-RA), every text: `find_iter` IS the property's
    iteration of the reference search — no error item at all. -/
theorem C08_find_iter_is_reference_wrap (tree : Expr) (backrefs : List Nat) (b : Built)
    (hb : build tree backrefs = .ok b) (hk : b.kind = .wrap)
    (chars : List Char) (limit fuel : Nat) (text : Bytes) (htext : text.length = byteLen chars) :
    findIter (spanOracle (modelOracleF b chars (offsets chars) limit fuel)) text =
      (ApiSpec.iter (refSpanOracle b chars) text).map .ok := by
  rcases find_iter_core b chars limit fuel (engineOK_wrap b chars hk)
    (build_noSelfNest tree backrefs b hb) (build_nGroups_pos tree backrefs b hb) text htext with
    h | ⟨ms, e, _, _, p, fl, h3⟩
  · exact h
  · exfalso
    unfold modelOracleF at h3
    cases hci : charIndexOf (offsets chars) p with
    | none => simp [hci] at h3
    | some cpos =>
      simp only [hci, C01_wrap_path b (mkCtx chars cpos fl) limit fuel hk] at h3
      cases href : refSearch (mkCtx chars cpos fl) b.raw b.nGroups <;> simp [href] at h3

/-- **stage S3, from the pattern string**: for every pattern string whose parse lies in the proved
    stage (`s3Pattern`), both values of `case_insensitive`, every text shorter than `usize::MAX`
    characters, every backtrack limit and model fuel: `find_iter` over the compiled program run by the
    VM is the property's iteration of the reference search, or a prefix of it and one resource stop. -/
theorem C08_find_iter_is_reference_s3 (isAlnum : Char → Bool) (cs : List Char) (casei : Bool)
    (t : Parse.Tree) (b : Built) (prog : Prog)
    (hp : Parse.parseStr isAlnum cs casei = .ok t) (hb : build t.expr t.backrefs = .ok b)
    (hk : b.kind = .fancy prog) (hst : s3Pattern t b = true)
    (chars : List Char) (hlen : chars.length < UNSET) (limit fuel : Nat) (text : Bytes)
    (htext : text.length = byteLen chars) :
    findIter (spanOracle (modelOracleF b chars (offsets chars) limit fuel)) text =
        (ApiSpec.iter (refSpanOracle b chars) text).map .ok ∨
    ∃ ms e, findIter (spanOracle (modelOracleF b chars (offsets chars) limit fuel)) text =
          ms.map .ok ++ [.error e] ∧
        ms <+: ApiSpec.iter (refSpanOracle b chars) text ∧
        (e = .limit ∨ e = .stack ∨ e = .outOfFuel) :=
  C08_find_iter_is_reference b chars limit fuel
    (engineOK_s3 isAlnum cs casei t b prog hp hb hk hst chars hlen)
    (build_noSelfNest _ _ b hb) (build_nGroups_pos _ _ b hb) text htext

/-- the same from the tree (hypotheses exactly those of `C01_vm_correct_s3`) -/
theorem C08_find_iter_is_reference_s3_tree (tree : Expr) (backrefs : List Nat) (b : Built) (prog : Prog)
    (hb : build tree backrefs = .ok b) (hk : b.kind = .fancy prog)
    (hok : s3ok (fun g => backrefs.contains g) b.raw true = true) (hws : wellShaped b.raw = true)
    (hz : noBareEndZ b.raw = true) (hdok : progDelegOK prog.nSaves prog.body = true)
    (chars : List Char) (hlen : chars.length < UNSET) (limit fuel : Nat) (text : Bytes)
    (htext : text.length = byteLen chars) :
    findIter (spanOracle (modelOracleF b chars (offsets chars) limit fuel)) text =
        (ApiSpec.iter (refSpanOracle b chars) text).map .ok ∨
    ∃ ms e, findIter (spanOracle (modelOracleF b chars (offsets chars) limit fuel)) text =
          ms.map .ok ++ [.error e] ∧
        ms <+: ApiSpec.iter (refSpanOracle b chars) text ∧
        (e = .limit ∨ e = .stack ∨ e = .outOfFuel) :=
  C08_find_iter_is_reference b chars limit fuel
    (engineOK_s3_tree tree backrefs b prog hb hk hok hws hz hdok chars hlen)
    (build_noSelfNest _ _ b hb) (build_nGroups_pos _ _ b hb) text htext

/-- `split` for stage S3, from the pattern string, error-free run -/
theorem C10_split_is_reference_s3 (isAlnum : Char → Bool) (cs : List Char) (casei : Bool)
    (t : Parse.Tree) (b : Built) (prog : Prog)
    (hp : Parse.parseStr isAlnum cs casei = .ok t) (hb : build t.expr t.backrefs = .ok b)
    (hk : b.kind = .fancy prog) (hst : s3Pattern t b = true)
    (chars : List Char) (hlen : chars.length < UNSET) (limit fuel : Nat) (text : Bytes)
    (htext : text.length = byteLen chars)
    (hnoerr : ∀ e, .error e ∉ findIter (spanOracle (modelOracleF b chars (offsets chars) limit fuel)) text) :
    split (spanOracle (modelOracleF b chars (offsets chars) limit fuel)) text =
        (ApiSpec.pieces text.length (ApiSpec.iter (refSpanOracle b chars) text)).map
          (fun p => Item.piece p.1 p.2) ∧
      (split (spanOracle (modelOracleF b chars (offsets chars) limit fuel)) text).length =
        (ApiSpec.iter (refSpanOracle b chars) text).length + 1 :=
  C10_split_is_reference b chars limit fuel
    (engineOK_s3 isAlnum cs casei t b prog hp hb hk hst chars hlen)
    (build_noSelfNest _ _ b hb) (build_nGroups_pos _ _ b hb) text htext hnoerr

/-- `split` on the hand-off path: always the reference pieces -/
theorem C10_split_is_reference_wrap (tree : Expr) (backrefs : List Nat) (b : Built)
    (hb : build tree backrefs = .ok b) (hk : b.kind = .wrap)
    (chars : List Char) (limit fuel : Nat) (text : Bytes) (htext : text.length = byteLen chars) :
    split (spanOracle (modelOracleF b chars (offsets chars) limit fuel)) text =
        (ApiSpec.pieces text.length (ApiSpec.iter (refSpanOracle b chars) text)).map
          (fun p => Item.piece p.1 p.2) ∧
      (split (spanOracle (modelOracleF b chars (offsets chars) limit fuel)) text).length =
        (ApiSpec.iter (refSpanOracle b chars) text).length + 1 := by
  apply C10_split_is_reference b chars limit fuel (engineOK_wrap b chars hk)
    (build_noSelfNest tree backrefs b hb) (build_nGroups_pos tree backrefs b hb) text htext
  intro e he
  rw [C08_find_iter_is_reference_wrap tree backrefs b hb hk chars limit fuel text htext] at he
  simp at he

/-! ### the statement on the driver's own objects (`mkText`, `modelOracle`, `driverFuel`) -/

/-- what the driver's `iter M <text> <limit>` computes (`Drv.doIter`): for every string `s`, with
    `t := mkText s` (characters, UTF-8 bytes, offset table), stage S3 from the pattern string -/
theorem C08_find_iter_is_reference_driver (isAlnum : Char → Bool) (cs : List Char) (casei : Bool)
    (t : Parse.Tree) (b : Built) (prog : Prog)
    (hp : Parse.parseStr isAlnum cs casei = .ok t) (hb : build t.expr t.backrefs = .ok b)
    (hk : b.kind = .fancy prog) (hst : s3Pattern t b = true)
    (s : String) (hlen : s.toList.length < UNSET) (limit : Nat) :
    findIter (spanOracle (modelOracle b (mkText s).chars (mkText s).off limit)) (mkText s).bytes =
        (ApiSpec.iter (refSpanOracle b s.toList) (bytesOf s)).map .ok ∨
    ∃ ms e, findIter (spanOracle (modelOracle b (mkText s).chars (mkText s).off limit)) (mkText s).bytes =
          ms.map .ok ++ [.error e] ∧
        ms <+: ApiSpec.iter (refSpanOracle b s.toList) (bytesOf s) ∧
        (e = .limit ∨ e = .stack ∨ e = .outOfFuel) :=
  C08_find_iter_is_reference_s3 isAlnum cs casei t b prog hp hb hk hst s.toList hlen limit driverFuel
    (bytesOf s) (bytesOf_length s)

/-! ### 6. Non-vacuity

(a) hand-off path, `a*` on "aab": a non-empty match, a dropped adjacent empty match (at 2), a
yielded empty match at the end (at 3, with the skipped flag set) — the reference iteration is
evaluated, and `find_iter` / `split` over the engine are exactly it. -/

def exStar : Expr := .repeat (.literal ['a'] false) 0 none true
def exStarB : Built := ⟨exStar, .concat [.repeat (.any true) 0 none false, .group 0 exStar], 1, [], .wrap⟩

set_option linter.unusedSimpArgs false in
theorem exStar_build : build exStar [] = .ok exStarB := by
  simp [build, exStar, exStarB, wrapTree, renumber, renumberList, checkRefs, checkRefsList, isHard, isHardAny]

theorem exOff : offsets ['a','a','b'] = #[0,1,2,3] := by decide

set_option linter.unusedSimpArgs false in
theorem exStar_at0 : refSpanOracle exStarB ['a','a','b'] 0 false = some (0, 2) := by
  have h : charIndexOf #[0,1,2,3] 0 = some 0 := by decide
  simp [refSpanOracle, refCapsOracle, exOff, h, refSearch, scanFrom, sem, repLoop, exStarB, exStar, mkCtx, Ctx.len,
    Ctx.litAt, Ctx.at?, Chars.ceq, initSlots, finish, St.slot, slotsToBytes, spanOfSlots]

set_option linter.unusedSimpArgs false in
theorem exStar_at2 : refSpanOracle exStarB ['a','a','b'] 2 false = some (2, 2) := by
  have h : charIndexOf #[0,1,2,3] 2 = some 2 := by decide
  simp [refSpanOracle, refCapsOracle, exOff, h, refSearch, scanFrom, sem, repLoop, exStarB, exStar, mkCtx, Ctx.len,
    Ctx.litAt, Ctx.at?, Chars.ceq, initSlots, finish, St.slot, slotsToBytes, spanOfSlots]

set_option linter.unusedSimpArgs false in
theorem exStar_at3 : refSpanOracle exStarB ['a','a','b'] 3 true = some (3, 3) := by
  have h : charIndexOf #[0,1,2,3] 3 = some 3 := by decide
  simp [refSpanOracle, refCapsOracle, exOff, h, refSearch, scanFrom, sem, repLoop, exStarB, exStar, mkCtx, Ctx.len,
    Ctx.litAt, Ctx.at?, Chars.ceq, initSlots, finish, St.slot, slotsToBytes, spanOfSlots]

theorem exStar_iter : ApiSpec.iter (refSpanOracle exStarB ['a','a','b']) [97, 97, 98] = [(0, 2), (3, 3)] := by
  simp [ApiSpec.iter, ApiSpec.iterFrom, exStar_at0, exStar_at2, exStar_at3, Utf8.nextUtf8, Utf8.codepointLen]

example (limit fuel : Nat) :
    findIter (spanOracle (modelOracleF exStarB ['a','a','b'] (offsets ['a','a','b']) limit fuel)) [97, 97, 98] =
      [.ok (0, 2), .ok (3, 3)] := by
  rw [C08_find_iter_is_reference_wrap exStar [] exStarB exStar_build rfl ['a','a','b'] limit fuel [97, 97, 98] (by decide),
    exStar_iter]; rfl

example (limit fuel : Nat) :
    split (spanOracle (modelOracleF exStarB ['a','a','b'] (offsets ['a','a','b']) limit fuel)) [97, 97, 98] =
      [.piece 0 0, .piece 2 3, .piece 3 3] := by
  rw [(C10_split_is_reference_wrap exStar [] exStarB exStar_build rfl ['a','a','b'] limit fuel [97, 97, 98] (by decide)).1,
    exStar_iter]; rfl

/-! (b) the VM path, from the pattern string `a(?=b)` (stage S3) on "abab": every hypothesis of
`C08_find_iter_is_reference_s3` holds, and the reference iteration is `[(0,1), (2,3)]`. -/

def exLook : Expr := .concat [.literal ['a'] false, .look (.literal ['b'] false) .ahead]

theorem exLook_parse : Parse.parseStr (fun c => c.isAlphanum) "a(?=b)".toList false = .ok ⟨exLook, [], []⟩ :=
  Parse.isTree_sound (by decide +kernel)

set_option linter.unusedSimpArgs false in
theorem exLook_built : ∃ b prog, build exLook [] = .ok b ∧ b.kind = .fancy prog ∧ s3Pattern ⟨exLook, [], []⟩ b = true ∧
    b.raw = exLook ∧ b.nGroups = 1 := by
  simp [s3Pattern, build, exLook, wrapTree, renumber, renumberList, checkRefs, checkRefsList, isHard, isHardAny,
    compile, visit, visitMiddle, visitAlt, concatSplit, groupCount, groupCountList, constSize, constSizeAll, minSize, minSizeMin,
    minSizeSum, allMinSize, compileDelegates, compileDelegate, isLiteral, isLiteralAll, s3ok, s3okAll, s3okAlts, condFree, condFreeAll,
    boundsEq, satMul, satAdd, sureReps, UNSET, Assertion.isHard, wrapPosLook, posLookBodyPc, pushLiteral, wellShaped, wellShapedAll,
    noBareEndZ, noBareEndZAll, progDelegOK, slotsBelow, slotsBelowAll]

theorem exOff4 : offsets ['a','b','a','b'] = #[0,1,2,3,4] := by decide

set_option linter.unusedSimpArgs false in
theorem exLook_iter (b : Built) (hr : b.raw = exLook) (hn : b.nGroups = 1) :
    ApiSpec.iter (refSpanOracle b ['a','b','a','b']) [97, 98, 97, 98] = [(0, 1), (2, 3)] := by
  have h0 : charIndexOf #[0,1,2,3,4] 0 = some 0 := by decide
  have h1 : charIndexOf #[0,1,2,3,4] 1 = some 1 := by decide
  have h3 : charIndexOf #[0,1,2,3,4] 3 = some 3 := by decide
  have a0 : refSpanOracle b ['a','b','a','b'] 0 false = some (0, 1) := by
    simp [refSpanOracle, refCapsOracle, exOff4, h0, hr, hn, refSearch, scanFrom, sem, semConcat, firstOnly, exLook, mkCtx, Ctx.len,
      Ctx.litAt, Ctx.at?, Chars.ceq, initSlots, finish, St.slot, slotsToBytes, spanOfSlots]
  have a1 : refSpanOracle b ['a','b','a','b'] 1 false = some (2, 3) := by
    simp [refSpanOracle, refCapsOracle, exOff4, h1, hr, hn, refSearch, scanFrom, sem, semConcat, firstOnly, exLook, mkCtx, Ctx.len,
      Ctx.litAt, Ctx.at?, Chars.ceq, initSlots, finish, St.slot, slotsToBytes, spanOfSlots]
  have a3 : refSpanOracle b ['a','b','a','b'] 3 false = none := by
    simp [refSpanOracle, refCapsOracle, exOff4, h3, hr, hn, refSearch, scanFrom, sem, semConcat, firstOnly, exLook, mkCtx, Ctx.len,
      Ctx.litAt, Ctx.at?, Chars.ceq, initSlots, finish, St.slot, slotsToBytes, spanOfSlots]
  simp [ApiSpec.iter, ApiSpec.iterFrom, a0, a1, a3, Utf8.nextUtf8, Utf8.codepointLen]

example (limit fuel : Nat) : ∃ b, build exLook [] = .ok b ∧
    (findIter (spanOracle (modelOracleF b ['a','b','a','b'] (offsets ['a','b','a','b']) limit fuel)) [97, 98, 97, 98] =
        [.ok (0, 1), .ok (2, 3)] ∨
     ∃ ms e, findIter (spanOracle (modelOracleF b ['a','b','a','b'] (offsets ['a','b','a','b']) limit fuel)) [97, 98, 97, 98] =
          ms.map .ok ++ [.error e] ∧ ms <+: [(0, 1), (2, 3)] ∧ (e = .limit ∨ e = .stack ∨ e = .outOfFuel)) := by
  obtain ⟨b, prog, hb, hk, hst, hr, hn⟩ := exLook_built
  refine ⟨b, hb, ?_⟩
  have := C08_find_iter_is_reference_s3 _ _ _ ⟨exLook, [], []⟩ b prog exLook_parse hb hk hst ['a','b','a','b']
    (by decide) limit fuel [97, 98, 97, 98] (by decide)
  rw [exLook_iter b hr hn] at this
  exact this

/-- (c) the stage-S3 hypotheses hold of `\\w+(?=\\d)(?i:x)` (`ex3_parse`, `ex3_built`), for every string:
    the statement about the driver's own `iter M` computation -/
example (s : String) (hlen : s.toList.length < UNSET) (limit : Nat) : ∃ b, build exTree3 [] = .ok b ∧
    (findIter (spanOracle (modelOracle b (mkText s).chars (mkText s).off limit)) (mkText s).bytes =
        (ApiSpec.iter (refSpanOracle b s.toList) (bytesOf s)).map .ok ∨
     ∃ ms e, findIter (spanOracle (modelOracle b (mkText s).chars (mkText s).off limit)) (mkText s).bytes =
          ms.map .ok ++ [.error e] ∧
        ms <+: ApiSpec.iter (refSpanOracle b s.toList) (bytesOf s) ∧
        (e = .limit ∨ e = .stack ∨ e = .outOfFuel)) := by
  obtain ⟨b, prog, hb, hk, hst⟩ := ex3_built
  exact ⟨b, hb, C08_find_iter_is_reference_driver _ _ _ ⟨exTree3, [], []⟩ b prog ex3_parse hb hk hst s hlen limit⟩

end Fancy.Api
