import FancyModel.Proofs.C10
import FancyModel.Lemmas.StateRefine
import FancyModel.Model.VM
/-!
# C05 — searching never panics and every reported offset is valid

Three layers, each for **every** program / oracle / text:

* VM instructions (`C05_step_no_panic`): from a state satisfying the undo-log invariant `Inv`, an
  instruction whose slot operands lie inside the slot vector does not reach a panic site — for
  every instruction except the four whose safety depends on the auxiliary-stack / branch-stack
  discipline of *compiled* programs (`BeginAtomic`, `EndAtomic`, `FailNegativeLookAround`, and
  `Delegate`, whose answers come from the automata engine: assumption A-RA). Those four are covered
  by the correspondence (the model has the same panic sites as the code and never reached one on
  the explored space) — stated here as the limit of the proof.
* the match end cap (`C05_end_caps`): what `Insn::End` reports satisfies `pos ≤ start ≤ end`
  whenever the end is not before the search position (this is exactly the F6 repair).
* API layer (`C05_split_ranges`): given a well-formed search (`WFOracle`), every range `split` slices
  is `a ≤ b ≤ len`; with C11's `replaceLoop_ok` (slices defined) these are the slices the iterators
  and `try_replacen` take.
-/
namespace Fancy
open State

/-- slot operands of an instruction lie inside a slot vector of length `n` -/
def SlotsOK (n : Nat) : Insn → Prop
  | .save slot | .save0 slot | .restore slot => slot < n
  | .repeatGr _ _ _ rep | .repeatNg _ _ _ rep => rep < n
  | .repeatEpsGr _ _ rep check | .repeatEpsNg _ _ rep check => rep < n ∧ check < n
  | .backref slot => slot + 1 < n
  | .backrefExists g => g * 2 < n
  | .end_ => 1 < n
  | _ => True

/-- the instructions whose safety needs the stack discipline of compiled programs / A-RA -/
def Disciplined : Insn → Bool
  | .beginAtomic | .endAtomic | .failNegLook | .delegate _ _ _ => true
  | _ => false

theorem save_no_panic (s : State) (hi : Inv s) (slot val : Nat) (h : slot < s.saves.length) :
    ∃ s', s.save slot val = some s' ∧ Inv s' ∧ s'.saves.length = s.saves.length := by
  obtain ⟨s', h1, h2, h3, _⟩ := save_spec s hi slot val h
  refine ⟨s', h1, h3, ?_⟩
  have := congrArg (fun a => a.saves.length) h2
  simpa [abs, AState.save] using this

theorem get_some (s : State) (slot : Nat) (h : slot < s.saves.length) : ∃ v, s.get slot = some v := by
  exact ⟨s.saves[slot], by simp [State.get, List.getElem?_eq_getElem h]⟩

theorem save0_saves (t : State) (ht : Inv t) (v : Nat) (hl : 1 < t.saves.length) :
    ∃ t', t.save 0 v = some t' ∧ Inv t' ∧ t'.saves = t.saves.set 0 v := by
  obtain ⟨t', h1', h2', h3', _⟩ := save_spec t ht 0 v (by omega)
  refine ⟨t', h1', h3', ?_⟩
  have := congrArg AState.saves h2'
  simpa [abs, AState.save] using this

/-- `capStart` never panics (slot vector of length ≥ 2), keeps slot 1, and leaves slot 0 equal to
    `max (min start end) pos` -/
theorem capStart_spec (s : State) (hi : Inv s) (pos : Nat) (hl : 1 < s.saves.length) :
    ∃ s', capStart s pos = some s' ∧
      ∀ e, s.saves[1]? = some e →
        ∃ st, s'.saves[0]? = some st ∧ s'.saves[1]? = some e ∧ (pos ≤ e → pos ≤ st ∧ st ≤ e) := by
  have h1 : s.saves[1]? = some s.saves[1] := List.getElem?_eq_getElem hl
  have h0 : s.saves[0]? = some s.saves[0] := List.getElem?_eq_getElem (by omega)
  generalize s.saves[1] = e1 at h1
  generalize s.saves[0] = e0 at h0
  have hg0 : s.get 0 = some e0 := by simpa [State.get] using h0
  unfold capStart
  simp only [h1, hg0, Option.bind_some]
  by_cases hgt : e0 > e1
  · obtain ⟨s1, hs1, hi1, hsv1⟩ := save0_saves s hi e1 hl
    have hg1 : s1.get 0 = some e1 := by
      simp only [State.get, hsv1]
      rw [List.getElem?_set_self (by omega)]
    have hl1 : 1 < s1.saves.length := by rw [hsv1]; simpa using hl
    have h11 : s1.saves[1]? = some e1 := by rw [hsv1, List.getElem?_set_ne (by omega)]; exact h1
    simp only [hgt, ↓reduceIte, hs1, Option.bind_some, hg1]
    by_cases hlt : e1 < pos
    · obtain ⟨s2, hs2, _, hsv2⟩ := save0_saves s1 hi1 pos hl1
      refine ⟨s2, by simp [hlt, hs2], ?_⟩
      intro e he; cases he
      refine ⟨pos, by rw [hsv2, List.getElem?_set_self (by omega)], by rw [hsv2, List.getElem?_set_ne (by omega)]; exact h11, ?_⟩
      intro hp; omega
    · refine ⟨s1, by simp [hlt], ?_⟩
      intro e he; cases he
      exact ⟨e1, by rw [hsv1, List.getElem?_set_self (by omega)], h11, fun hp => ⟨hp, Nat.le_refl _⟩⟩
  · simp only [hgt, ↓reduceIte, Option.bind_some, hg0]
    by_cases hlt : e0 < pos
    · obtain ⟨s2, hs2, _, hsv2⟩ := save0_saves s hi pos hl
      refine ⟨s2, by simp [hlt, hs2], ?_⟩
      intro e he; cases he
      refine ⟨pos, by rw [hsv2, List.getElem?_set_self (by omega)], by rw [hsv2, List.getElem?_set_ne (by omega)]; exact h1, ?_⟩
      intro hp; exact ⟨Nat.le_refl _, hp⟩
    · refine ⟨s, by simp [hlt], ?_⟩
      intro e he; cases he
      exact ⟨e0, h0, h1, fun hp => ⟨by omega, by omega⟩⟩

/-- **no panic** on any non-disciplined instruction -/
theorem C05_step_no_panic (c : Ctx) (prog : List Insn) (pc ix : Nat) (s : State) (hi : Inv s)
    (insn : Insn) (hpc : prog[pc]? = some insn) (hs : SlotsOK s.saves.length insn)
    (hd : Disciplined insn = false) :
    ∀ site, step c prog pc ix s ≠ .done (.panic site) := by
  intro site
  unfold step
  simp only [hpc]
  cases insn with
  | end_ =>
    simp only [SlotsOK] at hs
    obtain ⟨s', hs', _⟩ := capStart_spec s hi c.pos hs
    simp only [hs']
    intro hh; cases hh
  | any => simp only; split <;> simp
  | anyNoNL => simp only; split <;> (try split) <;> simp
  | assertion a => simp only; split <;> simp
  | lit v => simp only; split <;> simp
  | split x y => simp only [pushOr]; split <;> simp
  | jmp t => simp
  | save slot =>
    obtain ⟨s', h1, _, _⟩ := save_no_panic s hi slot ix hs
    simp [h1]
  | save0 slot =>
    obtain ⟨s', h1, _, _⟩ := save_no_panic s hi slot 0 hs
    simp [h1]
  | restore slot =>
    obtain ⟨v, hv⟩ := get_some s slot hs
    simp [hv]
  | repeatGr lo hi' next rep =>
    obtain ⟨v, hv⟩ := get_some s rep hs
    simp only [hv]
    split
    · simp
    · obtain ⟨s', h1, _, _⟩ := save_no_panic s hi rep (v + 1) hs
      simp only [h1, pushOr]
      split
      · split <;> simp
      · simp
  | repeatNg lo hi' next rep =>
    obtain ⟨v, hv⟩ := get_some s rep hs
    simp only [hv]
    split
    · simp
    · obtain ⟨s', h1, _, _⟩ := save_no_panic s hi rep (v + 1) hs
      simp only [h1, pushOr]
      split
      · split <;> simp
      · simp
  | repeatEpsGr lo next rep check =>
    obtain ⟨v, hv⟩ := get_some s rep hs.1
    obtain ⟨w, hw⟩ := get_some s check hs.2
    simp only [hv, hw]
    split
    · simp
    · obtain ⟨s', h1, hi', hl'⟩ := save_no_panic s hi rep (v + 1) hs.1
      simp only [h1]
      split
      · obtain ⟨s'', h2, _, _⟩ := save_no_panic s' hi' check ix (by have := hs.2; omega)
        simp only [h2, pushOr]
        split <;> simp
      · simp
  | repeatEpsNg lo next rep check =>
    obtain ⟨v, hv⟩ := get_some s rep hs.1
    obtain ⟨w, hw⟩ := get_some s check hs.2
    simp only [hv, hw]
    split
    · simp
    · obtain ⟨s', h1, hi', hl'⟩ := save_no_panic s hi rep (v + 1) hs.1
      simp only [h1]
      split
      · obtain ⟨s'', h2, _, _⟩ := save_no_panic s' hi' check ix (by have := hs.2; omega)
        simp only [h2, pushOr]
        split <;> simp
      · simp
  | failNegLook => simp [Disciplined] at hd
  | goBack n => simp only; split <;> simp
  | backref slot =>
    simp only [SlotsOK] at hs
    obtain ⟨v, hv⟩ := get_some s slot (by omega)
    obtain ⟨w, hw⟩ := get_some s (slot + 1) hs
    simp only [hv, hw]
    split
    · simp
    · split
      · simp
      · split <;> simp
  | beginAtomic => simp [Disciplined] at hd
  | endAtomic => simp [Disciplined] at hd
  | delegate es sg eg => simp [Disciplined] at hd
  | contPrev => simp only; split <;> simp
  | backrefExists g =>
    obtain ⟨v, hv⟩ := get_some s (g * 2) hs
    simp only [hv]
    split <;> simp

/-- **the start cap**: when `Insn::End` reports a match whose end is not before the search
    position, the reported start lies in `[pos, end]` -/
theorem C05_end_caps (c : Ctx) (prog : List Insn) (pc ix : Nat) (s : State) (hi : Inv s)
    (hpc : prog[pc]? = some .end_) (e : Nat) (he : s.saves[1]? = some e) (hpos : c.pos ≤ e)
    (saves' : List Nat) (h : step c prog pc ix s = .done (.matched saves')) :
    ∃ st, saves'[0]? = some st ∧ saves'[1]? = some e ∧ c.pos ≤ st ∧ st ≤ e := by
  have hlen : 1 < s.saves.length := by
    rcases Nat.lt_or_ge 1 s.saves.length with h | h
    · exact h
    · rw [List.getElem?_eq_none h] at he; cases he
  obtain ⟨s', hs', hcap⟩ := capStart_spec s hi c.pos hlen
  unfold step at h
  simp only [hpc, hs', StepResult.done.injEq, Outcome.matched.injEq] at h
  subst h
  obtain ⟨st, h0, h1, hle⟩ := hcap e he
  exact ⟨st, h0, h1, by omega, by omega⟩

end Fancy

namespace Fancy.Api

/-- ranges of the pieces induced by an ordered match list -/
theorem toPieces_ranges (len : Nat) (l : List (Except SearchErr (Nat × Nat))) (lo : Nat) (lm : Option Nat)
    (ns : Nat) (hord : Ordered id len lo lm l) (hns : ns ≤ lo) (hnl : ns ≤ len) :
    ∀ a b, Item.piece a b ∈ toPieces len l ns → a ≤ b ∧ b ≤ len := by
  induction l generalizing lo lm ns with
  | nil =>
    intro a b h
    simp only [toPieces] at h
    split at h
    · simp at h
    · simp only [List.mem_singleton, Item.piece.injEq] at h
      obtain ⟨rfl, rfl⟩ := h
      exact ⟨hnl, Nat.le_refl _⟩
  | cons x xs ih =>
    intro a b h
    cases x with
    | error e =>
      simp only [Ordered] at hord
      subst hord
      simp only [toPieces, List.mem_cons, reduceCtorEq, false_or] at h
      split at h
      · simp at h
      · simp only [List.mem_singleton, Item.piece.injEq] at h
        obtain ⟨rfl, rfl⟩ := h
        exact ⟨hnl, Nat.le_refl _⟩
    | ok p =>
      obtain ⟨s, e⟩ := p
      simp only [Ordered, id] at hord
      obtain ⟨h1, h2, h3, _, h5⟩ := hord
      simp only [toPieces, List.mem_cons, Item.piece.injEq] at h
      rcases h with ⟨rfl, rfl⟩ | h
      · exact ⟨by omega, by omega⟩
      · exact ih _ _ e h5 (by omega) h3 a b h

/-- **every range `split` slices is valid**: `a ≤ b ≤ len`, for every well-formed search oracle -/
theorem C05_split_ranges (f : Oracle (Nat × Nat)) (text : Utf8.Bytes) (hwf : WFOracle f id text.length) :
    ∀ a b, Item.piece a b ∈ split f text → a ≤ b ∧ b ≤ text.length := by
  rw [C10_pieces f text hwf]
  exact toPieces_ranges _ _ 0 none 0 (C08_find_iter_ordered f text hwf) (Nat.le_refl _) (Nat.zero_le _)

end Fancy.Api
