import FancyModel.Proofs.C01d
/-!
# C15 — conditionals in compiled programs, delegation included (engine refinement, stage S3)

As `Proofs/C15b.lean`, now also for programs with `Delegate` instructions (stage predicate `s3Stage`):
conditions, branches and surroundings may contain classes, case-insensitive literals and easy
sub-patterns handed to the automata engine.
-/
namespace Fancy

theorem C15_vm_correct_cond_s3 (tree : Expr) (backrefs : List Nat) (b : Built) (prog : Prog) (c : Ctx)
    (hb : build tree backrefs = .ok b) (hk : b.kind = .fancy prog)
    (hok : s3ok (fun g => backrefs.contains g) b.raw true = true) (hws : wellShaped b.raw = true)
    (hz : noBareEndZ b.raw = true) (hdok : progDelegOK prog.nSaves prog.body = true)
    (hlen : c.len < UNSET) (hpos : c.pos ≤ c.len) : VmCorrectR b c :=
  C01_vm_correct_s3 tree backrefs b prog c hb hk hok hws hz hdok hlen hpos

/-! ### Non-vacuity: `(\w)?(?(1)\d|[a-c])+` — group test over classes, inside a loop -/
def exCond3 : Expr :=
  .concat [.repeat (.group 0 (.delegate ['\\', 'w'] 1 false)) 0 (some 1) true,
    .repeat (.cond (.backrefExists 1) (.delegate ['\\', 'd'] 1 false) (.delegate ['[', 'a', '-', 'c', ']'] 1 false)) 1 none true]

set_option linter.unusedSimpArgs false in
example : s3Stage exCond3 [1] = true := by
  simp [s3Stage, build, exCond3, wrapTree, renumber, renumberList, checkRefs, checkRefsList, isHard, isHardAny,
    compile, visit, visitMiddle, visitAlt, concatSplit, groupCount, groupCountList, constSize, constSizeAll, minSize, minSizeMin,
    minSizeSum, allMinSize, compileDelegates, compileDelegate, isLiteral, isLiteralAll, s3ok, s3okAll, s3okAlts, condFree, condFreeAll,
    boundsEq, satMul, satAdd, sureReps, UNSET, Assertion.isHard, wrapPosLook, posLookBodyPc, pushLiteral, wellShaped, wellShapedAll,
    noBareEndZ, noBareEndZAll, progDelegOK, slotsBelow, slotsBelowAll]

end Fancy
