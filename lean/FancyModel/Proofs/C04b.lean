import FancyModel.Proofs.C19b
import FancyModel.Model.ToStr
/-!
# C04 / C03 — `Expr::to_str` round trip through the parser model

fancy-regex hands the "easy" parts of a pattern to the regex crate as TEXT written by
`Expr::to_str` (`Model/ToStr.lean`), while the model gives a delegated piece the reference
semantics of the TREE.  This file ties the text back to the tree through the project's own parser
model (`Model/Parse.lean`):

    C04_roundtrip :  rtOK e = true → toStr isSpecial e 0 = some s →
                     ∃ t, parseStr isAlnum s false = .ok t ∧ t.expr = e          (norm = identity)
    C04_roundtrip_norm : the same with arbitrary group numbers in `e`, `t.expr = zeroGroups e`
    C04_roundtrip_parseRe / C04_roundtrip_levels : the statement in general position (the text
      anywhere in a pattern, at any depth, at each of the four precedence levels of `to_str`)

**The fragment `rtOK`** (`rtShape` + at most 63 nested parentheses in the text, the parser's
`MAX_RECURSION`): `Empty`; `Any` (`.` and `(?s:.)`); one-character `Literal`s, case-insensitive
only if the character is not special; the assertions `^ $ (?m:^) (?m:$)`; `Concat` of ≥ 2
non-`Empty` children; `Alt` of ≥ 2 children (`Empty` alternatives allowed); `Group` (number 0);
`Repeat` of a repeatable body with every quantifier spelling (`? * + {n} {n,} {n,m}`, greedy and
lazy, `lo ≤ usize::MAX`, `hi < usize::MAX` or none), nested arbitrarily — this is the parser's own
output shape (`parsedOK`) restricted to the constructors `to_str` supports.

**Left out, and why.**
* `Delegate` leaves: the inner text is opaque to `to_str`; a hypothesis "the parser maps `inner`
  back to this leaf" would be needed per leaf; not done here (kernel-checked instances for
  `[a-z]`, `(?i:[a-z])`, `\d`: `C04_roundtrip_delegate_examples`).
* `(?Rm:^)`, `(?Rm:$)` (CRLF line anchors): fancy-regex's parser has no `R` flag
  (`C04_roundtrip_counterexample_rejected`) — the text is only ever read by regex-syntax.
* `Literal` with `casei` of a special character, several-character literals, `Empty` in a
  concatenation, one-element concatenations: the round trip is not the identity
  (`C04_roundtrip_counterexample_*` below, with the verdict for each).
* deeper than 63 parentheses: the parser answers `RecursionExceeded` (regex-syntax has its own,
  larger, nest limit).

Proof: one structural induction (`all4`) proving, for every node, the four statements
`AtomOK / PieceOK / BranchOK / ReOK` ("`to_str e 3/2/1/0`, standing anywhere in a pattern and
followed by a suitable byte, is read back as `e` by `parse_atom / parse_piece / parse_branch /
parse_re`, which stop right after it"), from parser-only glue lemmas; explicit fuel accounting
(`2·bytes + 8·nesting + c ≤ fuel`), so that `descentFuel` suffices.
-/
namespace Fancy.Parse
open Fancy.Utf8 (codepointLen isLead)
open Fancy


/-! ## positions -/
def At (re : Bytes) (ix : Nat) (l : List Nat) : Prop := ∃ pre, re.toList = pre ++ l ∧ pre.length = ix

theorem At.get {re : Bytes} {ix b : Nat} {l : List Nat} (h : At re ix (b :: l)) : re[ix]? = some b := by
  obtain ⟨pre, h, rfl⟩ := h; exact get_of_split h
theorem At.size {re : Bytes} {ix : Nat} {l : List Nat} (h : At re ix l) : re.size = ix + l.length := by
  obtain ⟨pre, h, rfl⟩ := h; exact size_of_split h
theorem At.adv {re : Bytes} {ix : Nat} {a l : List Nat} (h : At re ix (a ++ l)) : At re (ix + a.length) l := by
  obtain ⟨pre, h, rfl⟩ := h; exact ⟨pre ++ a, by simp [h], by simp⟩
theorem At.cons {re : Bytes} {ix b : Nat} {l : List Nat} (h : At re ix (b :: l)) : At re (ix + 1) l :=
  At.adv (a := [b]) h
theorem At.get? {re : Bytes} {ix : Nat} {l : List Nat} (h : At re ix l) (k : Nat) : re[ix + k]? = l[k]? := by
  obtain ⟨pre, h, rfl⟩ := h
  rw [← Array.getElem?_toList, h, List.getElem?_append_right (by omega)]; simp
theorem At.drop {re : Bytes} {ix : Nat} {l : List Nat} (h : At re ix l) : re.toList.drop ix = l := by
  obtain ⟨pre, h, rfl⟩ := h
  rw [h]; simp
theorem At.nil_get {re : Bytes} {ix : Nat} (h : At re ix []) : re[ix]? = none := by
  have := h.size; simp at this; simp [this]

/-- no `(?#` here -/
def noCmt (l : List Nat) : Bool := !(l.take 3 == [40, 63, 35])

theorem optWs_at {re : Bytes} {fl : Flags} {ix : Nat} {l : List Nat} (h : At re ix l)
    (hfl : fl.ignoreSpace = false) (hn : noCmt l = true) : optWs re fl ix = .ok ix := by
  cases l with
  | nil =>
    have := h.size
    exact optWs_stay hfl (by simp at this; omega) (by intro b hb; have := lt_size_of_get hb; simp at *; omega)
  | cons b rest =>
    have hg := h.get
    have hsz := h.size
    by_cases hb : b = ch '('
    · subst hb
      rw [optWs_step hg]
      have h1 := h.get? 1
      have h2 := h.get? 2
      have : startsWithAt re ix [ch '(', ch '?', ch '#'] = false := by
        simp only [startsWithAt, hg, h1, h2]
        match rest, hn with
        | [], _ => simp
        | [c], _ => simp
        | c :: d :: _, hn =>
          simp [noCmt] at hn
          simp [ch]
          intro hc hd
          rcases hn with h | h | h
          · exact h (by decide)
          · exact h hc
          · exact h hd
      simp [this, hfl]
    · exact optWs_stay hfl (by simp at hsz; omega) (by intro b' hb'; rw [hg] at hb'; cases hb'; exact hb)


/-! ## follow sets -/
/-- what may follow a piece that is to stay as it is: no quantifier, no comment -/
def quietL (l : List Nat) : Bool :=
  noCmt l && (match l with
    | [] => true
    | b :: _ => !(b == 63) && !(b == 42) && !(b == 43) && !(b == 123))
/-- what ends a branch: `|`, `)`, the end -/
def termL (l : List Nat) : Bool := match l with | [] => true | b :: _ => b == 124 || b == 41
/-- what ends an alternation: `)`, the end -/
def closeL (l : List Nat) : Bool := match l with | [] => true | b :: _ => b == 41

theorem termL_of_closeL {l : List Nat} (h : closeL l = true) : termL l = true := by
  cases l with
  | nil => rfl
  | cons b r => simp [closeL] at h; simp [termL, h]

theorem quietL_of_termL {l : List Nat} (h : termL l = true) : quietL l = true := by
  cases l with
  | nil => rfl
  | cons b r =>
    simp [termL] at h
    rcases h with rfl | rfl <;> simp [quietL, noCmt]

theorem noCmt_of_quietL {l : List Nat} (h : quietL l = true) : noCmt l = true := by
  simp only [quietL, Bool.and_eq_true] at h; exact h.1

structure GoodSt (st : PState) : Prop where
  flags : st.flags = {}
  nb : st.numericBackrefs = false

theorem GoodSt.ws {st : PState} (h : GoodSt st) : st.flags.ignoreSpace = false := by rw [h.flags]

/-! ## glue: pieces -/

theorem parsePiece_noquant {re : Bytes} (isAlnum : Char → Bool) {f : Nat} {st st' : PState}
    {ix ix' d : Nat} {child : Expr} {post : List Nat}
    (ha : parseAtom isAlnum f re st ix d = .ok (ix', child, st'))
    (hfl : st'.flags.ignoreSpace = false) (hp : At re ix' post) (hq : quietL post = true) :
    parsePiece isAlnum (f + 1) re st ix d = .ok (ix', child, st') := by
  have hws := optWs_at hp hfl (noCmt_of_quietL hq)
  unfold parsePiece
  simp only [ha, Res.ok_bind, hws]
  cases post with
  | nil => have := hp.size; simp at this; simp [this]
  | cons b rest =>
    have hg := hp.get
    have hlt := lt_size_of_get hg
    simp only [quietL, Bool.and_eq_true, Bool.not_eq_true'] at hq
    obtain ⟨_, ⟨⟨h2, h3⟩, h4⟩, h5⟩ := hq
    have e2 : (b == ch '?') = false := h2
    have e3 : (b == ch '*') = false := h3
    have e4 : (b == ch '+') = false := h4
    have e5 : (b == ch '{') = false := h5
    simp only [hlt, ↓reduceIte, byteAt, hg, Res.ok_bind, e2, e3, e4, e5, Bool.false_eq_true,
      Res.pure_bind']

theorem parsePiece_term {re : Bytes} (isAlnum : Char → Bool) {f : Nat} {st : PState}
    {ix d : Nat} {post : List Nat} (hfl : st.flags.ignoreSpace = false)
    (hp : At re ix post) (ht : termL post = true) :
    parsePiece isAlnum (f + 2) re st ix d = .ok (ix, .empty, st) := by
  have hq := quietL_of_termL ht
  have hws := optWs_at hp hfl (noCmt_of_quietL hq)
  have ha : parseAtom isAlnum (f + 1) re st ix d = .ok (ix, .empty, st) := by
    unfold parseAtom
    simp only [hws, Res.ok_bind]
    cases post with
    | nil => have := hp.size; simp at this; simp [this]
    | cons b rest =>
      have hg := hp.get
      have hlt := lt_size_of_get hg
      have hne : (ix == re.size) = false := by simpa using (by omega : ix ≠ re.size)
      simp only [hne, Bool.false_eq_true, ↓reduceIte, byteAt, hg, Res.ok_bind]
      simp [termL] at ht
      rcases ht with rfl | rfl <;> simp [ch]
  exact parsePiece_noquant isAlnum ha hfl hp hq

theorem branchLoop_nil {re : Bytes} (isAlnum : Char → Bool) {f : Nat} {st : PState}
    {ix d : Nat} {post : List Nat} (hfl : st.flags.ignoreSpace = false)
    (hp : At re ix post) (ht : termL post = true) :
    branchLoop isAlnum (f + 3) re st ix d = .ok (ix, [], st) := by
  unfold branchLoop
  simp only [parsePiece_term isAlnum hfl hp ht, Res.ok_bind, beq_self_eq_true, ↓reduceIte, ite_self]

theorem branchLoop_cons {re : Bytes} (isAlnum : Char → Bool) {f : Nat} {st st1 st' : PState}
    {ix ix1 ix' d : Nat} {child : Expr} {rest : List Expr}
    (hp : parsePiece isAlnum f re st ix d = .ok (ix1, child, st1)) (hlt : ix < ix1) (hsz : ix < re.size)
    (hne : child.isEmpty = false)
    (hl : branchLoop isAlnum f re st1 ix1 d = .ok (ix', rest, st')) :
    branchLoop isAlnum (f + 1) re st ix d = .ok (ix', child :: rest, st') := by
  have : (ix1 == ix) = false := by simpa using (by omega : ix1 ≠ ix)
  unfold branchLoop
  simp only [hsz, ↓reduceIte, hp, Res.ok_bind, this, Bool.false_eq_true, hl, hne]

theorem parseBranch_of_loop {re : Bytes} (isAlnum : Char → Bool) {f : Nat} {st st' : PState}
    {ix ix' d : Nat} {cs : List Expr}
    (hl : branchLoop isAlnum f re st ix d = .ok (ix', cs, st')) :
    parseBranch isAlnum (f + 1) re st ix d = .ok (ix', branchTree cs, st') := by
  unfold parseBranch
  simp only [hl, Res.ok_bind]
  match cs with
  | [] => rfl
  | [_] => rfl
  | _ :: _ :: _ => rfl

/-! ## glue: alternations -/

theorem boundary_at_term {re : Bytes} {ix : Nat} {post : List Nat} (hp : At re ix post)
    (ht : termL post = true) : isBoundary re ix = true := by
  cases post with
  | nil => have := hp.size; simp at this; rw [← this]; exact isBoundary_size re
  | cons b rest =>
    simp [termL] at ht
    exact isBoundary_of_ascii hp.get (by rcases ht with rfl | rfl <;> decide)

theorem parseRe_of_branch {re : Bytes} (isAlnum : Char → Bool) {f : Nat} {st st' : PState}
    {ix ix' d : Nat} {child : Expr} {post : List Nat}
    (hb : parseBranch isAlnum f re st ix d = .ok (ix', child, st'))
    (hfl : st'.flags.ignoreSpace = false) (hnb : st'.numericBackrefs = false)
    (hp : At re ix' post) (hc : closeL post = true) :
    parseRe isAlnum (f + 1) re st ix d = .ok (ix', child, { st' with lastReHadAlt := false }) := by
  have ht := termL_of_closeL hc
  have hws := optWs_at hp hfl (noCmt_of_quietL (quietL_of_termL ht))
  have hbd := boundary_at_term hp ht
  have hnp : re[ix']? ≠ some (ch '|') := by
    cases post with
    | nil => simp [hp.nil_get]
    | cons b rest => simp [closeL] at hc; subst hc; rw [hp.get]; decide
  unfold parseRe
  simp [hb, hws, sliceFrom, sliceFromOk, hbd, hnp, hnb]

theorem reAltLoop_nil {re : Bytes} (isAlnum : Char → Bool) {f : Nat} {st : PState}
    {ix d : Nat} {post : List Nat} (hp : At re ix post) (hc : closeL post = true) :
    reAltLoop isAlnum (f + 1) re st ix d = .ok (ix, [], st) := by
  have hbd := boundary_at_term hp (termL_of_closeL hc)
  have hnp : re[ix]? ≠ some (ch '|') := by
    cases post with
    | nil => simp [hp.nil_get]
    | cons b rest => simp [closeL] at hc; subst hc; rw [hp.get]; decide
  unfold reAltLoop
  simp [sliceFrom, sliceFromOk, hbd, hnp]

theorem reAltLoop_cons {re : Bytes} (isAlnum : Char → Bool) {f : Nat} {st st1 st' : PState}
    {ix ix1 ix' d : Nat} {child : Expr} {rest : List Expr} {post : List Nat}
    (hbar : re[ix]? = some (ch '|'))
    (hb : parseBranch isAlnum f re st (ix + 1) d = .ok (ix1, child, st1))
    (hfl : st1.flags.ignoreSpace = false) (hp : At re ix1 post) (ht : termL post = true)
    (hl : reAltLoop isAlnum f re st1 ix1 d = .ok (ix', rest, st')) :
    reAltLoop isAlnum (f + 1) re st ix d = .ok (ix', child :: rest, st') := by
  have hbd : isBoundary re ix = true := isBoundary_of_ascii hbar (by decide)
  have hws := optWs_at hp hfl (noCmt_of_quietL (quietL_of_termL ht))
  unfold reAltLoop
  simp [sliceFrom, sliceFromOk, hbd, hbar, hb, hws, hl]

theorem parseRe_of_alt {re : Bytes} (isAlnum : Char → Bool) {f : Nat} {st st1 st' : PState}
    {ix ix1 ix' d : Nat} {child : Expr} {rest : List Expr} {post : List Nat}
    (hb : parseBranch isAlnum f re st ix d = .ok (ix1, child, st1))
    (hfl : st1.flags.ignoreSpace = false) (hp : At re ix1 (ch '|' :: post))
    (hl : reAltLoop isAlnum f re st1 ix1 d = .ok (ix', rest, st')) :
    parseRe isAlnum (f + 1) re st ix d =
      .ok (ix', .alt (child :: rest), { st' with lastReHadAlt := true }) := by
  have hbar := hp.get
  have hbd : isBoundary re ix1 = true := isBoundary_of_ascii hbar (by decide)
  have hws := optWs_at hp hfl (by simp [noCmt, ch])
  unfold parseRe
  simp [hb, hws, sliceFrom, sliceFromOk, hbd, hbar, hl]


/-! ## glue: parenthesised atoms -/

theorem parseAtom_paren {re : Bytes} (isAlnum : Char → Bool) {f : Nat} {st : PState}
    {ix d : Nat} {l : List Nat} (hp : At re ix (ch '(' :: l)) (hn : noCmt (ch '(' :: l) = true)
    (hfl : st.flags.ignoreSpace = false) :
    parseAtom isAlnum (f + 1) re st ix d = parseGroup isAlnum f re st ix d := by
  have hws := optWs_at hp hfl hn
  have hg := hp.get
  have hlt := lt_size_of_get hg
  have hne : (ix == re.size) = false := by simpa using (by omega : ix ≠ re.size)
  unfold parseAtom
  simp only [hws, Res.ok_bind, hne, Bool.false_eq_true, ↓reduceIte, byteAt, hg]
  have e1 : (ch '(' == ch '.') = false := by decide
  have e2 : (ch '(' == ch '^') = false := by decide
  have e3 : (ch '(' == ch '$') = false := by decide
  simp only [e1, e2, e3, Bool.false_eq_true, ↓reduceIte, beq_self_eq_true]

theorem checkForCloseParen_at {re : Bytes} {fl : Flags} {ix : Nat} (hfl : fl.ignoreSpace = false)
    (hcl : re[ix]? = some (ch ')')) : checkForCloseParen re fl ix = .ok (ix + 1) := by
  have hlt := lt_size_of_get hcl
  have hws : optWs re fl ix = .ok ix := optWs_stay hfl (by omega) (by
    intro b hb; rw [hcl] at hb; cases hb; decide)
  have hne : (ix == re.size) = false := by simpa using (by omega : ix ≠ re.size)
  have hne' : ix ≠ re.size := by omega
  unfold checkForCloseParen
  simp [hws, hne', byteAt, hcl]

theorem parseAtom_group {re : Bytes} (hwf : WF re) (isAlnum : Char → Bool) {f : Nat} {st st2 : PState}
    {ix ix2 d : Nat} {child : Expr} {l : List Nat}
    (hp : At re ix (ch '(' :: l)) (hq : quietL l = true) (hfl : st.flags.ignoreSpace = false)
    (hd : d + 1 < Generated.maxRecursion)
    (hr : parseRe isAlnum f re { st with currGroup := st.currGroup + 1 } (ix + 1) (d + 1) =
      .ok (ix2, child, st2))
    (hfl2 : st2.flags.ignoreSpace = false) (hcl : re[ix2]? = some (ch ')')) :
    parseAtom isAlnum (f + 2) re st ix d = .ok (ix2 + 1, .group 0 child, st2) := by
  have hne : re[ix + 1]? ≠ some (ch '?') := by
    rw [hp.get? 1]
    cases l with
    | nil => simp
    | cons b r =>
      simp only [quietL, Bool.and_eq_true, Bool.not_eq_true', beq_eq_false_iff_ne] at hq
      simp [ch]; exact hq.2.1.1.1
  have hn : noCmt (ch '(' :: l) = true := by
    cases l with
    | nil => rfl
    | cons b r =>
      simp only [quietL, Bool.and_eq_true, Bool.not_eq_true', beq_eq_false_iff_ne] at hq
      have := hq.2.1.1.1
      simp [noCmt]; exact Or.inr (Or.inl this)
  rw [parseAtom_paren isAlnum hp hn hfl]
  have hws : optWs re st.flags (ix + 1) = .ok (ix + 1) := optWs_at hp.cons hfl (noCmt_of_quietL hq)
  have hb : isBoundary re (ix + 1) = true := hwf.step_ascii hp.get (by decide)
  have hdd : ¬ (d + 1 ≥ Generated.maxRecursion) := by omega
  have hcc := checkForCloseParen_at hfl2 hcl
  rw [parseGroup]
  simp [hdd, hws, sliceFrom, sliceFromOk, hb, lookOf, startsWithAt, hne, hr, hcc]

theorem parseGroup_flags {re : Bytes} (hwf : WF re) (isAlnum : Char → Bool) {f : Nat} {st : PState}
    {ix d x : Nat} {l : List Nat}
    (hp : At re ix (ch '(' :: ch '?' :: x :: l))
    (hx : x = ch ':' ∨ x = ch 'i' ∨ x = ch 'm' ∨ x = ch 's')
    (hfl : st.flags.ignoreSpace = false) (hd : d + 1 < Generated.maxRecursion) :
    parseAtom isAlnum (f + 2) re st ix d = parseFlags isAlnum f re st (ix + 1) (d + 1) := by
  have hn : noCmt (ch '(' :: ch '?' :: x :: l) = true := by
    rcases hx with rfl | rfl | rfl | rfl <;> simp [noCmt, ch]
  rw [parseAtom_paren isAlnum hp hn hfl]
  have h1 : re[ix + 1]? = some (ch '?') := by rw [hp.get? 1]; rfl
  have h2 : re[ix + 2]? = some x := by rw [hp.get? 2]; rfl
  have hws : optWs re st.flags (ix + 1) = .ok (ix + 1) :=
    optWs_at hp.cons hfl (by simp [noCmt, ch])
  have hb : isBoundary re (ix + 1) = true := hwf.step_ascii hp.get (by decide)
  have hdd : ¬ (d + 1 ≥ Generated.maxRecursion) := by omega
  rw [parseGroup]
  rcases hx with rfl | rfl | rfl | rfl <;>
    simp [hdd, hws, sliceFrom, sliceFromOk, hb, lookOf, startsWithAt, h1, h2, ch]


theorem flagsLoop_colon {re : Bytes} {n : Nat} {fl : Flags} {s0 s : Nat} {l : List Nat}
    (hp : At re s (ch ':' :: l)) (hfl : fl.ignoreSpace = false) :
    flagsLoop (n + 1) re fl s0 s false = .ok (.colon s, fl) := by
  have hg := hp.get
  have hlt := lt_size_of_get hg
  have hws : optWs re fl s = .ok s := optWs_at hp hfl (by simp [noCmt, ch])
  have hne : s ≠ re.size := by omega
  rw [flagsLoop]
  simp [hws, hne, hg, ch]

theorem flagsLoop_letter {re : Bytes} {n : Nat} {fl : Flags} {s0 s b : Nat} {l : List Nat}
    (hp : At re s (b :: ch ':' :: l)) (hb : b = ch 'i' ∨ b = ch 'm' ∨ b = ch 's')
    (hfl : fl.ignoreSpace = false) :
    flagsLoop (n + 2) re fl s0 s false = .ok (.colon (s + 1), updateFlag fl b false) := by
  have hg := hp.get
  have hlt := lt_size_of_get hg
  have hws : optWs re fl s = .ok s := optWs_at hp hfl (by
    rcases hb with rfl | rfl | rfl <;> simp [noCmt, ch])
  have hne : s ≠ re.size := by omega
  have hfl' : (updateFlag fl b false).ignoreSpace = false := by
    rcases hb with rfl | rfl | rfl <;> simp [updateFlag, ch, hfl]
  have hnext := flagsLoop_colon (n := n) (s0 := s0) hp.cons hfl'
  rw [flagsLoop]
  rcases hb with rfl | rfl | rfl <;> simp [hws, hne, hg, ch] <;> exact hnext

theorem parseFlags_colon {re : Bytes} (isAlnum : Char → Bool) {f : Nat} {st st2 : PState}
    {ix i ix2 d : Nat} {fl : Flags} {child : Expr}
    (hl : flagsLoop (re.size + 2) re st.flags (ix + 1) (ix + 1) false = .ok (.colon i, fl))
    (hr : parseRe isAlnum f re { st with flags := fl } (i + 1) d = .ok (ix2, child, st2))
    (hcl : re[ix2]? = some (ch ')')) :
    parseFlags isAlnum (f + 1) re st ix d = .ok (ix2 + 1, child, { st2 with flags := st.flags }) := by
  have hlt := lt_size_of_get hcl
  have hne : ix2 ≠ re.size := by omega
  rw [parseFlags]
  simp [hl, hr, hne, byteAt, hcl]

/-- `(?:X)`: the atom is the tree of `X` -/
theorem parseAtom_wrap0 {re : Bytes} (hwf : WF re) (isAlnum : Char → Bool) {f : Nat} {st st2 : PState}
    {ix ix2 d : Nat} {child : Expr} {l : List Nat}
    (hp : At re ix (ch '(' :: ch '?' :: ch ':' :: l)) (hfl : st.flags.ignoreSpace = false)
    (hd : d + 1 < Generated.maxRecursion)
    (hr : parseRe isAlnum f re st (ix + 3) (d + 1) = .ok (ix2, child, st2))
    (hcl : re[ix2]? = some (ch ')')) :
    parseAtom isAlnum (f + 3) re st ix d = .ok (ix2 + 1, child, { st2 with flags := st.flags }) := by
  rw [parseGroup_flags hwf isAlnum hp (Or.inl rfl) hfl hd]
  have hl := flagsLoop_colon (n := re.size + 1) (s0 := ix + 1 + 1) (fl := st.flags) hp.cons.cons hfl
  exact parseFlags_colon isAlnum hl hr hcl

/-- `(?i:X)`, `(?m:X)`, `(?s:X)` -/
theorem parseAtom_wrap1 {re : Bytes} (hwf : WF re) (isAlnum : Char → Bool) {f : Nat} {st st2 : PState}
    {ix ix2 d b : Nat} {child : Expr} {l : List Nat}
    (hp : At re ix (ch '(' :: ch '?' :: b :: ch ':' :: l)) (hb : b = ch 'i' ∨ b = ch 'm' ∨ b = ch 's')
    (hfl : st.flags.ignoreSpace = false)
    (hd : d + 1 < Generated.maxRecursion)
    (hr : parseRe isAlnum f re { st with flags := updateFlag st.flags b false } (ix + 4) (d + 1) =
      .ok (ix2, child, st2))
    (hcl : re[ix2]? = some (ch ')')) :
    parseAtom isAlnum (f + 3) re st ix d = .ok (ix2 + 1, child, { st2 with flags := st.flags }) := by
  rw [parseGroup_flags hwf isAlnum hp (Or.inr hb) hfl hd]
  have hl := flagsLoop_letter (n := re.size) (s0 := ix + 1 + 1) (fl := st.flags) hp.cons.cons hb hfl
  exact parseFlags_colon isAlnum hl hr hcl


/-! ## leaves -/

/-- a pattern that is one atom, up to the closing parenthesis -/
theorem parseRe_single {re : Bytes} (isAlnum : Char → Bool) {f : Nat} {st st' : PState}
    {ix ix' d : Nat} {child : Expr} {post : List Nat}
    (ha : parseAtom isAlnum (f + 2) re st ix d = .ok (ix', child, st'))
    (hlt : ix < ix') (hne : child.isEmpty = false)
    (hfl : st'.flags.ignoreSpace = false) (hnb : st'.numericBackrefs = false)
    (hp : At re ix' post) (hc : closeL post = true) :
    parseRe isAlnum (f + 6) re st ix d = .ok (ix', child, { st' with lastReHadAlt := false }) := by
  have ht := termL_of_closeL hc
  have hpc := parsePiece_noquant isAlnum ha hfl hp (quietL_of_termL ht)
  have hsz : ix < re.size := by have := hp.size; omega
  have hl := branchLoop_cons isAlnum hpc hlt hsz hne (branchLoop_nil isAlnum hfl hp ht)
  have hb := parseBranch_of_loop isAlnum hl
  exact parseRe_of_branch isAlnum hb hfl hnb hp hc

theorem parseAtom_dot {re : Bytes} (isAlnum : Char → Bool) {f : Nat} {st : PState}
    {ix d : Nat} {l : List Nat} (hp : At re ix (ch '.' :: l)) (hfl : st.flags.ignoreSpace = false) :
    parseAtom isAlnum (f + 1) re st ix d = .ok (ix + 1, .any st.flags.dotnl, st) := by
  have hws := optWs_at hp hfl (by simp [noCmt, ch])
  have hg := hp.get
  have hlt := lt_size_of_get hg
  have hne : ix ≠ re.size := by omega
  unfold parseAtom
  simp [hws, hne, byteAt, hg]

theorem parseAtom_caret {re : Bytes} (isAlnum : Char → Bool) {f : Nat} {st : PState}
    {ix d : Nat} {l : List Nat} (hp : At re ix (ch '^' :: l)) (hfl : st.flags.ignoreSpace = false) :
    parseAtom isAlnum (f + 1) re st ix d =
      .ok (ix + 1, .assertion (if st.flags.multi then .startLine false else .startText), st) := by
  have hws := optWs_at hp hfl (by simp [noCmt, ch])
  have hg := hp.get
  have hlt := lt_size_of_get hg
  have hne : ix ≠ re.size := by omega
  unfold parseAtom
  simp [hws, hne, byteAt, hg, ch]

theorem parseAtom_dollar {re : Bytes} (isAlnum : Char → Bool) {f : Nat} {st : PState}
    {ix d : Nat} {l : List Nat} (hp : At re ix (ch '$' :: l)) (hfl : st.flags.ignoreSpace = false) :
    parseAtom isAlnum (f + 1) re st ix d =
      .ok (ix + 1, .assertion (if st.flags.multi then .endLine false else .endText), st) := by
  have hws := optWs_at hp hfl (by simp [noCmt, ch])
  have hg := hp.get
  have hlt := lt_size_of_get hg
  have hne : ix ≠ re.size := by omega
  unfold parseAtom
  simp [hws, hne, byteAt, hg, ch]

/-- a character that is not special, written as itself -/
theorem parseAtom_plainAt {re : Bytes} (hwf : WF re) (isAlnum : Char → Bool) {f : Nat} {st : PState}
    {ix d : Nat} {c : Char} {l : List Nat} (hp : At re ix (Utf8.encodeChar c.toNat ++ l))
    (hfl : st.flags.ignoreSpace = false) (hs : Generated.isSpecial c = false) :
    parseAtom isAlnum (f + 1) re st ix d =
      .ok (ix + (Utf8.encodeChar c.toNat).length, .literal [c] st.flags.casei, st) := by
  obtain ⟨pre, h, rfl⟩ := hp
  exact parseAtom_plain hwf isAlnum f st d h hfl (by
    intro b' rest' he'
    exact (plain_atomPlain (lead_plain hs he')).1)

/-- a special character, written with a backslash -/
theorem parseAtom_escapedAt {re : Bytes} (hwf : WF re) (isAlnum : Char → Bool) {f : Nat} {st : PState}
    {ix d : Nat} {c : Char} {l : List Nat} (hp : At re ix (ch '\\' :: c.toNat :: l))
    (hfl : st.flags.ignoreSpace = false) (hs : Generated.isSpecial c = true) :
    parseAtom isAlnum (f + 1) re st ix d = .ok (ix + 2, .literal [c] false, st) :=
  parseAtom_escaped hwf isAlnum f st d hfl hp.get (by rw [hp.get? 1]; rfl)
    (special_escPlain c (mem_special hs))


/-! ## glue: quantifiers -/

theorem At.head_quiet {re : Bytes} {k : Nat} {post : List Nat} (hp : At re k post)
    (hq : quietL post = true) : re[k]? ≠ some (ch '?') ∧ re[k]? ≠ some (ch '+') := by
  cases post with
  | nil => simp [hp.nil_get]
  | cons b r =>
    simp only [quietL, Bool.and_eq_true, Bool.not_eq_true', beq_eq_false_iff_ne] at hq
    rw [hp.get]
    simp [ch]
    exact ⟨hq.2.1.1.1, hq.2.1.2⟩

theorem parsePiece_quant {re : Bytes} (isAlnum : Char → Bool) {f : Nat} {st st1 : PState}
    {ix ix1 d b lo hi qe : Nat} {child : Expr} {lz post : List Nat}
    (ha : parseAtom isAlnum f re st ix d = .ok (ix1, child, st1))
    (hg : GoodSt st1) (hb : re[ix1]? = some b) (hbq : b ≠ ch '(')
    (hq : quantAt re st1.flags ix1 b = .ok (some (lo, hi, qe)))
    (hr : isRepeatable child = true)
    (hp : At re (qe + 1) (lz ++ post)) (hlz : lz = [] ∨ lz = [ch '?']) (hpost : quietL post = true) :
    parsePiece isAlnum (f + 1) re st ix d =
      .ok (qe + 1 + lz.length, .repeat child lo (hiOf hi) lz.isEmpty, st1) := by
  have hlt := lt_size_of_get hb
  have hw : optWs re st1.flags ix1 = .ok ix1 := optWs_stay hg.ws (by omega) (by
    intro b' hb'; rw [hb] at hb'; cases hb'; exact hbq)
  have hw3 : optWs re st1.flags (qe + 1) = .ok (qe + 1) := optWs_at hp hg.ws (by
    rcases hlz with rfl | rfl
    · exact noCmt_of_quietL hpost
    · simp [noCmt, ch])
  rw [parsePiece_suffix isAlnum ha hw hb hq hr hw3]
  have hsw : st1.flags.swapGreed = false := by rw [hg.flags]
  rcases hlz with rfl | rfl
  · simp only [List.nil_append] at hp
    obtain ⟨h1, h2⟩ := hp.head_quiet hpost
    have hl : lazyAt re (qe + 1) = false := by
      simp only [lazyAt, Bool.and_eq_false_imp, decide_eq_true_eq]
      intro _; simpa using h1
    simp [afterLazy, repNode, hl, h2, hsw]
  · have h0 := hp.get
    have hl : lazyAt re (qe + 1) = true := by
      unfold lazyAt; rw [h0]; simp [lt_size_of_get h0]
    obtain ⟨h1, h2⟩ := (hp.cons).head_quiet hpost
    simp [afterLazy, repNode, hl, h2, hsw]

/-! ## the fragment -/

/-- does `to_str` put `(?:…)` around this node at this precedence -/
def wrapped : Expr → Nat → Bool
  | .concat _, p => decide (p > 1)
  | .alt _, p => decide (p > 0)
  | .repeat _ _ _ _, p => decide (p > 2)
  | _, _ => false

mutual
/-- parenthesis nesting of the text `to_str` writes for the node, without its own `(?:…)` -/
def nestIn : Expr → Nat
  | .any nl => if nl then 1 else 0
  | .literal _ ci => if ci then 1 else 0
  | .assertion a => match a with
    | .startText => 0
    | .endText => 0
    | _ => 1
  | .concat es => nestMax es 2
  | .alt es => nestMax es 1
  | .group _ e => 1 + nestIn e
  | .repeat e _ _ _ => nestIn e + (if wrapped e 3 then 1 else 0)
  | _ => 0
def nestMax : List Expr → Nat → Nat
  | [], _ => 0
  | e :: es, p => max (nestIn e + (if wrapped e p then 1 else 0)) (nestMax es p)
end

/-- parenthesis nesting of `to_str e prec` -/
def nestP (e : Expr) (p : Nat) : Nat := nestIn e + (if wrapped e p then 1 else 0)

/-- the quantifier as `to_str` spells it -/
def quantText (lo : Nat) (hi : Option Nat) : List Char :=
  match lo, hi with
  | 0, some 1 => ['?']
  | 0, none => ['*']
  | 1, none => ['+']
  | lo, hi =>
    '{' :: natDigits lo ++
      (if hi == some lo || (hi.isNone && lo == UNSET) then []
       else ',' :: (match hi with | some h => natDigits h | none => []))
      ++ ['}']

mutual
/-- the shape of the trees for which the round trip is the identity -/
def rtShape : Expr → Bool
  | .empty => true
  | .any _ => true
  | .literal val casei => match val with
    | [c] => !(casei && Generated.isSpecial c)
    | _ => false
  | .assertion a => match a with
    | .startText => true
    | .endText => true
    | .startLine crlf => !crlf
    | .endLine crlf => !crlf
    | _ => false
  | .concat es => decide (2 ≤ es.length) && rtPieces es
  | .alt es => decide (2 ≤ es.length) && rtAll es
  | .group g e => g == 0 && rtShape e
  | .repeat e lo hi _ => rtShape e && isRepeatable e && decide (lo ≤ usizeMax) &&
      (match hi with | some h => decide (h < usizeMax) | none => true)
  | _ => false
/-- children of a concatenation: in the fragment, and not `Empty` -/
def rtPieces : List Expr → Bool
  | [] => true
  | e :: es => rtShape e && !e.isEmpty && rtPieces es
def rtAll : List Expr → Bool
  | [] => true
  | e :: es => rtShape e && rtAll es
end

/-- the fragment: the shape, and at most 63 levels of parentheses in the text (the parser's
    `MAX_RECURSION`) -/
def rtOK (e : Expr) : Bool := rtShape e && decide (nestP e 0 < Generated.maxRecursion)

/-! ## bytes of the texts -/

theorem enc_append (a b : List Char) : enc (a ++ b) = enc a ++ enc b := by
  simp [enc, Utf8.encode]

theorem enc_ascii (c : Char) (cs : List Char) (h : c.toNat < 128) : enc (c :: cs) = c.toNat :: enc cs := by
  rw [enc_cons]; simp [Utf8.encodeChar, h]

theorem enc_wrap (t : List Char) : enc ("(?:".toList ++ t ++ [')']) = 40 :: 63 :: 58 :: (enc t ++ [41]) := by
  simp only [enc_append]; rfl
theorem enc_group (t : List Char) : enc ('(' :: t ++ [')']) = 40 :: (enc t ++ [41]) := by
  rw [show '(' :: t ++ [')'] = ['('] ++ t ++ [')'] from rfl]
  simp only [enc_append]; rfl

theorem toStr_repeat (sp : Char → Bool) (e : Expr) (lo : Nat) (hi : Option Nat) (g : Bool) (p : Nat) :
    toStr sp (.repeat e lo hi g) p = (toStr sp e 3).map fun s =>
      let body := s ++ quantText lo hi ++ (if g then [] else ['?'])
      if p > 2 then "(?:".toList ++ body ++ [')'] else body := by
  simp only [toStr, quantText]
  congr 1

/-! ## how the texts start -/

theorem quietL_wrap (x : Nat) (l : List Nat) (hx : x ≠ 35) : quietL (40 :: 63 :: x :: l) = true := by
  simp [quietL, noCmt, hx]

theorem quietL_plain {b : Nat} (l : List Nat) (h : quiet b = true) : quietL (b :: l) = true := by
  simp only [quiet, Bool.and_eq_true, Bool.not_eq_true', beq_eq_false_iff_ne, ch] at h
  obtain ⟨⟨⟨⟨h1, h2⟩, h3⟩, h4⟩, h5⟩ := h
  have : noCmt (b :: l) = true := by
    simp [noCmt]; exact Or.inl h1
  simp only [quietL, this, Bool.true_and, Bool.and_eq_true, Bool.not_eq_true', beq_eq_false_iff_ne]
  exact ⟨⟨⟨h2, h3⟩, h4⟩, h5⟩

theorem quietL_head_ne {l : List Nat} (h : quietL l = true) : l.head? ≠ some 63 := by
  cases l with
  | nil => simp
  | cons b r =>
    simp only [quietL, Bool.and_eq_true, Bool.not_eq_true', beq_eq_false_iff_ne] at h
    simp; exact h.2.1.1.1

theorem quietL_group (l : List Nat) (h : quietL l = true) : quietL (40 :: l) = true := by
  have := quietL_head_ne h
  cases l with
  | nil => rfl
  | cons b r =>
    simp at this
    simp [quietL, noCmt, this]

theorem enc_lit_plain {c : Char} (hs : Generated.isSpecial c = false) (l : List Nat) :
    (Utf8.encodeChar c.toNat) ≠ [] ∧ quietL (Utf8.encodeChar c.toNat ++ l) = true := by
  obtain ⟨b, rest, he, _⟩ := Utf8.encodeChar_shape c.toNat
  rw [he]
  exact ⟨by simp, quietL_plain _ (plain_atomPlain (lead_plain hs he)).2⟩

theorem toStrAlt_false_head (sp : Char → Bool) : ∀ (es : List Expr) (t : List Char),
    toStrAlt sp es false = some t → t = [] ∨ ∃ t', t = '|' :: t'
  | [], t, h => by simp [toStrAlt] at h; exact Or.inl h
  | e :: es, t, h => by
    simp only [toStrAlt] at h
    split at h
    · rename_i a b _ _
      simp at h; subst h
      exact Or.inr ⟨a ++ b, by simp⟩
    · cases h

theorem quietNE : ∀ (e : Expr), rtShape e = true → e.isEmpty = false → ∀ (p : Nat) (s : List Char),
    toStr Generated.isSpecial e p = some s → s ≠ [] ∧ ∀ post, quietL (enc s ++ post) = true
  | .empty, _, h, _, _, _ => by simp [Expr.isEmpty] at h
  | .any nl, _, _, p, s, hs => by
    simp only [toStr, Option.some.injEq] at hs; subst hs
    cases nl
    · exact ⟨by simp, fun post => by rfl⟩
    · exact ⟨by simp, fun post => quietL_wrap _ _ (by decide)⟩
  | .literal val ci, hr, _, p, s, hs => by
    match val, hr with
    | [c], hr =>
      simp only [rtShape, Bool.not_eq_true', Bool.and_eq_false_iff] at hr
      simp only [toStr, Option.some.injEq] at hs; subst hs
      cases ci
      · simp only [Bool.false_eq_true, ↓reduceIte, pushQuoted]
        cases hc : Generated.isSpecial c
        · simp only [Bool.false_eq_true, ↓reduceIte]
          refine ⟨by simp, fun post => ?_⟩
          rw [enc_cons, enc_nil, List.append_nil]
          exact (enc_lit_plain hc post).2
        · simp only [↓reduceIte]
          refine ⟨by simp, fun post => ?_⟩
          rw [enc_ascii _ _ (by decide)]
          exact quietL_plain _ (by decide)
      · simp only [↓reduceIte]
        exact ⟨by simp, fun post => quietL_wrap _ _ (by decide)⟩
  | .assertion a, hr, _, p, s, hs => by
    cases a with
    | startText => simp only [toStr, Option.some.injEq] at hs; subst hs; exact ⟨by simp, fun post => by rfl⟩
    | endText => simp only [toStr, Option.some.injEq] at hs; subst hs; exact ⟨by simp, fun post => by rfl⟩
    | startLine crlf =>
      cases crlf
      · simp only [toStr, Option.some.injEq] at hs; subst hs
        exact ⟨by simp, fun post => quietL_wrap _ _ (by decide)⟩
      · simp [rtShape] at hr
    | endLine crlf =>
      cases crlf
      · simp only [toStr, Option.some.injEq] at hs; subst hs
        exact ⟨by simp, fun post => quietL_wrap _ _ (by decide)⟩
      · simp [rtShape] at hr
    | _ => simp [rtShape] at hr
  | .concat es, hr, _, p, s, hs => by
    simp only [toStr, Option.map_eq_some_iff] at hs
    obtain ⟨t, ht, rfl⟩ := hs
    split
    · exact ⟨by simp, fun post => by rw [enc_wrap]; exact quietL_wrap _ _ (by decide)⟩
    · match es, hr, ht with
      | e :: es', hr, ht =>
        simp only [rtShape, rtPieces, Bool.and_eq_true, Bool.not_eq_true'] at hr
        simp only [toStrConcat] at ht
        split at ht
        · rename_i a b ha hb
          simp at ht; subst ht
          have := quietNE e hr.2.1.1 hr.2.1.2 2 a ha
          refine ⟨by simp [this.1], fun post => ?_⟩
          rw [enc_append, List.append_assoc]
          exact this.2 _
        · cases ht
      | [], hr, _ => simp [rtShape] at hr
  | .alt es, hr, _, p, s, hs => by
    simp only [toStr, Option.map_eq_some_iff] at hs
    obtain ⟨t, ht, rfl⟩ := hs
    split
    · exact ⟨by simp, fun post => by rw [enc_wrap]; exact quietL_wrap _ _ (by decide)⟩
    · match es, hr, ht with
      | e :: e2 :: es', hr, ht =>
        simp only [rtShape, rtAll, Bool.and_eq_true] at hr
        simp only [toStrAlt] at ht
        split at ht
        · rename_i a b ha hb
          split at hb
          · rename_i a2 b2 ha2 hb2
            simp at hb; subst hb
            simp at ht; subst ht
            cases hemp : e.isEmpty
            · have := quietNE e hr.2.1 hemp 1 a ha
              refine ⟨by simp, fun post => ?_⟩
              rw [enc_append, List.append_assoc]
              exact this.2 _
            · have : e = .empty := by cases e <;> simp_all [Expr.isEmpty]
              subst this
              simp only [toStr, Option.some.injEq] at ha; subst ha
              refine ⟨by simp, fun post => ?_⟩
              simp only [List.nil_append]
              rw [enc_ascii _ _ (by decide)]
              rfl
          · cases hb
        · cases ht
      | [_], hr, _ => simp [rtShape] at hr
      | [], hr, _ => simp [rtShape] at hr
  | .group g e, hr, _, p, s, hs => by
    simp only [rtShape, Bool.and_eq_true] at hr
    simp only [toStr, Option.map_eq_some_iff] at hs
    obtain ⟨t, ht, rfl⟩ := hs
    refine ⟨by simp, fun post => ?_⟩
    rw [enc_group]
    simp only [List.cons_append]
    apply quietL_group
    rw [List.append_assoc]
    cases hemp : e.isEmpty
    · exact (quietNE e hr.2 hemp 0 t ht).2 _
    · have : e = .empty := by cases e <;> simp_all [Expr.isEmpty]
      subst this
      simp only [toStr, Option.some.injEq] at ht; subst ht
      rfl
  | .repeat e lo hi g, hr, _, p, s, hs => by
    simp only [rtShape, Bool.and_eq_true] at hr
    rw [toStr_repeat] at hs
    simp only [Option.map_eq_some_iff] at hs
    obtain ⟨t, ht, rfl⟩ := hs
    have hemp : e.isEmpty = false := by
      have := hr.1.1.2
      cases e <;> simp_all [Expr.isEmpty, isRepeatable]
    have := quietNE e hr.1.1.1 hemp 3 t ht
    split
    · exact ⟨by simp, fun post => by rw [enc_wrap]; exact quietL_wrap _ _ (by decide)⟩
    · refine ⟨by simp [this.1], fun post => ?_⟩
      rw [List.append_assoc, enc_append, List.append_assoc]
      exact this.2 _
  | .look _ _, hr, _, _, _, _ | .delegate _ _ _, hr, _, _, _, _ | .backref _, hr, _, _, _, _
  | .atomic _, hr, _, _, _, _ | .keepOut, hr, _, _, _, _ | .contPrev, hr, _, _, _, _
  | .backrefExists _, hr, _, _, _, _ | .cond _ _ _, hr, _, _, _, _ | .subroutine _, hr, _, _, _, _ => by
    simp [rtShape] at hr

/-! ## the four levels -/


def AtomOK (e : Expr) : Prop :=
  ∀ (isAlnum : Char → Bool) (re : Bytes), WF re → ∀ (s : List Char) (post : List Nat) (st : PState)
    (ix f d : Nat), toStr Generated.isSpecial e 3 = some s → At re ix (enc s ++ post) → GoodSt st →
    d + nestP e 3 < Generated.maxRecursion → 2 * (enc s).length + 8 * nestP e 3 + 4 ≤ f →
    ∃ st', parseAtom isAlnum f re st ix d = .ok (ix + (enc s).length, e, st') ∧ GoodSt st'

def PieceOK (e : Expr) : Prop :=
  ∀ (isAlnum : Char → Bool) (re : Bytes), WF re → ∀ (s : List Char) (post : List Nat) (st : PState)
    (ix f d : Nat), toStr Generated.isSpecial e 2 = some s → At re ix (enc s ++ post) →
    quietL post = true → GoodSt st →
    d + nestP e 2 < Generated.maxRecursion → 2 * (enc s).length + 8 * nestP e 2 + 5 ≤ f →
    ∃ st', parsePiece isAlnum f re st ix d = .ok (ix + (enc s).length, e, st') ∧ GoodSt st'

def BranchOK (e : Expr) : Prop :=
  ∀ (isAlnum : Char → Bool) (re : Bytes), WF re → ∀ (s : List Char) (post : List Nat) (st : PState)
    (ix f d : Nat), toStr Generated.isSpecial e 1 = some s → At re ix (enc s ++ post) →
    termL post = true → GoodSt st →
    d + nestP e 1 < Generated.maxRecursion → 2 * (enc s).length + 8 * nestP e 1 + 7 ≤ f →
    ∃ st', parseBranch isAlnum f re st ix d = .ok (ix + (enc s).length, e, st') ∧ GoodSt st'

def ReOK (e : Expr) : Prop :=
  ∀ (isAlnum : Char → Bool) (re : Bytes), WF re → ∀ (s : List Char) (post : List Nat) (st : PState)
    (ix f d : Nat), toStr Generated.isSpecial e 0 = some s → At re ix (enc s ++ post) →
    closeL post = true → GoodSt st →
    d + nestP e 0 < Generated.maxRecursion → 2 * (enc s).length + 8 * nestP e 0 + 8 ≤ f →
    ∃ st', parseRe isAlnum f re st ix d = .ok (ix + (enc s).length, e, st') ∧ GoodSt st'

theorem enc_pos {s : List Char} (h : s ≠ []) : 0 < (enc s).length := by
  have := enc_length_ge s
  have : 0 < s.length := List.length_pos_iff.mpr h
  omega

theorem piece_of_atom {e : Expr} (h23 : toStr Generated.isSpecial e 2 = toStr Generated.isSpecial e 3)
    (hn : nestP e 2 = nestP e 3) (ha : AtomOK e) : PieceOK e := by
  intro isAlnum re hwf s post st ix f d hs hp hq hg hd hf
  obtain ⟨f, rfl⟩ : ∃ f', f = f' + 1 := ⟨f - 1, by omega⟩
  rw [h23] at hs; rw [hn] at hd hf
  obtain ⟨st', h1, hg'⟩ := ha isAlnum re hwf s post st ix f d hs hp hg hd (by omega)
  exact ⟨st', parsePiece_noquant isAlnum h1 hg'.ws hp.adv hq, hg'⟩

theorem branch_of_piece {e : Expr} (hr : rtShape e = true) (hemp : e.isEmpty = false)
    (h12 : toStr Generated.isSpecial e 1 = toStr Generated.isSpecial e 2)
    (hn : nestP e 1 = nestP e 2) (hpc : PieceOK e) : BranchOK e := by
  intro isAlnum re hwf s post st ix f d hs hp ht hg hd hf
  rw [h12] at hs; rw [hn] at hd hf
  have hpos := enc_pos (quietNE e hr hemp 2 s hs).1
  obtain ⟨f, rfl⟩ : ∃ f', f = f' + 5 := ⟨f - 5, by omega⟩
  obtain ⟨st', h1, hg'⟩ := hpc isAlnum re hwf s post st ix (f + 3) d hs hp (quietL_of_termL ht) hg hd
    (by omega)
  have hsz := hp.size
  simp only [List.length_append] at hsz
  have hl := branchLoop_cons isAlnum h1 (by omega) (by omega) hemp
    (branchLoop_nil isAlnum hg'.ws hp.adv ht)
  exact ⟨st', parseBranch_of_loop isAlnum hl, hg'⟩

theorem GoodSt.alt {st : PState} (h : GoodSt st) (b : Bool) : GoodSt { st with lastReHadAlt := b } :=
  ⟨h.flags, h.nb⟩

theorem re_of_branch {e : Expr}
    (h01 : toStr Generated.isSpecial e 0 = toStr Generated.isSpecial e 1)
    (hn : nestP e 0 = nestP e 1) (hb : BranchOK e) : ReOK e := by
  intro isAlnum re hwf s post st ix f d hs hp hc hg hd hf
  rw [h01] at hs; rw [hn] at hd hf
  obtain ⟨f, rfl⟩ : ∃ f', f = f' + 1 := ⟨f - 1, by omega⟩
  obtain ⟨st', h1, hg'⟩ := hb isAlnum re hwf s post st ix f d hs hp (termL_of_closeL hc) hg hd
    (by omega)
  exact ⟨_, parseRe_of_branch isAlnum h1 hg'.ws hg'.nb hp.adv hc, hg'.alt false⟩

theorem atom_of_re {e : Expr}
    (h30 : toStr Generated.isSpecial e 3 =
      (toStr Generated.isSpecial e 0).map fun t => "(?:".toList ++ t ++ [')'])
    (hn : nestP e 3 = nestP e 0 + 1) (hre : ReOK e) : AtomOK e := by
  intro isAlnum re hwf s post st ix f d hs hp hg hd hf
  rw [h30, Option.map_eq_some_iff] at hs
  obtain ⟨t, ht, rfl⟩ := hs
  rw [hn] at hd hf
  rw [enc_wrap] at hp hf ⊢
  obtain ⟨f, rfl⟩ : ∃ f', f = f' + 3 := ⟨f - 3, by omega⟩
  simp only [List.length_cons, List.length_append, List.length_nil] at hf ⊢
  have hp3 : At re (ix + 3) (enc t ++ (41 :: post)) := by
    have := hp.cons.cons.cons
    simpa [List.append_assoc] using this
  obtain ⟨st2, h1, hg2⟩ := hre isAlnum re hwf t (41 :: post) st (ix + 3) f (d + 1) ht hp3 rfl hg
    (by omega) (by omega)
  have hcl : re[ix + 3 + (enc t).length]? = some (ch ')') := hp3.adv.get
  have hp0 : At re ix (ch '(' :: ch '?' :: ch ':' :: ((enc t ++ [41]) ++ post)) := hp
  have := parseAtom_wrap0 hwf isAlnum hp0 hg.ws (by omega) h1 hcl
  refine ⟨{ st2 with flags := st.flags }, ?_, ⟨hg.flags, hg2.nb⟩⟩
  rw [this]
  congr 2
  omega

/-! ## leaves of the fragment -/

theorem atom_flagged {re : Bytes} (hwf : WF re) (isAlnum : Char → Bool) {g : Nat} {st : PState}
    {ix d b : Nat} {child : Expr} {body post : List Nat}
    (hb : b = ch 'i' ∨ b = ch 'm' ∨ b = ch 's') (hg : GoodSt st)
    (hd : d + 1 < Generated.maxRecursion)
    (hp : At re ix (ch '(' :: ch '?' :: b :: ch ':' :: (body ++ (ch ')' :: post))))
    (hbody : 0 < body.length) (hne : child.isEmpty = false)
    (ha : ∀ st1 : PState, st1.flags = updateFlag {} b false →
      parseAtom isAlnum (g + 2) re st1 (ix + 4) (d + 1) = .ok (ix + 4 + body.length, child, st1)) :
    ∃ st', parseAtom isAlnum (g + 9) re st ix d = .ok (ix + 5 + body.length, child, st') ∧
      GoodSt st' := by
  have hfl1 : (updateFlag st.flags b false).ignoreSpace = false := by
    rw [hg.flags]; rcases hb with rfl | rfl | rfl <;> simp [updateFlag, ch]
  have h1 := ha { st with flags := updateFlag st.flags b false } (by rw [hg.flags])
  have hp4 : At re (ix + 4) (body ++ (ch ')' :: post)) := hp.cons.cons.cons.cons
  have hre := parseRe_single isAlnum h1 (by omega) hne hfl1 hg.nb hp4.adv rfl
  have hcl : re[ix + 4 + body.length]? = some (ch ')') := hp4.adv.get
  have := parseAtom_wrap1 hwf isAlnum hp hb hg.ws hd hre hcl
  refine ⟨{ st with lastReHadAlt := false }, ?_, ⟨hg.flags, hg.nb⟩⟩
  rw [this]; congr 2; omega

theorem atomOK_any (nl : Bool) : AtomOK (.any nl) := by
  intro isAlnum re hwf s post st ix f d hs hp hg hd hf
  simp only [toStr, Option.some.injEq] at hs; subst hs
  cases nl
  · obtain ⟨f, rfl⟩ : ∃ f', f = f' + 1 := ⟨f - 1, by omega⟩
    have hp' : At re ix (ch '.' :: post) := hp
    have := parseAtom_dot isAlnum (f := f) (d := d) hp' hg.ws
    rw [hg.flags] at this
    exact ⟨st, this, hg⟩
  · have he : enc "(?s:.)".toList = [40, 63, 115, 58, 46, 41] := by decide
    simp only [↓reduceIte] at hp hf hd ⊢
    rw [he] at hp hf ⊢
    simp only [nestP, nestIn, wrapped, ↓reduceIte, Bool.false_eq_true, List.length_cons,
      List.length_nil] at hd hf ⊢
    obtain ⟨g, rfl⟩ : ∃ g, f = g + 9 := ⟨f - 9, by omega⟩
    have hp' : At re ix (ch '(' :: ch '?' :: ch 's' :: ch ':' :: ([ch '.'] ++ (ch ')' :: post))) := hp
    exact atom_flagged hwf isAlnum (Or.inr (Or.inr rfl)) hg (by omega) hp' (by simp) rfl (by
      intro st1 h1
      have := parseAtom_dot isAlnum (f := g + 1) (d := d + 1) (st := st1)
        (hp'.cons.cons.cons.cons) (by rw [h1]; rfl)
      rw [this, h1]; rfl)

theorem atomOK_assertion (a : Assertion) (hr : rtShape (.assertion a) = true) : AtomOK (.assertion a) := by
  intro isAlnum re hwf s post st ix f d hs hp hg hd hf
  cases a with
  | startText =>
    simp only [toStr, Option.some.injEq] at hs; subst hs
    obtain ⟨f, rfl⟩ : ∃ f', f = f' + 1 := ⟨f - 1, by omega⟩
    have hp' : At re ix (ch '^' :: post) := hp
    have := parseAtom_caret isAlnum (f := f) (d := d) hp' hg.ws
    rw [hg.flags] at this
    exact ⟨st, this, hg⟩
  | endText =>
    simp only [toStr, Option.some.injEq] at hs; subst hs
    obtain ⟨f, rfl⟩ : ∃ f', f = f' + 1 := ⟨f - 1, by omega⟩
    have hp' : At re ix (ch '$' :: post) := hp
    have := parseAtom_dollar isAlnum (f := f) (d := d) hp' hg.ws
    rw [hg.flags] at this
    exact ⟨st, this, hg⟩
  | startLine crlf =>
    cases crlf
    · simp only [toStr, Option.some.injEq] at hs; subst hs
      have he : enc "(?m:^)".toList = [40, 63, 109, 58, 94, 41] := by decide
      rw [he] at hp hf ⊢
      simp only [nestP, nestIn, wrapped, ↓reduceIte, Bool.false_eq_true, List.length_cons,
        List.length_nil] at hd hf ⊢
      obtain ⟨g, rfl⟩ : ∃ g, f = g + 9 := ⟨f - 9, by omega⟩
      have hp' : At re ix (ch '(' :: ch '?' :: ch 'm' :: ch ':' :: ([ch '^'] ++ (ch ')' :: post))) := hp
      exact atom_flagged hwf isAlnum (Or.inr (Or.inl rfl)) hg (by omega) hp' (by simp) rfl (by
        intro st1 h1
        have := parseAtom_caret isAlnum (f := g + 1) (d := d + 1) (st := st1)
          (hp'.cons.cons.cons.cons) (by rw [h1]; rfl)
        rw [this, h1]; rfl)
    · simp [rtShape] at hr
  | endLine crlf =>
    cases crlf
    · simp only [toStr, Option.some.injEq] at hs; subst hs
      have he : enc "(?m:$)".toList = [40, 63, 109, 58, 36, 41] := by decide
      rw [he] at hp hf ⊢
      simp only [nestP, nestIn, wrapped, ↓reduceIte, Bool.false_eq_true, List.length_cons,
        List.length_nil] at hd hf ⊢
      obtain ⟨g, rfl⟩ : ∃ g, f = g + 9 := ⟨f - 9, by omega⟩
      have hp' : At re ix (ch '(' :: ch '?' :: ch 'm' :: ch ':' :: ([ch '$'] ++ (ch ')' :: post))) := hp
      exact atom_flagged hwf isAlnum (Or.inr (Or.inl rfl)) hg (by omega) hp' (by simp) rfl (by
        intro st1 h1
        have := parseAtom_dollar isAlnum (f := g + 1) (d := d + 1) (st := st1)
          (hp'.cons.cons.cons.cons) (by rw [h1]; rfl)
        rw [this, h1]; rfl)
    · simp [rtShape] at hr
  | _ => simp [rtShape] at hr

theorem atomOK_literal (c : Char) (ci : Bool) (hr : rtShape (.literal [c] ci) = true) :
    AtomOK (.literal [c] ci) := by
  intro isAlnum re hwf s post st ix f d hs hp hg hd hf
  simp only [rtShape, Bool.not_eq_true', Bool.and_eq_false_iff] at hr
  simp only [toStr, Option.some.injEq] at hs; subst hs
  cases ci
  · simp only [Bool.false_eq_true, ↓reduceIte, pushQuoted] at hp hf ⊢
    obtain ⟨f, rfl⟩ : ∃ f', f = f' + 1 := ⟨f - 1, by omega⟩
    cases hc : Generated.isSpecial c
    · simp only [hc, Bool.false_eq_true, ↓reduceIte, enc_cons, enc_nil, List.append_nil] at hp hf ⊢
      have := parseAtom_plainAt hwf isAlnum (f := f) (d := d) hp hg.ws hc
      rw [hg.flags] at this
      exact ⟨st, this, hg⟩
    · have h128 := special_ascii c (mem_special hc)
      have he : enc ['\\', c] = [ch '\\', c.toNat] := by
        rw [enc_ascii _ _ (by decide), enc_ascii _ _ h128, enc_nil]
      simp only [hc, ↓reduceIte] at hp hf ⊢
      rw [he] at hp hf ⊢
      exact ⟨st, parseAtom_escapedAt hwf isAlnum (f := f) (d := d) hp hg.ws hc, hg⟩
  · have hc : Generated.isSpecial c = false := by simpa using hr
    have he : enc ("(?i:".toList ++ pushQuoted Generated.isSpecial [c] ++ [')']) =
        ch '(' :: ch '?' :: ch 'i' :: ch ':' :: (Utf8.encodeChar c.toNat ++ [ch ')']) := by
      simp only [pushQuoted, hc, Bool.false_eq_true, ↓reduceIte, enc_append, enc_cons, enc_nil,
        List.append_nil]
      rfl
    simp only [↓reduceIte] at hp hf ⊢
    rw [he] at hp hf ⊢
    simp only [nestP, nestIn, wrapped, ↓reduceIte, Bool.false_eq_true, List.length_cons,
      List.length_append, List.length_nil] at hd hf ⊢
    have hpos := encodeChar_len_pos c.toNat
    obtain ⟨g, rfl⟩ : ∃ g, f = g + 9 := ⟨f - 9, by omega⟩
    have hp' : At re ix (ch '(' :: ch '?' :: ch 'i' :: ch ':' ::
        (Utf8.encodeChar c.toNat ++ (ch ')' :: post))) := by
      simpa [List.append_assoc] using hp
    obtain ⟨st', h1, hg'⟩ := atom_flagged hwf isAlnum (child := .literal [c] true) (Or.inl rfl) hg
      (by omega) hp' hpos rfl (by
        intro st1 h1
        have := parseAtom_plainAt hwf isAlnum (f := g + 1) (d := d + 1) (st := st1)
          (hp'.cons.cons.cons.cons) (by rw [h1]; rfl) hc
        rw [this, h1]; rfl)
    refine ⟨st', ?_, hg'⟩
    rw [h1]; congr 2; omega

/-! ## composite nodes -/

theorem isEmpty_eq {e : Expr} (h : e.isEmpty = true) : e = .empty := by
  cases e <;> simp_all [Expr.isEmpty]

theorem quietAny {e : Expr} (hr : rtShape e = true) {p : Nat} {s : List Char}
    (hs : toStr Generated.isSpecial e p = some s) {post : List Nat} (hq : quietL post = true) :
    quietL (enc s ++ post) = true := by
  cases hemp : e.isEmpty
  · exact (quietNE e hr hemp p s hs).2 post
  · have := isEmpty_eq hemp; subst this
    simp only [toStr, Option.some.injEq] at hs; subst hs
    exact hq

theorem wrapped_zero (e : Expr) : wrapped e 0 = false := by
  cases e <;> simp [wrapped]

theorem nestP_zero (e : Expr) : nestP e 0 = nestIn e := by
  simp [nestP, wrapped_zero]

theorem GoodSt.grp {st : PState} (h : GoodSt st) (n : Nat) : GoodSt { st with currGroup := n } :=
  ⟨h.flags, h.nb⟩

theorem atomOK_group {g : Nat} {e : Expr} (hr : rtShape (.group g e) = true) (hre : ReOK e) :
    AtomOK (.group g e) := by
  intro isAlnum re hwf s post st ix f d hs hp hg hd hf
  simp only [rtShape, Bool.and_eq_true, beq_iff_eq] at hr
  obtain ⟨rfl, hr⟩ := hr
  simp only [toStr, Option.map_eq_some_iff] at hs
  obtain ⟨t, ht, rfl⟩ := hs
  rw [enc_group] at hp hf ⊢
  have hn : nestP (.group 0 e) 3 = nestP e 0 + 1 := by
    rw [nestP_zero]; simp only [nestP, nestIn, wrapped]; simp; omega
  rw [hn] at hd hf
  obtain ⟨f, rfl⟩ : ∃ f', f = f' + 2 := ⟨f - 2, by omega⟩
  simp only [List.length_cons, List.length_append, List.length_nil] at hf ⊢
  have hp0 : At re ix (ch '(' :: (enc t ++ (41 :: post))) := by
    rw [show (ch '(' :: (enc t ++ (41 :: post))) = (40 :: (enc t ++ [41])) ++ post by simp [ch]]
    exact hp
  have hq : quietL (enc t ++ (41 :: post)) = true := quietAny hr ht rfl
  obtain ⟨st2, h1, hg2⟩ := hre isAlnum re hwf t (41 :: post) { st with currGroup := st.currGroup + 1 }
    (ix + 1) f (d + 1) ht hp0.cons rfl (hg.grp _) (by omega) (by omega)
  have hcl : re[ix + 1 + (enc t).length]? = some (ch ')') := hp0.cons.adv.get
  have := parseAtom_group hwf isAlnum hp0 hq hg.ws (by omega) h1 hg2.ws hcl
  refine ⟨st2, ?_, hg2⟩
  rw [this]; congr 2; omega

theorem quiet_concat : ∀ {es : List Expr}, rtPieces es = true → ∀ {t : List Char},
    toStrConcat Generated.isSpecial es = some t → ∀ {post : List Nat}, quietL post = true →
    quietL (enc t ++ post) = true
  | [], _, t, ht, post, hq => by
    simp [toStrConcat] at ht; subst ht; exact hq
  | e :: es, hr, t, ht, post, hq => by
    simp only [rtPieces, Bool.and_eq_true, Bool.not_eq_true'] at hr
    simp only [toStrConcat] at ht
    split at ht
    · rename_i a b ha hb
      simp at ht; subst ht
      rw [enc_append, List.append_assoc]
      exact (quietNE e hr.1.1 hr.1.2 2 a ha).2 _
    · cases ht

theorem pieces_loop : ∀ (es : List Expr), rtPieces es = true → (∀ e ∈ es, PieceOK e) →
    ∀ (isAlnum : Char → Bool) (re : Bytes), WF re → ∀ (t : List Char) (post : List Nat) (st : PState)
      (ix f d : Nat), toStrConcat Generated.isSpecial es = some t → At re ix (enc t ++ post) →
      termL post = true → GoodSt st → d + nestMax es 2 < Generated.maxRecursion →
      2 * (enc t).length + 8 * nestMax es 2 + 6 ≤ f →
      ∃ st', branchLoop isAlnum f re st ix d = .ok (ix + (enc t).length, es, st') ∧ GoodSt st'
  | [], _, _, isAlnum, re, hwf, t, post, st, ix, f, d, ht, hp, htm, hg, hd, hf => by
    simp [toStrConcat] at ht; subst ht
    obtain ⟨f, rfl⟩ : ∃ f', f = f' + 3 := ⟨f - 3, by omega⟩
    exact ⟨st, by simpa [enc_nil] using branchLoop_nil isAlnum hg.ws hp htm, hg⟩
  | e :: es, hr, hall, isAlnum, re, hwf, t, post, st, ix, f, d, ht, hp, htm, hg, hd, hf => by
    have hr' := hr
    simp only [rtPieces, Bool.and_eq_true, Bool.not_eq_true'] at hr'
    simp only [toStrConcat] at ht
    split at ht
    · rename_i a b ha hb
      simp at ht; subst ht
      rw [enc_append] at hf hp ⊢
      rw [List.append_assoc] at hp
      simp only [List.length_append] at hf ⊢
      simp only [nestMax] at hd hf
      have hmax1 : nestP e 2 ≤ max (nestP e 2) (nestMax es 2) := Nat.le_max_left _ _
      have hmax2 : nestMax es 2 ≤ max (nestP e 2) (nestMax es 2) := Nat.le_max_right _ _
      have hd' : d + max (nestP e 2) (nestMax es 2) < Generated.maxRecursion := hd
      have hf' : 2 * ((enc a).length + (enc b).length) + 8 * max (nestP e 2) (nestMax es 2) + 6 ≤ f := hf
      have hpos := enc_pos (quietNE e hr'.1.1 hr'.1.2 2 a ha).1
      obtain ⟨f, rfl⟩ : ∃ f', f = f' + 1 := ⟨f - 1, by omega⟩
      obtain ⟨st1, h1, hg1⟩ := hall e (by simp) isAlnum re hwf a (enc b ++ post) st ix f d ha hp
        (quiet_concat hr'.2 hb (quietL_of_termL htm)) hg (by omega) (by omega)
      obtain ⟨st', h2, hg'⟩ := pieces_loop es hr'.2 (fun e' he' => hall e' (by simp [he'])) isAlnum re hwf
        b post st1 (ix + (enc a).length) f d hb hp.adv htm hg1 (by omega) (by omega)
      have hsz := hp.size
      simp only [List.length_append] at hsz
      refine ⟨st', ?_, hg'⟩
      rw [branchLoop_cons isAlnum h1 (by omega) (by omega) hr'.1.2 h2]
      congr 2; omega
    · cases ht

theorem term_alt {es : List Expr} {t : List Char} (ht : toStrAlt Generated.isSpecial es false = some t)
    {post : List Nat} (hc : closeL post = true) : termL (enc t ++ post) = true := by
  rcases toStrAlt_false_head _ es t ht with rfl | ⟨t', rfl⟩
  · simpa [enc_nil] using termL_of_closeL hc
  · rw [enc_ascii _ _ (by decide)]; rfl

theorem alts_loop : ∀ (es : List Expr), (∀ e ∈ es, BranchOK e) →
    ∀ (isAlnum : Char → Bool) (re : Bytes), WF re → ∀ (t : List Char) (post : List Nat) (st : PState)
      (ix f d : Nat), toStrAlt Generated.isSpecial es false = some t → At re ix (enc t ++ post) →
      closeL post = true → GoodSt st → d + nestMax es 1 < Generated.maxRecursion →
      2 * (enc t).length + 8 * nestMax es 1 + 7 ≤ f →
      ∃ st', reAltLoop isAlnum f re st ix d = .ok (ix + (enc t).length, es, st') ∧ GoodSt st'
  | [], _, isAlnum, re, hwf, t, post, st, ix, f, d, ht, hp, hc, hg, hd, hf => by
    simp [toStrAlt] at ht; subst ht
    obtain ⟨f, rfl⟩ : ∃ f', f = f' + 1 := ⟨f - 1, by omega⟩
    exact ⟨st, by simpa [enc_nil] using reAltLoop_nil isAlnum hp hc, hg⟩
  | e :: es, hall, isAlnum, re, hwf, t, post, st, ix, f, d, ht, hp, hc, hg, hd, hf => by
    simp only [toStrAlt] at ht
    split at ht
    · rename_i a b ha hb
      simp at ht; subst ht
      have he : enc ('|' :: (a ++ b)) = ch '|' :: (enc a ++ enc b) := by
        rw [enc_ascii _ _ (by decide), enc_append]
      rw [he] at hf hp ⊢
      simp only [List.length_cons, List.length_append] at hf ⊢
      have hmax1 : nestP e 1 ≤ max (nestP e 1) (nestMax es 1) := Nat.le_max_left _ _
      have hmax2 : nestMax es 1 ≤ max (nestP e 1) (nestMax es 1) := Nat.le_max_right _ _
      have hd' : d + max (nestP e 1) (nestMax es 1) < Generated.maxRecursion := hd
      have hf' : 2 * ((enc a).length + (enc b).length + 1) + 8 * max (nestP e 1) (nestMax es 1) + 7 ≤ f := hf
      obtain ⟨f, rfl⟩ : ∃ f', f = f' + 1 := ⟨f - 1, by omega⟩
      have hp1 : At re (ix + 1) (enc a ++ (enc b ++ post)) := by
        simpa [List.append_assoc] using hp.cons
      have htm := term_alt hb hc
      obtain ⟨st1, h1, hg1⟩ := hall e (by simp) isAlnum re hwf a (enc b ++ post) st (ix + 1) f d ha hp1
        htm hg (by omega) (by omega)
      obtain ⟨st', h2, hg'⟩ := alts_loop es (fun e' he' => hall e' (by simp [he'])) isAlnum re hwf
        b post st1 (ix + 1 + (enc a).length) f d hb hp1.adv hc hg1 (by omega) (by omega)
      refine ⟨st', ?_, hg'⟩
      rw [reAltLoop_cons isAlnum hp.get h1 hg1.ws hp1.adv htm h2]
      congr 2; omega
    · cases ht



/-! ## decimal numbers -/

theorem natDigits_eq (n : Nat) : natDigits n = Nat.toDigits 10 n := by
  simp [natDigits]

theorem digitChar_toNat : ∀ n, n < 10 → (Nat.digitChar n).toNat = 48 + n := by decide

theorem digitsVal_snoc (a : List Nat) (d : Nat) : digitsVal (a ++ [d]) = digitsVal a * 10 + (d - 48) := by
  simp [digitsVal, List.foldl_append]

/-- the bytes of the decimal spelling of `n`: ASCII digits, not empty, and they read back as `n` -/
theorem enc_natDigits (n : Nat) :
    enc (natDigits n) ≠ [] ∧ (∀ x ∈ enc (natDigits n), isDigit x = true) ∧
      digitsVal (enc (natDigits n)) = n := by
  rw [natDigits_eq]
  induction n using Nat.strongRecOn with
  | _ n ih =>
    rw [Nat.toDigits_eq_if (by decide)]
    split
    · rename_i h
      have hd := digitChar_toNat n h
      have h128 : (Nat.digitChar n).toNat < 128 := by omega
      rw [enc_ascii _ _ h128, enc_nil, hd]
      refine ⟨by simp, ?_, ?_⟩
      · intro x hx; simp at hx; subst hx; simp [isDigit]; omega
      · simp [digitsVal]
    · rename_i h
      have hlt : n / 10 < n := by omega
      obtain ⟨h1, h2, h3⟩ := ih (n / 10) hlt
      have hm : n % 10 < 10 := Nat.mod_lt _ (by decide)
      have hd := digitChar_toNat (n % 10) hm
      have h128 : (Nat.digitChar (n % 10)).toNat < 128 := by omega
      rw [enc_append, enc_ascii _ _ h128, enc_nil, hd]
      refine ⟨by simp, ?_, ?_⟩
      · intro x hx
        rcases List.mem_append.mp hx with hx | hx
        · exact h2 x hx
        · simp at hx; subst hx; simp [isDigit]; omega
      · rw [digitsVal_snoc, h3]; omega

theorem takeWhile_digits : ∀ (ds : List Nat) (c : Nat) (rest : List Nat),
    (∀ x ∈ ds, isDigit x = true) → isDigit c = false → (ds ++ c :: rest).takeWhile isDigit = ds
  | [], c, rest, _, hc => by simp [hc]
  | d :: ds, c, rest, h, hc => by
    have hd : isDigit d = true := h d (by simp)
    simp only [List.cons_append, List.takeWhile_cons, hd, ↓reduceIte, List.cons.injEq, true_and]
    exact takeWhile_digits ds c rest (fun x hx => h x (by simp [hx])) hc

theorem parseDecimal_digits {re : Bytes} {ix c : Nat} {ds rest : List Nat}
    (hp : At re ix (ds ++ c :: rest)) (hds : ∀ x ∈ ds, isDigit x = true) (hne : ds ≠ [])
    (hc : isDigit c = false) (hc128 : c < 128) (hv : digitsVal ds ≤ usizeMax) :
    parseDecimal re ix = .ok (some (ix + ds.length, digitsVal ds)) := by
  have htw : (re.toList.drop ix).takeWhile isDigit = ds := by
    rw [hp.drop]; exact takeWhile_digits ds c rest hds hc
  have hb2 : isBoundary re (ix + ds.length) = true := isBoundary_of_ascii hp.adv.get hc128
  have hb1 : isBoundary re ix = true := by
    match ds, hne, hds, hp with
    | d :: ds', _, hds, hp =>
      exact isBoundary_of_ascii hp.get (isDigit_ascii (hds d (by simp)))
  have hsz := hp.size
  simp only [List.length_append, List.length_cons] at hsz
  have hle : ix + ds.length ≤ re.size := by omega
  have hemp : ds.isEmpty = false := by cases ds <;> simp_all
  unfold parseDecimal
  simp [htw, sliceOk, hb1, hb2, hle, hemp, hv]

theorem parseDecimal_none {re : Bytes} {ix c : Nat} {rest : List Nat}
    (hp : At re ix (c :: rest)) (hc : isDigit c = false) (hc128 : c < 128) :
    parseDecimal re ix = .ok none := by
  have htw : (re.toList.drop ix).takeWhile isDigit = [] := by
    rw [hp.drop]; simp [List.takeWhile, hc]
  have hb1 : isBoundary re ix = true := isBoundary_of_ascii hp.get hc128
  have hsz := hp.size
  simp only [List.length_cons] at hsz
  have hle : ix ≤ re.size := by omega
  unfold parseDecimal
  simp [htw, sliceOk, hb1, hle]


theorem optWs_byte {re : Bytes} {fl : Flags} {ix b : Nat} {l : List Nat} (hp : At re ix (b :: l))
    (hfl : fl.ignoreSpace = false) (hb : b ≠ ch '(') : optWs re fl ix = .ok ix :=
  optWs_at hp hfl (by simp [noCmt]; exact Or.inl hb)

theorem digit_facts {d : Nat} (h : isDigit d = true) : d ≠ ch '(' ∧ d ≠ ch ',' ∧ d ≠ ch '}' := by
  simp [isDigit, ch] at *; omega

/-- `{lo}` -/
theorem parseRepeat_exact {re : Bytes} {fl : Flags} (hfl : fl.ignoreSpace = false) {ix : Nat}
    {D rest : List Nat} (hD : ∀ x ∈ D, isDigit x = true) (hne : D ≠ []) (hv : digitsVal D ≤ usizeMax)
    (hp : At re ix (ch '{' :: (D ++ ch '}' :: rest))) :
    parseRepeat re fl ix = .ok (ix + 1 + D.length + 1, digitsVal D, digitsVal D) := by
  have hp1 : At re (ix + 1) (D ++ ch '}' :: rest) := hp.cons
  have hp2 : At re (ix + 1 + D.length) (ch '}' :: rest) := hp1.adv
  obtain ⟨d, D', hDeq⟩ : ∃ d D', D = d :: D' := by cases D <;> simp_all
  have hd := digit_facts (hD d (by simp [hDeq]))
  have hp1' : At re (ix + 1) (d :: (D' ++ ch '}' :: rest)) := by rw [hDeq] at hp1; exact hp1
  have hw1 := optWs_byte hp1' hfl hd.1
  have hw2 := optWs_byte hp2 hfl (by decide)
  have hdec := parseDecimal_digits hp1 hD hne (by decide) (by decide) hv
  have hg1 := hp1'.get
  have hg2 := hp2.get
  have hn1 : ix + 1 ≠ re.size := by have := lt_size_of_get hg1; omega
  have hn2 : ix + 1 + D.length ≠ re.size := by have := lt_size_of_get hg2; omega
  unfold parseRepeat
  simp [hw1, hn1, byteAt, hg1, hd.2.1, hdec, hw2, hn2, hg2]

/-- `{lo,}` -/
theorem parseRepeat_open {re : Bytes} {fl : Flags} (hfl : fl.ignoreSpace = false) {ix : Nat}
    {D rest : List Nat} (hD : ∀ x ∈ D, isDigit x = true) (hne : D ≠ []) (hv : digitsVal D ≤ usizeMax)
    (hp : At re ix (ch '{' :: (D ++ ch ',' :: ch '}' :: rest))) :
    parseRepeat re fl ix = .ok (ix + 1 + D.length + 2, digitsVal D, usizeMax) := by
  have hp1 : At re (ix + 1) (D ++ ch ',' :: ch '}' :: rest) := hp.cons
  have hp2 : At re (ix + 1 + D.length) (ch ',' :: ch '}' :: rest) := hp1.adv
  have hp3 : At re (ix + 1 + D.length + 1) (ch '}' :: rest) := hp2.cons
  obtain ⟨d, D', hDeq⟩ : ∃ d D', D = d :: D' := by cases D <;> simp_all
  have hd := digit_facts (hD d (by simp [hDeq]))
  have hp1' : At re (ix + 1) (d :: (D' ++ ch ',' :: ch '}' :: rest)) := by rw [hDeq] at hp1; exact hp1
  have hw1 := optWs_byte hp1' hfl hd.1
  have hw2 := optWs_byte hp2 hfl (by decide)
  have hw3 := optWs_byte hp3 hfl (by decide)
  have hdec := parseDecimal_digits hp1 hD hne (by decide) (by decide) hv
  have hdec2 := parseDecimal_none hp3 (by decide) (by decide)
  have hg1 := hp1'.get
  have hg2 := hp2.get
  have hg3 := hp3.get
  have hn1 : ix + 1 ≠ re.size := by have := lt_size_of_get hg1; omega
  have hn2 : ix + 1 + D.length ≠ re.size := by have := lt_size_of_get hg2; omega
  have hn3 : ix + 1 + D.length + 1 ≠ re.size := by have := lt_size_of_get hg3; omega
  have e1 : ch ',' ≠ ch '}' := by decide
  unfold parseRepeat
  simp [hw1, hn1, byteAt, hg1, hd.2.1, hdec, hw2, hn2, hg2, e1, hw3, hdec2, hn3, hg3]

/-- `{lo,hi}` -/
theorem parseRepeat_range {re : Bytes} {fl : Flags} (hfl : fl.ignoreSpace = false) {ix : Nat}
    {D H rest : List Nat} (hD : ∀ x ∈ D, isDigit x = true) (hne : D ≠ []) (hv : digitsVal D ≤ usizeMax)
    (hH : ∀ x ∈ H, isDigit x = true) (hneH : H ≠ []) (hvH : digitsVal H ≤ usizeMax)
    (hp : At re ix (ch '{' :: (D ++ ch ',' :: (H ++ ch '}' :: rest)))) :
    parseRepeat re fl ix = .ok (ix + 1 + D.length + 1 + H.length + 1, digitsVal D, digitsVal H) := by
  have hp1 : At re (ix + 1) (D ++ ch ',' :: (H ++ ch '}' :: rest)) := hp.cons
  have hp2 : At re (ix + 1 + D.length) (ch ',' :: (H ++ ch '}' :: rest)) := hp1.adv
  have hp3 : At re (ix + 1 + D.length + 1) (H ++ ch '}' :: rest) := hp2.cons
  have hp4 : At re (ix + 1 + D.length + 1 + H.length) (ch '}' :: rest) := hp3.adv
  obtain ⟨d, D', hDeq⟩ : ∃ d D', D = d :: D' := by cases D <;> simp_all
  obtain ⟨h, H', hHeq⟩ : ∃ h H', H = h :: H' := by cases H <;> simp_all
  have hd := digit_facts (hD d (by simp [hDeq]))
  have hh := digit_facts (hH h (by simp [hHeq]))
  have hp1' : At re (ix + 1) (d :: (D' ++ ch ',' :: (H ++ ch '}' :: rest))) := by
    rw [hDeq] at hp1; exact hp1
  have hp3' : At re (ix + 1 + D.length + 1) (h :: (H' ++ ch '}' :: rest)) := by
    rw [hHeq] at hp3; exact hp3
  have hw1 := optWs_byte hp1' hfl hd.1
  have hw2 := optWs_byte hp2 hfl (by decide)
  have hw3 := optWs_byte hp3' hfl hh.1
  have hw4 := optWs_byte hp4 hfl (by decide)
  have hdec := parseDecimal_digits hp1 hD hne (by decide) (by decide) hv
  have hdec2 := parseDecimal_digits hp3 hH hneH (by decide) (by decide) hvH
  have hg1 := hp1'.get
  have hg2 := hp2.get
  have hg4 := hp4.get
  have hn1 : ix + 1 ≠ re.size := by have := lt_size_of_get hg1; omega
  have hn2 : ix + 1 + D.length ≠ re.size := by have := lt_size_of_get hg2; omega
  have hn4 : ix + 1 + D.length + 1 + H.length ≠ re.size := by
    have := lt_size_of_get hg4; omega
  have e1 : ch ',' ≠ ch '}' := by decide
  unfold parseRepeat
  simp [hw1, hn1, byteAt, hg1, hd.2.1, hdec, hw2, hn2, hg2, e1, hw3, hdec2, hw4, hn4, hg4]



/-! ## quantifiers -/

/-- the parser reads the quantifier text back as `(lo, hi)` -/
def QuantOK (lo : Nat) (hi : Option Nat) : Prop :=
  ∀ (re : Bytes), WF re → ∀ (fl : Flags), fl.ignoreSpace = false → ∀ (ix : Nat) (rest : List Nat),
    At re ix (enc (quantText lo hi) ++ rest) →
    ∃ b hi' qe, re[ix]? = some b ∧ b ≠ ch '(' ∧ quantAt re fl ix b = .ok (some (lo, hi', qe)) ∧
      hiOf hi' = hi ∧ qe + 1 = ix + (enc (quantText lo hi)).length

theorem pieceOK_repeat {e : Expr} {lo : Nat} {hi : Option Nat} {g : Bool}
    (hrep : isRepeatable e = true) (ha : AtomOK e) (hq : QuantOK lo hi) :
    PieceOK (.repeat e lo hi g) := by
  intro isAlnum re hwf s post st ix f d hs hp hpost hg hd hf
  rw [toStr_repeat] at hs
  simp only [Option.map_eq_some_iff] at hs
  obtain ⟨t, ht, rfl⟩ := hs
  have hn : nestP (.repeat e lo hi g) 2 = nestP e 3 := by
    simp [nestP, nestIn, wrapped]
  rw [hn] at hd hf
  simp only [gt_iff_lt, Nat.lt_irrefl, ↓reduceIte] at hp hf ⊢
  obtain ⟨lz, hlz, hlzg, hlze⟩ : ∃ lz : List Nat, (lz = [] ∨ lz = [ch '?']) ∧ lz.isEmpty = g ∧
      enc (if g = true then [] else ['?']) = lz := by
    cases g
    · exact ⟨[ch '?'], Or.inr rfl, rfl, by decide⟩
    · exact ⟨[], Or.inl rfl, rfl, rfl⟩
  rw [enc_append, enc_append, hlze] at hp hf ⊢
  simp only [List.length_append] at hf ⊢
  obtain ⟨f, rfl⟩ : ∃ f', f = f' + 1 := ⟨f - 1, by omega⟩
  have hp1 : At re ix (enc t ++ (enc (quantText lo hi) ++ (lz ++ post))) := by
    simpa [List.append_assoc] using hp
  obtain ⟨st1, h1, hg1⟩ := ha isAlnum re hwf t _ st ix f d ht hp1 hg hd (by omega)
  obtain ⟨b, hi', qe, hb, hbq, hqa, hhi, hqe⟩ := hq re hwf st1.flags hg1.ws _ _ hp1.adv
  have hp2 : At re (qe + 1) (lz ++ post) := by
    rw [hqe]; exact hp1.adv.adv
  have := parsePiece_quant isAlnum h1 hg1 hb hbq hqa hrep hp2 hlz hpost
  refine ⟨st1, ?_, hg1⟩
  rw [this, hhi, hlzg]
  congr 2
  omega

/-! ## the induction -/

structure All4 (e : Expr) : Prop where
  atom : e.isEmpty = false → AtomOK e
  piece : e.isEmpty = false → PieceOK e
  branch : BranchOK e
  re : ReOK e

theorem all4_of_atom {e : Expr} (hr : rtShape e = true) (hemp : e.isEmpty = false)
    (ha : AtomOK e)
    (h23 : toStr Generated.isSpecial e 2 = toStr Generated.isSpecial e 3) (n23 : nestP e 2 = nestP e 3)
    (h12 : toStr Generated.isSpecial e 1 = toStr Generated.isSpecial e 2) (n12 : nestP e 1 = nestP e 2)
    (h01 : toStr Generated.isSpecial e 0 = toStr Generated.isSpecial e 1) (n01 : nestP e 0 = nestP e 1) :
    All4 e :=
  have hp := piece_of_atom h23 n23 ha
  have hb := branch_of_piece hr hemp h12 n12 hp
  ⟨fun _ => ha, fun _ => hp, hb, re_of_branch h01 n01 hb⟩

theorem rtPieces_mem : ∀ {es : List Expr}, rtPieces es = true → ∀ e ∈ es,
    rtShape e = true ∧ e.isEmpty = false
  | [], _, e, he => by simp at he
  | e' :: es, h, e, he => by
    simp only [rtPieces, Bool.and_eq_true, Bool.not_eq_true'] at h
    rcases List.mem_cons.mp he with rfl | he
    · exact h.1
    · exact rtPieces_mem h.2 e he

theorem rtAll_of_rtPieces : ∀ {es : List Expr}, rtPieces es = true → rtAll es = true
  | [], _ => rfl
  | e :: es, h => by
    simp only [rtPieces, Bool.and_eq_true, Bool.not_eq_true'] at h
    simp [rtAll, h.1.1, rtAll_of_rtPieces h.2]

theorem emptyBranchOK : BranchOK .empty := by
  intro isAlnum re hwf s post st ix f d hs hp ht hg hd hf
  simp only [toStr, Option.some.injEq] at hs; subst hs
  obtain ⟨f, rfl⟩ : ∃ f', f = f' + 4 := ⟨f - 4, by omega⟩
  have hl := branchLoop_nil isAlnum (f := f) (d := d) hg.ws hp ht
  refine ⟨st, ?_, hg⟩
  have := parseBranch_of_loop isAlnum hl
  simpa [enc_nil, branchTree] using this

theorem hiOf_lt {h : Nat} (hh : h < usizeMax) : hiOf h = some h := by
  have : h ≠ usizeMax := by omega
  simp [hiOf, this]

theorem quantOK {lo : Nat} {hi : Option Nat} (hlo : lo ≤ usizeMax)
    (hhi : ∀ h, hi = some h → h < usizeMax) : QuantOK lo hi := by
  intro re hwf fl hfl ix rest hp
  generalize hq : quantText lo hi = q at hp ⊢
  unfold quantText at hq
  split at hq
  · subst hq
    have hp' : At re ix (ch '?' :: rest) := hp
    exact ⟨ch '?', 1, ix, hp'.get, by decide, quantAt_opt re fl ix, by decide, rfl⟩
  · subst hq
    have hp' : At re ix (ch '*' :: rest) := hp
    exact ⟨ch '*', usizeMax, ix, hp'.get, by decide, quantAt_star re fl ix, by decide, rfl⟩
  · subst hq
    have hp' : At re ix (ch '+' :: rest) := hp
    exact ⟨ch '+', usizeMax, ix, hp'.get, by decide, quantAt_plus re fl ix, by decide, rfl⟩
  · obtain ⟨hD1, hD2, hD3⟩ := enc_natDigits lo
    have hb : ∀ (X : List Char), enc ('{' :: natDigits lo ++ X ++ ['}']) =
        ch '{' :: (enc (natDigits lo) ++ (enc X ++ [ch '}'])) := by
      intro X
      rw [show '{' :: natDigits lo ++ X ++ ['}'] = '{' :: (natDigits lo ++ (X ++ ['}'])) by simp,
        enc_ascii _ _ (by decide), enc_append, enc_append]
      rfl
    subst hq
    rw [hb] at hp ⊢
    have hg0 := hp.get
    by_cases hc : (hi == some lo || (hi.isNone && lo == UNSET)) = true
    · rw [if_pos hc] at hp ⊢
      have hp' : At re ix (ch '{' :: (enc (natDigits lo) ++ ch '}' :: rest)) := by
        simpa [enc_nil, List.append_assoc] using hp
      have hpr := parseRepeat_exact (fl := fl) hfl hD2 hD1 (by rw [hD3]; exact hlo) hp'
      rw [hD3] at hpr
      refine ⟨ch '{', lo, _, hg0, by decide, quantAt_brace hpr (by omega), ?_, ?_⟩
      · simp only [Bool.or_eq_true, beq_iff_eq, Bool.and_eq_true, Option.isNone_iff_eq_none] at hc
        rcases hc with hc | ⟨hc, hu⟩
        · rw [hc]; exact hiOf_lt (hhi lo hc)
        · rw [hc, hu]; rfl
      · simp [enc_nil]; omega
    · rw [if_neg hc] at hp ⊢
      cases hi with
      | none =>
        have he : enc [','] = [ch ','] := by decide
        simp only at hp ⊢
        rw [he] at hp ⊢
        have hp' : At re ix (ch '{' :: (enc (natDigits lo) ++ ch ',' :: ch '}' :: rest)) := by
          simpa [List.append_assoc] using hp
        have hpr := parseRepeat_open (fl := fl) hfl hD2 hD1 (by rw [hD3]; exact hlo) hp'
        rw [hD3] at hpr
        refine ⟨ch '{', usizeMax, _, hg0, by decide, quantAt_brace hpr (by omega), by decide, ?_⟩
        simp; omega
      | some h =>
        obtain ⟨hH1, hH2, hH3⟩ := enc_natDigits h
        have he : enc (',' :: natDigits h) = ch ',' :: enc (natDigits h) := by
          rw [enc_ascii _ _ (by decide)]
        simp only at hp ⊢
        rw [he] at hp ⊢
        have hp' : At re ix (ch '{' :: (enc (natDigits lo) ++ ch ',' ::
            (enc (natDigits h) ++ ch '}' :: rest))) := by
          simpa [List.append_assoc] using hp
        have hh := hhi h rfl
        have hpr := parseRepeat_range (fl := fl) hfl hD2 hD1 (by rw [hD3]; exact hlo) hH2 hH1
          (by rw [hH3]; omega) hp'
        rw [hD3, hH3] at hpr
        refine ⟨ch '{', h, _, hg0, by decide, quantAt_brace hpr (by omega), hiOf_lt hh, ?_⟩
        simp; omega


mutual
theorem all4 : ∀ (e : Expr), rtShape e = true → All4 e
  | .empty, _ => by
    refine ⟨fun h => by simp [Expr.isEmpty] at h, fun h => by simp [Expr.isEmpty] at h, emptyBranchOK,
      re_of_branch rfl rfl emptyBranchOK⟩
  | .any nl, hr => all4_of_atom hr rfl (atomOK_any nl) rfl rfl rfl rfl rfl rfl
  | .assertion a, hr => by
    refine all4_of_atom hr rfl (atomOK_assertion a hr) ?_ rfl ?_ rfl ?_ rfl <;>
      cases a <;> (try rename_i crlf; cases crlf) <;> rfl
  | .literal val ci, hr => by
    match val, hr with
    | [c], hr => exact all4_of_atom hr rfl (atomOK_literal c ci hr) rfl rfl rfl rfl rfl rfl
  | .group g e, hr => by
    have hr' := hr
    simp only [rtShape, Bool.and_eq_true] at hr'
    exact all4_of_atom hr rfl (atomOK_group hr (all4 e hr'.2).re) rfl rfl rfl rfl rfl rfl
  | .concat es, hr => by
    have hr' := hr
    simp only [rtShape, Bool.and_eq_true, decide_eq_true_eq] at hr'
    have hch := all4List es (rtAll_of_rtPieces hr'.2)
    have hb : BranchOK (.concat es) := by
      intro isAlnum re hwf s post st ix f d hs hp ht hg hd hf
      simp only [toStr, Option.map_eq_some_iff] at hs
      obtain ⟨t, ht', rfl⟩ := hs
      have hn : nestP (.concat es) 1 = nestMax es 2 := by simp [nestP, nestIn, wrapped]
      rw [hn] at hd hf
      simp only [gt_iff_lt, Nat.lt_irrefl, ↓reduceIte] at hp hf ⊢
      obtain ⟨f, rfl⟩ : ∃ f', f = f' + 1 := ⟨f - 1, by omega⟩
      obtain ⟨st', h1, hg'⟩ := pieces_loop es hr'.2
        (fun e he => (hch e he).piece (rtPieces_mem hr'.2 e he).2) isAlnum re hwf t post st ix f d ht' hp ht
        hg hd (by omega)
      refine ⟨st', ?_, hg'⟩
      rw [parseBranch_of_loop isAlnum h1]
      match es, hr'.1 with
      | _ :: _ :: _, _ => rfl
    have hre : ReOK (.concat es) := re_of_branch (by simp [toStr]) (by simp [nestP, wrapped]) hb
    have ha : AtomOK (.concat es) := atom_of_re (by simp [toStr]) (by simp [nestP, wrapped]) hre
    exact ⟨fun _ => ha, fun _ => piece_of_atom (by simp [toStr]) (by simp [nestP, wrapped]) ha, hb, hre⟩
  | .alt es, hr => by
    have hr' := hr
    simp only [rtShape, Bool.and_eq_true, decide_eq_true_eq] at hr'
    have hch := all4List es hr'.2
    have hre : ReOK (.alt es) := by
      intro isAlnum re hwf s post st ix f d hs hp hc hg hd hf
      simp only [toStr, Option.map_eq_some_iff] at hs
      obtain ⟨t, ht', rfl⟩ := hs
      have hn : nestP (.alt es) 0 = nestMax es 1 := by simp [nestP, nestIn, wrapped]
      rw [hn] at hd hf
      simp only [gt_iff_lt, Nat.lt_irrefl, ↓reduceIte] at hp hf ⊢
      match es, hr'.1, hch, ht' with
      | e :: e2 :: es', _, hch, ht' =>
        simp only [toStrAlt] at ht'
        split at ht'
        · rename_i a b ha hb
          simp at ht'; subst ht'
          rw [enc_append] at hp hf ⊢
          simp only [List.length_append] at hf ⊢
          have hmax1 : nestP e 1 ≤ max (nestP e 1) (nestMax (e2 :: es') 1) := Nat.le_max_left _ _
          have hmax2 : nestMax (e2 :: es') 1 ≤ max (nestP e 1) (nestMax (e2 :: es') 1) :=
            Nat.le_max_right _ _
          have hd' : d + max (nestP e 1) (nestMax (e2 :: es') 1) < Generated.maxRecursion := hd
          have hf' : 2 * ((enc a).length + (enc b).length) +
              8 * max (nestP e 1) (nestMax (e2 :: es') 1) + 8 ≤ f := hf
          obtain ⟨f, rfl⟩ : ∃ f', f = f' + 1 := ⟨f - 1, by omega⟩
          have hp1 : At re ix (enc a ++ (enc b ++ post)) := by
            simpa [List.append_assoc] using hp
          have hb' : toStrAlt Generated.isSpecial (e2 :: es') false = some b := by
            simpa only [toStrAlt] using hb
          have htm := term_alt hb' hc
          obtain ⟨st1, h1, hg1⟩ := (hch e (by simp)).branch isAlnum re hwf a (enc b ++ post) st ix f d ha
            hp1 htm hg (by omega) (by omega)
          obtain ⟨st', h2, hg'⟩ := alts_loop (e2 :: es') (fun e' he' => (hch e' (by simp [he'])).branch)
            isAlnum re hwf b post st1 (ix + (enc a).length) f d hb' hp1.adv hc hg1 (by omega) (by omega)
          have hbar : ∃ b', enc b ++ post = ch '|' :: b' := by
            split at hb
            · rename_i a2 b2 _ _
              simp at hb; subst hb
              exact ⟨enc (a2 ++ b2) ++ post, by
                rw [enc_ascii _ _ (by decide)]; rfl⟩
            · cases hb
          obtain ⟨b', hb'⟩ := hbar
          have hp2 : At re (ix + (enc a).length) (ch '|' :: b') := by rw [← hb']; exact hp1.adv
          refine ⟨_, ?_, hg'.alt true⟩
          rw [parseRe_of_alt isAlnum h1 hg1.ws hp2 h2]
          congr 2
          omega
        · cases ht'
    have ha : AtomOK (.alt es) := atom_of_re (by simp [toStr]) (by simp [nestP, wrapped]) hre
    have hp : PieceOK (.alt es) := piece_of_atom (by simp [toStr]) (by simp [nestP, wrapped]) ha
    exact ⟨fun _ => ha, fun _ => hp,
      branch_of_piece hr rfl (by simp [toStr]) (by simp [nestP, wrapped]) hp, hre⟩
  | .repeat e lo hi g, hr => by
    have hr' := hr
    simp only [rtShape, Bool.and_eq_true, decide_eq_true_eq] at hr'
    have hemp : e.isEmpty = false := by
      have := hr'.1.1.2
      cases e <;> simp_all [Expr.isEmpty, isRepeatable]
    have hp : PieceOK (.repeat e lo hi g) :=
      pieceOK_repeat hr'.1.1.2 ((all4 e hr'.1.1.1).atom hemp) (quantOK hr'.1.2 (by
        intro h hh; subst hh; simpa using hr'.2))
    have hb := branch_of_piece hr rfl (by simp [toStr_repeat]) (by simp [nestP, wrapped]) hp
    have hre := re_of_branch (by simp [toStr_repeat]) (by simp [nestP, wrapped]) hb
    have ha : AtomOK (.repeat e lo hi g) :=
      atom_of_re (by
        simp only [toStr_repeat, Option.map_map]
        congr 1) (by simp [nestP, wrapped]) hre
    exact ⟨fun _ => ha, fun _ => hp, hb, hre⟩
  | .look _ _, hr | .delegate _ _ _, hr | .backref _, hr | .atomic _, hr | .keepOut, hr | .contPrev, hr
  | .backrefExists _, hr | .cond _ _ _, hr | .subroutine _, hr => by simp [rtShape] at hr
theorem all4List : ∀ (es : List Expr), rtAll es = true → ∀ e ∈ es, All4 e
  | [], _, e, he => by simp at he
  | e' :: es, h, e, he => by
    simp only [rtAll, Bool.and_eq_true] at h
    rcases List.mem_cons.mp he with h1 | h1
    · rw [h1]; exact all4 e' h.1
    · exact all4List es h.2 e h1
end

/-! ## the round trip -/

/-- **C04_roundtrip** (general position): wherever the text `to_str e 0` stands in a pattern, closed
    by `)` or the end, `parse_re` started there (default flags, depth `d`, enough fuel) returns
    exactly `e` and stops right after the text -/
theorem C04_roundtrip_parseRe (e : Expr) (h : rtShape e = true) : ReOK e := (all4 e h).re

/-- the same for the three inner levels of the grammar: `to_str e 1` under `parse_branch`,
    `to_str e 2` under `parse_piece` (followed by no quantifier), `to_str e 3` under `parse_atom` -/
theorem C04_roundtrip_levels (e : Expr) (h : rtShape e = true) :
    BranchOK e ∧ (e.isEmpty = false → PieceOK e ∧ AtomOK e) :=
  ⟨(all4 e h).branch, fun hne => ⟨(all4 e h).piece hne, (all4 e h).atom hne⟩⟩

/-- **C04_roundtrip**: for every tree of the fragment `rtOK`, the text `Expr::to_str` writes for it
    is accepted by the parser and parses back to the very same tree (`norm` = identity) -/
theorem C04_roundtrip (isAlnum : Char → Bool) (e : Expr) (h : rtOK e = true) (s : List Char)
    (hs : toStr Generated.isSpecial e 0 = some s) :
    ∃ t, parseStr isAlnum s false = .ok t ∧ t.expr = e := by
  simp only [rtOK, Bool.and_eq_true, decide_eq_true_eq] at h
  have hwf := WF_bytesOf s
  have hp : At (bytesOf s) 0 (enc s ++ []) := ⟨[], by simp [bytesOf_toList], rfl⟩
  have hsz : (bytesOf s).size = (enc s).length := by
    rw [← Array.length_toList, bytesOf_toList]
  obtain ⟨st', h1, _⟩ := (all4 e h.1).re isAlnum (bytesOf s) hwf s [] { flags := { casei := false } } 0
    (descentFuel (bytesOf s).size) 0 hs hp rfl ⟨rfl, rfl⟩ (by omega)
    (by rw [hsz]; simp only [descentFuel]; have := h.2; simp only [Generated.maxRecursion] at *; omega)
  refine ⟨⟨e, st'.backrefs, st'.namedGroups⟩, ?_, rfl⟩
  unfold parseStr parseBytes
  simp only [h1]
  simp [hsz]

/-! ## group numbers: the parser writes `Group` without a number (0 in the model) -/

mutual
/-- `norm`: all group numbers set to 0 (what the parser returns; `to_str` does not print them) -/
def zeroGroups : Expr → Expr
  | .concat es => .concat (zeroGroupsList es)
  | .alt es => .alt (zeroGroupsList es)
  | .group _ e => .group 0 (zeroGroups e)
  | .look e la => .look (zeroGroups e) la
  | .repeat e lo hi g => .repeat (zeroGroups e) lo hi g
  | .atomic e => .atomic (zeroGroups e)
  | .cond c y n => .cond (zeroGroups c) (zeroGroups y) (zeroGroups n)
  | e => e
def zeroGroupsList : List Expr → List Expr
  | [] => []
  | e :: es => zeroGroups e :: zeroGroupsList es
end

mutual
theorem toStr_zeroGroups (sp : Char → Bool) : ∀ (e : Expr) (p : Nat),
    toStr sp (zeroGroups e) p = toStr sp e p
  | .concat es, p => by simp only [zeroGroups, toStr, toStrConcat_zeroGroups sp es]
  | .alt es, p => by simp only [zeroGroups, toStr, toStrAlt_zeroGroups sp es]
  | .group _ e, p => by simp only [zeroGroups, toStr, toStr_zeroGroups sp e]
  | .repeat e lo hi g, p => by simp only [zeroGroups, toStr, toStr_zeroGroups sp e]
  | .look _ _, _ | .atomic _, _ | .cond _ _ _, _ => by simp [zeroGroups, toStr]
  | .empty, _ | .any _, _ | .literal _ _, _ | .assertion _, _ | .delegate _ _ _, _ | .backref _, _
  | .keepOut, _ | .contPrev, _ | .backrefExists _, _ | .subroutine _, _ => by simp [zeroGroups]
theorem toStrConcat_zeroGroups (sp : Char → Bool) : ∀ (es : List Expr),
    toStrConcat sp (zeroGroupsList es) = toStrConcat sp es
  | [] => rfl
  | e :: es => by
    simp only [zeroGroupsList, toStrConcat, toStr_zeroGroups sp e, toStrConcat_zeroGroups sp es]
theorem toStrAlt_zeroGroups (sp : Char → Bool) : ∀ (es : List Expr) (b : Bool),
    toStrAlt sp (zeroGroupsList es) b = toStrAlt sp es b
  | [], _ => rfl
  | e :: es, b => by
    simp only [zeroGroupsList, toStrAlt, toStr_zeroGroups sp e, toStrAlt_zeroGroups sp es]
end

/-- **C04_roundtrip_norm**: with arbitrary group numbers in the tree (as after the analyzer's
    numbering), the text parses back to the tree with the numbers reset: `t.expr = zeroGroups e`.
    The fragment is stated on the normalised tree. -/
theorem C04_roundtrip_norm (isAlnum : Char → Bool) (e : Expr) (h : rtOK (zeroGroups e) = true)
    (s : List Char) (hs : toStr Generated.isSpecial e 0 = some s) :
    ∃ t, parseStr isAlnum s false = .ok t ∧ t.expr = zeroGroups e :=
  C04_roundtrip isAlnum (zeroGroups e) h s (by rw [toStr_zeroGroups]; exact hs)

/-! ## machine-checked instances -/

section Examples
private abbrev al : Char → Bool := fun c => c.isAlphanum
private abbrev la : Expr := .literal ['a'] false
private abbrev lb : Expr := .literal ['b'] false
private abbrev lc : Expr := .literal ['c'] false

set_option linter.unusedSimpArgs false in
/-- `a|bc*` -/
theorem C04_roundtrip_ex1 :
    toStr Generated.isSpecial (.alt [la, .concat [lb, .repeat lc 0 none true]]) 0 = some "a|bc*".toList ∧
    parseStr al "a|bc*".toList false = .ok ⟨.alt [la, .concat [lb, .repeat lc 0 none true]], [], []⟩ :=
  ⟨by simp [toStr, toStrAlt, toStrConcat, pushQuoted, Generated.isSpecial, Generated.specialChars],
   isTree_sound (by decide +kernel)⟩

set_option linter.unusedSimpArgs false in
/-- `(?:ab){2,3}?x` -/
theorem C04_roundtrip_ex2 :
    toStr Generated.isSpecial (.concat [.repeat (.concat [la, lb]) 2 (some 3) false, .literal ['x'] false]) 0 =
      some "(?:ab){2,3}?x".toList ∧
    parseStr al "(?:ab){2,3}?x".toList false =
      .ok ⟨.concat [.repeat (.concat [la, lb]) 2 (some 3) false, .literal ['x'] false], [], []⟩ :=
  ⟨by simp [toStr, toStrAlt, toStrConcat, pushQuoted, Generated.isSpecial, Generated.specialChars, natDigits]
      decide,
   isTree_sound (by decide +kernel)⟩

set_option linter.unusedSimpArgs false in
/-- `(a|b)+?c` -/
theorem C04_roundtrip_ex3 :
    toStr Generated.isSpecial (.concat [.repeat (.group 0 (.alt [la, lb])) 1 none false, lc]) 0 =
      some "(a|b)+?c".toList ∧
    parseStr al "(a|b)+?c".toList false =
      .ok ⟨.concat [.repeat (.group 0 (.alt [la, lb])) 1 none false, lc], [], []⟩ :=
  ⟨by simp [toStr, toStrAlt, toStrConcat, pushQuoted, Generated.isSpecial, Generated.specialChars],
   isTree_sound (by decide +kernel)⟩

set_option linter.unusedSimpArgs false in
/-- `(?i:k)\.` -/
theorem C04_roundtrip_ex4 :
    toStr Generated.isSpecial (.concat [.literal ['k'] true, .literal ['.'] false]) 0 =
      some "(?i:k)\\.".toList ∧
    parseStr al "(?i:k)\\.".toList false =
      .ok ⟨.concat [.literal ['k'] true, .literal ['.'] false], [], []⟩ :=
  ⟨by simp [toStr, toStrAlt, toStrConcat, pushQuoted, Generated.isSpecial, Generated.specialChars],
   isTree_sound (by decide +kernel)⟩

set_option linter.unusedSimpArgs false in
/-- the four trees are in the fragment (so `C04_roundtrip` applies to them; also `wrap_tree`'s
    prefix `(?s:.)*?`) -/
theorem C04_roundtrip_ex_inFragment :
    rtOK (.alt [la, .concat [lb, .repeat lc 0 none true]]) = true ∧
    rtOK (.concat [.repeat (.concat [la, lb]) 2 (some 3) false, .literal ['x'] false]) = true ∧
    rtOK (.concat [.repeat (.group 0 (.alt [la, lb])) 1 none false, lc]) = true ∧
    rtOK (.concat [.literal ['k'] true, .literal ['.'] false]) = true ∧
    rtOK (.concat [.repeat (.any true) 0 none false, .group 0 la]) = true := by
  simp [rtOK, rtShape, rtPieces, rtAll, isRepeatable, Expr.isEmpty, nestP, nestIn, nestMax, wrapped,
    Generated.isSpecial, Generated.specialChars, Generated.maxRecursion, usizeMax]

/-! ## where the round trip is NOT the identity -/

set_option linter.unusedSimpArgs false in
/-- **a case-insensitive literal of a special character** comes back case-sensitive: `to_str`
    writes `(?i:\.)`, and `parse_escape` makes every escaped punctuation character a
    `make_literal` (`casei = false`).  The tree is reachable from a pattern: `(?i)\x2E` parses to
    it (`parse_hex` keeps the flag).  Same language: a special character has no case variants. -/
theorem C04_roundtrip_counterexample_casei_special :
    toStr Generated.isSpecial (.literal ['.'] true) 0 = some "(?i:\\.)".toList ∧
    parseStr al "(?i:\\.)".toList false = .ok ⟨.literal ['.'] false, [], []⟩ ∧
    parseStr al "(?i)\\x2E".toList false = .ok ⟨.literal ['.'] true, [], []⟩ :=
  ⟨by simp [toStr, pushQuoted, Generated.isSpecial, Generated.specialChars],
   isTree_sound (by decide +kernel), isTree_sound (by decide +kernel)⟩

set_option linter.unusedSimpArgs false in
/-- **a literal of several characters under a quantifier** is printed without `(?:…)` (`to_str`
    never wraps a `Literal`): `Repeat(Literal "ab", *)` is written `ab*`, which is `a(?:b*)` — a
    different language.  A precedence defect of `to_str`, but NOT reachable from a parsed pattern:
    the parser only makes one-character literals (`parse_parsedOK`), and nothing in the crate
    merges them before `to_str`; only a hand-built `Expr` shows it. -/
theorem C04_roundtrip_counterexample_multichar_literal :
    toStr Generated.isSpecial (.repeat (.literal ['a', 'b'] false) 0 none true) 0 = some "ab*".toList ∧
    parseStr al "ab*".toList false = .ok ⟨.concat [la, .repeat lb 0 none true], [], []⟩ :=
  ⟨by simp [toStr, pushQuoted, Generated.isSpecial, Generated.specialChars],
   isTree_sound (by decide +kernel)⟩

set_option linter.unusedSimpArgs false in
/-- shapes the parser normalises (same language): `Empty` inside a concatenation is dropped, a
    one-element concatenation is its element, a several-character literal becomes a
    concatenation, `(?i:ab)` distributes the flag -/
theorem C04_roundtrip_counterexample_normalised :
    (toStr Generated.isSpecial (.concat [la, .empty, lb]) 0 = some "ab".toList ∧
      toStr Generated.isSpecial (.literal ['a', 'b'] false) 0 = some "ab".toList ∧
      parseStr al "ab".toList false = .ok ⟨.concat [la, lb], [], []⟩) ∧
    (toStr Generated.isSpecial (.concat [la]) 0 = some "a".toList ∧
      parseStr al "a".toList false = .ok ⟨la, [], []⟩) ∧
    (toStr Generated.isSpecial (.literal ['a', 'b'] true) 0 = some "(?i:ab)".toList ∧
      parseStr al "(?i:ab)".toList false =
        .ok ⟨.concat [.literal ['a'] true, .literal ['b'] true], [], []⟩) :=
  ⟨⟨by simp [toStr, toStrConcat, pushQuoted, Generated.isSpecial, Generated.specialChars],
    by simp [toStr, pushQuoted, Generated.isSpecial, Generated.specialChars],
    isTree_sound (by decide +kernel)⟩,
   ⟨by simp [toStr, toStrConcat, pushQuoted, Generated.isSpecial, Generated.specialChars],
    isTree_sound (by decide +kernel)⟩,
   ⟨by simp [toStr, pushQuoted, Generated.isSpecial, Generated.specialChars],
    isTree_sound (by decide +kernel)⟩⟩

set_option linter.unusedSimpArgs false in
/-- texts fancy-regex's own parser rejects (they are only ever read by regex-syntax): the CRLF
    line anchors `(?Rm:^)`, and a quantified assertion -/
theorem C04_roundtrip_counterexample_rejected :
    (toStr Generated.isSpecial (.assertion (.startLine true)) 0 = some "(?Rm:^)".toList ∧
      parseStr al "(?Rm:^)".toList false = .err (.unknownFlag [40, 63, 82]) 2) ∧
    (toStr Generated.isSpecial (.repeat (.assertion .startText) 0 none false) 0 = some "^*?".toList ∧
      parseStr al "^*?".toList false = .err .targetNotRepeatable 1) :=
  ⟨⟨by simp [toStr], isErr_sound (by decide +kernel)⟩,
   ⟨by simp [toStr], isErr_sound (by decide +kernel)⟩⟩

set_option linter.unusedSimpArgs false in
/-- `Delegate` leaves are outside `rtOK`; on the texts the parser itself produces they do come
    back (instances) -/
theorem C04_roundtrip_delegate_examples :
    (toStr Generated.isSpecial (.delegate "[a-z]".toList 1 false) 0 = some "[a-z]".toList ∧
      parseStr al "[a-z]".toList false = .ok ⟨.delegate "[a-z]".toList 1 false, [], []⟩) ∧
    (toStr Generated.isSpecial (.delegate "[a-z]".toList 1 true) 0 = some "(?i:[a-z])".toList ∧
      parseStr al "(?i:[a-z])".toList false = .ok ⟨.delegate "[a-z]".toList 1 true, [], []⟩) ∧
    (toStr Generated.isSpecial (.concat [.delegate "\\d".toList 1 false, la]) 0 = some "\\da".toList ∧
      parseStr al "\\da".toList false = .ok ⟨.concat [.delegate "\\d".toList 1 false, la], [], []⟩) :=
  ⟨⟨by simp [toStr], isTree_sound (by decide +kernel)⟩,
   ⟨by simp [toStr], isTree_sound (by decide +kernel)⟩,
   ⟨by simp [toStr, toStrConcat, pushQuoted, Generated.isSpecial, Generated.specialChars],
    isTree_sound (by decide +kernel)⟩⟩

end Examples

end Fancy.Parse
