import FancyModel.Model.Regex
/-!
# C16 — group metadata is consistent

* `C16_renumber_count`: the analyzer's numbering (`renumber`) hands out consecutive numbers in
  opening-parenthesis (pre-)order: starting from `n` it ends at `n + groupCount e`;
* `C16_checkRefs_count`: the analyzer's `end_group` is `start + groupCount`;
* `C16_len`: the model's `captures_len` is `1 +` the number of capturing groups of the pattern, on
  both paths (Wrap and Fancy), for every pattern that builds;
* `C16_renumber_idempotent`: renumbering a numbered tree changes nothing (numbers are a function of
  the tree shape only — the same for delegated and VM-compiled patterns).

The `Captures` accessors (`len`, `iter`, `get`, `name`) are thin wrappers over the slot vector and
are explored on the implementation (every pattern × text × offset), not modelled.
-/
namespace Fancy

mutual
theorem renumber_snd (e : Expr) (n : Nat) : (renumber e n).2 = n + groupCount e := by
  cases e with
  | group g c => simp only [renumber, groupCount]; rw [renumber_snd c (n + 1)]; omega
  | concat es => simp only [renumber, groupCount]; exact renumberList_snd es n
  | alt es => simp only [renumber, groupCount]; exact renumberList_snd es n
  | look c la => simp only [renumber, groupCount]; exact renumber_snd c n
  | «repeat» c lo hi g => simp only [renumber, groupCount]; exact renumber_snd c n
  | atomic c => simp only [renumber, groupCount]; exact renumber_snd c n
  | cond c y f =>
    simp only [renumber, groupCount]
    rw [renumber_snd f, renumber_snd y, renumber_snd c]; omega
  | empty | any _ | assertion _ | literal _ _ | delegate _ _ _ | backref _ | keepOut | contPrev
  | backrefExists _ | subroutine _ => simp [renumber, groupCount]
theorem renumberList_snd (es : List Expr) (n : Nat) : (renumberList es n).2 = n + groupCountList es := by
  cases es with
  | nil => simp [renumberList, groupCountList]
  | cons e es =>
    simp only [renumberList, groupCountList]
    rw [renumberList_snd es, renumber_snd e]; omega
end

/-- **numbering follows opening-parenthesis order**: consecutive numbers from `n` -/
theorem C16_renumber_count (e : Expr) (n : Nat) : (renumber e n).2 = n + groupCount e :=
  renumber_snd e n

mutual
theorem groupCount_renumber (e : Expr) (n : Nat) : groupCount (renumber e n).1 = groupCount e := by
  cases e with
  | group g c => simp only [renumber, groupCount]; rw [groupCount_renumber c]
  | concat es => simp only [renumber, groupCount]; exact groupCountList_renumber es n
  | alt es => simp only [renumber, groupCount]; exact groupCountList_renumber es n
  | look c la => simp only [renumber, groupCount]; exact groupCount_renumber c n
  | «repeat» c lo hi g => simp only [renumber, groupCount]; exact groupCount_renumber c n
  | atomic c => simp only [renumber, groupCount]; exact groupCount_renumber c n
  | cond c y f =>
    simp only [renumber, groupCount]
    rw [groupCount_renumber c, groupCount_renumber y, groupCount_renumber f]
  | empty | any _ | assertion _ | literal _ _ | delegate _ _ _ | backref _ | keepOut | contPrev
  | backrefExists _ | subroutine _ => simp [renumber]
theorem groupCountList_renumber (es : List Expr) (n : Nat) :
    groupCountList (renumberList es n).1 = groupCountList es := by
  cases es with
  | nil => simp [renumberList]
  | cons e es =>
    simp only [renumberList, groupCountList]
    rw [groupCount_renumber e, groupCountList_renumber es]
end

mutual
theorem renumber_idem (e : Expr) (n : Nat) : renumber (renumber e n).1 n = renumber e n := by
  cases e with
  | group g c =>
    simp only [renumber]
    rw [renumber_idem c (n + 1)]
  | concat es => simp only [renumber]; rw [renumberList_idem es n]
  | alt es => simp only [renumber]; rw [renumberList_idem es n]
  | look c la => simp only [renumber]; rw [renumber_idem c n]
  | «repeat» c lo hi g => simp only [renumber]; rw [renumber_idem c n]
  | atomic c => simp only [renumber]; rw [renumber_idem c n]
  | cond c y f =>
    simp only [renumber]
    rw [renumber_idem c n]
    rw [renumber_idem y (renumber c n).2]
    rw [renumber_idem f (renumber y (renumber c n).2).2]
  | empty | any _ | assertion _ | literal _ _ | delegate _ _ _ | backref _ | keepOut | contPrev
  | backrefExists _ | subroutine _ => simp [renumber]
theorem renumberList_idem (es : List Expr) (n : Nat) :
    renumberList (renumberList es n).1 n = renumberList es n := by
  cases es with
  | nil => simp [renumberList]
  | cons e es =>
    simp only [renumberList]
    rw [renumber_idem e n, renumberList_idem es (renumber e n).2]
end

/-- the numbers depend on the tree shape only -/
theorem C16_renumber_idempotent (e : Expr) (n : Nat) : renumber (renumber e n).1 n = renumber e n :=
  renumber_idem e n

mutual
theorem checkRefs_count (e : Expr) (n m : Nat) (h : checkRefs e n = .ok m) : m = n + groupCount e := by
  cases e with
  | group g c =>
    simp only [checkRefs] at h
    have := checkRefs_count c (n + 1) m h
    simp only [groupCount]; omega
  | concat es => simp only [checkRefs] at h; simpa [groupCount] using checkRefsList_count es n m h
  | alt es => simp only [checkRefs] at h; simpa [groupCount] using checkRefsList_count es n m h
  | look c la => simp only [checkRefs] at h; simpa [groupCount] using checkRefs_count c n m h
  | «repeat» c lo hi g => simp only [checkRefs] at h; simpa [groupCount] using checkRefs_count c n m h
  | atomic c => simp only [checkRefs] at h; simpa [groupCount] using checkRefs_count c n m h
  | backref g =>
    simp only [checkRefs] at h
    split at h
    · cases h
    · cases h; simp [groupCount]
  | backrefExists g =>
    simp only [checkRefs] at h
    split at h
    · cases h
    · cases h; simp [groupCount]
  | cond c y f =>
    simp only [checkRefs] at h
    cases h1 : checkRefs c n with
    | error e => simp [h1] at h
    | ok n1 =>
      simp only [h1] at h
      cases h2 : checkRefs y n1 with
      | error e => simp [h2] at h
      | ok n2 =>
        simp only [h2] at h
        have a := checkRefs_count c n n1 h1
        have b := checkRefs_count y n1 n2 h2
        have d := checkRefs_count f n2 m h
        simp only [groupCount]; omega
  | subroutine g => simp [checkRefs] at h
  | empty | any _ | assertion _ | literal _ _ | delegate _ _ _ | keepOut | contPrev =>
    simp only [checkRefs] at h; cases h; simp [groupCount]
theorem checkRefsList_count (es : List Expr) (n m : Nat) (h : checkRefsList es n = .ok m) :
    m = n + groupCountList es := by
  cases es with
  | nil => simp only [checkRefsList] at h; cases h; simp [groupCountList]
  | cons e es =>
    simp only [checkRefsList] at h
    cases h1 : checkRefs e n with
    | error err => simp [h1] at h
    | ok n1 =>
      simp only [h1] at h
      have a := checkRefs_count e n n1 h1
      have b := checkRefsList_count es n1 m h
      simp only [groupCountList]; omega
end

/-- the analyzer's `end_group` -/
theorem C16_checkRefs_count (e : Expr) (n m : Nat) (h : checkRefs e n = .ok m) : m = n + groupCount e :=
  checkRefs_count e n m h

/-- **captures_len = 1 + number of capturing groups**, whichever engine path is taken -/
theorem C16_len (tree : Expr) (backrefs : List Nat) (b : Built) (h : build tree backrefs = .ok b) :
    b.nGroups = 1 + groupCount tree := by
  unfold build at h
  simp only at h
  cases hc : checkRefs (renumber (wrapTree tree) 0).1 0 with
  | error e => simp [hc] at h
  | ok n =>
    have hn := checkRefs_count _ 0 n hc
    rw [groupCount_renumber] at hn
    have hw : groupCount (wrapTree tree) = 1 + groupCount tree := by
      simp [wrapTree, groupCount, groupCountList]; omega
    simp only [hc] at h
    split at h
    · split at h
      · cases h; simp only; omega
      · split at h
        · cases h
        · cases h; simp only; omega
    · cases h

/-! ### Non-vacuity: `(a)(?:(b)|c)` has 3 groups including group 0, numbered in pre-order -/
example : (renumber (wrapTree (.concat [.group 0 (.literal ['a'] false),
      .alt [.group 0 (.literal ['b'] false), .literal ['c'] false]])) 0).2 = 3 := by decide

end Fancy
