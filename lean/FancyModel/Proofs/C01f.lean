import FancyModel.Proofs.C03d
import FancyModel.Proofs.C05e
import FancyModel.Lemmas.VMBytesAgree
import FancyModel.Lemmas.ParseHiOK
import FancyModel.Lemmas.ParseCodeBound
import FancyModel.Proofs.C06d
/-!
# C01f — the capstone chain: analyze.rs, compile.rs and `vm::run`, as translated, compute the
reference semantics (stage S3)

The pieces:
* `Proofs/C13c.lean`, `Proofs/C03d.lean` — the TRANSLATED analyzer (`GenAnalyze.genAnalyze`) followed by the
  TRANSLATED compiler (`GenCompile.compile`) on the wrapped, numbered tree is `checkRefs` followed by the
  model's `compile` (`C01_analyze_compile_eq`); `genFront` packages the two as in that theorem;
* `Proofs/C05f.lean` — the TRANSLATED `vm::run` (`GenVM.genRun`) is the byte machine `runB` wherever the side
  condition `StepAgree` holds along the run;
* `Lemmas/VMBytesAgree.lean` — `StepAgree` holds along every run that follows a `Big2` derivation
  (`big2_genRun`), hence for every stage-S3 pattern (`big2_s3`);
* `Proofs/C05e.lean` — `runB` on the encoded text reports the reference search's slots as byte offsets
  (`C01_bytes_vm_correct_s3`), never panics, terminates.

`C01_translated_chain_s3`: for a stage-S3 pattern in the domain of the translations (`analyzable`, `hiOK`,
`codeBound … < usize::MAX`), the translated front end returns a program, and the translated interpreter on
it, on the UTF-8 bytes of the text from the byte offset of `pos`, stops on a resource limit or reports
exactly the reference search's capture slots as byte offsets / no match.
`C01_translated_chain_pipeline`: the same from the pattern string (the parser is the model's `parseStr`).
`C07_translated_chain_terminates`, `C05_translated_chain_no_panic`: termination, no panic.
-/
namespace Fancy
open Utf8 GenAnalyze GenCompile GenVM

/-- the translated front end: `analyze` then `compile`, errors merged (the form of `C01_analyze_compile_eq`) -/
def genFront (br : Nat → Bool) (wrapped : Expr) : Except CErr Prog :=
  match genAnalyze br wrapped with
  | .error (.compile err) => .error (.compile err)
  | .error .indexPanic => .error (.panic "index")
  | .ok info => GenCompile.compile info

/-- **the translated analyzer and compiler return the program `build` stores** -/
theorem genFront_eq_of_build (tree : Expr) (backrefs : List Nat) (b : Built) (prog : Prog)
    (hb : build tree backrefs = .ok b) (hk : b.kind = .fancy prog)
    (ha : analyzable tree = true) (hh : hiOK tree = true)
    (hfit : codeBound (renumber (wrapTree tree) 0).1 < UNSET) :
    genFront (fun g => backrefs.contains g) (renumber (wrapTree tree) 0).1 = .ok prog := by
  obtain ⟨_, hwr, hchk, _, hcomp⟩ := build_fancy tree backrefs b prog hb hk
  have h := C01_analyze_compile_eq tree backrefs ha hh hfit
  simp only at h
  rw [hwr] at hchk hcomp
  rw [hchk] at h
  simp only [hcomp] at h
  exact h

section Chain
variable (c : Ctx)
variable (hceq : ∀ a b, c.ceq false a b = (a == b))
variable (hU : (bytesOfChars c.text).length < UNSET)

include hU in
theorem len_lt_unset : c.len < UNSET := by
  have := len_le_blen c.text; unfold Ctx.len; omega

include hceq hU in
/-- stage S3: the translated interpreter IS the byte machine on the compiled program -/
theorem genRun_eq_runB_s3 (tree : Expr) (backrefs : List Nat) (b : Built) (prog : Prog)
    (hb : build tree backrefs = .ok b) (hk : b.kind = .fancy prog)
    (hs3 : s3ok (fun g => backrefs.contains g) b.raw true = true) (hws : wellShaped b.raw = true)
    (hz : noBareEndZ b.raw = true) (hpos : c.pos ≤ c.len) (op : VMOpts) (fuel : Nat) :
    genRun (BCtx.ofCtx c) prog op fuel = runB (BCtx.ofCtx c) prog op fuel := by
  obtain ⟨hwt, hτ, _, _⟩ := build_wellTyped tree backrefs b prog hb hk
  exact big2_genRun c (tauOf prog.body b.nGroups) prog hceq hU hτ hpos hwt
    (delegOK_of_prog c prog.body prog.nSaves (build_progDelegOK tree backrefs b prog hb hk)) _
    (big2_s3 tree backrefs b prog c hb hk hs3 hws hz (len_lt_unset c hU) hpos) op fuel

include hceq hU in
/-- **C01, the translated chain, stage S3**: the translated analyzer + compiler return a program, and the
    translated `vm::run` on it stops on a resource limit or reports the reference search's slots, as byte
    offsets (truncated to the capture slots) — `noMatch` where the reference search finds nothing -/
theorem C01_translated_chain_s3 (tree : Expr) (backrefs : List Nat) (b : Built) (prog : Prog)
    (hb : build tree backrefs = .ok b) (hk : b.kind = .fancy prog)
    (hs3 : s3ok (fun g => backrefs.contains g) b.raw true = true) (hws : wellShaped b.raw = true)
    (hz : noBareEndZ b.raw = true) (hpos : c.pos ≤ c.len)
    (ha : analyzable tree = true) (hh : hiOK tree = true)
    (hfit : codeBound (renumber (wrapTree tree) 0).1 < UNSET) (limit fuel : Nat) :
    ∃ prog', genFront (fun g => backrefs.contains g) (renumber (wrapTree tree) 0).1 = .ok prog' ∧
      ((genRun (BCtx.ofCtx c) prog' ⟨limit, maxStackDefault⟩ fuel).1 = .outOfFuel ∨
       (genRun (BCtx.ofCtx c) prog' ⟨limit, maxStackDefault⟩ fuel).1 = .errStack ∨
       (genRun (BCtx.ofCtx c) prog' ⟨limit, maxStackDefault⟩ fuel).1 = .errLimit ∨
       match refSearch c b.raw b.nGroups with
       | some f => ∃ savesB, (genRun (BCtx.ofCtx c) prog' ⟨limit, maxStackDefault⟩ fuel).1 = .matched savesB ∧
           (viewSlots savesB).take (b.nGroups * 2) = f.slots.map (Option.map (offOf c.text))
       | none => (genRun (BCtx.ofCtx c) prog' ⟨limit, maxStackDefault⟩ fuel).1 = .noMatch) := by
  refine ⟨prog, genFront_eq_of_build tree backrefs b prog hb hk ha hh hfit, ?_⟩
  rw [genRun_eq_runB_s3 c hceq hU tree backrefs b prog hb hk hs3 hws hz hpos]
  exact C01_bytes_vm_correct_s3 c hceq hU tree backrefs b prog hb hk hs3 hws hz (len_lt_unset c hU) hpos limit fuel

include hceq hU in
/-- **the same from the pattern string** (hypotheses of `C01_pipeline_s3`; the parser is the model's). The domain
    conditions `analyzable` and `hiOK` of the translated analyzer/compiler hold of every parsed tree
    (`Parse.parse_analyzable`, `Parse.parse_hiOK`, Lemmas/ParseHiOK.lean); what remains is the size bound `hfit`. -/
theorem C01_translated_chain_pipeline (isAlnum : Char → Bool) (cs : List Char) (casei : Bool) (t : Parse.Tree)
    (b : Built) (prog : Prog) (hp : Parse.parseStr isAlnum cs casei = .ok t) (hb : build t.expr t.backrefs = .ok b)
    (hk : b.kind = .fancy prog) (hst : s3Pattern t b = true) (hpos : c.pos ≤ c.len)
    (hfit : codeBound (renumber (wrapTree t.expr) 0).1 < UNSET) (limit fuel : Nat) :
    ∃ prog', genFront (fun g => t.backrefs.contains g) (renumber (wrapTree t.expr) 0).1 = .ok prog' ∧
      ((genRun (BCtx.ofCtx c) prog' ⟨limit, maxStackDefault⟩ fuel).1 = .outOfFuel ∨
       (genRun (BCtx.ofCtx c) prog' ⟨limit, maxStackDefault⟩ fuel).1 = .errStack ∨
       (genRun (BCtx.ofCtx c) prog' ⟨limit, maxStackDefault⟩ fuel).1 = .errLimit ∨
       match refSearch c b.raw b.nGroups with
       | some f => ∃ savesB, (genRun (BCtx.ofCtx c) prog' ⟨limit, maxStackDefault⟩ fuel).1 = .matched savesB ∧
           (viewSlots savesB).take (b.nGroups * 2) = f.slots.map (Option.map (offOf c.text))
       | none => (genRun (BCtx.ofCtx c) prog' ⟨limit, maxStackDefault⟩ fuel).1 = .noMatch) := by
  simp only [s3Pattern, Bool.and_eq_true] at hst
  exact C01_translated_chain_s3 c hceq hU t.expr t.backrefs b prog hb hk hst.1
    (Parse.parse_build_wellShaped isAlnum cs casei t b hp hb).2 (build_raw_noBareEndZ t.expr t.backrefs b hb hst.2)
    hpos (Parse.parse_analyzable isAlnum cs casei t hp) (Parse.parse_hiOK isAlnum cs casei t hp) hfit limit fuel

include hceq hU in
/-- **C05, the translated chain: no panic** -/
theorem C05_translated_chain_no_panic (tree : Expr) (backrefs : List Nat) (b : Built) (prog : Prog)
    (hb : build tree backrefs = .ok b) (hk : b.kind = .fancy prog)
    (hs3 : s3ok (fun g => backrefs.contains g) b.raw true = true) (hws : wellShaped b.raw = true)
    (hz : noBareEndZ b.raw = true) (hpos : c.pos ≤ c.len)
    (ha : analyzable tree = true) (hh : hiOK tree = true)
    (hfit : codeBound (renumber (wrapTree tree) 0).1 < UNSET) (limit fuel : Nat) :
    ∃ prog', genFront (fun g => backrefs.contains g) (renumber (wrapTree tree) 0).1 = .ok prog' ∧
      ∀ site, (genRun (BCtx.ofCtx c) prog' ⟨limit, maxStackDefault⟩ fuel).1 ≠ .panic site := by
  refine ⟨prog, genFront_eq_of_build tree backrefs b prog hb hk ha hh hfit, fun site => ?_⟩
  rw [genRun_eq_runB_s3 c hceq hU tree backrefs b prog hb hk hs3 hws hz hpos]
  exact C05_bytes_no_panic_s3 c hceq hU tree backrefs b prog hb hk hs3 hws hz (len_lt_unset c hU) hpos limit fuel site

include hceq hU in
/-- **C07, the translated chain: termination** — some amount of fuel suffices for every larger amount -/
theorem C07_translated_chain_terminates (tree : Expr) (backrefs : List Nat) (b : Built) (prog : Prog)
    (hb : build tree backrefs = .ok b) (hk : b.kind = .fancy prog)
    (hs3 : s3ok (fun g => backrefs.contains g) b.raw true = true) (hws : wellShaped b.raw = true)
    (hz : noBareEndZ b.raw = true) (hpos : c.pos ≤ c.len)
    (ha : analyzable tree = true) (hh : hiOK tree = true)
    (hfit : codeBound (renumber (wrapTree tree) 0).1 < UNSET) (limit : Nat) :
    ∃ prog', genFront (fun g => backrefs.contains g) (renumber (wrapTree tree) 0).1 = .ok prog' ∧
      ∃ N, ∀ fuel, N ≤ fuel → (genRun (BCtx.ofCtx c) prog' ⟨limit, maxStackDefault⟩ fuel).1 ≠ .outOfFuel := by
  refine ⟨prog, genFront_eq_of_build tree backrefs b prog hb hk ha hh hfit, ?_⟩
  obtain ⟨N, hN⟩ := link2_initial_terminates c prog ⟨limit, maxStackDefault⟩
    (delegOK_of_prog c prog.body prog.nSaves (build_progDelegOK tree backrefs b prog hb hk)) _
    (big2_s3 tree backrefs b prog c hb hk hs3 hws hz (len_lt_unset c hU) hpos)
  refine ⟨N, fun fuel hf => ?_⟩
  rw [genRun_eq_runB_s3 c hceq hU tree backrefs b prog hb hk hs3 hws hz hpos,
    runB_refines_built c hceq hU tree backrefs b prog hb hk hs3 hws hz (len_lt_unset c hU) hpos limit fuel]
  have := hN fuel hf
  intro h
  apply this
  simp only at h
  cases hr : (run c prog ⟨limit, maxStackDefault⟩ fuel).1 with
  | outOfFuel => rfl
  | matched sv => rw [hr] at h; cases h
  | noMatch => rw [hr] at h; cases h
  | errLimit => rw [hr] at h; cases h
  | errStack => rw [hr] at h; cases h
  | panic s => rw [hr] at h; cases h

/-! ### from the source text of the parser too -/

include hceq hU in
/-- **C01, the whole translated chain**: parse.rs (`GenParse.parse_with_case_insensitive`), analyze.rs, compile.rs
    and `vm::run`, all as translated, on a stage-S3 pattern string compute the reference search -/
theorem C01_translated_chain_source (isAlnum : Char → Bool) (cs : List Char) (casei : Bool) (t : Parse.Tree)
    (b : Built) (prog : Prog)
    (hp : GenParse.parse_with_case_insensitive isAlnum (Parse.bytesOf cs) casei = .ok t)
    (hb : build t.expr t.backrefs = .ok b)
    (hk : b.kind = .fancy prog) (hst : s3Pattern t b = true) (hpos : c.pos ≤ c.len)
    (hfit : codeBound (renumber (wrapTree t.expr) 0).1 < UNSET) (limit fuel : Nat) :
    ∃ prog', genFront (fun g => t.backrefs.contains g) (renumber (wrapTree t.expr) 0).1 = .ok prog' ∧
      ((genRun (BCtx.ofCtx c) prog' ⟨limit, maxStackDefault⟩ fuel).1 = .outOfFuel ∨
       (genRun (BCtx.ofCtx c) prog' ⟨limit, maxStackDefault⟩ fuel).1 = .errStack ∨
       (genRun (BCtx.ofCtx c) prog' ⟨limit, maxStackDefault⟩ fuel).1 = .errLimit ∨
       match refSearch c b.raw b.nGroups with
       | some f => ∃ savesB, (genRun (BCtx.ofCtx c) prog' ⟨limit, maxStackDefault⟩ fuel).1 = .matched savesB ∧
           (viewSlots savesB).take (b.nGroups * 2) = f.slots.map (Option.map (offOf c.text))
       | none => (genRun (BCtx.ofCtx c) prog' ⟨limit, maxStackDefault⟩ fuel).1 = .noMatch) :=
  C01_translated_chain_pipeline c hceq hU isAlnum cs casei t b prog
    (by rw [← GenParse.Descent.C06_parse_translated_str]; exact hp) hb hk hst hpos hfit limit fuel

include hceq hU in
theorem C05_translated_chain_source_no_panic (isAlnum : Char → Bool) (cs : List Char) (casei : Bool) (t : Parse.Tree)
    (b : Built) (prog : Prog)
    (hp : GenParse.parse_with_case_insensitive isAlnum (Parse.bytesOf cs) casei = .ok t)
    (hb : build t.expr t.backrefs = .ok b)
    (hk : b.kind = .fancy prog) (hst : s3Pattern t b = true) (hpos : c.pos ≤ c.len)
    (hfit : codeBound (renumber (wrapTree t.expr) 0).1 < UNSET) (limit fuel : Nat) :
    ∃ prog', genFront (fun g => t.backrefs.contains g) (renumber (wrapTree t.expr) 0).1 = .ok prog' ∧
      ∀ site, (genRun (BCtx.ofCtx c) prog' ⟨limit, maxStackDefault⟩ fuel).1 ≠ .panic site := by
  have hp' : Parse.parseStr isAlnum cs casei = .ok t := by
    rw [← GenParse.Descent.C06_parse_translated_str]; exact hp
  simp only [s3Pattern, Bool.and_eq_true] at hst
  exact C05_translated_chain_no_panic c hceq hU t.expr t.backrefs b prog hb hk hst.1
    (Parse.parse_build_wellShaped isAlnum cs casei t b hp' hb).2 (build_raw_noBareEndZ t.expr t.backrefs b hb hst.2)
    hpos (Parse.parse_analyzable isAlnum cs casei t hp') (Parse.parse_hiOK isAlnum cs casei t hp') hfit limit fuel

include hceq hU in
theorem C07_translated_chain_source_terminates (isAlnum : Char → Bool) (cs : List Char) (casei : Bool)
    (t : Parse.Tree) (b : Built) (prog : Prog)
    (hp : GenParse.parse_with_case_insensitive isAlnum (Parse.bytesOf cs) casei = .ok t)
    (hb : build t.expr t.backrefs = .ok b)
    (hk : b.kind = .fancy prog) (hst : s3Pattern t b = true) (hpos : c.pos ≤ c.len)
    (hfit : codeBound (renumber (wrapTree t.expr) 0).1 < UNSET) (limit : Nat) :
    ∃ prog', genFront (fun g => t.backrefs.contains g) (renumber (wrapTree t.expr) 0).1 = .ok prog' ∧
      ∃ N, ∀ fuel, N ≤ fuel → (genRun (BCtx.ofCtx c) prog' ⟨limit, maxStackDefault⟩ fuel).1 ≠ .outOfFuel := by
  have hp' : Parse.parseStr isAlnum cs casei = .ok t := by
    rw [← GenParse.Descent.C06_parse_translated_str]; exact hp
  simp only [s3Pattern, Bool.and_eq_true] at hst
  exact C07_translated_chain_terminates c hceq hU t.expr t.backrefs b prog hb hk hst.1
    (Parse.parse_build_wellShaped isAlnum cs casei t b hp' hb).2 (build_raw_noBareEndZ t.expr t.backrefs b hb hst.2)
    hpos (Parse.parse_analyzable isAlnum cs casei t hp') (Parse.parse_hiOK isAlnum cs casei t hp') hfit limit

/-! ### with the size hypothesis discharged from the pattern length

`Parse.parse_codeBound` (Lemmas/ParseCodeBound.lean): `codeBound t.expr ≤ 44 * (pattern bytes) + 1` for every parsed
tree, `+ 24` for the wrapper; so a pattern shorter than `2^58` bytes is inside the translated compiler's domain. -/

include hceq hU in
/-- **C01, the whole translated chain, no translator-domain hypothesis left**: a stage-S3 pattern string shorter
    than `2^58` bytes, parsed by the translated parse.rs, analyzed by the translated analyze.rs, compiled by the
    translated compile.rs and run by the translated `vm::run` on the bytes of a text, computes the reference search -/
theorem C01_translated_chain_source' (isAlnum : Char → Bool) (cs : List Char) (casei : Bool) (t : Parse.Tree)
    (b : Built) (prog : Prog)
    (hp : GenParse.parse_with_case_insensitive isAlnum (Parse.bytesOf cs) casei = .ok t)
    (hb : build t.expr t.backrefs = .ok b)
    (hk : b.kind = .fancy prog) (hst : s3Pattern t b = true) (hpos : c.pos ≤ c.len)
    (hsize : (Parse.bytesOf cs).size < 2 ^ 58) (limit fuel : Nat) :
    ∃ prog', genFront (fun g => t.backrefs.contains g) (renumber (wrapTree t.expr) 0).1 = .ok prog' ∧
      ((genRun (BCtx.ofCtx c) prog' ⟨limit, maxStackDefault⟩ fuel).1 = .outOfFuel ∨
       (genRun (BCtx.ofCtx c) prog' ⟨limit, maxStackDefault⟩ fuel).1 = .errStack ∨
       (genRun (BCtx.ofCtx c) prog' ⟨limit, maxStackDefault⟩ fuel).1 = .errLimit ∨
       match refSearch c b.raw b.nGroups with
       | some f => ∃ savesB, (genRun (BCtx.ofCtx c) prog' ⟨limit, maxStackDefault⟩ fuel).1 = .matched savesB ∧
           (viewSlots savesB).take (b.nGroups * 2) = f.slots.map (Option.map (offOf c.text))
       | none => (genRun (BCtx.ofCtx c) prog' ⟨limit, maxStackDefault⟩ fuel).1 = .noMatch) :=
  C01_translated_chain_source c hceq hU isAlnum cs casei t b prog hp hb hk hst hpos
    (Parse.parse_codeBound_fits isAlnum cs casei t
      (by rw [← GenParse.Descent.C06_parse_translated_str]; exact hp) hsize) limit fuel

include hceq hU in
theorem C01_translated_chain_pipeline' (isAlnum : Char → Bool) (cs : List Char) (casei : Bool) (t : Parse.Tree)
    (b : Built) (prog : Prog) (hp : Parse.parseStr isAlnum cs casei = .ok t) (hb : build t.expr t.backrefs = .ok b)
    (hk : b.kind = .fancy prog) (hst : s3Pattern t b = true) (hpos : c.pos ≤ c.len)
    (hsize : (Parse.bytesOf cs).size < 2 ^ 58) (limit fuel : Nat) :
    ∃ prog', genFront (fun g => t.backrefs.contains g) (renumber (wrapTree t.expr) 0).1 = .ok prog' ∧
      ((genRun (BCtx.ofCtx c) prog' ⟨limit, maxStackDefault⟩ fuel).1 = .outOfFuel ∨
       (genRun (BCtx.ofCtx c) prog' ⟨limit, maxStackDefault⟩ fuel).1 = .errStack ∨
       (genRun (BCtx.ofCtx c) prog' ⟨limit, maxStackDefault⟩ fuel).1 = .errLimit ∨
       match refSearch c b.raw b.nGroups with
       | some f => ∃ savesB, (genRun (BCtx.ofCtx c) prog' ⟨limit, maxStackDefault⟩ fuel).1 = .matched savesB ∧
           (viewSlots savesB).take (b.nGroups * 2) = f.slots.map (Option.map (offOf c.text))
       | none => (genRun (BCtx.ofCtx c) prog' ⟨limit, maxStackDefault⟩ fuel).1 = .noMatch) :=
  C01_translated_chain_pipeline c hceq hU isAlnum cs casei t b prog hp hb hk hst hpos
    (Parse.parse_codeBound_fits isAlnum cs casei t hp hsize) limit fuel

include hceq hU in
theorem C05_translated_chain_source_no_panic' (isAlnum : Char → Bool) (cs : List Char) (casei : Bool) (t : Parse.Tree)
    (b : Built) (prog : Prog)
    (hp : GenParse.parse_with_case_insensitive isAlnum (Parse.bytesOf cs) casei = .ok t)
    (hb : build t.expr t.backrefs = .ok b)
    (hk : b.kind = .fancy prog) (hst : s3Pattern t b = true) (hpos : c.pos ≤ c.len)
    (hsize : (Parse.bytesOf cs).size < 2 ^ 58) (limit fuel : Nat) :
    ∃ prog', genFront (fun g => t.backrefs.contains g) (renumber (wrapTree t.expr) 0).1 = .ok prog' ∧
      ∀ site, (genRun (BCtx.ofCtx c) prog' ⟨limit, maxStackDefault⟩ fuel).1 ≠ .panic site :=
  C05_translated_chain_source_no_panic c hceq hU isAlnum cs casei t b prog hp hb hk hst hpos
    (Parse.parse_codeBound_fits isAlnum cs casei t
      (by rw [← GenParse.Descent.C06_parse_translated_str]; exact hp) hsize) limit fuel

include hceq hU in
theorem C07_translated_chain_source_terminates' (isAlnum : Char → Bool) (cs : List Char) (casei : Bool)
    (t : Parse.Tree) (b : Built) (prog : Prog)
    (hp : GenParse.parse_with_case_insensitive isAlnum (Parse.bytesOf cs) casei = .ok t)
    (hb : build t.expr t.backrefs = .ok b)
    (hk : b.kind = .fancy prog) (hst : s3Pattern t b = true) (hpos : c.pos ≤ c.len)
    (hsize : (Parse.bytesOf cs).size < 2 ^ 58) (limit : Nat) :
    ∃ prog', genFront (fun g => t.backrefs.contains g) (renumber (wrapTree t.expr) 0).1 = .ok prog' ∧
      ∃ N, ∀ fuel, N ≤ fuel → (genRun (BCtx.ofCtx c) prog' ⟨limit, maxStackDefault⟩ fuel).1 ≠ .outOfFuel :=
  C07_translated_chain_source_terminates c hceq hU isAlnum cs casei t b prog hp hb hk hst hpos
    (Parse.parse_codeBound_fits isAlnum cs casei t
      (by rw [← GenParse.Descent.C06_parse_translated_str]; exact hp) hsize) limit

end Chain

/-! ### Non-vacuity: the pattern string `a(?=b)` (VM path, stage S3), every text

All hypotheses of `C01_translated_chain_pipeline` hold: the string parses, builds to a VM program, is in
stage S3 (`exLook_parse`, `exLook_built`, Proofs/C08c.lean), and is in the domain of the translations. -/

set_option linter.unusedSimpArgs false in
example (c : Ctx) (hceq : ∀ a b, c.ceq false a b = (a == b)) (hU : (bytesOfChars c.text).length < UNSET)
    (hpos : c.pos ≤ c.len) (limit fuel : Nat) :
    ∃ b prog', build Api.exLook [] = .ok b ∧
      genFront (fun g => ([] : List Nat).contains g) (renumber (wrapTree Api.exLook) 0).1 = .ok prog' ∧
      ((genRun (BCtx.ofCtx c) prog' ⟨limit, maxStackDefault⟩ fuel).1 = .outOfFuel ∨
       (genRun (BCtx.ofCtx c) prog' ⟨limit, maxStackDefault⟩ fuel).1 = .errStack ∨
       (genRun (BCtx.ofCtx c) prog' ⟨limit, maxStackDefault⟩ fuel).1 = .errLimit ∨
       match refSearch c b.raw b.nGroups with
       | some f => ∃ savesB, (genRun (BCtx.ofCtx c) prog' ⟨limit, maxStackDefault⟩ fuel).1 = .matched savesB ∧
           (viewSlots savesB).take (b.nGroups * 2) = f.slots.map (Option.map (offOf c.text))
       | none => (genRun (BCtx.ofCtx c) prog' ⟨limit, maxStackDefault⟩ fuel).1 = .noMatch) := by
  obtain ⟨b, prog, hb, hk, hst, _, _⟩ := Api.exLook_built
  obtain ⟨prog', h1, h2⟩ := C01_translated_chain_pipeline c hceq hU _ _ _ ⟨Api.exLook, [], []⟩ b prog
    Api.exLook_parse hb hk hst hpos
    (by simp [Api.exLook, wrapTree, renumber, renumberList, codeBound, codeBoundList, UNSET])
    limit fuel
  exact ⟨b, prog', hb, h1, h2⟩

/-! ### `{n,18446744073709551615}`: the parser writes "no upper bound" (`hiOf`), as the crate does

`hiOK` excludes `some usize::MAX`; a tree with it exists, but no pattern string produces it:
`a{1,18446744073709551615}(?=b)` parses to `a{1,}(?=b)` (and the crate compiles it as `a+`: the real
program is `… save:0 lit:61 split:4:6 save:2 lit:62 restore:2 save:1 end`, the same as the model's). -/

example : hiOK (.repeat (.literal ['a'] false) 1 (some UNSET) true) = false := by simp [hiOK]

example : Parse.hiOf Parse.usizeMax = none ∧ Parse.hiOf 7 = some 7 := by decide

end Fancy
