import FancyModel.Model.Parse
import FancyModel.Proofs.C05b
/-!
# C06 (parser part) — theorems about the model of src/parse.rs (`Model/Parse.lean`)

The model is tied to the Rust parser by `tools/parsetie.py` (millions of patterns, byte-for-byte
equal answers).  Proved here, for all inputs:

* the leaf scanners return indices within the pattern and never panic
  (`C06_parseDecimal_*`, `C06_optionalWhitespace_*`, `C06_parseRepeat_*`, `C06_parseHex_*`,
  `C06_parseId_*`, `C06_flagsLoop_*`), and their fuel suffices;
* `C06_error_pos`: a reported parse-error position is at most the pattern length;
* `C06_parse_no_panic`: on valid UTF-8 the parser never panics;
* `C06_depth`: the depth of the tree is bounded by a constant times `MAX_RECURSION`;
* `C06_parse_total`: the fuel of the model's descent is never exhausted, so the model parser ends
  with `ok` or `err` on every string (the descent needs at most
  `2·(bytes left) + 8·(nesting levels left) + 7` frames).

"Valid UTF-8" enters only through `WF re`: stepping from a character boundary by
`codepoint_len` of the byte there lands on a character boundary (`WF_bytesOf`: true of the bytes
of every string).
-/
namespace Fancy.Parse
open Fancy.Utf8 (codepointLen isLead)

/-! ## Boundaries -/

theorem isBoundary_le {re : Bytes} {i : Nat} (h : isBoundary re i = true) : i ≤ re.size := by
  simp only [isBoundary, Bool.or_eq_true, beq_iff_eq] at h
  rcases h with (h | h) | h
  · omega
  · omega
  · cases hg : re[i]? with
    | none => rw [hg] at h; cases h
    | some b =>
      have := (Array.getElem?_eq_some_iff.mp hg).1
      omega

theorem isBoundary_zero (re : Bytes) : isBoundary re 0 = true := by simp [isBoundary]

theorem isBoundary_size (re : Bytes) : isBoundary re re.size = true := by simp [isBoundary]

theorem isBoundary_of_lead {re : Bytes} {i b : Nat} (h : re[i]? = some b) (hb : isLead b = true) :
    isBoundary re i = true := by
  simp [isBoundary, h, hb]

theorem isBoundary_of_ascii {re : Bytes} {i b : Nat} (h : re[i]? = some b) (hb : b < 128) :
    isBoundary re i = true :=
  isBoundary_of_lead h (by simp [isLead]; omega)

theorem lt_size_of_get {re : Bytes} {i b : Nat} (h : re[i]? = some b) : i < re.size :=
  (Array.getElem?_eq_some_iff.mp h).1

/-- what the parser needs of valid UTF-8: from a boundary, `codepoint_len` of the byte there leads
    to a boundary -/
def WF (re : Bytes) : Prop :=
  ∀ i b, re[i]? = some b → isBoundary re i = true → isBoundary re (i + codepointLen b) = true

theorem WF.step {re : Bytes} (h : WF re) {i b : Nat} (hg : re[i]? = some b)
    (hb : isBoundary re i = true) : isBoundary re (i + codepointLen b) = true := h i b hg hb

theorem WF.step_ascii {re : Bytes} (h : WF re) {i b : Nat} (hg : re[i]? = some b) (hb : b < 128) :
    isBoundary re (i + 1) = true := by
  have := h i b hg (isBoundary_of_ascii hg hb)
  have hc : codepointLen b = 1 := by simp [codepointLen]; omega
  rwa [hc] at this

theorem codepointLen_pos (b : Nat) : 0 < codepointLen b := by
  unfold codepointLen; repeat' split
  all_goals omega

theorem codepointLen_le (b : Nat) : codepointLen b ≤ 4 := by
  unfold codepointLen; repeat' split
  all_goals omega

theorem isBoundary_toArray (l : List Nat) (i : Nat) :
    isBoundary l.toArray i = Utf8.isBoundary l i := by
  simp only [isBoundary, Utf8.isBoundary, List.size_toArray, List.getElem?_toArray]
  cases l[i]? <;> rfl

/-- the bytes of every string are well-formed -/
theorem WF_encode (cs : List Nat) : WF (Utf8.encode cs).toArray := by
  intro i b hg hb
  rw [isBoundary_toArray] at hb ⊢
  have hg' : (Utf8.encode cs)[i]? = some b := by simpa using hg
  obtain ⟨k, hk, rfl⟩ := (Utf8.C05_boundary_iff cs i).mp hb
  have hlt : Utf8.off cs k < (Utf8.encode cs).length := (List.getElem?_eq_some_iff.mp hg').1
  have hk' : k < cs.length := by
    rcases Nat.lt_or_ge k cs.length with h | h
    · exact h
    · have : k = cs.length := by omega
      subst this; rw [Utf8.off_length] at hlt; omega
  have hn := (Utf8.C05_next_boundary cs k hk').1
  simp only [Utf8.nextUtf8, hg'] at hn
  rw [hn]
  exact (Utf8.C05_boundary_iff cs _).mpr ⟨k + 1, by omega, rfl⟩

theorem WF_bytesOf (cs : List Char) : WF (bytesOf cs) := WF_encode _

/-! ## Outcomes -/

/-- the shape every parser function's outcome has: a good value, an error inside the pattern,
    never a panic -/
def Good {α : Type} (re : Bytes) (P : α → Prop) : Res α → Prop
  | .ok a => P a
  | .err _ p => p ≤ re.size
  | .cerr => True
  | .panic _ => False
  | .outOfFuel => True

theorem Good.bind {α β : Type} {re : Bytes} {P : α → Prop} {Q : β → Prop} {x : Res α}
    {f : α → Res β} (hx : Good re P x) (hf : ∀ a, P a → Good re Q (f a)) :
    Good re Q (x >>= f) := by
  cases x with
  | ok a => exact hf a hx
  | err k p => exact hx
  | cerr => trivial
  | panic s => exact hx
  | outOfFuel => trivial

theorem Good.mono {α : Type} {re : Bytes} {P Q : α → Prop} {x : Res α}
    (hx : Good re P x) (h : ∀ a, P a → Q a) : Good re Q x := by
  cases x with
  | ok a => exact h a hx
  | err k p => exact hx
  | cerr => trivial
  | panic s => exact hx
  | outOfFuel => trivial

@[simp] theorem Good_ok {α : Type} (re : Bytes) (P : α → Prop) (a : α) :
    Good re P (.ok a) = P a := rfl
@[simp] theorem Good_pure {α : Type} (re : Bytes) (P : α → Prop) (a : α) :
    Good re P (pure a) = P a := rfl
@[simp] theorem Good_err {α : Type} (re : Bytes) (P : α → Prop) (k : PErr) (p : Nat) :
    Good re P (.err k p) = (p ≤ re.size) := rfl
@[simp] theorem Good_cerr {α : Type} (re : Bytes) (P : α → Prop) : Good re P .cerr = True := rfl
@[simp] theorem Good_panic {α : Type} (re : Bytes) (P : α → Prop) (s : String) :
    Good re P (.panic s) = False := rfl
@[simp] theorem Good_outOfFuel {α : Type} (re : Bytes) (P : α → Prop) :
    Good re P .outOfFuel = True := rfl

theorem Good.not_panic {α : Type} {re : Bytes} {P : α → Prop} {x : Res α} (h : Good re P x)
    (s : String) : x ≠ .panic s := by
  intro e; subst e; exact h

theorem Good.err_pos {α : Type} {re : Bytes} {P : α → Prop} {x : Res α} (h : Good re P x)
    {k : PErr} {p : Nat} (e : x = .err k p) : p ≤ re.size := by
  subst e; exact h

theorem Good.ok_val {α : Type} {re : Bytes} {P : α → Prop} {x : Res α} (h : Good re P x)
    {a : α} (e : x = .ok a) : P a := by
  subst e; exact h

/-! ## Slices and byte access -/

theorem good_sliceFrom {re : Bytes} {a : Nat} (s : String) (h : isBoundary re a = true) :
    Good re (fun _ => True) (sliceFrom re a s) := by
  simp [sliceFrom, sliceFromOk, h]

theorem good_slice {re : Bytes} {a b : Nat} (s : String) (hab : a ≤ b)
    (ha : isBoundary re a = true) (hb : isBoundary re b = true) :
    Good re (fun _ => True) (slice re a b s) := by
  have := isBoundary_le hb
  simp [slice, sliceOk, ha, hb, hab, this]

theorem good_byteAt {re : Bytes} {i : Nat} (s : String) (h : i < re.size) :
    Good re (fun b => re[i]? = some b) (byteAt re i s) := by
  unfold byteAt
  cases hg : re[i]? with
  | none => rw [Array.getElem?_eq_none_iff] at hg; omega
  | some b => simp

/-- `Good` and not out of fuel -/
def GoodS {α : Type} (re : Bytes) (P : α → Prop) : Res α → Prop
  | .ok a => P a
  | .err _ p => p ≤ re.size
  | .cerr => True
  | .panic _ => False
  | .outOfFuel => False

theorem GoodS.good {α : Type} {re : Bytes} {P : α → Prop} {x : Res α} (h : GoodS re P x) :
    Good re P x := by
  cases x <;> first | exact h | trivial

theorem GoodS.bind {α β : Type} {re : Bytes} {P : α → Prop} {Q : β → Prop} {x : Res α}
    {f : α → Res β} (hx : GoodS re P x) (hf : ∀ a, P a → GoodS re Q (f a)) :
    GoodS re Q (x >>= f) := by
  cases x with
  | ok a => exact hf a hx
  | err k p => exact hx
  | cerr => trivial
  | panic s => exact hx
  | outOfFuel => exact hx

theorem GoodS.mono {α : Type} {re : Bytes} {P Q : α → Prop} {x : Res α}
    (hx : GoodS re P x) (h : ∀ a, P a → Q a) : GoodS re Q x := by
  cases x with
  | ok a => exact h a hx
  | err k p => exact hx
  | cerr => trivial
  | panic s => exact hx
  | outOfFuel => exact hx

@[simp] theorem GoodS_ok {α : Type} (re : Bytes) (P : α → Prop) (a : α) :
    GoodS re P (.ok a) = P a := rfl
@[simp] theorem GoodS_pure {α : Type} (re : Bytes) (P : α → Prop) (a : α) :
    GoodS re P (pure a) = P a := rfl
@[simp] theorem GoodS_err {α : Type} (re : Bytes) (P : α → Prop) (k : PErr) (p : Nat) :
    GoodS re P (.err k p) = (p ≤ re.size) := rfl
@[simp] theorem GoodS_cerr {α : Type} (re : Bytes) (P : α → Prop) : GoodS re P .cerr = True := rfl
@[simp] theorem GoodS_panic {α : Type} (re : Bytes) (P : α → Prop) (s : String) :
    GoodS re P (.panic s) = False := rfl
@[simp] theorem GoodS_outOfFuel {α : Type} (re : Bytes) (P : α → Prop) :
    GoodS re P .outOfFuel = False := rfl

theorem goodS_sliceFrom {re : Bytes} {a : Nat} (s : String) (h : isBoundary re a = true) :
    GoodS re (fun _ => True) (sliceFrom re a s) := by
  simp [sliceFrom, sliceFromOk, h]

theorem goodS_slice {re : Bytes} {a b : Nat} (s : String) (hab : a ≤ b)
    (ha : isBoundary re a = true) (hb : isBoundary re b = true) :
    GoodS re (fun l => l = (re.extract a b).toList) (slice re a b s) := by
  have := isBoundary_le hb
  simp [slice, sliceOk, ha, hb, hab, this]

theorem goodS_byteAt {re : Bytes} {i : Nat} (s : String) (h : i < re.size) :
    GoodS re (fun b => re[i]? = some b) (byteAt re i s) := by
  unfold byteAt
  cases hg : re[i]? with
  | none => rw [Array.getElem?_eq_none_iff] at hg; omega
  | some b => simp

/-! ## `parse_decimal` -/

theorem isDigit_ascii {b : Nat} (h : isDigit b = true) : b < 128 := by
  simp [isDigit] at h; omega

/-- the run of digits from `ix`: it ends inside the pattern, and just before a non-empty run's
    end there is a digit -/
theorem digits_run (re : Bytes) (ix : Nat) (hix : ix ≤ re.size) :
    ix + ((re.toList.drop ix).takeWhile isDigit).length ≤ re.size ∧
    (0 < ((re.toList.drop ix).takeWhile isDigit).length →
      ∃ d, re[ix + ((re.toList.drop ix).takeWhile isDigit).length - 1]? = some d ∧
        isDigit d = true) := by
  have happ := List.takeWhile_append_dropWhile (p := isDigit) (l := re.toList.drop ix)
  have hlen := congrArg List.length happ
  simp only [List.length_append, List.length_drop, Array.length_toList] at hlen
  refine ⟨by omega, fun hpos => ?_⟩
  generalize hds : (re.toList.drop ix).takeWhile isDigit = ds at *
  have hne : ds ≠ [] := by intro h; subst h; simp at hpos
  refine ⟨ds.getLast hne, ?_, ?_⟩
  · have h1 : (re.toList.drop ix)[ds.length - 1]? = some (ds.getLast hne) := by
      rw [← happ, List.getElem?_append_left (by omega)]
      rw [← List.getLast?_eq_getElem?, List.getLast?_eq_some_getLast hne]
    rw [List.getElem?_drop, Array.getElem?_toList] at h1
    rw [← h1]; congr 1; omega
  · have hall := List.all_takeWhile (p := isDigit) (l := re.toList.drop ix)
    rw [hds, List.all_eq_true] at hall
    exact hall _ (List.getLast_mem hne)

/-- `parse_decimal` from a boundary of well-formed bytes: a value within `usize`, an end strictly
    to the right on a boundary; never an error, a panic or out of fuel -/
theorem goodS_parseDecimal {re : Bytes} (hwf : WF re) {ix : Nat} (hb : isBoundary re ix = true) :
    GoodS re (fun r => ∀ e v, r = some (e, v) → ix < e ∧ isBoundary re e = true ∧ v ≤ usizeMax)
      (parseDecimal re ix) := by
  have hix := isBoundary_le hb
  obtain ⟨h1, h2⟩ := digits_run re ix hix
  unfold parseDecimal
  generalize hds : (re.toList.drop ix).takeWhile isDigit = ds at *
  have hbe : isBoundary re (ix + ds.length) = true := by
    rcases Nat.eq_zero_or_pos ds.length with h0 | hpos
    · rw [h0]; exact hb
    · obtain ⟨d, hd, hdig⟩ := h2 hpos
      have := hwf.step_ascii hd (isDigit_ascii hdig)
      rwa [show ix + ds.length - 1 + 1 = ix + ds.length by omega] at this
  have hs : sliceOk re ix (ix + ds.length) = true := by
    simp [sliceOk, hb, hbe, h1]
  simp only [hs, Bool.not_true, Bool.false_eq_true, ↓reduceIte]
  by_cases hemp : ds.isEmpty = true
  · simp [hemp]
  · simp only [hemp, Bool.false_eq_true, ↓reduceIte]
    have hpos : 0 < ds.length := by
      cases ds with
      | nil => simp at hemp
      | cons _ _ => simp
    split
    · simp only [GoodS_ok]
      intro e v h; cases h
      exact ⟨by omega, hbe, by assumption⟩
    · simp

/-- **parse_decimal, any byte string**: what it returns lies strictly to the right of `ix`, inside
    the pattern, on a boundary, and the value fits a `usize` -/
theorem C06_parseDecimal_bounds (re : Bytes) (ix e v : Nat)
    (h : parseDecimal re ix = .ok (some (e, v))) :
    ix < e ∧ e ≤ re.size ∧ isBoundary re e = true ∧ v ≤ usizeMax := by
  unfold parseDecimal at h
  generalize hds : (re.toList.drop ix).takeWhile isDigit = ds at *
  by_cases hs : sliceOk re ix (ix + ds.length) = true
  · simp only [hs, Bool.not_true, Bool.false_eq_true, ↓reduceIte] at h
    by_cases hemp : ds.isEmpty = true
    · simp [hemp] at h
    · simp only [hemp, Bool.false_eq_true, ↓reduceIte] at h
      have hpos : 0 < ds.length := by
        cases ds with
        | nil => simp at hemp
        | cons _ _ => simp
      simp only [sliceOk, Bool.and_eq_true, decide_eq_true_eq] at hs
      split at h
      · cases h
        exact ⟨by omega, hs.1.1.2, hs.2, by assumption⟩
      · cases h
  · simp [hs] at h

/-- **parse_decimal never panics** from a boundary of valid UTF-8, never errs, needs no fuel -/
theorem C06_parseDecimal_no_panic {re : Bytes} (hwf : WF re) {ix : Nat}
    (hb : isBoundary re ix = true) :
    (∀ s, parseDecimal re ix ≠ .panic s) ∧ parseDecimal re ix ≠ .outOfFuel ∧
      ∀ k p, parseDecimal re ix ≠ .err k p := by
  have h := goodS_parseDecimal hwf hb
  refine ⟨fun s e => ?_, fun e => ?_, fun k p e => ?_⟩
  · rw [e] at h; exact h
  · rw [e] at h; exact h
  · simp only [parseDecimal] at e
    split at e
    · cases e
    · split at e
      · cases e
      · split at e <;> cases e

example : parseDecimal #[97, 49, 50, 125] 1 = .ok (some (3, 12)) := by rfl

/-! ## `optional_whitespace` -/

/-- the comment loop, on any byte string: it ends strictly to the right, inside the pattern, just
    after a `)`; its only error is at `len`; it never panics; fuel `len + 1 - ix` suffices -/
theorem goodS_skipComment (re : Bytes) : ∀ (f ix : Nat), re.size < ix + f → 0 < f →
    GoodS re (fun ix' => ix < ix' ∧ ix' ≤ re.size ∧ re[ix' - 1]? = some (ch ')'))
      (skipComment f re ix) := by
  intro f
  induction f with
  | zero => intro ix _ h; omega
  | succ f ih =>
    intro ix hf _
    unfold skipComment
    by_cases hge : ix ≥ re.size
    · simp [hge]
    · simp only [hge, ↓reduceIte]
      have hlt : ix < re.size := by omega
      cases hg : re[ix]? with
      | none => rw [Array.getElem?_eq_none_iff] at hg; omega
      | some b =>
        simp only
        by_cases h1 : (b == ch ')') = true
        · simp only [h1, ↓reduceIte, GoodS_ok]
          have : b = ch ')' := by simpa using h1
          subst this
          exact ⟨by omega, by omega, by simpa using hg⟩
        · simp only [h1, Bool.false_eq_true, ↓reduceIte]
          by_cases h2 : (b == ch '\\') = true
          · simp only [h2, ↓reduceIte]
            by_cases hz : ix + 2 ≥ re.size
            · -- the next iteration reports the error (or needs no fuel)
              cases f with
              | zero => omega
              | succ f => unfold skipComment; simp [hz]
            · exact (ih (ix + 2) (by omega) (by omega)).mono fun a h => ⟨by omega, h.2⟩
          · simp only [h2, Bool.false_eq_true, ↓reduceIte]
            by_cases hz : ix + 1 ≥ re.size
            · cases f with
              | zero => omega
              | succ f => unfold skipComment; simp [hz]
            · exact (ih (ix + 1) (by omega) (by omega)).mono fun a h => ⟨by omega, h.2⟩

theorem startsWithAt_head {re : Bytes} {ix c : Nat} {cs : List Nat}
    (h : startsWithAt re ix (c :: cs) = true) : re[ix]? = some c ∧ startsWithAt re (ix + 1) cs = true := by
  simpa [startsWithAt] using h

/-- `optional_whitespace` from any index inside the pattern, on any byte string: the result is not
    to the left, inside the pattern, and (for well-formed bytes) on a boundary if it started on
    one; never a panic; fuel `len + 1 - ix` suffices -/
theorem goodS_optionalWhitespace (re : Bytes) (fl : Flags) : ∀ (f ix : Nat), ix ≤ re.size →
    re.size < ix + f →
    GoodS re (fun ix' => ix ≤ ix' ∧ ix' ≤ re.size ∧
        (WF re → isBoundary re ix = true → isBoundary re ix' = true))
      (optionalWhitespace f re fl ix) := by
  intro f
  induction f with
  | zero => intro ix h1 h2; omega
  | succ f ih =>
    intro ix hix hf
    unfold optionalWhitespace
    by_cases heq : (ix == re.size) = true
    · simp only [heq, ↓reduceIte, GoodS_ok]
      exact ⟨Nat.le_refl _, hix, fun _ h => h⟩
    · simp only [heq, Bool.false_eq_true, ↓reduceIte]
      have hlt : ix < re.size := by
        have : ix ≠ re.size := by simpa using heq
        omega
      cases hg : re[ix]? with
      | none => rw [Array.getElem?_eq_none_iff] at hg; omega
      | some b =>
        simp only
        split
        · -- `#` comment to the end of the line
          rename_i hc
          have hb : b = ch '#' := by
            have := (Bool.and_eq_true _ _).mp hc
            simpa using this.1
          split
          · rename_i x hx
            obtain ⟨hxl, hpx, _⟩ := List.findIdx?_eq_some_iff_getElem.mp hx
            simp only [List.length_drop, Array.length_toList] at hxl
            have hnl : re[ix + x]? = some 10 := by
              have : (re.toList.drop ix)[x]? = some 10 := by
                rw [List.getElem?_eq_getElem (by simpa using hxl)]
                simpa using hpx
              rwa [List.getElem?_drop, Array.getElem?_toList] at this
            refine (ih (ix + x + 1) (by omega) (by omega)).mono fun a h => ⟨by omega, h.2.1, ?_⟩
            intro hwf _
            exact h.2.2 hwf (hwf.step_ascii hnl (by omega))
          · simp only [GoodS_ok]
            exact ⟨by omega, Nat.le_refl _, fun _ _ => isBoundary_size re⟩
        · split
          · rename_i hc
            have hb : b < 128 := by
              have := (Bool.and_eq_true _ _).mp hc
              have h := this.1
              simp only [ch, Bool.or_eq_true, beq_iff_eq] at h
              rcases h with ((h | h) | h) | h <;> (subst h; decide)
            refine (ih (ix + 1) (by omega) (by omega)).mono fun a h => ⟨by omega, h.2.1, ?_⟩
            intro hwf _
            exact h.2.2 hwf (hwf.step_ascii hg hb)
          · split
            · -- `(?#…)`
              have hsc := goodS_skipComment re (re.size + 1) (ix + 3) (by omega) (by omega)
              cases hres : skipComment (re.size + 1) re (ix + 3) with
              | ok ix' =>
                rw [hres] at hsc
                simp only [GoodS_ok] at hsc
                simp only
                refine (ih ix' hsc.2.1 (by omega)).mono fun a h => ⟨by omega, h.2.1, ?_⟩
                intro hwf _
                have hparen := hsc.2.2
                have := hwf.step_ascii hparen (by decide)
                rw [show ix' - 1 + 1 = ix' by omega] at this
                exact h.2.2 hwf this
              | err k p => rw [hres] at hsc; simpa using hsc
              | cerr => simp
              | panic s => rw [hres] at hsc; exact hsc.elim
              | outOfFuel => rw [hres] at hsc; exact hsc.elim
            · simp only [GoodS_ok]
              exact ⟨Nat.le_refl _, hix, fun _ h => h⟩

/-- `self.optional_whitespace(ix)` as the parser calls it -/
theorem goodS_optWs (re : Bytes) (fl : Flags) (ix : Nat) (hix : ix ≤ re.size) :
    GoodS re (fun ix' => ix ≤ ix' ∧ ix' ≤ re.size ∧
        (WF re → isBoundary re ix = true → isBoundary re ix' = true)) (optWs re fl ix) :=
  goodS_optionalWhitespace re fl (re.size + 2) ix hix (by omega)

/-- the form used in the descent -/
theorem goodS_optWs' {re : Bytes} (hwf : WF re) (fl : Flags) {ix : Nat}
    (hb : isBoundary re ix = true) :
    GoodS re (fun ix' => ix ≤ ix' ∧ isBoundary re ix' = true) (optWs re fl ix) :=
  (goodS_optWs re fl ix (isBoundary_le hb)).mono fun _ h => ⟨h.1, h.2.2 hwf hb⟩

/-- **optional_whitespace, any byte string, any flags**: from an index inside the pattern it
    returns an index not to the left and inside the pattern, or the `UnclosedOpenParen` error at
    `len`; it never panics and never runs out of fuel -/
theorem C06_optionalWhitespace_bounds (re : Bytes) (fl : Flags) (ix : Nat) (hix : ix ≤ re.size) :
    (∀ ix', optWs re fl ix = .ok ix' → ix ≤ ix' ∧ ix' ≤ re.size) ∧
    (∀ k p, optWs re fl ix = .err k p → p ≤ re.size) ∧
    (∀ s, optWs re fl ix ≠ .panic s) ∧ optWs re fl ix ≠ .outOfFuel := by
  have h := goodS_optWs re fl ix hix
  refine ⟨fun ix' e => ?_, fun k p e => ?_, fun s e => ?_, fun e => ?_⟩
  · rw [e] at h; exact ⟨h.1, h.2.1⟩
  · rw [e] at h; exact h
  · rw [e] at h; exact h
  · rw [e] at h; exact h

-- "(?x) # c\n(?#d)a": white space, a line comment and a group comment are skipped
example : optWs #[32, 35, 32, 99, 10, 40, 63, 35, 100, 41, 97] { ignoreSpace := true } 0 = .ok 10 := by rfl

/-! ## `parse_repeat` -/


theorem lt_of_ne_size {re : Bytes} {i : Nat} (h : isBoundary re i = true)
    (hne : ¬ (i == re.size) = true) : i < re.size := by
  have := isBoundary_le h
  have : i ≠ re.size := by simpa using hne
  omega

theorem goodS_parseRepeat {re : Bytes} (hwf : WF re) (fl : Flags) {ix : Nat}
    (hg : re[ix]? = some (ch '{')) :
    GoodS re (fun r => ix + 1 < r.1 ∧ isBoundary re r.1 = true) (parseRepeat re fl ix) := by
  have hb1 : isBoundary re (ix + 1) = true := hwf.step_ascii hg (by decide)
  unfold parseRepeat
  refine GoodS.bind (goodS_optWs' hwf fl hb1) (fun ix1 h1 => ?_)
  split
  · simpa using isBoundary_le h1.2
  · rename_i hne
    refine GoodS.bind (goodS_byteAt _ (lt_of_ne_size h1.2 hne)) (fun b _ => ?_)
    refine GoodS.bind (P := fun lo_end => ix1 ≤ lo_end.2 ∧ isBoundary re lo_end.2 = true) ?_
      (fun lo_end h2 => ?_)
    · split
      · exact ⟨Nat.le_refl _, h1.2⟩
      · refine GoodS.bind (goodS_parseDecimal hwf h1.2) (fun r hr => ?_)
        cases r with
        | none => simpa using isBoundary_le h1.2
        | some p =>
          obtain ⟨next, lo⟩ := p
          have := hr _ _ rfl
          exact ⟨by simp only; omega, this.2.1⟩
    · simp only
      refine GoodS.bind (goodS_optWs' hwf fl h2.2) (fun ix2 h3 => ?_)
      split
      · simpa using isBoundary_le h3.2
      · rename_i hne2
        have hlt2 := lt_of_ne_size h3.2 hne2
        refine GoodS.bind (goodS_byteAt _ hlt2) (fun b2 hb2 => ?_)
        refine GoodS.bind (P := fun hi_end => ix2 ≤ hi_end.2 ∧ isBoundary re hi_end.2 = true) ?_
          (fun hi_end h4 => ?_)
        · split
          · exact ⟨Nat.le_refl _, h3.2⟩
          · split
            · rename_i hcomma
              have hc : b2 = ch ',' := by simpa using hcomma
              subst hc
              have hb3 : isBoundary re (ix2 + 1) = true := hwf.step_ascii hb2 (by decide)
              refine GoodS.bind (goodS_optWs' hwf fl hb3) (fun e he => ?_)
              refine GoodS.bind (goodS_parseDecimal hwf he.2) (fun r hr => ?_)
              cases r with
              | none => exact ⟨by simp only; omega, he.2⟩
              | some p =>
                obtain ⟨next, hi⟩ := p
                have := hr _ _ rfl
                exact ⟨by simp only; omega, this.2.1⟩
            · simpa using isBoundary_le h3.2
        · refine GoodS.bind (goodS_optWs' hwf fl h4.2) (fun ix3 h5 => ?_)
          split
          · simpa using isBoundary_le h5.2
          · rename_i hne3
            have hlt3 := lt_of_ne_size h5.2 hne3
            refine GoodS.bind (goodS_byteAt _ hlt3) (fun b3 hb3 => ?_)
            split
            · simpa using isBoundary_le h5.2
            · rename_i hclose
              have hc : b3 = ch '}' := by simpa using hclose
              subst hc
              exact ⟨by simp only; omega, hwf.step_ascii hb3 (by decide)⟩

/-- **parse_repeat** (valid UTF-8, `ix` at the `{`): the index it returns is beyond the `{` and on
    a boundary; errors are inside the pattern; no panic, no fuel exhaustion -/
theorem C06_parseRepeat_bounds {re : Bytes} (hwf : WF re) (fl : Flags) {ix : Nat}
    (hg : re[ix]? = some (ch '{')) :
    (∀ next lo hi, parseRepeat re fl ix = .ok (next, lo, hi) →
      ix + 1 < next ∧ next ≤ re.size ∧ isBoundary re next = true) ∧
    (∀ k p, parseRepeat re fl ix = .err k p → p ≤ re.size) ∧
    (∀ s, parseRepeat re fl ix ≠ .panic s) ∧ parseRepeat re fl ix ≠ .outOfFuel := by
  have h := goodS_parseRepeat hwf fl hg
  refine ⟨fun n lo hi e => ?_, fun k p e => ?_, fun s e => ?_, fun e => ?_⟩
  · rw [e] at h; exact ⟨h.1, isBoundary_le h.2, h.2⟩
  · rw [e] at h; exact h
  · rw [e] at h; exact h
  · rw [e] at h; exact h

-- "a{2,3}" : the repeat at index 1 ends at 6 with bounds 2 and 3
example : parseRepeat #[97, 123, 50, 44, 51, 125] {} 1 = .ok (6, 2, 3) := by rfl

/-! ## `parse_hex` -/


theorem isHexDigit_ascii {d : Nat} (h : isHexDigit d = true) : d < 128 := by
  simp only [isHexDigit, Bool.or_eq_true, Bool.and_eq_true, decide_eq_true_eq] at h
  rcases h with h | h
  · exact isDigit_ascii h
  · have := Nat.left_le_or (n := d) (m := 32); omega

theorem hexVal_le {d : Nat} (h : isHexDigit d = true) : hexVal d ≤ 15 := by
  simp only [isHexDigit, Bool.or_eq_true, Bool.and_eq_true, decide_eq_true_eq] at h
  unfold hexVal
  split
  · rename_i hd; simp [isDigit] at hd; omega
  · rename_i hd
    rcases h with h | h
    · exact absurd h hd
    · omega

theorem foldl_hex_bound : ∀ (s : List Nat) (a : Nat), (∀ d ∈ s, isHexDigit d = true) →
    s.foldl (fun a d => a * 16 + hexVal d) a < (a + 1) * 16 ^ s.length := by
  intro s
  induction s with
  | nil => intro a _; simp
  | cons d s ih =>
    intro a h
    simp only [List.foldl_cons, List.length_cons]
    have hd := hexVal_le (h d (by simp))
    have := ih (a * 16 + hexVal d) (fun x hx => h x (by simp [hx]))
    calc _ < (a * 16 + hexVal d + 1) * 16 ^ s.length := this
      _ ≤ ((a + 1) * 16) * 16 ^ s.length := Nat.mul_le_mul_right _ (by omega)
      _ = (a + 1) * 16 ^ (s.length + 1) := by rw [Nat.pow_succ, Nat.mul_assoc, Nat.mul_comm 16]

theorem parseHexU32_some {s : List Nat} (hne : s ≠ []) (hall : ∀ d ∈ s, isHexDigit d = true)
    (hlen : s.length ≤ 8) : ∃ v, parseHexU32 s = some v := by
  unfold parseHexU32
  have hb := foldl_hex_bound s 0 hall
  have hp : 16 ^ s.length ≤ 16 ^ 8 := Nat.pow_le_pow_right (by omega) hlen
  have : s.isEmpty = false := by cases s <;> simp_all
  simp only [this, Bool.false_eq_true, ↓reduceIte]
  refine ⟨_, if_pos ?_⟩
  simp only [Nat.zero_add, Nat.one_mul] at hb
  have : (16:Nat) ^ 8 = 4294967296 := by decide
  omega

theorem extract_all {re : Bytes} {a b : Nat} {p : Nat → Bool} (hb : b ≤ re.size)
    (h : ∀ j, a ≤ j → j < b → ∃ d, re[j]? = some d ∧ p d = true) :
    ∀ d ∈ (re.extract a b).toList, p d = true := by
  intro d hd
  rw [Array.mem_toList_iff, Array.mem_iff_getElem?] at hd
  obtain ⟨k, hk⟩ := hd
  rw [Array.getElem?_extract] at hk
  split at hk
  · rename_i hlt
    rw [Nat.min_eq_left hb] at hlt
    obtain ⟨d', h1, h2⟩ := h (a + k) (by omega) (by omega)
    rw [h1] at hk; cases hk; exact h2
  · cases hk

theorem all_extract {re : Bytes} {a b : Nat} {p : Nat → Bool} (hb : b ≤ re.size)
    (h : (re.extract a b).toList.all p = true) :
    ∀ j, a ≤ j → j < b → ∃ d, re[j]? = some d ∧ p d = true := by
  intro j h1 h2
  rw [List.all_eq_true] at h
  have hj : j < re.size := by omega
  refine ⟨re[j], by simp [hj], h _ ?_⟩
  rw [Array.mem_toList_iff, Array.mem_iff_getElem?]
  refine ⟨j - a, ?_⟩
  rw [Array.getElem?_extract, Nat.min_eq_left hb, if_pos (by omega)]
  rw [show a + (j - a) = j by omega]; simp [hj]

/-- the `{…}` loop of `parse_hex` on any byte string -/
theorem goodS_hexBraceLoop (re : Bytes) (ix starthex : Nat) (hix : ix ≤ re.size) :
    ∀ (f endhex : Nat), starthex ≤ endhex → endhex ≤ starthex + 8 → endhex ≤ re.size →
    starthex + 8 < endhex + f →
    (∀ j, starthex ≤ j → j < endhex → ∃ d, re[j]? = some d ∧ isHexDigit d = true) →
    GoodS re (fun e => starthex < e ∧ e ≤ starthex + 8 ∧ re[e]? = some (ch '}') ∧
        ∀ j, starthex ≤ j → j < e → ∃ d, re[j]? = some d ∧ isHexDigit d = true)
      (hexBraceLoop f re ix starthex endhex) := by
  intro f
  induction f with
  | zero => intro e h1 h2 _ h3; omega
  | succ f ih =>
    intro endhex h1 h2 hsz hf hall
    unfold hexBraceLoop
    split
    · simpa using hix
    · rename_i hne
      have hlt : endhex < re.size := by
        have : endhex ≠ re.size := by simpa using hne
        omega
      cases hg : re[endhex]? with
      | none => rw [Array.getElem?_eq_none_iff] at hg; omega
      | some b =>
        simp only
        split
        · rename_i hc
          simp only [Bool.and_eq_true, decide_eq_true_eq, beq_iff_eq] at hc
          simp only [GoodS_ok]
          exact ⟨hc.1, h2, by rw [hg, hc.2], hall⟩
        · split
          · rename_i hc
            simp only [Bool.and_eq_true, decide_eq_true_eq] at hc
            refine ih (endhex + 1) (by omega) (by omega) (by omega) (by omega) ?_
            intro j hj1 hj2
            rcases Nat.lt_or_ge j endhex with h | h
            · exact hall j hj1 h
            · have : j = endhex := by omega
              subst this; exact ⟨b, hg, hc.1⟩
          · simpa using hix

/-- `parse_hex` from a boundary of well-formed bytes, `digits ∈ 1..8` -/
theorem goodS_parseHex {re : Bytes} (hwf : WF re) (fl : Flags) {ix digits : Nat}
    (hb : isBoundary re ix = true) (hd : 0 < digits) (hd8 : digits ≤ 8) :
    GoodS re (fun r => ix < r.1 ∧ isBoundary re r.1 = true ∧ ∃ c ci, r.2 = .literal [c] ci)
      (parseHex re fl ix digits) := by
  have hix := isBoundary_le hb
  unfold parseHex
  split
  · simpa using hix
  · rename_i hge
    have hlt : ix < re.size := by omega
    refine GoodS.bind (goodS_byteAt _ hlt) (fun b hbyte => ?_)
    refine GoodS.bind (P := fun es => ix < es.1 ∧ isBoundary re es.1 = true ∧ es.2 ≠ [] ∧
        es.2.length ≤ 8 ∧ ∀ d ∈ es.2, isHexDigit d = true) ?_ (fun es h => ?_)
    · split
      · rename_i hc
        simp only [Bool.and_eq_true, decide_eq_true_eq] at hc
        have hall := all_extract hc.1 hc.2
        have hbe : isBoundary re (ix + digits) = true := by
          obtain ⟨d, h1, h2⟩ := hall (ix + digits - 1) (by omega) (by omega)
          have := hwf.step_ascii h1 (isHexDigit_ascii h2)
          rwa [show ix + digits - 1 + 1 = ix + digits by omega] at this
        refine GoodS.bind (goodS_slice _ (by omega) hb hbe) (fun s hs => ?_)
        subst hs
        refine ⟨by simp only; omega, hbe, ?_, ?_, extract_all hc.1 hall⟩
        · intro h
          have := congrArg List.length h
          simp at this
          omega
        · simp; omega
      · split
        · rename_i hbrace
          have hbr : b = ch '{' := by simpa using hbrace
          subst hbr
          have hb1 : isBoundary re (ix + 1) = true := hwf.step_ascii hbyte (by decide)
          refine GoodS.bind (goodS_hexBraceLoop re ix (ix + 1) hix 16 (ix + 1) (Nat.le_refl _) (by omega)
            (by omega) (by omega) (fun j h1 h2 => by omega)) (fun e he => ?_)
          obtain ⟨he1, he2, he3, he4⟩ := he
          have hbe : isBoundary re e = true := isBoundary_of_ascii he3 (by decide)
          have hesz := lt_size_of_get he3
          refine GoodS.bind (goodS_slice _ (by omega) hb1 hbe) (fun s hs => ?_)
          subst hs
          refine ⟨by simp only; omega, hwf.step_ascii he3 (by decide), ?_, ?_,
            extract_all (by omega) he4⟩
          · intro h
            have := congrArg List.length h
            simp at this
            omega
          · simp; omega
        · simpa using hix
    · obtain ⟨h1, h2, h3, h4, h5⟩ := h
      obtain ⟨v, hv⟩ := parseHexU32_some h3 h5 h4
      simp only [hv]
      split
      · exact ⟨h1, h2, _, _, rfl⟩
      · simpa using hix

/-- **parse_hex** (valid UTF-8, from a boundary, 2/4/8 digits): the end is to the right on a
    boundary, the result a one-character literal; errors inside the pattern; the
    `from_str_radix(..).unwrap()` never fails; no fuel exhaustion -/
theorem C06_parseHex_bounds {re : Bytes} (hwf : WF re) (fl : Flags) {ix digits : Nat}
    (hb : isBoundary re ix = true) (hd : 0 < digits) (hd8 : digits ≤ 8) :
    (∀ e x, parseHex re fl ix digits = .ok (e, x) → ix < e ∧ e ≤ re.size ∧ isBoundary re e = true) ∧
    (∀ k p, parseHex re fl ix digits = .err k p → p ≤ re.size) ∧
    (∀ s, parseHex re fl ix digits ≠ .panic s) ∧ parseHex re fl ix digits ≠ .outOfFuel := by
  have h := goodS_parseHex hwf fl hb hd hd8
  refine ⟨fun n x e => ?_, fun k p e => ?_, fun s e => ?_, fun e => ?_⟩
  · rw [e] at h; exact ⟨h.1, isBoundary_le h.2.1, h.2.1⟩
  · rw [e] at h; exact h
  · rw [e] at h; exact h
  · rw [e] at h; exact h

/-! ## `parse_id` -/

theorem decodeAt_snd (re : Bytes) (ix b : Nat) : (decodeAt re ix b).2 = codepointLen b := by
  unfold decodeAt
  simp only
  split <;> rfl

/-- `find(|ch| !pred(ch))` over the characters from a boundary -/
theorem goodS_findNot {re : Bytes} (hwf : WF re) (pred : Char → Bool) : ∀ (f ix : Nat),
    isBoundary re ix = true → re.size < ix + f →
    GoodS re (fun r => ∀ p, r = some p → ix ≤ p ∧ p < re.size ∧ isBoundary re p = true)
      (findNot pred f re ix) := by
  intro f
  induction f with
  | zero => intro ix hb hf; have := isBoundary_le hb; omega
  | succ f ih =>
    intro ix hb hf
    unfold findNot
    cases hg : re[ix]? with
    | none => simp
    | some b =>
      simp only
      have hn := decodeAt_snd re ix b
      have hlt := lt_size_of_get hg
      generalize decodeAt re ix b = cn at hn
      obtain ⟨c, n⟩ := cn
      simp only at hn ⊢
      subst hn
      split
      · have hpos := codepointLen_pos b
        refine (ih (ix + codepointLen b) (hwf.step hg hb) (by omega)).mono fun r h p hp => ?_
        have := h p hp
        exact ⟨by omega, this.2⟩
      · simp only [GoodS_ok]
        intro p hp; cases hp
        exact ⟨Nat.le_refl _, hlt, hb⟩

theorem startsWithAt_boundary {re : Bytes} (hwf : WF re) : ∀ (l : List Nat) (ix : Nat),
    (∀ c ∈ l, c < 128) → startsWithAt re ix l = true → isBoundary re ix = true →
    isBoundary re (ix + l.length) = true := by
  intro l
  induction l with
  | nil => intro ix _ _ h; simpa using h
  | cons c cs ih =>
    intro ix hc hs hb
    obtain ⟨h1, h2⟩ := startsWithAt_head hs
    have := ih (ix + 1) (fun x hx => hc x (by simp [hx])) h2 (hwf.step_ascii h1 (hc c (by simp)))
    simpa [Nat.add_assoc, Nat.add_comm 1] using this

/-- `parse_id` at a boundary of well-formed bytes with ASCII delimiters (as in every call): when
    it finds an identifier, `skip` is positive and `base + skip` is a boundary -/
theorem goodS_parseId {re : Bytes} (hwf : WF re) (isAlnum : Char → Bool) {base : Nat}
    {open_ close : List Nat} (allowRel : Bool) (hb : isBoundary re base = true)
    (hopen : ∀ c ∈ open_, c < 128) (hclose : ∀ c ∈ close, c < 128) (hne : close ≠ [])
    (hdbg : ∀ c, close.head? = some c → isIdChar isAlnum (mkChar c) = false) :
    GoodS re (fun r => ∀ a b skip, r = some (a, b, skip) → 0 < skip ∧
        isBoundary re (base + skip) = true) (parseId isAlnum re base open_ close allowRel) := by
  obtain ⟨c0, cs0, rfl⟩ : ∃ c cs, close = c :: cs := by
    cases close with
    | nil => exact absurd rfl hne
    | cons c cs => exact ⟨c, cs, rfl⟩
  have hd := hdbg c0 rfl
  unfold parseId
  simp only [hd, Bool.false_eq_true, ↓reduceIte]
  split
  · simp
  · rename_i hsw
    have hsw' : startsWithAt re base open_ = true := by simpa using hsw
    have hbs := startsWithAt_boundary hwf open_ base hopen hsw' hb
    have hsz := isBoundary_le hbs
    refine GoodS.bind (goodS_sliceFrom _ hbs) (fun _ _ => ?_)
    refine GoodS.bind (P := fun r => ∀ p, r = some p → base + open_.length ≤ p ∧ p < re.size ∧
      isBoundary re p = true) ?_ (fun afterId haf => ?_)
    · split
      · rename_i hrel
        simp only [Bool.and_eq_true] at hrel
        have hminus : re[base + open_.length]? = some (ch '-') := by simpa using hrel.2
        have hb1 := hwf.step_ascii hminus (by decide)
        refine (goodS_findNot hwf _ _ _ hb1 (by omega)).mono fun r h p hp => ?_
        have := h p hp
        exact ⟨by omega, this.2⟩
      · exact goodS_findNot hwf _ _ _ hbs (by omega)
    · refine GoodS.bind (P := fun idLen => ∀ l, idLen = some l →
        isBoundary re (base + open_.length + l + (c0 :: cs0).length) = true ∧
        isBoundary re (base + open_.length + l) = true) ?_ (fun idLen hl => ?_)
      · cases afterId with
        | none =>
          simp
        | some p =>
          obtain ⟨hp1, hp2, hp3⟩ := haf p rfl
          simp only
          refine GoodS.bind (goodS_sliceFrom _ hp3) (fun _ _ => ?_)
          split
          · rename_i hcl
            simp only [GoodS_pure]
            intro l hl; cases hl
            have := startsWithAt_boundary hwf (c0 :: cs0) p hclose hcl hp3
            rw [show base + open_.length + (p - (base + open_.length)) = p by omega]
            exact ⟨this, hp3⟩
          · simp
      · cases idLen with
        | none => simp
        | some l =>
          obtain ⟨h1, h2⟩ := hl l rfl
          cases l with
          | zero => simp
          | succ l =>
            simp only
            have hs : sliceOk re (base + open_.length) (base + open_.length + (l + 1)) = true := by
              have := isBoundary_le h2
              simp [sliceOk, hbs, h2, this]
            simp only [hs, Bool.not_true, Bool.false_eq_true, ↓reduceIte, GoodS_ok]
            intro a b skip h; cases h
            refine ⟨by omega, ?_⟩
            rw [show base + (base + open_.length + (l + 1) - base + (c0 :: cs0).length)
              = base + open_.length + (l + 1) + (c0 :: cs0).length by omega]
            exact h1

/-- **parse_id** (valid UTF-8, from a boundary, ASCII delimiters, a non-empty closing delimiter
    that is not an identifier character — as in all five call sites): when an identifier is found,
    `skip` is positive and `base + skip` is a boundary inside the pattern; it never errs, never
    panics (the three slices are in range and on boundaries, the `debug_assert!` holds) and the
    fuel of its scanning loop suffices -/
theorem C06_parseId_bounds {re : Bytes} (hwf : WF re) (isAlnum : Char → Bool) {base : Nat}
    {open_ close : List Nat} (allowRel : Bool) (hb : isBoundary re base = true)
    (hopen : ∀ c ∈ open_, c < 128) (hclose : ∀ c ∈ close, c < 128) (hne : close ≠ [])
    (hdbg : ∀ c, close.head? = some c → isIdChar isAlnum (mkChar c) = false) :
    (∀ a b skip, parseId isAlnum re base open_ close allowRel = .ok (some (a, b, skip)) →
      0 < skip ∧ base + skip ≤ re.size ∧ isBoundary re (base + skip) = true) ∧
    (∀ s, parseId isAlnum re base open_ close allowRel ≠ .panic s) ∧
    parseId isAlnum re base open_ close allowRel ≠ .outOfFuel := by
  have h := goodS_parseId hwf isAlnum allowRel hb hopen hclose hne hdbg
  refine ⟨fun a b skip e => ?_, fun s e => ?_, fun e => ?_⟩
  · rw [e] at h
    have := h a b skip rfl
    exact ⟨this.1, isBoundary_le this.2, this.2⟩
  · rw [e] at h; exact h
  · rw [e] at h; exact h

-- `<n>` : the identifier is bytes 1..2, three bytes are used
example : parseId (fun c => c.isAlphanum) #[60, 110, 62] 0 [60] [62] false = .ok (some (1, 2, 3)) := by
  rfl
-- the hypotheses are satisfiable: the bytes of any string are well-formed
example : WF (bytesOf "(?<é>a)".toList) := WF_bytesOf _

/-! ## References (`parse_numbered_backref`, `parse_named_backref`) -/
set_option linter.unusedVariables false

mutual
/-- depth of a tree (a leaf has depth 1) -/
def depth : Expr → Nat
  | .concat es => 1 + depthList es
  | .alt es => 1 + depthList es
  | .group _ e => 1 + depth e
  | .look e _ => 1 + depth e
  | .repeat e _ _ _ => 1 + depth e
  | .atomic e => 1 + depth e
  | .cond c y n => 1 + max (depth c) (max (depth y) (depth n))
  | _ => 1
def depthList : List Expr → Nat
  | [] => 0
  | e :: es => max (depth e) (depthList es)
end

/-- the assumption on `is_alphanumeric` that the `debug_assert!` of `parse_id` relies on: the
    closing delimiters are not identifier characters -/
def AlnumOK (isAlnum : Char → Bool) : Prop :=
  isAlnum '\'' = false ∧ isAlnum '>' = false ∧ isAlnum ')' = false

/-- a literal holds exactly one character (what the `debug_assert_eq!` of `parse_class` checks),
    an alternation is not empty (what `alternatives.remove(0)` of `parse_conditional` relies on) -/
def lit1 : Expr → Prop
  | .literal v _ => v.length = 1
  | .alt es => es ≠ []
  | _ => True

/-- outcome of the functions that parse one item at `ix`: progress, a boundary, a shallow tree,
    one-character literals -/
def Item (re : Bytes) (ix d : Nat) (r : Nat × Expr × PState) : Prop :=
  ix < r.1 ∧ isBoundary re r.1 = true ∧ depth r.2.1 ≤ d ∧ lit1 r.2.1

theorem depth_mk (k : RefKind) (g : Nat) : depth (k.mk g) = 1 := by
  cases k <;> simp [RefKind.mk, depth]

theorem lit1_mk (k : RefKind) (g : Nat) : lit1 (k.mk g) := by
  cases k <;> simp [RefKind.mk, lit1]

theorem goodS_parseNumberedBackref {re : Bytes} (hwf : WF re) (st : PState) {ix : Nat}
    (hb : isBoundary re ix = true) (k : RefKind) :
    GoodS re (Item re ix 1) (parseNumberedBackref re st ix k) := by
  have hix := isBoundary_le hb
  unfold parseNumberedBackref
  refine GoodS.bind (goodS_parseDecimal hwf hb) (fun r hr => ?_)
  cases r with
  | none => simpa using hix
  | some p =>
    obtain ⟨e, g⟩ := p
    have := hr _ _ rfl
    simp only
    split
    · exact ⟨this.1, this.2.1, by simp [depth_mk], lit1_mk _ _⟩
    · simpa using hix

theorem goodS_parseNamedBackref {re : Bytes} (hwf : WF re) (isAlnum : Char → Bool) (st : PState)
    {ix : Nat} {open_ close : List Nat} (allowRel : Bool) (k : RefKind)
    (hb : isBoundary re ix = true)
    (hopen : ∀ c ∈ open_, c < 128) (hclose : ∀ c ∈ close, c < 128) (hne : close ≠ [])
    (hdbg : ∀ c, close.head? = some c → isIdChar isAlnum (mkChar c) = false) :
    GoodS re (Item re ix 1) (parseNamedBackref isAlnum re st ix open_ close allowRel k) := by
  have hix := isBoundary_le hb
  unfold parseNamedBackref
  refine GoodS.bind (goodS_sliceFrom _ hb) (fun _ _ => ?_)
  refine GoodS.bind (goodS_parseId hwf isAlnum allowRel hb hopen hclose hne hdbg) (fun r hr => ?_)
  cases r with
  | none => simpa using hix
  | some p =>
    obtain ⟨a, b, skip⟩ := p
    have := hr _ _ _ rfl
    simp only
    split
    · exact ⟨by simp only; omega, this.2, by simp [depth_mk], lit1_mk _ _⟩
    · simpa using hix

theorem idChar_quote {isAlnum : Char → Bool} (h : AlnumOK isAlnum) :
    ∀ c, [ch '\''].head? = some c → isIdChar isAlnum (mkChar c) = false := by
  intro c hc
  have : c = 39 := by simpa [ch] using hc.symm
  subst this
  have : mkChar 39 = '\'' := by decide
  simp [isIdChar, this, h.1]

theorem idChar_gt {isAlnum : Char → Bool} (h : AlnumOK isAlnum) :
    ∀ c, [ch '>'].head? = some c → isIdChar isAlnum (mkChar c) = false := by
  intro c hc
  have : c = 62 := by simpa [ch] using hc.symm
  subst this
  have : mkChar 62 = '>' := by decide
  simp [isIdChar, this, h.2.1]

theorem idChar_paren {isAlnum : Char → Bool} (h : AlnumOK isAlnum) :
    ∀ c, [ch ')'].head? = some c → isIdChar isAlnum (mkChar c) = false := by
  intro c hc
  have : c = 41 := by simpa [ch] using hc.symm
  subst this
  have : mkChar 41 = ')' := by decide
  simp [isIdChar, this, h.2.2]

theorem ascii1 (c : Char) (h : c.toNat < 128) : ∀ x ∈ [ch c], x < 128 := by
  intro x hx
  have : x = c.toNat := by simpa [ch] using hx
  omega

/-- `\k'…'`, `\g'…'`, `(?('…')` -/
theorem goodS_namedQuote {re : Bytes} (hwf : WF re) {isAlnum : Char → Bool} (hal : AlnumOK isAlnum)
    (st : PState) {ix : Nat} (k : RefKind) (hb : isBoundary re ix = true) :
    GoodS re (Item re ix 1)
      (parseNamedBackref isAlnum re st ix [ch '\''] [ch '\''] true k) :=
  goodS_parseNamedBackref hwf isAlnum st true k hb (ascii1 _ (by decide)) (ascii1 _ (by decide))
    (by simp) (idChar_quote hal)

/-- `\k<…>`, `\g<…>`, `(?(<…>)` -/
theorem goodS_namedAngle {re : Bytes} (hwf : WF re) {isAlnum : Char → Bool} (hal : AlnumOK isAlnum)
    (st : PState) {ix : Nat} (k : RefKind) (hb : isBoundary re ix = true) :
    GoodS re (Item re ix 1)
      (parseNamedBackref isAlnum re st ix [ch '<'] [ch '>'] true k) :=
  goodS_parseNamedBackref hwf isAlnum st true k hb (ascii1 _ (by decide)) (ascii1 _ (by decide))
    (by simp) (idChar_gt hal)

/-- `(?P=…)`, `(?P>…)` -/
theorem goodS_namedParen {re : Bytes} (hwf : WF re) {isAlnum : Char → Bool} (hal : AlnumOK isAlnum)
    (st : PState) {ix : Nat} (k : RefKind) (hb : isBoundary re ix = true) :
    GoodS re (Item re ix 1)
      (parseNamedBackref isAlnum re st ix [] [ch ')'] false k) :=
  goodS_parseNamedBackref hwf isAlnum st false k hb (by simp) (ascii1 _ (by decide))
    (by simp) (idChar_paren hal)

/-- the `\p{…}` loop -/
theorem goodS_uniNameLoop {re : Bytes} (hwf : WF re) (ix : Nat) (hix : ix ≤ re.size) :
    ∀ (f e : Nat), isBoundary re e = true → re.size < e + f →
    GoodS re (fun e' => e < e' ∧ isBoundary re e' = true) (uniNameLoop f re ix e) := by
  intro f
  induction f with
  | zero => intro e hb hf; have := isBoundary_le hb; omega
  | succ f ih =>
    intro e hb hf
    have he := isBoundary_le hb
    unfold uniNameLoop
    split
    · simpa using hix
    · rename_i hne
      have hlt := lt_of_ne_size hb hne
      cases hg : re[e]? with
      | none => rw [Array.getElem?_eq_none_iff] at hg; omega
      | some b =>
        simp only
        split
        · rename_i hc
          have : b = ch '}' := by simpa using hc
          subst this
          exact ⟨by omega, hwf.step_ascii hg (by decide)⟩
        · have hpos := codepointLen_pos b
          exact (ih _ (hwf.step hg hb) (by omega)).mono fun a h => ⟨by omega, h.2⟩

/-! ## `parse_escape` -/

theorem GoodS.ite {α : Type} {re : Bytes} {P : α → Prop} {c : Prop} [Decidable c] {t e : Res α}
    (ht : c → GoodS re P t) (he : ¬c → GoodS re P e) : GoodS re P (if c then t else e) := by
  split
  · exact ht ‹_›
  · exact he ‹_›

theorem Item.mono {re : Bytes} {ix ix' d d' : Nat} {r : Nat × Expr × PState}
    (h : Item re ix' d' r) (h1 : ix ≤ ix') (h2 : d' ≤ d) : Item re ix d r :=
  ⟨by have := h.1; omega, h.2.1, by have := h.2.2.1; omega, h.2.2.2⟩

/-- the bytes of one character decode to one character -/
theorem decodeList_one : ∀ (s : List Nat) (b : Nat) (rest : List Nat), s = b :: rest →
    s.length = codepointLen b → (decodeList s).length = 1 := by
  intro s b rest hs hl
  subst hs
  unfold codepointLen at hl
  unfold decodeList
  split at hl
  · rename_i h
    have : rest = [] := by cases rest <;> simp_all
    subst this; simp [h, decodeList]
  · rename_i h
    simp only [h, ↓reduceIte]
    split at hl
    · rename_i h2
      simp only [h2, ↓reduceIte]
      match rest, hl with
      | [c1], _ => simp [decodeList]
    · rename_i h2
      simp only [h2, ↓reduceIte]
      split at hl
      · rename_i h3
        simp only [h3, ↓reduceIte]
        match rest, hl with
        | [c1, c2], _ => simp [decodeList]
      · rename_i h3
        simp only [h3, ↓reduceIte]
        match rest, hl with
        | [c1, c2, c3], _ => simp [decodeList]

theorem decode_char_slice {re : Bytes} {ix b : Nat} (hg : re[ix]? = some b)
    (hsz : ix + codepointLen b ≤ re.size) :
    (decodeList (re.extract ix (ix + codepointLen b)).toList).length = 1 := by
  have hpos := codepointLen_pos b
  have hlen : (re.extract ix (ix + codepointLen b)).toList.length = codepointLen b := by
    simp only [Array.length_toList, Array.size_extract, Nat.min_eq_left hsz]; omega
  have hhead : (re.extract ix (ix + codepointLen b)).toList[0]? = some b := by
    rw [Array.getElem?_toList, Array.getElem?_extract, Nat.min_eq_left hsz, if_pos (by omega)]
    simpa using hg
  cases hl : (re.extract ix (ix + codepointLen b)).toList with
  | nil => rw [hl] at hlen; simp at hlen; omega
  | cons x rest =>
    rw [hl] at hhead hlen
    simp at hhead; subst hhead
    exact decodeList_one _ x rest rfl hlen


theorem goodS_parseEscape {re : Bytes} (hwf : WF re) {isAlnum : Char → Bool} (hal : AlnumOK isAlnum)
    (st : PState) {ix : Nat} (inClass : Bool) (hg : re[ix]? = some (ch '\\')) :
    GoodS re (Item re ix 2) (parseEscape isAlnum re st ix inClass) := by
  have hb0 : isBoundary re ix = true := isBoundary_of_ascii hg (by decide)
  have hb1 : isBoundary re (ix + 1) = true := hwf.step_ascii hg (by decide)
  have hix := isBoundary_le hb0
  unfold parseEscape
  cases hg1 : re[ix + 1]? with
  | none => simpa using hix
  | some b =>
    simp only
    have hbe : isBoundary re (ix + 1 + codepointLen b) = true := hwf.step hg1 hb1
    have hpos := codepointLen_pos b
    have hsz := isBoundary_le hbe
    generalize hend : ix + 1 + codepointLen b = end_ at *
    have hlt : ix < end_ := by omega
    have simple : ∀ (e : Expr), depth e ≤ 2 → lit1 e → GoodS re (Item re ix 2) (.ok (end_, e, st)) :=
      fun e he hl => ⟨hlt, hbe, he, hl⟩
    have hexcase : ∀ digits, 0 < digits → digits ≤ 8 → GoodS re (Item re ix 2)
        (do let (e, x) ← parseHex re st.flags end_ digits; Res.ok (e, x, st)) := by
      intro digits h1 h2
      refine GoodS.bind (goodS_parseHex hwf st.flags hbe h1 h2) (fun r hr => ?_)
      obtain ⟨e, x⟩ := r
      obtain ⟨h3, h4, c, ci, h5⟩ := hr
      simp only at h5; subst h5
      exact ⟨by simp only; omega, h4, by simp [depth], by simp [lit1]⟩
    -- digit
    refine GoodS.ite (fun h => ?_) (fun _ => ?_)
    · exact (goodS_parseNumberedBackref hwf st hb1 _).mono fun r hr => hr.mono (by omega) (by omega)
    -- \k
    refine GoodS.ite (fun h => ?_) (fun _ => ?_)
    · refine GoodS.ite (fun _ => ?_) (fun _ => ?_)
      · exact (goodS_namedQuote hwf hal st _ hbe).mono fun r hr => hr.mono (by omega) (by omega)
      · exact (goodS_namedAngle hwf hal st _ hbe).mono fun r hr => hr.mono (by omega) (by omega)
    -- \A \z \Z
    refine GoodS.ite (fun h => simple _ (by simp [depth]) (by simp [lit1])) (fun _ => ?_)
    refine GoodS.ite (fun h => simple _ (by simp [depth]) (by simp [lit1])) (fun _ => ?_)
    refine GoodS.ite (fun h => simple _ (by simp [depth]) (by simp [lit1])) (fun _ => ?_)
    -- \b
    refine GoodS.ite (fun h => ?_) (fun _ => ?_)
    · refine GoodS.ite (fun _ => ?_) (fun _ => simple _ (by simp [depth]) (by simp [lit1]))
      refine GoodS.bind (goodS_slice _ (by omega) hb1 hbe) (fun s _ => ?_)
      simpa using hix
    -- \B
    refine GoodS.ite (fun h => ?_) (fun _ => ?_)
    · refine GoodS.ite (fun _ => ?_) (fun _ => simple _ (by simp [depth]) (by simp [lit1]))
      refine GoodS.bind (goodS_slice _ (by omega) hb1 hbe) (fun s _ => ?_)
      simpa using hix
    -- \< \>
    refine GoodS.ite (fun h => simple _ (by simp [depth]) (by simp [lit1])) (fun _ => ?_)
    refine GoodS.ite (fun h => simple _ (by simp [depth]) (by simp [lit1])) (fun _ => ?_)
    -- \d \s \w
    refine GoodS.ite (fun h => ?_) (fun _ => ?_)
    · refine GoodS.bind (goodS_slice _ (by omega) hb0 hbe) (fun s _ => ?_)
      exact simple _ (by simp [depth]) (by simp [lit1])
    -- \h
    refine GoodS.ite (fun h => simple _ (by simp [depth]) (by simp [lit1])) (fun _ => ?_)
    -- \x \u \U
    refine GoodS.ite (fun h => hexcase 2 (by omega) (by omega)) (fun _ => ?_)
    refine GoodS.ite (fun h => hexcase 4 (by omega) (by omega)) (fun _ => ?_)
    refine GoodS.ite (fun h => hexcase 8 (by omega) (by omega)) (fun _ => ?_)
    -- \p
    refine GoodS.ite (fun h => ?_) (fun _ => ?_)
    · have hne : end_ ≠ re.size := by
        have := ((Bool.and_eq_true _ _).mp h).2
        simpa using this
      refine GoodS.bind (goodS_byteAt _ (by omega)) (fun b2 hb2 => ?_)
      have hbe1 := hwf.step hb2 hbe
      have hpos2 := codepointLen_pos b2
      refine GoodS.bind (P := fun e2 => end_ < e2 ∧ isBoundary re e2 = true) ?_ (fun e2 he2 => ?_)
      · refine GoodS.ite (fun _ => ?_) (fun _ => ⟨by omega, hbe1⟩)
        exact (goodS_uniNameLoop hwf ix hix _ _ hbe1 (by omega)).mono fun a ha => ⟨by omega, ha.2⟩
      · refine GoodS.bind (goodS_slice _ (by omega) hb0 he2.2) (fun s _ => ?_)
        exact ⟨by simp only; omega, he2.2, by simp [depth], by simp [lit1]⟩
    -- \K \G
    refine GoodS.ite (fun h => simple _ (by simp [depth]) (by simp [lit1])) (fun _ => ?_)
    refine GoodS.ite (fun h => simple _ (by simp [depth]) (by simp [lit1])) (fun _ => ?_)
    -- \g
    refine GoodS.ite (fun h => ?_) (fun _ => ?_)
    · refine GoodS.ite (fun _ => by simpa using hix) (fun hne => ?_)
      have hne' : end_ ≠ re.size := by simpa using hne
      refine GoodS.bind (goodS_byteAt _ (by omega)) (fun b2 hb2 => ?_)
      refine GoodS.ite (fun _ => ?_) (fun _ => ?_)
      · exact (goodS_parseNumberedBackref hwf st hbe _).mono fun r hr => hr.mono (by omega) (by omega)
      refine GoodS.ite (fun _ => ?_) (fun _ => ?_)
      · exact (goodS_namedQuote hwf hal st _ hbe).mono fun r hr => hr.mono (by omega) (by omega)
      · exact (goodS_namedAngle hwf hal st _ hbe).mono fun r hr => hr.mono (by omega) (by omega)
    -- single-letter escapes
    refine GoodS.ite (fun h => simple _ (by simp [depth, makeLiteral]) (by simp [lit1, makeLiteral])) (fun _ => ?_)
    refine GoodS.ite (fun h => simple _ (by simp [depth, makeLiteral]) (by simp [lit1, makeLiteral])) (fun _ => ?_)
    refine GoodS.ite (fun h => simple _ (by simp [depth, makeLiteral]) (by simp [lit1, makeLiteral])) (fun _ => ?_)
    refine GoodS.ite (fun h => simple _ (by simp [depth, makeLiteral]) (by simp [lit1, makeLiteral])) (fun _ => ?_)
    refine GoodS.ite (fun h => simple _ (by simp [depth, makeLiteral]) (by simp [lit1, makeLiteral])) (fun _ => ?_)
    refine GoodS.ite (fun h => simple _ (by simp [depth, makeLiteral]) (by simp [lit1, makeLiteral])) (fun _ => ?_)
    refine GoodS.ite (fun h => simple _ (by simp [depth, makeLiteral]) (by simp [lit1, makeLiteral])) (fun _ => ?_)
    refine GoodS.ite (fun h => simple _ (by simp [depth, makeLiteral]) (by simp [lit1, makeLiteral])) (fun _ => ?_)
    refine GoodS.ite (fun h => simple _ (by simp [depth, makeLiteral]) (by simp [lit1, makeLiteral])) (fun _ => ?_)
    refine GoodS.bind (goodS_slice _ (by omega) hb1 hbe) (fun s hs => ?_)
    refine GoodS.ite (fun _ => by simpa using hix) (fun _ => simple _ (by simp [depth, makeLiteral]) ?_)
    subst hs
    subst hend
    simpa [lit1, makeLiteral] using decode_char_slice hg1 hsz

/-! ## `parse_class` -/

/-- the loop of `parse_class` from a boundary: it stops at a `]` -/
theorem goodS_classLoop {re : Bytes} (hwf : WF re) {isAlnum : Char → Bool} (hal : AlnumOK isAlnum) :
    ∀ (f : Nat) (st : PState) (ix : Nat) (nest : Int) (rcls : List Char),
    isBoundary re ix = true → re.size < ix + f →
    GoodS re (fun r => ix ≤ r.1 ∧ re[r.1]? = some (ch ']'))
      (classLoop isAlnum f re st ix nest rcls) := by
  intro f
  induction f with
  | zero => intro st ix nest rcls hb hf; have := isBoundary_le hb; omega
  | succ f ih =>
    intro st ix nest rcls hb hf
    have hix := isBoundary_le hb
    unfold classLoop
    refine GoodS.ite (fun _ => by simpa using hix) (fun hne => ?_)
    have hlt := lt_of_ne_size hb hne
    cases hg : re[ix]? with
    | none => rw [Array.getElem?_eq_none_iff] at hg; omega
    | some b =>
      simp only
      refine GoodS.ite (fun hc => ?_) (fun _ => ?_)
      · have hbs : b = ch '\\' := by simpa using hc
        subst hbs
        have hesc := goodS_parseEscape hwf hal st true hg
        cases hres : parseEscape isAlnum re st ix true with
        | ok r =>
          rw [hres] at hesc
          obtain ⟨end_, e, st'⟩ := r
          obtain ⟨h1, h2, h3, h4⟩ := hesc
          simp only at h1 h2 h4
          cases e with
          | literal val ci =>
            simp only
            have hv : val.length = 1 := h4
            simp only [hv, bne_self_eq_false, Bool.false_eq_true, ↓reduceIte]
            exact (ih _ _ _ _ h2 (by omega)).mono fun r hr => ⟨by omega, hr.2⟩
          | delegate inner size ci =>
            simp only
            exact (ih _ _ _ _ h2 (by omega)).mono fun r hr => ⟨by omega, hr.2⟩
          | _ => simpa using hix
        | err k p => rw [hres] at hesc; simpa using hesc
        | cerr => simp
        | panic s => rw [hres] at hesc; exact hesc.elim
        | outOfFuel => rw [hres] at hesc; exact hesc.elim
      refine GoodS.ite (fun hc => ?_) (fun _ => ?_)
      · have hbs : b = ch '[' := by simpa using hc
        subst hbs
        exact (ih _ _ _ _ (hwf.step_ascii hg (by decide)) (by omega)).mono fun r hr => ⟨by omega, hr.2⟩
      refine GoodS.ite (fun hc => ?_) (fun _ => ?_)
      · have hbs : b = ch ']' := by simpa using hc
        subst hbs
        refine GoodS.ite (fun _ => ⟨Nat.le_refl _, hg⟩) (fun _ => ?_)
        exact (ih _ _ _ _ (hwf.step_ascii hg (by decide)) (by omega)).mono fun r hr => ⟨by omega, hr.2⟩
      · have hbe := hwf.step hg hb
        have hpos := codepointLen_pos b
        have hsl := goodS_slice "parse_class: self.re[ix..end]" (by omega : ix ≤ ix + codepointLen b) hb hbe
        cases hres : slice re ix (ix + codepointLen b) "parse_class: self.re[ix..end]" with
        | ok s =>
          simp only
          exact (ih _ _ _ _ hbe (by omega)).mono fun r hr => ⟨by omega, hr.2⟩
        | err k p => rw [hres] at hsl; simpa using hsl
        | cerr => simp
        | panic s => rw [hres] at hsl; exact hsl.elim
        | outOfFuel => rw [hres] at hsl; exact hsl.elim

/-- `parse_class` at a `[` -/
theorem goodS_parseClass {re : Bytes} (hwf : WF re) {isAlnum : Char → Bool} (hal : AlnumOK isAlnum)
    (st : PState) {ix : Nat} (hg : re[ix]? = some (ch '[')) :
    GoodS re (Item re ix 1) (parseClass isAlnum re st ix) := by
  have hb1 : isBoundary re (ix + 1) = true := hwf.step_ascii hg (by decide)
  unfold parseClass
  simp only
  -- after the optional `^` and the optional `]` the index is a boundary to the right of `ix`
  generalize hp1 : (if (re[ix + 1]? == some (ch '^')) = true then (ix + 1 + 1, ['^', '[']) else (ix + 1, ['['])) = p1
  have h1 : ix < p1.1 ∧ isBoundary re p1.1 = true := by
    subst hp1
    split
    · rename_i h; exact ⟨by simp only; omega, hwf.step_ascii (by simpa using h) (by decide)⟩
    · exact ⟨by simp only; omega, hb1⟩
  obtain ⟨i1, r1⟩ := p1
  simp only at h1 ⊢
  generalize hp2 : (if (re[i1]? == some (ch ']')) = true then (i1 + 1, ']' :: r1) else (i1, r1)) = p2
  have h2 : ix < p2.1 ∧ isBoundary re p2.1 = true := by
    subst hp2
    split
    · rename_i h; exact ⟨by simp only; omega, hwf.step_ascii (by simpa using h) (by decide)⟩
    · exact h1
  obtain ⟨i2, r2⟩ := p2
  simp only at h2 ⊢
  refine GoodS.bind (goodS_classLoop hwf hal (re.size + 2) st i2 1 r2 h2.2 (by omega)) (fun r hr => ?_)
  obtain ⟨i3, r3, st3⟩ := r
  simp only at hr ⊢
  exact ⟨by omega, hwf.step_ascii hr.2 (by decide), by simp [depth], by simp [lit1]⟩

/-! ## `check_for_close_paren`, `parse_flags` -/

/-- `check_for_close_paren` from a boundary -/
theorem goodS_checkForCloseParen {re : Bytes} (hwf : WF re) (fl : Flags) {ix : Nat}
    (hb : isBoundary re ix = true) :
    GoodS re (fun ix' => ix < ix' ∧ isBoundary re ix' = true) (checkForCloseParen re fl ix) := by
  unfold checkForCloseParen
  refine GoodS.bind (goodS_optWs' hwf fl hb) (fun ix1 h1 => ?_)
  refine GoodS.ite (fun _ => by simpa using isBoundary_le h1.2) (fun hne => ?_)
  refine GoodS.bind (goodS_byteAt _ (lt_of_ne_size h1.2 hne)) (fun b hb => ?_)
  refine GoodS.ite (fun _ => by simpa using isBoundary_le h1.2) (fun hc => ?_)
  have : b = ch ')' := by simpa using hc
  subst this
  exact ⟨by omega, hwf.step_ascii hb (by decide)⟩

/-- `unknown_flag(re, start, end)` with `start ≤ end < len`, both boundaries -/
theorem goodS_unknownFlag {re : Bytes} (hwf : WF re) {start end_ : Nat} (hse : start ≤ end_)
    (hbs : isBoundary re start = true) (hbe : isBoundary re end_ = true) (hlt : end_ < re.size) :
    GoodS re (fun _ => True) (unknownFlag re start end_) := by
  unfold unknownFlag
  refine GoodS.bind (goodS_byteAt _ hlt) (fun b hb => ?_)
  have := codepointLen_pos b
  refine GoodS.bind (goodS_slice _ (by omega) hbs (hwf.step hb hbe)) (fun s _ => ?_)
  trivial

/-- the error `parse_flags` makes of `unknown_flag` -/
theorem goodS_unknownFlagErr {re : Bytes} (hwf : WF re) {α : Type} (P : α → Prop) {start end_ : Nat}
    (hse : start ≤ end_)
    (hbs : isBoundary re start = true) (hbe : isBoundary re end_ = true) (hlt : end_ < re.size) :
    GoodS re P (match unknownFlag re start end_ with
      | .ok e => .err e start
      | .err k p => .err k p | .cerr => .cerr | .panic s => .panic s | .outOfFuel => .outOfFuel) := by
  have h := goodS_unknownFlag hwf hse hbs hbe hlt
  cases hres : unknownFlag re start end_ with
  | ok e => simpa using isBoundary_le hbs
  | err k p => rw [hres] at h; simpa using h
  | cerr => simp
  | panic s => rw [hres] at h; exact h.elim
  | outOfFuel => rw [hres] at h; exact h.elim

/-- what the letter loop of `parse_flags` stops at -/
def FlagsEndOK (re : Bytes) (ix : Nat) : FlagsEnd → Prop
  | .close i => ix ≤ i ∧ re[i]? = some (ch ')')
  | .colon i => ix ≤ i ∧ re[i]? = some (ch ':')

theorem updateFlag_ascii {b : Nat}
    (h : (b == ch 'i' || b == ch 'm' || b == ch 's' || b == ch 'U' || b == ch 'x') = true) :
    b < 128 := by
  simp only [ch, Bool.or_eq_true, beq_iff_eq] at h
  rcases h with (((h | h) | h) | h) | h <;> (subst h; decide)

/-- the letter loop of `parse_flags` -/
theorem goodS_flagsLoop {re : Bytes} (hwf : WF re) {start : Nat} (hbs : isBoundary re start = true) :
    ∀ (f : Nat) (fl : Flags) (ix : Nat) (neg : Bool), start ≤ ix → isBoundary re ix = true →
    re.size < ix + f →
    GoodS re (fun r => FlagsEndOK re ix r.1) (flagsLoop f re fl start ix neg) := by
  intro f
  induction f with
  | zero => intro fl ix neg _ hb hf; have := isBoundary_le hb; omega
  | succ f ih =>
    intro fl ix neg hsi hb hf
    unfold flagsLoop
    have hws := goodS_optWs' hwf fl hb
    cases hres : optWs re fl ix with
    | ok ix1 =>
      rw [hres] at hws
      obtain ⟨h1, h2⟩ := hws
      simp only
      have hsz := isBoundary_le h2
      refine GoodS.ite (fun _ => by simpa using hsz) (fun hne => ?_)
      have hlt := lt_of_ne_size h2 hne
      cases hg : re[ix1]? with
      | none => rw [Array.getElem?_eq_none_iff] at hg; omega
      | some b =>
        simp only
        have next : ∀ fl' neg', b < 128 →
            GoodS re (fun r => FlagsEndOK re ix r.1) (flagsLoop f re fl' start (ix1 + 1) neg') := by
          intro fl' neg' hb128
          refine (ih fl' (ix1 + 1) neg' (by omega) (hwf.step_ascii hg hb128) (by omega)).mono ?_
          intro r hr
          cases hr1 : r.1 with
          | close i => rw [hr1] at hr; exact ⟨by have := hr.1; omega, hr.2⟩
          | colon i => rw [hr1] at hr; exact ⟨by have := hr.1; omega, hr.2⟩
        have uf : ∀ {α : Type} (P : α → Prop), GoodS re P (match unknownFlag re start ix1 with
            | .ok e => .err e start
            | .err k p => .err k p | .cerr => .cerr | .panic s => .panic s
            | .outOfFuel => .outOfFuel) :=
          fun P => goodS_unknownFlagErr hwf P (by omega) hbs h2 hlt
        refine GoodS.ite (fun hc => next _ _ (updateFlag_ascii hc)) (fun _ => ?_)
        refine GoodS.ite (fun hc => ?_) (fun _ => ?_)
        · have : b = ch 'u' := by simpa using hc
          subst this
          exact GoodS.ite (fun _ => by simpa using hsz) (fun _ => next _ _ (by decide))
        refine GoodS.ite (fun hc => ?_) (fun _ => ?_)
        · have : b = ch '-' := by simpa using hc
          subst this
          exact GoodS.ite (fun _ => uf _) (fun _ => next _ _ (by decide))
        refine GoodS.ite (fun hc => ?_) (fun _ => ?_)
        · have : b = ch ')' := by simpa using hc
          subst this
          exact GoodS.ite (fun _ => uf _) (fun _ => ⟨h1, hg⟩)
        refine GoodS.ite (fun hc => ?_) (fun _ => uf _)
        · have : b = ch ':' := by simpa using hc
          subst this
          exact GoodS.ite (fun _ => uf _) (fun _ => ⟨h1, hg⟩)
    | err k p => rw [hres] at hws; simpa using hws
    | cerr => simp
    | panic s => rw [hres] at hws; exact hws.elim
    | outOfFuel => rw [hres] at hws; exact hws.elim

/-- **parse_flags' letter loop** (valid UTF-8, `start` and `ix` boundaries, as `parse_flags` calls
    it): it stops at a `)` or `:` not to the left of `ix`; errors are inside the pattern; no
    panic; no fuel exhaustion -/
theorem C06_flagsLoop_bounds {re : Bytes} (hwf : WF re) (fl : Flags) {start : Nat}
    (hbs : isBoundary re start = true) :
    (∀ e fl', flagsLoop (re.size + 2) re fl start start false = .ok (e, fl') →
        FlagsEndOK re start e) ∧
    (∀ k p, flagsLoop (re.size + 2) re fl start start false = .err k p → p ≤ re.size) ∧
    (∀ s, flagsLoop (re.size + 2) re fl start start false ≠ .panic s) ∧
    flagsLoop (re.size + 2) re fl start start false ≠ .outOfFuel := by
  have h := goodS_flagsLoop hwf hbs (re.size + 2) fl start false (Nat.le_refl _) hbs (by omega)
  refine ⟨fun e fl' he => ?_, fun k p e => ?_, fun s e => ?_, fun e => ?_⟩
  · rw [he] at h; exact h
  · rw [e] at h; exact h
  · rw [e] at h; exact h
  · rw [e] at h; exact h

/-! ## The recursive descent -/

/-- `MAX_RECURSION` -/
abbrev M : Nat := Generated.maxRecursion

/-- depth budgets at nesting depth `d` -/
def Rb (d : Nat) : Nat := 5 * (M - d) + 6

/-- outcome of a descent function started at `ix`: not to the left, on a boundary, depth bounded -/
def Node (re : Bytes) (ix D : Nat) (r : Nat × Expr × PState) : Prop :=
  ix ≤ r.1 ∧ isBoundary re r.1 = true ∧ depth r.2.1 ≤ D ∧ lit1 r.2.1

/-- the same for the two loops, which return the list of children -/
def NodeL (re : Bytes) (ix D : Nat) (r : Nat × List Expr × PState) : Prop :=
  ix ≤ r.1 ∧ isBoundary re r.1 = true ∧ depthList r.2.1 ≤ D ∧ ∀ e ∈ r.2.1, lit1 e

theorem Item.node {re : Bytes} {ix d D : Nat} {r : Nat × Expr × PState} (h : Item re ix d r)
    (hd : d ≤ D) : Node re ix D r :=
  ⟨Nat.le_of_lt h.1, h.2.1, Nat.le_trans h.2.2.1 hd, h.2.2.2⟩

/-- the induction hypothesis of the descent: all functions at fuel `f`, each with the fuel it
    needs: `2·(bytes left) + 8·(levels left) + c` -/
structure Desc (re : Bytes) (isAlnum : Char → Bool) (f : Nat) : Prop where
  re_ : ∀ st ix d, isBoundary re ix = true →
    2 * (re.size - ix) + 8 * (M - d) + 6 ≤ f →
    GoodS re (Node re ix (Rb d)) (parseRe isAlnum f re st ix d)
  alt_ : ∀ st ix d, isBoundary re ix = true →
    2 * (re.size - ix) + 8 * (M - d) + 5 ≤ f →
    GoodS re (NodeL re ix (Rb d - 1)) (reAltLoop isAlnum f re st ix d)
  branch_ : ∀ st ix d, isBoundary re ix = true →
    2 * (re.size - ix) + 8 * (M - d) + 5 ≤ f →
    GoodS re (Node re ix (Rb d - 1)) (parseBranch isAlnum f re st ix d)
  bloop_ : ∀ st ix d, isBoundary re ix = true →
    2 * (re.size - ix) + 8 * (M - d) + 4 ≤ f →
    GoodS re (NodeL re ix (Rb d - 2)) (branchLoop isAlnum f re st ix d)
  piece_ : ∀ st ix d, isBoundary re ix = true →
    2 * (re.size - ix) + 8 * (M - d) + 3 ≤ f →
    GoodS re (Node re ix (Rb d - 2)) (parsePiece isAlnum f re st ix d)
  atom_ : ∀ st ix d, isBoundary re ix = true →
    2 * (re.size - ix) + 8 * (M - d) + 2 ≤ f →
    GoodS re (Node re ix (Rb d - 4)) (parseAtom isAlnum f re st ix d)
  group_ : ∀ st ix d, re[ix]? = some (ch '(') →
    2 * (re.size - ix) + 8 * (M - d) + 1 ≤ f →
    GoodS re (Node re ix (Rb d - 4)) (parseGroup isAlnum f re st ix d)
  flags_ : ∀ st ix d, re[ix]? = some (ch '?') →
    2 * (re.size - ix) + 8 * (M - d) + 7 ≤ f →
    GoodS re (Node re ix (Rb d)) (parseFlags isAlnum f re st ix d)
  cond_ : ∀ st ix d, isBoundary re ix = true →
    2 * (re.size - ix) + 8 * (M - d) + 7 ≤ f →
    GoodS re (Node re ix (Rb d + 1)) (parseConditional isAlnum f re st ix d)

theorem Rb_ge (d : Nat) : 6 ≤ Rb d := by unfold Rb; omega

variable {re : Bytes} {isAlnum : Char → Bool}

theorem step_parseRe (hwf : WF re) {f : Nat} (h : Desc re isAlnum f) (st : PState) (ix d : Nat)
    (hb : isBoundary re ix = true)
    (hf : 2 * (re.size - ix) + 8 * (M - d) + 6 ≤ f + 1) :
    GoodS re (Node re ix (Rb d)) (parseRe isAlnum (f + 1) re st ix d) := by
  have hR := Rb_ge d
  unfold parseRe
  refine GoodS.bind (h.branch_ st ix d hb (by omega)) (fun r hr => ?_)
  obtain ⟨ix1, child, st1⟩ := r
  obtain ⟨h1, h2, h3, hl⟩ := hr
  try simp only at h1 h2 h3 hl ⊢
  refine GoodS.bind (goodS_optWs' hwf _ h2) (fun ix2 h4 => ?_)
  refine GoodS.bind (goodS_sliceFrom _ h4.2) (fun _ _ => ?_)
  refine GoodS.ite (fun _ => ?_) (fun _ => ?_)
  · refine GoodS.bind (h.alt_ st1 ix2 d h4.2 (by omega)) (fun r hr => ?_)
    obtain ⟨ix3, rest, st3⟩ := r
    obtain ⟨h5, h6, h7, _⟩ := hr
    try simp only at h5 h6 h7 ⊢
    exact ⟨by omega, h6, by simp only [depth, depthList]; omega, by simp [lit1]⟩
  · try simp only
    refine GoodS.ite (fun _ => trivial) (fun _ => ?_)
    exact ⟨by (try simp only); omega, h4.2, by (try simp only); omega, hl⟩

theorem step_reAltLoop (hwf : WF re) {f : Nat} (h : Desc re isAlnum f) (st : PState) (ix d : Nat)
    (hb : isBoundary re ix = true)
    (hf : 2 * (re.size - ix) + 8 * (M - d) + 5 ≤ f + 1) :
    GoodS re (NodeL re ix (Rb d - 1)) (reAltLoop isAlnum (f + 1) re st ix d) := by
  have hR := Rb_ge d
  unfold reAltLoop
  refine GoodS.bind (goodS_sliceFrom _ hb) (fun _ _ => ?_)
  refine GoodS.ite (fun hc => ?_) (fun _ => ⟨Nat.le_refl _, hb, by simp [depthList], by simp⟩)
  have hbar : re[ix]? = some (ch '|') := by simpa using hc
  have hltbar := lt_size_of_get hbar
  refine GoodS.bind (h.branch_ st (ix + 1) d (hwf.step_ascii hbar (by decide)) (by omega)) (fun r hr => ?_)
  obtain ⟨ix1, child, st1⟩ := r
  obtain ⟨h1, h2, h3, hl⟩ := hr
  try simp only at h1 h2 h3 hl ⊢
  refine GoodS.bind (goodS_optWs' hwf _ h2) (fun ix2 h4 => ?_)
  refine GoodS.bind (h.alt_ st1 ix2 d h4.2 (by omega)) (fun r hr => ?_)
  obtain ⟨ix3, rest, st3⟩ := r
  obtain ⟨h5, h6, h7, hl2⟩ := hr
  try simp only at h5 h6 h7 hl2 ⊢
  refine ⟨by omega, h6, by simp only [depthList]; omega, ?_⟩
  intro e he
  rcases List.mem_cons.mp he with rfl | he
  · exact hl
  · exact hl2 e he

theorem step_parseBranch (hwf : WF re) {f : Nat} (h : Desc re isAlnum f) (st : PState) (ix d : Nat)
    (hb : isBoundary re ix = true)
    (hf : 2 * (re.size - ix) + 8 * (M - d) + 5 ≤ f + 1) :
    GoodS re (Node re ix (Rb d - 1)) (parseBranch isAlnum (f + 1) re st ix d) := by
  have hR := Rb_ge d
  unfold parseBranch
  refine GoodS.bind (h.bloop_ st ix d hb (by omega)) (fun r hr => ?_)
  obtain ⟨ix1, children, st1⟩ := r
  obtain ⟨h1, h2, h3, hl⟩ := hr
  try simp only at h1 h2 h3 hl ⊢
  match children, h3, hl with
  | [], _, _ => exact ⟨h1, h2, by simp only [depth]; omega, by simp [lit1]⟩
  | [c], h3, hl => exact ⟨h1, h2, by simp only [depthList] at h3; simp only; omega, hl c (by simp)⟩
  | c1 :: c2 :: cs, h3, _ => exact ⟨h1, h2, by simp only [depth]; omega, by simp [lit1]⟩

theorem step_branchLoop (hwf : WF re) {f : Nat} (h : Desc re isAlnum f) (st : PState) (ix d : Nat)
    (hb : isBoundary re ix = true)
    (hf : 2 * (re.size - ix) + 8 * (M - d) + 4 ≤ f + 1) :
    GoodS re (NodeL re ix (Rb d - 2)) (branchLoop isAlnum (f + 1) re st ix d) := by
  have hR := Rb_ge d
  unfold branchLoop
  refine GoodS.ite (fun _ => ?_) (fun _ => ⟨Nat.le_refl _, hb, by simp [depthList], by simp⟩)
  refine GoodS.bind (h.piece_ st ix d hb (by omega)) (fun r hr => ?_)
  obtain ⟨next, child, st1⟩ := r
  obtain ⟨h1, h2, h3, hl⟩ := hr
  try simp only at h1 h2 h3 hl ⊢
  refine GoodS.ite (fun _ => ⟨Nat.le_refl _, hb, by simp [depthList], by simp⟩) (fun hnx => ?_)
  have hnx' : next ≠ ix := by simpa using hnx
  have hnsz := isBoundary_le h2
  refine GoodS.bind (h.bloop_ st1 next d h2 (by omega)) (fun r hr => ?_)
  obtain ⟨ix3, rest, st3⟩ := r
  obtain ⟨h5, h6, h7, hl2⟩ := hr
  try simp only at h5 h6 h7 hl2 ⊢
  refine ⟨by omega, h6, ?_, ?_⟩
  · split
    · exact h7
    · simp only [depthList]; omega
  · split
    · exact hl2
    · intro e he
      rcases List.mem_cons.mp he with rfl | he
      · exact hl
      · exact hl2 e he

theorem step_parsePiece (hwf : WF re) {f : Nat} (h : Desc re isAlnum f) (st : PState) (ix d : Nat)
    (hb : isBoundary re ix = true)
    (hf : 2 * (re.size - ix) + 8 * (M - d) + 3 ≤ f + 1) :
    GoodS re (Node re ix (Rb d - 2)) (parsePiece isAlnum (f + 1) re st ix d) := by
  have hR := Rb_ge d
  unfold parsePiece
  refine GoodS.bind (h.atom_ st ix d hb (by omega)) (fun r hr => ?_)
  obtain ⟨ix1, child, st1⟩ := r
  obtain ⟨h1, h2, h3, hl⟩ := hr
  try simp only at h1 h2 h3 hl ⊢
  refine GoodS.bind (goodS_optWs' hwf _ h2) (fun ix2 h4 => ?_)
  refine GoodS.ite (fun hlt => ?_) (fun _ => ⟨by (try simp only); omega, h4.2, by (try simp only); omega, hl⟩)
  refine GoodS.bind (goodS_byteAt _ hlt) (fun b hbyte => ?_)
  refine GoodS.bind (P := fun q => ∀ lo hi i, q = some (lo, hi, i) → ix2 ≤ i ∧
    isBoundary re (i + 1) = true) ?_ (fun q hq => ?_)
  · have q0 : ∀ lo hi, b < 128 → GoodS re (fun q => ∀ lo hi i, q = some (lo, hi, i) → ix2 ≤ i ∧
        isBoundary re (i + 1) = true) (pure (some (lo, hi, ix2)) : Res (Option (Nat × Nat × Nat))) := by
      intro lo hi hb128 lo' hi' i hi2
      cases hi2
      exact ⟨Nat.le_refl _, hwf.step_ascii hbyte hb128⟩
    refine GoodS.ite (fun hc => q0 _ _ (by have : b = ch '?' := by simpa using hc
                                           subst this; decide)) (fun _ => ?_)
    refine GoodS.ite (fun hc => q0 _ _ (by have : b = ch '*' := by simpa using hc
                                           subst this; decide)) (fun _ => ?_)
    refine GoodS.ite (fun hc => q0 _ _ (by have : b = ch '+' := by simpa using hc
                                           subst this; decide)) (fun _ => ?_)
    refine GoodS.ite (fun hc => ?_) (fun _ => by intro lo hi i hi2; cases hi2)
    have hbr : b = ch '{' := by simpa using hc
    subst hbr
    have hrep := goodS_parseRepeat hwf st1.flags hbyte
    cases hres : parseRepeat re st1.flags ix2 with
    | ok r =>
      rw [hres] at hrep
      obtain ⟨next, lo, hi⟩ := r
      obtain ⟨hr1, hr2⟩ := hrep
      simp only at hr1 hr2 ⊢
      refine GoodS.ite (fun hz => ?_) (fun _ => ?_)
      · have : next = 0 := by simpa using hz
        omega
      · intro lo' hi' i hi2
        cases hi2
        exact ⟨by omega, by rwa [show next - 1 + 1 = next by omega]⟩
    | err k p => intro lo hi i hi2; cases hi2
    | cerr => intro lo hi i hi2; cases hi2
    | panic s => rw [hres] at hrep; exact hrep.elim
    | outOfFuel => rw [hres] at hrep; exact hrep.elim
  · cases q with
    | none => exact ⟨by (try simp only); omega, h4.2, by (try simp only); omega, hl⟩
    | some p =>
      obtain ⟨lo, hi, i⟩ := p
      obtain ⟨hq1, hq2⟩ := hq _ _ _ rfl
      simp only
      have hisz := isBoundary_le hq2
      refine GoodS.ite (fun _ => by simp only [GoodS_err]; omega) (fun _ => ?_)
      refine GoodS.bind (goodS_optWs' hwf _ hq2) (fun ix3 h6 => ?_)
      have hb4 : isBoundary re
          (if (decide (ix3 < re.size) && re[ix3]? == some (ch '?')) = true then ix3 + 1 else ix3) = true := by
        split
        · rename_i hc
          have := ((Bool.and_eq_true _ _).mp hc).2
          exact hwf.step_ascii (by simpa using this) (by decide)
        · exact h6.2
      have hle4 : ix3 ≤
          (if (decide (ix3 < re.size) && re[ix3]? == some (ch '?')) = true then ix3 + 1 else ix3) := by
        split <;> omega
      generalize (if (decide (ix3 < re.size) && re[ix3]? == some (ch '?')) = true then ix3 + 1 else ix3)
        = ix4 at hb4 hle4 ⊢
      refine GoodS.ite (fun hc => ?_) (fun _ => ?_)
      · have := ((Bool.and_eq_true _ _).mp hc).2
        refine ⟨by (try simp only); omega, hwf.step_ascii (by simpa using this) (by decide), ?_, by simp [lit1]⟩
        simp only [depth]; omega
      · refine ⟨by (try simp only); omega, hb4, ?_, by simp [lit1]⟩
        simp only [depth]; omega

theorem Node.mono {re : Bytes} {ix ix' D D' : Nat} {r : Nat × Expr × PState}
    (h : Node re ix' D' r) (h1 : ix ≤ ix') (h2 : D' ≤ D) : Node re ix D r :=
  ⟨Nat.le_trans h1 h.1, h.2.1, Nat.le_trans h.2.2.1 h2, h.2.2.2⟩

theorem step_parseAtom (hwf : WF re) (hal : AlnumOK isAlnum) {f : Nat} (h : Desc re isAlnum f)
    (st : PState) (ix d : Nat) (hb : isBoundary re ix = true)
    (hf : 2 * (re.size - ix) + 8 * (M - d) + 2 ≤ f + 1) :
    GoodS re (Node re ix (Rb d - 4)) (parseAtom isAlnum (f + 1) re st ix d) := by
  have hR := Rb_ge d
  unfold parseAtom
  refine GoodS.bind (goodS_optWs' hwf _ hb) (fun ix1 h1 => ?_)
  refine GoodS.ite (fun _ => ⟨h1.1, h1.2, by simp only [depth]; omega, by simp [lit1]⟩) (fun hne => ?_)
  have hlt := lt_of_ne_size h1.2 hne
  refine GoodS.bind (goodS_byteAt _ hlt) (fun b hbyte => ?_)
  have one : ∀ (e : Expr), b < 128 → depth e = 1 → lit1 e →
      GoodS re (Node re ix (Rb d - 4)) (.ok (ix1 + 1, e, st)) :=
    fun e hb128 he hl => ⟨by (try simp only); omega, hwf.step_ascii hbyte hb128, by (try simp only); omega, hl⟩
  refine GoodS.ite (fun hc => one _ (by have : b = ch '.' := by simpa using hc
                                        subst this; decide) (by simp [depth]) (by first | simp [lit1] | (split <;> simp [lit1]))) (fun _ => ?_)
  refine GoodS.ite (fun hc => one _ (by have : b = ch '^' := by simpa using hc
                                        subst this; decide) (by simp [depth]) (by first | simp [lit1] | (split <;> simp [lit1]))) (fun _ => ?_)
  refine GoodS.ite (fun hc => one _ (by have : b = ch '$' := by simpa using hc
                                        subst this; decide) (by simp [depth]) (by first | simp [lit1] | (split <;> simp [lit1]))) (fun _ => ?_)
  refine GoodS.ite (fun hc => ?_) (fun _ => ?_)
  · have : b = ch '(' := by simpa using hc
    subst this
    exact (h.group_ st ix1 d hbyte (by omega)).mono fun r hr => hr.mono h1.1 (Nat.le_refl _)
  refine GoodS.ite (fun hc => ?_) (fun _ => ?_)
  · have : b = ch '\\' := by simpa using hc
    subst this
    exact (goodS_parseEscape hwf hal st false hbyte).mono fun r hr =>
      (hr.node (by omega)).mono h1.1 (Nat.le_refl _)
  refine GoodS.ite (fun hc => ⟨h1.1, h1.2, by simp only [depth]; omega, by simp [lit1]⟩) (fun _ => ?_)
  refine GoodS.ite (fun hc => ?_) (fun _ => ?_)
  · have : b = ch '[' := by simpa using hc
    subst this
    exact (goodS_parseClass hwf hal st hbyte).mono fun r hr =>
      (hr.node (by omega)).mono h1.1 (Nat.le_refl _)
  · have hbe := hwf.step hbyte h1.2
    have hpos := codepointLen_pos b
    refine GoodS.bind (goodS_slice _ (by omega) h1.2 hbe) (fun s hs => ?_)
    subst hs
    exact ⟨by (try simp only); omega, hbe, by simp only [depth]; omega,
      by simpa [lit1] using decode_char_slice hbyte (isBoundary_le hbe)⟩

theorem Rb_succ {d : Nat} (h : ¬ d + 1 ≥ M) : Rb (d + 1) + 5 = Rb d := by
  unfold Rb; omega

theorem lookOf_boundary (hwf : WF re) {ix skip : Nat} {la : Look} (hb : isBoundary re ix = true)
    (h : lookOf re ix = some (la, skip)) : isBoundary re (ix + skip) = true := by
  unfold lookOf at h
  split at h
  · rename_i hs; cases h
    exact startsWithAt_boundary hwf _ ix (by intro c hc; simp [ch] at hc; omega) hs hb
  split at h
  · rename_i hs; cases h
    exact startsWithAt_boundary hwf _ ix (by intro c hc; simp [ch] at hc; omega) hs hb
  split at h
  · rename_i hs; cases h
    exact startsWithAt_boundary hwf _ ix (by intro c hc; simp [ch] at hc; omega) hs hb
  split at h
  · rename_i hs; cases h
    exact startsWithAt_boundary hwf _ ix (by intro c hc; simp [ch] at hc; omega) hs hb
  · cases h

theorem step_parseGroup (hwf : WF re) (hal : AlnumOK isAlnum) {f : Nat} (h : Desc re isAlnum f)
    (st : PState) (ix d : Nat) (hg : re[ix]? = some (ch '('))
    (hf : 2 * (re.size - ix) + 8 * (M - d) + 1 ≤ f + 1) :
    GoodS re (Node re ix (Rb d - 4)) (parseGroup isAlnum (f + 1) re st ix d) := by
  have hR := Rb_ge d
  have hb0 : isBoundary re ix = true := isBoundary_of_ascii hg (by decide)
  have hix := isBoundary_le hb0
  unfold parseGroup
  refine GoodS.ite (fun _ => by simpa using hix) (fun hd => ?_)
  have hRs := Rb_succ hd
  have hM : M = Generated.maxRecursion := rfl
  refine GoodS.bind (goodS_optWs' hwf _ (hwf.step_ascii hg (by decide))) (fun ix1 h1 => ?_)
  refine GoodS.bind (goodS_sliceFrom _ h1.2) (fun _ _ => ?_)
  extract_lets body st2
  have hbody : ∀ la skip st', isBoundary re (ix1 + skip) = true →
      GoodS re (Node re ix (Rb d - 4)) (body la skip st') := by
    intro la skip st' hbs
    have hbsz := isBoundary_le hbs
    simp only [body]
    refine GoodS.bind (h.re_ st' (ix1 + skip) (d + 1) hbs (by omega)) (fun r hr => ?_)
    obtain ⟨ix2, child, st3⟩ := r
    obtain ⟨h2, h3, h4, _⟩ := hr
    try simp only at h2 h3 h4 ⊢
    refine GoodS.bind (goodS_checkForCloseParen hwf _ h3) (fun ix3 h5 => ?_)
    cases la with
    | some la => exact ⟨by (try simp only); omega, h5.2, by simp only [depth]; omega, by simp [lit1]⟩
    | none =>
      simp only
      refine GoodS.ite (fun _ => ?_) (fun _ => ?_)
      · exact ⟨by (try simp only); omega, h5.2, by simp only [depth]; omega, by simp [lit1]⟩
      · exact ⟨by (try simp only); omega, h5.2, by simp only [depth]; omega, by simp [lit1]⟩
  clear_value body
  cases hlook : lookOf re ix1 with
  | some p =>
    obtain ⟨la, skip⟩ := p
    simp only
    exact hbody _ _ _ (lookOf_boundary hwf h1.2 hlook)
  | none =>
    simp only
    -- (?<name>
    refine GoodS.ite (fun hs => ?_) (fun _ => ?_)
    · have hq : re[ix1]? = some (ch '?') := (startsWithAt_head hs).1
      have hb1 := hwf.step_ascii hq (by decide)
      refine GoodS.bind (goodS_sliceFrom _ hb1) (fun _ _ => ?_)
      refine GoodS.bind (goodS_parseId hwf isAlnum false hb1 (ascii1 _ (by decide)) (ascii1 _ (by decide))
        (by simp) (idChar_gt hal)) (fun r hr => ?_)
      cases r with
      | none => simpa using isBoundary_le h1.2
      | some p =>
        obtain ⟨a, b, skip⟩ := p
        have := (hr _ _ _ rfl).2
        simp only
        exact hbody _ _ _ (by rwa [show ix1 + (skip + 1) = ix1 + 1 + skip by omega])
    -- (?P<name>
    refine GoodS.ite (fun hs => ?_) (fun _ => ?_)
    · have hq : re[ix1]? = some (ch '?') := (startsWithAt_head hs).1
      have hP : re[ix1 + 1]? = some (ch 'P') := (startsWithAt_head (startsWithAt_head hs).2).1
      have hb2 := hwf.step_ascii hP (by decide)
      refine GoodS.bind (goodS_sliceFrom _ hb2) (fun _ _ => ?_)
      refine GoodS.bind (goodS_parseId hwf isAlnum false hb2 (ascii1 _ (by decide)) (ascii1 _ (by decide))
        (by simp) (idChar_gt hal)) (fun r hr => ?_)
      cases r with
      | none => simpa using isBoundary_le h1.2
      | some p =>
        obtain ⟨a, b, skip⟩ := p
        have := (hr _ _ _ rfl).2
        simp only
        exact hbody _ _ _ (by rwa [show ix1 + (skip + 2) = ix1 + 1 + 1 + skip by omega])
    -- (?P=name)
    refine GoodS.ite (fun hs => ?_) (fun _ => ?_)
    · have hb3 := startsWithAt_boundary hwf _ ix1 (by intro c hc; simp [ch] at hc; omega) hs h1.2
      exact (goodS_namedParen hwf hal st _ hb3).mono fun r hr =>
        (hr.node (by omega)).mono (by simp only [List.length_cons, List.length_nil]; omega) (Nat.le_refl _)
    -- (?>
    refine GoodS.ite (fun hs => ?_) (fun _ => ?_)
    · exact hbody _ _ _ (startsWithAt_boundary hwf _ ix1 (by intro c hc; simp [ch] at hc; omega) hs h1.2)
    -- (?(
    refine GoodS.ite (fun hs => ?_) (fun _ => ?_)
    · have hb3 := startsWithAt_boundary hwf _ ix1 (by intro c hc; simp [ch] at hc; omega) hs h1.2
      have hb3sz := isBoundary_le hb3
      simp only [List.length_cons, List.length_nil] at hb3sz
      exact (h.cond_ st _ (d + 1) hb3 (by simp only [List.length_cons, List.length_nil]; omega)).mono fun r hr =>
        hr.mono (by simp only [List.length_cons, List.length_nil]; omega) (by omega)
    -- (?P>name)
    refine GoodS.ite (fun hs => ?_) (fun _ => ?_)
    · have hb3 := startsWithAt_boundary hwf _ ix1 (by intro c hc; simp [ch] at hc; omega) hs h1.2
      exact (goodS_namedParen hwf hal st _ hb3).mono fun r hr =>
        (hr.node (by omega)).mono (by simp only [List.length_cons, List.length_nil]; omega) (Nat.le_refl _)
    -- (?flags
    refine GoodS.ite (fun hs => ?_) (fun _ => ?_)
    · have hq : re[ix1]? = some (ch '?') := (startsWithAt_head hs).1
      have h1sz := isBoundary_le h1.2
      exact (h.flags_ st ix1 (d + 1) hq (by omega)).mono fun r hr => hr.mono (by omega) (by omega)
    · exact hbody _ _ _ (by simpa using h1.2)

theorem step_parseFlags (hwf : WF re) {f : Nat} (h : Desc re isAlnum f)
    (st : PState) (ix d : Nat) (hg : re[ix]? = some (ch '?'))
    (hf : 2 * (re.size - ix) + 8 * (M - d) + 7 ≤ f + 1) :
    GoodS re (Node re ix (Rb d)) (parseFlags isAlnum (f + 1) re st ix d) := by
  have hR := Rb_ge d
  have hbs : isBoundary re (ix + 1) = true := hwf.step_ascii hg (by decide)
  unfold parseFlags
  refine GoodS.bind (goodS_flagsLoop hwf hbs (re.size + 2) st.flags (ix + 1) false (Nat.le_refl _) hbs
    (by omega)) (fun r hr => ?_)
  obtain ⟨e, fl⟩ := r
  try simp only at hr ⊢
  cases e with
  | close i =>
    obtain ⟨h1, h2⟩ := hr
    exact ⟨by (try simp only); omega, hwf.step_ascii h2 (by decide), by simp only [depth]; omega,
      by simp [lit1]⟩
  | colon i =>
    obtain ⟨h1, h2⟩ := hr
    simp only
    refine GoodS.bind (h.re_ _ (i + 1) d (hwf.step_ascii h2 (by decide)) (by omega)) (fun r hr => ?_)
    obtain ⟨ix2, child, st2⟩ := r
    obtain ⟨h3, h4, h5, hl⟩ := hr
    try simp only at h3 h4 h5 hl ⊢
    refine GoodS.ite (fun _ => by simpa using isBoundary_le h4) (fun hne => ?_)
    refine GoodS.bind (goodS_byteAt _ (lt_of_ne_size h4 hne)) (fun b hb => ?_)
    refine GoodS.ite (fun _ => by simpa using isBoundary_le h4) (fun hc => ?_)
    have : b = ch ')' := by simpa using hc
    subst this
    exact ⟨by (try simp only); omega, hwf.step_ascii hb (by decide), h5, hl⟩

theorem step_parseConditional (hwf : WF re) (hal : AlnumOK isAlnum) {f : Nat} (h : Desc re isAlnum f)
    (st : PState) (ix d : Nat) (hb : isBoundary re ix = true)
    (hf : 2 * (re.size - ix) + 8 * (M - d) + 7 ≤ f + 1) :
    GoodS re (Node re ix (Rb d + 1)) (parseConditional isAlnum (f + 1) re st ix d) := by
  have hR := Rb_ge d
  have hix := isBoundary_le hb
  unfold parseConditional
  refine GoodS.ite (fun _ => by simpa using hix) (fun hge => ?_)
  refine GoodS.bind (goodS_byteAt _ (by omega)) (fun b hbyte => ?_)
  refine GoodS.bind (P := Node re ix (Rb d)) ?_ (fun r hr => ?_)
  · refine GoodS.ite (fun _ => ?_) (fun _ => ?_)
    · exact (goodS_parseNumberedBackref hwf st hb _).mono fun r hr => hr.node (by omega)
    refine GoodS.ite (fun _ => ?_) (fun _ => ?_)
    · exact (goodS_namedQuote hwf hal st _ hb).mono fun r hr => hr.node (by omega)
    refine GoodS.ite (fun _ => ?_) (fun _ => ?_)
    · exact (goodS_namedAngle hwf hal st _ hb).mono fun r hr => hr.node (by omega)
    · exact h.re_ st ix d hb (by omega)
  obtain ⟨next, condition, st1⟩ := r
  obtain ⟨h1, h2, h3, hl⟩ := hr
  try simp only at h1 h2 h3 hl ⊢
  refine GoodS.bind (goodS_checkForCloseParen hwf _ h2) (fun next2 h4 => ?_)
  refine GoodS.bind (h.re_ st1 next2 d h4.2 (by omega)) (fun r hr => ?_)
  obtain ⟨end_, child, st2⟩ := r
  obtain ⟨h5, h6, h7, hl2⟩ := hr
  try simp only at h5 h6 h7 hl2 ⊢
  refine GoodS.ite (fun _ => ?_) (fun _ => ?_)
  · -- `(?(1))`
    split
    · refine GoodS.bind (goodS_checkForCloseParen hwf _ h6) (fun after h8 => ?_)
      exact ⟨by (try simp only); omega, h8.2, by simp only [depth]; omega, by simp [lit1]⟩
    · simpa using isBoundary_le h6
  · refine GoodS.bind (P := fun br => depth br.1 ≤ Rb d ∧ depth br.2 ≤ Rb d) ?_ (fun br hbr => ?_)
    · split
      · -- `Expr::Alt(alternatives) if has_else`
        rename_i alternatives _
        simp only [depth] at h7
        cases alternatives with
        | nil => exact absurd rfl hl2
        | cons t rest =>
          simp only [depthList] at h7
          simp only
          split
          · rename_i e
            simp only [depthList] at h7
            exact ⟨by (try simp only); omega, by (try simp only); omega⟩
          · exact ⟨by (try simp only); omega, by simp only [depth]; omega⟩
      · exact ⟨h7, by simp only [depth]; omega⟩
    · refine GoodS.bind (goodS_checkForCloseParen hwf _ h6) (fun after h8 => ?_)
      refine GoodS.ite (fun _ => ?_) (fun _ => ?_)
      · refine ⟨by (try simp only); omega, h8.2, ?_, ?_⟩
        · (try simp only)
          split
          · simp only [depth]; omega
          · omega
        · (try simp only)
          split
          · simp [lit1]
          · exact hl
      · refine ⟨by (try simp only); omega, h8.2, ?_, by simp [lit1]⟩
        simp only [depth]
        split
        · simp only [depth]; omega
        · omega

/-- the invariant of the recursive descent, for every fuel -/
theorem desc (hwf : WF re) (hal : AlnumOK isAlnum) : ∀ f, Desc re isAlnum f := by
  intro f
  induction f with
  | zero =>
    constructor
    · intro st ix d _ hf; omega
    · intro st ix d _ hf; omega
    · intro st ix d _ hf; omega
    · intro st ix d _ hf; omega
    · intro st ix d _ hf; omega
    · intro st ix d _ hf; omega
    · intro st ix d _ hf; omega
    · intro st ix d _ hf; omega
    · intro st ix d _ hf; omega
  | succ f ih =>
    exact {
      re_ := step_parseRe hwf ih
      alt_ := step_reAltLoop hwf ih
      branch_ := step_parseBranch hwf ih
      bloop_ := step_branchLoop hwf ih
      piece_ := step_parsePiece hwf ih
      atom_ := step_parseAtom hwf hal ih
      group_ := step_parseGroup hwf hal ih
      flags_ := step_parseFlags hwf ih
      cond_ := step_parseConditional hwf hal ih }

/-- the whole parser on well-formed bytes -/
theorem good_parseBytes (hwf : WF re) (hal : AlnumOK isAlnum) (casei : Bool) :
    GoodS re (fun t => depth t.expr ≤ 5 * Generated.maxRecursion + 6)
      (parseBytes isAlnum re casei) := by
  unfold parseBytes
  have h := (desc hwf hal (descentFuel re.size)).re_
    { flags := { casei := casei } } 0 0 (isBoundary_zero re)
    (by have hM : M = Generated.maxRecursion := rfl
        simp only [descentFuel]; omega)
  simp only
  cases hres : parseRe isAlnum (descentFuel re.size) re { flags := { casei := casei } } 0 0 with
  | ok r =>
    rw [hres] at h
    obtain ⟨ix, e, st⟩ := r
    obtain ⟨_, h2, h3, _⟩ := h
    simp only at h2 h3 ⊢
    split
    · simpa using isBoundary_le h2
    · simpa [Rb, M] using h3
  | err k p => rw [hres] at h; exact h
  | cerr => trivial
  | panic s => rw [hres] at h; exact h.elim
  | outOfFuel => rw [hres] at h; exact h.elim

/-- **C06_error_pos**: whatever the pattern, a reported parse-error position is at most the
    length of the pattern (in bytes) -/
theorem C06_error_pos (isAlnum : Char → Bool) (hal : AlnumOK isAlnum) (cs : List Char)
    (casei : Bool) (k : PErr) (p : Nat) (h : parseStr isAlnum cs casei = .err k p) :
    p ≤ (bytesOf cs).size :=
  (good_parseBytes (WF_bytesOf cs) hal casei).good.err_pos h

/-- **C06_parse_no_panic**: on every string (valid UTF-8 by construction) no panic site of the
    parser is reached: no slice off a character boundary or out of range, no index out of range,
    no failing `unwrap`/`expect`/`remove(0)`, no `next - 1` underflow, no failing `debug_assert` -/
theorem C06_parse_no_panic (isAlnum : Char → Bool) (hal : AlnumOK isAlnum) (cs : List Char)
    (casei : Bool) (site : String) : parseStr isAlnum cs casei ≠ .panic site :=
  (good_parseBytes (WF_bytesOf cs) hal casei).good.not_panic site

/-- **C06_depth**: the tree of a pattern that parses is at most `5·MAX_RECURSION + 6` deep, so
    the recursions of the analyzer, the compiler and `to_str` over it are bounded -/
theorem C06_depth (isAlnum : Char → Bool) (hal : AlnumOK isAlnum) (cs : List Char)
    (casei : Bool) (t : Tree) (h : parseStr isAlnum cs casei = .ok t) :
    depth t.expr ≤ 5 * Generated.maxRecursion + 6 :=
  (good_parseBytes (WF_bytesOf cs) hal casei).good.ok_val h

/-- **C06_parse_total**: the fuel `parse` gives the descent (`4·len + 16·MAX_RECURSION + 64`) is
    never exhausted: with `C06_parse_no_panic`, parsing any string ends with `Ok` or `Err` -/
theorem C06_parse_total (isAlnum : Char → Bool) (hal : AlnumOK isAlnum) (cs : List Char)
    (casei : Bool) : parseStr isAlnum cs casei ≠ .outOfFuel := by
  intro e
  have h := good_parseBytes (isAlnum := isAlnum) (WF_bytesOf cs) hal casei
  unfold parseStr at e
  rw [e] at h
  exact h

/-- the same four facts for any well-formed byte array -/
theorem C06_parseBytes (isAlnum : Char → Bool) (hal : AlnumOK isAlnum) (re : Bytes) (hwf : WF re)
    (casei : Bool) :
    (∀ k p, parseBytes isAlnum re casei = .err k p → p ≤ re.size) ∧
    (∀ s, parseBytes isAlnum re casei ≠ .panic s) ∧
    (∀ t, parseBytes isAlnum re casei = .ok t → depth t.expr ≤ 5 * Generated.maxRecursion + 6) ∧
    parseBytes isAlnum re casei ≠ .outOfFuel :=
  ⟨fun _ _ h => (good_parseBytes hwf hal casei).good.err_pos h,
   fun s => (good_parseBytes hwf hal casei).good.not_panic s,
   fun _ h => (good_parseBytes hwf hal casei).good.ok_val h,
   fun e => by
     have h := good_parseBytes (isAlnum := isAlnum) hwf hal casei
     rw [e] at h; exact h⟩

/-- an `is_alphanumeric` satisfying the assumption (the ASCII one; the table of the driver, which
    is compared with `char::is_alphanumeric` on every run, agrees with it on ASCII) -/
example : AlnumOK (fun c => c.isAlphanum) := ⟨by decide, by decide, by decide⟩

/-- (for the examples) the outcome is an error at position `p` -/
def isErrAt (r : Res Tree) (p : Nat) : Bool := match r with | .err _ q => q == p | _ => false
/-- (for the examples) the outcome is a tree of depth `d` -/
def isOkDepth (r : Res Tree) (d : Nat) : Bool := match r with | .ok t => depth t.expr == d | _ => false

-- `a(b`: the error position 3 is the length; `(?#\`: the position is the length, not beyond it;
-- `(é|b)*\1` parses to a tree of depth 5 (concat, repeat, group, alt, literal)
example : isErrAt (parseStr (fun c => c.isAlphanum) "a(b".toList false) 3 = true := by decide +kernel
example : isErrAt (parseStr (fun c => c.isAlphanum) "(?#\\".toList false) 4 = true := by decide +kernel
example : isOkDepth (parseStr (fun c => c.isAlphanum) "(é|b)*\\1".toList false) 5 = true := by
  decide +kernel

-- `\\x41` → the literal `A`; `(?i:` → the loop stops at the colon with the flag set
example : parseHex #[92, 120, 52, 49] {} 2 2 = .ok (4, .literal ['A'] false) := by rfl
example : flagsLoop 6 #[40, 63, 105, 58] {} 2 2 false = .ok (.colon 3, { casei := true }) := by rfl
example : WF (bytesOf "a{2,3}".toList) ∧ (bytesOf "a{2,3}".toList)[1]? = some (ch '{') :=
  ⟨WF_bytesOf _, by decide⟩

end Fancy.Parse
