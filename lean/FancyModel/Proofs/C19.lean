import FancyModel.Proofs.C03
/-!
# C19 — equivalent spellings of a pattern behave identically

Spellings whose *trees* are the same (comments and free-spacing whitespace, named vs numbered
groups and references, scoped vs inline flags, escape spellings, possessive vs atomic) are decided
by tree equality on the explored space (the recursive-descent parser is not modelled; the harness
predicts the tree from its own AST and compares). What is proved here are the spellings whose trees
legitimately differ but whose reference semantics coincide, for all contexts and states:

* a one-element concatenation or alternation is its element (`(?:a)` vs `a`);
* nested concatenations flatten (`a(?:bc)` vs `abc`), nested alternations flatten (`a|(?:b|c)`);
* an empty expression in a concatenation is neutral (what a dropped `(?#…)` comment, an inline
  flag group `(?i)` or free-spacing whitespace leaves behind);
* `x{1}` is `x`, `x{0}` and `x{0,0}` are empty.
-/
namespace Fancy

theorem C19_singleton_concat (c : Ctx) (e : Expr) (st : St) : sem c (.concat [e]) st = sem c e st := by
  simp only [sem, semConcat]
  exact flatMap_semConcat_nil c _

theorem C19_singleton_alt (c : Ctx) (e : Expr) (st : St) : sem c (.alt [e]) st = sem c e st := by
  simp [sem, semAlt]

theorem semConcat_as_concat (c : Ctx) (es : List Expr) (st : St) : sem c (.concat es) st = semConcat c es st := by
  simp [sem]

/-- nested concatenation flattens -/
theorem C19_flatten_concat (c : Ctx) (pre inner post : List Expr) (st : St) :
    sem c (.concat (pre ++ .concat inner :: post)) st = sem c (.concat (pre ++ inner ++ post)) st := by
  simp only [sem]
  rw [semConcat_append, List.append_assoc, semConcat_append]
  congr 1
  funext r
  simp only [semConcat, sem]
  rw [semConcat_append]

/-- nested alternation flattens -/
theorem C19_flatten_alt (c : Ctx) (pre inner post : List Expr) (st : St) :
    sem c (.alt (pre ++ .alt inner :: post)) st = sem c (.alt (pre ++ inner ++ post)) st := by
  simp only [sem, semAlt_append, semAlt, List.append_assoc]

/-- an empty expression in a concatenation is neutral -/
theorem C19_empty_neutral (c : Ctx) (pre post : List Expr) (st : St) :
    sem c (.concat (pre ++ .empty :: post)) st = sem c (.concat (pre ++ post)) st := by
  simp only [sem]
  rw [semConcat_append, semConcat_append]
  congr 1
  funext r
  simp [semConcat, sem]

/-- `x{0}` matches the empty string once -/
theorem C19_repeat_zero (c : Ctx) (e : Expr) (greedy : Bool) (st : St) :
    sem c (.repeat e 0 (some 0) greedy) st = [st] := by
  simp [sem, repLoop]

/-- `x{1}` is `x` -/
theorem C19_repeat_one (c : Ctx) (e : Expr) (greedy : Bool) (st : St) :
    sem c (.repeat e 1 (some 1) greedy) st = sem c e st := by
  simp only [sem]
  have h2 : ∀ fuel (r : St), repLoop (sem c e) 1 (some 1) greedy (fuel + 1) 1 r = [r] := by
    intro fuel r; simp [repLoop]
  have : max 1 ((some 1 : Option Nat).getD 0) + c.len + 2 = (c.len + 1) + 1 + 1 := by simp; omega
  rw [this]
  simp only [repLoop, Option.some.injEq, Nat.zero_ne_one, ↓reduceIte, Option.isNone_some, Bool.false_and,
    Bool.false_eq_true, Nat.lt_add_one, Nat.zero_add]
  have : ∀ l : List St, (l.flatMap fun r => repLoop (sem c e) 1 (some 1) greedy (c.len + 1 + 1) 1 r) = l := by
    intro l
    induction l with
    | nil => rfl
    | cons a as ih => simp [h2 (c.len + 1) a, ih]
  exact this _

end Fancy
