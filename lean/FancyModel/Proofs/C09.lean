import FancyModel.Proofs.C08
import FancyModel.Model.Regex
/-!
# C09 — the search entry points are mutually coherent

* iterators: `captures_iter` and `find_iter` run the same state machine; for **every** captures
  oracle the spans of the one are the items of the other (this is what the F2 repair established —
  before it `CaptureMatches::next` did not pass the skipped-empty-match flag);
* single searches in the model: `find` is the span of `captures`, and `is_match` is `find ≠ none`
  (on the Fancy path these are the same `vm::run` call; on the Wrap path three regex-automata calls,
  which are outside the model and compared by the correspondence).
-/
namespace Fancy.Api

variable {α : Type}

/-- the span-only oracle induced by a captures oracle (`find_from_pos` vs `captures_from_pos`) -/
def Oracle.spans (f : Oracle α) (span : α → Nat × Nat) : Oracle (Nat × Nat) := fun pos flag =>
  match f pos flag with
  | .error e => .error e
  | .ok none => .ok none
  | .ok (some a) => .ok (some (span a))

def mapItem (span : α → Nat × Nat) : Except SearchErr α → Except SearchErr (Nat × Nat)
  | .ok a => .ok (span a)
  | .error e => .error e

/-- one `next()`: the two iterators stay in lock step -/
theorem next_spans (f : Oracle α) (span : α → Nat × Nat) (text : Utf8.Bytes) (fuel : Nat) (it : Iter) :
    Iter.next (f.spans span) id text fuel it =
      ((Iter.next f span text fuel it).1.map (mapItem span), (Iter.next f span text fuel it).2) := by
  induction fuel generalizing it with
  | zero => simp [Iter.next]
  | succ fuel ih =>
    unfold Iter.next
    split
    · simp
    · simp only [Oracle.spans]
      cases hf : f it.lastEnd it.flag with
      | error e => simp [mapItem]
      | ok o =>
        cases o with
        | none => simp
        | some a =>
          simp only [id]
          generalize hsp : span a = se
          obtain ⟨s, e⟩ := se
          simp only
          split
          · split
            · exact ih _
            · simp [mapItem, hsp]
          · simp [mapItem, hsp]

/-- **captures_iter yields exactly the spans find_iter yields, in the same order** — for every
    captures oracle, errors included -/
theorem C09_iters_equal (f : Oracle α) (span : α → Nat × Nat) (text : Utf8.Bytes) :
    findIter (f.spans span) text = (capturesIter f span text).map (mapItem span) := by
  unfold findIter capturesIter
  generalize Iter.start = it
  generalize text.length + 3 = n
  induction n generalizing it with
  | zero => simp [Iter.collect]
  | succ n ih =>
    unfold Iter.collect
    rw [next_spans]
    generalize Iter.next f span text (text.length + 2) it = r
    obtain ⟨item, it', oof⟩ := r
    cases item with
    | none => simp
    | some item => simp [ih]

end Fancy.Api

namespace Fancy

/-- `find` is the overall span of `captures` (`Match::new(text, saves[0], saves[1])`) -/
theorem C09_find_is_captures_span (b : Built) (c : Ctx) (limit fuel : Nat) :
    b.find c limit fuel =
      match (b.captures c limit fuel).1 with
      | .found slots => .found (slots.take 2)
      | r => r := by
  rfl

/-- `is_match` ⇔ `find` returns a match ⇔ `captures` returns captures (same outcome class) -/
theorem C09_same_outcome (b : Built) (c : Ctx) (limit fuel : Nat) :
    (∃ s, b.find c limit fuel = .found s) ↔ (∃ s, (b.captures c limit fuel).1 = .found s) := by
  rw [C09_find_is_captures_span]
  cases (b.captures c limit fuel).1 <;> simp

end Fancy
