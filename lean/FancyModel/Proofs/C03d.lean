import FancyModel.GeneratedCompile
import FancyModel.Proofs.C13c
import FancyModel.Lemmas.CompileLen
/-!
# C03 / C01 (translator part) — the compiler model is the compiler

`GeneratedCompile.lean` is src/compile.rs (`VMBuilder`, `Compiler`, `DelegateBuilder`, `compile`) translated
statement by statement by `tools/rs2lean_compile.py` on every run of the check: a one-pass builder that
appends instructions and back-patches jump targets. `Model/Compile.lean` is the hand-written pure compiler
with absolute addresses which all engine theorems are about. This file proves them equal.
-/
namespace Fancy
open GenAnalyze GenCompile

/-! ## the domain -/

mutual
/-- what the equality needs of the expression compiled with the analyzer's counter at `g`:
    groups carry the analyzer's numbers (`numbered`), alternations are non-empty (`analyzable`), and no
    repeat has the upper bound `some usize::MAX` (on the Rust side that value *is* "unbounded") -/
def domAt : Expr → Nat → Bool
  | .group k c, g => k == g && domAt c (g + 1)
  | .concat es, g => domAtList es g
  | .alt es, g => !es.isEmpty && domAtList es g
  | .look c _, g => domAt c g
  | .repeat c _ hi _, g => hi != some UNSET && domAt c g
  | .atomic c, g => domAt c g
  | .cond c y n, g => domAt c g && domAt y (g + groupCount c) && domAt n (g + groupCount c + groupCount y)
  | _, _ => true
def domAtList : List Expr → Nat → Bool
  | [], _ => true
  | e :: es, g => domAt e g && domAtList es (g + groupCount e)
end

mutual
theorem renumber_of_domAt : ∀ (e : Expr) (g : Nat), domAt e g = true → (renumber e g).1 = e
  | .group k c, g, h => by
    simp only [domAt, Bool.and_eq_true, beq_iff_eq] at h
    simp only [renumber, renumber_of_domAt c (g + 1) h.2, h.1]
  | .concat es, g, h => by
    simp only [domAt] at h; simp only [renumber, renumberList_of_domAtList es g h]
  | .alt es, g, h => by
    simp only [domAt, Bool.and_eq_true] at h; simp only [renumber, renumberList_of_domAtList es g h.2]
  | .look c la, g, h => by
    simp only [domAt] at h; simp only [renumber, renumber_of_domAt c g h]
  | .repeat c lo hi gr, g, h => by
    simp only [domAt, Bool.and_eq_true] at h; simp only [renumber, renumber_of_domAt c g h.2]
  | .atomic c, g, h => by
    simp only [domAt] at h; simp only [renumber, renumber_of_domAt c g h]
  | .cond c y n, g, h => by
    simp only [domAt, Bool.and_eq_true] at h
    simp only [renumber, renumber_snd, renumber_of_domAt c g h.1.1, renumber_of_domAt y _ h.1.2,
      renumber_of_domAt n _ h.2]
  | .empty, _, _ | .any _, _, _ | .assertion _, _, _ | .literal _ _, _, _ | .delegate _ _ _, _, _
  | .backref _, _, _ | .keepOut, _, _ | .contPrev, _, _ | .backrefExists _, _, _ | .subroutine _, _, _ => by
    simp [renumber]
theorem renumberList_of_domAtList : ∀ (es : List Expr) (g : Nat), domAtList es g = true → (renumberList es g).1 = es
  | [], _, _ => by simp [renumberList]
  | e :: es, g, h => by
    simp only [domAtList, Bool.and_eq_true] at h
    simp only [renumberList, renumber_snd, renumber_of_domAt e g h.1, renumberList_of_domAtList es _ h.2]
end

/-- under `domAt`, the analyzer's `hard` is the model's `isHard` of the expression itself -/
theorem mkInfo_hard_dom (br : Nat → Bool) (e : Expr) (g : Nat) (h : domAt e g = true) :
    (mkInfo br e g).hard = isHard br e := by
  rw [mkInfo_hard, hardAt, renumber_of_domAt e g h]

/-! ## the `Info` tree of the model -/

@[simp] theorem mkInfo_children_group (br : Nat → Bool) (k : Nat) (c : Expr) (g : Nat) :
    (mkInfo br (.group k c) g).children = [mkInfo br c (g + 1)] := by simp [mkInfo, node]
@[simp] theorem mkInfo_children_concat (br : Nat → Bool) (es : List Expr) (g : Nat) :
    (mkInfo br (.concat es) g).children = mkInfoList br es g := by simp [mkInfo, node]
@[simp] theorem mkInfo_children_alt (br : Nat → Bool) (es : List Expr) (g : Nat) :
    (mkInfo br (.alt es) g).children = mkInfoList br es g := by simp [mkInfo, node]
@[simp] theorem mkInfo_children_look (br : Nat → Bool) (c : Expr) (la : Look) (g : Nat) :
    (mkInfo br (.look c la) g).children = [mkInfo br c g] := by simp [mkInfo, node]
@[simp] theorem mkInfo_children_repeat (br : Nat → Bool) (c : Expr) (lo : Nat) (hi : Option Nat) (gr : Bool) (g : Nat) :
    (mkInfo br (.repeat c lo hi gr) g).children = [mkInfo br c g] := by simp [mkInfo, node]
@[simp] theorem mkInfo_children_atomic (br : Nat → Bool) (c : Expr) (g : Nat) :
    (mkInfo br (.atomic c) g).children = [mkInfo br c g] := by simp [mkInfo, node]
@[simp] theorem mkInfo_children_cond (br : Nat → Bool) (c y n : Expr) (g : Nat) :
    (mkInfo br (.cond c y n) g).children =
      [mkInfo br c g, mkInfo br y (g + groupCount c), mkInfo br n (g + groupCount c + groupCount y)] := by
  simp [mkInfo, node]

@[simp] theorem mkInfoList_length (br : Nat → Bool) : ∀ (es : List Expr) (g : Nat), (mkInfoList br es g).length = es.length
  | [], _ => by simp [mkInfoList]
  | e :: es, g => by simp [mkInfoList, mkInfoList_length br es]

theorem mkInfoList_append (br : Nat → Bool) : ∀ (a b : List Expr) (g : Nat),
    mkInfoList br (a ++ b) g = mkInfoList br a g ++ mkInfoList br b (g + groupCountList a)
  | [], b, g => by simp [mkInfoList, groupCountList]
  | e :: a, b, g => by
    simp only [List.cons_append, mkInfoList, groupCountList, mkInfoList_append br a b, Nat.add_assoc]

theorem mkInfoList_take (br : Nat → Bool) (es : List Expr) (g k : Nat) :
    (mkInfoList br es g).take k = mkInfoList br (es.take k) g := by
  have h := mkInfoList_append br (es.take k) (es.drop k) g
  rw [List.take_append_drop] at h
  by_cases hk : k ≤ es.length
  · rw [h, List.take_left' (by simp [Nat.min_eq_left hk])]
  · have hk' : es.length ≤ k := by omega
    rw [List.take_of_length_le (by simpa using hk'), List.take_of_length_le hk']

theorem mkInfoList_drop (br : Nat → Bool) (es : List Expr) (g k : Nat) :
    (mkInfoList br es g).drop k = mkInfoList br (es.drop k) (g + groupCountList (es.take k)) := by
  have h := mkInfoList_append br (es.take k) (es.drop k) g
  rw [List.take_append_drop] at h
  by_cases hk : k ≤ es.length
  · rw [h, List.drop_left' (by simp [Nat.min_eq_left hk])]
  · have hk' : es.length ≤ k := by omega
    rw [List.drop_of_length_le (by simpa using hk'), List.drop_of_length_le hk']; simp [mkInfoList]

theorem domAtList_append : ∀ (a b : List Expr) (g : Nat),
    domAtList (a ++ b) g = (domAtList a g && domAtList b (g + groupCountList a))
  | [], b, g => by simp [domAtList, groupCountList]
  | e :: a, b, g => by
    simp only [List.cons_append, domAtList, groupCountList, domAtList_append a b, Nat.add_assoc, Bool.and_assoc]

theorem domAtList_take (es : List Expr) (g k : Nat) (h : domAtList es g = true) : domAtList (es.take k) g = true := by
  have := domAtList_append (es.take k) (es.drop k) g
  rw [List.take_append_drop, h] at this
  simp only [Bool.true_eq, Bool.and_eq_true] at this; exact this.1

theorem domAtList_drop (es : List Expr) (g k : Nat) (h : domAtList es g = true) :
    domAtList (es.drop k) (g + groupCountList (es.take k)) = true := by
  have := domAtList_append (es.take k) (es.drop k) g
  rw [List.take_append_drop, h] at this
  simp only [Bool.true_eq, Bool.and_eq_true] at this; exact this.2

theorem groupCountList_append : ∀ (a b : List Expr), groupCountList (a ++ b) = groupCountList a + groupCountList b
  | [], b => by simp [groupCountList]
  | e :: a, b => by simp only [List.cons_append, groupCountList, groupCountList_append a b, Nat.add_assoc]

/-- a pointwise property of the children infos, read on the expressions -/
theorem map_mkInfoList (br : Nat → Bool) (p : GInfo → Bool) (q : Expr → Bool)
    (hpq : ∀ e g, domAt e g = true → p (mkInfo br e g) = q e) :
    ∀ (es : List Expr) (g : Nat), domAtList es g = true → (mkInfoList br es g).map p = es.map q
  | [], _, _ => by simp [mkInfoList]
  | e :: es, g, h => by
    simp only [domAtList, Bool.and_eq_true] at h
    simp only [mkInfoList, List.map_cons, hpq e g h.1, map_mkInfoList br p q hpq es _ h.2]

theorem takeWhile_length_of_map {α β : Type} (p : α → Bool) (q : β → Bool) :
    ∀ (l1 : List α) (l2 : List β), l1.map p = l2.map q → (l1.takeWhile p).length = (l2.takeWhile q).length
  | [], [], _ => rfl
  | [], _ :: _, h => by simp at h
  | _ :: _, [], h => by simp at h
  | a :: l1, b :: l2, h => by
    simp only [List.map_cons, List.cons.injEq] at h
    simp only [List.takeWhile_cons, h.1]
    cases q b <;> simp [takeWhile_length_of_map p q l1 l2 h.2]

/-! ## `is_literal`, `push_literal`, `compile_delegate(s)` -/

mutual
theorem is_literal_eq (br : Nat → Bool) : ∀ (e : Expr) (g : Nat), is_literal (mkInfo br e g) = isLiteral e
  | .concat es, g => by
    rw [is_literal]; simp only [mkInfo_expr, mkInfo_children_concat, isLiteral]
    exact is_literal_all_eq br es g
  | .literal v ci, g => by rw [is_literal]; simp [mkInfo_expr, isLiteral]
  | .empty, g | .any _, g | .assertion _, g | .alt _, g | .group _ _, g | .look _ _, g | .repeat _ _ _ _, g
  | .delegate _ _ _, g | .backref _, g | .atomic _, g | .keepOut, g | .contPrev, g | .backrefExists _, g
  | .cond _ _ _, g | .subroutine _, g => by rw [is_literal]; simp [mkInfo_expr, isLiteral]
theorem is_literal_all_eq (br : Nat → Bool) : ∀ (es : List Expr) (g : Nat),
    is_literal_all0 (mkInfoList br es g) = isLiteralAll es
  | [], _ => by simp only [mkInfoList]; rw [is_literal_all0]; simp [isLiteralAll]
  | e :: es, g => by
    simp only [mkInfoList]; rw [is_literal_all0]
    simp only [isLiteralAll, is_literal_eq br e g, is_literal_all_eq br es]
end

mutual
theorem push_literal_eq (br : Nat → Bool) : ∀ (e : Expr) (g : Nat) (buf : List Char), isLiteral e = true →
    push_literal (mkInfo br e g) buf = .ok (buf ++ pushLiteral e)
  | .concat es, g, buf, h => by
    rw [push_literal]; simp only [mkInfo_expr, mkInfo_children_concat, pushLiteral]
    simp only [isLiteral] at h
    rw [push_literal_loop_eq br es g buf h]
  | .literal v ci, g, buf, h => by rw [push_literal]; simp [mkInfo_expr, pushLiteral]
  | .empty, g, _, h | .any _, g, _, h | .assertion _, g, _, h | .alt _, g, _, h | .group _ _, g, _, h
  | .look _ _, g, _, h | .repeat _ _ _ _, g, _, h
  | .delegate _ _ _, g, _, h | .backref _, g, _, h | .atomic _, g, _, h | .keepOut, g, _, h | .contPrev, g, _, h
  | .backrefExists _, g, _, h
  | .cond _ _ _, g, _, h | .subroutine _, g, _, h => by simp [isLiteral] at h
theorem push_literal_loop_eq (br : Nat → Bool) : ∀ (es : List Expr) (g : Nat) (buf : List Char), isLiteralAll es = true →
    push_literal_loop0 (mkInfoList br es g) buf = .ok (buf ++ pushLiteralAll es)
  | [], _, buf, _ => by simp only [mkInfoList]; rw [push_literal_loop0]; simp [pushLiteralAll]
  | e :: es, g, buf, h => by
    simp only [isLiteralAll, Bool.and_eq_true] at h
    simp only [mkInfoList]; rw [push_literal_loop0]
    simp only [push_literal_eq br e g buf h.1, push_literal_loop_eq br es _ _ h.2, pushLiteralAll,
      List.append_assoc]
end

/-- a builder state -/
def st (prog : List Insn) (nsv : Nat) : Compiler := ⟨⟨prog, nsv⟩⟩

/-- the model's result, as the builder state it stands for -/
def lift (prog : List Insn) (r : CRes) : Except CErr Compiler :=
  match r with
  | .error err => .error (.compile err)
  | .ok (code, nsv') => .ok (st (prog ++ code) nsv')

@[simp] theorem lift_ok (prog code : List Insn) (n : Nat) : lift prog (.ok (code, n)) = .ok (st (prog ++ code) n) := rfl
@[simp] theorem lift_error (prog : List Insn) (e : CompileErr) : lift prog (.error e) = .error (.compile e) := rfl

@[simp] theorem add_st (prog : List Insn) (nsv : Nat) (i : Insn) :
    ({ b := (st prog nsv).b.add i } : Compiler) = st (prog ++ [i]) nsv := rfl
@[simp] theorem pc_st (prog : List Insn) (nsv : Nat) : (st prog nsv).b.pc = prog.length := rfl
@[simp] theorem newsave_st (prog : List Insn) (nsv : Nat) : (st prog nsv).b.newsave = (nsv, (st prog (nsv + 1)).b) := rfl
@[simp] theorem st_b_prog (prog : List Insn) (nsv : Nat) : (st prog nsv).b.prog = prog := rfl
@[simp] theorem st_b_n_saves (prog : List Insn) (nsv : Nat) : (st prog nsv).b.n_saves = nsv := rfl
@[simp] theorem add_st_b (prog : List Insn) (nsv : Nat) (i : Insn) : (st prog nsv).b.add i = (st (prog ++ [i]) nsv).b := rfl
@[simp] theorem mk_b_st (prog : List Insn) (nsv : Nat) : ({ b := { prog := prog, n_saves := nsv } } : Compiler) = st prog nsv := rfl
@[simp] theorem b_st_eta (prog : List Insn) (nsv : Nat) : ({ b := (st prog nsv).b } : Compiler) = st prog nsv := rfl

theorem compile_delegate_eq (br : Nat → Bool) (e : Expr) (g : Nat) (prog : List Insn) (nsv : Nat) :
    compile_delegate (mkInfo br e g) (st prog nsv) = .ok (st (prog ++ compileDelegate e g) nsv) := by
  unfold compile_delegate compileDelegate
  rw [is_literal_eq]
  by_cases h : isLiteral e = true
  · simp only [h, if_true, push_literal_eq br e g [] h, List.nil_append]; rfl
  · simp only [h, if_false, DelegateBuilder.build, DelegateBuilder.push, DelegateBuilder.new, compile_inner,
      to_str_push, mkInfo_expr, mkInfo_startGroup, mkInfo_endGroup, Option.isNone_none, if_true, List.nil_append]
    rfl

theorem compile_delegates_loop0_eq (br : Nat → Bool) : ∀ (es : List Expr) (g : Nat) (buf : List Char), isLiteralAll es = true →
    compile_delegates_loop0 (mkInfoList br es g) buf = .ok (buf ++ pushLiteralAll es)
  | [], _, buf, _ => by simp [mkInfoList, compile_delegates_loop0, pushLiteralAll]
  | e :: es, g, buf, h => by
    simp only [isLiteralAll, Bool.and_eq_true] at h
    simp only [mkInfoList, compile_delegates_loop0, push_literal_eq br e g buf h.1,
      compile_delegates_loop0_eq br es _ _ h.2, pushLiteralAll, List.append_assoc]

theorem compile_delegates_loop1_eq (br : Nat → Bool) : ∀ (es : List Expr) (g : Nat) (db : DelegateBuilder), es ≠ [] →
    (compile_delegates_loop1 (mkInfoList br es g) db).re = db.re ++ es ∧
    (compile_delegates_loop1 (mkInfoList br es g) db).start_group =
      (match db.start_group with | some s => some s | none => some g) ∧
    (compile_delegates_loop1 (mkInfoList br es g) db).end_group = g + groupCountList es
  | [], _, _, h => absurd rfl h
  | [e], g, db, _ => by
    simp only [mkInfoList, compile_delegates_loop1, DelegateBuilder.push, to_str_push, mkInfo_expr, mkInfo_startGroup,
      mkInfo_endGroup, groupCountList, Nat.add_zero]
    cases db.start_group <;> simp
  | e :: e2 :: es, g, db, _ => by
    have ih := compile_delegates_loop1_eq br (e2 :: es) (g + groupCount e) (db.push (mkInfo br e g)) (by simp)
    rw [mkInfoList, compile_delegates_loop1]
    refine ⟨?_, ?_, ?_⟩
    · rw [ih.1]; simp only [DelegateBuilder.push, to_str_push, mkInfo_expr]
      cases db.start_group <;> simp
    · rw [ih.2.1]; simp only [DelegateBuilder.push, mkInfo_startGroup]
      cases db.start_group <;> simp
    · rw [ih.2.2]; simp only [groupCountList]; omega

theorem is_literal_allOf (br : Nat → Bool) : ∀ (es : List Expr) (g : Nat),
    allOf (mkInfoList br es g) (fun e => is_literal e) = isLiteralAll es
  | [], _ => by simp [allOf, mkInfoList, isLiteralAll]
  | e :: es, g => by
    have := is_literal_allOf br es (g + groupCount e)
    simp only [allOf] at this
    simp only [allOf, mkInfoList, List.all_cons, is_literal_eq, isLiteralAll, this]

theorem compile_delegates_eq (br : Nat → Bool) (es : List Expr) (g : Nat) (prog : List Insn) (nsv : Nat) :
    compile_delegates (mkInfoList br es g) (st prog nsv) = .ok (st (prog ++ compileDelegates es g) nsv) := by
  unfold compile_delegates compileDelegates
  cases es with
  | nil => simp [mkInfoList]
  | cons e es =>
    have hne : (mkInfoList br (e :: es) g).isEmpty = false := by simp [mkInfoList]
    rw [hne, is_literal_allOf]
    simp only [Bool.false_eq_true, if_false, List.isEmpty_cons]
    by_cases h : isLiteralAll (e :: es) = true
    · simp only [h, if_true, compile_delegates_loop0_eq br (e :: es) g [] h, List.nil_append]; rfl
    · obtain ⟨h1, h2, h3⟩ := compile_delegates_loop1_eq br (e :: es) g DelegateBuilder.new (by simp)
      simp only [h, if_false, DelegateBuilder.build, h1, h2, h3, compile_inner]
      simp [DelegateBuilder.new]

/-! ## back-patching = emitting the final instruction -/

theorem getElem?_mid (P C : List Insn) (a : Insn) : (P ++ a :: C)[P.length]? = some a := by simp
theorem set_mid (P C : List Insn) (a b : Insn) : (P ++ a :: C).set P.length b = P ++ b :: C := by simp

theorem set_split_second (P C : List Insn) (x y t nsv : Nat) :
    (st (P ++ Insn.split x y :: C) nsv).b.set_split_target P.length t true = .ok (st (P ++ Insn.split x t :: C) nsv).b := by
  simp only [VMBuilder.set_split_target, st_b_prog, st_b_n_saves, getElem?_mid, set_mid, if_true]; rfl
theorem set_split_first (P C : List Insn) (x y t nsv : Nat) :
    (st (P ++ Insn.split x y :: C) nsv).b.set_split_target P.length t false = .ok (st (P ++ Insn.split t y :: C) nsv).b := by
  simp only [VMBuilder.set_split_target, st_b_prog, st_b_n_saves, getElem?_mid, set_mid, Bool.false_eq_true, if_false]; rfl
theorem set_jmp (P C : List Insn) (x t nsv : Nat) :
    (st (P ++ Insn.jmp x :: C) nsv).b.set_jmp_target P.length t = .ok (st (P ++ Insn.jmp t :: C) nsv).b := by
  simp only [VMBuilder.set_jmp_target, st_b_prog, st_b_n_saves, getElem?_mid, set_mid]; rfl
theorem set_repeatGr (P C : List Insn) (lo : Nat) (hi : Option Nat) (x r t nsv : Nat) :
    (st (P ++ Insn.repeatGr lo hi x r :: C) nsv).b.set_repeat_target P.length t =
      .ok (st (P ++ Insn.repeatGr lo hi t r :: C) nsv).b := by
  simp only [VMBuilder.set_repeat_target, st_b_prog, st_b_n_saves, getElem?_mid, set_mid]; rfl
theorem set_repeatNg (P C : List Insn) (lo : Nat) (hi : Option Nat) (x r t nsv : Nat) :
    (st (P ++ Insn.repeatNg lo hi x r :: C) nsv).b.set_repeat_target P.length t =
      .ok (st (P ++ Insn.repeatNg lo hi t r :: C) nsv).b := by
  simp only [VMBuilder.set_repeat_target, st_b_prog, st_b_n_saves, getElem?_mid, set_mid]; rfl
theorem set_repeatEpsGr (P C : List Insn) (lo x r c t nsv : Nat) :
    (st (P ++ Insn.repeatEpsGr lo x r c :: C) nsv).b.set_repeat_target P.length t =
      .ok (st (P ++ Insn.repeatEpsGr lo t r c :: C) nsv).b := by
  simp only [VMBuilder.set_repeat_target, st_b_prog, st_b_n_saves, getElem?_mid, set_mid]; rfl
theorem set_repeatEpsNg (P C : List Insn) (lo x r c t nsv : Nat) :
    (st (P ++ Insn.repeatEpsNg lo x r c :: C) nsv).b.set_repeat_target P.length t =
      .ok (st (P ++ Insn.repeatEpsNg lo t r c :: C) nsv).b := by
  simp only [VMBuilder.set_repeat_target, st_b_prog, st_b_n_saves, getElem?_mid, set_mid]; rfl

/-! ## the statement -/

/-- the translated `visit`, run on the model's `Info` tree of `e` from the builder state `⟨prog, nsv⟩`, is the
    model's `visit` at address `prog.length` -/
def Stmt (br : Nat → Bool) (e : Expr) : Prop :=
  ∀ (hard : Bool) (prog : List Insn) (nsv gix : Nat), domAt e gix = true → prog.length + codeBound e < UNSET →
    GenCompile.visit (mkInfo br e gix) hard (st prog nsv) = lift prog (Fancy.visit br e hard prog.length nsv gix)

theorem childAt_cons_zero (c : GInfo) (l : List GInfo) :
    childAt (c :: l) 0 = some ⟨c, sizeOf_lt_of_getElem? (l := c :: l) (i := 0) rfl⟩ := childAt_eq_some rfl

theorem match_except_id (x : Except CErr Compiler) :
    (match x with | .error err => .error err | .ok self => .ok self : Except CErr Compiler) = x := by cases x <;> rfl

/-- the common head of both sides: an easy sub-expression in a non-hard context is delegated -/
theorem stmt_of_hard (br : Nat → Bool) (e : Expr)
    (h : ∀ (hard : Bool) (prog : List Insn) (nsv gix : Nat), domAt e gix = true → prog.length + codeBound e < UNSET →
      (!hard && !isHard br e) = false →
      GenCompile.visit (mkInfo br e gix) hard (st prog nsv) = lift prog (Fancy.visit br e hard prog.length nsv gix)) :
    Stmt br e := by
  intro hard prog nsv gix hd hfit
  by_cases hh : (!hard && !isHard br e) = true
  · rw [GenCompile.visit, Fancy.visit.eq_def]
    simp only [mkInfo_hard_dom br e gix hd, hh, if_true, compile_delegate_eq, lift_ok]
  · exact h hard prog nsv gix hd hfit (by simpa using hh)

theorem stmt_empty (br : Nat → Bool) : Stmt br .empty := by
  apply stmt_of_hard; intro hard prog nsv gix hd hfit hh
  rw [GenCompile.visit, Fancy.visit]
  simp only [mkInfo_hard_dom br _ gix hd, hh, mkInfo_expr]
  simp

/-- leaves: unfold both sides, compare -/
macro "leaf_case" : tactic => `(tactic|
  (apply stmt_of_hard; intro hard prog nsv gix hd hfit hh
   rw [GenCompile.visit, Fancy.visit]
   simp only [mkInfo_hard_dom _ _ gix hd, hh, mkInfo_expr]
   simp [compile_delegate_eq]))

theorem stmt_any (br : Nat → Bool) (nl : Bool) : Stmt br (.any nl) := by cases nl <;> leaf_case
theorem stmt_assertion (br : Nat → Bool) (a : Assertion) : Stmt br (.assertion a) := by leaf_case
theorem stmt_literal (br : Nat → Bool) (v : List Char) (ci : Bool) : Stmt br (.literal v ci) := by
  cases ci <;> leaf_case
theorem stmt_delegate (br : Nat → Bool) (i : List Char) (sz : Nat) (ci : Bool) : Stmt br (.delegate i sz ci) := by leaf_case
theorem stmt_backref (br : Nat → Bool) (g : Nat) : Stmt br (.backref g) := by leaf_case
theorem stmt_backrefExists (br : Nat → Bool) (g : Nat) : Stmt br (.backrefExists g) := by leaf_case
theorem stmt_keepOut (br : Nat → Bool) : Stmt br .keepOut := by leaf_case
theorem stmt_contPrev (br : Nat → Bool) : Stmt br .contPrev := by leaf_case
theorem stmt_subroutine (br : Nat → Bool) (g : Nat) : Stmt br (.subroutine g) := by leaf_case

theorem stmt_group (br : Nat → Bool) (k : Nat) (c : Expr) (ih : Stmt br c) : Stmt br (.group k c) := by
  apply stmt_of_hard; intro hard prog nsv gix hd hfit hh
  have hH := mkInfo_hard_dom br _ gix hd; rw [mkInfo_hard] at hH
  rw [mkInfo_node, node, mkInfo_children_group, GenCompile.visit, Fancy.visit]
  dsimp only
  rw [childAt_cons_zero]
  simp only [hH, hh, add_st]
  simp only [domAt, Bool.and_eq_true, beq_iff_eq] at hd
  have hc := ih hard (prog ++ [.save (gix * 2)]) nsv (gix + 1) hd.2 (by simp [codeBound] at hfit ⊢; omega)
  simp only [List.length_append, List.length_singleton] at hc
  rw [hc]
  cases Fancy.visit br c hard (prog.length + 1) nsv (gix + 1) with
  | error err => simp
  | ok r => obtain ⟨code, n⟩ := r; simp [hd.1]

theorem stmt_atomic (br : Nat → Bool) (c : Expr) (ih : Stmt br c) : Stmt br (.atomic c) := by
  apply stmt_of_hard; intro hard prog nsv gix hd hfit hh
  have hH := mkInfo_hard_dom br _ gix hd; rw [mkInfo_hard] at hH
  rw [mkInfo_node, node, mkInfo_children_atomic, GenCompile.visit, Fancy.visit]
  dsimp only
  rw [childAt_cons_zero]
  simp only [hH, hh, add_st]
  simp only [domAt] at hd
  have hc := ih false (prog ++ [.beginAtomic]) nsv gix hd (by simp [codeBound] at hfit ⊢; omega)
  simp only [List.length_append, List.length_singleton] at hc
  rw [hc]
  cases Fancy.visit br c false (prog.length + 1) nsv gix with
  | error err => simp
  | ok r => obtain ⟨code, n⟩ := r; simp

/-! ## repeat -/

/-- closes equalities of builder states that differ in address arithmetic only -/
macro "arith_fin" : tactic => `(tactic| repeat' (first | rfl | omega | congr 1))

theorem UNSET_ne_one : (UNSET == 1) = false := by decide
theorem hiOpt_UNSET : hiOpt UNSET = none := by simp [hiOpt]
theorem hiOpt_of_ne {h : Nat} (hne : h ≠ UNSET) : hiOpt h = some h := by simp [hiOpt, hne]

attribute [local simp] set_split_second set_split_first set_jmp set_repeatGr set_repeatNg set_repeatEpsGr set_repeatEpsNg

theorem compile_repeat_eq (br : Nat → Bool) (c : Expr) (lo : Nat) (hi : Option Nat) (gr : Bool) (ih : Stmt br c)
    (hard : Bool) (prog : List Insn) (nsv gix : Nat) (hd : domAt (.repeat c lo hi gr) gix = true)
    (hfit : prog.length + codeBound (.repeat c lo hi gr) < UNSET)
    (hh : (!hard && !isHard br (.repeat c lo hi gr)) = false) :
    compile_repeat (mkInfo br (.repeat c lo hi gr) gix) lo (hiVal hi) gr hard (st prog nsv) =
      lift prog (Fancy.visit br (.repeat c lo hi gr) hard prog.length nsv gix) := by
  have hH := mkInfo_hard_dom br _ gix hd; rw [mkInfo_hard] at hH
  rw [mkInfo_node, node, mkInfo_children_repeat, compile_repeat, Fancy.visit]
  dsimp only
  rw [childAt_cons_zero]
  simp only [hH, hh, Bool.false_eq_true, if_false, pc_st, add_st, newsave_st, mkInfo_minSize]
  simp only [domAt, Bool.and_eq_true, bne_iff_ne, ne_eq] at hd
  have hfit' : ∀ k, k ≤ 3 → prog.length + k + codeBound c < UNSET := by
    intro k hk; simp only [codeBound] at hfit; omega
  have IH := fun (hard' : Bool) (pre : List Insn) (n : Nat) (hp : pre.length ≤ 3) =>
    ih hard' (prog ++ pre) n gix hd.2 (by rw [List.length_append]; exact hfit' _ hp)
  by_cases h1 : (lo == 0 && hi == some 1) = true
  · have h1' : (lo == 0 && hiVal hi == 1) = true := by
      simp only [Bool.and_eq_true, beq_iff_eq] at h1 ⊢; rw [h1.2]; exact ⟨h1.1, rfl⟩
    simp only [h1, h1', if_true]
    have hc := IH hard [.split (prog.length + 1) (prog.length + 1)] nsv (by simp)
    simp only [List.length_append, List.length_singleton] at hc
    rw [hc]
    cases Fancy.visit br c hard (prog.length + 1) nsv gix with
    | error err => simp
    | ok r =>
      obtain ⟨code, n⟩ := r
      cases gr <;> simp [Nat.add_assoc, Nat.add_comm, Nat.add_left_comm]
  · have h1f : (lo == 0 && hi == some 1) = false := Bool.eq_false_iff.mpr h1
    have h1' : (lo == 0 && hiVal hi == 1) = false := by
      rw [← h1f]; cases hi with
      | none => simp [hiVal, UNSET_ne_one]
      | some h => simp [hiVal]
    simp only [h1f, h1', Bool.false_eq_true, if_false]
    have hUN : (hiVal hi == USIZE_MAX) = (hi == none) := by
      cases hi with
      | none => simp [hiVal, USIZE_MAX]
      | some h => have : h ≠ UNSET := by simpa using hd.1
                  simp [hiVal, USIZE_MAX, this]
    have hOpt : hiOpt (hiVal hi) = hi := by
      cases hi with
      | none => simp [hiVal, hiOpt]
      | some h => have : h ≠ UNSET := by simpa using hd.1
                  simp [hiVal, hiOpt, this]
    rw [hUN, hOpt]
    generalize (hard || isHard br (.repeat c lo hi gr)) = hard'
    have IH2 : ∀ (L : List Insn) (n pc : Nat), L.length = pc → pc ≤ prog.length + 3 →
        GenCompile.visit (mkInfo br c gix) hard' (st L n) = lift L (Fancy.visit br c hard' pc n gix) := by
      intro L n pc h1 h2; subst h1
      exact ih hard' L n gix hd.2 (by simp only [codeBound] at hfit; omega)
    by_cases h2 : (hi == none && minSize c == 0) = true
    · simp only [h2, if_true, add_st_b, mk_b_st, pc_st]
      cases gr
      · simp only [Bool.false_eq_true, if_false]
        rw [IH2 _ _ (prog.length + 2) (by simp) (by omega)]
        cases Fancy.visit br c hard' (prog.length + 2) (nsv + 2) gix with
        | error err => simp
        | ok r =>
          obtain ⟨code, n⟩ := r
          simp [VMBuilder.set_repeat_target, List.set_append_right, Nat.add_assoc] <;> arith_fin
      · simp only [if_true]
        rw [IH2 _ _ (prog.length + 2) (by simp) (by omega)]
        cases Fancy.visit br c hard' (prog.length + 2) (nsv + 2) gix with
        | error err => simp
        | ok r =>
          obtain ⟨code, n⟩ := r
          simp [VMBuilder.set_repeat_target, List.set_append_right, Nat.add_assoc] <;> arith_fin
    · have h2f : (hi == none && minSize c == 0) = false := Bool.eq_false_iff.mpr h2
      simp only [h2f, Bool.false_eq_true, if_false]
      by_cases h3 : (lo == 0 && hi == none) = true
      · simp only [h3, if_true, add_st_b, mk_b_st, pc_st]
        rw [IH2 _ _ (prog.length + 1) (by simp) (by omega)]
        cases Fancy.visit br c hard' (prog.length + 1) nsv gix with
        | error err => simp
        | ok r =>
          obtain ⟨code, n⟩ := r
          cases gr <;>
            simp [VMBuilder.set_split_target, List.set_append_right, Nat.add_assoc] <;> arith_fin
      · have h3f : (lo == 0 && hi == none) = false := Bool.eq_false_iff.mpr h3
        simp only [h3f, Bool.false_eq_true, if_false]
        by_cases h4 : (lo == 1 && hi == none) = true
        · simp only [h4, if_true, add_st_b, mk_b_st, pc_st]
          rw [IH2 _ _ prog.length rfl (by omega)]
          cases Fancy.visit br c hard' prog.length nsv gix with
          | error err => simp
          | ok r =>
            obtain ⟨code, n⟩ := r
            cases gr <;> simp [Nat.add_assoc] <;> arith_fin
        · have h4f : (lo == 1 && hi == none) = false := Bool.eq_false_iff.mpr h4
          simp only [h4f, Bool.false_eq_true, if_false, add_st_b, mk_b_st, pc_st]
          cases gr
          · simp only [Bool.false_eq_true, if_false]
            rw [IH2 _ _ (prog.length + 2) (by simp) (by omega)]
            cases Fancy.visit br c hard' (prog.length + 2) (nsv + 1) gix with
            | error err => simp
            | ok r =>
              obtain ⟨code, n⟩ := r
              simp [VMBuilder.set_repeat_target, List.set_append_right, Nat.add_assoc] <;> arith_fin
          · simp only [if_true]
            rw [IH2 _ _ (prog.length + 2) (by simp) (by omega)]
            cases Fancy.visit br c hard' (prog.length + 2) (nsv + 1) gix with
            | error err => simp
            | ok r =>
              obtain ⟨code, n⟩ := r
              simp [VMBuilder.set_repeat_target, List.set_append_right, Nat.add_assoc] <;> arith_fin

theorem stmt_repeat (br : Nat → Bool) (c : Expr) (lo : Nat) (hi : Option Nat) (gr : Bool) (ih : Stmt br c) :
    Stmt br (.repeat c lo hi gr) := by
  apply stmt_of_hard; intro hard prog nsv gix hd hfit hh
  have key := compile_repeat_eq br c lo hi gr ih hard prog nsv gix hd hfit hh
  rw [GenCompile.visit]
  simp only [mkInfo_hard_dom br _ gix hd, hh, mkInfo_expr, Bool.false_eq_true, if_false, key]
  cases Fancy.visit br (.repeat c lo hi gr) hard prog.length nsv gix with
  | error err => simp
  | ok r => obtain ⟨code, n⟩ := r; simp

/-! ## concat -/

theorem visitMiddle_drop (br : Nat → Bool) : ∀ (es : List Expr) (a k pc nsv g : Nat),
    visitMiddle br es a k pc nsv g = visitMiddle br (es.drop a) 0 k pc nsv g
  | [], a, k, pc, nsv, g => by simp [visitMiddle]
  | e :: es, 0, k, pc, nsv, g => by simp
  | e :: es, a + 1, k, pc, nsv, g => by
    rw [visitMiddle, visitMiddle_drop br es a]; simp

theorem visitMiddle_take (br : Nat → Bool) : ∀ (l : List Expr) (k pc nsv g : Nat),
    visitMiddle br l 0 k pc nsv g = visitMiddle br (l.take k) 0 (l.take k).length pc nsv g
  | [], k, pc, nsv, g => by simp [visitMiddle]
  | e :: l, 0, pc, nsv, g => by simp [visitMiddle]
  | e :: l, k + 1, pc, nsv, g => by
    simp only [List.take_succ_cons, List.length_cons, visitMiddle]
    cases Fancy.visit br e true pc nsv g with
    | error err => rfl
    | ok r =>
      obtain ⟨c1, n1⟩ := r
      simp only
      rw [visitMiddle_take br l k]

theorem concat_loop_eq (br : Nat → Bool) : ∀ (ms : List Expr), (∀ e ∈ ms, Stmt br e) → ∀ (g : Nat) (prog : List Insn) (nsv : Nat),
    domAtList ms g = true → prog.length + codeBoundList ms < UNSET →
    compile_concat_loop0 (mkInfoList br ms g) (st prog nsv) = lift prog (visitMiddle br ms 0 ms.length prog.length nsv g)
  | [], _, g, prog, nsv, _, _ => by
    simp only [mkInfoList]; rw [compile_concat_loop0]; simp [visitMiddle]
  | e :: ms, hall, g, prog, nsv, hd, hfit => by
    simp only [domAtList, Bool.and_eq_true] at hd
    simp only [codeBoundList] at hfit
    simp only [mkInfoList]; rw [compile_concat_loop0]
    rw [hall e (by simp) true prog nsv g hd.1 (by omega)]
    simp only [List.length_cons, visitMiddle]
    cases hm : Fancy.visit br e true prog.length nsv g with
    | error err => simp
    | ok r =>
      obtain ⟨c1, n1⟩ := r
      have hl := visit_length_le br e true _ _ _ _ _ hm
      have ih := concat_loop_eq br ms (fun e' he' => hall e' (by simp [he'])) (g + groupCount e) (prog ++ c1) n1 hd.2
        (by rw [List.length_append]; omega)
      simp only [lift_ok, ih, List.length_append]
      cases visitMiddle br ms 0 ms.length (prog.length + c1.length) n1 (g + groupCount e) with
      | error err => simp
      | ok r => obtain ⟨c2, n2⟩ := r; simp

theorem length_takeWhile_le' {α : Type} (p : α → Bool) : ∀ (l : List α), (l.takeWhile p).length ≤ l.length
  | [] => by simp
  | a :: l => by
    simp only [List.takeWhile_cons]; cases p a <;> simp [length_takeWhile_le' p l]

theorem codeBoundList_append : ∀ (a b : List Expr), codeBoundList (a ++ b) = codeBoundList a + codeBoundList b
  | [], b => by simp [codeBoundList]
  | e :: a, b => by simp only [List.cons_append, codeBoundList, codeBoundList_append a b]; omega
theorem codeBoundList_take_le (l : List Expr) (k : Nat) : codeBoundList (l.take k) ≤ codeBoundList l := by
  have := codeBoundList_append (l.take k) (l.drop k); rw [List.take_append_drop] at this; omega
theorem codeBoundList_drop_le (l : List Expr) (k : Nat) : codeBoundList (l.drop k) ≤ codeBoundList l := by
  have := codeBoundList_append (l.take k) (l.drop k); rw [List.take_append_drop] at this; omega

theorem sliceFrom_eq {l : List GInfo} {a : Nat} (h : a ≤ l.length) :
    sliceFrom l a = some ⟨l.drop a, sizeOf_drop_le l a⟩ := by simp [sliceFrom, h]
theorem sliceTo_eq {l : List GInfo} {b : Nat} (h : b ≤ l.length) :
    sliceTo l b = some ⟨l.take b, sizeOf_take_le l b⟩ := by simp [sliceTo, h]
theorem sliceRange_eq {l : List GInfo} {a b : Nat} (h : a ≤ b ∧ b ≤ l.length) :
    sliceRange l a b = some ⟨(l.take b).drop a, Nat.le_trans (sizeOf_drop_le _ a) (sizeOf_take_le l b)⟩ := by
  simp [sliceRange, h]

theorem revTakeWhileCount_drop (br : Nat → Bool) (p : GInfo → Bool) (q : Expr → Bool)
    (hpq : ∀ e g, domAt e g = true → p (mkInfo br e g) = q e) (es : List Expr) (g a : Nat) (hd : domAtList es g = true) :
    revTakeWhileCount ((mkInfoList br es g).drop a) p = ((es.drop a).reverse.takeWhile q).length := by
  unfold revTakeWhileCount
  apply takeWhile_length_of_map
  rw [List.map_reverse, List.map_reverse, List.map_drop, List.map_drop, map_mkInfoList br p q hpq es g hd]

theorem compile_concat_eq (br : Nat → Bool) (es : List Expr) (ih : ∀ e ∈ es, Stmt br e)
    (hard : Bool) (prog : List Insn) (nsv gix : Nat) (hd : domAt (.concat es) gix = true)
    (hfit : prog.length + codeBound (.concat es) < UNSET)
    (hh : (!hard && !isHard br (.concat es)) = false) :
    compile_concat (mkInfo br (.concat es) gix) hard (st prog nsv) =
      lift prog (Fancy.visit br (.concat es) hard prog.length nsv gix) := by
  rw [mkInfo_node, node, mkInfo_children_concat, compile_concat, Fancy.visit]
  dsimp only
  simp only [hh, Bool.false_eq_true, if_false, concatSplit]
  simp only [domAt] at hd
  have hp1 : ∀ e g, domAt e g = true →
      (fun c : GInfo => c.constSize && !c.hard) (mkInfo br e g) = (fun c : Expr => constSize c && !isHard br c) e := by
    intro e g h; simp only [mkInfo_constSize, mkInfo_hard_dom br e g h]
  have hp2 : ∀ e g, domAt e g = true →
      (fun c : GInfo => !c.hard) (mkInfo br e g) = (fun c : Expr => !isHard br c) e := by
    intro e g h; simp only [mkInfo_hard_dom br e g h]
  have ha : takeWhileCount (mkInfoList br es gix) (fun c => c.constSize && !c.hard) =
      (es.takeWhile (fun c => constSize c && !isHard br c)).length := by
    unfold takeWhileCount
    exact takeWhile_length_of_map _ _ _ _ (map_mkInfoList br _ _ hp1 es gix hd)
  rw [ha]
  generalize hA : (es.takeWhile (fun c => constSize c && !isHard br c)).length = a
  have haL : a ≤ es.length := by rw [← hA]; exact length_takeWhile_le' _ _
  rw [sliceFrom_eq (by simpa using haL)]
  simp only [revTakeWhileCount_drop br (fun c => c.constSize && !c.hard) (fun c => constSize c && !isHard br c) hp1 es gix a hd,
    revTakeWhileCount_drop br (fun c => !c.hard) (fun c => !isHard br c) hp2 es gix a hd]
  -- the suffix length, whichever predicate is used
  generalize hS : (if (!hard) = true then ((es.drop a).reverse.takeWhile (fun c => !isHard br c)).length
      else ((es.drop a).reverse.takeWhile (fun c => constSize c && !isHard br c)).length) = sl
  have hsl : sl ≤ es.length - a := by
    rw [← hS]; split
    · exact Nat.le_trans (length_takeWhile_le' _ _) (by simp)
    · exact Nat.le_trans (length_takeWhile_le' _ _) (by simp)
  have hjoin : ((if (!hard) = true then
        (Except.ok ((es.drop a).reverse.takeWhile (fun c => !isHard br c)).length : Except CErr Nat)
      else .ok ((es.drop a).reverse.takeWhile (fun c => constSize c && !isHard br c)).length)) = .ok sl := by
    rw [← hS]; split <;> rfl
  rw [hjoin]
  have hcs : checkedSub (mkInfoList br es gix).length sl = some (es.length - sl) := by
    simp only [checkedSub, mkInfoList_length]; rw [if_pos (by omega)]
  simp only [hcs]
  generalize hB : es.length - sl = b
  have hab : a ≤ b ∧ b ≤ es.length := by omega
  rw [sliceTo_eq (by simpa using haL), sliceRange_eq (by simpa using hab), sliceFrom_eq (by simpa using hab.2)]
  simp only [mkInfoList_take, compile_delegates_eq, mkInfoList_drop]
  have htt : (es.take b).take a = es.take a := by rw [List.take_take, Nat.min_eq_left hab.1]
  have hmid : (es.take b).drop a = (es.drop a).take (b - a) := by rw [List.drop_take]
  rw [htt, hmid]
  have hdm : domAtList ((es.drop a).take (b - a)) (gix + groupCountList (es.take a)) = true :=
    domAtList_take _ _ _ (domAtList_drop es gix a hd)
  have hbound : codeBoundList ((es.drop a).take (b - a)) ≤ codeBoundList es :=
    Nat.le_trans (codeBoundList_take_le _ _) (codeBoundList_drop_le _ _)
  have hlen : (compileDelegates (es.take a) gix).length ≤ 1 := by
    unfold compileDelegates; split
    · simp
    · split <;> simp
  rw [visitMiddle_drop br es a, visitMiddle_take br (es.drop a) (b - a)]
  rw [concat_loop_eq br _ (fun e he => ih e (List.mem_of_mem_drop (List.mem_of_mem_take he))) _ _ _ hdm
    (by simp only [codeBound] at hfit; rw [List.length_append]; omega)]
  rw [List.length_append]
  cases visitMiddle br ((es.drop a).take (b - a)) 0 ((es.drop a).take (b - a)).length
      (prog.length + (compileDelegates (es.take a) gix).length) nsv (gix + groupCountList (es.take a)) with
  | error err => simp
  | ok r => obtain ⟨mid, n⟩ := r; simp [compile_delegates_eq]

theorem stmt_concat (br : Nat → Bool) (es : List Expr) (ih : ∀ e ∈ es, Stmt br e) : Stmt br (.concat es) := by
  apply stmt_of_hard; intro hard prog nsv gix hd hfit hh
  have key := compile_concat_eq br es ih hard prog nsv gix hd hfit hh
  rw [GenCompile.visit]
  simp only [mkInfo_hard_dom br _ gix hd, hh, mkInfo_expr, Bool.false_eq_true, if_false, key]
  cases Fancy.visit br (.concat es) hard prog.length nsv gix with
  | error err => simp
  | ok r => obtain ⟨code, n⟩ := r; simp

/-! ## `compile_alt`: the loop with its pending split and its list of jumps to patch -/

/-- the pure counterpart of `compile_alt`; `R j pc nsv` is the code of alternative `j` placed at `pc`.
    Returns the code as a function of the address after the alternation, the (absolute) positions of the
    jumps to that address, that address, the slot count. -/
def altPure (R : Nat → Nat → Nat → CRes) : Nat → Nat → Nat → Nat → Except CompileErr ((Nat → Code) × List Nat × Nat × Nat)
  | 0, _, pc, nsv => .ok (fun _ => [], [], pc, nsv)
  | 1, i, pc, nsv =>
    match R i pc nsv with
    | .error e => .error e
    | .ok (c, n) => .ok (fun _ => c, [], pc + c.length, n)
  | k + 2, i, pc, nsv =>
    match R i (pc + 1) nsv with
    | .error e => .error e
    | .ok (c, n1) =>
      match altPure R (k + 1) (i + 1) (pc + 1 + c.length + 1) n1 with
      | .error e => .error e
      | .ok (f, J, endPc, n2) =>
        .ok (fun t => [Insn.split (pc + 1) (pc + 1 + c.length + 1)] ++ c ++ [Insn.jmp t] ++ f t,
             (pc + 1 + c.length) :: J, endPc, n2)

def sumB (B : Nat → Nat) : Nat → Nat → Nat
  | _, 0 => 0
  | i, k + 1 => B i + 8 + sumB B (i + 1) k

/-- the final patch loop as a list function -/
def patchJmps (t : Nat) : List Nat → List Insn → List Insn
  | [], L => L
  | j :: J, L => patchJmps t J (L.set j (.jmp t))

def JmpsAt (J : List Nat) (L : List Insn) : Prop := ∀ j ∈ J, ∃ x, L[j]? = some (.jmp x)

theorem loop1_eq (t : Nat) : ∀ (J : List Nat) (L : List Insn) (n : Nat), JmpsAt J L →
    compile_alt_loop1 t J (st L n) = .ok (st (patchJmps t J L) n)
  | [], L, n, _ => by simp [compile_alt_loop1, patchJmps]
  | j :: J, L, n, h => by
    obtain ⟨x, hx⟩ := h j (by simp)
    have h' : JmpsAt J (L.set j (.jmp t)) := by
      intro j' hj'
      obtain ⟨x', hx'⟩ := h j' (by simp [hj'])
      by_cases hjj : j = j'
      · subst hjj; refine ⟨t, ?_⟩
        have : j < L.length := by
          rcases Nat.lt_or_ge j L.length with hlt | hge
          · exact hlt
          · rw [List.getElem?_eq_none hge] at hx; cases hx
        simp [this]
      · exact ⟨x', by rw [List.getElem?_set_ne hjj]; exact hx'⟩
    simp only [compile_alt_loop1, VMBuilder.set_jmp_target, st_b_prog, st_b_n_saves, hx, mk_b_st, patchJmps]
    exact loop1_eq t J _ n h'

theorem jmp_mid (X c : List Insn) (sp : Insn) (F : List Insn) (x t pos : Nat) (hpos : pos = X.length + 1 + c.length) :
    ((X ++ sp :: c ++ [Insn.jmp x]) ++ F)[pos]? = some (.jmp x) ∧
    ((X ++ sp :: c ++ [Insn.jmp x]) ++ F).set pos (.jmp t) = (X ++ sp :: c ++ [Insn.jmp t]) ++ F := by
  have e1 : ∀ y, (X ++ sp :: c ++ [Insn.jmp y]) ++ F = (X ++ sp :: c) ++ Insn.jmp y :: F := by intro y; simp
  have e3 : pos = (X ++ sp :: c).length := by simp; omega
  rw [e1, e1, e3, getElem?_mid, set_mid]; exact ⟨rfl, rfl⟩

/-- the jumps of `f` (code placed at `pc`) are where `J` says, and patching them is instantiating `f` -/
def JOK (pc : Nat) (f : Nat → Code) (J : List Nat) : Prop :=
  ∀ (X : List Insn), X.length = pc → JmpsAt J (X ++ f 0) ∧ ∀ t, patchJmps t J (X ++ f 0) = X ++ f t

theorem altPure_ok (R : Nat → Nat → Nat → CRes) : ∀ (k i pc nsv : Nat) (f : Nat → Code) (J : List Nat) (endPc n : Nat),
    altPure R k i pc nsv = .ok (f, J, endPc, n) → JOK pc f J ∧ ∀ t, endPc = pc + (f t).length
  | 0, i, pc, nsv, f, J, endPc, n, h => by
    simp only [altPure, Except.ok.injEq, Prod.mk.injEq] at h
    obtain ⟨rfl, rfl, rfl, rfl⟩ := h
    exact ⟨fun X _ => ⟨fun j hj => (by cases hj), fun t => rfl⟩, fun t => (by simp)⟩
  | 1, i, pc, nsv, f, J, endPc, n, h => by
    simp only [altPure] at h
    split at h
    · cases h
    · simp only [Except.ok.injEq, Prod.mk.injEq] at h
      obtain ⟨rfl, rfl, rfl, rfl⟩ := h
      exact ⟨fun X _ => ⟨fun j hj => (by cases hj), fun t => rfl⟩, fun t => rfl⟩
  | k + 2, i, pc, nsv, f, J, endPc, n, h => by
    simp only [altPure] at h
    split at h
    · cases h
    · rename_i c n1 hR
      split at h
      · cases h
      · rename_i f' J' endPc' n2 hA
        simp only [Except.ok.injEq, Prod.mk.injEq] at h
        obtain ⟨rfl, rfl, rfl, rfl⟩ := h
        obtain ⟨hJ, hE⟩ := altPure_ok R (k + 1) (i + 1) _ n1 f' J' endPc' n2 hA
        refine ⟨?_, fun t => by rw [hE t]; simp; omega⟩
        intro X hX
        have hshape : ∀ t, X ++ ([Insn.split (pc + 1) (pc + 1 + c.length + 1)] ++ c ++ [Insn.jmp t] ++ f' t) =
            (X ++ Insn.split (pc + 1) (pc + 1 + c.length + 1) :: c ++ [Insn.jmp t]) ++ f' t := by intro t; simp
        have hlenX : ∀ t, (X ++ Insn.split (pc + 1) (pc + 1 + c.length + 1) :: c ++ [Insn.jmp t]).length = pc + 1 + c.length + 1 := by
          intro t; simp [hX]; omega
        have hm := fun t => jmp_mid X c (Insn.split (pc + 1) (pc + 1 + c.length + 1)) (f' 0) 0 t (pc + 1 + c.length) (by omega)
        constructor
        · intro j hj
          rw [hshape 0]
          rcases List.mem_cons.mp hj with rfl | hj'
          · exact ⟨0, (hm 0).1⟩
          · exact (hJ _ (hlenX 0)).1 j hj'
        · intro t
          rw [hshape 0, hshape t]
          simp only [patchJmps]
          rw [(hm t).2]
          exact (hJ _ (hlenX t)).2 t

/-- `set_split_target(last_pc, pc, true)` on a program whose instruction `last` is a split, with a tail appended since -/
theorem pend_set (P : List Insn) (n last pc x y : Nat) (tail : List Insn) (hxy : P[last]? = some (.split x y)) :
    (st (P ++ tail) n).b.set_split_target last pc true = .ok (st (P.set last (.split x pc) ++ tail) n).b := by
  have hlt : last < P.length := by
    rcases Nat.lt_or_ge last P.length with h | h
    · exact h
    · rw [List.getElem?_eq_none h] at hxy; cases hxy
  have h1 : (P ++ tail)[last]? = some (.split x y) := by rw [List.getElem?_append_left hlt]; exact hxy
  have h2 : (P ++ tail).set last (.split x pc) = P.set last (.split x pc) ++ tail := by
    rw [List.set_append_left _ _ hlt]
  simp only [VMBuilder.set_split_target, st_b_prog, st_b_n_saves, h1, h2, if_true]; rfl

/-- the iterations after the first: the split of the previous alternative is still to be patched -/
theorem alt_loop_eq (H : Compiler → Nat → Except CErr Compiler) (R : Nat → Nat → Nat → CRes) (B : Nat → Nat) (count : Nat)
    (hspec : ∀ j, j < count → ∀ (L : List Insn) (n : Nat), L.length + B j < UNSET → H (st L n) j = lift L (R j L.length n))
    (hlen : ∀ j pc n c n', R j pc n = .ok (c, n') → c.length ≤ B j) :
    ∀ (k i : Nat) (P : List Insn) (n : Nat) (jmps : List Nat) (last x y : Nat), i + (k + 1) = count →
      P.length + sumB B i (k + 1) < UNSET → last ≠ USIZE_MAX → P[last]? = some (.split x y) →
      match altPure R (k + 1) i P.length n with
      | .error e => compile_alt_loop0 H count (k + 1) i (st P n) jmps last = .error (.compile e)
      | .ok (f, J, _, n') => ∃ last', compile_alt_loop0 H count (k + 1) i (st P n) jmps last =
          .ok (st (P.set last (.split x P.length) ++ f 0) n', jmps ++ J, last')
  | 0, i, P, n, jmps, last, x, y, hik, hfit, hl, hp => by
    have hcs : checkedSub count 1 = some i := by simp [checkedSub]; omega
    have hb : (last != USIZE_MAX) = true := by simpa using hl
    have hset := pend_set P n last P.length x y [] hp
    simp only [List.append_nil] at hset
    simp only [sumB] at hfit
    simp only [compile_alt_loop0, hcs, bne_self_eq_false, Bool.false_eq_true, if_false, if_true, pc_st, hb, hset, b_st_eta]
    rw [hspec i (by omega) _ _ (by rw [List.length_set]; omega), List.length_set]
    simp only [altPure]
    cases R i P.length n with
    | error e => simp
    | ok r => obtain ⟨c, n1⟩ := r; simp
  | k + 1, i, P, n, jmps, last, x, y, hik, hfit, hl, hp => by
    have hcs : checkedSub count 1 = some (i + k + 1) := by simp [checkedSub]; omega
    have hne : (i != i + k + 1) = true := by simp; omega
    have hb : (last != USIZE_MAX) = true := by simpa using hl
    have hset := pend_set P n last P.length x y [Insn.split (P.length + 1) USIZE_MAX] hp
    simp only [sumB] at hfit
    rw [compile_alt_loop0]
    simp only [hcs, hne, if_true, pc_st, add_st, hb, hset, b_st_eta]
    rw [hspec i (by omega) _ _ (by simp; omega)]
    simp only [List.length_append, List.length_singleton, List.length_set, altPure]
    cases hR : R i (P.length + 1) n with
    | error e => simp
    | ok r =>
      obtain ⟨c, n1⟩ := r
      have hc := hlen _ _ _ _ _ hR
      simp only [lift_ok, pc_st, add_st]
      generalize hQ : P.set last (.split x P.length) = Q
      have hQlen : Q.length = P.length := by rw [← hQ, List.length_set]
      have hP2len : (Q ++ [Insn.split (P.length + 1) USIZE_MAX] ++ c ++ [Insn.jmp 0]).length =
          P.length + 1 + c.length + 1 := by simp [hQlen]; omega
      have hget : (Q ++ [Insn.split (P.length + 1) USIZE_MAX] ++ c ++ [Insn.jmp 0])[P.length]? =
          some (Insn.split (P.length + 1) USIZE_MAX) := by
        have : Q ++ [Insn.split (P.length + 1) USIZE_MAX] ++ c ++ [Insn.jmp 0] =
            Q ++ Insn.split (P.length + 1) USIZE_MAX :: (c ++ [Insn.jmp 0]) := by simp
        rw [this, ← hQlen, getElem?_mid]
      have hPne : P.length ≠ USIZE_MAX := by unfold USIZE_MAX; omega
      have ih := alt_loop_eq H R B count hspec hlen k (i + 1)
        (Q ++ [Insn.split (P.length + 1) USIZE_MAX] ++ c ++ [Insn.jmp 0]) n1
        (jmps ++ [(Q ++ [Insn.split (P.length + 1) USIZE_MAX] ++ c).length]) P.length _ _ (by omega)
        (by rw [hP2len]; simp only [sumB]; omega) hPne hget
      rw [hP2len] at ih
      have hset2 : (Q ++ [Insn.split (P.length + 1) USIZE_MAX] ++ c ++ [Insn.jmp 0]).set P.length
          (Insn.split (P.length + 1) (P.length + 1 + c.length + 1)) =
          Q ++ Insn.split (P.length + 1) (P.length + 1 + c.length + 1) :: (c ++ [Insn.jmp 0]) := by
        have e : Q ++ [Insn.split (P.length + 1) USIZE_MAX] ++ c ++ [Insn.jmp 0] =
            Q ++ Insn.split (P.length + 1) USIZE_MAX :: (c ++ [Insn.jmp 0]) := by simp
        rw [e, ← hQlen, set_mid]
      rw [hset2] at ih
      cases hA : altPure R (k + 1) (i + 1) (P.length + 1 + c.length + 1) n1 with
      | error e => rw [hA] at ih; simp only at ih ⊢; simpa using ih
      | ok r =>
        obtain ⟨f, J, endPc, n2⟩ := r
        rw [hA] at ih; simp only at ih ⊢
        obtain ⟨last', hl'⟩ := ih
        refine ⟨last', ?_⟩
        simpa [hQlen, Nat.add_assoc, Nat.add_comm, Nat.add_left_comm] using hl'

theorem compile_alt_unfold (H : Compiler → Nat → Except CErr Compiler) (count : Nat) (s : Compiler) :
    compile_alt count H s =
      match compile_alt_loop0 H count count 0 s [] USIZE_MAX with
      | .error e => .error e
      | .ok (self, jmps, _) => compile_alt_loop1 self.b.pc jmps self := by
  unfold compile_alt
  simp only [Nat.sub_zero]
  cases compile_alt_loop0 H count count 0 s [] USIZE_MAX with
  | error e => rfl
  | ok r =>
    obtain ⟨self, jmps, l⟩ := r
    simp only
    cases compile_alt_loop1 self.b.pc jmps self <;> rfl

/-- the first iteration when there are at least two alternatives -/
theorem alt_first_iter (H : Compiler → Nat → Except CErr Compiler) (R : Nat → Nat → Nat → CRes) (B : Nat → Nat) (k : Nat)
    (hspec : ∀ j, j < k + 2 → ∀ (L : List Insn) (n : Nat), L.length + B j < UNSET → H (st L n) j = lift L (R j L.length n))
    (P : List Insn) (n : Nat) (hfit : P.length + 1 + B 0 < UNSET) :
    compile_alt_loop0 H (k + 2) (k + 2) 0 (st P n) [] USIZE_MAX =
      match R 0 (P.length + 1) n with
      | .error e => .error (.compile e)
      | .ok (c, n1) =>
        compile_alt_loop0 H (k + 2) (k + 1) 1 (st (P ++ [Insn.split (P.length + 1) USIZE_MAX] ++ c ++ [Insn.jmp 0]) n1)
          ([] ++ [P.length + 1 + c.length]) P.length := by
  have hcs : checkedSub (k + 2) 1 = some (k + 1) := by simp [checkedSub]
  have hne : (0 != k + 1) = true := by simp
  rw [compile_alt_loop0]
  simp only [hcs, hne, if_true, pc_st, add_st, bne_self_eq_false, Bool.false_eq_true, if_false]
  rw [hspec 0 (by omega) _ _ (by simp; omega)]
  simp only [List.length_append, List.length_singleton]
  cases R 0 (P.length + 1) n with
  | error e => simp
  | ok r =>
    obtain ⟨c, n1⟩ := r
    simp only [lift_ok, pc_st, add_st, List.length_append, List.length_singleton, Nat.zero_add]

/-- `compile_alt` = the pure alternation, instantiated at its own end address -/
theorem compile_alt_eq (H : Compiler → Nat → Except CErr Compiler) (R : Nat → Nat → Nat → CRes) (B : Nat → Nat) (count : Nat)
    (hspec : ∀ j, j < count → ∀ (L : List Insn) (n : Nat), L.length + B j < UNSET → H (st L n) j = lift L (R j L.length n))
    (hlen : ∀ j pc n c n', R j pc n = .ok (c, n') → c.length ≤ B j)
    (P : List Insn) (n : Nat) (hfit : P.length + sumB B 0 count < UNSET) :
    compile_alt count H (st P n) =
      match altPure R count 0 P.length n with
      | .error e => .error (.compile e)
      | .ok (f, _, endPc, n') => .ok (st (P ++ f endPc) n') := by
  rw [compile_alt_unfold]
  match count, hspec, hfit with
  | 0, _, _ => simp [compile_alt_loop0, compile_alt_loop1, altPure]
  | 1, hspec, hfit =>
    have hcs : checkedSub 1 1 = some 0 := by simp [checkedSub]
    simp only [sumB] at hfit
    simp only [compile_alt_loop0, hcs, bne_self_eq_false, Bool.false_eq_true, if_false, pc_st, altPure]
    rw [hspec 0 (by omega) _ _ (by omega)]
    cases R 0 P.length n with
    | error e => simp
    | ok r => obtain ⟨c, n1⟩ := r; simp [compile_alt_loop1]
  | k + 2, hspec, hfit =>
    simp only [sumB, Nat.zero_add] at hfit
    rw [alt_first_iter H R B k hspec P n (by omega)]
    cases hR : R 0 (P.length + 1) n with
    | error e' => simp [altPure, hR]
    | ok r =>
      obtain ⟨c, n1⟩ := r
      have hc := hlen _ _ _ _ _ hR
      have hP2len : (P ++ [Insn.split (P.length + 1) USIZE_MAX] ++ c ++ [Insn.jmp 0]).length =
          P.length + 1 + c.length + 1 := by simp; omega
      have hget : (P ++ [Insn.split (P.length + 1) USIZE_MAX] ++ c ++ [Insn.jmp 0])[P.length]? =
          some (Insn.split (P.length + 1) USIZE_MAX) := by
        have : P ++ [Insn.split (P.length + 1) USIZE_MAX] ++ c ++ [Insn.jmp 0] =
            P ++ Insn.split (P.length + 1) USIZE_MAX :: (c ++ [Insn.jmp 0]) := by simp
        rw [this, getElem?_mid]
      have hPne : P.length ≠ USIZE_MAX := by unfold USIZE_MAX; omega
      have ih := alt_loop_eq H R B (k + 2) hspec hlen k 1
        (P ++ [Insn.split (P.length + 1) USIZE_MAX] ++ c ++ [Insn.jmp 0]) n1
        ([] ++ [P.length + 1 + c.length]) P.length _ _ (by omega)
        (by rw [hP2len]; simp only [sumB]; omega) hPne hget
      rw [hP2len] at ih
      have hset2 : (P ++ [Insn.split (P.length + 1) USIZE_MAX] ++ c ++ [Insn.jmp 0]).set P.length
          (Insn.split (P.length + 1) (P.length + 1 + c.length + 1)) =
          P ++ Insn.split (P.length + 1) (P.length + 1 + c.length + 1) :: (c ++ [Insn.jmp 0]) := by
        have e : P ++ [Insn.split (P.length + 1) USIZE_MAX] ++ c ++ [Insn.jmp 0] =
            P ++ Insn.split (P.length + 1) USIZE_MAX :: (c ++ [Insn.jmp 0]) := by simp
        rw [e, set_mid]
      rw [hset2] at ih
      simp only [altPure, hR]
      cases hA' : altPure R (k + 1) (0 + 1) (P.length + 1 + c.length + 1) n1 with
      | error e' => rw [hA'] at ih; simp only at ih ⊢; rw [ih]
      | ok r' =>
        obtain ⟨f', J', endPc', n2'⟩ := r'
        have hA : altPure R (k + 2) 0 P.length n = .ok (fun t => [Insn.split (P.length + 1) (P.length + 1 + c.length + 1)] ++ c ++
            [Insn.jmp t] ++ f' t, (P.length + 1 + c.length) :: J', endPc', n2') := by simp only [altPure, hR, hA']
        obtain ⟨hJOK, hE⟩ := altPure_ok R _ _ _ _ _ _ _ _ hA
        rw [hA'] at ih; simp only at ih ⊢
        obtain ⟨last', hl'⟩ := ih
        rw [hl']
        simp only [pc_st]
        have hfin : P ++ Insn.split (P.length + 1) (P.length + 1 + c.length + 1) :: (c ++ [Insn.jmp 0]) ++ f' 0 =
            P ++ ([Insn.split (P.length + 1) (P.length + 1 + c.length + 1)] ++ c ++ [Insn.jmp 0] ++ f' 0) := by simp
        rw [hfin]
        obtain ⟨hJA, hJP⟩ := hJOK P rfl
        dsimp only at hJA hJP
        rw [List.nil_append]
        show compile_alt_loop1 _ ((P.length + 1 + c.length) :: J') _ = _
        rw [loop1_eq _ _ _ _ hJA, hJP]
        have hEE := hE 0
        simp only [List.length_append] at hEE ⊢
        rw [← hEE]

/-! ## conditional -/

theorem childAt_three_zero (a b c : GInfo) :
    childAt [a, b, c] 0 = some ⟨a, sizeOf_lt_of_getElem? (l := [a, b, c]) (i := 0) rfl⟩ := childAt_eq_some rfl
theorem childAt_three_one (a b c : GInfo) :
    childAt [a, b, c] 1 = some ⟨b, sizeOf_lt_of_getElem? (l := [a, b, c]) (i := 1) rfl⟩ := childAt_eq_some rfl
theorem childAt_three_two (a b c : GInfo) :
    childAt [a, b, c] 2 = some ⟨c, sizeOf_lt_of_getElem? (l := [a, b, c]) (i := 2) rfl⟩ := childAt_eq_some rfl

theorem set_jmp_at (P C : List Insn) (x t nsv k : Nat) (hk : k = P.length) :
    (st (P ++ [Insn.jmp x] ++ C) nsv).b.set_jmp_target k t = .ok (st (P ++ [Insn.jmp t] ++ C) nsv).b := by
  subst hk; rw [List.append_assoc, List.append_assoc]; exact set_jmp P C x t nsv

theorem stmt_cond (br : Nat → Bool) (c y n : Expr) (ihc : Stmt br c) (ihy : Stmt br y) (ihn : Stmt br n) :
    Stmt br (.cond c y n) := by
  apply stmt_of_hard; intro hard prog nsv gix hd hfit hh
  have hH := mkInfo_hard_dom br _ gix hd; rw [mkInfo_hard] at hH
  rw [mkInfo_node, node, mkInfo_children_cond, GenCompile.visit, Fancy.visit]
  dsimp only
  simp only [hH, hh, Bool.false_eq_true, if_false, compile_conditional]
  rw [childAt_three_zero, childAt_three_one, childAt_three_two]
  simp only [add_st_b, pc_st]
  simp only [domAt, Bool.and_eq_true] at hd
  simp only [codeBound] at hfit
  have IHc : ∀ (L : List Insn) (m pc : Nat), L.length = pc → pc + codeBound c < UNSET →
      GenCompile.visit (mkInfo br c gix) hard (st L m) = lift L (Fancy.visit br c hard pc m gix) := by
    intro L m pc h1 h2; subst h1; exact ihc hard L m gix hd.1.1 h2
  have IHy : ∀ (L : List Insn) (m pc : Nat), L.length = pc → pc + codeBound y < UNSET →
      GenCompile.visit (mkInfo br y (gix + groupCount c)) hard (st L m) =
        lift L (Fancy.visit br y hard pc m (gix + groupCount c)) := by
    intro L m pc h1 h2; subst h1; exact ihy hard L m _ hd.1.2 h2
  have IHn : ∀ (L : List Insn) (m pc : Nat), L.length = pc → pc + codeBound n < UNSET →
      GenCompile.visit (mkInfo br n (gix + groupCount c + groupCount y)) hard (st L m) =
        lift L (Fancy.visit br n hard pc m (gix + groupCount c + groupCount y)) := by
    intro L m pc h1 h2; subst h1; exact ihn hard L m _ hd.2 h2
  rw [IHc _ _ (prog.length + 2) (by simp) (by omega)]
  cases hmc : Fancy.visit br c hard (prog.length + 2) nsv gix with
  | error err => simp
  | ok r =>
    obtain ⟨cc, n1⟩ := r
    have hlc := visit_length_le br c hard _ _ _ _ _ hmc
    simp only [lift_ok, add_st_b]
    rw [IHy _ _ (prog.length + 2 + cc.length + 1) (by simp; omega) (by omega)]
    cases hmy : Fancy.visit br y hard (prog.length + 2 + cc.length + 1) n1 (gix + groupCount c) with
    | error err => simp
    | ok r =>
      obtain ⟨yc, n2⟩ := r
      have hly := visit_length_le br y hard _ _ _ _ _ hmy
      simp only [lift_ok, add_st_b, pc_st]
      have hsplit : ∀ (x T : Nat),
          (st (prog ++ [Insn.beginAtomic] ++ [Insn.split x USIZE_MAX] ++ cc ++ [Insn.endAtomic] ++ yc ++ [Insn.jmp 0]) n2).b.set_split_target
              (prog ++ [Insn.beginAtomic]).length T true =
            .ok (st (prog ++ [Insn.beginAtomic] ++ [Insn.split x T] ++ cc ++ [Insn.endAtomic] ++ yc ++ [Insn.jmp 0]) n2).b := by
        intro x T
        have := set_split_second (prog ++ [Insn.beginAtomic]) (cc ++ [Insn.endAtomic] ++ yc ++ [Insn.jmp 0]) x USIZE_MAX T n2
        simp only [List.append_assoc, List.cons_append, List.nil_append] at this ⊢; exact this
      rw [hsplit]
      simp only
      rw [IHn _ _ (prog.length + 2 + cc.length + 1 + yc.length + 1) (by simp; omega) (by omega)]
      cases hmn : Fancy.visit br n hard (prog.length + 2 + cc.length + 1 + yc.length + 1) n2 (gix + groupCount c + groupCount y) with
      | error err => simp
      | ok r =>
        obtain ⟨nc, n3⟩ := r
        simp only [lift_ok, pc_st]
        rw [set_jmp_at _ nc 0 _ n3 _ (by simp only [List.length_append, List.length_singleton])]
        simp only
        simp [Nat.add_assoc]
        have e1 : prog.length + (cc.length + (yc.length + 4)) = prog.length + (2 + (cc.length + (1 + (yc.length + 1)))) := by
          omega
        have e2 : prog.length + (cc.length + (yc.length + (nc.length + 4))) =
            prog.length + (2 + (cc.length + (1 + (yc.length + (1 + nc.length))))) := by omega
        rw [e1, e2]


/-! ## alternation -/

theorem altPure_shift (R R' : Nat → Nat → Nat → CRes) (h : ∀ j, R (j + 1) = R' j) :
    ∀ (k i pc n : Nat), altPure R k (i + 1) pc n = altPure R' k i pc n
  | 0, i, pc, n => by simp [altPure]
  | 1, i, pc, n => by simp [altPure, h]
  | k + 2, i, pc, n => by
    simp only [altPure, h]
    cases R' i (pc + 1) n with
    | error e => rfl
    | ok r => obtain ⟨c, n1⟩ := r; simp only [altPure_shift R R' h (k + 1) (i + 1)]

theorem sumB_shift (B B' : Nat → Nat) (h : ∀ j, B (j + 1) = B' j) : ∀ (k i : Nat), sumB B (i + 1) k = sumB B' i k
  | 0, i => rfl
  | k + 1, i => by simp only [sumB, h, sumB_shift B B' h k (i + 1)]

/-- alternative `j` of `es`, compiled at `pc` -/
def Ralt (br : Nat → Bool) (es : List Expr) (hard : Bool) (gix : Nat) (j pc nsv : Nat) : CRes :=
  match es[j]? with
  | some e => Fancy.visit br e hard pc nsv (gix + groupCountList (es.take j))
  | none => .ok ([], nsv)

def Bof (es : List Expr) (j : Nat) : Nat :=
  match es[j]? with
  | some e => codeBound e
  | none => 0

theorem Ralt_succ (br : Nat → Bool) (e : Expr) (l : List Expr) (hard : Bool) (gix : Nat) :
    ∀ j, Ralt br (e :: l) hard gix (j + 1) = Ralt br l hard (gix + groupCount e) j := by
  intro j; funext pc nsv
  simp only [Ralt, List.getElem?_cons_succ, List.take_succ_cons, groupCountList, Nat.add_assoc]

theorem Bof_succ (e : Expr) (l : List Expr) : ∀ j, Bof (e :: l) (j + 1) = Bof l j := by
  intro j; simp [Bof]

theorem sumB_Bof : ∀ (es : List Expr), sumB (Bof es) 0 es.length = codeBoundList es
  | [] => rfl
  | e :: l => by
    simp only [List.length_cons, sumB, codeBoundList, Nat.zero_add]
    rw [sumB_shift (Bof (e :: l)) (Bof l) (Bof_succ e l) l.length 0, sumB_Bof l]
    simp [Bof]

theorem visitAlt_altPure (br : Nat → Bool) : ∀ (es : List Expr) (hard : Bool) (pc nsv gix : Nat),
    visitAlt br es hard pc nsv gix =
      match altPure (Ralt br es hard gix) es.length 0 pc nsv with
      | .error e => .error e
      | .ok (f, _, endPc, n) => .ok (f, endPc, n)
  | [], hard, pc, nsv, gix => by simp [visitAlt, altPure]
  | [e], hard, pc, nsv, gix => by
    simp only [visitAlt, List.length_singleton, altPure, Ralt, List.getElem?_cons_zero, List.take_zero, groupCountList,
      Nat.add_zero]
    cases Fancy.visit br e hard pc nsv gix with
    | error err => rfl
    | ok r => obtain ⟨c, n⟩ := r; rfl
  | e :: e2 :: l, hard, pc, nsv, gix => by
    have ih := visitAlt_altPure br (e2 :: l) hard
    simp only [visitAlt, List.length_cons, altPure]
    have h0 : Ralt br (e :: e2 :: l) hard gix 0 = fun pc nsv => Fancy.visit br e hard pc nsv gix := by
      funext pc nsv; simp [Ralt, groupCountList]
    rw [h0]
    dsimp only
    cases Fancy.visit br e hard (pc + 1) nsv gix with
    | error err => rfl
    | ok r =>
      obtain ⟨c, n1⟩ := r
      dsimp only
      rw [altPure_shift _ _ (Ralt_succ br e (e2 :: l) hard gix), ih]
      simp only [List.length_cons]
      cases altPure (Ralt br (e2 :: l) hard (gix + groupCount e)) (l.length + 1) 0 (pc + 1 + c.length + 1) n1 with
      | error err => rfl
      | ok r => obtain ⟨f, J, endPc, n2⟩ := r; rfl

theorem getElem?_mkInfoList (br : Nat → Bool) : ∀ (es : List Expr) (g j : Nat),
    (mkInfoList br es g)[j]? = es[j]?.map (fun e => mkInfo br e (g + groupCountList (es.take j)))
  | [], g, j => by simp [mkInfoList]
  | e :: l, g, 0 => by simp [mkInfoList, groupCountList]
  | e :: l, g, j + 1 => by
    simp only [mkInfoList, List.getElem?_cons_succ, getElem?_mkInfoList br l, List.take_succ_cons, groupCountList,
      Nat.add_assoc]

theorem domAt_getElem : ∀ (es : List Expr) (g j : Nat) (e : Expr), domAtList es g = true → es[j]? = some e →
    domAt e (g + groupCountList (es.take j)) = true
  | [], _, _, _, _, h => by simp at h
  | e :: l, g, 0, e', hd, h => by
    simp only [List.getElem?_cons_zero, Option.some.injEq] at h; subst h
    simp only [domAtList, Bool.and_eq_true] at hd; simpa [groupCountList] using hd.1
  | e :: l, g, j + 1, e', hd, h => by
    simp only [domAtList, Bool.and_eq_true] at hd
    simp only [List.getElem?_cons_succ] at h
    have := domAt_getElem l (g + groupCount e) j e' hd.2 h
    simpa [groupCountList, Nat.add_assoc] using this

theorem stmt_alt (br : Nat → Bool) (es : List Expr) (ih : ∀ e ∈ es, Stmt br e) : Stmt br (.alt es) := by
  apply stmt_of_hard; intro hard prog nsv gix hd hfit hh
  have hH := mkInfo_hard_dom br _ gix hd; rw [mkInfo_hard] at hH
  rw [mkInfo_node, node, mkInfo_children_alt, GenCompile.visit, Fancy.visit]
  dsimp only
  simp only [hH, hh, Bool.false_eq_true, if_false, mkInfoList_length]
  simp only [domAt, Bool.and_eq_true] at hd
  simp only [codeBound] at hfit
  rw [compile_alt_eq _ (Ralt br es hard gix) (Bof es) es.length ?hspec ?hlen prog nsv (by rw [sumB_Bof]; omega),
    visitAlt_altPure]
  case hspec =>
    intro j hj L n hL
    obtain ⟨e, he⟩ : ∃ e, es[j]? = some e := ⟨es[j], List.getElem?_eq_getElem hj⟩
    have hget : (mkInfoList br es gix)[j]? = some (mkInfo br e (gix + groupCountList (es.take j))) := by
      rw [getElem?_mkInfoList, he]; rfl
    have hB : Bof es j = codeBound e := by simp [Bof, he]
    rw [childAt_eq_some hget]
    simp only [Ralt, he]
    exact ih e (List.mem_of_getElem? he) hard L n _ (domAt_getElem es gix j e hd.2 he) (by omega)
  case hlen =>
    intro j pc n c n' hR
    simp only [Ralt] at hR
    cases he : es[j]? with
    | none => rw [he] at hR; simp only [Except.ok.injEq, Prod.mk.injEq] at hR; simp [← hR.1]
    | some e => rw [he] at hR; simp only [Bof, he]; exact visit_length_le br e hard pc n _ c n' hR
  cases altPure (Ralt br es hard gix) es.length 0 prog.length nsv with
  | error err => simp
  | ok r => obtain ⟨f, J, endPc, n⟩ := r; simp

/-! ## look-around -/

def isBehind : Look → Bool
  | .behind => true
  | .behindNeg => true
  | _ => false

/-- `compile_positive_lookaround` on `c`, placed at `pc` -/
def posLookRes (br : Nat → Bool) (c : Expr) (behind : Bool) (pc nsv g : Nat) : CRes :=
  if (behind && !constSize c) = true then .error .lookBehindNotConst else
  match Fancy.visit br c false (posLookBodyPc (isHard br c) behind pc) (nsv + 1) g with
  | .error err => .error err
  | .ok (code, n) => .ok (wrapPosLook (isHard br c) behind nsv (minSize c) code, n)

/-- `compile_negative_lookaround` on `c`, placed at `pc` -/
def negLookRes (br : Nat → Bool) (c : Expr) (behind : Bool) (pc nsv g : Nat) : CRes :=
  if (behind && !constSize c) = true then .error .lookBehindNotConst else
  match Fancy.visit br c false (negLookBodyPc behind pc) nsv g with
  | .error err => .error err
  | .ok (code, n) => .ok (wrapNegLook behind pc (minSize c) code, n)

theorem compile_lookaround_inner_eq (br : Nat → Bool) (c : Expr) (la : Look) (ih : Stmt br c) (g : Nat)
    (hd : domAt c g = true) (prog : List Insn) (nsv : Nat) (hfit : prog.length + 1 + codeBound c < UNSET) :
    compile_lookaround_inner (mkInfo br c g) la (st prog nsv) =
      if (isBehind la && !constSize c) = true then .error (.compile .lookBehindNotConst)
      else lift (prog ++ (if isBehind la = true then [Insn.goBack (minSize c)] else []))
        (Fancy.visit br c false (prog.length + (if isBehind la = true then 1 else 0)) nsv g) := by
  rw [compile_lookaround_inner]
  simp only [mkInfo_constSize, mkInfo_minSize]
  have h0 := ih false prog nsv g hd (by omega)
  have h1 := ih false (prog ++ [Insn.goBack (minSize c)]) nsv g hd (by simp; omega)
  simp only [List.length_append, List.length_singleton] at h1
  cases la
  · simp [isBehind, h0]
  · simp [isBehind, h0]
  · cases hcs : constSize c <;> simp [isBehind, h1]
  · cases hcs : constSize c <;> simp [isBehind, h1]

theorem compile_positive_lookaround_eq (br : Nat → Bool) (c : Expr) (la : Look) (ih : Stmt br c) (g : Nat)
    (hd : domAt c g = true) (prog : List Insn) (nsv : Nat) (hfit : prog.length + 3 + codeBound c < UNSET) :
    compile_positive_lookaround (mkInfo br c g) la (st prog nsv) =
      lift prog (posLookRes br c (isBehind la) prog.length nsv g) := by
  rw [compile_positive_lookaround]
  simp only [mkInfo_hard_dom br c g hd, posLookRes, posLookBodyPc]
  cases hI : isHard br c
  · simp only [Bool.false_eq_true, if_false, newsave_st, b_st_eta, add_st]
    rw [compile_lookaround_inner_eq br c la ih g hd _ _ (by simp; omega)]
    by_cases hb : (isBehind la && !constSize c) = true
    · simp [hb]
    · simp only [hb, if_false]
      cases hB : isBehind la
      · simp only [Bool.false_eq_true, if_false, List.append_nil, List.length_append, List.length_singleton, Nat.add_zero]
        cases Fancy.visit br c false (prog.length + 1) (nsv + 1) g with
        | error err => simp
        | ok r => obtain ⟨code, n⟩ := r; simp [wrapPosLook]
      · simp only [if_true, List.length_append, List.length_singleton, Nat.add_zero]
        cases Fancy.visit br c false (prog.length + 1 + 1) (nsv + 1) g with
        | error err => simp
        | ok r => obtain ⟨code, n⟩ := r; simp [wrapPosLook]
  · simp only [if_true, newsave_st, b_st_eta, add_st]
    rw [compile_lookaround_inner_eq br c la ih g hd _ _ (by simp; omega)]
    by_cases hb : (isBehind la && !constSize c) = true
    · simp [hb]
    · simp only [hb, if_false]
      cases hB : isBehind la
      · simp only [Bool.false_eq_true, if_false, List.append_nil, List.length_append, List.length_singleton, Nat.add_zero]
        cases Fancy.visit br c false (prog.length + 1 + 1) (nsv + 1) g with
        | error err => simp
        | ok r => obtain ⟨code, n⟩ := r; simp [wrapPosLook]
      · simp only [if_true, List.length_append, List.length_singleton, Nat.add_zero]
        cases Fancy.visit br c false (prog.length + 1 + 1 + 1) (nsv + 1) g with
        | error err => simp
        | ok r => obtain ⟨code, n⟩ := r; simp [wrapPosLook]

theorem compile_negative_lookaround_eq (br : Nat → Bool) (c : Expr) (la : Look) (ih : Stmt br c) (g : Nat)
    (hd : domAt c g = true) (prog : List Insn) (nsv : Nat) (hfit : prog.length + 2 + codeBound c < UNSET) :
    compile_negative_lookaround (mkInfo br c g) la (st prog nsv) =
      lift prog (negLookRes br c (isBehind la) prog.length nsv g) := by
  rw [compile_negative_lookaround]
  simp only [negLookRes, negLookBodyPc, pc_st, add_st]
  rw [compile_lookaround_inner_eq br c la ih g hd _ _ (by simp; omega)]
  by_cases hb : (isBehind la && !constSize c) = true
  · simp [hb]
  · simp only [hb, Bool.false_eq_true, if_false]
    have hsplit : ∀ (C : List Insn) (n T : Nat),
        (st (prog ++ [Insn.split (prog.length + 1) USIZE_MAX] ++ C) n).b.set_split_target prog.length T true =
          .ok (st (prog ++ [Insn.split (prog.length + 1) T] ++ C) n).b := by
      intro C n T
      have := set_split_second prog C (prog.length + 1) USIZE_MAX T n
      simp only [List.append_assoc, List.cons_append, List.nil_append] at this ⊢; exact this
    cases hB : isBehind la
    · simp only [Bool.false_eq_true, if_false, List.append_nil, List.length_append, List.length_singleton, Nat.add_zero]
      cases Fancy.visit br c false (prog.length + 1) nsv g with
      | error err => simp
      | ok r =>
        obtain ⟨code, n⟩ := r
        simp only [lift_ok, add_st, add_st_b, pc_st, List.append_assoc]
        rw [← List.append_assoc prog, hsplit]
        simp [wrapNegLook, Nat.add_assoc] <;> arith_fin
    · simp only [if_true, List.length_append, List.length_singleton, Nat.add_zero]
      cases Fancy.visit br c false (prog.length + 1 + 1) nsv g with
      | error err => simp
      | ok r =>
        obtain ⟨code, n⟩ := r
        simp only [lift_ok, add_st, add_st_b, pc_st, List.append_assoc]
        rw [← List.append_assoc prog, hsplit]
        simp [wrapNegLook, Nat.add_assoc] <;> arith_fin

/-! ### `compile_alt` again, with the tight overhead of two instructions per alternative -/

def sumB2 (B : Nat → Nat) : Nat → Nat → Nat
  | _, 0 => 0
  | i, k + 1 => B i + 2 + sumB2 B (i + 1) k

/-- the iterations after the first: the split of the previous alternative is still to be patched -/
theorem alt_loop_eq2 (H : Compiler → Nat → Except CErr Compiler) (R : Nat → Nat → Nat → CRes) (B : Nat → Nat) (count : Nat)
    (hspec : ∀ j, j < count → ∀ (L : List Insn) (n : Nat), L.length + B j < UNSET → H (st L n) j = lift L (R j L.length n))
    (hlen : ∀ j pc n c n', R j pc n = .ok (c, n') → c.length ≤ B j) :
    ∀ (k i : Nat) (P : List Insn) (n : Nat) (jmps : List Nat) (last x y : Nat), i + (k + 1) = count →
      P.length + sumB2 B i (k + 1) < UNSET → last ≠ USIZE_MAX → P[last]? = some (.split x y) →
      match altPure R (k + 1) i P.length n with
      | .error e => compile_alt_loop0 H count (k + 1) i (st P n) jmps last = .error (.compile e)
      | .ok (f, J, _, n') => ∃ last', compile_alt_loop0 H count (k + 1) i (st P n) jmps last =
          .ok (st (P.set last (.split x P.length) ++ f 0) n', jmps ++ J, last')
  | 0, i, P, n, jmps, last, x, y, hik, hfit, hl, hp => by
    have hcs : checkedSub count 1 = some i := by simp [checkedSub]; omega
    have hb : (last != USIZE_MAX) = true := by simpa using hl
    have hset := pend_set P n last P.length x y [] hp
    simp only [List.append_nil] at hset
    simp only [sumB2] at hfit
    simp only [compile_alt_loop0, hcs, bne_self_eq_false, Bool.false_eq_true, if_false, if_true, pc_st, hb, hset, b_st_eta]
    rw [hspec i (by omega) _ _ (by rw [List.length_set]; omega), List.length_set]
    simp only [altPure]
    cases R i P.length n with
    | error e => simp
    | ok r => obtain ⟨c, n1⟩ := r; simp
  | k + 1, i, P, n, jmps, last, x, y, hik, hfit, hl, hp => by
    have hcs : checkedSub count 1 = some (i + k + 1) := by simp [checkedSub]; omega
    have hne : (i != i + k + 1) = true := by simp; omega
    have hb : (last != USIZE_MAX) = true := by simpa using hl
    have hset := pend_set P n last P.length x y [Insn.split (P.length + 1) USIZE_MAX] hp
    simp only [sumB2] at hfit
    rw [compile_alt_loop0]
    simp only [hcs, hne, if_true, pc_st, add_st, hb, hset, b_st_eta]
    rw [hspec i (by omega) _ _ (by simp; omega)]
    simp only [List.length_append, List.length_singleton, List.length_set, altPure]
    cases hR : R i (P.length + 1) n with
    | error e => simp
    | ok r =>
      obtain ⟨c, n1⟩ := r
      have hc := hlen _ _ _ _ _ hR
      simp only [lift_ok, pc_st, add_st]
      generalize hQ : P.set last (.split x P.length) = Q
      have hQlen : Q.length = P.length := by rw [← hQ, List.length_set]
      have hP2len : (Q ++ [Insn.split (P.length + 1) USIZE_MAX] ++ c ++ [Insn.jmp 0]).length =
          P.length + 1 + c.length + 1 := by simp [hQlen]; omega
      have hget : (Q ++ [Insn.split (P.length + 1) USIZE_MAX] ++ c ++ [Insn.jmp 0])[P.length]? =
          some (Insn.split (P.length + 1) USIZE_MAX) := by
        have : Q ++ [Insn.split (P.length + 1) USIZE_MAX] ++ c ++ [Insn.jmp 0] =
            Q ++ Insn.split (P.length + 1) USIZE_MAX :: (c ++ [Insn.jmp 0]) := by simp
        rw [this, ← hQlen, getElem?_mid]
      have hPne : P.length ≠ USIZE_MAX := by unfold USIZE_MAX; omega
      have ih := alt_loop_eq2 H R B count hspec hlen k (i + 1)
        (Q ++ [Insn.split (P.length + 1) USIZE_MAX] ++ c ++ [Insn.jmp 0]) n1
        (jmps ++ [(Q ++ [Insn.split (P.length + 1) USIZE_MAX] ++ c).length]) P.length _ _ (by omega)
        (by rw [hP2len]; simp only [sumB2]; omega) hPne hget
      rw [hP2len] at ih
      have hset2 : (Q ++ [Insn.split (P.length + 1) USIZE_MAX] ++ c ++ [Insn.jmp 0]).set P.length
          (Insn.split (P.length + 1) (P.length + 1 + c.length + 1)) =
          Q ++ Insn.split (P.length + 1) (P.length + 1 + c.length + 1) :: (c ++ [Insn.jmp 0]) := by
        have e : Q ++ [Insn.split (P.length + 1) USIZE_MAX] ++ c ++ [Insn.jmp 0] =
            Q ++ Insn.split (P.length + 1) USIZE_MAX :: (c ++ [Insn.jmp 0]) := by simp
        rw [e, ← hQlen, set_mid]
      rw [hset2] at ih
      cases hA : altPure R (k + 1) (i + 1) (P.length + 1 + c.length + 1) n1 with
      | error e => rw [hA] at ih; simp only at ih ⊢; simpa using ih
      | ok r =>
        obtain ⟨f, J, endPc, n2⟩ := r
        rw [hA] at ih; simp only at ih ⊢
        obtain ⟨last', hl'⟩ := ih
        refine ⟨last', ?_⟩
        simpa [hQlen, Nat.add_assoc, Nat.add_comm, Nat.add_left_comm] using hl'

/-- `compile_alt` = the pure alternation, instantiated at its own end address -/
theorem compile_alt_eq2 (H : Compiler → Nat → Except CErr Compiler) (R : Nat → Nat → Nat → CRes) (B : Nat → Nat) (count : Nat)
    (hspec : ∀ j, j < count → ∀ (L : List Insn) (n : Nat), L.length + B j < UNSET → H (st L n) j = lift L (R j L.length n))
    (hlen : ∀ j pc n c n', R j pc n = .ok (c, n') → c.length ≤ B j)
    (P : List Insn) (n : Nat) (hfit : P.length + sumB2 B 0 count < UNSET) :
    compile_alt count H (st P n) =
      match altPure R count 0 P.length n with
      | .error e => .error (.compile e)
      | .ok (f, _, endPc, n') => .ok (st (P ++ f endPc) n') := by
  rw [compile_alt_unfold]
  match count, hspec, hfit with
  | 0, _, _ => simp [compile_alt_loop0, compile_alt_loop1, altPure]
  | 1, hspec, hfit =>
    have hcs : checkedSub 1 1 = some 0 := by simp [checkedSub]
    simp only [sumB2] at hfit
    simp only [compile_alt_loop0, hcs, bne_self_eq_false, Bool.false_eq_true, if_false, pc_st, altPure]
    rw [hspec 0 (by omega) _ _ (by omega)]
    cases R 0 P.length n with
    | error e => simp
    | ok r => obtain ⟨c, n1⟩ := r; simp [compile_alt_loop1]
  | k + 2, hspec, hfit =>
    simp only [sumB2, Nat.zero_add] at hfit
    rw [alt_first_iter H R B k hspec P n (by omega)]
    cases hR : R 0 (P.length + 1) n with
    | error e' => simp [altPure, hR]
    | ok r =>
      obtain ⟨c, n1⟩ := r
      have hc := hlen _ _ _ _ _ hR
      have hP2len : (P ++ [Insn.split (P.length + 1) USIZE_MAX] ++ c ++ [Insn.jmp 0]).length =
          P.length + 1 + c.length + 1 := by simp; omega
      have hget : (P ++ [Insn.split (P.length + 1) USIZE_MAX] ++ c ++ [Insn.jmp 0])[P.length]? =
          some (Insn.split (P.length + 1) USIZE_MAX) := by
        have : P ++ [Insn.split (P.length + 1) USIZE_MAX] ++ c ++ [Insn.jmp 0] =
            P ++ Insn.split (P.length + 1) USIZE_MAX :: (c ++ [Insn.jmp 0]) := by simp
        rw [this, getElem?_mid]
      have hPne : P.length ≠ USIZE_MAX := by unfold USIZE_MAX; omega
      have ih := alt_loop_eq2 H R B (k + 2) hspec hlen k 1
        (P ++ [Insn.split (P.length + 1) USIZE_MAX] ++ c ++ [Insn.jmp 0]) n1
        ([] ++ [P.length + 1 + c.length]) P.length _ _ (by omega)
        (by rw [hP2len]; simp only [sumB2]; omega) hPne hget
      rw [hP2len] at ih
      have hset2 : (P ++ [Insn.split (P.length + 1) USIZE_MAX] ++ c ++ [Insn.jmp 0]).set P.length
          (Insn.split (P.length + 1) (P.length + 1 + c.length + 1)) =
          P ++ Insn.split (P.length + 1) (P.length + 1 + c.length + 1) :: (c ++ [Insn.jmp 0]) := by
        have e : P ++ [Insn.split (P.length + 1) USIZE_MAX] ++ c ++ [Insn.jmp 0] =
            P ++ Insn.split (P.length + 1) USIZE_MAX :: (c ++ [Insn.jmp 0]) := by simp
        rw [e, set_mid]
      rw [hset2] at ih
      simp only [altPure, hR]
      cases hA' : altPure R (k + 1) (0 + 1) (P.length + 1 + c.length + 1) n1 with
      | error e' => rw [hA'] at ih; simp only at ih ⊢; rw [ih]
      | ok r' =>
        obtain ⟨f', J', endPc', n2'⟩ := r'
        have hA : altPure R (k + 2) 0 P.length n = .ok (fun t => [Insn.split (P.length + 1) (P.length + 1 + c.length + 1)] ++ c ++
            [Insn.jmp t] ++ f' t, (P.length + 1 + c.length) :: J', endPc', n2') := by simp only [altPure, hR, hA']
        obtain ⟨hJOK, hE⟩ := altPure_ok R _ _ _ _ _ _ _ _ hA
        rw [hA'] at ih; simp only at ih ⊢
        obtain ⟨last', hl'⟩ := ih
        rw [hl']
        simp only [pc_st]
        have hfin : P ++ Insn.split (P.length + 1) (P.length + 1 + c.length + 1) :: (c ++ [Insn.jmp 0]) ++ f' 0 =
            P ++ ([Insn.split (P.length + 1) (P.length + 1 + c.length + 1)] ++ c ++ [Insn.jmp 0] ++ f' 0) := by simp
        rw [hfin]
        obtain ⟨hJA, hJP⟩ := hJOK P rfl
        dsimp only at hJA hJP
        rw [List.nil_append]
        show compile_alt_loop1 _ ((P.length + 1 + c.length) :: J') _ = _
        rw [loop1_eq _ _ _ _ hJA, hJP]
        have hEE := hE 0
        simp only [List.length_append] at hEE ⊢
        rw [← hEE]

/-! ### `(?<=a|bb)`: the alternation of positive look-behinds -/

def RposAlt (br : Nat → Bool) (es : List Expr) (gix : Nat) (j pc nsv : Nat) : CRes :=
  match es[j]? with
  | some e => posLookRes br e true pc nsv (gix + groupCountList (es.take j))
  | none => .ok ([], nsv)

def BofPos (es : List Expr) (j : Nat) : Nat :=
  match es[j]? with
  | some e => codeBound e + 5
  | none => 0

theorem RposAlt_succ (br : Nat → Bool) (e : Expr) (l : List Expr) (gix : Nat) :
    ∀ j, RposAlt br (e :: l) gix (j + 1) = RposAlt br l (gix + groupCount e) j := by
  intro j; funext pc nsv
  simp only [RposAlt, List.getElem?_cons_succ, List.take_succ_cons, groupCountList, Nat.add_assoc]

theorem BofPos_succ (e : Expr) (l : List Expr) : ∀ j, BofPos (e :: l) (j + 1) = BofPos l j := by
  intro j; simp [BofPos]

theorem sumB2_shift (B B' : Nat → Nat) (h : ∀ j, B (j + 1) = B' j) : ∀ (k i : Nat), sumB2 B (i + 1) k = sumB2 B' i k
  | 0, i => rfl
  | k + 1, i => by simp only [sumB2, h, sumB2_shift B B' h k (i + 1)]

theorem sumB2_BofPos_le : ∀ (es : List Expr), sumB2 (BofPos es) 0 es.length ≤ codeBoundList es
  | [] => by simp [sumB2, codeBoundList]
  | e :: l => by
    simp only [List.length_cons, sumB2, codeBoundList, Nat.zero_add]
    rw [sumB2_shift (BofPos (e :: l)) (BofPos l) (BofPos_succ e l) l.length 0]
    have := sumB2_BofPos_le l
    simp only [BofPos, List.getElem?_cons_zero]; omega

theorem lookBehindAlts_altPure (br : Nat → Bool) : ∀ (es : List Expr) (pc nsv gix : Nat),
    lookBehindAlts br es pc nsv gix =
      match altPure (RposAlt br es gix) es.length 0 pc nsv with
      | .error e => .error e
      | .ok (f, _, endPc, n) => .ok (f, endPc, n)
  | [], pc, nsv, gix => by simp [lookBehindAlts, altPure]
  | [e], pc, nsv, gix => by
    simp only [lookBehindAlts, List.length_singleton, altPure, RposAlt, posLookRes, List.getElem?_cons_zero, List.take_zero,
      groupCountList, Nat.add_zero, Bool.true_and]
    cases constSize e
    · rfl
    · simp only [Bool.not_true, Bool.false_eq_true, if_false]
      cases Fancy.visit br e false (posLookBodyPc (isHard br e) true pc) (nsv + 1) gix with
      | error err => rfl
      | ok r => obtain ⟨c, n⟩ := r; rfl
  | e :: e2 :: l, pc, nsv, gix => by
    have ih := lookBehindAlts_altPure br (e2 :: l)
    simp only [lookBehindAlts, List.length_cons, altPure]
    have h0 : RposAlt br (e :: e2 :: l) gix 0 = fun pc nsv => posLookRes br e true pc nsv gix := by
      funext pc nsv; simp [RposAlt, groupCountList]
    rw [h0]
    simp only [posLookRes, Bool.true_and]
    cases constSize e
    · rfl
    · simp only [Bool.not_true, Bool.false_eq_true, if_false]
      cases Fancy.visit br e false (posLookBodyPc (isHard br e) true (pc + 1)) (nsv + 1) gix with
      | error err => rfl
      | ok r =>
        obtain ⟨c, n1⟩ := r
        dsimp only
        rw [altPure_shift _ _ (RposAlt_succ br e (e2 :: l) gix), ih]
        simp only [List.length_cons]
        cases altPure (RposAlt br (e2 :: l) (gix + groupCount e)) (l.length + 1) 0
            (pc + 1 + (wrapPosLook (isHard br e) true nsv (minSize e) c).length + 1) n1 with
        | error err => rfl
        | ok r => obtain ⟨f, J, endPc, n2⟩ := r; rfl

/-! ### `(?<!a|bb)`: the sequence of negative look-behinds -/

theorem lookaround_loop_eq (br : Nat → Bool) : ∀ (ms : List Expr), (∀ e ∈ ms, Stmt br e) → ∀ (g : Nat) (prog : List Insn) (nsv : Nat),
    domAtList ms g = true → prog.length + codeBoundList ms < UNSET →
    compile_lookaround_loop0 .behindNeg (mkInfoList br ms g) (st prog nsv) =
      lift prog (lookBehindNegAlts br ms prog.length nsv g)
  | [], _, g, prog, nsv, _, _ => by
    simp only [mkInfoList]; rw [compile_lookaround_loop0]; simp [lookBehindNegAlts]
  | e :: ms, hall, g, prog, nsv, hd, hfit => by
    simp only [domAtList, Bool.and_eq_true] at hd
    simp only [codeBoundList] at hfit
    simp only [mkInfoList]; rw [compile_lookaround_loop0]
    rw [compile_negative_lookaround_eq br e .behindNeg (hall e (by simp)) g hd.1 prog nsv (by omega)]
    simp only [isBehind, negLookRes, lookBehindNegAlts, Bool.true_and]
    cases constSize e
    · simp
    · simp only [Bool.not_true, Bool.false_eq_true, if_false]
      cases hm : Fancy.visit br e false (negLookBodyPc true prog.length) nsv g with
      | error err => simp
      | ok r =>
        obtain ⟨c1, n1⟩ := r
        have hl := visit_length_le br e false _ _ _ _ _ hm
        have hw := wrapNegLook_length_le true prog.length (minSize e) c1
        have ih := lookaround_loop_eq br ms (fun e' he' => hall e' (by simp [he'])) (g + groupCount e)
          (prog ++ wrapNegLook true prog.length (minSize e) c1) n1 hd.2 (by rw [List.length_append]; omega)
        simp only [lift_ok, ih, List.length_append]
        cases lookBehindNegAlts br ms (prog.length + (wrapNegLook true prog.length (minSize e) c1).length) n1 (g + groupCount e) with
        | error err => simp
        | ok r => obtain ⟨c2, n2⟩ := r; simp

/-! ### `compile_lookaround` -/

theorem visitAltBody_eq_visit (br : Nat → Bool) (es : List Expr) (pc nsv gix : Nat) :
    visitAltBody br es pc nsv gix = Fancy.visit br (.alt es) false pc nsv gix := by
  rw [visitAltBody, Fancy.visit]; simp only [isHard, Bool.not_false, Bool.true_and]

theorem compile_lookaround_eq (br : Nat → Bool) (c : Expr) (la : Look) (ih : Stmt br c)
    (ihalt : ∀ es, c = .alt es → ∀ e ∈ es, Stmt br e)
    (hard : Bool) (prog : List Insn) (nsv gix : Nat) (hd : domAt (.look c la) gix = true)
    (hfit : prog.length + codeBound (.look c la) < UNSET)
    (hh : (!hard && !isHard br (.look c la)) = false) :
    compile_lookaround (mkInfo br (.look c la) gix) la (st prog nsv) =
      lift prog (Fancy.visit br (.look c la) hard prog.length nsv gix) := by
  rw [mkInfo_node, node, mkInfo_children_look, compile_lookaround]
  dsimp only
  rw [childAt_cons_zero]
  simp only [domAt] at hd
  simp only [codeBound] at hfit
  cases la
  · -- ahead
    dsimp only
    rw [compile_positive_lookaround_eq br c .ahead ih gix hd prog nsv (by omega), Fancy.visit]
    simp only [hh, posLookRes, isBehind, Bool.false_and, Bool.false_eq_true, if_false]
    cases Fancy.visit br c false (posLookBodyPc (isHard br c) false prog.length) (nsv + 1) gix with
    | error err => rfl
    | ok r => obtain ⟨code, n⟩ := r; simp [wrapPosLook]
  · -- aheadNeg
    dsimp only
    rw [compile_negative_lookaround_eq br c .aheadNeg ih gix hd prog nsv (by omega), Fancy.visit]
    simp only [hh, negLookRes, isBehind, Bool.false_and, Bool.false_eq_true, if_false]
    cases Fancy.visit br c false (negLookBodyPc false prog.length) nsv gix with
    | error err => rfl
    | ok r => obtain ⟨code, n⟩ := r; simp [wrapNegLook]
  · -- behind
    dsimp only
    by_cases hc : ∃ es, c = .alt es
    · obtain ⟨es, rfl⟩ := hc
      have hI : isHard br (.alt es) = isHardAny br es := by simp [isHard]
      have hM : minSize (.alt es) = minSizeMin es := by simp [minSize]
      have hd2 : domAtList es gix = true := by
        simp only [domAt, Bool.and_eq_true] at hd; exact hd.2
      simp only [codeBound] at hfit
      cases hcs : constSize (.alt es)
      · split
        · simp only [add_st, mkInfo_children_alt, mkInfoList_length]
          rw [compile_alt_eq2 _ (RposAlt br es gix) (BofPos es) es.length ?hspec ?hlen (prog ++ [Insn.beginAtomic]) nsv
            (by have := sumB2_BofPos_le es; simp only [List.length_append, List.length_singleton]; omega), Fancy.visit]
          case hspec =>
            intro j hj L n hL
            obtain ⟨e, he⟩ : ∃ e, es[j]? = some e := ⟨es[j], List.getElem?_eq_getElem hj⟩
            have hget : (mkInfo br (.alt es) gix).children[j]? = some (mkInfo br e (gix + groupCountList (es.take j))) := by
              rw [mkInfo_children_alt, getElem?_mkInfoList, he]; rfl
            have hB : BofPos es j = codeBound e + 5 := by simp [BofPos, he]
            rw [childAt_eq_some hget]
            simp only [RposAlt, he]
            exact compile_positive_lookaround_eq br e .behind (ihalt es rfl e (List.mem_of_getElem? he)) _
              (domAt_getElem es gix j e hd2 he) L n (by omega)
          case hlen =>
            intro j pc n c n' hR
            simp only [RposAlt] at hR
            cases he : es[j]? with
            | none => rw [he] at hR; simp only [Except.ok.injEq, Prod.mk.injEq] at hR; simp [← hR.1]
            | some e =>
              rw [he] at hR; simp only [BofPos, he]
              simp only [posLookRes] at hR
              split at hR
              · cases hR
              · split at hR
                · cases hR
                · rename_i body n1 hv
                  simp only [Except.ok.injEq, Prod.mk.injEq] at hR
                  have h1 := visit_length_le br e false _ _ _ _ _ hv
                  have h2 := wrapPosLook_length_le (isHard br e) true n (minSize e) body
                  rw [← hR.1]; omega
          simp only [hh, hcs, Bool.not_false, Bool.false_eq_true, if_false, if_true, lookBehindAlts_altPure,
            List.length_append, List.length_singleton]
          cases altPure (RposAlt br es gix) es.length 0 (prog.length + 1) nsv with
          | error err => simp
          | ok r => obtain ⟨f, J, endPc, n⟩ := r; simp
        · rename_i h; exact (h es (by rw [mkInfo_constSize]; exact hcs) (by rw [mkInfo_expr])).elim
      · split
        · rename_i h1 h2; rw [mkInfo_constSize, hcs] at h1; cases h1
        · rw [compile_positive_lookaround_eq br (.alt es) .behind ih gix hd prog nsv (by simp only [codeBound]; omega), Fancy.visit]
          simp only [hh, hcs, posLookRes, isBehind, Bool.true_and, Bool.not_true, Bool.false_eq_true, if_false,
            visitAltBody_eq_visit, hI, hM]
          cases Fancy.visit br (.alt es) false (posLookBodyPc (isHardAny br es) true prog.length) (nsv + 1) gix with
          | error err => rfl
          | ok r => obtain ⟨code, n⟩ := r; rfl
    · have hc' : ∀ es, c = .alt es → False := fun es h => hc ⟨es, h⟩
      split
      · rename_i h1 h2; rw [mkInfo_expr] at h2; exact absurd h2 (hc' _)
      · rw [compile_positive_lookaround_eq br c .behind ih gix hd prog nsv (by omega), Fancy.visit]
        all_goals (try exact hc')
        simp only [hh, posLookRes, isBehind, Bool.true_and, Bool.false_eq_true, if_false]
        cases constSize c
        · rfl
        · simp only [Bool.not_true, Bool.false_eq_true, if_false]
          cases Fancy.visit br c false (posLookBodyPc (isHard br c) true prog.length) (nsv + 1) gix with
          | error err => rfl
          | ok r => obtain ⟨code, n⟩ := r; rfl
  · -- behindNeg
    dsimp only
    by_cases hc : ∃ es, c = .alt es
    · obtain ⟨es, rfl⟩ := hc
      have hI : isHard br (.alt es) = isHardAny br es := by simp [isHard]
      have hM : minSize (.alt es) = minSizeMin es := by simp [minSize]
      have hd2 : domAtList es gix = true := by
        simp only [domAt, Bool.and_eq_true] at hd; exact hd.2
      simp only [codeBound] at hfit
      cases hcs : constSize (.alt es)
      · split
        · simp only [mkInfo_children_alt]
          rw [lookaround_loop_eq br es (ihalt es rfl) gix prog nsv hd2 (by omega), Fancy.visit]
          simp only [hh, hcs, Bool.not_false, Bool.false_eq_true, if_false, if_true]
          cases lookBehindNegAlts br es prog.length nsv gix with
          | error err => rfl
          | ok r => obtain ⟨code, n⟩ := r; rfl
        · rename_i h; exact (h es (by rw [mkInfo_constSize]; exact hcs) (by rw [mkInfo_expr])).elim
      · split
        · rename_i h1 h2; rw [mkInfo_constSize, hcs] at h1; cases h1
        · rw [compile_negative_lookaround_eq br (.alt es) .behindNeg ih gix hd prog nsv (by simp only [codeBound]; omega), Fancy.visit]
          simp only [hh, hcs, negLookRes, isBehind, Bool.true_and, Bool.not_true, Bool.false_eq_true, if_false,
            visitAltBody_eq_visit, hI, hM]
          cases Fancy.visit br (.alt es) false (negLookBodyPc true prog.length) nsv gix with
          | error err => rfl
          | ok r => obtain ⟨code, n⟩ := r; rfl
    · have hc' : ∀ es, c = .alt es → False := fun es h => hc ⟨es, h⟩
      split
      · rename_i h1 h2; rw [mkInfo_expr] at h2; exact absurd h2 (hc' _)
      · rw [compile_negative_lookaround_eq br c .behindNeg ih gix hd prog nsv (by omega), Fancy.visit]
        all_goals (try exact hc')
        simp only [hh, negLookRes, isBehind, Bool.true_and, Bool.false_eq_true, if_false]
        cases constSize c
        · rfl
        · simp only [Bool.not_true, Bool.false_eq_true, if_false]
          cases Fancy.visit br c false (negLookBodyPc true prog.length) nsv gix with
          | error err => rfl
          | ok r => obtain ⟨code, n⟩ := r; rfl

theorem stmt_look (br : Nat → Bool) (c : Expr) (la : Look) (ih : Stmt br c)
    (ihalt : ∀ es, c = .alt es → ∀ e ∈ es, Stmt br e) : Stmt br (.look c la) := by
  apply stmt_of_hard; intro hard prog nsv gix hd hfit hh
  have key := compile_lookaround_eq br c la ih ihalt hard prog nsv gix hd hfit hh
  rw [GenCompile.visit]
  simp only [mkInfo_hard_dom br _ gix hd, hh, mkInfo_expr, Bool.false_eq_true, if_false, key]
  cases Fancy.visit br (.look c la) hard prog.length nsv gix with
  | error err => simp
  | ok r => obtain ⟨code, n⟩ := r; simp

/-! ## all expressions -/

theorem stmt_all_aux (br : Nat → Bool)
    (hlook : ∀ c la, Stmt br c → (∀ es, c = .alt es → ∀ e ∈ es, Stmt br e) → Stmt br (.look c la)) :
    ∀ (n : Nat) (e : Expr), sizeOf e < n → Stmt br e := by
  intro n
  induction n with
  | zero => intro e h; omega
  | succ n ih =>
    intro e h
    have hmem : ∀ (es : List Expr) (e' : Expr), e' ∈ es → sizeOf es < n → sizeOf e' < n := by
      intro es e' he hs; have := List.sizeOf_lt_of_mem he; omega
    cases e with
    | empty => exact stmt_empty br
    | any nl => exact stmt_any br nl
    | assertion a => exact stmt_assertion br a
    | literal v ci => exact stmt_literal br v ci
    | concat es =>
      simp only [Expr.concat.sizeOf_spec] at h
      exact stmt_concat br es (fun e' he => ih e' (hmem es e' he (by omega)))
    | alt es =>
      simp only [Expr.alt.sizeOf_spec] at h
      exact stmt_alt br es (fun e' he => ih e' (hmem es e' he (by omega)))
    | group k c =>
      simp only [Expr.group.sizeOf_spec] at h
      exact stmt_group br k c (ih c (by omega))
    | look c la =>
      simp only [Expr.look.sizeOf_spec] at h
      refine hlook c la (ih c (by omega)) ?_
      intro es hc e' he
      subst hc
      simp only [Expr.alt.sizeOf_spec] at h
      exact ih e' (hmem es e' he (by omega))
    | «repeat» c lo hi gr =>
      simp only [Expr.repeat.sizeOf_spec] at h
      exact stmt_repeat br c lo hi gr (ih c (by omega))
    | delegate i sz ci => exact stmt_delegate br i sz ci
    | backref g => exact stmt_backref br g
    | atomic c =>
      simp only [Expr.atomic.sizeOf_spec] at h
      exact stmt_atomic br c (ih c (by omega))
    | keepOut => exact stmt_keepOut br
    | contPrev => exact stmt_contPrev br
    | backrefExists g => exact stmt_backrefExists br g
    | cond c y f =>
      simp only [Expr.cond.sizeOf_spec] at h
      exact stmt_cond br c y f (ih c (by omega)) (ih y (by omega)) (ih f (by omega))
    | subroutine g => exact stmt_subroutine br g

/-! ## the domain, in the terms used elsewhere -/

mutual
/-- no repeat carries the upper bound `some usize::MAX` (the parser reads bounds into `usize` and
    `usize::MAX` is its "no upper bound") -/
def hiOK : Expr → Bool
  | .concat es => hiOKAll es
  | .alt es => hiOKAll es
  | .group _ e => hiOK e
  | .look e _ => hiOK e
  | .repeat e _ hi _ => hi != some UNSET && hiOK e
  | .atomic e => hiOK e
  | .cond c y n => hiOK c && hiOK y && hiOK n
  | _ => true
def hiOKAll : List Expr → Bool
  | [] => true
  | e :: es => hiOK e && hiOKAll es
end

mutual
theorem domAt_of_numbered : ∀ (e : Expr) (g : Nat), (renumber e g).1 = e → analyzable e = true → hiOK e = true →
    domAt e g = true
  | .group k c, g, hn, ha, hh => by
    simp only [renumber, Expr.group.injEq] at hn
    simp only [analyzable] at ha; simp only [hiOK] at hh
    simp only [domAt, Bool.and_eq_true, beq_iff_eq]
    exact ⟨hn.1.symm, domAt_of_numbered c (g + 1) hn.2 ha hh⟩
  | .concat es, g, hn, ha, hh => by
    simp only [renumber, Expr.concat.injEq] at hn
    simp only [analyzable] at ha; simp only [hiOK] at hh
    simp only [domAt]; exact domAtList_of_numbered es g hn ha hh
  | .alt es, g, hn, ha, hh => by
    simp only [renumber, Expr.alt.injEq] at hn
    simp only [analyzable, Bool.and_eq_true] at ha; simp only [hiOK] at hh
    simp only [domAt, Bool.and_eq_true]; exact ⟨ha.1, domAtList_of_numbered es g hn ha.2 hh⟩
  | .look c la, g, hn, ha, hh => by
    simp only [renumber, Expr.look.injEq, and_true] at hn
    simp only [analyzable] at ha; simp only [hiOK] at hh
    simp only [domAt]; exact domAt_of_numbered c g hn ha hh
  | .repeat c lo hi gr, g, hn, ha, hh => by
    simp only [renumber, Expr.repeat.injEq, and_true] at hn
    simp only [analyzable] at ha; simp only [hiOK, Bool.and_eq_true] at hh
    simp only [domAt, Bool.and_eq_true]; exact ⟨hh.1, domAt_of_numbered c g hn ha hh.2⟩
  | .atomic c, g, hn, ha, hh => by
    simp only [renumber, Expr.atomic.injEq] at hn
    simp only [analyzable] at ha; simp only [hiOK] at hh
    simp only [domAt]; exact domAt_of_numbered c g hn ha hh
  | .cond c y n, g, hn, ha, hh => by
    simp only [renumber, Expr.cond.injEq, renumber_snd] at hn
    simp only [analyzable, Bool.and_eq_true] at ha; simp only [hiOK, Bool.and_eq_true] at hh
    simp only [domAt, Bool.and_eq_true]
    have h1 := hn.1
    have h2 := hn.2.1
    have h3 := hn.2.2
    exact ⟨⟨domAt_of_numbered c g h1 ha.1.1 hh.1.1, domAt_of_numbered y _ h2 ha.1.2 hh.1.2⟩,
      domAt_of_numbered n _ h3 ha.2 hh.2⟩
  | .empty, _, _, _, _ | .any _, _, _, _, _ | .assertion _, _, _, _, _ | .literal _ _, _, _, _, _
  | .delegate _ _ _, _, _, _, _ | .backref _, _, _, _, _ | .keepOut, _, _, _, _ | .contPrev, _, _, _, _
  | .backrefExists _, _, _, _, _ | .subroutine _, _, _, _, _ => by simp [domAt]
theorem domAtList_of_numbered : ∀ (es : List Expr) (g : Nat), (renumberList es g).1 = es → analyzableAll es = true →
    hiOKAll es = true → domAtList es g = true
  | [], _, _, _, _ => by simp [domAtList]
  | e :: es, g, hn, ha, hh => by
    simp only [renumberList, List.cons.injEq, renumber_snd] at hn
    simp only [analyzableAll, Bool.and_eq_true] at ha; simp only [hiOKAll, Bool.and_eq_true] at hh
    simp only [domAtList, Bool.and_eq_true]
    have h2 := hn.2
    exact ⟨domAt_of_numbered e g hn.1 ha.1 hh.1, domAtList_of_numbered es _ h2 ha.2 hh.2⟩
end

mutual
theorem hiOK_renumber : ∀ (e : Expr) (g : Nat), hiOK (renumber e g).1 = hiOK e
  | .group k c, g => by simp only [renumber, hiOK, hiOK_renumber c]
  | .concat es, g => by simp only [renumber, hiOK, hiOKAll_renumber es]
  | .alt es, g => by simp only [renumber, hiOK, hiOKAll_renumber es]
  | .look c la, g => by simp only [renumber, hiOK, hiOK_renumber c]
  | .repeat c lo hi gr, g => by simp only [renumber, hiOK, hiOK_renumber c]
  | .atomic c, g => by simp only [renumber, hiOK, hiOK_renumber c]
  | .cond c y n, g => by simp only [renumber, hiOK, hiOK_renumber c, hiOK_renumber y, hiOK_renumber n]
  | .empty, _ | .any _, _ | .assertion _, _ | .literal _ _, _ | .delegate _ _ _, _ | .backref _, _ | .keepOut, _
  | .contPrev, _ | .backrefExists _, _ | .subroutine _, _ => by simp [renumber]
theorem hiOKAll_renumber : ∀ (es : List Expr) (g : Nat), hiOKAll (renumberList es g).1 = hiOKAll es
  | [], _ => by simp [renumberList]
  | e :: es, g => by simp only [renumberList, hiOKAll, hiOK_renumber e, hiOKAll_renumber es]
end

mutual
theorem analyzable_renumber : ∀ (e : Expr) (g : Nat), analyzable (renumber e g).1 = analyzable e
  | .group k c, g => by simp only [renumber, analyzable, analyzable_renumber c]
  | .concat es, g => by simp only [renumber, analyzable, analyzableAll_renumber es]
  | .alt es, g => by
    simp only [renumber, analyzable, analyzableAll_renumber es]
    cases es <;> simp [renumberList]
  | .look c la, g => by simp only [renumber, analyzable, analyzable_renumber c]
  | .repeat c lo hi gr, g => by simp only [renumber, analyzable, analyzable_renumber c]
  | .atomic c, g => by simp only [renumber, analyzable, analyzable_renumber c]
  | .cond c y n, g => by
    simp only [renumber, analyzable, analyzable_renumber c, analyzable_renumber y, analyzable_renumber n]
  | .empty, _ | .any _, _ | .assertion _, _ | .literal _ _, _ | .delegate _ _ _, _ | .backref _, _ | .keepOut, _
  | .contPrev, _ | .backrefExists _, _ | .subroutine _, _ => by simp [renumber]
theorem analyzableAll_renumber : ∀ (es : List Expr) (g : Nat), analyzableAll (renumberList es g).1 = analyzableAll es
  | [], _ => by simp [renumberList]
  | e :: es, g => by simp only [renumberList, analyzableAll, analyzable_renumber e, analyzableAll_renumber es]
end

/-- the tree `build` analyses and compiles is in the domain -/
theorem domAt_wrapped (tree : Expr) (ha : analyzable tree = true) (hh : hiOK tree = true) :
    domAt (renumber (wrapTree tree) 0).1 0 = true := by
  apply domAt_of_numbered
  · have := renumber_idem (wrapTree tree) 0; rw [this]
  · rw [analyzable_renumber, analyzable_wrapTree]; exact ha
  · rw [hiOK_renumber]; simp [wrapTree, hiOK, hiOKAll, hh]

/-! ## `compile` -/

theorem compile_eq_of_stmt (br : Nat → Bool) (w : Expr) (hS : Stmt br w) (hd : domAt w 0 = true)
    (hfit : codeBound w < UNSET) :
    GenCompile.compile (mkInfo br w 0) =
      match Fancy.compile br w with
      | .error err => .error (.compile err)
      | .ok p => .ok p := by
  have h := hS false [] (groupCount w * 2) 0 hd (by simpa using hfit)
  unfold GenCompile.compile compile_with_options Fancy.compile
  simp only [Compiler.with_options, VMBuilder.new, mkInfo_endGroup, Nat.zero_add]
  rw [show ({ b := { prog := [], n_saves := groupCount w * 2 } } : Compiler) = st [] (groupCount w * 2) from rfl, h]
  simp only [List.length_nil]
  cases Fancy.visit br w false 0 (groupCount w * 2) 0 with
  | error err => simp
  | ok r => obtain ⟨code, n⟩ := r; simp [VMBuilder.build, Prog.new]


/-! ## the theorems -/

theorem stmt_all (br : Nat → Bool) (e : Expr) : Stmt br e :=
  stmt_all_aux br (stmt_look br) (sizeOf e + 1) e (Nat.lt_succ_self _)

/-- **The one-pass builder with back-patching is the pure compiler with absolute addresses.**
    For every expression `e` in the domain (`domAt e gix`: groups numbered as the analyzer numbers them from `gix`,
    alternations non-empty, no repeat bound `some usize::MAX`), every `hard`, every builder state `⟨prog, nsv⟩` whose
    program leaves room (`codeBound e` instructions below `usize::MAX`, the builder's "no previous alternative"
    sentinel): the translated `Compiler::visit`, run on the analyzer's `Info` tree of `e`, appends exactly the model's
    code for address `prog.length` and ends with the model's slot count — or fails with the model's error. In particular
    it never modifies the instructions that were there before (frame), and never panics. -/
theorem C03_compile_translated_eq (br : Nat → Bool) (e : Expr) (hard : Bool) (prog : List Insn) (nsv gix : Nat)
    (hd : domAt e gix = true) (hfit : prog.length + codeBound e < UNSET) :
    GenCompile.visit (mkInfo br e gix) hard ⟨⟨prog, nsv⟩⟩ =
      match Fancy.visit br e hard prog.length nsv gix with
      | .error err => .error (.compile err)
      | .ok (code, nsv') => .ok ⟨⟨prog ++ code, nsv'⟩⟩ := by
  have h := stmt_all br e hard prog nsv gix hd hfit
  rw [show (⟨⟨prog, nsv⟩⟩ : Compiler) = st prog nsv from rfl, h]
  cases Fancy.visit br e hard prog.length nsv gix with
  | error err => rfl
  | ok r => obtain ⟨code, n⟩ := r; rfl

/-- the frame property on its own: a successful sub-run only appends (at most `codeBound e` instructions), and
    it succeeds exactly when the model does -/
theorem C03_compile_translated_frame (br : Nat → Bool) (e : Expr) (hard : Bool) (prog : List Insn) (nsv gix : Nat)
    (hd : domAt e gix = true) (hfit : prog.length + codeBound e < UNSET) (s' : Compiler)
    (h : GenCompile.visit (mkInfo br e gix) hard ⟨⟨prog, nsv⟩⟩ = .ok s') :
    ∃ code nsv', Fancy.visit br e hard prog.length nsv gix = .ok (code, nsv') ∧ s' = ⟨⟨prog ++ code, nsv'⟩⟩ ∧
      code.length ≤ codeBound e := by
  rw [C03_compile_translated_eq br e hard prog nsv gix hd hfit] at h
  cases hm : Fancy.visit br e hard prog.length nsv gix with
  | error err => rw [hm] at h; cases h
  | ok r =>
    obtain ⟨code, n⟩ := r
    rw [hm] at h; simp only [Except.ok.injEq] at h
    exact ⟨code, n, rfl, h.symm, visit_length_le br e hard _ _ _ _ _ hm⟩

/-- companions for the list loops -/
theorem C03_compile_translated_middle (br : Nat → Bool) (ms : List Expr) (g : Nat) (prog : List Insn) (nsv : Nat)
    (hd : domAtList ms g = true) (hfit : prog.length + codeBoundList ms < UNSET) :
    compile_concat_loop0 (mkInfoList br ms g) ⟨⟨prog, nsv⟩⟩ =
      match visitMiddle br ms 0 ms.length prog.length nsv g with
      | .error err => .error (.compile err)
      | .ok (code, nsv') => .ok ⟨⟨prog ++ code, nsv'⟩⟩ := by
  have h := concat_loop_eq br ms (fun e _ => stmt_all br e) g prog nsv hd hfit
  rw [show (⟨⟨prog, nsv⟩⟩ : Compiler) = st prog nsv from rfl, h]
  cases visitMiddle br ms 0 ms.length prog.length nsv g with
  | error err => rfl
  | ok r => obtain ⟨code, n⟩ := r; rfl

theorem C03_compile_translated_alt (br : Nat → Bool) (es : List Expr) (hard : Bool) (g : Nat) (prog : List Insn) (nsv : Nat)
    (hd : domAtList es g = true) (hfit : prog.length + codeBoundList es < UNSET) :
    compile_alt es.length (fun compiler i =>
        match childAt (mkInfoList br es g) i with
        | none => .error (.panic "index")
        | some ⟨t0, _⟩ => GenCompile.visit t0 hard compiler) ⟨⟨prog, nsv⟩⟩ =
      match visitAlt br es hard prog.length nsv g with
      | .error err => .error (.compile err)
      | .ok (f, endPc, nsv') => .ok ⟨⟨prog ++ f endPc, nsv'⟩⟩ := by
  rw [show (⟨⟨prog, nsv⟩⟩ : Compiler) = st prog nsv from rfl,
    compile_alt_eq _ (Ralt br es hard g) (Bof es) es.length ?hspec ?hlen prog nsv (by rw [sumB_Bof]; omega), visitAlt_altPure]
  case hspec =>
    intro j hj L n hL
    obtain ⟨e, he⟩ : ∃ e, es[j]? = some e := ⟨es[j], List.getElem?_eq_getElem hj⟩
    have hget : (mkInfoList br es g)[j]? = some (mkInfo br e (g + groupCountList (es.take j))) := by
      rw [getElem?_mkInfoList, he]; rfl
    have hB : Bof es j = codeBound e := by simp [Bof, he]
    rw [childAt_eq_some hget]
    simp only [Ralt, he]
    exact stmt_all br e hard L n _ (domAt_getElem es g j e hd he) (by omega)
  case hlen =>
    intro j pc n c n' hR
    simp only [Ralt] at hR
    cases he : es[j]? with
    | none => rw [he] at hR; simp only [Except.ok.injEq, Prod.mk.injEq] at hR; simp [← hR.1]
    | some e => rw [he] at hR; simp only [Bof, he]; exact visit_length_le br e hard pc n _ c n' hR
  cases altPure (Ralt br es hard g) es.length 0 prog.length nsv with
  | error err => rfl
  | ok r => obtain ⟨f, J, endPc, n⟩ := r; rfl

/-- **`compile`**: on the (numbered) tree the analyzer was given, the translated `compile` returns the model's `Prog` -/
theorem C03_compile_eq (br : Nat → Bool) (w : Expr) (hd : domAt w 0 = true) (hfit : codeBound w < UNSET) :
    GenCompile.compile (mkInfo br w 0) =
      match Fancy.compile br w with
      | .error err => .error (.compile err)
      | .ok p => .ok p :=
  compile_eq_of_stmt br w (stmt_all br w) hd hfit

/-- source text of analyze.rs + compile.rs → the program `build` stores: on the wrapped, numbered tree of a pattern the
    translated `analyze` followed by the translated `compile` is `checkRefs` followed by the model's `compile` -/
theorem C01_analyze_compile_eq (tree : Expr) (backrefs : List Nat) (ha : analyzable tree = true) (hh : hiOK tree = true)
    (hfit : codeBound (renumber (wrapTree tree) 0).1 < UNSET) :
    let br := fun g => backrefs.contains g
    let wrapped := (renumber (wrapTree tree) 0).1
    (match genAnalyze br wrapped with
      | .error (.compile err) => (.error (.compile err) : Except CErr Prog)
      | .error .indexPanic => .error (.panic "index")
      | .ok info => GenCompile.compile info) =
    match checkRefs wrapped 0 with
    | .error err => .error (.compile err)
    | .ok _ => match Fancy.compile br wrapped with
      | .error err => .error (.compile err)
      | .ok p => .ok p := by
  intro br wrapped
  have hd : domAt wrapped 0 = true := domAt_wrapped tree ha hh
  have haw : analyzable wrapped = true := by
    show analyzable (renumber (wrapTree tree) 0).1 = true
    rw [analyzable_renumber, analyzable_wrapTree]; exact ha
  have hA := C13_analyzer_translated_eq br wrapped 0 haw
  unfold genAnalyze
  rw [hA]
  cases checkRefs wrapped 0 with
  | error err => rfl
  | ok g' =>
    simp only
    exact C03_compile_eq br wrapped hd hfit

end Fancy
