import FancyModel.Model.Expand
/-!
# C12 — template expansion follows the documented `$`-syntax and escape round-trips

Theorems about `Expand` (the mirror of src/expand.rs). They hold for **every** expander (any
substitution character and delimiters, so in particular `Expander::default()` and
`Expander::python()`), every identifier predicate, every template and every captures.
-/
namespace Fancy.Expand

variable (isId : Char → Bool) (x : Expander)

/-- what `escape` produces when it has to allocate: every substitution character doubled -/
def doubled (x : Expander) (t : List Char) : List Char :=
  t.flatMap fun c => if c == x.subChar then [c, c] else [c]

theorem doubled_eq_self (t : List Char) (h : t.contains x.subChar = false) : doubled x t = t := by
  induction t with
  | nil => rfl
  | cons c cs ih =>
    simp only [List.contains_cons, Bool.or_eq_false_iff] at h
    have hc : (c == x.subChar) = false := by
      cases hq : (c == x.subChar) with
      | false => rfl
      | true =>
        have : c = x.subChar := by simpa using hq
        rw [this] at h; simp at h
    simp only [doubled, List.flatMap_cons, hc] at ih ⊢
    simp only [Bool.false_eq_true, ↓reduceIte, List.singleton_append, List.cons.injEq, true_and]
    exact ih h.2

theorem escapeStr_eq (t : List Char) : escapeStr x t = doubled x t := by
  unfold escapeStr escape
  split
  · rfl
  · rename_i h
    simp only [Option.getD_none]
    exact (doubled_eq_self x t (by simpa using h)).symm

/-- scanning an escaped template yields the original characters, one `Char` step each -/
theorem exec_doubled (t : List Char) (fuel : Nat) (hf : (doubled x t).length ≤ fuel) :
    exec isId x fuel (doubled x t) = t.map Step.char := by
  induction t generalizing fuel with
  | nil => cases fuel <;> simp [doubled, exec]
  | cons c cs ih =>
    by_cases hc : c = x.subChar
    · subst hc
      have hd : doubled x (x.subChar :: cs) = x.subChar :: x.subChar :: doubled x cs := by
        simp [doubled]
      rw [hd] at hf ⊢
      cases fuel with
      | zero => simp at hf
      | succ fuel =>
        simp only [exec, beq_self_eq_true, ↓reduceIte, List.drop_succ_cons, List.drop_zero,
          List.map_cons, List.cons.injEq, true_and]
        apply ih
        simp only [List.length_cons] at hf
        omega
    · have hne : (c == x.subChar) = false := by simpa using hc
      have hd : doubled x (c :: cs) = c :: doubled x cs := by
        simp [doubled, hc]
      rw [hd] at hf ⊢
      cases fuel with
      | zero => simp at hf
      | succ fuel =>
        simp only [exec, hne, Bool.false_eq_true, ↓reduceIte, List.map_cons, List.cons.injEq, true_and]
        apply ih
        simp only [List.length_cons] at hf
        omega

/-- **round trip**: expanding `escape(s)` yields `s`, for every string, captures and expander -/
theorem C12_roundtrip (s : List Char) (caps : Caps) :
    expansion isId x (escapeStr x s) caps = s := by
  rw [escapeStr_eq]
  unfold expansion steps
  rw [exec_doubled isId x s _ (Nat.le_succ _)]
  induction s with
  | nil => rfl
  | cons c cs ih => simp [stepOut, ih]

/-- **`$$` is a literal `$`** (and `\\\\` a literal backslash for the Python expander) -/
theorem C12_dollar (caps : Caps) : expansion isId x [x.subChar, x.subChar] caps = [x.subChar] := by
  simp [expansion, steps, exec, stepOut]

/-- **verbatim**: a template without the substitution character expands to itself -/
theorem C12_verbatim (t : List Char) (caps : Caps) (h : t.contains x.subChar = false) :
    expansion isId x t caps = t := by
  have := C12_roundtrip isId x t caps
  rwa [escapeStr_eq, doubled_eq_self x t h] at this

/-- **borrow**: `escape` borrows its input iff the substitution character does not occur -/
theorem C12_escape_borrow (t : List Char) : escape x t = none ↔ t.contains x.subChar = false := by
  unfold escape
  split <;> simp_all

/-- **absent groups insert nothing**: a numbered reference to a group that is missing or did not
    match contributes the empty string -/
theorem C12_absent_num (caps : Caps) (n : Nat) (h : caps.get n = none) : stepOut caps (.groupNum n) = [] := by
  simp [stepOut, h]

theorem C12_absent_name (caps : Caps) (id : List Char) (h1 : caps.name id = none)
    (h2 : (parseUsize id).bind caps.get = none) : stepOut caps (.groupName id) = [] := by
  simp [stepOut, h1, h2]

/-- a present group inserts exactly its text -/
theorem C12_present_num (caps : Caps) (n : Nat) (m : List Char) (h : caps.get n = some m) :
    stepOut caps (.groupNum n) = m := by
  simp [stepOut, h]

/-- **`check` is sound**: it accepts only if every reference step names an existing group — a known
    name, or a number that is 0, or below `captures_len` in a regex without named groups -/
def StepOk (r : RegexInfo) : Step → Prop
  | .char _ => True
  | .groupName id =>
    r.names.contains id = true ∨
      ∃ n, parseUsize id = some n ∧ (n = 0 ∨ (r.names = [] ∧ n < r.capturesLen))
  | .groupNum n => n = 0 ∨ (r.names = [] ∧ n < r.capturesLen)
  | .error => False

theorem onGroupNum_ok (r : RegexInfo) (n : Nat) (h : onGroupNum r n = .ok ()) :
    n = 0 ∨ (r.names = [] ∧ n < r.capturesLen) := by
  unfold onGroupNum at h
  split at h
  · left; simpa using ‹(n == 0) = true›
  · split at h
    · cases h
    · split at h
      · right
        rename_i hne hlt
        exact ⟨by simpa using hne, hlt⟩
      · cases h

theorem checkStep_ok (r : RegexInfo) (st : Step) (h : checkStep r st = .ok ()) : StepOk r st := by
  cases st with
  | char c => trivial
  | groupName id =>
    simp only [checkStep] at h
    split at h
    · left; assumption
    · right
      split at h
      · rename_i n hn
        exact ⟨n, hn, onGroupNum_ok r n h⟩
      · cases h
  | groupNum n => exact onGroupNum_ok r n (by simpa [checkStep] using h)
  | error => simp [checkStep] at h

theorem C12_check_sound (t : List Char) (r : RegexInfo) (h : check isId x t r = .ok ()) :
    ∀ st ∈ steps isId x t, StepOk r st := by
  unfold check at h
  generalize steps isId x t = ss at h
  induction ss with
  | nil => intro st hst; simp at hst
  | cons s ss ih =>
    simp only [checkSteps] at h
    cases hs : checkStep r s with
    | error e => simp [hs] at h
    | ok u =>
      simp only [hs] at h
      intro st hst
      rcases List.mem_cons.mp hst with rfl | hst
      · exact checkStep_ok r _ hs
      · exact ih h st hst

/-! ### The documented interpretation on concrete templates (non-vacuity; `x` = ASCII letters) -/

def demoId (c : Char) : Bool := c.isAlphanum || c == '_'
def demoCaps : Caps := ⟨[some "ab".toList, some "a".toList, none], [("x".toList, 1)]⟩

-- `$1a` takes the longest identifier (`1a`, no such group), `${1}a` is group 1 then `a`
example : expansion demoId dollar "$1a|${1}a|$x|$2|$$".toList demoCaps = "|aa|a||$".toList := by decide
-- the Python expander: `\1`, `\g<x>`, `\\`
example : expansion demoId python "\\1-\\g<x>-\\\\".toList demoCaps = "a-a-\\".toList := by decide
-- a substitution character followed by nothing recognisable is copied
example : expansion demoId dollar "$-".toList demoCaps = "$-".toList := by decide
example : check demoId dollar "$x $1".toList ⟨3, ["x".toList]⟩ = .error .namedBackrefOnly := by rfl
example : check demoId dollar "$x $0".toList ⟨3, ["x".toList]⟩ = .ok () := by rfl

end Fancy.Expand
