import FancyModel.GeneratedApi
/-!
# C08 (fourth part) — the API-layer model is the API layer of lib.rs

`GeneratedApi.lean` is `codepoint_len`, `next_utf8`, `Matches::next`, `CaptureMatches::next`, `Split::next`,
`SplitN::next`, the constructors `find_iter` / `captures_iter` / `split` / `splitn` and `Regex::try_replacen`
(src/lib.rs) translated statement by statement by `tools/rs2lean_api.py` on every run of the check. This file proves
every translated definition equal to the hand-written model (Model/Api.lean, which C08 – C11 are proved about), for
EVERY search oracle, text, iterator state, fuel, limit and replacer - no hypotheses:

* `C08_codepoint_len_translated_eq`, `C08_next_utf8_translated_eq`;
* `C08_matches_next_translated_eq`: `genMatchesNext f text fuel it = Iter.next f id text fuel it`;
  `C09_capture_matches_next_translated_eq`: the same with `span`;
* `C10_split_next_translated_eq`, `C10_splitn_next_translated_eq`;
* the initial states (`C08_find_iter_translated_init`, …) and the collected forms `C08_find_iter_translated_eq`,
  `C09_captures_iter_translated_eq`, `C10_split_translated_eq`, `C10_splitn_translated_eq`: draining the translated `next`
  from the translated constructor, with the model's bounds, is `findIter` / `capturesIter` / `split` / `splitn`;
* `C11_replacen_translated_eq`: the translated `try_replacen` is `replacen` over the items of the translated iterator, on
  the fast path (`no_expansion()`) and on the `captures_iter` path.

The option-flag arithmetic (`OPTION_SKIPPED_EMPTY_MATCH` or `0`, tested by the engine with `&`) is translated and proved
equal to `Iter.flag` (`flag_bit`, `flag_zero`). A change of meaning in these functions changes the generated definitions
and breaks these proofs (notes/translator-api.md lists the mutations that were tried).
-/
set_option linter.unusedSimpArgs false
namespace Fancy
open Fancy.Api Fancy.Utf8 Fancy.GenApi

/-! ## the byte helpers -/

theorem C08_codepoint_len_translated_eq (b : Nat) : genCodepointLen b = codepointLen b := by
  unfold genCodepointLen codepointLen
  by_cases h1 : b < 128 <;> by_cases h2 : b < 224 <;> by_cases h3 : b < 240 <;> simp [h1, h2, h3] <;> omega

theorem C08_next_utf8_translated_eq (text : Bytes) (i : Nat) : genNextUtf8 text i = nextUtf8 text i := by
  unfold genNextUtf8 nextUtf8
  cases text[i]? <;> simp [C08_codepoint_len_translated_eq]

/-! ## the flag -/

theorem flag_bit (b : Bool) : ((if b then OPTION_SKIPPED_EMPTY_MATCH else 0) &&& OPTION_SKIPPED_EMPTY_MATCH != 0) = b := by
  cases b <;> decide

theorem flag_zero : ((0 : Nat) &&& OPTION_SKIPPED_EMPTY_MATCH != 0) = false := by decide

/-! ## `Matches::next`, `CaptureMatches::next` -/

theorem C08_matches_next_translated_eq (f : Oracle (Nat × Nat)) (text : Bytes) (fuel : Nat) (it : Iter) :
    genMatchesNext f text fuel it = Iter.next f id text fuel it := by
  induction fuel generalizing it with
  | zero => simp [genMatchesNext, Iter.next]
  | succ fuel ih =>
    simp only [genMatchesNext, Iter.next]
    by_cases hg : it.lastEnd > text.length
    · simp [hg]
    · simp only [hg, decide_false, Bool.false_eq_true, if_false]
      generalize hX : engineSearch f OPTION_SKIPPED_EMPTY_MATCH text it.lastEnd _ = X
      have hXe : X = f it.lastEnd it.flag := by
        rw [← hX]
        unfold engineSearch Iter.flag
        cases it.lastMatch with
        | none => simp only [flag_zero]
        | some lm => simp only [flag_bit]
      rw [hXe]
      cases f it.lastEnd it.flag with
      | error e => rfl
      | ok r =>
        cases r with
        | none => rfl
        | some a =>
          obtain ⟨s, e⟩ := a
          simp only [id, C08_next_utf8_translated_eq]
          by_cases hse : s = e
          · subst hse
            simp only [beq_self_eq_true, if_true]
            by_cases hl : some s = it.lastMatch
            · simp only [hl, beq_self_eq_true, if_true]
              exact ih _
            · have : (some s == it.lastMatch) = false := by simpa using hl
              simp [this]
          · have : (s == e) = false := by simpa using hse
            simp [this]

theorem C09_capture_matches_next_translated_eq {α : Type} (f : Oracle α) (span : α → Nat × Nat) (text : Bytes)
    (fuel : Nat) (it : Iter) :
    genCaptureMatchesNext f span text fuel it = Iter.next f span text fuel it := by
  induction fuel generalizing it with
  | zero => simp [genCaptureMatchesNext, Iter.next]
  | succ fuel ih =>
    simp only [genCaptureMatchesNext, Iter.next]
    by_cases hg : it.lastEnd > text.length
    · simp [hg]
    · simp only [hg, decide_false, Bool.false_eq_true, if_false]
      generalize hX : engineSearch f OPTION_SKIPPED_EMPTY_MATCH text it.lastEnd _ = X
      have hXe : X = f it.lastEnd it.flag := by
        rw [← hX]
        unfold engineSearch Iter.flag
        cases it.lastMatch with
        | none => simp only [flag_zero]
        | some lm => simp only [flag_bit]
      rw [hXe]
      cases f it.lastEnd it.flag with
      | error e => rfl
      | ok r =>
        cases r with
        | none => rfl
        | some a =>
          simp only [C08_next_utf8_translated_eq]
          cases hsp : span a with
          | mk s e =>
            simp only
            by_cases hse : s = e
            · subst hse
              simp only [beq_self_eq_true, if_true]
              by_cases hl : some s = it.lastMatch
              · simp only [hl, beq_self_eq_true, if_true]
                exact ih _
              · have : (some s == it.lastMatch) = false := by simpa using hl
                simp [this]
            · have : (s == e) = false := by simpa using hse
              simp [this]

/-! ## `Split::next`, `SplitN::next` -/

theorem C10_split_next_translated_eq (f : Oracle (Nat × Nat)) (text : Bytes) (s : Split) :
    genSplitNext f text s = Split.next f text s := by
  unfold genSplitNext Split.next
  rw [C08_matches_next_translated_eq]
  rcases Iter.next f id text (text.length + 2) s.it with ⟨r, it', b⟩
  cases r with
  | none =>
    simp only
    by_cases h : s.nextStart > text.length <;> simp [h]
  | some x =>
    cases x with
    | error e => rfl
    | ok m => obtain ⟨ms, me⟩ := m; rfl

theorem C10_splitn_next_translated_eq (f : Oracle (Nat × Nat)) (text : Bytes) (s : SplitN) :
    genSplitNNext f text s = SplitN.next f text s := by
  unfold genSplitNNext SplitN.next
  by_cases h0 : s.limit = 0
  · simp [h0]
  · have hb : (s.limit == 0) = false := by simpa using h0
    simp only [hb, Bool.false_eq_true, if_false, C10_split_next_translated_eq]
    by_cases h1 : s.limit - 1 > 0
    · simp only [h1, decide_true, if_true]
    · simp only [h1, decide_false, Bool.false_eq_true, if_false]
      by_cases h2 : s.sp.nextStart > text.length <;> simp [h2]

/-! ## the constructors and the collected forms -/

theorem C08_find_iter_translated_init : genFindIter = Iter.start := rfl
theorem C09_captures_iter_translated_init : genCapturesIter = Iter.start := rfl
theorem C10_split_translated_init : genSplit = Split.start := rfl
theorem C10_splitn_translated_init (limit : Nat) : genSplitn limit = ⟨Split.start, limit⟩ := rfl

theorem iterItems_eq_collect {α : Type} (f : Oracle α) (span : α → Nat × Nat) (text : Bytes)
    (next : Nat → Iter → Option (Except SearchErr α) × Iter × Bool)
    (hnext : ∀ fuel it, next fuel it = Iter.next f span text fuel it) (n : Nat) (it : Iter) :
    iterItems next text n it = Iter.collect f span text n it := by
  induction n generalizing it with
  | zero => rfl
  | succ n ih =>
    simp only [iterItems, Iter.collect, hnext]
    rcases Iter.next f span text (text.length + 2) it with ⟨r, it', b⟩
    cases r with
    | none => rfl
    | some x => simp only [ih]

/-- `find_iter(text)` drained through the TRANSLATED `next`, from the TRANSLATED initial state, is `findIter` -/
theorem C08_find_iter_translated_eq (f : Oracle (Nat × Nat)) (text : Bytes) :
    iterItems (genMatchesNext f text) text (text.length + 3) genFindIter = findIter f text :=
  iterItems_eq_collect f id text _ (C08_matches_next_translated_eq f text) _ _

theorem C09_captures_iter_translated_eq {α : Type} (f : Oracle α) (span : α → Nat × Nat) (text : Bytes) :
    iterItems (genCaptureMatchesNext f span text) text (text.length + 3) genCapturesIter = capturesIter f span text :=
  iterItems_eq_collect f span text _ (C09_capture_matches_next_translated_eq f span text) _ _

/-- the items of a `Split` / `SplitN`, by repeated calls of the translated `next` -/
def drain {σ : Type} (next : σ → Option Item × σ) : Nat → σ → List Item
  | 0, _ => []
  | n + 1, s =>
    match next s with
    | (none, _) => []
    | (some item, s') => item :: drain next n s'

theorem C10_split_translated_eq (f : Oracle (Nat × Nat)) (text : Bytes) :
    drain (genSplitNext f text) (text.length + 4) genSplit = split f text := by
  have h : ∀ n s, drain (genSplitNext f text) n s = Split.collect f text n s := by
    intro n
    induction n with
    | zero => intro s; rfl
    | succ n ih =>
      intro s
      simp only [drain, Split.collect, C10_split_next_translated_eq]
      rcases Split.next f text s with ⟨r, s'⟩
      cases r with
      | none => rfl
      | some x => simp only [ih]
  exact h _ _

theorem C10_splitn_translated_eq (f : Oracle (Nat × Nat)) (text : Bytes) (limit : Nat) :
    drain (genSplitNNext f text) (text.length + 4) (genSplitn limit) = splitn f text limit := by
  have h : ∀ n s, drain (genSplitNNext f text) n s = SplitN.collect f text n s := by
    intro n
    induction n with
    | zero => intro s; rfl
    | succ n ih =>
      intro s
      simp only [drain, SplitN.collect, C10_splitn_next_translated_eq]
      rcases SplitN.next f text s with ⟨r, s'⟩
      cases r with
      | none => rfl
      | some x => simp only [ih]
  exact h _ _

/-! ## `try_replacen` -/

/-- what follows a `for` loop of `try_replacen`: the tail of the text is appended -/
def afterLoop (text : Bytes) : LoopRes (Nat × Bytes) Replaced → Replaced
  | .ret r => r
  | .next (last, acc) =>
    match slice text last text.length with
    | none => .panic
    | some tail => .owned (acc ++ tail)

theorem loopTryReplacen_eq {α : Type} (find : Oracle (Nat × Nat)) (caps : Oracle α) (span : α → Nat × Nat) (text : Bytes)
    (limit : Nat) (ne : Option Bytes) (ra : α → Bytes) (rep : Bytes) (items : List (Except SearchErr (Nat × Nat)))
    (i last : Nat) (acc : Bytes) :
    afterLoop text (loopTryReplacen find caps span text limit ne ra rep (enumFrom i items) (last, acc)) =
      replaceLoop id (fun _ => rep) text limit items i last acc := by
  induction items generalizing i last acc with
  | nil => simp only [enumFrom, loopTryReplacen, afterLoop, replaceLoop]; cases slice text last text.length <;> rfl
  | cons x xs ih =>
    cases x with
    | error e => simp [enumFrom, loopTryReplacen, afterLoop, replaceLoop]
    | ok m =>
      obtain ⟨s, e⟩ := m
      simp only [enumFrom, loopTryReplacen, replaceLoop, id]
      by_cases hl : (decide (limit > 0) && decide (i ≥ limit)) = true
      · simp only [hl, if_true, afterLoop]; cases slice text last text.length <;> rfl
      · simp only [hl, Bool.false_eq_true, if_false]
        cases slice text last s with
        | none => rfl
        | some pre => simp only; exact ih (i + 1) e _

theorem loopTryReplacen2_eq {α : Type} (find : Oracle (Nat × Nat)) (caps : Oracle α) (span : α → Nat × Nat) (text : Bytes)
    (limit : Nat) (ne : Option Bytes) (ra : α → Bytes) (items : List (Except SearchErr α))
    (i last : Nat) (acc : Bytes) :
    afterLoop text (loopTryReplacen2 find caps span text limit ne ra (enumFrom i items) (last, acc)) =
      replaceLoop span ra text limit items i last acc := by
  induction items generalizing i last acc with
  | nil => simp only [enumFrom, loopTryReplacen2, afterLoop, replaceLoop]; cases slice text last text.length <;> rfl
  | cons x xs ih =>
    cases x with
    | error e => simp [enumFrom, loopTryReplacen2, afterLoop, replaceLoop]
    | ok a =>
      simp only [enumFrom, loopTryReplacen2, replaceLoop]
      by_cases hl : (decide (limit > 0) && decide (i ≥ limit)) = true
      · simp only [hl, if_true, afterLoop]; cases slice text last text.length <;> rfl
      · simp only [hl, Bool.false_eq_true, if_false]
        cases hsp : span a with
        | mk s e =>
          simp only
          cases slice text last s with
          | none => rfl
          | some pre => simp only; exact ih (i + 1) e _

theorem enumFrom_isEmpty {α : Type} (n : Nat) (l : List α) : (enumFrom n l).isEmpty = l.isEmpty := by
  cases l <;> rfl

/-- **`try_replacen` as translated is `replacen`** over the items of the translated iterator: the fast path
    (`no_expansion() = Some(rep)`) over `find_iter` with the constant replacement, the other path over `captures_iter`
    with `replace_append` -/
theorem C11_replacen_translated_eq {α : Type} (find : Oracle (Nat × Nat)) (caps : Oracle α) (span : α → Nat × Nat)
    (text : Bytes) (limit : Nat) (ne : Option Bytes) (ra : α → Bytes) :
    genTryReplacen find caps span text limit ne ra =
      match ne with
      | some rep => replacen (findIter find text) id (fun _ => rep) text limit
      | none => replacen (capturesIter caps span text) span ra text limit := by
  unfold genTryReplacen
  cases ne with
  | some rep =>
    simp only [C08_find_iter_translated_eq, enumFrom_isEmpty]
    cases hi : findIter find text with
    | nil => simp [replacen]
    | cons x xs =>
      have := loopTryReplacen_eq find caps span text limit (some rep) ra rep (x :: xs) 0 0 []
      simp only [List.isEmpty_cons, Bool.false_eq_true, if_false, replacen, ← this, afterLoop]
      cases loopTryReplacen find caps span text limit (some rep) ra rep (enumFrom 0 (x :: xs)) (0, []) with
      | ret r => rfl
      | next acc => obtain ⟨l, a⟩ := acc; simp only; cases slice text l text.length <;> rfl
  | none =>
    simp only [C09_captures_iter_translated_eq, enumFrom_isEmpty]
    cases hi : capturesIter caps span text with
    | nil => simp [replacen]
    | cons x xs =>
      have := loopTryReplacen2_eq find caps span text limit none ra (x :: xs) 0 0 []
      simp only [List.isEmpty_cons, Bool.false_eq_true, if_false, replacen, ← this, afterLoop]
      cases loopTryReplacen2 find caps span text limit none ra (enumFrom 0 (x :: xs)) (0, []) with
      | ret r => rfl
      | next acc => obtain ⟨l, a⟩ := acc; simp only; cases slice text l text.length <;> rfl

end Fancy
