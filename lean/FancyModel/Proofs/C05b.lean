import FancyModel.Model.Utf8
import FancyModel.Model.VM
/-!
# C05b — the UTF-8 layer: byte offsets of character positions

The engine model indexes the text by code point; the Rust code indexes by byte.  This file is the
bridge (DESIGN.md §3.1): for a text `cs : List Nat` of scalar values, `text := encode cs` is its
UTF-8 encoding and `off cs k := (encode (cs.take k)).length` is the byte offset of the `k`-th
character.  The theorems say that the byte-level helpers of `src/lib.rs` / `src/vm.rs`
(`codepoint_len`, `next_utf8`, `prev_codepoint_ix`, `is_char_boundary`, `&text[a..b]`, `GoBack`,
`Lit`) act on the offsets `off cs k` exactly as "+1 / -1 / substring / prefix" act on character
positions `k`.

Remark on hypotheses.  The brief asks for the statements "for every list of scalar values".  The
structural theorems below turned out to hold for **every** `cs : List Nat` (the encoder's lead byte
is `≥ 0xf0` for everything `≥ 0x10000`, so the shape of the encoding never depends on the upper
bound), hence they carry no scalar hypothesis — that is strictly stronger than what was asked.
`isScalar` is needed exactly once: `C05_bytes_lt_256` (the encoder really produces bytes, and lead
bytes `≤ 0xf4`).
-/
namespace Fancy.Utf8

/-- Unicode scalar value: in range and not a surrogate -/
def isScalar (c : Nat) : Prop := c < 0x110000 ∧ ¬ (0xD800 ≤ c ∧ c < 0xE000)

instance : DecidablePred isScalar := fun c => by unfold isScalar; exact inferInstance

/-- byte offset of the `k`-th character of `cs` in `encode cs` -/
def off (cs : List Nat) (k : Nat) : Nat := (encode (cs.take k)).length

/-! ## the encoder -/

theorem encode_nil : encode [] = [] := rfl

theorem encode_cons (c : Nat) (cs : List Nat) : encode (c :: cs) = encodeChar c ++ encode cs := by
  simp [encode]

theorem encode_append (a b : List Nat) : encode (a ++ b) = encode a ++ encode b := by
  simp [encode]

/-- shape of one encoded character: a lead byte whose `codepointLen` is the length of the encoding,
followed by continuation bytes only -/
theorem encodeChar_shape (c : Nat) :
    ∃ b rest, encodeChar c = b :: rest ∧ isLead b = true ∧ codepointLen b = rest.length + 1 ∧
      ∀ x ∈ rest, isLead x = false := by
  have hcl : ∀ b n : Nat, (n = 1 ∧ b < 0x80 ∨ n = 2 ∧ 0x80 ≤ b ∧ b < 0xe0 ∨ n = 3 ∧ 0xe0 ≤ b ∧ b < 0xf0
      ∨ n = 4 ∧ 0xf0 ≤ b) → codepointLen b = n := by
    intro b n h
    unfold codepointLen
    split
    · omega
    · split
      · omega
      · split <;> omega
  have hld : ∀ b : Nat, (b < 0x80 ∨ 0xc0 ≤ b) → isLead b = true := by
    intro b h; simp [isLead]; omega
  have hct : ∀ b : Nat, 0x80 ≤ b → b < 0xc0 → isLead b = false := by
    intro b h1 h2
    cases h : isLead b with
    | false => rfl
    | true => simp [isLead] at h; omega
  unfold encodeChar
  split
  · exact ⟨_, _, rfl, hld _ (by omega), hcl _ _ (by simp <;> omega), by simp⟩
  · split
    · refine ⟨_, _, rfl, hld _ (by omega), hcl _ _ (by simp <;> omega), ?_⟩
      intro x hx
      simp at hx
      exact hct x (by omega) (by omega)
    · split
      · refine ⟨_, _, rfl, hld _ (by omega), hcl _ _ (by simp <;> omega), ?_⟩
        intro x hx
        simp at hx
        rcases hx with rfl | rfl <;> exact hct _ (by omega) (by omega)
      · refine ⟨_, _, rfl, hld _ (by omega), hcl _ _ (by simp <;> omega), ?_⟩
        intro x hx
        simp at hx
        rcases hx with rfl | rfl | rfl <;> exact hct _ (by omega) (by omega)

theorem encodeChar_length_pos (c : Nat) : 0 < (encodeChar c).length := by
  obtain ⟨b, rest, he, _⟩ := encodeChar_shape c
  simp [he]

theorem encodeChar_length_le (c : Nat) : (encodeChar c).length ≤ 4 := by
  unfold encodeChar
  split
  · simp
  · split
    · simp
    · split <;> simp

/-- the encoder is injective and, more strongly, prefix-free -/
theorem encodeChar_prefix_free (c d : Nat) (X Y : Bytes)
    (h : encodeChar c ++ X <+: encodeChar d ++ Y) : c = d := by
  obtain ⟨t, ht⟩ := h
  unfold encodeChar at ht
  split at ht <;> split at ht
  all_goals first
    | (simp at ht; omega)
    | (split at ht <;> first
        | (simp at ht; omega)
        | (split at ht <;> first
            | (simp at ht; omega)
            | (split at ht <;> first
                | (simp at ht; omega)
                | (split at ht <;> simp at ht <;> omega))))

theorem encode_split (cs : List Nat) (k : Nat) :
    encode cs = encode (cs.take k) ++ encode (cs.drop k) := by
  rw [← encode_append, List.take_append_drop]

theorem encode_split3 (cs : List Nat) (k : Nat) (h : k < cs.length) :
    encode cs = encode (cs.take k) ++ (encodeChar cs[k] ++ encode (cs.drop (k + 1))) := by
  rw [← encode_cons, ← List.drop_eq_getElem_cons h]
  exact encode_split cs k

/-! ## offsets -/

theorem off_zero (cs : List Nat) : off cs 0 = 0 := by simp [off, encode]

theorem off_succ (cs : List Nat) (k : Nat) (h : k < cs.length) :
    off cs (k + 1) = off cs k + (encodeChar cs[k]).length := by
  unfold off
  rw [List.take_succ_eq_append_getElem h, encode_append]
  simp [encode]

theorem off_of_ge (cs : List Nat) (k : Nat) (h : cs.length ≤ k) :
    off cs k = (encode cs).length := by
  unfold off
  rw [List.take_of_length_le h]

theorem off_length (cs : List Nat) : off cs cs.length = (encode cs).length :=
  off_of_ge cs _ (Nat.le_refl _)

theorem off_le_length (cs : List Nat) (k : Nat) : off cs k ≤ (encode cs).length := by
  have := congrArg List.length (encode_split cs k)
  simp only [List.length_append] at this
  unfold off
  omega

theorem off_lt_succ (cs : List Nat) (k : Nat) (h : k < cs.length) : off cs k < off cs (k + 1) := by
  have := encodeChar_length_pos cs[k]
  rw [off_succ cs k h]
  omega

theorem off_lt_of_lt (cs : List Nat) (j k : Nat) (hjk : j < k) (hk : k ≤ cs.length) :
    off cs j < off cs k := by
  induction k with
  | zero => omega
  | succ k ih =>
    have h1 := off_lt_succ cs k (by omega)
    by_cases hj : j = k
    · subst hj; exact h1
    · have := ih (by omega) (by omega); omega

theorem off_le_of_le (cs : List Nat) (j k : Nat) (hjk : j ≤ k) (hk : k ≤ cs.length) :
    off cs j ≤ off cs k := by
  by_cases h : j = k
  · subst h; exact Nat.le_refl _
  · exact Nat.le_of_lt (off_lt_of_lt cs j k (by omega) hk)

theorem off_add (cs : List Nat) (a n : Nat) :
    off cs (a + n) = off cs a + (encode ((cs.drop a).take n)).length := by
  unfold off
  rw [List.take_add, encode_append, List.length_append]

theorem drop_off (cs : List Nat) (k : Nat) : (encode cs).drop (off cs k) = encode (cs.drop k) := by
  rw [encode_split cs k]
  unfold off
  simp

/-- the bytes of the `k`-th character sit at `off cs k …` -/
theorem get_at (cs : List Nat) (k j : Nat) (h : k < cs.length)
    (hj : j < (encodeChar cs[k]).length) :
    (encode cs)[off cs k + j]? = (encodeChar cs[k])[j]? := by
  rw [encode_split3 cs k h]
  have hoff : off cs k = (encode (cs.take k)).length := rfl
  rw [List.getElem?_append_right (by omega), hoff, Nat.add_sub_cancel_left,
    List.getElem?_append_left hj]

/-- every byte position lies inside exactly one character -/
theorem cover (cs : List Nat) (i : Nat) (hi : i < (encode cs).length) :
    ∃ k, ∃ h : k < cs.length, off cs k ≤ i ∧ i < off cs k + (encodeChar cs[k]).length := by
  have gen : ∀ n, n ≤ cs.length → i < off cs n →
      ∃ k, ∃ h : k < cs.length, off cs k ≤ i ∧ i < off cs k + (encodeChar cs[k]).length := by
    intro n
    induction n with
    | zero => intro _ h; rw [off_zero] at h; omega
    | succ n ih =>
      intro hn h
      by_cases h' : i < off cs n
      · exact ih (by omega) h'
      · refine ⟨n, by omega, by omega, ?_⟩
        rw [off_succ cs n (by omega)] at h
        exact h
  exact gen cs.length (Nat.le_refl _) (by rw [off_length]; exact hi)

theorem lead_at (cs : List Nat) (k : Nat) (h : k < cs.length) :
    ∃ b, (encode cs)[off cs k]? = some b ∧ isLead b = true ∧
      codepointLen b = (encodeChar cs[k]).length := by
  obtain ⟨b, rest, he, hl, hc, _⟩ := encodeChar_shape cs[k]
  have := get_at cs k 0 h (encodeChar_length_pos _)
  rw [Nat.add_zero, he] at this
  refine ⟨b, by simpa using this, hl, ?_⟩
  rw [he, hc]; simp

theorem cont_at (cs : List Nat) (k j : Nat) (h : k < cs.length) (hj0 : 0 < j)
    (hj : j < (encodeChar cs[k]).length) :
    ∃ b, (encode cs)[off cs k + j]? = some b ∧ isLead b = false := by
  obtain ⟨b, rest, he, _, _, hr⟩ := encodeChar_shape cs[k]
  have := get_at cs k j h hj
  rw [he] at this hj
  obtain ⟨j', rfl⟩ : ∃ j', j = j' + 1 := ⟨j - 1, by omega⟩
  simp only [List.length_cons] at hj
  rw [List.getElem?_cons_succ, List.getElem?_eq_getElem (l := rest) (i := j') (by omega)] at this
  exact ⟨rest[j'], this, hr _ (List.getElem_mem _)⟩

/-! ## 1. character boundaries are exactly the character offsets -/

/-- `is_char_boundary(text, i)` holds exactly for the byte offsets of character positions
`0 … cs.length`.  (No restriction on `i`: beyond `text.length` both sides are false, see
`C05_boundary_beyond`.) -/
theorem C05_boundary_iff (cs : List Nat) (i : Nat) :
    isBoundary (encode cs) i = true ↔ ∃ k, k ≤ cs.length ∧ i = off cs k := by
  constructor
  · intro hb
    simp only [isBoundary, Bool.or_eq_true, beq_iff_eq] at hb
    rcases hb with (h0 | hlen) | hlead
    · exact ⟨0, by omega, by rw [off_zero]; exact h0⟩
    · exact ⟨cs.length, Nat.le_refl _, by rw [off_length]; exact hlen⟩
    · cases hget : (encode cs)[i]? with
      | none => rw [hget] at hlead; simp at hlead
      | some b =>
        rw [hget] at hlead
        simp only at hlead
        have hi : i < (encode cs).length := by
          rcases List.getElem?_eq_some_iff.mp hget with ⟨h, _⟩; exact h
        obtain ⟨k, hk, hle, hlt⟩ := cover cs i hi
        by_cases hj : i = off cs k
        · exact ⟨k, by omega, hj⟩
        · obtain ⟨b', hb', hnl⟩ := cont_at cs k (i - off cs k) hk (by omega) (by omega)
          rw [show off cs k + (i - off cs k) = i by omega, hget] at hb'
          cases hb'
          rw [hlead] at hnl; cases hnl
  · rintro ⟨k, hk, rfl⟩
    simp only [isBoundary, Bool.or_eq_true, beq_iff_eq]
    by_cases hk' : k = cs.length
    · subst hk'; exact Or.inl (Or.inr (off_length cs))
    · obtain ⟨b, hb, hl, _⟩ := lead_at cs k (by omega)
      right
      rw [hb]; exact hl

/-- beyond the end of the text nothing is a boundary (and nothing is a character offset) -/
theorem C05_boundary_beyond (cs : List Nat) (i : Nat) (hi : (encode cs).length < i) :
    isBoundary (encode cs) i = false := by
  cases h : isBoundary (encode cs) i with
  | false => rfl
  | true =>
    obtain ⟨k, _, rfl⟩ := (C05_boundary_iff cs i).mp h
    have := off_le_length cs k
    omega

example : isBoundary (encode [0x61, 0xe9, 0x20ac, 0x1f600]) 3 = true ∧
    isBoundary (encode [0x61, 0xe9, 0x20ac, 0x1f600]) 4 = false ∧
    off [0x61, 0xe9, 0x20ac, 0x1f600] 2 = 3 := by decide

/-! ## 2. stepping forward one character -/

/-- `next_utf8` from a character offset lands on the next character offset, and `codepoint_len`
of the byte there (what `Insn::Any` adds) is the encoded length of that character. -/
theorem C05_next_boundary (cs : List Nat) (k : Nat) (hk : k < cs.length) :
    nextUtf8 (encode cs) (off cs k) = off cs (k + 1) ∧
    ∃ h : off cs k < (encode cs).length,
      codepointLen ((encode cs)[off cs k]'h) = (encodeChar cs[k]).length := by
  obtain ⟨b, hb, _, hc⟩ := lead_at cs k hk
  obtain ⟨hlt, hget⟩ := List.getElem?_eq_some_iff.mp hb
  refine ⟨?_, hlt, ?_⟩
  · simp only [nextUtf8, hb]
    rw [off_succ cs k hk, hc]
  · rw [hget, hc]

/-- at the end of the text `next_utf8` goes to `len + 1` (the `None => i + 1` arm), which is the
only way it leaves the set of character offsets -/
theorem C05_next_at_end (cs : List Nat) :
    nextUtf8 (encode cs) (off cs cs.length) = (encode cs).length + 1 := by
  unfold nextUtf8
  rw [off_length, List.getElem?_eq_none (Nat.le_refl _)]

example : nextUtf8 (encode [0x61, 0xe9, 0x20ac, 0x1f600]) (off [0x61, 0xe9, 0x20ac, 0x1f600] 2)
    = off [0x61, 0xe9, 0x20ac, 0x1f600] 3 := by decide

/-! ## 3. stepping back one character -/

theorem prev_aux (cs : List Nat) (k j : Nat) (h : k < cs.length)
    (hj : j < (encodeChar cs[k]).length) :
    prevCodepointIx (encode cs) (off cs k + j + 1) = some (off cs k) := by
  induction j with
  | zero =>
    obtain ⟨b, hb, hl, _⟩ := lead_at cs k h
    rw [prevCodepointIx, hb]
    simp [hl]
  | succ j ih =>
    obtain ⟨b, hb, hl⟩ := cont_at cs k (j + 1) h (by omega) hj
    rw [prevCodepointIx, hb]
    simp only [hl]
    exact ih (by omega)

/-- `prev_codepoint_ix` from the offset of character position `k > 0` does not underflow and lands
exactly on the offset of position `k - 1`; at `0` it would underflow (the VM checks `ix == 0`
first). -/
theorem C05_prev_boundary (cs : List Nat) :
    (∀ k, 0 < k → k ≤ cs.length →
      prevCodepointIx (encode cs) (off cs k) = some (off cs (k - 1))) ∧
    prevCodepointIx (encode cs) 0 = none := by
  refine ⟨?_, rfl⟩
  intro k hk0 hk
  obtain ⟨k', rfl⟩ : ∃ k', k = k' + 1 := ⟨k - 1, by omega⟩
  have hlen := encodeChar_length_pos cs[k']
  have := prev_aux cs k' ((encodeChar cs[k']).length - 1) (by omega) (by omega)
  rw [off_succ cs k' (by omega), Nat.add_sub_cancel]
  rw [show off cs k' + ((encodeChar cs[k']).length - 1) + 1
      = off cs k' + (encodeChar cs[k']).length by omega] at this
  exact this

example : prevCodepointIx (encode [0x61, 0xe9, 0x20ac, 0x1f600])
    (off [0x61, 0xe9, 0x20ac, 0x1f600] 4) = some (off [0x61, 0xe9, 0x20ac, 0x1f600] 3) := by decide

/-! ## 4. offsets are strictly increasing; `GoBack n` -/

/-- `off` is strictly increasing on `0 … cs.length`, starts at `0`, ends at `text.length` -/
theorem C05_off_strict_mono (cs : List Nat) :
    (∀ j k, j < k → k ≤ cs.length → off cs j < off cs k) ∧
    off cs 0 = 0 ∧ off cs cs.length = (encode cs).length :=
  ⟨off_lt_of_lt cs, off_zero cs, off_length cs⟩

/-- a character is between one and four bytes: `off (k+1) - off k ∈ {1,…,4}` -/
theorem C05_off_step (cs : List Nat) (k : Nat) (hk : k < cs.length) :
    off cs k + 1 ≤ off cs (k + 1) ∧ off cs (k + 1) ≤ off cs k + 4 := by
  have h1 := encodeChar_length_pos cs[k]
  have h2 := encodeChar_length_le cs[k]
  rw [off_succ cs k hk]
  omega

/-- byte-level `Insn::GoBack(count)` of src/vm.rs:
`for _ in 0..count { if ix == 0 { break 'fail } ix = prev_codepoint_ix(s, ix) }`.
Outer `none` = panic (index underflow / out of range inside `prev_codepoint_ix`),
`some none` = the thread fails, `some (some ix)` = continue at byte `ix`. -/
def goBackBytes (text : Bytes) : Nat → Nat → Option (Option Nat)
  | 0, ix => some (some ix)
  | n + 1, ix =>
    if ix = 0 then some none
    else match prevCodepointIx text ix with
      | none => none
      | some ix' => goBackBytes text n ix'

/-- going back `n` characters from character position `k ≥ n`, byte-wise, lands on `off (k - n)` -/
theorem C05_goback_chars (cs : List Nat) (n k : Nat) (hk : k ≤ cs.length) (hn : n ≤ k) :
    goBackBytes (encode cs) n (off cs k) = some (some (off cs (k - n))) := by
  induction n generalizing k with
  | zero => rfl
  | succ n ih =>
    have hpos : off cs 0 < off cs k := off_lt_of_lt cs 0 k (by omega) hk
    rw [off_zero] at hpos
    rw [goBackBytes, if_neg (by omega), (C05_prev_boundary cs).1 k (by omega) hk]
    simp only
    rw [ih (k - 1) (by omega) (by omega)]
    rw [show k - 1 - n = k - (n + 1) by omega]

/-- … and from a position `k < n` the thread fails (never panics) -/
theorem C05_goback_fail (cs : List Nat) (n k : Nat) (hk : k ≤ cs.length) (hn : k < n) :
    goBackBytes (encode cs) n (off cs k) = some none := by
  induction n generalizing k with
  | zero => omega
  | succ n ih =>
    by_cases hk0 : k = 0
    · subst hk0; rw [off_zero]; rfl
    · have hpos : off cs 0 < off cs k := off_lt_of_lt cs 0 k (by omega) hk
      rw [off_zero] at hpos
      rw [goBackBytes, if_neg (by omega), (C05_prev_boundary cs).1 k (by omega) hk]
      simp only
      exact ih (k - 1) (by omega) (by omega)

/-- the byte-level `GoBack` is the model's code-point `goBack` transported along `off` -/
theorem C05_goback_model (cs : List Nat) (n k : Nat) (hk : k ≤ cs.length) :
    goBackBytes (encode cs) n (off cs k) = some ((Fancy.goBack k n).map (off cs)) := by
  unfold Fancy.goBack
  by_cases hn : n ≤ k
  · rw [C05_goback_chars cs n k hk hn, if_pos hn]; rfl
  · rw [C05_goback_fail cs n k hk (by omega), if_neg hn]; rfl

example : goBackBytes (encode [0x61, 0xe9, 0x20ac, 0x1f600]) 2
    (off [0x61, 0xe9, 0x20ac, 0x1f600] 3) = some (some (off [0x61, 0xe9, 0x20ac, 0x1f600] 1)) := by
  decide

/-! ## 5. slicing between character positions -/

/-- `&text[off a .. off b]` never panics and is the encoding of the characters `a … b-1` -/
theorem C05_slice_ok (cs : List Nat) (a b : Nat) (hab : a ≤ b) (hb : b ≤ cs.length) :
    slice (encode cs) (off cs a) (off cs b) = some (encode ((cs.drop a).take (b - a))) := by
  have h1 : off cs a ≤ off cs b := off_le_of_le cs a b hab hb
  have h2 : off cs b ≤ (encode cs).length := off_le_length cs b
  have h3 : isBoundary (encode cs) (off cs a) = true :=
    (C05_boundary_iff cs _).mpr ⟨a, by omega, rfl⟩
  have h4 : isBoundary (encode cs) (off cs b) = true :=
    (C05_boundary_iff cs _).mpr ⟨b, hb, rfl⟩
  have h5 : off cs b = off cs a + (encode ((cs.drop a).take (b - a))).length := by
    rw [← off_add]; congr 1; omega
  unfold slice
  rw [if_pos (by simp [h1, h2, h3, h4])]
  rw [drop_off, h5, Nat.add_sub_cancel_left]
  congr 1
  rw [encode_split (cs.drop a) (b - a)]
  simp

example : slice (encode [0x61, 0xe9, 0x20ac, 0x1f600]) (off [0x61, 0xe9, 0x20ac, 0x1f600] 1)
    (off [0x61, 0xe9, 0x20ac, 0x1f600] 3) = some (encode [0xe9, 0x20ac]) := by decide

/-! ## 6. literals: UTF-8 is prefix-free -/

theorem encode_prefix_iff (l₁ l₂ : List Nat) : encode l₁ <+: encode l₂ ↔ l₁ <+: l₂ := by
  constructor
  · intro h
    induction l₁ generalizing l₂ with
    | nil => exact List.nil_prefix
    | cons c l₁ ih =>
      cases l₂ with
      | nil =>
        rw [encode_nil, List.prefix_nil, encode_cons] at h
        have := encodeChar_length_pos c
        have h' := congrArg List.length h
        rw [List.length_append, List.length_nil] at h'
        omega
      | cons d l₂ =>
        rw [encode_cons, encode_cons] at h
        have hcd := encodeChar_prefix_free c d _ _ h
        subst hcd
        rw [List.prefix_append_right_inj] at h
        rw [List.cons_prefix_cons]
        exact ⟨rfl, ih l₂ h⟩
  · rintro ⟨t, rfl⟩
    rw [encode_append]
    exact List.prefix_append _ _

/-- `Insn::Lit`: the bytes of `encode lit` occur at byte offset `off k` iff `lit` is a prefix of the
characters from position `k` on … -/
theorem C05_lit_prefix (cs lit : List Nat) (k : Nat) :
    encode lit <+: (encode cs).drop (off cs k) ↔ lit <+: cs.drop k := by
  rw [drop_off, encode_prefix_iff]

/-- … in the form `matches_literal` computes it (`s.as_bytes()[ix..ix_end] == val`) … -/
theorem C05_lit_prefix_take (cs lit : List Nat) (k : Nat) :
    ((encode cs).drop (off cs k)).take (encode lit).length = encode lit ↔ lit <+: cs.drop k := by
  rw [← C05_lit_prefix cs lit k, List.prefix_iff_eq_take]
  exact eq_comm

/-- … and then the end `ix_end = ix + val.len()` is the offset of character position
`k + lit.length`, a character boundary inside the text. -/
theorem C05_lit_end (cs lit : List Nat) (k : Nat) (hk : k ≤ cs.length) (h : lit <+: cs.drop k) :
    off cs k + (encode lit).length = off cs (k + lit.length) ∧
    k + lit.length ≤ cs.length ∧
    isBoundary (encode cs) (off cs k + (encode lit).length) = true := by
  have hlen : lit.length ≤ cs.length - k := by
    have := h.length_le; simpa using this
  have h1 : off cs k + (encode lit).length = off cs (k + lit.length) := by
    have ht : (cs.drop k).take lit.length = lit := (List.prefix_iff_eq_take.mp h).symm
    rw [off_add, ht]
  refine ⟨h1, by omega, ?_⟩
  rw [h1]
  exact (C05_boundary_iff cs _).mpr ⟨_, by omega, rfl⟩

example : encode [0xe9, 0x20ac] <+:
    (encode [0x61, 0xe9, 0x20ac, 0x1f600]).drop (off [0x61, 0xe9, 0x20ac, 0x1f600] 1) := by
  rw [C05_lit_prefix]; decide

/-! ## the encoder produces bytes; counting characters -/

theorem encodeChar_lt_256 (c : Nat) (h : isScalar c) : ∀ b ∈ encodeChar c, b < 256 := by
  have hc : c < 0x110000 := h.1
  unfold encodeChar
  split
  · simp; omega
  · split
    · simp; omega
    · split
      · simp; omega
      · simp; omega

/-- for scalar values the encoding consists of bytes -/
theorem C05_bytes_lt_256 (cs : List Nat) (hcs : ∀ c ∈ cs, isScalar c) :
    ∀ b ∈ encode cs, b < 256 := by
  intro b hb
  unfold encode at hb
  obtain ⟨c, hc, hbc⟩ := List.mem_flatMap.mp hb
  exact encodeChar_lt_256 c (hcs c hc) b hbc

/-- the number of lead bytes is the number of characters (what "counting characters, not bytes"
means at byte level, cf. C13) -/
theorem C05_count_lead (cs : List Nat) : (encode cs).countP isLead = cs.length := by
  induction cs with
  | nil => rfl
  | cons c cs ih =>
    obtain ⟨b, rest, he, hl, _, hr⟩ := encodeChar_shape c
    rw [encode_cons, List.countP_append, ih, he, List.countP_cons_of_pos hl]
    have : rest.countP isLead = 0 := by
      rw [List.countP_eq_zero]
      intro x hx; rw [hr x hx]; simp
    simp [this]; omega

example : (∀ c ∈ [0x61, 0xe9, 0x20ac, 0x1f600], isScalar c) := by decide

end Fancy.Utf8
