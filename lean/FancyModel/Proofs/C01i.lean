import FancyModel.Proofs.C01h
import FancyModel.Proofs.C01f
/-!
# C01i — the byte-level and translated-chain theorems, for every stage with a `Big2` derivation (S3, S4, S5)

The byte-level theorems (Proofs/C05e.lean) and the translated-chain theorems (Proofs/C01f.lean) are stated for
stage S3, but all they use of the stage is ONE fact: the structured machine, started in the initial
configuration of the compiled program, reaches the reference answer,

  `Big2 c prog.body prog.nSaves (.run 0 c.pos (List.replicate prog.nSaves UNSET) [] []) (refAns c b)`.

* `*_of_big2`: every one of those theorems from that derivation (`VmCorrectR_of_big2`, `terminates_of_big2`,
  `bTame_of_big2`, `bOK_of_big2`, `runB_refines_of_big2`, `C05_bytes_no_panic_of_big2`,
  `C05_bytes_offsets_valid_of_big2`, `C01_bytes_vm_correct_of_big2`, `genRun_eq_runB_of_big2`,
  `C01_translated_chain_of_big2`, `C05_translated_chain_no_panic_of_big2`,
  `C07_translated_chain_terminates_of_big2`);
* `big2_staged`: the derivation for the stages proved so far — `s5Built br raw = s4ok br raw || s5Raw br raw`
  (`s4ok` contains `s3ok`), from `big2_s4` / `big2_s5`;
* `*_s5`: the S5 forms (`C01_bytes_vm_correct_s5`, `C05_bytes_no_panic_s5`, `C05_bytes_offsets_valid_s5`,
  `runB_refines_built_s5`, `C01_translated_chain_s5`, `C05_translated_chain_no_panic_s5`,
  `C07_translated_chain_terminates_s5`, and from the source text of the parser with the size bound
  `C01_translated_chain_source_s5`, `C05_translated_chain_source_no_panic_s5`,
  `C07_translated_chain_source_terminates_s5`: the hypotheses of `C01_translated_chain_source'` with `s5Pattern`
  in place of `s3Pattern`).
-/
namespace Fancy
open Utf8 GenAnalyze GenCompile GenVM

/-! ### from a `Big2` derivation: the code-point machine -/

/-- **`VmCorrectR` from a derivation of the structured machine** (the common part of `C01_vm_correct_s3/_s4/_s5`) -/
theorem VmCorrectR_of_big2 (tree : Expr) (backrefs : List Nat) (b : Built) (prog : Prog) (c : Ctx)
    (hb : build tree backrefs = .ok b) (hk : b.kind = .fancy prog)
    (hbig : Big2 c prog.body prog.nSaves (.run 0 c.pos (List.replicate prog.nSaves UNSET) [] []) (refAns c b))
    (hlen : c.len < UNSET) (hpos : c.pos ≤ c.len) : VmCorrectR b c := by
  intro limit fuel
  have hgood := link2_initial c prog ⟨limit, maxStackDefault⟩
    (delegOK_of_prog c prog.body prog.nSaves (build_progDelegOK tree backrefs b prog hb hk)) _ hbig fuel
  obtain ⟨href, hlensl⟩ := refAns_eq tree backrefs b prog c hb hk hlen hpos
  unfold Built.captures
  simp only [hk]
  unfold Good2 at hgood
  generalize run c prog ⟨limit, maxStackDefault⟩ fuel = res at hgood ⊢
  obtain ⟨out, stats⟩ := res
  simp only at hgood
  rcases hgood with h | h | h | h
  · left; subst h; rfl
  · right; left; subst h; rfl
  · right; right; left; subst h; rfl
  · right; right; right
    refine Eq.trans ?_ href
    cases hra : refAns c b with
    | noMatch => simp only [hra] at h; subst h; rfl
    | matched sl =>
      simp only [hra] at h
      obtain ⟨saves, rfl, hsv⟩ := h
      have := hlensl sl hra
      rw [this] at hsv
      simp only
      rw [← hsv]
      simp [viewSlots, List.map_take]

/-- **termination of the code-point machine from a derivation** -/
theorem terminates_of_big2 (tree : Expr) (backrefs : List Nat) (b : Built) (prog : Prog) (c : Ctx)
    (hb : build tree backrefs = .ok b) (hk : b.kind = .fancy prog)
    (hbig : Big2 c prog.body prog.nSaves (.run 0 c.pos (List.replicate prog.nSaves UNSET) [] []) (refAns c b))
    (limit : Nat) :
    ∃ N, ∀ fuel, N ≤ fuel → (run c prog ⟨limit, maxStackDefault⟩ fuel).1 ≠ .outOfFuel :=
  link2_initial_terminates c prog ⟨limit, maxStackDefault⟩
    (delegOK_of_prog c prog.body prog.nSaves (build_progDelegOK tree backrefs b prog hb hk)) _ hbig

/-! ### from a `Big2` derivation: the byte machine and the translated chain -/

section OfBig2
variable (c : Ctx)
variable (hceq : ∀ a b, c.ceq false a b = (a == b))
variable (hU : (bytesOfChars c.text).length < UNSET)

/-- every run is tame -/
theorem bTame_of_big2 (tree : Expr) (backrefs : List Nat) (b : Built) (prog : Prog)
    (hb : build tree backrefs = .ok b) (hk : b.kind = .fancy prog)
    (hbig : Big2 c prog.body prog.nSaves (.run 0 c.pos (List.replicate prog.nSaves UNSET) [] []) (refAns c b))
    (limit fuel : Nat) : bTame c b prog limit fuel = true :=
  big2_tame_initial c _ prog ⟨limit, maxStackDefault⟩
    (delegOK_of_prog c prog.body prog.nSaves (build_progDelegOK tree backrefs b prog hb hk)) _ hbig fuel

/-- … hence the monitor of the refinement holds -/
theorem bOK_of_big2 (tree : Expr) (backrefs : List Nat) (b : Built) (prog : Prog)
    (hb : build tree backrefs = .ok b) (hk : b.kind = .fancy prog)
    (hbig : Big2 c prog.body prog.nSaves (.run 0 c.pos (List.replicate prog.nSaves UNSET) [] []) (refAns c b))
    (hpos : c.pos ≤ c.len) (limit fuel : Nat) : bOK c b prog limit fuel = true :=
  bOK_of_bTame c tree backrefs b prog hb hk hpos limit fuel (bTame_of_big2 c tree backrefs b prog hb hk hbig limit fuel)

include hceq hU in
/-- `runB` = mapped `run`, no side condition -/
theorem runB_refines_of_big2 (tree : Expr) (backrefs : List Nat) (b : Built) (prog : Prog)
    (hb : build tree backrefs = .ok b) (hk : b.kind = .fancy prog)
    (hbig : Big2 c prog.body prog.nSaves (.run 0 c.pos (List.replicate prog.nSaves UNSET) [] []) (refAns c b))
    (hpos : c.pos ≤ c.len) (limit fuel : Nat) :
    runB (BCtx.ofCtx c) prog ⟨limit, maxStackDefault⟩ fuel =
      (mapOut (tauOf prog.body b.nGroups) (offOf c.text) (run c prog ⟨limit, maxStackDefault⟩ fuel).1,
        (run c prog ⟨limit, maxStackDefault⟩ fuel).2) :=
  runB_refines_built_of_tame c hceq hU tree backrefs b prog hb hk limit fuel
    (bOK_of_big2 c tree backrefs b prog hb hk hbig hpos limit fuel)

include hceq hU in
/-- the byte machine never panics -/
theorem C05_bytes_no_panic_of_big2 (tree : Expr) (backrefs : List Nat) (b : Built) (prog : Prog)
    (hb : build tree backrefs = .ok b) (hk : b.kind = .fancy prog)
    (hbig : Big2 c prog.body prog.nSaves (.run 0 c.pos (List.replicate prog.nSaves UNSET) [] []) (refAns c b))
    (hlen : c.len < UNSET) (hpos : c.pos ≤ c.len) (limit fuel : Nat) (site : String) :
    (runB (BCtx.ofCtx c) prog ⟨limit, maxStackDefault⟩ fuel).1 ≠ .panic site := by
  intro h
  have h1 := C05_bytes_no_slice_panic c hceq hU tree backrefs b prog hb hk limit fuel
    (bOK_of_big2 c tree backrefs b prog hb hk hbig hpos limit fuel) site h
  exact VmCorrectR_not_panic (VmCorrectR_of_big2 tree backrefs b prog c hb hk hbig hlen hpos) limit fuel site
    (captures_panic_of_run b prog c hk limit fuel site h1)

include hceq hU in
/-- every capture offset the byte machine reports is `UNSET` or a character boundary inside the text -/
theorem C05_bytes_offsets_valid_of_big2 (tree : Expr) (backrefs : List Nat) (b : Built) (prog : Prog)
    (hb : build tree backrefs = .ok b) (hk : b.kind = .fancy prog)
    (hbig : Big2 c prog.body prog.nSaves (.run 0 c.pos (List.replicate prog.nSaves UNSET) [] []) (refAns c b))
    (hlen : c.len < UNSET) (hpos : c.pos ≤ c.len) (limit fuel : Nat) (savesB : List Nat)
    (hm : (runB (BCtx.ofCtx c) prog ⟨limit, maxStackDefault⟩ fuel).1 = .matched savesB) :
    (∀ i w, i < 2 * b.nGroups → savesB[i]? = some w →
      w = UNSET ∨ (isBoundary (bytesOfChars c.text) w = true ∧ w ≤ (bytesOfChars c.text).length)) ∧
    (∃ s e, savesB[0]? = some s ∧ savesB[1]? = some e ∧
      (BCtx.ofCtx c).pos ≤ s ∧ s ≤ e ∧ e ≤ (bytesOfChars c.text).length ∧
      isBoundary (bytesOfChars c.text) s = true ∧ isBoundary (bytesOfChars c.text) e = true) :=
  C05_bytes_offsets_valid_of_tame c hceq hU tree backrefs b prog hb hk
    (VmCorrectR_of_big2 tree backrefs b prog c hb hk hbig hlen hpos) limit fuel
    (bOK_of_big2 c tree backrefs b prog hb hk hbig hpos limit fuel) savesB hm

include hceq hU in
/-- the byte machine's answer is the reference search's, in byte offsets -/
theorem C01_bytes_vm_correct_of_big2 (tree : Expr) (backrefs : List Nat) (b : Built) (prog : Prog)
    (hb : build tree backrefs = .ok b) (hk : b.kind = .fancy prog)
    (hbig : Big2 c prog.body prog.nSaves (.run 0 c.pos (List.replicate prog.nSaves UNSET) [] []) (refAns c b))
    (hlen : c.len < UNSET) (hpos : c.pos ≤ c.len) (limit fuel : Nat) :
    (runB (BCtx.ofCtx c) prog ⟨limit, maxStackDefault⟩ fuel).1 = .outOfFuel ∨
    (runB (BCtx.ofCtx c) prog ⟨limit, maxStackDefault⟩ fuel).1 = .errStack ∨
    (runB (BCtx.ofCtx c) prog ⟨limit, maxStackDefault⟩ fuel).1 = .errLimit ∨
    match refSearch c b.raw b.nGroups with
    | some f => ∃ savesB, (runB (BCtx.ofCtx c) prog ⟨limit, maxStackDefault⟩ fuel).1 = .matched savesB ∧
        (viewSlots savesB).take (b.nGroups * 2) = f.slots.map (Option.map (offOf c.text))
    | none => (runB (BCtx.ofCtx c) prog ⟨limit, maxStackDefault⟩ fuel).1 = .noMatch :=
  C01_bytes_vm_correct c hceq hU tree backrefs b prog hb hk
    (VmCorrectR_of_big2 tree backrefs b prog c hb hk hbig hlen hpos) limit fuel
    (bOK_of_big2 c tree backrefs b prog hb hk hbig hpos limit fuel)

include hceq hU in
/-- the translated interpreter IS the byte machine on the compiled program -/
theorem genRun_eq_runB_of_big2 (tree : Expr) (backrefs : List Nat) (b : Built) (prog : Prog)
    (hb : build tree backrefs = .ok b) (hk : b.kind = .fancy prog)
    (hbig : Big2 c prog.body prog.nSaves (.run 0 c.pos (List.replicate prog.nSaves UNSET) [] []) (refAns c b))
    (hpos : c.pos ≤ c.len) (op : VMOpts) (fuel : Nat) :
    genRun (BCtx.ofCtx c) prog op fuel = runB (BCtx.ofCtx c) prog op fuel := by
  obtain ⟨hwt, hτ, _, _⟩ := build_wellTyped tree backrefs b prog hb hk
  exact big2_genRun c (tauOf prog.body b.nGroups) prog hceq hU hτ hpos hwt
    (delegOK_of_prog c prog.body prog.nSaves (build_progDelegOK tree backrefs b prog hb hk)) _ hbig op fuel

include hceq hU in
/-- **C01, the translated chain**: analyzer + compiler + `vm::run` as translated compute the reference search -/
theorem C01_translated_chain_of_big2 (tree : Expr) (backrefs : List Nat) (b : Built) (prog : Prog)
    (hb : build tree backrefs = .ok b) (hk : b.kind = .fancy prog)
    (hbig : Big2 c prog.body prog.nSaves (.run 0 c.pos (List.replicate prog.nSaves UNSET) [] []) (refAns c b))
    (hpos : c.pos ≤ c.len) (ha : analyzable tree = true) (hh : hiOK tree = true)
    (hfit : codeBound (renumber (wrapTree tree) 0).1 < UNSET) (limit fuel : Nat) :
    ∃ prog', genFront (fun g => backrefs.contains g) (renumber (wrapTree tree) 0).1 = .ok prog' ∧
      ((genRun (BCtx.ofCtx c) prog' ⟨limit, maxStackDefault⟩ fuel).1 = .outOfFuel ∨
       (genRun (BCtx.ofCtx c) prog' ⟨limit, maxStackDefault⟩ fuel).1 = .errStack ∨
       (genRun (BCtx.ofCtx c) prog' ⟨limit, maxStackDefault⟩ fuel).1 = .errLimit ∨
       match refSearch c b.raw b.nGroups with
       | some f => ∃ savesB, (genRun (BCtx.ofCtx c) prog' ⟨limit, maxStackDefault⟩ fuel).1 = .matched savesB ∧
           (viewSlots savesB).take (b.nGroups * 2) = f.slots.map (Option.map (offOf c.text))
       | none => (genRun (BCtx.ofCtx c) prog' ⟨limit, maxStackDefault⟩ fuel).1 = .noMatch) := by
  refine ⟨prog, genFront_eq_of_build tree backrefs b prog hb hk ha hh hfit, ?_⟩
  rw [genRun_eq_runB_of_big2 c hceq hU tree backrefs b prog hb hk hbig hpos]
  exact C01_bytes_vm_correct_of_big2 c hceq hU tree backrefs b prog hb hk hbig (len_lt_unset c hU) hpos limit fuel

include hceq hU in
/-- **C05, the translated chain: no panic** -/
theorem C05_translated_chain_no_panic_of_big2 (tree : Expr) (backrefs : List Nat) (b : Built) (prog : Prog)
    (hb : build tree backrefs = .ok b) (hk : b.kind = .fancy prog)
    (hbig : Big2 c prog.body prog.nSaves (.run 0 c.pos (List.replicate prog.nSaves UNSET) [] []) (refAns c b))
    (hpos : c.pos ≤ c.len) (ha : analyzable tree = true) (hh : hiOK tree = true)
    (hfit : codeBound (renumber (wrapTree tree) 0).1 < UNSET) (limit fuel : Nat) :
    ∃ prog', genFront (fun g => backrefs.contains g) (renumber (wrapTree tree) 0).1 = .ok prog' ∧
      ∀ site, (genRun (BCtx.ofCtx c) prog' ⟨limit, maxStackDefault⟩ fuel).1 ≠ .panic site := by
  refine ⟨prog, genFront_eq_of_build tree backrefs b prog hb hk ha hh hfit, fun site => ?_⟩
  rw [genRun_eq_runB_of_big2 c hceq hU tree backrefs b prog hb hk hbig hpos]
  exact C05_bytes_no_panic_of_big2 c hceq hU tree backrefs b prog hb hk hbig (len_lt_unset c hU) hpos limit fuel site

include hceq hU in
/-- **C07, the translated chain: termination** -/
theorem C07_translated_chain_terminates_of_big2 (tree : Expr) (backrefs : List Nat) (b : Built) (prog : Prog)
    (hb : build tree backrefs = .ok b) (hk : b.kind = .fancy prog)
    (hbig : Big2 c prog.body prog.nSaves (.run 0 c.pos (List.replicate prog.nSaves UNSET) [] []) (refAns c b))
    (hpos : c.pos ≤ c.len) (ha : analyzable tree = true) (hh : hiOK tree = true)
    (hfit : codeBound (renumber (wrapTree tree) 0).1 < UNSET) (limit : Nat) :
    ∃ prog', genFront (fun g => backrefs.contains g) (renumber (wrapTree tree) 0).1 = .ok prog' ∧
      ∃ N, ∀ fuel, N ≤ fuel → (genRun (BCtx.ofCtx c) prog' ⟨limit, maxStackDefault⟩ fuel).1 ≠ .outOfFuel := by
  refine ⟨prog, genFront_eq_of_build tree backrefs b prog hb hk ha hh hfit, ?_⟩
  obtain ⟨N, hN⟩ := terminates_of_big2 tree backrefs b prog c hb hk hbig limit
  refine ⟨N, fun fuel hf => ?_⟩
  rw [genRun_eq_runB_of_big2 c hceq hU tree backrefs b prog hb hk hbig hpos,
    runB_refines_of_big2 c hceq hU tree backrefs b prog hb hk hbig hpos limit fuel]
  have := hN fuel hf
  intro h
  apply this
  simp only at h
  cases hr : (run c prog ⟨limit, maxStackDefault⟩ fuel).1 with
  | outOfFuel => rfl
  | matched sv => rw [hr] at h; cases h
  | noMatch => rw [hr] at h; cases h
  | errLimit => rw [hr] at h; cases h
  | errStack => rw [hr] at h; cases h
  | panic s => rw [hr] at h; cases h

end OfBig2

/-! ### the derivation for the proved stages -/

/-- the proved stage on the raw tree: S4 (which contains S3) or the new part of S5 -/
def s5Built (br : Nat → Bool) (raw : Expr) : Bool := s4ok br raw || s5Raw br raw

theorem s5Built_of_s3ok (br : Nat → Bool) (raw : Expr) (h : s3ok br raw true = true) : s5Built br raw = true := by
  simp [s5Built, s4ok_of_s3ok br raw h]

theorem s5Built_of_s4ok (br : Nat → Bool) (raw : Expr) (h : s4ok br raw = true) : s5Built br raw = true := by
  simp [s5Built, h]

/-- **the structured machine reaches the reference answer in every proved stage** -/
theorem big2_staged (tree : Expr) (backrefs : List Nat) (b : Built) (prog : Prog) (c : Ctx)
    (hb : build tree backrefs = .ok b) (hk : b.kind = .fancy prog)
    (hst : s5Built (fun g => backrefs.contains g) b.raw = true) (hws : wellShaped b.raw = true)
    (hz : noBareEndZ b.raw = true) (hlen : c.len < UNSET) (hpos : c.pos ≤ c.len) :
    Big2 c prog.body prog.nSaves (.run 0 c.pos (List.replicate prog.nSaves UNSET) [] []) (refAns c b) := by
  rcases (Bool.or_eq_true _ _).mp hst with h4 | h5
  · exact big2_s4 tree backrefs b prog c hb hk h4 hws hz hlen hpos
  · simp only [s5Raw, Bool.and_eq_true] at h5
    exact big2_s5 tree backrefs b prog c hb hk h5.1 h5.2 hws hz hlen hpos

/-- `s5Pattern` (Proofs/C01h.lean) in terms of `s5Built` -/
theorem s5Pattern_built (t : Parse.Tree) (b : Built) (h : s5Pattern t b = true) :
    s5Built (fun g => t.backrefs.contains g) b.raw = true ∧ noBareEndZ t.expr = true := by
  simp only [s5Pattern, s4Pattern, s5Built, Bool.or_eq_true, Bool.and_eq_true] at h ⊢
  rcases h with h | h
  · exact ⟨Or.inl h.1, h.2⟩
  · exact ⟨Or.inr h.1, h.2⟩

/-- the derivation from the pattern string -/
theorem big2_pattern (isAlnum : Char → Bool) (cs : List Char) (casei : Bool) (t : Parse.Tree) (b : Built)
    (prog : Prog) (c : Ctx)
    (hp : Parse.parseStr isAlnum cs casei = .ok t) (hb : build t.expr t.backrefs = .ok b)
    (hk : b.kind = .fancy prog) (hst : s5Pattern t b = true) (hlen : c.len < UNSET) (hpos : c.pos ≤ c.len) :
    Big2 c prog.body prog.nSaves (.run 0 c.pos (List.replicate prog.nSaves UNSET) [] []) (refAns c b) :=
  big2_staged t.expr t.backrefs b prog c hb hk (s5Pattern_built t b hst).1
    (Parse.parse_build_wellShaped isAlnum cs casei t b hp hb).2
    (build_raw_noBareEndZ t.expr t.backrefs b hb (s5Pattern_built t b hst).2) hlen hpos

/-! ### stage S5 (⊇ S4 ⊇ S3): the byte machine -/

section S5
variable (c : Ctx)
variable (hceq : ∀ a b, c.ceq false a b = (a == b))
variable (hU : (bytesOfChars c.text).length < UNSET)

include hceq hU in
/-- **stage S5: `runB` = mapped `run`**, no side condition -/
theorem runB_refines_built_s5 (tree : Expr) (backrefs : List Nat) (b : Built) (prog : Prog)
    (hb : build tree backrefs = .ok b) (hk : b.kind = .fancy prog)
    (hst : s5Built (fun g => backrefs.contains g) b.raw = true) (hws : wellShaped b.raw = true)
    (hz : noBareEndZ b.raw = true) (hlen : c.len < UNSET) (hpos : c.pos ≤ c.len) (limit fuel : Nat) :
    runB (BCtx.ofCtx c) prog ⟨limit, maxStackDefault⟩ fuel =
      (mapOut (tauOf prog.body b.nGroups) (offOf c.text) (run c prog ⟨limit, maxStackDefault⟩ fuel).1,
        (run c prog ⟨limit, maxStackDefault⟩ fuel).2) :=
  runB_refines_of_big2 c hceq hU tree backrefs b prog hb hk
    (big2_staged tree backrefs b prog c hb hk hst hws hz hlen hpos) hpos limit fuel

include hceq hU in
/-- **stage S5: the byte machine never panics** -/
theorem C05_bytes_no_panic_s5 (tree : Expr) (backrefs : List Nat) (b : Built) (prog : Prog)
    (hb : build tree backrefs = .ok b) (hk : b.kind = .fancy prog)
    (hst : s5Built (fun g => backrefs.contains g) b.raw = true) (hws : wellShaped b.raw = true)
    (hz : noBareEndZ b.raw = true) (hlen : c.len < UNSET) (hpos : c.pos ≤ c.len) (limit fuel : Nat)
    (site : String) : (runB (BCtx.ofCtx c) prog ⟨limit, maxStackDefault⟩ fuel).1 ≠ .panic site :=
  C05_bytes_no_panic_of_big2 c hceq hU tree backrefs b prog hb hk
    (big2_staged tree backrefs b prog c hb hk hst hws hz hlen hpos) hlen hpos limit fuel site

include hceq hU in
/-- **stage S5: every capture offset the byte machine reports is `UNSET` or a character boundary inside the
    text; the overall match satisfies `pos ≤ start ≤ end ≤ byte length`** -/
theorem C05_bytes_offsets_valid_s5 (tree : Expr) (backrefs : List Nat) (b : Built) (prog : Prog)
    (hb : build tree backrefs = .ok b) (hk : b.kind = .fancy prog)
    (hst : s5Built (fun g => backrefs.contains g) b.raw = true) (hws : wellShaped b.raw = true)
    (hz : noBareEndZ b.raw = true) (hlen : c.len < UNSET) (hpos : c.pos ≤ c.len) (limit fuel : Nat)
    (savesB : List Nat)
    (hm : (runB (BCtx.ofCtx c) prog ⟨limit, maxStackDefault⟩ fuel).1 = .matched savesB) :
    (∀ i w, i < 2 * b.nGroups → savesB[i]? = some w →
      w = UNSET ∨ (isBoundary (bytesOfChars c.text) w = true ∧ w ≤ (bytesOfChars c.text).length)) ∧
    (∃ s e, savesB[0]? = some s ∧ savesB[1]? = some e ∧
      (BCtx.ofCtx c).pos ≤ s ∧ s ≤ e ∧ e ≤ (bytesOfChars c.text).length ∧
      isBoundary (bytesOfChars c.text) s = true ∧ isBoundary (bytesOfChars c.text) e = true) :=
  C05_bytes_offsets_valid_of_big2 c hceq hU tree backrefs b prog hb hk
    (big2_staged tree backrefs b prog c hb hk hst hws hz hlen hpos) hlen hpos limit fuel savesB hm

include hceq hU in
/-- **stage S5: the byte machine's answer is the reference search's, in byte offsets** -/
theorem C01_bytes_vm_correct_s5 (tree : Expr) (backrefs : List Nat) (b : Built) (prog : Prog)
    (hb : build tree backrefs = .ok b) (hk : b.kind = .fancy prog)
    (hst : s5Built (fun g => backrefs.contains g) b.raw = true) (hws : wellShaped b.raw = true)
    (hz : noBareEndZ b.raw = true) (hlen : c.len < UNSET) (hpos : c.pos ≤ c.len) (limit fuel : Nat) :
    (runB (BCtx.ofCtx c) prog ⟨limit, maxStackDefault⟩ fuel).1 = .outOfFuel ∨
    (runB (BCtx.ofCtx c) prog ⟨limit, maxStackDefault⟩ fuel).1 = .errStack ∨
    (runB (BCtx.ofCtx c) prog ⟨limit, maxStackDefault⟩ fuel).1 = .errLimit ∨
    match refSearch c b.raw b.nGroups with
    | some f => ∃ savesB, (runB (BCtx.ofCtx c) prog ⟨limit, maxStackDefault⟩ fuel).1 = .matched savesB ∧
        (viewSlots savesB).take (b.nGroups * 2) = f.slots.map (Option.map (offOf c.text))
    | none => (runB (BCtx.ofCtx c) prog ⟨limit, maxStackDefault⟩ fuel).1 = .noMatch :=
  C01_bytes_vm_correct_of_big2 c hceq hU tree backrefs b prog hb hk
    (big2_staged tree backrefs b prog c hb hk hst hws hz hlen hpos) hlen hpos limit fuel

/-! ### stage S5: the translated chain -/

include hceq hU in
/-- **C01, the translated chain, stage S5** (the statement of `C01_translated_chain_s3`) -/
theorem C01_translated_chain_s5 (tree : Expr) (backrefs : List Nat) (b : Built) (prog : Prog)
    (hb : build tree backrefs = .ok b) (hk : b.kind = .fancy prog)
    (hst : s5Built (fun g => backrefs.contains g) b.raw = true) (hws : wellShaped b.raw = true)
    (hz : noBareEndZ b.raw = true) (hpos : c.pos ≤ c.len)
    (ha : analyzable tree = true) (hh : hiOK tree = true)
    (hfit : codeBound (renumber (wrapTree tree) 0).1 < UNSET) (limit fuel : Nat) :
    ∃ prog', genFront (fun g => backrefs.contains g) (renumber (wrapTree tree) 0).1 = .ok prog' ∧
      ((genRun (BCtx.ofCtx c) prog' ⟨limit, maxStackDefault⟩ fuel).1 = .outOfFuel ∨
       (genRun (BCtx.ofCtx c) prog' ⟨limit, maxStackDefault⟩ fuel).1 = .errStack ∨
       (genRun (BCtx.ofCtx c) prog' ⟨limit, maxStackDefault⟩ fuel).1 = .errLimit ∨
       match refSearch c b.raw b.nGroups with
       | some f => ∃ savesB, (genRun (BCtx.ofCtx c) prog' ⟨limit, maxStackDefault⟩ fuel).1 = .matched savesB ∧
           (viewSlots savesB).take (b.nGroups * 2) = f.slots.map (Option.map (offOf c.text))
       | none => (genRun (BCtx.ofCtx c) prog' ⟨limit, maxStackDefault⟩ fuel).1 = .noMatch) :=
  C01_translated_chain_of_big2 c hceq hU tree backrefs b prog hb hk
    (big2_staged tree backrefs b prog c hb hk hst hws hz (len_lt_unset c hU) hpos) hpos ha hh hfit limit fuel

include hceq hU in
/-- **C05, the translated chain, stage S5: no panic** -/
theorem C05_translated_chain_no_panic_s5 (tree : Expr) (backrefs : List Nat) (b : Built) (prog : Prog)
    (hb : build tree backrefs = .ok b) (hk : b.kind = .fancy prog)
    (hst : s5Built (fun g => backrefs.contains g) b.raw = true) (hws : wellShaped b.raw = true)
    (hz : noBareEndZ b.raw = true) (hpos : c.pos ≤ c.len)
    (ha : analyzable tree = true) (hh : hiOK tree = true)
    (hfit : codeBound (renumber (wrapTree tree) 0).1 < UNSET) (limit fuel : Nat) :
    ∃ prog', genFront (fun g => backrefs.contains g) (renumber (wrapTree tree) 0).1 = .ok prog' ∧
      ∀ site, (genRun (BCtx.ofCtx c) prog' ⟨limit, maxStackDefault⟩ fuel).1 ≠ .panic site :=
  C05_translated_chain_no_panic_of_big2 c hceq hU tree backrefs b prog hb hk
    (big2_staged tree backrefs b prog c hb hk hst hws hz (len_lt_unset c hU) hpos) hpos ha hh hfit limit fuel

include hceq hU in
/-- **C07, the translated chain, stage S5: termination** -/
theorem C07_translated_chain_terminates_s5 (tree : Expr) (backrefs : List Nat) (b : Built) (prog : Prog)
    (hb : build tree backrefs = .ok b) (hk : b.kind = .fancy prog)
    (hst : s5Built (fun g => backrefs.contains g) b.raw = true) (hws : wellShaped b.raw = true)
    (hz : noBareEndZ b.raw = true) (hpos : c.pos ≤ c.len)
    (ha : analyzable tree = true) (hh : hiOK tree = true)
    (hfit : codeBound (renumber (wrapTree tree) 0).1 < UNSET) (limit : Nat) :
    ∃ prog', genFront (fun g => backrefs.contains g) (renumber (wrapTree tree) 0).1 = .ok prog' ∧
      ∃ N, ∀ fuel, N ≤ fuel → (genRun (BCtx.ofCtx c) prog' ⟨limit, maxStackDefault⟩ fuel).1 ≠ .outOfFuel :=
  C07_translated_chain_terminates_of_big2 c hceq hU tree backrefs b prog hb hk
    (big2_staged tree backrefs b prog c hb hk hst hws hz (len_lt_unset c hU) hpos) hpos ha hh hfit limit

/-! #### from the pattern string, parsed by the model's parser / by the translated parse.rs -/

include hceq hU in
/-- the hypotheses of `C01_translated_chain_pipeline'` with `s5Pattern` -/
theorem C01_translated_chain_pipeline_s5 (isAlnum : Char → Bool) (cs : List Char) (casei : Bool) (t : Parse.Tree)
    (b : Built) (prog : Prog) (hp : Parse.parseStr isAlnum cs casei = .ok t) (hb : build t.expr t.backrefs = .ok b)
    (hk : b.kind = .fancy prog) (hst : s5Pattern t b = true) (hpos : c.pos ≤ c.len)
    (hsize : (Parse.bytesOf cs).size < 2 ^ 58) (limit fuel : Nat) :
    ∃ prog', genFront (fun g => t.backrefs.contains g) (renumber (wrapTree t.expr) 0).1 = .ok prog' ∧
      ((genRun (BCtx.ofCtx c) prog' ⟨limit, maxStackDefault⟩ fuel).1 = .outOfFuel ∨
       (genRun (BCtx.ofCtx c) prog' ⟨limit, maxStackDefault⟩ fuel).1 = .errStack ∨
       (genRun (BCtx.ofCtx c) prog' ⟨limit, maxStackDefault⟩ fuel).1 = .errLimit ∨
       match refSearch c b.raw b.nGroups with
       | some f => ∃ savesB, (genRun (BCtx.ofCtx c) prog' ⟨limit, maxStackDefault⟩ fuel).1 = .matched savesB ∧
           (viewSlots savesB).take (b.nGroups * 2) = f.slots.map (Option.map (offOf c.text))
       | none => (genRun (BCtx.ofCtx c) prog' ⟨limit, maxStackDefault⟩ fuel).1 = .noMatch) :=
  C01_translated_chain_of_big2 c hceq hU t.expr t.backrefs b prog hb hk
    (big2_pattern isAlnum cs casei t b prog c hp hb hk hst (len_lt_unset c hU) hpos) hpos
    (Parse.parse_analyzable isAlnum cs casei t hp) (Parse.parse_hiOK isAlnum cs casei t hp)
    (Parse.parse_codeBound_fits isAlnum cs casei t hp hsize) limit fuel

include hceq hU in
/-- **C01, the whole translated chain, stage S5**: a stage-S5 pattern string shorter than `2^58` bytes, parsed by
    the translated parse.rs, analyzed by the translated analyze.rs, compiled by the translated compile.rs and run
    by the translated `vm::run` on the bytes of a text, computes the reference search (the hypotheses of
    `C01_translated_chain_source'` with `s5Pattern` in place of `s3Pattern`) -/
theorem C01_translated_chain_source_s5 (isAlnum : Char → Bool) (cs : List Char) (casei : Bool) (t : Parse.Tree)
    (b : Built) (prog : Prog)
    (hp : GenParse.parse_with_case_insensitive isAlnum (Parse.bytesOf cs) casei = .ok t)
    (hb : build t.expr t.backrefs = .ok b)
    (hk : b.kind = .fancy prog) (hst : s5Pattern t b = true) (hpos : c.pos ≤ c.len)
    (hsize : (Parse.bytesOf cs).size < 2 ^ 58) (limit fuel : Nat) :
    ∃ prog', genFront (fun g => t.backrefs.contains g) (renumber (wrapTree t.expr) 0).1 = .ok prog' ∧
      ((genRun (BCtx.ofCtx c) prog' ⟨limit, maxStackDefault⟩ fuel).1 = .outOfFuel ∨
       (genRun (BCtx.ofCtx c) prog' ⟨limit, maxStackDefault⟩ fuel).1 = .errStack ∨
       (genRun (BCtx.ofCtx c) prog' ⟨limit, maxStackDefault⟩ fuel).1 = .errLimit ∨
       match refSearch c b.raw b.nGroups with
       | some f => ∃ savesB, (genRun (BCtx.ofCtx c) prog' ⟨limit, maxStackDefault⟩ fuel).1 = .matched savesB ∧
           (viewSlots savesB).take (b.nGroups * 2) = f.slots.map (Option.map (offOf c.text))
       | none => (genRun (BCtx.ofCtx c) prog' ⟨limit, maxStackDefault⟩ fuel).1 = .noMatch) :=
  C01_translated_chain_pipeline_s5 c hceq hU isAlnum cs casei t b prog
    (by rw [← GenParse.Descent.C06_parse_translated_str]; exact hp) hb hk hst hpos hsize limit fuel

include hceq hU in
theorem C05_translated_chain_source_no_panic_s5 (isAlnum : Char → Bool) (cs : List Char) (casei : Bool)
    (t : Parse.Tree) (b : Built) (prog : Prog)
    (hp : GenParse.parse_with_case_insensitive isAlnum (Parse.bytesOf cs) casei = .ok t)
    (hb : build t.expr t.backrefs = .ok b)
    (hk : b.kind = .fancy prog) (hst : s5Pattern t b = true) (hpos : c.pos ≤ c.len)
    (hsize : (Parse.bytesOf cs).size < 2 ^ 58) (limit fuel : Nat) :
    ∃ prog', genFront (fun g => t.backrefs.contains g) (renumber (wrapTree t.expr) 0).1 = .ok prog' ∧
      ∀ site, (genRun (BCtx.ofCtx c) prog' ⟨limit, maxStackDefault⟩ fuel).1 ≠ .panic site := by
  have hp' : Parse.parseStr isAlnum cs casei = .ok t := by
    rw [← GenParse.Descent.C06_parse_translated_str]; exact hp
  exact C05_translated_chain_no_panic_of_big2 c hceq hU t.expr t.backrefs b prog hb hk
    (big2_pattern isAlnum cs casei t b prog c hp' hb hk hst (len_lt_unset c hU) hpos) hpos
    (Parse.parse_analyzable isAlnum cs casei t hp') (Parse.parse_hiOK isAlnum cs casei t hp')
    (Parse.parse_codeBound_fits isAlnum cs casei t hp' hsize) limit fuel

include hceq hU in
theorem C07_translated_chain_source_terminates_s5 (isAlnum : Char → Bool) (cs : List Char) (casei : Bool)
    (t : Parse.Tree) (b : Built) (prog : Prog)
    (hp : GenParse.parse_with_case_insensitive isAlnum (Parse.bytesOf cs) casei = .ok t)
    (hb : build t.expr t.backrefs = .ok b)
    (hk : b.kind = .fancy prog) (hst : s5Pattern t b = true) (hpos : c.pos ≤ c.len)
    (hsize : (Parse.bytesOf cs).size < 2 ^ 58) (limit : Nat) :
    ∃ prog', genFront (fun g => t.backrefs.contains g) (renumber (wrapTree t.expr) 0).1 = .ok prog' ∧
      ∃ N, ∀ fuel, N ≤ fuel → (genRun (BCtx.ofCtx c) prog' ⟨limit, maxStackDefault⟩ fuel).1 ≠ .outOfFuel := by
  have hp' : Parse.parseStr isAlnum cs casei = .ok t := by
    rw [← GenParse.Descent.C06_parse_translated_str]; exact hp
  exact C07_translated_chain_terminates_of_big2 c hceq hU t.expr t.backrefs b prog hb hk
    (big2_pattern isAlnum cs casei t b prog c hp' hb hk hst (len_lt_unset c hU) hpos) hpos
    (Parse.parse_analyzable isAlnum cs casei t hp') (Parse.parse_hiOK isAlnum cs casei t hp')
    (Parse.parse_codeBound_fits isAlnum cs casei t hp' hsize) limit

end S5

/-! ### the S3 forms are instances -/

/-- e.g. `C05_bytes_no_panic_s3` (Proofs/C05e.lean) is the instance `s5Built_of_s3ok` of `C05_bytes_no_panic_s5` -/
example (c : Ctx) (hceq : ∀ a b, c.ceq false a b = (a == b)) (hU : (bytesOfChars c.text).length < UNSET)
    (tree : Expr) (backrefs : List Nat) (b : Built) (prog : Prog)
    (hb : build tree backrefs = .ok b) (hk : b.kind = .fancy prog)
    (hs3 : s3ok (fun g => backrefs.contains g) b.raw true = true) (hws : wellShaped b.raw = true)
    (hz : noBareEndZ b.raw = true) (hlen : c.len < UNSET) (hpos : c.pos ≤ c.len) (limit fuel : Nat) (site : String) :
    (runB (BCtx.ofCtx c) prog ⟨limit, maxStackDefault⟩ fuel).1 ≠ .panic site :=
  C05_bytes_no_panic_s5 c hceq hU tree backrefs b prog hb hk (s5Built_of_s3ok _ _ hs3) hws hz hlen hpos limit fuel site

end Fancy
