import FancyModel.Proofs.C01b
/-!
# C02 — capture groups of compiled programs (engine refinement, stage S1)

`C01_vm_correct_core` relates the *whole slot vector* reported by the VM run of a compiled core
program to the reference search result; here it is spelled out per group.
-/
namespace Fancy

/-- **C02 for the core**: the theorem above speaks about the whole slot vector, so it already says
    that every capture group has exactly the reference value; spelled out per group. -/
theorem C02_groups_core (tree : Expr) (backrefs : List Nat) (b : Built) (prog : Prog) (c : Ctx)
    (hb : build tree backrefs = .ok b) (hk : b.kind = .fancy prog)
    (hcore : isCore b.raw = true) (hnd : noDeleg prog.body = true)
    (hlen : c.len < UNSET) (hpos : c.pos ≤ c.len) (limit fuel : Nat) (slots : List (Option Nat))
    (hfound : (b.captures c limit fuel).1 = .found slots) :
    ∃ f, refSearch c b.raw b.nGroups = some f ∧ ∀ i : Nat, slots[i]? = f.slots[i]? := by
  have h := C01_vm_correct_core tree backrefs b prog c hb hk hcore hnd hlen hpos limit fuel
  rw [hfound] at h
  rcases h with h | h | h | h
  · cases h
  · cases h
  · cases h
  · cases href : refSearch c b.raw b.nGroups with
    | none => simp [href] at h
    | some f =>
      simp only [href, SearchResult.found.injEq] at h
      exact ⟨f, rfl, fun i => by rw [h]⟩

end Fancy
