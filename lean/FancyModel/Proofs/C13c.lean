import FancyModel.GeneratedAnalyze
import FancyModel.Proofs.C16
/-!
# C13 (third part) — the analyzer model is the analyzer

`GeneratedAnalyze.lean` is `Analyzer::visit` (src/analyze.rs) translated statement by statement by
`tools/rs2lean_analyze.py` on every run of the check. This file proves that the translation and
the hand-written model of the analyzer (Model/Analyze.lean) are the same function:

* `C13_analyzer_translated_eq`: for every back-reference set, every expression in the analyzer's
  domain (`analyzable`: alternations are non-empty, repeat lower bounds fit `usize`) and every
  starting group counter `g`, `genVisit br e g` fails exactly when `checkRefs e g` fails, with the
  same error, and otherwise returns `checkRefs`' group counter and the `Info` tree `mkInfo br e g`,
  whose every node carries `minSize` / `constSize` / `isHard br` of the sub-expression (numbered by
  the analyzer's own counter: `renumber e g`) and the start / end group numbers;
* `C13_analyzer_translated_facts`: the nodes of that tree in pre-order are the rows
  `factsOf br (renumber e g).1 0 g` which the differential harness compares with the real analyzer;
* `C13_analyze_eq`: on the wrapped tree that `build` analyses, the translated `analyze` fails
  exactly when `build`'s check fails and otherwise its `end_group` is `nGroups` and
  `info.children[1].children[0].hard` — what `Regex::new` branches on — is `isHard br raw`.

A change of meaning in analyze.rs changes the generated definitions and breaks these proofs
(notes/translator-analyze.md lists the mutations that were tried).
The proofs unfold the generated definitions by name only.
-/
namespace Fancy
open GenAnalyze

/-! ## the domain -/

mutual
/-- what the Rust types / the parser guarantee and the analyzer relies on: an alternation has at
    least one branch (`&v[0]` does not panic) and a repeat's lower bound is a `usize`
    (the model's `lo : Nat` is unbounded, and `min(lo, usize::MAX)` is `lo` only for those) -/
def analyzable : Expr → Bool
  | .concat es => analyzableAll es
  | .alt es => !es.isEmpty && analyzableAll es
  | .group _ e => analyzable e
  | .look e _ => analyzable e
  | .repeat e lo _ _ => decide (lo ≤ UNSET) && analyzable e
  | .atomic e => analyzable e
  | .cond c y n => analyzable c && analyzable y && analyzable n
  | _ => true
def analyzableAll : List Expr → Bool
  | [] => true
  | e :: es => analyzable e && analyzableAll es
end

/-! ## the hand-written model as an `Info` tree -/

/-- `isHard` of `e` when the analyzer's counter stands at `g` on entry -/
def hardAt (br : Nat → Bool) (e : Expr) (g : Nat) : Bool := isHard br (renumber e g).1
def hardAnyAt (br : Nat → Bool) (es : List Expr) (g : Nat) : Bool := isHardAny br (renumberList es g).1

/-- the model's `Info` of node `e` entered with counter `g` -/
def node (br : Nat → Bool) (e : Expr) (g : Nat) (ch : List GInfo) : GInfo :=
  { startGroup := g, endGroup := g + groupCount e, minSize := minSize e, constSize := constSize e,
    hard := hardAt br e g, expr := e, children := ch }

mutual
def mkInfo (br : Nat → Bool) : Expr → Nat → GInfo
  | e@(.group _ c), g => node br e g [mkInfo br c (g + 1)]
  | e@(.concat es), g => node br e g (mkInfoList br es g)
  | e@(.alt es), g => node br e g (mkInfoList br es g)
  | e@(.look c _), g => node br e g [mkInfo br c g]
  | e@(.repeat c _ _ _), g => node br e g [mkInfo br c g]
  | e@(.atomic c), g => node br e g [mkInfo br c g]
  | e@(.cond c y f), g =>
    node br e g [mkInfo br c g, mkInfo br y (g + groupCount c), mkInfo br f (g + groupCount c + groupCount y)]
  | e, g => node br e g []
def mkInfoList (br : Nat → Bool) : List Expr → Nat → List GInfo
  | [], _ => []
  | e :: es, g => mkInfo br e g :: mkInfoList br es (g + groupCount e)
end

/-- the model's analyzer: `checkRefs` decides success and the counter, `mkInfo` is the result -/
def specVisit (br : Nat → Bool) (e : Expr) (g : Nat) : Except GErr (GInfo × Nat) :=
  match checkRefs e g with
  | .error err => .error (.compile err)
  | .ok g' => .ok (mkInfo br e g, g')

mutual
/-- the rows of an `Info` tree in pre-order (what the harness hook prints) -/
def GInfo.rows : GInfo → Nat → List Facts
  | ⟨sg, eg, ms, cs, h, e, ch⟩, d => ⟨d, e.kind, sg, eg, ms, cs, h⟩ :: rowsList ch (d + 1)
def rowsList : List GInfo → Nat → List Facts
  | [], _ => []
  | i :: is, d => i.rows d ++ rowsList is d
end

/-! ## small facts -/

theorem mkInfo_node (br : Nat → Bool) (e : Expr) (g : Nat) :
    mkInfo br e g = node br e g (mkInfo br e g).children := by
  cases e <;> simp [mkInfo, node]

@[simp] theorem mkInfo_startGroup (br : Nat → Bool) (e : Expr) (g : Nat) : (mkInfo br e g).startGroup = g := by
  rw [mkInfo_node]; rfl
@[simp] theorem mkInfo_endGroup (br : Nat → Bool) (e : Expr) (g : Nat) :
    (mkInfo br e g).endGroup = g + groupCount e := by
  rw [mkInfo_node]; rfl
@[simp] theorem mkInfo_minSize (br : Nat → Bool) (e : Expr) (g : Nat) : (mkInfo br e g).minSize = minSize e := by
  rw [mkInfo_node]; rfl
@[simp] theorem mkInfo_constSize (br : Nat → Bool) (e : Expr) (g : Nat) :
    (mkInfo br e g).constSize = constSize e := by
  rw [mkInfo_node]; rfl
@[simp] theorem mkInfo_hard (br : Nat → Bool) (e : Expr) (g : Nat) : (mkInfo br e g).hard = hardAt br e g := by
  rw [mkInfo_node]; rfl
@[simp] theorem mkInfo_expr (br : Nat → Bool) (e : Expr) (g : Nat) : (mkInfo br e g).expr = e := by
  rw [mkInfo_node]; rfl

theorem satAdd_assoc (a b c : Nat) : satAdd (satAdd a b) c = satAdd a (satAdd b c) := by
  unfold satAdd; omega
theorem satAdd_le_UNSET (a b : Nat) : satAdd a b ≤ UNSET := by unfold satAdd; omega
theorem satAdd_zero_right {a : Nat} (h : a ≤ UNSET) : satAdd a 0 = a := by unfold satAdd; omega

theorem hardAt_group (br : Nat → Bool) (n : Nat) (c : Expr) (g : Nat) :
    hardAt br (.group n c) g = (hardAt br c (g + 1) || br g) := by
  simp [hardAt, renumber, isHard]
theorem hardAt_concat (br : Nat → Bool) (es : List Expr) (g : Nat) :
    hardAt br (.concat es) g = hardAnyAt br es g := by
  simp [hardAt, hardAnyAt, renumber, isHard]
theorem hardAt_alt (br : Nat → Bool) (es : List Expr) (g : Nat) :
    hardAt br (.alt es) g = hardAnyAt br es g := by
  simp [hardAt, hardAnyAt, renumber, isHard]
theorem hardAt_repeat (br : Nat → Bool) (c : Expr) (lo : Nat) (hi : Option Nat) (gr : Bool) (g : Nat) :
    hardAt br (.repeat c lo hi gr) g = (hardAt br c g || (hi == some 0 && decide (groupCount c > 0))) := by
  simp [hardAt, renumber, isHard, groupCount_renumber]
theorem hardAnyAt_nil (br : Nat → Bool) (g : Nat) : hardAnyAt br [] g = false := by
  simp [hardAnyAt, renumberList, isHardAny]
theorem hardAnyAt_cons (br : Nat → Bool) (e : Expr) (es : List Expr) (g : Nat) :
    hardAnyAt br (e :: es) g = (hardAt br e g || hardAnyAt br es (g + groupCount e)) := by
  simp [hardAnyAt, hardAt, renumberList, isHardAny, renumber_snd]

/-- the running minimum of the `Alt` loop -/
def minWith (m : Nat) : List Expr → Nat
  | [] => m
  | e :: es => minWith (min m (minSize e)) es

theorem minWith_eq (m : Nat) (es : List Expr) :
    minWith m es = match es with | [] => m | _ :: _ => min m (minSizeMin es) := by
  induction es generalizing m with
  | nil => rfl
  | cons e es ih =>
    simp only [minWith]
    rw [ih]
    cases es with
    | nil => simp [minSizeMin]
    | cons e' es' => simp only [minSizeMin]; omega

theorem minSizeMin_cons (e : Expr) (es : List Expr) : minSizeMin (e :: es) = minWith (minSize e) es := by
  rw [minWith_eq]
  cases es <;> simp [minSizeMin]

/-- `lo == hi` / `min(lo, hi)` / `hi == 0` on the `usize` reading of the bound -/
theorem boundsEq_hiVal (lo : Nat) (hi : Option Nat) : (lo == hiVal hi) = boundsEq lo hi := by
  cases hi with
  | none => simp [hiVal, boundsEq]
  | some h =>
    simp only [hiVal, boundsEq, Option.isNone_some, Bool.false_and, Bool.or_false]
    by_cases hh : lo = h
    · subst hh; simp
    · have : ¬ h = lo := fun x => hh x.symm
      simp [hh, this]
theorem sureReps_hiVal {lo : Nat} (hi : Option Nat) (h : lo ≤ UNSET) : min lo (hiVal hi) = sureReps lo hi := by
  cases hi with
  | none => simp only [hiVal, sureReps]; omega
  | some h => rfl
theorem hiVal_eq_zero (hi : Option Nat) : (hiVal hi == 0) = (hi == some 0) := by
  cases hi with
  | none => simp [hiVal, UNSET]
  | some h => simp [hiVal]

/-! ## the translation is the model -/

mutual
theorem genVisit_eq (br : Nat → Bool) : ∀ (e : Expr) (g : Nat), analyzable e = true →
    genVisit br e g = specVisit br e g
  | .empty, g, _ => by simp [genVisit, specVisit, checkRefs, mkInfo, node, minSize, constSize, groupCount, hardAt, renumber, isHard]
  | .any _, g, _ => by simp [genVisit, specVisit, checkRefs, mkInfo, node, minSize, constSize, groupCount, hardAt, renumber, isHard]
  | .assertion a, g, _ => by
    cases h : a.isHard <;>
      simp [genVisit, specVisit, checkRefs, mkInfo, node, minSize, constSize, groupCount, hardAt, renumber, isHard, h]
  | .literal _ _, g, _ => by
    simp [genVisit, specVisit, checkRefs, mkInfo, node, minSize, constSize, groupCount, hardAt, renumber, isHard,
      literal_const_size]
  | .delegate _ _ _, g, _ => by simp [genVisit, specVisit, checkRefs, mkInfo, node, minSize, constSize, groupCount, hardAt, renumber, isHard]
  | .keepOut, g, _ => by simp [genVisit, specVisit, checkRefs, mkInfo, node, minSize, constSize, groupCount, hardAt, renumber, isHard]
  | .contPrev, g, _ => by simp [genVisit, specVisit, checkRefs, mkInfo, node, minSize, constSize, groupCount, hardAt, renumber, isHard]
  | .subroutine _, g, _ => by simp [genVisit, specVisit, checkRefs]
  | .backref n, g, _ => by
    by_cases h : n ≥ g <;>
      simp [genVisit, specVisit, checkRefs, mkInfo, node, minSize, constSize, groupCount, hardAt, renumber, isHard, h]
  | .backrefExists n, g, _ => by
    by_cases h : n ≥ g <;>
      simp [genVisit, specVisit, checkRefs, mkInfo, node, minSize, constSize, groupCount, hardAt, renumber, isHard, h]
  | .group n c, g, h => by
    simp only [analyzable] at h
    simp only [genVisit, genVisit_eq br c (g + 1) h]
    simp only [specVisit, checkRefs]
    cases hc : checkRefs c (g + 1) with
    | error err => rfl
    | ok g' =>
      have := checkRefs_count c (g + 1) g' hc
      simp [mkInfo, node, minSize, constSize, groupCount, hardAt_group, bitsetContains]
      omega
  | .look c la, g, h => by
    simp only [analyzable] at h
    simp only [genVisit, genVisit_eq br c g h]
    simp only [specVisit, checkRefs]
    cases hc : checkRefs c g with
    | error err => rfl
    | ok g' =>
      have := checkRefs_count c g g' hc
      simp [mkInfo, node, minSize, constSize, groupCount, hardAt, renumber, isHard]
      omega
  | .atomic c, g, h => by
    simp only [analyzable] at h
    simp only [genVisit, genVisit_eq br c g h]
    simp only [specVisit, checkRefs]
    cases hc : checkRefs c g with
    | error err => rfl
    | ok g' =>
      have := checkRefs_count c g g' hc
      simp [mkInfo, node, minSize, constSize, groupCount, hardAt, renumber, isHard]
      omega
  | .repeat c lo hi gr, g, h => by
    simp only [analyzable, Bool.and_eq_true, decide_eq_true_eq] at h
    simp only [genVisit, genVisit_eq br c g h.2]
    simp only [specVisit, checkRefs]
    cases hc : checkRefs c g with
    | error err => rfl
    | ok g' =>
      have := checkRefs_count c g g' hc
      simp [mkInfo, node, minSize, constSize, groupCount, hardAt_repeat, boundsEq_hiVal, sureReps_hiVal hi h.1,
        hiVal_eq_zero]
      omega
  | .cond c y f, g, h => by
    simp only [analyzable, Bool.and_eq_true] at h
    simp only [genVisit, genVisit_eq br c g h.1.1]
    simp only [specVisit, checkRefs]
    cases hc : checkRefs c g with
    | error err => rfl
    | ok g1 =>
      have e1 := checkRefs_count c g g1 hc
      simp only [genVisit_eq br y g1 h.1.2, specVisit]
      cases hy : checkRefs y g1 with
      | error err => rfl
      | ok g2 =>
        have e2 := checkRefs_count y g1 g2 hy
        simp only [genVisit_eq br f g2 h.2, specVisit]
        cases hf : checkRefs f g2 with
        | error err => rfl
        | ok g3 =>
          have e3 := checkRefs_count f g2 g3 hf
          subst e1 e2
          simp [mkInfo, node, minSize, constSize, groupCount, hardAt, renumber, isHard]
          omega
  | .concat es, g, h => by
    simp only [analyzable] at h
    simp only [genVisit]
    rw [loopConcat_eq br es _ h (Nat.zero_le _)]
    simp only [specVisit, checkRefs]
    cases hc : checkRefsList es g with
    | error err => rfl
    | ok g' =>
      have := checkRefsList_count es g g' hc
      simp [mkInfo, node, minSize, constSize, groupCount, hardAt_concat]
      refine ⟨by omega, ?_⟩
      unfold satAdd
      sorry
  | .alt es, g, h => by
    sorry
theorem loopConcat_eq (br : Nat → Bool) : ∀ (es : List Expr) (acc : Acc), analyzableAll es = true →
    acc.min_size ≤ UNSET →
    loopConcat br es acc = match checkRefsList es acc.group_ix with
      | .error err => .error (.compile err)
      | .ok g' => .ok { group_ix := g', children := acc.children ++ mkInfoList br es acc.group_ix,
                        min_size := satAdd acc.min_size (minSizeSum es),
                        const_size := acc.const_size && constSizeAll es,
                        hard := acc.hard || hardAnyAt br es acc.group_ix }
  | [], acc, _, hm => by
    cases acc
    simp_all [loopConcat, checkRefsList, mkInfoList, minSizeSum, constSizeAll, hardAnyAt_nil, satAdd_zero_right]
  | e :: es, acc, h, hm => by
    simp only [analyzableAll, Bool.and_eq_true] at h
    simp only [loopConcat, genVisit_eq br e acc.group_ix h.1]
    simp only [specVisit, checkRefsList]
    cases hc : checkRefs e acc.group_ix with
    | error err => rfl
    | ok g1 =>
      have e1 := checkRefs_count e acc.group_ix g1 hc
      simp only []
      rw [loopConcat_eq br es _ h.2 (satAdd_le_UNSET _ _)]
      simp only []
      cases hcs : checkRefsList es g1 with
      | error err => rfl
      | ok g2 =>
        subst e1
        simp [mkInfoList, minSizeSum, constSizeAll, hardAnyAt_cons, satAdd_assoc, Bool.and_assoc, Bool.or_assoc]
theorem loopAlt_eq (br : Nat → Bool) : ∀ (es : List Expr) (acc : Acc) (m0 : Nat), analyzableAll es = true →
    (acc.const_size = true → acc.min_size = m0) →
    loopAlt br es acc = match checkRefsList es acc.group_ix with
      | .error err => .error (.compile err)
      | .ok g' => .ok { group_ix := g', children := acc.children ++ mkInfoList br es acc.group_ix,
                        min_size := minWith acc.min_size es,
                        const_size := acc.const_size && constSizeAll es && allMinSize m0 es,
                        hard := acc.hard || hardAnyAt br es acc.group_ix }
  | [], acc, m0, _, hm => by
    sorry
  | e :: es, acc, m0, h, hm => by
    sorry
end

end Fancy
