import FancyModel.GeneratedAnalyze
import FancyModel.Proofs.C16
import FancyModel.Spec.Domain
/-!
# C13 (third part) — the analyzer model is the analyzer

`GeneratedAnalyze.lean` is `Analyzer::visit` (src/analyze.rs) translated statement by statement by
`tools/rs2lean_analyze.py` on every run of the check. This file proves that the translation and
the hand-written model of the analyzer (Model/Analyze.lean) are the same function:

* `C13_analyzer_translated_eq`: for every back-reference set, every expression in the analyzer's
  domain (`analyzable`: alternations are non-empty, which `wellShaped` implies) and every
  starting group counter `g`, `genVisit br e g` fails exactly when `checkRefs e g` fails, with the
  same error, and otherwise returns `checkRefs`' group counter and the `Info` tree `mkInfo br e g`,
  whose every node carries `minSize` / `constSize` / `isHard br` of the sub-expression (numbered by
  the analyzer's own counter: `renumber e g`) and the start / end group numbers;
* `C13_analyzer_translated_facts`: the nodes of that tree in pre-order are the rows
  `factsOf br (renumber e g).1 0 g` which the differential harness compares with the real analyzer;
* `C13_analyze_eq`: on the wrapped tree that `build` analyses, the translated `analyze` fails
  exactly when `build`'s check fails and otherwise its `end_group` is `nGroups` and
  `info.children[1].children[0].hard` — what `Regex::new` branches on — is `isHard br raw`.

A change of meaning in analyze.rs changes the generated definitions and breaks these proofs
(notes/translator-analyze.md lists the mutations that were tried).
The proofs unfold the generated definitions by name only.
-/
namespace Fancy
open GenAnalyze

/-! ## the domain -/

mutual
/-- what the analyzer relies on (and the parser guarantees, `wellShaped`): an alternation has at
    least one branch, so `&v[0]` does not panic. Nothing else is needed: subroutine calls, literals of
    any length, bounds and sizes beyond `usize` are all in the domain. -/
def analyzable : Expr → Bool
  | .concat es => analyzableAll es
  | .alt es => !es.isEmpty && analyzableAll es
  | .group _ e => analyzable e
  | .look e _ => analyzable e
  | .repeat e _ _ _ => analyzable e
  | .atomic e => analyzable e
  | .cond c y n => analyzable c && analyzable y && analyzable n
  | _ => true
def analyzableAll : List Expr → Bool
  | [] => true
  | e :: es => analyzable e && analyzableAll es
end

/-! ## the hand-written model as an `Info` tree -/

/-- `isHard` of `e` when the analyzer's counter stands at `g` on entry -/
def hardAt (br : Nat → Bool) (e : Expr) (g : Nat) : Bool := isHard br (renumber e g).1
def hardAnyAt (br : Nat → Bool) (es : List Expr) (g : Nat) : Bool := isHardAny br (renumberList es g).1

/-- the model's `Info` of node `e` entered with counter `g` -/
def node (br : Nat → Bool) (e : Expr) (g : Nat) (ch : List GInfo) : GInfo :=
  { startGroup := g, endGroup := g + groupCount e, minSize := minSize e, constSize := constSize e,
    hard := hardAt br e g, expr := e, children := ch }

mutual
def mkInfo (br : Nat → Bool) : Expr → Nat → GInfo
  | e@(.group _ c), g => node br e g [mkInfo br c (g + 1)]
  | e@(.concat es), g => node br e g (mkInfoList br es g)
  | e@(.alt es), g => node br e g (mkInfoList br es g)
  | e@(.look c _), g => node br e g [mkInfo br c g]
  | e@(.repeat c _ _ _), g => node br e g [mkInfo br c g]
  | e@(.atomic c), g => node br e g [mkInfo br c g]
  | e@(.cond c y f), g =>
    node br e g [mkInfo br c g, mkInfo br y (g + groupCount c), mkInfo br f (g + groupCount c + groupCount y)]
  | e, g => node br e g []
def mkInfoList (br : Nat → Bool) : List Expr → Nat → List GInfo
  | [], _ => []
  | e :: es, g => mkInfo br e g :: mkInfoList br es (g + groupCount e)
end

/-- the model's analyzer: `checkRefs` decides success and the counter, `mkInfo` is the result -/
def specVisit (br : Nat → Bool) (e : Expr) (g : Nat) : Except GErr (GInfo × Nat) :=
  match checkRefs e g with
  | .error err => .error (.compile err)
  | .ok g' => .ok (mkInfo br e g, g')

mutual
/-- the rows of an `Info` tree in pre-order (what the harness hook prints) -/
def GenAnalyze.GInfo.rows : GInfo → Nat → List Facts
  | ⟨sg, eg, ms, cs, h, e, ch⟩, d => ⟨d, e.kind, sg, eg, ms, cs, h⟩ :: rowsList ch (d + 1)
def rowsList : List GInfo → Nat → List Facts
  | [], _ => []
  | i :: is, d => i.rows d ++ rowsList is d
end

/-! ## small facts -/

theorem mkInfo_node (br : Nat → Bool) (e : Expr) (g : Nat) :
    mkInfo br e g = node br e g (mkInfo br e g).children := by
  cases e <;> simp [mkInfo, node]

@[simp] theorem mkInfo_startGroup (br : Nat → Bool) (e : Expr) (g : Nat) : (mkInfo br e g).startGroup = g := by
  rw [mkInfo_node]; rfl
@[simp] theorem mkInfo_endGroup (br : Nat → Bool) (e : Expr) (g : Nat) :
    (mkInfo br e g).endGroup = g + groupCount e := by
  rw [mkInfo_node]; rfl
@[simp] theorem mkInfo_minSize (br : Nat → Bool) (e : Expr) (g : Nat) : (mkInfo br e g).minSize = minSize e := by
  rw [mkInfo_node]; rfl
@[simp] theorem mkInfo_constSize (br : Nat → Bool) (e : Expr) (g : Nat) :
    (mkInfo br e g).constSize = constSize e := by
  rw [mkInfo_node]; rfl
@[simp] theorem mkInfo_hard (br : Nat → Bool) (e : Expr) (g : Nat) : (mkInfo br e g).hard = hardAt br e g := by
  rw [mkInfo_node]; rfl
@[simp] theorem mkInfo_expr (br : Nat → Bool) (e : Expr) (g : Nat) : (mkInfo br e g).expr = e := by
  rw [mkInfo_node]; rfl

theorem satAdd_assoc (a b c : Nat) : satAdd (satAdd a b) c = satAdd a (satAdd b c) := by
  unfold satAdd; omega
theorem satAdd_le_UNSET (a b : Nat) : satAdd a b ≤ UNSET := by unfold satAdd; omega
theorem satAdd_zero_right {a : Nat} (h : a ≤ UNSET) : satAdd a 0 = a := by unfold satAdd; omega

theorem satAdd_zero_left {a : Nat} (h : a ≤ UNSET) : satAdd 0 a = a := by unfold satAdd; omega
theorem minSizeSum_le (es : List Expr) : minSizeSum es ≤ UNSET := by
  cases es with
  | nil => simp [minSizeSum, UNSET]
  | cons e es => simp only [minSizeSum]; exact satAdd_le_UNSET _ _

theorem hardAt_group (br : Nat → Bool) (n : Nat) (c : Expr) (g : Nat) :
    hardAt br (.group n c) g = (hardAt br c (g + 1) || br g) := by
  simp [hardAt, renumber, isHard]
theorem hardAt_concat (br : Nat → Bool) (es : List Expr) (g : Nat) :
    hardAt br (.concat es) g = hardAnyAt br es g := by
  simp [hardAt, hardAnyAt, renumber, isHard]
theorem hardAt_alt (br : Nat → Bool) (es : List Expr) (g : Nat) :
    hardAt br (.alt es) g = hardAnyAt br es g := by
  simp [hardAt, hardAnyAt, renumber, isHard]
theorem hardAt_repeat (br : Nat → Bool) (c : Expr) (lo : Nat) (hi : Option Nat) (gr : Bool) (g : Nat) :
    hardAt br (.repeat c lo hi gr) g = (hardAt br c g || (hi == some 0 && decide (groupCount c > 0))) := by
  simp [hardAt, renumber, isHard, groupCount_renumber]
theorem hardAnyAt_nil (br : Nat → Bool) (g : Nat) : hardAnyAt br [] g = false := by
  simp [hardAnyAt, renumberList, isHardAny]
theorem hardAnyAt_cons (br : Nat → Bool) (e : Expr) (es : List Expr) (g : Nat) :
    hardAnyAt br (e :: es) g = (hardAt br e g || hardAnyAt br es (g + groupCount e)) := by
  simp [hardAnyAt, hardAt, renumberList, isHardAny, renumber_snd]

/-- the running minimum of the `Alt` loop -/
def minWith (m : Nat) : List Expr → Nat
  | [] => m
  | e :: es => minWith (min m (minSize e)) es

theorem minWith_eq (m : Nat) (es : List Expr) :
    minWith m es = match es with | [] => m | _ :: _ => min m (minSizeMin es) := by
  induction es generalizing m with
  | nil => rfl
  | cons e es ih =>
    simp only [minWith]
    rw [ih]
    cases es with
    | nil => simp [minSizeMin]
    | cons e' es' => simp only [minSizeMin]; omega

theorem minSizeMin_cons (e : Expr) (es : List Expr) : minSizeMin (e :: es) = minWith (minSize e) es := by
  rw [minWith_eq]
  cases es <;> simp [minSizeMin]

/-- `lo == hi` / `min(lo, hi)` / `hi == 0` on the `usize` reading of the bound -/
theorem boundsEq_hiVal (lo : Nat) (hi : Option Nat) : (lo == hiVal hi) = boundsEq lo hi := by
  cases hi with
  | none => simp [hiVal, boundsEq]
  | some h =>
    simp only [hiVal, boundsEq, Option.isNone_some, Bool.false_and, Bool.or_false]
    rw [Bool.eq_iff_iff]
    simp only [beq_iff_eq, Option.some.injEq]
    constructor <;> intro x <;> exact x.symm
/-- `min(lo, usize::MAX)` under the saturating product is `lo`, even for a model `lo` beyond `usize` -/
theorem satMul_min_UNSET (m lo : Nat) : satMul m (min lo UNSET) = satMul m lo := by
  unfold satMul
  rcases Nat.le_total lo UNSET with h | h
  · rw [Nat.min_eq_left h]
  · rw [Nat.min_eq_right h]
    cases m with
    | zero => simp
    | succ k =>
      have h1 : UNSET ≤ (k + 1) * UNSET := Nat.le_mul_of_pos_left _ (Nat.succ_pos k)
      have h2 : lo ≤ (k + 1) * lo := Nat.le_mul_of_pos_left _ (Nat.succ_pos k)
      omega
theorem sureReps_hiVal (m lo : Nat) (hi : Option Nat) : satMul m (min lo (hiVal hi)) = satMul m (sureReps lo hi) := by
  cases hi with
  | none => simp only [hiVal, sureReps]; exact satMul_min_UNSET m lo
  | some h => rfl
theorem hiVal_eq_zero (hi : Option Nat) : (hiVal hi == 0) = (hi == some 0) := by
  cases hi with
  | none => simp [hiVal, UNSET]
  | some h => simp [hiVal]

/-! ## the translation is the model -/

mutual
theorem genVisit_eq (br : Nat → Bool) : ∀ (e : Expr) (g : Nat), analyzable e = true →
    genVisit br e g = specVisit br e g
  | .empty, g, _ => by simp [genVisit, specVisit, checkRefs, mkInfo, node, minSize, constSize, groupCount, hardAt, renumber, isHard]
  | .any _, g, _ => by simp [genVisit, specVisit, checkRefs, mkInfo, node, minSize, constSize, groupCount, hardAt, renumber, isHard]
  | .assertion a, g, _ => by
    cases h : a.isHard <;>
      simp [genVisit, specVisit, checkRefs, mkInfo, node, minSize, constSize, groupCount, hardAt, renumber, isHard, h]
  | .literal _ _, g, _ => by
    simp [genVisit, specVisit, checkRefs, mkInfo, node, minSize, constSize, groupCount, hardAt, renumber, isHard,
      literal_const_size]
  | .delegate _ _ _, g, _ => by simp [genVisit, specVisit, checkRefs, mkInfo, node, minSize, constSize, groupCount, hardAt, renumber, isHard]
  | .keepOut, g, _ => by simp [genVisit, specVisit, checkRefs, mkInfo, node, minSize, constSize, groupCount, hardAt, renumber, isHard]
  | .contPrev, g, _ => by simp [genVisit, specVisit, checkRefs, mkInfo, node, minSize, constSize, groupCount, hardAt, renumber, isHard]
  | .subroutine _, g, _ => by simp [genVisit, specVisit, checkRefs]
  | .backref n, g, _ => by
    by_cases h : n ≥ g <;>
      simp [genVisit, specVisit, checkRefs, mkInfo, node, minSize, constSize, groupCount, hardAt, renumber, isHard, h]
  | .backrefExists n, g, _ => by
    by_cases h : n ≥ g <;>
      simp [genVisit, specVisit, checkRefs, mkInfo, node, minSize, constSize, groupCount, hardAt, renumber, isHard, h]
  | .group n c, g, h => by
    simp only [analyzable] at h
    simp only [genVisit, genVisit_eq br c (g + 1) h]
    simp only [specVisit, checkRefs]
    cases hc : checkRefs c (g + 1) with
    | error err => rfl
    | ok g' =>
      have := checkRefs_count c (g + 1) g' hc
      simp [mkInfo, node, minSize, constSize, groupCount, hardAt_group, bitsetContains]
      omega
  | .look c la, g, h => by
    simp only [analyzable] at h
    simp only [genVisit, genVisit_eq br c g h]
    simp only [specVisit, checkRefs]
    cases hc : checkRefs c g with
    | error err => rfl
    | ok g' =>
      have := checkRefs_count c g g' hc
      simp [mkInfo, node, minSize, constSize, groupCount, hardAt, renumber, isHard]
      omega
  | .atomic c, g, h => by
    simp only [analyzable] at h
    simp only [genVisit, genVisit_eq br c g h]
    simp only [specVisit, checkRefs]
    cases hc : checkRefs c g with
    | error err => rfl
    | ok g' =>
      have := checkRefs_count c g g' hc
      simp [mkInfo, node, minSize, constSize, groupCount, hardAt, renumber, isHard]
      omega
  | .repeat c lo hi gr, g, h => by
    simp only [analyzable] at h
    simp only [genVisit, genVisit_eq br c g h]
    simp only [specVisit, checkRefs]
    cases hc : checkRefs c g with
    | error err => rfl
    | ok g' =>
      have := checkRefs_count c g g' hc
      simp [mkInfo, node, minSize, constSize, groupCount, hardAt_repeat, boundsEq_hiVal, sureReps_hiVal,
        hiVal_eq_zero]
      omega
  | .cond c y f, g, h => by
    simp only [analyzable, Bool.and_eq_true] at h
    simp only [genVisit, genVisit_eq br c g h.1.1]
    simp only [specVisit, checkRefs]
    cases hc : checkRefs c g with
    | error err => rfl
    | ok g1 =>
      have e1 := checkRefs_count c g g1 hc
      simp only [genVisit_eq br y g1 h.1.2, specVisit]
      cases hy : checkRefs y g1 with
      | error err => rfl
      | ok g2 =>
        have e2 := checkRefs_count y g1 g2 hy
        simp only [genVisit_eq br f g2 h.2, specVisit]
        cases hf : checkRefs f g2 with
        | error err => rfl
        | ok g3 =>
          have e3 := checkRefs_count f g2 g3 hf
          subst e1 e2
          simp [mkInfo, node, minSize, constSize, groupCount, hardAt, renumber, isHard]
          omega
  | .concat es, g, h => by
    simp only [analyzable] at h
    simp only [genVisit]
    rw [loopConcat_eq br es _ h (Nat.zero_le _)]
    simp only [specVisit, checkRefs]
    cases hc : checkRefsList es g with
    | error err => rfl
    | ok g' =>
      have := checkRefsList_count es g g' hc
      simp [mkInfo, node, minSize, constSize, groupCount, hardAt_concat]
      exact ⟨by omega, satAdd_zero_left (minSizeSum_le es)⟩
  | .alt es, g, h => by
    cases es with
    | nil => simp [analyzable] at h
    | cons e0 rest =>
      simp only [analyzable, analyzableAll, List.isEmpty_cons, Bool.not_false, Bool.true_and, Bool.and_eq_true] at h
      simp only [genVisit, genVisit_eq br e0 g h.1]
      simp only [specVisit, checkRefs, checkRefsList]
      cases hc : checkRefs e0 g with
      | error err => rfl
      | ok g1 =>
        have e1 := checkRefs_count e0 g g1 hc
        simp only []
        rw [loopAlt_eq br rest _ (minSize e0) h.2]
        · simp only []
          cases hcs : checkRefsList rest g1 with
          | error err => rfl
          | ok g2 =>
            have e2 := checkRefsList_count rest g1 g2 hcs
            subst e1
            simp [mkInfo, node, mkInfoList, minSize, minSizeMin_cons, constSize, constSizeAll, allMinSize, groupCount,
              groupCountList, hardAt_alt, hardAnyAt_cons, Bool.and_assoc]
            omega
        · intro _
          simp
theorem loopConcat_eq (br : Nat → Bool) : ∀ (es : List Expr) (acc : Acc), analyzableAll es = true →
    acc.min_size ≤ UNSET →
    loopConcat br es acc = match checkRefsList es acc.group_ix with
      | .error err => .error (.compile err)
      | .ok g' => .ok { group_ix := g', children := acc.children ++ mkInfoList br es acc.group_ix,
                        min_size := satAdd acc.min_size (minSizeSum es),
                        const_size := acc.const_size && constSizeAll es,
                        hard := acc.hard || hardAnyAt br es acc.group_ix }
  | [], acc, _, hm => by
    cases acc
    simp_all [loopConcat, checkRefsList, mkInfoList, minSizeSum, constSizeAll, hardAnyAt_nil, satAdd_zero_right]
  | e :: es, acc, h, hm => by
    simp only [analyzableAll, Bool.and_eq_true] at h
    simp only [loopConcat, genVisit_eq br e acc.group_ix h.1]
    simp only [specVisit, checkRefsList]
    cases hc : checkRefs e acc.group_ix with
    | error err => rfl
    | ok g1 =>
      have e1 := checkRefs_count e acc.group_ix g1 hc
      simp only []
      rw [loopConcat_eq br es _ h.2 (satAdd_le_UNSET _ _)]
      simp only []
      cases hcs : checkRefsList es g1 with
      | error err => rfl
      | ok g2 =>
        subst e1
        simp [mkInfoList, minSizeSum, constSizeAll, hardAnyAt_cons, satAdd_assoc, Bool.and_assoc, Bool.or_assoc]
theorem loopAlt_eq (br : Nat → Bool) : ∀ (es : List Expr) (acc : Acc) (m0 : Nat), analyzableAll es = true →
    (acc.const_size = true → acc.min_size = m0) →
    loopAlt br es acc = match checkRefsList es acc.group_ix with
      | .error err => .error (.compile err)
      | .ok g' => .ok { group_ix := g', children := acc.children ++ mkInfoList br es acc.group_ix,
                        min_size := minWith acc.min_size es,
                        const_size := acc.const_size && constSizeAll es && allMinSize m0 es,
                        hard := acc.hard || hardAnyAt br es acc.group_ix }
  | [], acc, m0, _, hm => by
    cases acc
    simp [loopAlt, checkRefsList, mkInfoList, minWith, constSizeAll, allMinSize, hardAnyAt_nil]
  | e :: es, acc, m0, h, hm => by
    simp only [analyzableAll, Bool.and_eq_true] at h
    simp only [loopAlt, genVisit_eq br e acc.group_ix h.1]
    simp only [specVisit, checkRefsList]
    cases hc : checkRefs e acc.group_ix with
    | error err => rfl
    | ok g1 =>
      have e1 := checkRefs_count e acc.group_ix g1 hc
      simp only []
      rw [loopAlt_eq br es _ m0 h.2]
      · simp only []
        cases hcs : checkRefsList es g1 with
        | error err => rfl
        | ok g2 =>
          subst e1
          simp [mkInfoList, minWith, constSizeAll, allMinSize, hardAnyAt_cons, Bool.or_assoc]
          cases hcst : acc.const_size with
          | false => simp
          | true =>
            rw [hm hcst]
            have hsym : (m0 == minSize e) = (minSize e == m0) := by
              rw [Bool.eq_iff_iff]; simp only [beq_iff_eq]; constructor <;> intro x <;> exact x.symm
            rw [hsym]
            cases constSize e <;> cases constSizeAll es <;> cases (minSize e == m0) <;> simp
      · intro hh
        simp only [Bool.and_eq_true, beq_iff_eq, mkInfo_minSize] at hh ⊢
        have := hm hh.1
        omega
end

/-! ## the `Info` tree of the model, row by row: `factsOf` -/

mutual
theorem minSize_renumber : ∀ (e : Expr) (n : Nat), minSize (renumber e n).1 = minSize e
  | .group _ c, n => by simp only [renumber, minSize]; exact minSize_renumber c (n + 1)
  | .concat es, n => by simp only [renumber, minSize]; exact minSizeSum_renumber es n
  | .alt es, n => by simp only [renumber, minSize]; exact minSizeMin_renumber es n
  | .look c _, n => by simp only [renumber, minSize]
  | .repeat c _ _ _, n => by simp only [renumber, minSize]; rw [minSize_renumber c n]
  | .atomic c, n => by simp only [renumber, minSize]; exact minSize_renumber c n
  | .cond c y f, n => by
    simp only [renumber, minSize]; rw [minSize_renumber c, minSize_renumber y, minSize_renumber f]
  | .empty, _ | .any _, _ | .assertion _, _ | .literal _ _, _ | .delegate _ _ _, _ | .backref _, _ | .keepOut, _
  | .contPrev, _ | .backrefExists _, _ | .subroutine _, _ => by simp only [renumber]
theorem minSizeSum_renumber : ∀ (es : List Expr) (n : Nat), minSizeSum (renumberList es n).1 = minSizeSum es
  | [], _ => by simp only [renumberList]
  | e :: es, n => by
    simp only [renumberList, minSizeSum]; rw [minSize_renumber e, minSizeSum_renumber es]
theorem minSizeMin_renumber : ∀ (es : List Expr) (n : Nat), minSizeMin (renumberList es n).1 = minSizeMin es
  | [], _ => by simp only [renumberList]
  | [e], n => by simp only [renumberList, minSizeMin]; exact minSize_renumber e n
  | e :: e' :: es, n => by
    have := minSizeMin_renumber (e' :: es) (renumber e n).2
    simp only [renumberList, minSizeMin] at this ⊢
    rw [minSize_renumber e, this]
end

theorem allMinSize_renumber (m : Nat) : ∀ (es : List Expr) (n : Nat), allMinSize m (renumberList es n).1 = allMinSize m es
  | [], _ => by simp only [renumberList]
  | e :: es, n => by
    simp only [renumberList, allMinSize]; rw [minSize_renumber e, allMinSize_renumber m es]

mutual
theorem constSize_renumber : ∀ (e : Expr) (n : Nat), constSize (renumber e n).1 = constSize e
  | .group _ c, n => by simp only [renumber, constSize]; exact constSize_renumber c (n + 1)
  | .concat es, n => by simp only [renumber, constSize]; exact constSizeAll_renumber es n
  | .alt es, n => by
    cases es with
    | nil => simp [renumber, renumberList, constSize]
    | cons e es =>
      have h1 := constSizeAll_renumber (e :: es) n
      have h2 := allMinSize_renumber (minSize e) (e :: es) n
      simp only [renumberList] at h1 h2
      simp only [renumber, renumberList, constSize, minSize_renumber e n, h1, h2]
  | .look c _, n => by simp only [renumber, constSize]
  | .repeat c _ _ _, n => by simp only [renumber, constSize]; rw [constSize_renumber c n]
  | .atomic c, n => by simp only [renumber, constSize]; exact constSize_renumber c n
  | .cond c y f, n => by
    simp only [renumber, constSize]
    rw [constSize_renumber c, constSize_renumber y, constSize_renumber f, minSize_renumber c, minSize_renumber y,
      minSize_renumber f]
  | .empty, _ | .any _, _ | .assertion _, _ | .literal _ _, _ | .delegate _ _ _, _ | .backref _, _ | .keepOut, _
  | .contPrev, _ | .backrefExists _, _ | .subroutine _, _ => by simp only [renumber]
theorem constSizeAll_renumber : ∀ (es : List Expr) (n : Nat), constSizeAll (renumberList es n).1 = constSizeAll es
  | [], _ => by simp only [renumberList]
  | e :: es, n => by
    simp only [renumberList, constSizeAll]; rw [constSize_renumber e, constSizeAll_renumber es]
end

theorem kind_renumber (e : Expr) (n : Nat) : (renumber e n).1.kind = e.kind := by
  cases e <;> simp [renumber, Expr.kind]

/-- the root row of `factsOf`, whatever the node -/
theorem factsOf_shape (br : Nat → Bool) (e : Expr) (d n : Nat) :
    ∃ rest, (factsOf br e d n).1 =
      ⟨d, e.kind, n, (factsOf br e d n).2, minSize e, constSize e, isHard br e⟩ :: rest := by
  cases e <;> simp [factsOf]

mutual
theorem factsOf_mkInfo (br : Nat → Bool) : ∀ (e : Expr) (d g : Nat),
    factsOf br (renumber e g).1 d g = ((mkInfo br e g).rows d, g + groupCount e)
  | .group n c, d, g => by
    have hm := minSize_renumber (.group n c) g
    have hc := constSize_renumber (.group n c) g
    simp only [renumber] at hm hc
    simp only [renumber, factsOf, factsOf_mkInfo br c (d + 1) (g + 1), mkInfo, node, GInfo.rows, rowsList, hm, hc,
      hardAt, groupCount, Expr.kind, List.append_nil]
    simp only [Prod.mk.injEq, List.cons.injEq, and_true]
    refine ⟨?_, by omega⟩
    congr 1; omega
  | .concat es, d, g => by
    have hm := minSize_renumber (.concat es) g
    have hc := constSize_renumber (.concat es) g
    simp only [renumber] at hm hc
    simp only [renumber, factsOf, factsOfList_mkInfoList br es (d + 1) g, mkInfo, node, GInfo.rows, hm, hc,
      hardAt, groupCount, Expr.kind]
  | .alt es, d, g => by
    have hm := minSize_renumber (.alt es) g
    have hc := constSize_renumber (.alt es) g
    simp only [renumber] at hm hc
    simp only [renumber, factsOf, factsOfList_mkInfoList br es (d + 1) g, mkInfo, node, GInfo.rows, hm, hc,
      hardAt, groupCount, Expr.kind]
  | .look c la, d, g => by
    simp only [renumber, factsOf, factsOf_mkInfo br c (d + 1) g, mkInfo, node, GInfo.rows, rowsList,
      hardAt, groupCount, Expr.kind, List.append_nil, minSize, constSize]
  | .repeat c lo hi gr, d, g => by
    have hm := minSize_renumber (.repeat c lo hi gr) g
    have hc := constSize_renumber (.repeat c lo hi gr) g
    simp only [renumber] at hm hc
    simp only [renumber, factsOf, factsOf_mkInfo br c (d + 1) g, mkInfo, node, GInfo.rows, rowsList, hm, hc,
      hardAt, groupCount, Expr.kind, List.append_nil]
  | .atomic c, d, g => by
    have hm := minSize_renumber (.atomic c) g
    have hc := constSize_renumber (.atomic c) g
    simp only [renumber] at hm hc
    simp only [renumber, factsOf, factsOf_mkInfo br c (d + 1) g, mkInfo, node, GInfo.rows, rowsList, hm, hc,
      hardAt, groupCount, Expr.kind, List.append_nil]
  | .cond c y f, d, g => by
    have hm := minSize_renumber (.cond c y f) g
    have hc := constSize_renumber (.cond c y f) g
    simp only [renumber, renumber_snd] at hm hc
    simp only [renumber, factsOf, factsOf_mkInfo br c (d + 1) g, renumber_snd,
      factsOf_mkInfo br y (d + 1) (g + groupCount c), factsOf_mkInfo br f (d + 1) (g + groupCount c + groupCount y),
      mkInfo, node, GInfo.rows, rowsList, hm, hc, hardAt, groupCount, Expr.kind, List.append_nil, List.append_assoc]
    simp only [Prod.mk.injEq, List.cons.injEq, and_true]
    refine ⟨?_, by omega⟩
    congr 1; omega
  | .empty, _, _ | .any _, _, _ | .assertion _, _, _ | .literal _ _, _, _ | .delegate _ _ _, _, _ | .backref _, _, _
  | .keepOut, _, _ | .contPrev, _, _ | .backrefExists _, _, _ | .subroutine _, _, _ => by
    simp [renumber, factsOf, mkInfo, node, GInfo.rows, rowsList, hardAt, groupCount]
theorem factsOfList_mkInfoList (br : Nat → Bool) : ∀ (es : List Expr) (d g : Nat),
    factsOfList br (renumberList es g).1 d g = (rowsList (mkInfoList br es g) d, g + groupCountList es)
  | [], d, g => by simp [renumberList, factsOfList, mkInfoList, rowsList, groupCountList]
  | e :: es, d, g => by
    simp only [renumberList, factsOfList, factsOf_mkInfo br e d g, renumber_snd,
      factsOfList_mkInfoList br es d (g + groupCount e), mkInfoList, rowsList, groupCountList, Prod.mk.injEq, true_and]
    omega
end

/-! ## the theorems -/

mutual
/-- the analyzer's checks do not look at the group numbers stored in the tree -/
theorem checkRefs_renumber : ∀ (e : Expr) (n m : Nat), checkRefs (renumber e n).1 m = checkRefs e m
  | .group _ c, n, m => by simp only [renumber, checkRefs]; exact checkRefs_renumber c (n + 1) (m + 1)
  | .concat es, n, m => by simp only [renumber, checkRefs]; exact checkRefsList_renumber es n m
  | .alt es, n, m => by simp only [renumber, checkRefs]; exact checkRefsList_renumber es n m
  | .look c _, n, m => by simp only [renumber, checkRefs]; exact checkRefs_renumber c n m
  | .repeat c _ _ _, n, m => by simp only [renumber, checkRefs]; exact checkRefs_renumber c n m
  | .atomic c, n, m => by simp only [renumber, checkRefs]; exact checkRefs_renumber c n m
  | .cond c y f, n, m => by
    simp only [renumber, checkRefs, checkRefs_renumber c n m]
    cases checkRefs c m with
    | error err => rfl
    | ok m1 =>
      simp only [checkRefs_renumber y _ m1]
      cases checkRefs y m1 with
      | error err => rfl
      | ok m2 => exact checkRefs_renumber f _ m2
  | .empty, _, _ | .any _, _, _ | .assertion _, _, _ | .literal _ _, _, _ | .delegate _ _ _, _, _ | .backref _, _, _
  | .keepOut, _, _ | .contPrev, _, _ | .backrefExists _, _, _ | .subroutine _, _, _ => by simp only [renumber]
theorem checkRefsList_renumber : ∀ (es : List Expr) (n m : Nat),
    checkRefsList (renumberList es n).1 m = checkRefsList es m
  | [], _, _ => by simp only [renumberList]
  | e :: es, n, m => by
    simp only [renumberList, checkRefsList, checkRefs_renumber e n m]
    cases checkRefs e m with
    | error err => rfl
    | ok m1 => exact checkRefsList_renumber es _ m1
end

/-- **The translated analyzer is the hand-written model**, on every expression of the domain and
    from every value of the group counter: the same outcome (the same `CompileError`, never the
    index panic), the same final counter, and the whole `Info` tree is the model's (`mkInfo`:
    every node carries `minSize`, `constSize`, `isHard br` under the analyzer's own numbering, and
    `start_group` / `end_group`). -/
theorem C13_analyzer_translated_eq (br : Nat → Bool) (e : Expr) (g : Nat) (h : analyzable e = true) :
    genVisit br e g =
      match checkRefs e g with
      | .error err => .error (.compile err)
      | .ok g' => .ok (mkInfo br e g, g') :=
  genVisit_eq br e g h

/-- the same, spelled out against the functions of Model/Analyze.lean only: the translated analyzer
    fails exactly when `checkRefs` does (same error); otherwise the final counter is `checkRefs`' and
    `renumber`'s, the rows of the `Info` tree in pre-order are exactly `factsOf` of the numbered
    tree (these rows are what the harness compares with the real analyzer), and the root carries
    `minSize`, `constSize`, `isHard br` and the group range. -/
theorem C13_analyzer_translated_facts (br : Nat → Bool) (e : Expr) (g : Nat) (h : analyzable e = true) :
    (∀ err, checkRefs e g = .error err → genVisit br e g = .error (.compile err)) ∧
    (∀ g', checkRefs e g = .ok g' → ∃ info, genVisit br e g = .ok (info, g') ∧
      g' = (renumber e g).2 ∧
      (∀ d, (info.rows d, g') = factsOf br (renumber e g).1 d g) ∧
      info.expr = e ∧ info.startGroup = g ∧ info.endGroup = g' ∧
      info.minSize = minSize (renumber e g).1 ∧ info.constSize = constSize (renumber e g).1 ∧
      info.hard = isHard br (renumber e g).1) := by
  rw [genVisit_eq br e g h, specVisit]
  constructor
  · intro err he; rw [he]
  · intro g' he
    have hcount := checkRefs_count e g g' he
    rw [he]
    refine ⟨mkInfo br e g, rfl, ?_, ?_, ?_⟩
    · rw [renumber_snd]; exact hcount
    · intro d; rw [factsOf_mkInfo, hcount]
    · simp [minSize_renumber, constSize_renumber, hardAt, hcount]

mutual
/-- the parser's shape guarantee puts a tree in the analyzer's domain -/
theorem analyzable_of_wellShaped : ∀ (e : Expr), wellShaped e = true → analyzable e = true
  | .group _ c, h => by simp only [wellShaped] at h; simp only [analyzable]; exact analyzable_of_wellShaped c h
  | .concat es, h => by simp only [wellShaped] at h; simp only [analyzable]; exact analyzableAll_of_wellShapedAll es h
  | .alt es, h => by
    simp only [wellShaped, Bool.and_eq_true] at h
    simp only [analyzable, Bool.and_eq_true]; exact ⟨h.1, analyzableAll_of_wellShapedAll es h.2⟩
  | .look c _, h => by simp only [wellShaped] at h; simp only [analyzable]; exact analyzable_of_wellShaped c h
  | .repeat c _ _ _, h => by simp only [wellShaped] at h; simp only [analyzable]; exact analyzable_of_wellShaped c h
  | .atomic c, h => by simp only [wellShaped] at h; simp only [analyzable]; exact analyzable_of_wellShaped c h
  | .cond c y f, h => by
    simp only [wellShaped, Bool.and_eq_true] at h
    simp only [analyzable, Bool.and_eq_true]
    exact ⟨⟨analyzable_of_wellShaped c h.1.1, analyzable_of_wellShaped y h.1.2⟩, analyzable_of_wellShaped f h.2⟩
  | .empty, _ | .any _, _ | .assertion _, _ | .literal _ _, _ | .delegate _ _ _, _ | .backref _, _ | .keepOut, _
  | .contPrev, _ | .backrefExists _, _ | .subroutine _, _ => by simp only [analyzable]
theorem analyzableAll_of_wellShapedAll : ∀ (es : List Expr), wellShapedAll es = true → analyzableAll es = true
  | [], _ => by simp only [analyzableAll]
  | e :: es, h => by
    simp only [wellShapedAll, Bool.and_eq_true] at h
    simp only [analyzableAll, Bool.and_eq_true]
    exact ⟨analyzable_of_wellShaped e h.1, analyzableAll_of_wellShapedAll es h.2⟩
end

theorem analyzable_wrapTree (tree : Expr) : analyzable (wrapTree tree) = analyzable tree := by
  simp [wrapTree, analyzable, analyzableAll]

/-- **What `Regex::new` reads off the analysis.** On the wrapped tree `(?s:.)*?(tree)` that `build`
    analyses, the translated `analyze` fails exactly when `build`'s check fails (and `build` returns
    that error); otherwise its result has the two children of `wrap_tree`, `info.children[1].children[0]`
    is the `Info` of the user's expression whose `hard` / `min_size` / `const_size` are the model's
    `isHard br raw` / `minSize raw` / `constSize raw`, `info.end_group` is `nGroups`, every row is
    `factsOf`'s (what `compile` reads), and `build` is the function of these that `Regex::new` is. -/
theorem C13_analyze_eq (tree : Expr) (backrefs : List Nat) (h : analyzable tree = true) :
    let br := fun g => backrefs.contains g
    let raw := (renumber tree 1).1
    let wrapped := (renumber (wrapTree tree) 0).1
    (∀ err, checkRefs wrapped 0 = .error err →
      genAnalyze br (wrapTree tree) = .error (.compile err) ∧ build tree backrefs = .error err) ∧
    (∀ n, checkRefs wrapped 0 = .ok n → ∃ info pre grp inner,
      genAnalyze br (wrapTree tree) = .ok info ∧ info.children = [pre, grp] ∧ grp.children = [inner] ∧
      info.endGroup = n ∧ info.rows 0 = (factsOf br wrapped 0 0).1 ∧
      inner.hard = isHard br raw ∧ inner.minSize = minSize raw ∧ inner.constSize = constSize raw ∧
      info.hard = isHard br wrapped ∧ info.minSize = minSize wrapped ∧ info.constSize = constSize wrapped ∧
      build tree backrefs =
        if !inner.hard then .ok ⟨raw, wrapped, info.endGroup, backrefs, .wrap⟩
        else match compile br wrapped with
          | .error e => .error e
          | .ok prog => .ok ⟨raw, wrapped, info.endGroup, backrefs, .fancy prog⟩) := by
  intro br raw wrapped
  have hw : analyzable (wrapTree tree) = true := by rw [analyzable_wrapTree]; exact h
  have hck : checkRefs wrapped 0 = checkRefs (wrapTree tree) 0 := checkRefs_renumber _ 0 0
  have hwr : wrapped = .concat [.repeat (.any true) 0 none false, .group 0 raw] := by
    simp [wrapped, raw, wrapTree, renumber, renumberList]
  constructor
  · intro err he
    constructor
    · simp only [genAnalyze, genVisit_eq br _ 0 hw, specVisit, ← hck, he]
    · have he' : checkRefs (renumber (wrapTree tree) 0).1 0 = .error err := he
      unfold build
      simp only [he']
  · intro n he
    have hcount := checkRefs_count _ 0 n (hck ▸ he)
    refine ⟨mkInfo br (wrapTree tree) 0, mkInfo br (.repeat (.any true) 0 none false) 0, mkInfo br (.group 0 tree) 0,
      mkInfo br tree 1, ?_, ?_, ?_, ?_, ?_, ?_, ?_, ?_, ?_, ?_, ?_, ?_⟩
    · simp only [genAnalyze, genVisit_eq br _ 0 hw, specVisit, ← hck, he]
    · simp [wrapTree, mkInfo, node, mkInfoList, groupCount]
    · simp [mkInfo, node]
    · simp [hcount]
    · have := factsOf_mkInfo br (wrapTree tree) 0 0
      rw [show (renumber (wrapTree tree) 0).1 = wrapped from rfl] at this
      rw [this]
    · simp [hardAt, raw]
    · simp [raw, minSize_renumber]
    · simp [raw, constSize_renumber]
    · simp [hardAt, wrapped]
    · simp [wrapped, minSize_renumber]
    · simp [wrapped, constSize_renumber]
    · have he' : checkRefs (renumber (wrapTree tree) 0).1 0 = .ok n := he
      have hwr' : (renumber (wrapTree tree) 0).1 = .concat [.repeat (.any true) 0 none false, .group 0 (renumber tree 1).1] := hwr
      unfold build
      simp only [he']
      simp only [hwr', mkInfo_endGroup, mkInfo_hard, hardAt, ← hcount]
      rw [hwr]
      rfl

/-! ### Non-vacuity: `(x|xy)\\1` wrapped — two groups, hard (the back-reference), at least one character,
not constant-size; and an empty alternation is the index panic, not a silent default -/
set_option linter.unusedSimpArgs false in
example : (match genAnalyze (fun g => g == 1)
      (wrapTree (.concat [.group 0 (.alt [.literal ['x'] false, .concat [.literal ['x'] false, .literal ['y'] false]]),
        .backref 1])) with
    | .ok i => some (i.endGroup, i.hard, i.minSize, i.constSize)
    | .error _ => none) = some (2, true, 1, false) := by
  simp [genAnalyze, genVisit, loopConcat, loopAlt, wrapTree, hiVal, bitsetContains, satAdd, satMul, UNSET,
    literal_const_size]

example : genVisit (fun _ => false) (.alt []) 0 = .error .indexPanic := by simp [genVisit]

end Fancy
