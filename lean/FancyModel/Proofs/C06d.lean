import FancyModel.Lemmas.GenParseBase
import FancyModel.Proofs.C06b
import FancyModel.Proofs.C17b
/-!
# C06 (translator part) — the parser model is the parser

`GeneratedParse.lean` is the non-test part of src/parse.rs translated statement by statement by `tools/rs2lean_parse.py`
on every run of the check. This file proves every generated function equal to its hand-written twin in
Model/Parse.lean (same fuel, same panic sites, same error positions and payloads), function by function: the leaf
scanners (`Leaf`), `parse_id` and the two back-reference parsers (`Ident`), `parse_escape` / `parse_class` (`Escape`),
the recursive descent as one induction on the fuel (`Descent`), and finally `parse_with_case_insensitive` = `parseBytes`.
-/
namespace Fancy.GenParse
open Fancy.Parse
open Fancy.Utf8 (codepointLen)

namespace Leaf

/-! ## the small ones -/

@[simp] theorem is_digit_eq (b : Nat) : is_digit b = isDigit b := by
  simp [is_digit, isDigit, ch]

@[simp] theorem is_hex_digit_eq (b : Nat) : is_hex_digit b = isHexDigit b := by
  simp [is_hex_digit, isHexDigit, ch]

@[simp] theorem is_id_char_eq (isAlnum : Char → Bool) (c : Char) : is_id_char isAlnum c = isIdChar isAlnum c := by
  simp [is_id_char, isIdChar]

@[simp] theorem make_literal_eq (s : List Nat) : make_literal s = makeLiteral (decodeList s) := by
  simp [make_literal, makeLiteral]

@[simp] theorem flag_casei (re : Bytes) (st : PState) : flag re st .casei = st.flags.casei := rfl
@[simp] theorem flag_multi (re : Bytes) (st : PState) : flag re st .multi = st.flags.multi := rfl
@[simp] theorem flag_dotnl (re : Bytes) (st : PState) : flag re st .dotnl = st.flags.dotnl := rfl
@[simp] theorem flag_swapGreed (re : Bytes) (st : PState) : flag re st .swapGreed = st.flags.swapGreed := rfl
@[simp] theorem flag_ignoreSpace (re : Bytes) (st : PState) : flag re st .ignoreSpace = st.flags.ignoreSpace := rfl
@[simp] theorem flag_unicode (re : Bytes) (st : PState) : flag re st .unicode = st.flags.unicode := rfl

theorem update_flag_casei (re : Bytes) (st : PState) (neg : Bool) :
    update_flag re st .casei neg = { st with flags := updateFlag st.flags (ch 'i') neg } := by
  cases neg <;> simp [update_flag, flagSet, updateFlag, ch]
theorem update_flag_multi (re : Bytes) (st : PState) (neg : Bool) :
    update_flag re st .multi neg = { st with flags := updateFlag st.flags (ch 'm') neg } := by
  cases neg <;> simp [update_flag, flagSet, updateFlag, ch]
theorem update_flag_dotnl (re : Bytes) (st : PState) (neg : Bool) :
    update_flag re st .dotnl neg = { st with flags := updateFlag st.flags (ch 's') neg } := by
  cases neg <;> simp [update_flag, flagSet, updateFlag, ch]
theorem update_flag_swapGreed (re : Bytes) (st : PState) (neg : Bool) :
    update_flag re st .swapGreed neg = { st with flags := updateFlag st.flags (ch 'U') neg } := by
  cases neg <;> simp [update_flag, flagSet, updateFlag, ch]
theorem update_flag_ignoreSpace (re : Bytes) (st : PState) (neg : Bool) :
    update_flag re st .ignoreSpace neg = { st with flags := updateFlag st.flags (ch 'x') neg } := by
  cases neg <;> simp [update_flag, flagSet, updateFlag, ch]

/-! ## optional_whitespace -/

theorem byteAt_some {re : Bytes} {i b : Nat} (s : String) (h : re[i]? = some b) : byteAt re i s = .ok b := by
  simp [byteAt, h]
theorem byteAt_none {re : Bytes} {i : Nat} (s : String) (h : re[i]? = none) : byteAt re i s = .panic s := by
  simp [byteAt, h]

theorem optional_whitespace_loop1_eq (re : Bytes) (st : PState) (n ix : Nat) :
    optional_whitespace_loop1 re st n ix = skipComment n re ix := by
  induction n generalizing ix with
  | zero => simp [optional_whitespace_loop1, skipComment]
  | succ n ih =>
    rw [optional_whitespace_loop1, skipComment]
    by_cases h : ix ≥ re.size
    · simp [h]
    · simp only [h, decide_false, Bool.false_eq_true, if_false]
      cases hb : re[ix]? with
      | none => simp [byteAt_none _ hb]
      | some b =>
        simp only [byteAt_some _ hb, res_bind_ok]
        split
        · rfl
        · split
          · exact ih _
          · exact ih _

theorem optional_whitespace_loop0_eq (re : Bytes) (st : PState) (n ix : Nat) :
    optional_whitespace_loop0 re st n ix = optionalWhitespace n re st.flags ix := by
  induction n generalizing ix with
  | zero => simp [optional_whitespace_loop0, optionalWhitespace]
  | succ n ih =>
    rw [optional_whitespace_loop0, optionalWhitespace]
    by_cases h : (ix == re.size) = true
    · simp [h]
    · simp only [h, Bool.false_eq_true, if_false]
      cases hb : re[ix]? with
      | none => simp [byteAt_none _ hb]
      | some b =>
        have hle : ix ≤ re.size := by
          have := (Array.getElem?_eq_some_iff.mp hb).1
          omega
        simp only [byteAt_some _ hb, res_bind_ok, flag_ignoreSpace, bytesFrom, hle, if_true, bytesPosition]
        split
        · cases hp : List.findIdx? (fun x => x == ch '\n') (List.drop ix re.toList) with
          | none =>
            have hp' : List.findIdx? (fun x => x == 10) (List.drop ix re.toList) = none := hp
            simp [hp']
          | some x =>
            have hp' : List.findIdx? (fun x => x == 10) (List.drop ix re.toList) = some x := hp
            simp [hp', ih, Nat.add_assoc]
        · split
          · exact ih _
          · cases hparen : (b == ch '(')
            · simp
            · simp only [if_true, res_bind_ok, res_pure, Bool.true_and]
              split
              · simp only [optional_whitespace_loop1_eq]
                cases skipComment (re.size + 1) re (ix + 3) <;> simp [ih]
              · rfl

@[simp] theorem optional_whitespace_eq (re : Bytes) (st : PState) (ix : Nat) :
    optional_whitespace re st ix = optWs re st.flags ix := by
  simp [optional_whitespace, optWs, optional_whitespace_loop0_eq]

/-! ## check_for_close_paren -/

theorem check_for_close_paren_eq (re : Bytes) (st : PState) (ix : Nat) :
    check_for_close_paren re st ix = checkForCloseParen re st.flags ix := by
  simp only [check_for_close_paren, checkForCloseParen, optional_whitespace_eq]

/-! ## parse_decimal -/

theorem take_length_takeWhile {α : Type} (p : α → Bool) : ∀ (l : List α),
    l.take (l.takeWhile p).length = l.takeWhile p
  | [] => by simp
  | a :: l => by
    rw [List.takeWhile_cons]
    split
    · simp [take_length_takeWhile p l]
    · simp

theorem extract_takeWhile (re : Bytes) (ix : Nat) (p : Nat → Bool) :
    (re.extract ix (ix + ((re.toList.drop ix).takeWhile p).length)).toList = (re.toList.drop ix).takeWhile p := by
  rw [Array.toList_extract, List.extract_eq_take_drop, Nat.add_sub_cancel_left, take_length_takeWhile]

theorem parse_decimal_loop0_eq (re : Bytes) : ∀ (n e : Nat), re.size < e + n → 0 < n →
    parse_decimal_loop0 ⟨re, 0⟩ n e = .ok (e + ((re.toList.drop e).takeWhile isDigit).length) := by
  intro n
  induction n with
  | zero => intro e _ h; omega
  | succ n ih =>
    intro e hn _
    rw [parse_decimal_loop0]
    simp only [str_len_whole, str_byteAt_whole, is_digit_eq]
    by_cases h : e < re.size
    · have hg : re[e]? = some re[e] := by simp [h]
      have hd : re.toList.drop e = re[e] :: re.toList.drop (e + 1) := by
        rw [List.drop_eq_getElem_cons (by simpa using h)]; simp
      simp only [h, decide_true, if_true, byteAt_some _ hg, res_bind_ok, hd, List.takeWhile_cons]
      split
      · rw [ih (e + 1) (by omega) (by omega)]
        simp only [List.length_cons]; congr 1; omega
      · simp
    · have hd : re.toList.drop e = [] := by
        apply List.drop_eq_nil_of_le; simp; omega
      simp [h, hd]

theorem fromStrRadix10_digits (ds : List Nat) (h : ds.all isDigit = true) :
    fromStrRadix10 ds = if ds.isEmpty then none else if digitsVal ds ≤ usizeMax then some (digitsVal ds) else none := by
  cases ds with
  | nil => simp [fromStrRadix10]
  | cons d r =>
    have hd : d ≠ 43 := by
      intro h43; subst h43; simp [isDigit] at h
    unfold fromStrRadix10
    split
    · rename_i r' heq; cases heq; exact absurd rfl hd
    · simp [h]

theorem parse_decimal_eq (re : Bytes) (ix : Nat) : parse_decimal ⟨re, 0⟩ ix = parseDecimal re ix := by
  simp only [parse_decimal, parseDecimal, str_len_whole, str_slice_whole]
  rw [parse_decimal_loop0_eq re _ ix (by omega) (by omega)]
  simp only [res_bind_ok, slice]
  split
  · rename_i hs
    have hall := List.all_takeWhile (p := isDigit) (l := re.toList.drop ix)
    simp only [hs, Bool.not_true, Bool.false_eq_true, if_false, extract_takeWhile, res_bind_ok,
      fromStrRadix10_digits _ hall]
    split
    · rfl
    · split <;> rfl
  · rename_i hs
    simp [hs]

/-! ## parse_repeat -/

theorem parse_repeat_tail {α : Type} (re : Bytes) (ix : Nat) (v : α) (s : String) (k : PErr) (c : Nat) :
    ((if (ix == re.size) = true then pure true
        else do
          let t3 ← byteAt re ix s
          pure (t3 != c) : Res Bool) >>= fun t2 =>
      if t2 = true then Res.err k ix else Res.ok v) =
    (if (ix == re.size) = true then Res.err k ix
    else do
      let b ← byteAt re ix s
      if (b != c) = true then Res.err k ix else (Res.ok v)) := by
  split
  · rfl
  · cases byteAt re ix s <;> rfl

/-- the generated `match t with | some (next_, v) => … | _ => …` (the matcher of `parse_repeat`) is the model's
    `| some (next, v) => … | none => …` -/
theorem match_some_pair_wild {β : Type} (t : Option (Nat × Nat)) (f : Nat → Nat → Res β) (g : Option (Nat × Nat) → Res β) :
    parse_repeat.match_1 (fun _ => Res β) t f g =
    (match t with
      | some (a, b) => f a b
      | none => g none) := by
  cases t with
  | none => rfl
  | some p => cases p; rfl

theorem parse_repeat_eq (re : Bytes) (st : PState) (ix : Nat) :
    parse_repeat re st ix = parseRepeat re st.flags ix := by
  simp only [parse_repeat, parseRepeat, optional_whitespace_eq, parse_decimal_eq, parse_repeat_tail,
    match_some_pair_wild]
  rfl

/-! ## unknown_flag -/

theorem unknown_flag_eq (re : Bytes) (start end_ : Nat) :
    unknown_flag ⟨re, 0⟩ start end_ = Res.mapv (fun e => (e, start)) (unknownFlag re start end_) := by
  simp only [unknown_flag, unknownFlag, str_byteAt_whole, str_slice_whole]
  cases byteAt re end_ "unknown_flag: bytes[end]" with
  | ok b =>
    simp only [res_bind_ok]
    cases slice re start (end_ + codepointLen b) "unknown_flag: re[start..after_end]" with
    | ok s => simp [Res.mapv, ch]
    | _ => rfl
  | _ => rfl

/-! ## parse_hex -/

theorem parse_hex_loop0_eq (re : Bytes) (st : PState) (ix b0 starthex : Nat) (n endhex : Nat) :
    parse_hex_loop0 re st ix b0 starthex n endhex = hexBraceLoop n re ix starthex endhex := by
  induction n generalizing endhex b0 with
  | zero => simp [parse_hex_loop0, hexBraceLoop]
  | succ n ih =>
    rw [parse_hex_loop0, hexBraceLoop]
    split
    · rfl
    · cases hb : re[endhex]? with
      | none => simp [byteAt_none _ hb]
      | some b =>
        simp only [byteAt_some _ hb, res_bind_ok, is_hex_digit_eq, ih]

theorem parse_hex_t0 (re : Bytes) (ix digits : Nat) (s : String) :
    ((if decide (ix + digits ≤ re.size) = true then do
        let t1 ← bytesRange re ix (ix + digits) s
        pure (t1.all fun b => isHexDigit b)
      else pure false : Res Bool)) =
    .ok (decide (ix + digits ≤ re.size) && (re.extract ix (ix + digits)).toList.all isHexDigit) := by
  by_cases h : ix + digits ≤ re.size
  · simp [h, bytesRange]
  · simp [h]

theorem parse_hex_eq (re : Bytes) (st : PState) (ix digits : Nat) :
    parse_hex re st ix digits = parseHex re st.flags ix digits := by
  simp only [parse_hex, parseHex, parse_hex_loop0_eq, is_hex_digit_eq, flag_casei, parse_hex_t0, res_bind_ok]
  have hrest : ∀ (e : Nat) (s : List Nat),
      (do let codepoint ← expect (parseHexU32 s) "parse_hex: from_str_radix(..).unwrap()"
          match charFromU32 codepoint with
          | some c => Res.ok (e, Expr.literal ([] ++ [c]) st.flags.casei)
          | _ => Res.err PErr.invalidCodepointValue ix : Res (Nat × Expr)) =
      (match parseHexU32 s with
        | none => Res.panic "parse_hex: from_str_radix(..).unwrap()"
        | some cp =>
          if cp.isValidChar then Res.ok (e, Expr.literal [mkChar cp] st.flags.casei)
          else Res.err PErr.invalidCodepointValue ix) := by
    intro e s
    cases parseHexU32 s with
    | none => simp [expect]
    | some cp =>
      simp only [expect, res_bind_ok, charFromU32]
      by_cases hv : cp.isValidChar <;> simp [hv]
  by_cases h : ix ≥ re.size
  · simp [h]
  · simp only [h, decide_false, Bool.false_eq_true, if_false]
    cases byteAt re ix "parse_hex: bytes[ix]" with
    | ok b =>
      simp only [res_bind_ok]
      split
      · cases slice re ix (ix + digits) "parse_hex: self.re[ix..end]" with
        | ok t => exact hrest _ _
        | _ => rfl
      · split
        · cases hexBraceLoop 16 re ix (ix + 1) (ix + 1) with
          | ok e =>
            simp only [res_bind_ok]
            cases slice re (ix + 1) e "parse_hex: self.re[starthex..endhex]" with
            | ok t => exact hrest _ _
            | _ => rfl
          | _ => rfl
        · rfl
    | _ => rfl

end Leaf
attribute [-simp] Leaf.is_digit_eq Leaf.is_hex_digit_eq Leaf.is_id_char_eq Leaf.make_literal_eq Leaf.flag_casei Leaf.flag_multi Leaf.flag_dotnl Leaf.flag_swapGreed Leaf.flag_ignoreSpace Leaf.flag_unicode Leaf.optional_whitespace_eq

namespace Ident

-- PROVIDED ELSEWHERE
theorem parse_decimal_eq (re : Bytes) (ix : Nat) : parse_decimal ⟨re, 0⟩ ix = parseDecimal re ix := Leaf.parse_decimal_eq re ix

theorem is_id_char_eq (isAlnum : Char → Bool) (c : Char) : is_id_char isAlnum c = isIdChar isAlnum c := rfl

/-! ## `parse_numbered_backref` -/

theorem parse_numbered_backref_eq (re : Bytes) (st : PState) (ix : Nat) (k : RefKind) :
    parse_numbered_backref re st ix k.mk = parseNumberedBackref re st ix k := by
  unfold parse_numbered_backref parseNumberedBackref
  rw [parse_decimal_eq]
  cases h : parseDecimal re ix with
  | ok o =>
    simp only [res_bind_ok]
    cases o with
    | none => rfl
    | some p =>
      obtain ⟨e, g⟩ := p
      simp only
      by_cases hg : g < re.size / 2
      · simp only [hg, decide_true, ↓reduceIte]
      · simp only [hg, decide_false, Bool.false_eq_true, ↓reduceIte]
  | err k p => rfl
  | cerr => rfl
  | panic s => rfl
  | outOfFuel => rfl

/-! ## `parse_named_backref` (given `parse_id`) -/

theorem strFrom_eq (re : Bytes) (a : Nat) (site : String) :
    strFrom re a site = if sliceFromOk re a then .ok ⟨re, a⟩ else .panic site := by
  simp [strFrom, Str.suffix]

/-- `parse_named_backref` = the model, given that `parse_id` on the suffix at `ix` = the model's `parseId` -/
theorem parse_named_backref_eq_of (isAlnum : Char → Bool) (re : Bytes) (st : PState) (ix : Nat)
    (open_ close : List Nat) (allowRelative : Bool) (k : RefKind)
    (hid : sliceFromOk re ix = true → parse_id isAlnum ⟨re, ix⟩ open_ close allowRelative =
        Res.mapv (fun o => o.map (fun (r : Nat × Nat × Nat) => ((re.extract r.1 r.2.1).toList, r.2.2)))
          (parseId isAlnum re ix open_ close allowRelative)) :
    parse_named_backref isAlnum re st ix open_ close allowRelative k.mk =
      parseNamedBackref isAlnum re st ix open_ close allowRelative k := by
  unfold parse_named_backref parseNamedBackref
  rw [strFrom_eq]
  simp only [sliceFrom]
  by_cases hs : sliceFromOk re ix = true
  · simp only [hs, ↓reduceIte, res_bind_ok]
    rw [hid hs]
    cases h : parseId isAlnum re ix open_ close allowRelative with
    | ok o =>
      simp only [Res.mapv, res_bind_ok]
      cases o with
      | none => rfl
      | some r =>
        obtain ⟨a, b, skip⟩ := r
        simp only [Option.map_some]
        cases hn : namedGet st.namedGroups (re.extract a b).toList with
        | some g =>
          simp only [res_pure, res_bind_ok]
          cases hf : Option.filter (fun group => decide (group < re.size / 2)) (some g) <;> rfl
        | none =>
          simp only
          cases hp : parseIsize (re.extract a b).toList with
          | none => rfl
          | some g =>
            simp only [res_pure, res_bind_ok]
            by_cases hg : g ≥ 0
            · simp only [tryIntoUsize, hg, ↓reduceIte]
              generalize Option.filter _ _ = o
              cases o <;> rfl
            · simp only [tryIntoUsize, checkedAddSigned, hg, ↓reduceIte]
              generalize Option.filter _ _ = o
              cases o <;> rfl
    | err k p => rfl
    | cerr => rfl
    | panic s => rfl
    | outOfFuel => rfl
  · simp only [hs, Bool.false_eq_true, ↓reduceIte, res_bind_panic]

/-! ## `parse_id` -/

/-- The one place where the generated `parse_id` looks at a *decoded character* where the model looks at a *byte*:
    `iter.next_if(|(_, ch)| *ch == '-')`.  On valid UTF-8 a non-ASCII lead byte never starts the character `'-'`;
    the model's lossy decoder `decodeList`, however, decodes the (invalid) over-long form `C0 AD` to `'-'`, so the
    agreement needs this side condition on the byte at `id_start` (true of the bytes of every `&str`). -/
def DashOK (re : Bytes) (i : Nat) : Prop :=
  ∀ b, re[i]? = some b → 0x80 ≤ b → (decodeAt re i b).1 ≠ '-'

theorem mkChar_toNat_ascii (b : Nat) (h : b < 128) : (mkChar b).toNat = b := by
  have hv : b.isValidChar := by left; omega
  simp only [mkChar, hv, ↓reduceDIte]
  rfl

theorem decodeAt_ascii (re : Bytes) (i b : Nat) (hg : re[i]? = some b) (hb : b < 128) :
    decodeAt re i b = (mkChar b, 1) := by
  have hlt := lt_size_of_get hg
  have hc : codepointLen b = 1 := by simp [codepointLen]; omega
  have he : (re.extract i (i + 1)).toList = [b] := by
    apply List.ext_getElem?
    intro j
    rw [Array.getElem?_toList, Array.getElem?_extract]
    have : min (i + 1) re.size = i + 1 := by omega
    rw [this]
    cases j with
    | zero => simpa using hg
    | succ j => simp
  unfold decodeAt
  simp only [hc, he]
  unfold decodeList
  simp [hb, decodeList]

theorem findNot_ge (pred : Char → Bool) : ∀ (f : Nat) (re : Bytes) (ix p : Nat),
    findNot pred f re ix = .ok (some p) → ix ≤ p := by
  intro f
  induction f with
  | zero => intro re ix p h; simp [findNot] at h
  | succ f ih =>
    intro re ix p h
    unfold findNot at h
    cases hg : re[ix]? with
    | none => rw [hg] at h; simp at h
    | some b =>
      rw [hg] at h
      simp only at h
      split at h
      · have := ih _ _ _ h; omega
      · cases h; exact Nat.le_refl _

/-- `iter.next_if(|(_, ch)| *ch == '-')` = the byte test of the model -/
theorem nextIf_dash (re : Bytes) (bs i : Nat) (hd : DashOK re i) :
    (CharIter.nextIf ⟨re, bs, i⟩ (fun ch => ch == '-')) =
      if re[i]? == some (ch '-') then (true, ⟨re, bs, i + 1⟩) else (false, ⟨re, bs, i⟩) := by
  unfold CharIter.nextIf
  simp only
  cases hg : re[i]? with
  | none => simp
  | some b =>
    simp only
    by_cases hb : b < 128
    · rw [decodeAt_ascii re i b hg hb]
      simp only
      by_cases h45 : b = 45
      · subst h45
        have : (mkChar 45 == '-') = true := by decide
        simp [this, ch]
      · have : (mkChar b == '-') = false := by
          apply Bool.eq_false_iff.mpr
          intro h
          have h' : mkChar b = '-' := by simpa using h
          have := mkChar_toNat_ascii b hb
          rw [h'] at this
          exact h45 (by simpa using this.symm)
        have hne : (some b == some (ch '-')) = false := by
          simp [ch]; exact h45
        simp [this, hne]
    · have hne := hd b hg (by omega)
      have : ((decodeAt re i b).1 == '-') = false := by simpa using hne
      have hne' : (some b == some (ch '-')) = false := by
        simp [ch]; omega
      simp [this, hne']

theorem findIdx_eq (re : Bytes) (bs i : Nat) (q : Char → Bool) :
    CharIter.findIdx ⟨re, bs, i⟩ (fun ch => !(q ch)) =
      Res.mapv (fun o => o.map (fun a => a - bs)) (findNot q (re.size + 1) re i) := by
  unfold CharIter.findIdx
  have : (fun c => !(fun ch => !(q ch)) c) = q := by funext c; simp
  simp only [this]
  cases findNot q (re.size + 1) re i with
  | ok o => cases o <;> rfl
  | err k p => rfl
  | cerr => rfl
  | panic s => rfl
  | outOfFuel => rfl

theorem startsWithPred_eq (isAlnum : Char → Bool) (close : List Nat) :
    startsWithPred close (fun t0 => is_id_char isAlnum t0) =
      (match close with | c :: _ => isIdChar isAlnum (mkChar c) | [] => false) := by
  cases close <;> rfl

theorem parse_id_eq_at (isAlnum : Char → Bool) (re : Bytes) (base : Nat) (open_ close : List Nat) (allowRelative : Bool)
    (hd : allowRelative = true → sliceFromOk re (base + open_.length) = true → DashOK re (base + open_.length)) :
    parse_id isAlnum ⟨re, base⟩ open_ close allowRelative =
      Res.mapv (fun o => o.map (fun (r : Nat × Nat × Nat) => ((re.extract r.1 r.2.1).toList, r.2.2)))
        (parseId isAlnum re base open_ close allowRelative) := by
  unfold parse_id parseId
  -- the `debug_assert!`
  have hdbg : ∀ c : Nat, isIdChar isAlnum (mkChar c) = true ∨ isIdChar isAlnum (mkChar c) = false :=
    fun c => by cases isIdChar isAlnum (mkChar c) <;> simp
  rcases close with _ | ⟨c, cs⟩
  case' cons =>
    rcases hdbg c with hdb | hdb
    · simp only [startsWithPred, is_id_char_eq, hdb, ↓reduceIte]; rfl
    simp only [startsWithPred, is_id_char_eq, hdb, Bool.false_eq_true, ↓reduceIte]
    generalize (c :: cs) = close
  case' nil =>
    simp only [startsWithPred, Bool.false_eq_true, ↓reduceIte]
    generalize ([] : List Nat) = close
  all_goals
    simp only [Str.startsWith]
    by_cases hsw : startsWithAt re base open_ = true
    case neg => simp only [hsw, Bool.not_false, ↓reduceIte, Res.mapv, Option.map_none]
    simp only [hsw, Bool.not_true, Bool.false_eq_true, ↓reduceIte, Str.charIndices, sliceFrom]
    by_cases hs : sliceFromOk re (base + open_.length) = true
    case neg => simp [hs, Res.mapv]
    simp only [hs, ↓reduceIte, res_bind_ok]
    have hge : ∀ (q : Char → Bool) (i p : Nat), base + open_.length ≤ i →
        findNot q (re.size + 1) re i = .ok (some p) → base + open_.length ≤ p :=
      fun q i p hi h => Nat.le_trans hi (findNot_ge _ _ _ _ _ h)
    cases allowRelative
    case' false =>
      simp only [Bool.false_eq_true, ↓reduceIte, Bool.false_and, is_id_char_eq]
      rw [findIdx_eq]
      have hr := fun p => hge (isIdChar isAlnum) (base + open_.length) p (Nat.le_refl _)
      revert hr
      generalize findNot (isIdChar isAlnum) (re.size + 1) re (base + open_.length) = r
      intro hr
    case' true =>
      simp only [↓reduceIte, Bool.true_and, nextIf_dash re _ _ (hd rfl hs), is_id_char_eq]
      by_cases hm : (re[base + open_.length]? == some (ch '-')) = true
      case' pos =>
        simp only [hm, ↓reduceIte]
        rw [findIdx_eq]
        have hr := fun p => hge isAsciiDigitChar (base + open_.length + 1) p (Nat.le_succ _)
        revert hr
        generalize findNot isAsciiDigitChar (re.size + 1) re (base + open_.length + 1) = r
        intro hr
      case' neg =>
        simp only [hm, Bool.false_eq_true, ↓reduceIte]
        rw [findIdx_eq]
        have hr := fun p => hge (isIdChar isAlnum) (base + open_.length) p (Nat.le_refl _)
        revert hr
        generalize findNot (isIdChar isAlnum) (re.size + 1) re (base + open_.length) = r
        intro hr
    all_goals
      -- the last `match id_len`, for a length `l`
      have hfin : ∀ l : Nat,
          (match some l with
            | some 0 => Res.ok none
            | some id_len => do
              let t2 ← Str.slice ⟨re, base⟩ open_.length (open_.length + id_len) "parse_id: s[id_start..id_end]"
              Res.ok (some (t2, open_.length + id_len + close.length))
            | x => Res.ok none : Res (Option (List Nat × Nat))) =
          Res.mapv (fun o => o.map (fun (r : Nat × Nat × Nat) => ((re.extract r.1 r.2.1).toList, r.2.2)))
            (match some l with
              | none => Res.ok none
              | some 0 => Res.ok none
              | some l =>
                if (!sliceOk re (base + open_.length) (base + open_.length + l)) = true then
                  Res.panic "parse_id: s[id_start..id_end]"
                else
                  Res.ok (some (base + open_.length, base + open_.length + l,
                    base + open_.length + l - base + close.length))) := by
        intro l
        cases l with
        | zero => rfl
        | succ l =>
          simp only [Str.slice, slice, ← Nat.add_assoc]
          by_cases hso : sliceOk re (base + open_.length) (base + open_.length + l + 1) = true
          · simp only [hso, ↓reduceIte, res_bind_ok, Bool.not_true, Bool.false_eq_true, Res.mapv, Option.map_some]
            congr 3
            omega
          · simp only [hso, Bool.false_eq_true, ↓reduceIte, res_bind_panic, Bool.not_false, Res.mapv]
      cases r with
      | ok o =>
        cases o with
        | none =>
          simp only [Res.mapv, Option.map_none, res_bind_ok, res_pure, Str.len]
          by_cases hc : close.isEmpty = true
          · simp only [hc, ↓reduceIte, res_pure, res_bind_ok]
            exact hfin _
          · simp only [hc, Bool.false_eq_true, ↓reduceIte, res_pure, res_bind_ok]
            rfl
        | some p =>
          have hp := hr p rfl
          have e : base + (open_.length + (p - (base + open_.length))) = p := by omega
          simp only [Res.mapv, Option.map_some, res_bind_ok, res_pure, Str.suffix, e]
          by_cases hsp : sliceFromOk re p = true
          · simp only [hsp, ↓reduceIte, res_bind_ok]
            by_cases hc : startsWithAt re p close = true
            · simp only [hc, ↓reduceIte, res_pure, res_bind_ok]
              exact hfin _
            · simp only [hc, Bool.false_eq_true, ↓reduceIte, res_pure, res_bind_ok]
              rfl
          · simp only [hsp, Bool.false_eq_true, ↓reduceIte, res_bind_panic]
      | err k p => rfl
      | cerr => rfl
      | panic s => rfl
      | outOfFuel => rfl

/-! ## `parse_named_backref` -/

theorem parse_named_backref_eq_at (isAlnum : Char → Bool) (re : Bytes) (st : PState) (ix : Nat)
    (open_ close : List Nat) (allowRelative : Bool) (k : RefKind)
    (hd : allowRelative = true → sliceFromOk re (ix + open_.length) = true → DashOK re (ix + open_.length)) :
    parse_named_backref isAlnum re st ix open_ close allowRelative k.mk =
      parseNamedBackref isAlnum re st ix open_ close allowRelative k :=
  parse_named_backref_eq_of isAlnum re st ix open_ close allowRelative k
    (fun _ => parse_id_eq_at isAlnum re ix open_ close allowRelative hd)

/-- without relative references no side condition at all -/
theorem parse_id_eq_norel (isAlnum : Char → Bool) (re : Bytes) (base : Nat) (open_ close : List Nat) :
    parse_id isAlnum ⟨re, base⟩ open_ close false =
      Res.mapv (fun o => o.map (fun (r : Nat × Nat × Nat) => ((re.extract r.1 r.2.1).toList, r.2.2)))
        (parseId isAlnum re base open_ close false) :=
  parse_id_eq_at isAlnum re base open_ close false (fun h => by cases h)

theorem parse_named_backref_eq_norel (isAlnum : Char → Bool) (re : Bytes) (st : PState) (ix : Nat)
    (open_ close : List Nat) (k : RefKind) :
    parse_named_backref isAlnum re st ix open_ close false k.mk =
      parseNamedBackref isAlnum re st ix open_ close false k :=
  parse_named_backref_eq_at isAlnum re st ix open_ close false k (fun h => by cases h)

/-- the side condition is needed: the over-long form `C0 AD` (not UTF-8) is `'-'` for the lossy decoder -/
example : parse_id (fun c => c.isAlphanum) ⟨#[0xC0, 0xAD, 49], 0⟩ [] [] true = .ok (some ([0xC0, 0xAD, 49], 3)) ∧
    parseId (fun c => c.isAlphanum) #[0xC0, 0xAD, 49] 0 [] [] true = .ok none := by
  constructor <;> rfl

/-! ## the side condition holds for the bytes of every string -/

theorem DashOK_bytesOf (cs : List Char) (i : Nat) (hb : isBoundary (bytesOf cs) i = true) :
    DashOK (bytesOf cs) i := by
  intro b hg hge hdec
  unfold bytesOf at hb hg hdec
  generalize hns : cs.map Char.toNat = ns at hb hg hdec
  rw [isBoundary_toArray] at hb
  have hg' : (Utf8.encode ns)[i]? = some b := by simpa using hg
  obtain ⟨k, hk, rfl⟩ := (Utf8.C05_boundary_iff ns i).mp hb
  have hlt : Utf8.off ns k < (Utf8.encode ns).length := (List.getElem?_eq_some_iff.mp hg').1
  have hk' : k < ns.length := by
    rcases Nat.lt_or_ge k ns.length with h | h
    · exact h
    · have : k = ns.length := by omega
      subst this; rw [Utf8.off_length] at hlt; omega
  obtain ⟨b', hb1, _, hb3⟩ := Utf8.lead_at ns k hk'
  rw [hg'] at hb1
  cases hb1
  have hkc : k < cs.length := by rw [← hns] at hk'; simpa using hk'
  have hnk : ns[k] = cs[k].toNat := by subst hns; simp
  -- the bytes of the character
  have hex : ((Utf8.encode ns).toArray.extract (Utf8.off ns k) (Utf8.off ns k + codepointLen b)).toList =
      Utf8.encodeChar ns[k] := by
    rw [hb3]
    conv => lhs; rw [Utf8.encode_split3 ns k hk']
    have hoff : Utf8.off ns k = (Utf8.encode (ns.take k)).length := rfl
    simp [hoff]
  have hdl : decodeList (Utf8.encodeChar ns[k]) = [cs[k]] := by
    rw [hnk]; exact decodeList_encodeChar _
  unfold decodeAt at hdec
  simp only [hex, hdl] at hdec
  -- so the character is '-', whose encoding is the byte 45
  have h0 := Utf8.get_at ns k 0 hk' (Utf8.encodeChar_length_pos _)
  rw [Nat.add_zero, hg', hnk, hdec] at h0
  have : b = 45 := by
    have h1 : (Utf8.encodeChar '-'.toNat)[0]? = some 45 := by decide
    rw [h1] at h0; cases h0; rfl
  omega

/-! ## the statements for a pattern that is valid UTF-8 in the sense needed here -/

/-- at every character boundary, a non-ASCII byte does not decode to `'-'` (no over-long `'-'`) -/
def DashWF (re : Bytes) : Prop := ∀ i, isBoundary re i = true → DashOK re i

theorem DashWF_bytesOf (cs : List Char) : DashWF (bytesOf cs) := fun i hb => DashOK_bytesOf cs i hb

theorem parse_id_eq (isAlnum : Char → Bool) (re : Bytes) (base : Nat) (open_ close : List Nat) (allowRelative : Bool)
    (hw : DashWF re) :
    parse_id isAlnum ⟨re, base⟩ open_ close allowRelative =
      Res.mapv (fun o => o.map (fun (r : Nat × Nat × Nat) => ((re.extract r.1 r.2.1).toList, r.2.2)))
        (parseId isAlnum re base open_ close allowRelative) :=
  parse_id_eq_at isAlnum re base open_ close allowRelative (fun _ hs => hw _ hs)

theorem parse_named_backref_eq (isAlnum : Char → Bool) (re : Bytes) (st : PState) (ix : Nat)
    (open_ close : List Nat) (allowRelative : Bool) (k : RefKind) (hw : DashWF re) :
    parse_named_backref isAlnum re st ix open_ close allowRelative k.mk =
      parseNamedBackref isAlnum re st ix open_ close allowRelative k :=
  parse_named_backref_eq_at isAlnum re st ix open_ close allowRelative k (fun _ hs => hw _ hs)

end Ident

namespace Escape

-- PROVIDED ELSEWHERE
theorem is_digit_eq (b : Nat) : is_digit b = isDigit b := Leaf.is_digit_eq b
-- PROVIDED ELSEWHERE
theorem parse_hex_eq (re : Bytes) (st : PState) (ix digits : Nat) : parse_hex re st ix digits = parseHex re st.flags ix digits := Leaf.parse_hex_eq re st ix digits
-- PROVIDED ELSEWHERE
theorem parse_numbered_backref_eq (re : Bytes) (st : PState) (ix : Nat) (k : RefKind) : parse_numbered_backref re st ix k.mk = parseNumberedBackref re st ix k := Ident.parse_numbered_backref_eq re st ix k
-- PROVIDED ELSEWHERE
theorem make_literal_eq (s : List Nat) : make_literal s = makeLiteral (decodeList s) := Leaf.make_literal_eq s

theorem backref_mk : (fun group => Expr.backref group) = RefKind.backref.mk := by funext g; rfl
theorem subroutine_mk : (fun group => Expr.subroutine group) = RefKind.subroutine.mk := by funext g; rfl

theorem flag_casei (re : Bytes) (st : PState) : flag re st .casei = st.flags.casei := rfl

theorem parse_escape_loop0_eq (isAlnum : Char → Bool) (re : Bytes) (st : PState) (ix b0 : Nat) (n end_ : Nat) :
    parse_escape_loop0 isAlnum re st ix b0 n end_ = uniNameLoop n re ix end_ := by
  induction n generalizing end_ b0 with
  | zero => rfl
  | succ n ih =>
    rw [parse_escape_loop0, uniNameLoop]
    by_cases h : end_ == re.size
    · simp only [h, if_true]
    · simp only [h, byteAt]
      cases hb : re[end_]? with
      | none => simp
      | some b =>
        simp only [res_bind_ok]
        by_cases h2 : b == ch '}'
        · simp [h2]
        · simp [h2, ih]

theorem decodeList_Z : decodeList [10, 42, 36] = ['\n', '*', '$'] := by decide
theorem decodeList_h : decodeList [91, 48, 45, 57, 65, 45, 70, 97, 45, 102, 93] = "[0-9A-Fa-f]".toList := by decide
theorem decodeList_H : decodeList [91, 94, 48, 45, 57, 65, 45, 70, 97, 45, 102, 93] = "[^0-9A-Fa-f]".toList := by decide

theorem ite_ext {α : Sort _} {c : Prop} [Decidable c] {a a' b b' : α} (h1 : c → a = a') (h2 : ¬c → b = b') :
    (if c then a else b) = (if c then a' else b') := by
  by_cases h : c
  · simp only [h, if_true]; exact h1 h
  · simp only [h, if_false]; exact h2 h

theorem res_bind_eta3 {α β γ : Type} (x : Res (α × β × γ)) :
    (x >>= fun p => Res.ok (p.1, p.2.1, p.2.2)) = x := by
  cases x <;> rfl

theorem ite_bind' {α β : Type} (c : Prop) [Decidable c] (a b : Res α) (f : α → Res β) :
    ((if c then a else b) >>= f) = if c then a >>= f else b >>= f := by
  split <;> rfl

/-- next branch of the chain: the `then` arms are goal 1, the rest of the chain goal 2 -/
macro "nxt" : tactic => `(tactic| (refine ite_ext (fun _ => ?_) (fun _ => ?_)))

set_option maxHeartbeats 1000000 in
theorem parse_escape_eq (isAlnum : Char → Bool) (re : Bytes) (st : PState) (ix : Nat) (inClass : Bool) (hw : Ident.DashWF re) :
    parse_escape isAlnum re st ix inClass = parseEscape isAlnum re st ix inClass := by
  unfold parse_escape parseEscape
  cases hb : re[ix + 1]? with
  | none => rfl
  | some b =>
    have hnb := fun (st : PState) (ix : Nat) (o c : List Nat) (ar : Bool) (k : RefKind) =>
      Ident.parse_named_backref_eq isAlnum re st ix o c ar k hw
    simp only [is_digit_eq, backref_mk, subroutine_mk, parse_numbered_backref_eq, hnb,
      parse_hex_eq, flag_casei, parse_escape_loop0_eq, decodeList_Z]
    nxt; · rfl
    nxt; · rfl
    nxt; · rfl
    nxt; · rfl
    nxt; · rfl
    nxt; · rfl  -- \b
    nxt; · rfl  -- \B
    nxt; · rfl
    nxt; · rfl
    nxt; · rfl -- dsw
    nxt
    · cases h : (b == ch 'h')
      · simp only [if_false, decodeList_H, Bool.false_eq_true, res_pure, res_bind_ok]
      · simp only [if_true, decodeList_h, res_pure, res_bind_ok]
    nxt; · rfl -- x
    nxt; · rfl -- u
    nxt; · rfl -- U
    nxt
    · cases hb2 : byteAt re (ix + 1 + codepointLen b) "parse_escape: bytes[end] (\\p)" with
      | ok b2 =>
        simp only [res_bind_ok]
        cases h : (b2 == ch '{') <;>
          simp only [Bool.false_eq_true, if_false, if_true, res_pure, res_bind_ok]
      | _ => rfl
    nxt; · rfl -- K
    nxt; · rfl -- G
    nxt
    · nxt; · rfl
      cases hb2 : byteAt re (ix + 1 + codepointLen b) "parse_escape: bytes[end] (\\g)" with
      | ok b2 =>
        simp only [res_bind_ok]
        nxt; · exact res_bind_eta3 _
        nxt; · exact res_bind_eta3 _
        exact res_bind_eta3 _
      | _ => rfl
    rw [ite_bind']; nxt; · rfl
    rw [ite_bind']; nxt; · rfl
    rw [ite_bind']; nxt; · rfl
    rw [ite_bind']; nxt; · rfl
    rw [ite_bind']; nxt; · rfl
    rw [ite_bind']; nxt; · rfl
    rw [ite_bind']; nxt; · rfl
    rw [ite_bind']; nxt; · rfl
    rw [ite_bind']; nxt; · rfl
    cases hs : slice re (ix + 1) (ix + 1 + codepointLen b) "parse_escape: self.re[ix + 1..end]" with
    | ok s =>
      simp only [res_bind_ok]
      rw [ite_bind']; nxt; · rfl
      rfl
    | _ => rfl

/-- the result of the model's class loop in the shape of the generated loop's result (`nest` is `0` at the exit) -/
def clsRes (r : Nat × List Char × PState) : PState × Nat × List Char × Int := (r.2.2, r.1, r.2.1.reverse, 0)

theorem parse_class_loop0_eq (isAlnum : Char → Bool) (re : Bytes) (n : Nat) (st : PState) (ix : Nat)
    (cls : List Char) (nest : Int) (hw : Ident.DashWF re) :
    parse_class_loop0 isAlnum re n st ix cls nest
      = Res.mapv clsRes (classLoop isAlnum n re st ix nest cls.reverse) := by
  induction n generalizing st ix cls nest with
  | zero => rfl
  | succ n ih =>
    rw [parse_class_loop0, classLoop]
    by_cases h : ix == re.size
    · simp only [h, if_true]; rfl
    simp only [h, byteAt]
    cases hb : re[ix]? with
    | none => rfl
    | some b =>
      simp only [res_bind_ok, Bool.false_eq_true, if_false]
      by_cases h1 : b == ch '\\'
      · simp only [h1, if_true, parse_escape_eq isAlnum re _ _ _ hw]
        cases he : parseEscape isAlnum re st ix true with
        | ok r =>
          obtain ⟨end_, e, st'⟩ := r
          simp only [res_bind_ok]
          cases e with
          | literal val c =>
            simp only [charsCount]
            by_cases hl : (val.length != 1) = true
            · simp only [hl, if_true]; rfl
            · simp only [hl, if_false, Bool.false_eq_true, res_pure, res_bind_ok, ih, List.reverse_append]
          | delegate inner sz c =>
            simp only [res_pure, res_bind_ok, ih, List.reverse_append]
          | _ => rfl
        | _ => rfl
      simp only [h1, Bool.false_eq_true, if_false]
      by_cases h2 : b == ch '['
      · simp only [h2, if_true, ih, List.reverse_append, List.reverse_cons, List.reverse_nil, List.nil_append,
          List.singleton_append]
      simp only [h2, Bool.false_eq_true, if_false]
      by_cases h3 : b == ch ']'
      · simp only [h3, if_true]
        by_cases h4 : (nest - 1 == 0) = true
        · have h5 : nest - 1 = 0 := eq_of_beq h4
          simp only [h5, beq_self_eq_true, if_true, Res.mapv, clsRes, List.reverse_cons, List.reverse_reverse]
        · simp only [h4, Bool.false_eq_true, if_false, ih, List.reverse_append, List.reverse_cons, List.reverse_nil,
            List.nil_append, List.singleton_append]
      simp only [h3, Bool.false_eq_true, if_false]
      cases hs : slice re ix (ix + codepointLen b) "parse_class: self.re[ix..end]" with
      | ok s => simp only [res_bind_ok, ih, List.reverse_append]
      | _ => rfl

theorem class_tail (re : Bytes) (x : Res (Nat × List Char × PState)) :
    (Res.mapv clsRes x >>= fun r =>
        Res.ok (r.2.1 + 1, Expr.delegate r.2.2.1 1 (flag re r.1 FlagBit.casei), r.1))
      = (x >>= fun r => Res.ok (r.1 + 1, Expr.delegate r.2.1.reverse 1 r.2.2.flags.casei, r.2.2)) := by
  cases x <;> rfl

theorem parse_class_eq (isAlnum : Char → Bool) (re : Bytes) (st : PState) (ix : Nat) (hw : Ident.DashWF re) :
    parse_class isAlnum re st ix = parseClass isAlnum re st ix := by
  unfold parse_class parseClass
  simp only [List.nil_append]
  by_cases h1 : (re[ix + 1]? == some (ch '^')) = true
  · simp only [h1, if_true, res_pure, res_bind_ok]
    by_cases h2 : (re[ix + 1 + 1]? == some (ch ']')) = true
    · simp only [h2, if_true, res_pure, res_bind_ok, parse_class_loop0_eq isAlnum re _ _ _ _ _ hw]
      exact class_tail re _
    · simp only [h2, Bool.false_eq_true, if_false, res_pure, res_bind_ok, parse_class_loop0_eq isAlnum re _ _ _ _ _ hw]
      exact class_tail re _
  · simp only [h1, Bool.false_eq_true, if_false, res_pure, res_bind_ok]
    by_cases h2 : (re[ix + 1]? == some (ch ']')) = true
    · simp only [h2, if_true, res_pure, res_bind_ok, parse_class_loop0_eq isAlnum re _ _ _ _ _ hw]
      exact class_tail re _
    · simp only [h2, Bool.false_eq_true, if_false, res_pure, res_bind_ok, parse_class_loop0_eq isAlnum re _ _ _ _ _ hw]
      exact class_tail re _

end Escape

namespace Descent
open Ident (DashOK DashWF DashWF_bytesOf)
theorem is_digit_eq (b : Nat) : is_digit b = isDigit b := Leaf.is_digit_eq b
theorem optional_whitespace_eq (re : Bytes) (st : PState) (ix : Nat) : optional_whitespace re st ix = optWs re st.flags ix := Leaf.optional_whitespace_eq re st ix
theorem check_for_close_paren_eq (re : Bytes) (st : PState) (ix : Nat) : check_for_close_paren re st ix = checkForCloseParen re st.flags ix := Leaf.check_for_close_paren_eq re st ix
theorem parse_repeat_eq (re : Bytes) (st : PState) (ix : Nat) : parse_repeat re st ix = parseRepeat re st.flags ix := Leaf.parse_repeat_eq re st ix
theorem unknown_flag_eq (re : Bytes) (start end_ : Nat) : unknown_flag ⟨re, 0⟩ start end_ = Res.mapv (fun e => (e, start)) (unknownFlag re start end_) := Leaf.unknown_flag_eq re start end_
theorem parse_id_eq (isAlnum : Char → Bool) (re : Bytes) (base : Nat) (open_ close : List Nat) (allowRelative : Bool) (hw : DashWF re) : parse_id isAlnum ⟨re, base⟩ open_ close allowRelative = Res.mapv (fun o => o.map (fun (r : Nat × Nat × Nat) => ((re.extract r.1 r.2.1).toList, r.2.2))) (parseId isAlnum re base open_ close allowRelative) := Ident.parse_id_eq isAlnum re base open_ close allowRelative hw
theorem parse_numbered_backref_eq (re : Bytes) (st : PState) (ix : Nat) (k : RefKind) : parse_numbered_backref re st ix k.mk = parseNumberedBackref re st ix k := Ident.parse_numbered_backref_eq re st ix k
theorem parse_named_backref_eq (isAlnum : Char → Bool) (re : Bytes) (st : PState) (ix : Nat) (open_ close : List Nat) (allowRelative : Bool) (k : RefKind) (hw : DashWF re) : parse_named_backref isAlnum re st ix open_ close allowRelative k.mk = parseNamedBackref isAlnum re st ix open_ close allowRelative k := Ident.parse_named_backref_eq isAlnum re st ix open_ close allowRelative k hw
theorem parse_escape_eq (isAlnum : Char → Bool) (re : Bytes) (st : PState) (ix : Nat) (inClass : Bool) (hw : DashWF re) : parse_escape isAlnum re st ix inClass = parseEscape isAlnum re st ix inClass := Escape.parse_escape_eq isAlnum re st ix inClass hw
theorem parse_class_eq (isAlnum : Char → Bool) (re : Bytes) (st : PState) (ix : Nat) (hw : DashWF re) : parse_class isAlnum re st ix = parseClass isAlnum re st ix := Escape.parse_class_eq isAlnum re st ix hw


/-! ## immediate facts -/

theorem backref_mk : (fun group => Expr.backref group) = RefKind.backref.mk := by funext g; rfl
theorem subroutine_mk : (fun group => Expr.subroutine group) = RefKind.subroutine.mk := by funext g; rfl

@[simp] theorem flag_casei (re : Bytes) (st : PState) : flag re st .casei = st.flags.casei := rfl
@[simp] theorem flag_multi (re : Bytes) (st : PState) : flag re st .multi = st.flags.multi := rfl
@[simp] theorem flag_dotnl (re : Bytes) (st : PState) : flag re st .dotnl = st.flags.dotnl := rfl
@[simp] theorem flag_swapGreed (re : Bytes) (st : PState) : flag re st .swapGreed = st.flags.swapGreed := rfl
@[simp] theorem flag_ignoreSpace (re : Bytes) (st : PState) : flag re st .ignoreSpace = st.flags.ignoreSpace := rfl
@[simp] theorem flag_unicode (re : Bytes) (st : PState) : flag re st .unicode = st.flags.unicode := rfl

theorem update_flag_casei (re : Bytes) (st : PState) (neg : Bool) :
    update_flag re st .casei neg = { st with flags := updateFlag st.flags (ch 'i') neg } := by
  cases neg <;> simp [update_flag, flagSet, updateFlag, ch]
theorem update_flag_multi (re : Bytes) (st : PState) (neg : Bool) :
    update_flag re st .multi neg = { st with flags := updateFlag st.flags (ch 'm') neg } := by
  cases neg <;> simp [update_flag, flagSet, updateFlag, ch]
theorem update_flag_dotnl (re : Bytes) (st : PState) (neg : Bool) :
    update_flag re st .dotnl neg = { st with flags := updateFlag st.flags (ch 's') neg } := by
  cases neg <;> simp [update_flag, flagSet, updateFlag, ch]
theorem update_flag_swapGreed (re : Bytes) (st : PState) (neg : Bool) :
    update_flag re st .swapGreed neg = { st with flags := updateFlag st.flags (ch 'U') neg } := by
  cases neg <;> simp [update_flag, flagSet, updateFlag, ch]
theorem update_flag_ignoreSpace (re : Bytes) (st : PState) (neg : Bool) :
    update_flag re st .ignoreSpace neg = { st with flags := updateFlag st.flags (ch 'x') neg } := by
  cases neg <;> simp [update_flag, flagSet, updateFlag, ch]

@[simp] theorem is_repeatable_eq (re : Bytes) (st : PState) (e : Expr) : is_repeatable re st e = isRepeatable e := by
  cases e <;> rfl

@[simp] theorem isEmptyExpr_eq (e : Expr) : isEmptyExpr e = e.isEmpty := rfl

theorem strFrom_eq (re : Bytes) (a : Nat) (site : String) :
    strFrom re a site = Res.mapv (fun _ => (⟨re, a⟩ : Str)) (sliceFrom re a site) := by
  simp only [strFrom, Str.suffix, sliceFrom, Nat.zero_add]
  split <;> rfl

theorem startsWithAt_one (re : Bytes) (ix c : Nat) : startsWithAt re ix [c] = (re[ix]? == some c) := by
  simp [startsWithAt]

theorem byteAt_some {re : Bytes} {i b : Nat} (s : String) (h : re[i]? = some b) : byteAt re i s = .ok b := by
  simp [byteAt, h]
theorem byteAt_none {re : Bytes} {i : Nat} (s : String) (h : re[i]? = none) : byteAt re i s = .panic s := by
  simp [byteAt, h]

/-! ## parse_atom -/

theorem parse_atom_step (isAlnum : Char → Bool) (f : Nat) (re : Bytes) (hw : DashWF re)
    (ihg : ∀ st ix depth, parse_group isAlnum f re st ix depth = parseGroup isAlnum f re st ix depth)
    (st : PState) (ix depth : Nat) :
    parse_atom isAlnum (f + 1) re st ix depth = parseAtom isAlnum (f + 1) re st ix depth := by
  rw [parse_atom, parseAtom]
  have hesc := fun st ix c => parse_escape_eq isAlnum re st ix c hw
  have hcls := fun st ix => parse_class_eq isAlnum re st ix hw
  simp only [optional_whitespace_eq, ihg, hesc, hcls, flag_casei, flag_multi, flag_dotnl]
  cases optWs re st.flags ix with
  | ok ix' =>
    simp only [res_bind_ok]
    split
    · rfl
    · cases byteAt re ix' "parse_atom: bytes[ix]" with
      | ok b =>
        simp only [res_bind_ok]
        repeat' split
        all_goals first | rfl | simp [*]
      | _ => rfl
  | _ => rfl

/-! ## parse_piece -/

theorem peek_eq (re : Bytes) (ix : Nat) (s : String) (c : Nat) :
    (if decide (ix < re.size) = true then (byteAt re ix s >>= fun t => pure (t == c)) else pure false : Res Bool)
      = .ok (decide (ix < re.size) && re[ix]? == some c) := by
  by_cases h : ix < re.size
  · simp [h, byteAt]
  · simp [h]

theorem ite_pure {α : Type} (c : Prop) [Decidable c] (a b : α) :
    (if c then pure a else pure b : Res α) = .ok (if c then a else b) := by
  split <;> rfl

theorem piece_rest_eq (re : Bytes) (st1 : PState) (child : Expr) (lo hi ixq : Nat) :
    (if (!isRepeatable child) = true then Res.err PErr.targetNotRepeatable ixq
      else do
        let ix ← optWs re st1.flags (ixq + 1)
        let t1 ←
          (if decide (ix < Array.size re) = true then do
              let t2 ← byteAt re ix "parse_piece: bytes[ix] (lazy)"
              pure (t2 == ch '?')
            else pure false : Res Bool)
        let __x ← (if t1 = true then pure (ix + 1, false) else pure (ix, true) : Res (Nat × Bool))
        let t3 ←
          (if decide (__x.fst < Array.size re) = true then do
              let t4 ← byteAt re __x.fst "parse_piece: bytes[ix] (possessive)"
              pure (t4 == ch '+')
            else pure false : Res Bool)
        let __x ←
          (if t3 = true then pure (__x.fst + 1, (child.repeat lo (hiOf hi) (__x.snd ^^ st1.flags.swapGreed)).atomic)
            else pure (__x.fst, child.repeat lo (hiOf hi) (__x.snd ^^ st1.flags.swapGreed)) : Res (Nat × Expr))
        Res.ok (__x.fst, __x.snd, st1)) =
    (if (!isRepeatable child) = true then Res.err PErr.targetNotRepeatable ixq
        else do
          let ix ← optWs re st1.flags (ixq + 1)
          if
                (decide
                      ((if (decide (ix < Array.size re) && re[ix]? == some (ch '?')) = true then ix + 1 else ix) <
                        Array.size re) &&
                    re[if (decide (ix < Array.size re) && re[ix]? == some (ch '?')) = true then ix + 1 else ix]? ==
                      some (ch '+')) =
                  true then
              Res.ok
                ((if (decide (ix < Array.size re) && re[ix]? == some (ch '?')) = true then ix + 1 else ix) + 1,
                  (child.repeat lo (hiOf hi)
                      (!(decide (ix < Array.size re) && re[ix]? == some (ch '?')) ^^ st1.flags.swapGreed)).atomic,
                  st1)
            else
              Res.ok
                (if (decide (ix < Array.size re) && re[ix]? == some (ch '?')) = true then ix + 1 else ix,
                  child.repeat lo (hiOf hi)
                    (!(decide (ix < Array.size re) && re[ix]? == some (ch '?')) ^^ st1.flags.swapGreed),
                  st1)) := by
  split
  · rfl
  · cases optWs re st1.flags (ixq + 1) with
    | ok ix =>
      simp only [res_bind_ok, peek_eq, ite_pure]
      cases (decide (ix < Array.size re) && re[ix]? == some (ch '?')) <;>
        simp only [if_true, Bool.false_eq_true, if_false, Bool.not_true, Bool.not_false] <;>
        split <;> rfl
    | _ => rfl

theorem parse_piece_step (isAlnum : Char → Bool) (f : Nat) (re : Bytes)
    (iha : ∀ st ix depth, parse_atom isAlnum f re st ix depth = parseAtom isAlnum f re st ix depth)
    (st : PState) (ix depth : Nat) :
    parse_piece isAlnum (f + 1) re st ix depth = parsePiece isAlnum (f + 1) re st ix depth := by
  rw [parse_piece, parsePiece]
  simp only [iha, optional_whitespace_eq, parse_repeat_eq, is_repeatable_eq, flag_swapGreed]
  cases parseAtom isAlnum f re st ix depth with
  | ok r =>
    obtain ⟨ix1, child, st1⟩ := r
    simp only [res_bind_ok]
    cases optWs re st1.flags ix1 with
    | ok ix2 =>
      simp only [res_bind_ok]
      by_cases hlt : ix2 < re.size
      · simp only [hlt, decide_true, if_true]
        cases byteAt re ix2 "parse_piece: bytes[ix]" with
        | ok b =>
          simp only [res_bind_ok]
          simp only [piece_rest_eq]
          by_cases h1 : (b == ch '?') = true
          · simp only [h1, if_true, res_pure, res_bind_ok]
          simp only [h1, Bool.false_eq_true, if_false]
          by_cases h2 : (b == ch '*') = true
          · simp only [h2, if_true, res_pure, res_bind_ok]
          simp only [h2, Bool.false_eq_true, if_false]
          by_cases h3 : (b == ch '+') = true
          · simp only [h3, if_true, res_pure, res_bind_ok]
          simp only [h3, Bool.false_eq_true, if_false]
          by_cases h4 : (b == ch '{') = true
          · simp only [h4, if_true]
            cases parseRepeat re st1.flags ix2 with
            | ok r =>
              obtain ⟨next, lo, hi⟩ := r
              simp only [checkedSub]
              by_cases h0 : next = 0
              · subst h0; rfl
              · have h1' : 1 ≤ next := by omega
                have h0' : (next == 0) = false := by simpa using h0
                simp only [h1', if_true, h0', Bool.false_eq_true, if_false, res_pure, res_bind_ok]
            | _ => rfl
          · simp only [h4, Bool.false_eq_true, if_false, res_pure, res_bind_ok]
        | _ => rfl
      · simp only [hlt, decide_false, Bool.false_eq_true, if_false]
    | _ => rfl
  | _ => rfl

/-! ## parse_branch and its loop -/

@[simp] theorem mapv_ok {α β : Type} (g : α → β) (a : α) : Res.mapv g (.ok a) = .ok (g a) := rfl
@[simp] theorem mapv_err {α β : Type} (g : α → β) (k : PErr) (p : Nat) : Res.mapv g (.err k p : Res α) = .err k p := rfl
@[simp] theorem mapv_cerr {α β : Type} (g : α → β) : Res.mapv g (.cerr : Res α) = .cerr := rfl
@[simp] theorem mapv_panic {α β : Type} (g : α → β) (s : String) : Res.mapv g (.panic s : Res α) = .panic s := rfl
@[simp] theorem mapv_fuel {α β : Type} (g : α → β) : Res.mapv g (.outOfFuel : Res α) = .outOfFuel := rfl

theorem parse_branch_loop0_zero (isAlnum : Char → Bool) (re : Bytes) (depth : Nat) (st : PState) (acc : List Expr) (ix : Nat) :
    parse_branch_loop0 isAlnum 0 re depth st acc ix
      = Res.mapv (fun (r : Nat × List Expr × PState) => (r.2.2, acc ++ r.2.1, r.1)) (branchLoop isAlnum 0 re st ix depth) := by
  rw [parse_branch_loop0, branchLoop]; rfl

theorem parse_branch_loop0_step (isAlnum : Char → Bool) (f : Nat) (re : Bytes)
    (ihp : ∀ st ix depth, parse_piece isAlnum f re st ix depth = parsePiece isAlnum f re st ix depth)
    (ihl : ∀ depth st acc ix, parse_branch_loop0 isAlnum f re depth st acc ix
      = Res.mapv (fun (r : Nat × List Expr × PState) => (r.2.2, acc ++ r.2.1, r.1)) (branchLoop isAlnum f re st ix depth))
    (depth : Nat) (st : PState) (acc : List Expr) (ix : Nat) :
    parse_branch_loop0 isAlnum (f + 1) re depth st acc ix
      = Res.mapv (fun (r : Nat × List Expr × PState) => (r.2.2, acc ++ r.2.1, r.1)) (branchLoop isAlnum (f + 1) re st ix depth) := by
  rw [parse_branch_loop0, branchLoop]
  simp only [ihp, ihl, isEmptyExpr_eq]
  by_cases hlt : ix < re.size
  · simp only [hlt, decide_true, if_true]
    cases parsePiece isAlnum f re st ix depth with
    | ok r =>
      obtain ⟨next, child, st1⟩ := r
      simp only [res_bind_ok]
      by_cases hn : (next == ix) = true
      · simp only [hn, if_true, mapv_ok, List.append_nil]
      · simp only [hn, Bool.false_eq_true, if_false]
        cases branchLoop isAlnum f re st1 next depth with
        | ok r2 =>
          obtain ⟨ix', rest, st2⟩ := r2
          simp only [res_bind_ok, mapv_ok]
          by_cases he : child.isEmpty = true <;> simp [he]
        | _ => by_cases he : child.isEmpty = true <;> simp [he] <;> rfl
    | _ => rfl
  · simp only [hlt, decide_false, Bool.false_eq_true, if_false, mapv_ok, List.append_nil]

theorem popLast_single (c : Expr) : popLast [c] = (some c, []) := rfl

theorem parse_branch_step (isAlnum : Char → Bool) (f : Nat) (re : Bytes)
    (ihl : ∀ depth st acc ix, parse_branch_loop0 isAlnum f re depth st acc ix
      = Res.mapv (fun (r : Nat × List Expr × PState) => (r.2.2, acc ++ r.2.1, r.1)) (branchLoop isAlnum f re st ix depth))
    (st : PState) (ix depth : Nat) :
    parse_branch isAlnum (f + 1) re st ix depth = parseBranch isAlnum (f + 1) re st ix depth := by
  rw [parse_branch, parseBranch]
  simp only [ihl]
  cases branchLoop isAlnum f re st ix depth with
  | ok r =>
    obtain ⟨ix', children, st1⟩ := r
    simp only [res_bind_ok, mapv_ok, List.nil_append]
    match children with
    | [] => rfl
    | [c] => rfl
    | c :: d :: cs => rfl
  | _ => rfl

/-! ## parse_re and its loop -/

theorem parse_re_loop0_zero (isAlnum : Char → Bool) (re : Bytes) (depth : Nat) (child : Expr) (st : PState) (ix : Nat) (acc : List Expr) :
    parse_re_loop0 isAlnum 0 re depth child st ix acc
      = Res.mapv (fun (r : Nat × List Expr × PState) => (r.2.2, r.1, acc ++ r.2.1)) (reAltLoop isAlnum 0 re st ix depth) := by
  rw [parse_re_loop0, reAltLoop]; rfl

theorem parse_re_loop0_step (isAlnum : Char → Bool) (f : Nat) (re : Bytes)
    (ihb : ∀ st ix depth, parse_branch isAlnum f re st ix depth = parseBranch isAlnum f re st ix depth)
    (ihl : ∀ depth child st ix acc, parse_re_loop0 isAlnum f re depth child st ix acc
      = Res.mapv (fun (r : Nat × List Expr × PState) => (r.2.2, r.1, acc ++ r.2.1)) (reAltLoop isAlnum f re st ix depth))
    (depth : Nat) (child : Expr) (st : PState) (ix : Nat) (acc : List Expr) :
    parse_re_loop0 isAlnum (f + 1) re depth child st ix acc
      = Res.mapv (fun (r : Nat × List Expr × PState) => (r.2.2, r.1, acc ++ r.2.1)) (reAltLoop isAlnum (f + 1) re st ix depth) := by
  rw [parse_re_loop0, reAltLoop]
  simp only [ihb, ihl, optional_whitespace_eq, startsWithAt_one]
  cases sliceFrom re ix "parse_re: self.re[ix..] (loop)" with
  | ok u =>
    simp only [res_bind_ok]
    by_cases hb : (re[ix]? == some (ch '|')) = true
    · simp only [hb, if_true]
      cases parseBranch isAlnum f re st (ix + 1) depth with
      | ok r =>
        obtain ⟨next, child, st1⟩ := r
        simp only [res_bind_ok]
        cases optWs re st1.flags next with
        | ok ix2 =>
          simp only [res_bind_ok]
          cases reAltLoop isAlnum f re st1 ix2 depth with
          | ok r2 =>
            obtain ⟨ix3, rest, st2⟩ := r2
            simp
          | _ => rfl
        | _ => rfl
      | _ => rfl
    · simp only [hb, Bool.false_eq_true, if_false, mapv_ok, List.append_nil]
  | _ => rfl

theorem parse_re_step (isAlnum : Char → Bool) (f : Nat) (re : Bytes)
    (ihb : ∀ st ix depth, parse_branch isAlnum f re st ix depth = parseBranch isAlnum f re st ix depth)
    (ihl : ∀ depth child st ix acc, parse_re_loop0 isAlnum f re depth child st ix acc
      = Res.mapv (fun (r : Nat × List Expr × PState) => (r.2.2, r.1, acc ++ r.2.1)) (reAltLoop isAlnum f re st ix depth))
    (st : PState) (ix depth : Nat) :
    parse_re isAlnum (f + 1) re st ix depth = parseRe isAlnum (f + 1) re st ix depth := by
  rw [parse_re, parseRe]
  simp only [ihb, ihl, optional_whitespace_eq, startsWithAt_one]
  cases parseBranch isAlnum f re st ix depth with
  | ok r =>
    obtain ⟨ix1, child, st1⟩ := r
    simp only [res_bind_ok]
    cases optWs re st1.flags ix1 with
    | ok ix2 =>
      simp only [res_bind_ok]
      cases sliceFrom re ix2 "parse_re: self.re[ix..]" with
      | ok u =>
        simp only [res_bind_ok]
        by_cases hb : (re[ix2]? == some (ch '|')) = true
        · simp only [hb, if_true]
          cases reAltLoop isAlnum f re st1 ix2 depth with
          | ok r2 =>
            obtain ⟨ix3, rest, st2⟩ := r2
            simp
          | _ => rfl
        · simp only [hb, Bool.false_eq_true, if_false]
      | _ => rfl
    | _ => rfl
  | _ => rfl

/-! ## parse_group -/

/-- closes `… (match none, k with | some la, _ => a | none, 2 => b | _, _ => c) … = if k == 2 then … else …` -/
macro "group_tail" k:term : tactic => `(tactic|
  (by_cases hs : $k = 2
   · simp only [hs]; rfl
   · have hs' : ($k == 2) = false := by simpa using hs
     simp only [hs', Bool.false_eq_true, if_false]
     split
     · contradiction
     · contradiction
     · rfl))

theorem parse_group_step (isAlnum : Char → Bool) (f : Nat) (re : Bytes) (hw : DashWF re)
    (ihr : ∀ st ix depth, parse_re isAlnum f re st ix depth = parseRe isAlnum f re st ix depth)
    (ihc : ∀ st ix depth, parse_conditional isAlnum f re st ix depth = parseConditional isAlnum f re st ix depth)
    (ihf : ∀ st ix depth, parse_flags isAlnum f re st ix depth = parseFlags isAlnum f re st ix depth)
    (st : PState) (ix depth : Nat) :
    parse_group isAlnum (f + 1) re st ix depth = parseGroup isAlnum (f + 1) re st ix depth := by
  rw [parse_group, parseGroup]
  have hnb := fun st ix o c a k => parse_named_backref_eq isAlnum re st ix o c a k hw
  have hid := fun base o c a => parse_id_eq isAlnum re base o c a hw
  simp only [ihr, ihc, ihf, optional_whitespace_eq, check_for_close_paren_eq, backref_mk, subroutine_mk,
    hnb, strFrom_eq, lookOf]
  by_cases hd : depth + 1 ≥ Generated.maxRecursion
  · simp only [hd, decide_true, if_true]
  · simp only [hd, decide_false, Bool.false_eq_true, if_false]
    cases optWs re st.flags (ix + 1) with
    | ok ix1 =>
      simp only [res_bind_ok]
      by_cases hsl : sliceFromOk re ix1 = true
      · have hs : ∀ s, sliceFrom re ix1 s = .ok () := fun s => by simp only [sliceFrom, hsl, if_true]
        simp only [hs, res_bind_ok]
        by_cases h1 : startsWithAt re ix1 [ch '?', ch '='] = true
        · simp only [h1, if_true, res_pure, res_bind_ok]
        simp only [h1, Bool.false_eq_true, if_false]
        by_cases h2 : startsWithAt re ix1 [ch '?', ch '!'] = true
        · simp only [h2, if_true, res_pure, res_bind_ok]
        simp only [h2, Bool.false_eq_true, if_false]
        by_cases h3 : startsWithAt re ix1 [ch '?', ch '<', ch '='] = true
        · simp only [h3, if_true, res_pure, res_bind_ok]
        simp only [h3, Bool.false_eq_true, if_false]
        by_cases h4 : startsWithAt re ix1 [ch '?', ch '<', ch '!'] = true
        · simp only [h4, if_true, res_pure, res_bind_ok]
        simp only [h4, Bool.false_eq_true, if_false]
        by_cases h5 : startsWithAt re ix1 [ch '?', ch '<'] = true
        · simp only [h5, if_true]
          cases sliceFrom re (ix1 + 1) "parse_group: self.re[ix + 1..]" with
          | ok u =>
            simp only [res_bind_ok, mapv_ok, hid]
            cases parseId isAlnum re (ix1 + 1) [ch '<'] [ch '>'] false with
            | ok o =>
              cases o with
              | none => rfl
              | some r =>
                obtain ⟨a, b, skip⟩ := r
                simp only [res_bind_ok, mapv_ok, Option.map_some]
                cases parseRe isAlnum f re _ (ix1 + (skip + 1)) (depth + 1) with
                | ok r2 =>
                  simp only [res_bind_ok]
                  cases checkForCloseParen re r2.2.2.flags r2.1 with
                  | ok ix3 =>
                    simp only [res_bind_ok]
                    group_tail (skip + 1)
                  | _ => rfl
                | _ => rfl
            | _ => rfl
          | _ => rfl
        simp only [h5, Bool.false_eq_true, if_false]
        by_cases h6 : startsWithAt re ix1 [ch '?', ch 'P', ch '<'] = true
        · simp only [h6, if_true]
          cases sliceFrom re (ix1 + 2) "parse_group: self.re[ix + 2..]" with
          | ok u =>
            simp only [res_bind_ok, mapv_ok, hid]
            cases parseId isAlnum re (ix1 + 2) [ch '<'] [ch '>'] false with
            | ok o =>
              cases o with
              | none => rfl
              | some r =>
                obtain ⟨a, b, skip⟩ := r
                simp only [res_bind_ok, mapv_ok, Option.map_some]
                cases parseRe isAlnum f re _ (ix1 + (skip + 2)) (depth + 1) with
                | ok r2 =>
                  simp only [res_bind_ok]
                  cases checkForCloseParen re r2.2.2.flags r2.1 with
                  | ok ix3 =>
                    simp only [res_bind_ok]
                    group_tail (skip + 2)
                  | _ => rfl
                | _ => rfl
            | _ => rfl
          | _ => rfl
        simp only [h6, Bool.false_eq_true, if_false]
        by_cases h7 : startsWithAt re ix1 [ch '?', ch 'P', ch '='] = true
        · simp only [h7, if_true]
        simp only [h7, Bool.false_eq_true, if_false]
        by_cases h8 : startsWithAt re ix1 [ch '?', ch '>'] = true
        · simp only [h8, if_true, BEq.rfl, res_pure, res_bind_ok]
        simp only [h8, Bool.false_eq_true, if_false]
        by_cases h9 : startsWithAt re ix1 [ch '?', ch '('] = true
        · simp only [h9, if_true]
        simp only [h9, Bool.false_eq_true, if_false]
        by_cases h10 : startsWithAt re ix1 [ch '?', ch 'P', ch '>'] = true
        · simp only [h10, if_true]
        simp only [h10, Bool.false_eq_true, if_false]
        by_cases h11 : startsWithAt re ix1 [ch '?'] = true
        · simp only [h11, if_true]
        simp only [h11, Bool.false_eq_true, if_false]
        have h02 : ((0 : Nat) == 2) = false := by decide
        simp only [h02, Bool.false_eq_true, if_false, res_pure, res_bind_ok]
      · have hs : ∀ s, sliceFrom re ix1 s = .panic s := fun s => by
          simp only [sliceFrom, hsl, Bool.false_eq_true, if_false]
        simp only [hs]; rfl
    | _ => rfl

/-! ## parse_flags and its loop -/

/-- what `parseFlags` does with the outcome of the letter loop -/
def flagsFinish (isAlnum : Char → Bool) (f : Nat) (re : Bytes) (depth : Nat) (oldflags : Flags) (st : PState) :
    Res (FlagsEnd × Flags) → Res (Nat × Expr × PState)
  | .ok (.close i, fl) => .ok (i + 1, .empty, { st with flags := fl })
  | .ok (.colon i, fl) => do
    let (ix, child, st) ← parseRe isAlnum f re { st with flags := fl } (i + 1) depth
    if ix == re.size then .err .unclosedOpenParen ix
    else
      let b ← byteAt re ix "parse_flags: bytes[ix] (close)"
      if b != ch ')' then .err (.general .expectedCloseParen) ix
      else .ok (ix + 1, child, { st with flags := oldflags })
  | .err k p => .err k p
  | .cerr => .cerr
  | .panic s => .panic s
  | .outOfFuel => .outOfFuel

theorem flagsFinish_flags (isAlnum : Char → Bool) (f : Nat) (re : Bytes) (depth : Nat) (oldflags : Flags) (st : PState)
    (fl' : Flags) (r : Res (FlagsEnd × Flags)) :
    flagsFinish isAlnum f re depth oldflags { st with flags := fl' } r = flagsFinish isAlnum f re depth oldflags st r := by
  cases r with
  | ok v => obtain ⟨e, fl⟩ := v; cases e <;> rfl
  | _ => rfl

theorem unknownFlag_finish (isAlnum : Char → Bool) (f : Nat) (re : Bytes) (depth : Nat) (oldflags : Flags) (st : PState)
    (start ix : Nat) :
    (Res.mapv (fun e => (e, start)) (unknownFlag re start ix) >>= fun (x : PErr × Nat) => (Res.err x.1 x.2 : Res (Nat × Expr × PState)))
      = flagsFinish isAlnum f re depth oldflags st
          (match unknownFlag re start ix with
            | .ok e => .err e start
            | .err k p => .err k p | .cerr => .cerr | .panic s => .panic s | .outOfFuel => .outOfFuel) := by
  cases unknownFlag re start ix <;> rfl

set_option linter.unusedSimpArgs false in
theorem parse_flags_loop0_eq (isAlnum : Char → Bool) (f : Nat) (re : Bytes)
    (ihr : ∀ st ix depth, parse_re isAlnum f re st ix depth = parseRe isAlnum f re st ix depth)
    (depth start : Nat) (oldflags : Flags) (n : Nat) (st : PState) (ix : Nat) (neg : Bool) :
    parse_flags_loop0 isAlnum f re depth start oldflags n st ix neg
      = flagsFinish isAlnum f re depth oldflags st (flagsLoop n re st.flags start ix neg) := by
  induction n generalizing st ix neg with
  | zero => rw [parse_flags_loop0, flagsLoop]; rfl
  | succ n ih =>
    rw [parse_flags_loop0, flagsLoop]
    simp only [optional_whitespace_eq, ih, ihr, unknown_flag_eq, update_flag_casei, update_flag_multi,
      update_flag_dotnl, update_flag_swapGreed, update_flag_ignoreSpace, flagsFinish_flags]
    cases optWs re st.flags ix with
    | ok ix1 =>
      simp only [res_bind_ok]
      by_cases he : (ix1 == re.size) = true
      · simp only [he, if_true]; rfl
      · simp only [he, Bool.false_eq_true, if_false]
        cases hb : re[ix1]? with
        | none => simp only [byteAt_none _ hb]; rfl
        | some b =>
          simp only [byteAt_some _ hb, res_bind_ok]
          by_cases hi : (b == ch 'i') = true
          · have hbe : b = ch 'i' := by simpa using hi
            subst hbe
            simp only [BEq.rfl, Bool.true_or, Bool.or_true, if_true]
          simp only [hi, Bool.false_eq_true, if_false, Bool.false_or]
          by_cases hm : (b == ch 'm') = true
          · have hbe : b = ch 'm' := by simpa using hm
            subst hbe
            simp only [BEq.rfl, Bool.true_or, Bool.or_true, if_true]
          simp only [hm, Bool.false_eq_true, if_false, Bool.false_or]
          by_cases hs : (b == ch 's') = true
          · have hbe : b = ch 's' := by simpa using hs
            subst hbe
            simp only [BEq.rfl, Bool.true_or, Bool.or_true, if_true]
          simp only [hs, Bool.false_eq_true, if_false, Bool.false_or]
          by_cases hU : (b == ch 'U') = true
          · have hbe : b = ch 'U' := by simpa using hU
            subst hbe
            simp only [BEq.rfl, Bool.true_or, Bool.or_true, if_true]
          simp only [hU, Bool.false_eq_true, if_false, Bool.false_or]
          by_cases hx : (b == ch 'x') = true
          · have hbe : b = ch 'x' := by simpa using hx
            subst hbe
            simp only [BEq.rfl, Bool.true_or, Bool.or_true, if_true]
          simp only [hx, Bool.false_eq_true, if_false, Bool.false_or]
          by_cases hu : (b == ch 'u') = true
          · simp only [hu, if_true]
            cases neg <;> rfl
          simp only [hu, Bool.false_eq_true, if_false]
          by_cases hm' : (b == ch '-') = true
          · simp only [hm', if_true]
            cases neg
            · rfl
            · simp only [if_true]
              cases unknownFlag re start ix1 <;> rfl
          simp only [hm', Bool.false_eq_true, if_false]
          by_cases hc : (b == ch ')') = true
          · simp only [hc, if_true]
            by_cases hst : (ix1 == start || neg && ix1 == start + 1) = true
            · simp only [hst, if_true]
              cases unknownFlag re start ix1 <;> rfl
            · simp only [hst, Bool.false_eq_true, if_false]; rfl
          simp only [hc, Bool.false_eq_true, if_false]
          by_cases hco : (b == ch ':') = true
          · simp only [hco, if_true]
            by_cases hst : (neg && ix1 == start + 1) = true
            · simp only [hst, if_true]
              cases unknownFlag re start ix1 <;> rfl
            · simp only [hst, Bool.false_eq_true, if_false]; rfl
          simp only [hco, Bool.false_eq_true, if_false]
          cases unknownFlag re start ix1 <;> rfl
    | _ => rfl

theorem parse_flags_step (isAlnum : Char → Bool) (f : Nat) (re : Bytes)
    (ihr : ∀ st ix depth, parse_re isAlnum f re st ix depth = parseRe isAlnum f re st ix depth)
    (st : PState) (ix depth : Nat) :
    parse_flags isAlnum (f + 1) re st ix depth = parseFlags isAlnum (f + 1) re st ix depth := by
  rw [parse_flags, parseFlags]
  simp only [parse_flags_loop0_eq isAlnum f re ihr]
  cases flagsLoop (re.size + 2) re st.flags (ix + 1) (ix + 1) false with
  | ok v => obtain ⟨e, fl⟩ := v; cases e <;> rfl
  | _ => rfl

/-! ## parse_conditional -/

theorem res_bind_congr {α β : Type} (x : Res α) (F G : α → Res β) (h : ∀ a, F a = G a) : (x >>= F) = (x >>= G) := by
  cases x <;> first | rfl | exact h _

theorem res_bind_eta3 {α β γ : Type} (x : Res (α × β × γ)) :
    (x >>= fun r => (pure (r.1, r.2.1, r.2.2) : Res (α × β × γ))) = x := by
  cases x <;> rfl

/-- the common end of `parse_conditional`: `check_for_close_paren`, then the node -/
macro "cond_tail" igt:ident condition:ident : tactic => `(tactic|
  (cases $igt:ident <;> cases $condition:ident <;>
    (simp only [res_bind_ok]
     refine res_bind_congr _ _ _ ?_
     intro after
     rfl)))

theorem parse_conditional_step (isAlnum : Char → Bool) (f : Nat) (re : Bytes) (hw : DashWF re)
    (ihr : ∀ st ix depth, parse_re isAlnum f re st ix depth = parseRe isAlnum f re st ix depth)
    (st : PState) (ix depth : Nat) :
    parse_conditional isAlnum (f + 1) re st ix depth = parseConditional isAlnum (f + 1) re st ix depth := by
  rw [parse_conditional, parseConditional]
  have hnb := fun st ix o c a k => parse_named_backref_eq isAlnum re st ix o c a k hw
  simp only [ihr, check_for_close_paren_eq, backref_mk, hnb, parse_numbered_backref_eq,
    is_digit_eq, isEmptyExpr_eq]
  by_cases hge : ix ≥ re.size
  · simp only [hge, decide_true, if_true]
  · simp only [hge, decide_false, Bool.false_eq_true, if_false]
    cases byteAt re ix "parse_conditional: bytes[ix]" with
    | ok b =>
      simp only [res_bind_ok]
      generalize (isDigit b || b == ch '\'' || b == ch '<') = igt
      simp only [res_bind_eta3]
      refine res_bind_congr _ _ _ ?_
      rintro ⟨next0, condition, st1⟩
      refine res_bind_congr _ _ _ ?_
      intro next
      refine res_bind_congr _ _ _ ?_
      rintro ⟨end_, child, st2⟩
      by_cases hen : (end_ == next) = true
      · simp only [hen, if_true]
        cases igt <;> cases condition <;> rfl
      · simp only [hen, Bool.false_eq_true, if_false]
        cases hl : st2.lastReHadAlt
        · cases child
          all_goals simp only [expect, res_bind_ok, res_pure]
          all_goals cond_tail igt condition
        · cases child
          case alt alternatives =>
            cases alternatives with
            | nil => rfl
            | cons t rest =>
              simp only [remove0]
              cases rest with
              | nil =>
                simp only [List.length_nil, Nat.zero_ne_one, beq_iff_eq, if_false, res_pure, res_bind_ok]
                cond_tail igt condition
              | cons e r =>
                cases r with
                | nil =>
                  simp only [List.length_singleton, BEq.rfl, if_true, popLast_single, expect, res_pure, res_bind_ok]
                  cond_tail igt condition
                | cons e2 r2 =>
                  have hlen : ((e :: e2 :: r2).length == 1) = false := by simp
                  simp only [hlen, Bool.false_eq_true, if_false, res_pure, res_bind_ok]
                  cond_tail igt condition
          all_goals simp only [expect, res_bind_ok, res_pure]
          all_goals cond_tail igt condition
    | _ => rfl

/-! ## assembly: one induction on the descent fuel -/

/-- generated = model for every function of the mutual block at descent fuel `f` -/
structure DescentEq (isAlnum : Char → Bool) (re : Bytes) (f : Nat) : Prop where
  re_ : ∀ st ix depth, parse_re isAlnum f re st ix depth = parseRe isAlnum f re st ix depth
  reLoop : ∀ depth child st ix acc, parse_re_loop0 isAlnum f re depth child st ix acc
      = Res.mapv (fun (r : Nat × List Expr × PState) => (r.2.2, r.1, acc ++ r.2.1)) (reAltLoop isAlnum f re st ix depth)
  branch : ∀ st ix depth, parse_branch isAlnum f re st ix depth = parseBranch isAlnum f re st ix depth
  branchLoop : ∀ depth st acc ix, parse_branch_loop0 isAlnum f re depth st acc ix
      = Res.mapv (fun (r : Nat × List Expr × PState) => (r.2.2, acc ++ r.2.1, r.1)) (branchLoop isAlnum f re st ix depth)
  piece : ∀ st ix depth, parse_piece isAlnum f re st ix depth = parsePiece isAlnum f re st ix depth
  atom : ∀ st ix depth, parse_atom isAlnum f re st ix depth = parseAtom isAlnum f re st ix depth
  group : ∀ st ix depth, parse_group isAlnum f re st ix depth = parseGroup isAlnum f re st ix depth
  flags : ∀ st ix depth, parse_flags isAlnum f re st ix depth = parseFlags isAlnum f re st ix depth
  conditional : ∀ st ix depth, parse_conditional isAlnum f re st ix depth = parseConditional isAlnum f re st ix depth

theorem descentEq_all (isAlnum : Char → Bool) (re : Bytes) (hw : DashWF re) : ∀ f, DescentEq isAlnum re f := by
  intro f
  induction f with
  | zero =>
    exact
      { re_ := by intros; rw [parse_re, parseRe]
        reLoop := parse_re_loop0_zero isAlnum re
        branch := by intros; rw [parse_branch, parseBranch]
        branchLoop := parse_branch_loop0_zero isAlnum re
        piece := by intros; rw [parse_piece, parsePiece]
        atom := by intros; rw [parse_atom, parseAtom]
        group := by intros; rw [parse_group, parseGroup]
        flags := by intros; rw [parse_flags, parseFlags]
        conditional := by intros; rw [parse_conditional, parseConditional] }
  | succ f ih =>
    exact
      { re_ := parse_re_step isAlnum f re ih.branch ih.reLoop
        reLoop := parse_re_loop0_step isAlnum f re ih.branch ih.reLoop
        branch := parse_branch_step isAlnum f re ih.branchLoop
        branchLoop := parse_branch_loop0_step isAlnum f re ih.piece ih.branchLoop
        piece := parse_piece_step isAlnum f re ih.atom
        atom := parse_atom_step isAlnum f re hw ih.group
        group := parse_group_step isAlnum f re hw ih.re_ ih.conditional ih.flags
        flags := parse_flags_step isAlnum f re ih.re_
        conditional := parse_conditional_step isAlnum f re hw ih.re_ }

theorem C06_parse_translated_descent (isAlnum : Char → Bool) (f : Nat) (re : Bytes) (st : PState) (ix depth : Nat)
    (hw : DashWF re) :
    parse_re isAlnum f re st ix depth = parseRe isAlnum f re st ix depth := (descentEq_all isAlnum re hw f).re_ st ix depth
theorem C06_parse_translated_branch (isAlnum : Char → Bool) (f : Nat) (re : Bytes) (st : PState) (ix depth : Nat)
    (hw : DashWF re) :
    parse_branch isAlnum f re st ix depth = parseBranch isAlnum f re st ix depth := (descentEq_all isAlnum re hw f).branch st ix depth
theorem C06_parse_translated_piece (isAlnum : Char → Bool) (f : Nat) (re : Bytes) (st : PState) (ix depth : Nat)
    (hw : DashWF re) :
    parse_piece isAlnum f re st ix depth = parsePiece isAlnum f re st ix depth := (descentEq_all isAlnum re hw f).piece st ix depth
theorem C06_parse_translated_atom (isAlnum : Char → Bool) (f : Nat) (re : Bytes) (st : PState) (ix depth : Nat)
    (hw : DashWF re) :
    parse_atom isAlnum f re st ix depth = parseAtom isAlnum f re st ix depth := (descentEq_all isAlnum re hw f).atom st ix depth
theorem C06_parse_translated_group (isAlnum : Char → Bool) (f : Nat) (re : Bytes) (st : PState) (ix depth : Nat)
    (hw : DashWF re) :
    parse_group isAlnum f re st ix depth = parseGroup isAlnum f re st ix depth := (descentEq_all isAlnum re hw f).group st ix depth
theorem C06_parse_translated_flags (isAlnum : Char → Bool) (f : Nat) (re : Bytes) (st : PState) (ix depth : Nat)
    (hw : DashWF re) :
    parse_flags isAlnum f re st ix depth = parseFlags isAlnum f re st ix depth := (descentEq_all isAlnum re hw f).flags st ix depth
theorem C06_parse_translated_conditional (isAlnum : Char → Bool) (f : Nat) (re : Bytes) (st : PState) (ix depth : Nat)
    (hw : DashWF re) :
    parse_conditional isAlnum f re st ix depth = parseConditional isAlnum f re st ix depth :=
  (descentEq_all isAlnum re hw f).conditional st ix depth

/-! ## the entry points -/

theorem C06_parse_translated_eq (isAlnum : Char → Bool) (re : Bytes) (casei : Bool) (hw : DashWF re) :
    parse_with_case_insensitive isAlnum re casei = parseBytes isAlnum re casei := by
  have hfl : updateFlag (flagOnly FlagBit.unicode) (ch 'i') (!casei) = { casei := casei } := by
    cases casei <;> rfl
  have hd := fun f st ix d => C06_parse_translated_descent isAlnum f re st ix d hw
  simp only [parse_with_case_insensitive, parseBytes, hd, Parser.new, update_flag_casei, hfl]
  cases parseRe isAlnum (descentFuel (Array.size re)) re { flags := { casei := casei } } 0 0 with
  | ok r =>
    obtain ⟨ix, e, st⟩ := r
    simp only [res_bind_ok]
    by_cases h : ix < re.size <;> simp [h]
  | _ => rfl

theorem C06_parse_translated_str (isAlnum : Char → Bool) (cs : List Char) (casei : Bool) :
    parse_with_case_insensitive isAlnum (bytesOf cs) casei = parseStr isAlnum cs casei :=
  C06_parse_translated_eq isAlnum (bytesOf cs) casei (DashWF_bytesOf cs)

end Descent

end Fancy.GenParse
