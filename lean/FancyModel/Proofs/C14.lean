import FancyModel.Spec.Sem
import FancyModel.Proofs.C03
/-!
# C14 — builder options act the same on fancy and plain patterns

Whether `RegexBuilder::case_insensitive(true)` on `P` equals `(?i)P` is a statement about the
parser (the option seeds the parser's flag — F9 repair), and the parser is not modelled: it is
decided by the in-process metamorphic comparison (option vs inline flag, all texts over
{a,A,b,B}, inner `(?-i:…)` groups), both spellings tied to the model through their parsed trees.

Proved here is the model-side fact that makes the repair right: in the model case-insensitivity is
decided **per node** by the flag stored on the node, never by a global option — so the part of a
pattern parsed under `(?-i:…)` (all its nodes carry `casei = false`) matches exactly as it would
with no case-insensitivity anywhere: its semantics does not depend on how case-insensitive
comparison or case-insensitive classes behave (`C14_inner_negation`). The other builder options
(`backtrack_limit`, the delegate size limits) are read at exactly one point each in the model
(`VMOpts.backtrackLimit` in `runLoop`; size limits only decide whether a delegate builds) — see
C07 for the limit theorems.
-/
namespace Fancy

mutual
/-- no node of `e` is case-insensitive -/
def noCasei : Expr → Bool
  | .literal _ ci => !ci
  | .delegate _ _ ci => !ci
  | .concat es => noCaseiAll es
  | .alt es => noCaseiAll es
  | .group _ e => noCasei e
  | .look e _ => noCasei e
  | .repeat e _ _ _ => noCasei e
  | .atomic e => noCasei e
  | .cond c y n => noCasei c && noCasei y && noCasei n
  | _ => true
def noCaseiAll : List Expr → Bool
  | [] => true
  | e :: es => noCasei e && noCaseiAll es
end

/-- two contexts that differ at most in how *case-insensitive* comparison and classes behave -/
structure SameButCasei (c c' : Ctx) : Prop where
  text : c.text = c'.text
  pos : c.pos = c'.pos
  skipped : c.skipped = c'.skipped
  isWord : c.isWord = c'.isWord
  ceq : c.ceq false = c'.ceq false
  cls : ∀ inner, c.cls inner false = c'.cls inner false

theorem SameButCasei.at? {c c' : Ctx} (h : SameButCasei c c') (i : Nat) : c.at? i = c'.at? i := by
  simp [Ctx.at?, h.text]

theorem SameButCasei.len {c c' : Ctx} (h : SameButCasei c c') : c.len = c'.len := by
  simp [Ctx.len, h.text]

theorem SameButCasei.assertion {c c' : Ctx} (h : SameButCasei c c') (a : Assertion) (ix : Nat) :
    c.assertion a ix = c'.assertion a ix := by
  cases a <;> simp [Ctx.assertion, Ctx.wordBefore, Ctx.wordAt, h.at?, h.len, h.isWord]

theorem SameButCasei.litAt {c c' : Ctx} (h : SameButCasei c c') (val : List Char) (ix : Nat) :
    c.litAt false val ix = c'.litAt false val ix := by
  induction val generalizing ix with
  | nil => rfl
  | cons a as ih => simp [Ctx.litAt, h.at?, h.ceq, ih]

theorem SameButCasei.sameAt {c c' : Ctx} (h : SameButCasei c c') (lo hi ix : Nat) :
    c.sameAt lo hi ix = c'.sameAt lo hi ix := by
  simp [Ctx.sameAt, h.at?, h.len]

theorem SameButCasei.newlinesFrom {c c' : Ctx} (h : SameButCasei c c') (ix : Nat) :
    c.newlinesFrom ix = c'.newlinesFrom ix := by
  simp [Ctx.newlinesFrom, h.text]

mutual
theorem sem_noCasei (c c' : Ctx) (h : SameButCasei c c') : ∀ (e : Expr), noCasei e = true → ∀ st,
    sem c e st = sem c' e st
  | .empty, _, st => by simp [sem]
  | .any nl, _, st => by simp [sem, h.at?]
  | .assertion a, _, st => by simp [sem, h.assertion]
  | .literal val ci, hn, st => by
    have : ci = false := by simpa [noCasei] using hn
    subst this
    simp [sem, h.litAt]
  | .concat es, hn, st => by
    simp only [sem]; exact semConcat_noCasei c c' h es (by simpa [noCasei] using hn) st
  | .alt es, hn, st => by
    simp only [sem]; exact semAlt_noCasei c c' h es (by simpa [noCasei] using hn) st
  | .group g e, hn, st => by
    simp only [sem]; rw [sem_noCasei c c' h e (by simpa [noCasei] using hn)]
  | .look e .ahead, hn, st => by
    simp only [sem]; rw [sem_noCasei c c' h e (by simpa [noCasei] using hn)]
  | .look e .aheadNeg, hn, st => by
    simp only [sem]; rw [sem_noCasei c c' h e (by simpa [noCasei] using hn)]
  | .look e .behind, hn, st => by
    simp only [sem]; rw [semBehind_noCasei c c' h e (by simpa [noCasei] using hn)]
  | .look e .behindNeg, hn, st => by
    simp only [sem]; rw [semBehind_noCasei c c' h e (by simpa [noCasei] using hn)]
  | .repeat e lo hi greedy, hn, st => by
    simp only [sem]
    have : sem c e = sem c' e := funext fun st => sem_noCasei c c' h e (by simpa [noCasei] using hn) st
    rw [this, h.len]
  | .delegate inner size ci, hn, st => by
    have : ci = false := by simpa [noCasei] using hn
    subst this
    simp [sem, delegateSem, h.at?, h.cls, h.newlinesFrom, h.len]
  | .backref g, _, st => by simp [sem, h.sameAt]
  | .atomic e, hn, st => by
    simp only [sem]; rw [sem_noCasei c c' h e (by simpa [noCasei] using hn)]
  | .keepOut, _, st => by simp [sem]
  | .contPrev, _, st => by simp [sem, h.pos, h.skipped]
  | .backrefExists g, _, st => by simp [sem]
  | .cond cnd y n, hn, st => by
    simp only [noCasei, Bool.and_eq_true] at hn
    simp only [sem]
    rw [sem_noCasei c c' h cnd hn.1.1]
    cases (sem c' cnd st).head? with
    | some r => exact sem_noCasei c c' h y hn.1.2 r
    | none => exact sem_noCasei c c' h n hn.2 st
  | .subroutine g, _, st => by simp [sem]
termination_by e => (sizeOf e, 0)
theorem semConcat_noCasei (c c' : Ctx) (h : SameButCasei c c') : ∀ (es : List Expr), noCaseiAll es = true →
    ∀ st, semConcat c es st = semConcat c' es st
  | [], _, st => by simp [semConcat]
  | e :: es, hn, st => by
    simp only [noCaseiAll, Bool.and_eq_true] at hn
    simp only [semConcat]
    rw [sem_noCasei c c' h e hn.1]
    congr 1
    funext r
    exact semConcat_noCasei c c' h es hn.2 r
termination_by es => (sizeOf es, 0)
theorem semAlt_noCasei (c c' : Ctx) (h : SameButCasei c c') : ∀ (es : List Expr), noCaseiAll es = true →
    ∀ st, semAlt c es st = semAlt c' es st
  | [], _, st => by simp [semAlt]
  | e :: es, hn, st => by
    simp only [noCaseiAll, Bool.and_eq_true] at hn
    simp only [semAlt]
    rw [sem_noCasei c c' h e hn.1, semAlt_noCasei c c' h es hn.2]
termination_by es => (sizeOf es, 0)
theorem semBehind_noCasei (c c' : Ctx) (h : SameButCasei c c') : ∀ (e : Expr), noCasei e = true →
    ∀ st, semBehind c e st = semBehind c' e st
  | .alt es, hn, st => by
    simp only [semBehind]; exact semBehindAlts_noCasei c c' h es (by simpa [noCasei] using hn) st
  | .empty, hn, st => by
    simp only [semBehind]
    have : sem c .empty = sem c' .empty := funext fun st => sem_noCasei c c' h .empty hn st
    rw [this]
  | e, hn, st => by
    have hf : sem c e = sem c' e := funext fun st => sem_noCasei c c' h e hn st
    cases e <;> simp only [semBehind] <;> first | rw [hf] | (exact semBehindAlts_noCasei c c' h _ (by simpa [noCasei] using hn) st)
termination_by e => (sizeOf e, 1)
theorem semBehindAlts_noCasei (c c' : Ctx) (h : SameButCasei c c') : ∀ (es : List Expr), noCaseiAll es = true →
    ∀ st, semBehindAlts c es st = semBehindAlts c' es st
  | [], _, st => by simp [semBehindAlts]
  | e :: es, hn, st => by
    simp only [noCaseiAll, Bool.and_eq_true] at hn
    simp only [semBehindAlts]
    have hf : sem c e = sem c' e := funext fun st => sem_noCasei c c' h e hn.1 st
    rw [hf, semBehindAlts_noCasei c c' h es hn.2]
termination_by es => (sizeOf es, 0)
end

/-- **a part under `(?-i:…)` is never matched case-insensitively**: its semantics is independent
    of the case-insensitive comparison and class tables -/
theorem C14_inner_negation (c c' : Ctx) (h : SameButCasei c c') (e : Expr) (hn : noCasei e = true) (st : St) :
    sem c e st = sem c' e st :=
  sem_noCasei c c' h e hn st

/-- and it sits inside any context unchanged (congruence, C03): e.g. under a case-insensitive
    sibling in a concatenation -/
theorem C14_inner_negation_in_concat (c c' : Ctx) (h : SameButCasei c c') (e : Expr) (hn : noCasei e = true)
    (st : St) : semConcat c [e] st = semConcat c' [e] st := by
  simp only [semConcat]
  rw [C14_inner_negation c c' h e hn]
  congr 1
  funext r
  simp [semConcat]

end Fancy
