import FancyModel.Model.Expand
import FancyModel.Proofs.C16
import FancyModel.Generated
import FancyModel.Spec.Domain
/-!
# C06 — compiling any string terminates with Ok or Err, never a panic or blow-up

The recursive-descent parser is not modelled (its behaviour on malformed input is explored: all
token sequences to length 2/3 over an 88-token vocabulary, mutations, deep and long probes, with a
counting allocator and a timer). Proved here, for all inputs, are the pieces of the pipeline the
model covers:

* the analyzer's size arithmetic never exceeds `usize::MAX` — no overflow is possible in
  `min_size` whatever the repeat counts (`C06_sizes_no_overflow`; F4 repairs);
* the decimal scanner accepts only values `≤ usize::MAX` and consumes only digits, the identifier
  scanner consumes at most the input (`C06_parse_decimal_bound`, `C06_parse_id_skip`);
* analysis is total: it returns a group count or one of two errors, and the count is linear in the
  tree (`C06_groups_linear`);
* the nesting limit is a small constant (`C06_max_recursion`, re-extracted from the source).
-/
namespace Fancy

theorem satAdd_le_max (a b : Nat) : satAdd a b ≤ UNSET := by unfold satAdd; omega
theorem satMul_le_max (a b : Nat) : satMul a b ≤ UNSET := by unfold satMul; omega

mutual
/-- number of nodes -/
def nodes : Expr → Nat
  | .concat es => 1 + nodesList es
  | .alt es => 1 + nodesList es
  | .group _ e => 1 + nodes e
  | .look e _ => 1 + nodes e
  | .repeat e _ _ _ => 1 + nodes e
  | .atomic e => 1 + nodes e
  | .cond c y n => 1 + nodes c + nodes y + nodes n
  | _ => 1
def nodesList : List Expr → Nat
  | [] => 0
  | e :: es => nodes e + nodesList es
end

mutual
/-- **no overflow**: every computed minimum size is at most `usize::MAX`, provided the sizes
    written on `Delegate` leaves are (the parser only writes 0 and 1) -/
theorem minSize_le (e : Expr) (hd : leafSizesOK e = true) : minSize e ≤ UNSET := by
  cases e with
  | concat es => simp only [minSize]; exact minSizeSum_le es (by simpa [leafSizesOK] using hd)
  | alt es => simp only [minSize]; exact minSizeMin_le' es (by simpa [leafSizesOK] using hd)
  | group g c => simp only [minSize]; exact minSize_le c (by simpa [leafSizesOK] using hd)
  | «repeat» c lo hi g => simp only [minSize]; exact satMul_le_max _ _
  | atomic c => simp only [minSize]; exact minSize_le c (by simpa [leafSizesOK] using hd)
  | cond c y n =>
    simp only [minSize]
    have := satAdd_le_max (minSize c) (minSize y)
    omega
  | delegate inner size ci =>
    simp only [minSize]
    simp only [leafSizesOK] at hd
    exact of_decide_eq_true hd
  | any _ | literal _ _ => simp [minSize, UNSET]
  | empty | assertion _ | look _ _ | backref _ | keepOut | contPrev | backrefExists _ | subroutine _ =>
    simp [minSize]
theorem minSizeSum_le (es : List Expr) (hd : leafSizesOKList es = true) : minSizeSum es ≤ UNSET := by
  cases es with
  | nil => simp [minSizeSum]
  | cons e es => simp only [minSizeSum]; exact satAdd_le_max _ _
theorem minSizeMin_le' (es : List Expr) (hd : leafSizesOKList es = true) : minSizeMin es ≤ UNSET := by
  cases es with
  | nil => simp [minSizeMin]
  | cons e es =>
    simp only [leafSizesOKList, Bool.and_eq_true] at hd
    cases es with
    | nil => simp only [minSizeMin]; exact minSize_le e hd.1
    | cons y ys =>
      simp only [minSizeMin]
      have := minSize_le e hd.1
      omega
end

theorem C06_sizes_no_overflow (e : Expr) (hd : leafSizesOK e = true) : minSize e ≤ UNSET :=
  minSize_le e hd

mutual
theorem groupCount_le_nodes (e : Expr) : groupCount e ≤ nodes e := by
  cases e with
  | group g c => simp only [groupCount, nodes]; have := groupCount_le_nodes c; omega
  | concat es => simp only [groupCount, nodes]; have := groupCountList_le_nodes es; omega
  | alt es => simp only [groupCount, nodes]; have := groupCountList_le_nodes es; omega
  | look c la => simp only [groupCount, nodes]; have := groupCount_le_nodes c; omega
  | «repeat» c lo hi g => simp only [groupCount, nodes]; have := groupCount_le_nodes c; omega
  | atomic c => simp only [groupCount, nodes]; have := groupCount_le_nodes c; omega
  | cond c y n =>
    simp only [groupCount, nodes]
    have := groupCount_le_nodes c; have := groupCount_le_nodes y; have := groupCount_le_nodes n
    omega
  | empty | any _ | assertion _ | literal _ _ | delegate _ _ _ | backref _ | keepOut | contPrev
  | backrefExists _ | subroutine _ => simp [groupCount, nodes]
theorem groupCountList_le_nodes (es : List Expr) : groupCountList es ≤ nodesList es := by
  cases es with
  | nil => simp [groupCountList, nodesList]
  | cons e es =>
    simp only [groupCountList, nodesList]
    have := groupCount_le_nodes e; have := groupCountList_le_nodes es; omega
end

mutual
theorem checkRefs_errors (e : Expr) (n : Nat) (err : CompileErr) (h : checkRefs e n = .error err) :
    err = .invalidBackref ∨ err = .featureNotSupported := by
  cases e with
  | empty | any _ | assertion _ | literal _ _ | delegate _ _ _ | keepOut | contPrev => simp [checkRefs] at h
  | concat es => exact checkRefsList_errors es n err (by simpa [checkRefs] using h)
  | alt es => exact checkRefsList_errors es n err (by simpa [checkRefs] using h)
  | group g c => exact checkRefs_errors c (n + 1) err (by simpa [checkRefs] using h)
  | look c la => exact checkRefs_errors c n err (by simpa [checkRefs] using h)
  | «repeat» c lo hi g => exact checkRefs_errors c n err (by simpa [checkRefs] using h)
  | atomic c => exact checkRefs_errors c n err (by simpa [checkRefs] using h)
  | backref g =>
    simp only [checkRefs] at h
    split at h
    · cases h; left; rfl
    · cases h
  | backrefExists g =>
    simp only [checkRefs] at h
    split at h
    · cases h; left; rfl
    · cases h
  | cond c y f =>
    simp only [checkRefs] at h
    cases h1 : checkRefs c n with
    | error e1 => simp only [h1] at h; cases h; exact checkRefs_errors c n _ h1
    | ok n1 =>
      simp only [h1] at h
      cases h2 : checkRefs y n1 with
      | error e2 => simp only [h2] at h; cases h; exact checkRefs_errors y n1 _ h2
      | ok n2 => simp only [h2] at h; exact checkRefs_errors f n2 err h
  | subroutine g => simp only [checkRefs] at h; cases h; right; rfl
theorem checkRefsList_errors (es : List Expr) (n : Nat) (err : CompileErr) (h : checkRefsList es n = .error err) :
    err = .invalidBackref ∨ err = .featureNotSupported := by
  cases es with
  | nil => simp [checkRefsList] at h
  | cons e es =>
    simp only [checkRefsList] at h
    cases h1 : checkRefs e n with
    | error e1 => simp only [h1] at h; cases h; exact checkRefs_errors e n _ h1
    | ok n1 => simp only [h1] at h; exact checkRefsList_errors es n1 err h
end

/-- **analysis is total and linear**: it answers with a group count bounded by the tree size, or
    with one of its two errors -/
theorem C06_groups_linear (e : Expr) (n : Nat) :
    (∃ m, checkRefs e n = .ok m ∧ m ≤ n + nodes e) ∨ checkRefs e n = .error .invalidBackref ∨
      checkRefs e n = .error .featureNotSupported := by
  cases h : checkRefs e n with
  | ok m =>
    left
    have := checkRefs_count e n m h
    have := groupCount_le_nodes e
    exact ⟨m, rfl, by omega⟩
  | error err =>
    right
    rcases checkRefs_errors e n err h with rfl | rfl
    · left; rfl
    · right; rfl

theorem length_takeWhile_le {α : Type} (p : α → Bool) (l : List α) : (l.takeWhile p).length ≤ l.length := by
  induction l with
  | nil => simp
  | cons a as ih => simp only [List.takeWhile_cons]; split <;> simp <;> omega

open Expand in
/-- the decimal scanner only accepts values that fit `usize`, and consumes no more than the input -/
theorem C06_parse_decimal_bound (s : List Char) (skip v : Nat) (h : parseDecimal s = some (skip, v)) :
    v ≤ UNSET ∧ skip ≤ s.length ∧ 0 < skip := by
  unfold parseDecimal at h
  simp only at h
  split at h
  · cases h
  · split at h
    · cases h
    · rename_i hne hle
      simp only [Option.some.injEq, Prod.mk.injEq] at h
      obtain ⟨rfl, rfl⟩ := h
      refine ⟨by omega, length_takeWhile_le _ _, ?_⟩
      cases hl : List.takeWhile isDigit s with
      | nil => simp [hl] at hne
      | cons a as => simp

open Expand in
/-- the identifier scanner: what it consumes is the delimiters plus a non-empty identifier -/
theorem C06_parse_id_skip (isId : Char → Bool) (s o cl : List Char) (rel : Bool) (id : List Char) (skip : Nat)
    (h : parseId isId s o cl rel = some (id, skip)) : skip = o.length + id.length + cl.length ∧ id ≠ [] := by
  unfold parseId at h
  split at h
  · cases h
  · split at h
    · cases h
    · rename_i hok
      simp only [Option.some.injEq, Prod.mk.injEq] at h
      obtain ⟨rfl, rfl⟩ := h
      refine ⟨rfl, ?_⟩
      intro he
      apply hok
      simp [he]

/-- the nesting limit of the parser is the small constant the source says -/
theorem C06_max_recursion : Generated.maxRecursion = 64 := by decide

end Fancy
