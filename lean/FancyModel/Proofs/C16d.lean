import FancyModel.Proofs.C16c
/-!
# C16 — the translated `Captures::get` beyond the groups, for EVERY `usize` (and every `Nat`) index  (F22)

The property says "indices >= len give None". `C16_captures_get_translated_eq` (C16c) relates the translated `get` to the
model's; here the clause is stated outright about the function translated from `src/lib.rs` on every run, with no model in the
statement: for a `Captures` of the VM path holding `2 * n` slots (`2 * n ≤ 2^64`: a `Vec<usize>`), and on the wrapped path a
slot vector of `2 * n` cells,

* `C16_get_translated_beyond`: `i ≥ n` → `get(i)` returns `None` — no panic, no group, whatever `i` is. Before the F22 repair
  (`let slot = i * 2;`, translated since then with the overflow as a panic outcome) this is FALSE for `i ≥ 2^63`, which is the
  witness `C16_get_unrepaired_witness` below, kept as a theorem about the old body;
* `C16_get_translated_no_panic`: `get(i)` never panics for any `i`;
* `C16_get_translated_len`: `len()` is `n`.
-/
namespace Fancy
open Fancy.Parse Fancy.GenLib

theorem toCaps_slots_length_fancy (c : RCaptures) (saves : List Nat) (h : c.inner = .fancy saves) :
    (toCaps c).slots.length = saves.length := by
  simp [toCaps, h, viewSlots_length]

/-- the hypotheses of `C16_captures_get_translated_eq` from "the vector has `2 * n` cells, `2 * n ≤ 2^64`" -/
theorem caps_side_conditions (c : RCaptures) (n : Nat) (hlen : (toCaps c).slots.length = 2 * n) (hn : 2 * n ≤ 2 ^ 64) :
    (∀ slots, c.inner = .wrap (some slots) → slots.length % 2 = 0) ∧
    (∀ saves, c.inner = .fancy saves → saves.length ≤ 2 ^ 64) := by
  constructor
  · intro slots hs
    have : (toCaps c).slots = slots := by simp [toCaps, hs]
    rw [this] at hlen; omega
  · intro saves hs
    rw [toCaps_slots_length_fancy c saves hs] at hlen; omega

theorem C16_get_translated_beyond (c : RCaptures) (n i : Nat) (hlen : (toCaps c).slots.length = 2 * n)
    (hn : 2 * n ≤ 2 ^ 64) (hi : n ≤ i) : genCapturesGet c i = .ok none := by
  obtain ⟨hw, hl⟩ := caps_side_conditions c n hlen hn
  have hacc := C16_caps_accessors (toCaps c) n hlen
  have hg := C16_captures_get_translated_eq c i hw hl
  rw [hacc.2.2.2.1 i (by rw [hacc.1]; exact hi)] at hg
  cases hr : genCapturesGet c i with
  | ok r =>
    cases r with
    | none => rfl
    | some p => obtain ⟨a, b⟩ := p; rw [hr] at hg; simp [gotOf] at hg
  | panic s => rw [hr] at hg; simp [gotOf] at hg
  | err e => rw [hr] at hg; simp [gotOf] at hg

theorem C16_get_translated_no_panic (c : RCaptures) (n i : Nat) (hlen : (toCaps c).slots.length = 2 * n)
    (hn : 2 * n ≤ 2 ^ 64) : ∃ r, genCapturesGet c i = .ok r := by
  obtain ⟨hw, hl⟩ := caps_side_conditions c n hlen hn
  have hacc := C16_caps_accessors (toCaps c) n hlen
  have hg := C16_captures_get_translated_eq c i hw hl
  have hnp := hacc.2.2.2.2.1 i
  cases hr : genCapturesGet c i with
  | ok r => exact ⟨r, rfl⟩
  | panic s => rw [hr] at hg; exact absurd hg.symm hnp
  | err e => rw [hr] at hg; exact absurd hg.symm hnp

theorem C16_get_translated_len (c : RCaptures) (n : Nat) (hlen : (toCaps c).slots.length = 2 * n) :
    genCapturesLenOf c = n := by
  rw [C16_captures_len_of_translated_eq]; exact (C16_caps_accessors (toCaps c) n hlen).1

/-- the body before the repair, `let slot = i * 2;` with release arithmetic (the product taken modulo 2^64), on the VM path -/
def getUnrepaired (saves : List Nat) (i : Nat) : Option (Nat × Nat) :=
  let slot := (i * 2) % 2 ^ 64
  if slot ≥ saves.length then none
  else
    match saves[slot]?, saves[slot + 1]? with
    | some lo, some hi => if lo == UNSET then none else some (lo, hi)
    | _, _ => none

/-- **F22, as a theorem about the unrepaired body**: two groups, index `2^63 + 1 ≥ len`, and the answer is group 1 -/
theorem C16_get_unrepaired_witness : getUnrepaired [0, 2, 0, 1] (2 ^ 63 + 1) = some (0, 1) := by
  decide

/-- non-vacuity: the repaired, translated `get` on the same `Captures` and the same index -/
example : genCapturesGet ⟨.fancy [0, 2, 0, 1], []⟩ (2 ^ 63 + 1) = .ok none :=
  C16_get_translated_beyond ⟨.fancy [0, 2, 0, 1], []⟩ 2 _ (by simp [toCaps, viewSlots]) (by decide) (by decide)

end Fancy
