import FancyModel.GeneratedToStr
/-!
# C17 (third part) — the printer model is `Expr::to_str` / `escape` of lib.rs

`GeneratedToStr.lean` is `is_special`, `push_usize`, `push_quoted`, `escape` and `Expr::to_str` (src/lib.rs) translated
statement by statement by `tools/rs2lean_tostr.py` on every run of the check. This file proves every translated
definition equal to the hand-written model (Model/ToStr.lean, with `isSpecial` = the table `Generated.isSpecial` that
tools/extract.py regenerates):

* `C17_is_special_translated_eq`: the translated `match c { '\\' | '.' | … => true, _ => false }` is `Generated.isSpecial`
  (so the regenerated table and the translated function agree, whatever the list of characters is);
* `C17_push_quoted_translated_eq`: `genPushQuoted buf s = buf ++ pushQuoted Generated.isSpecial s`;
* `C17_push_usize_translated_eq`: `genPushUsize s x = some (s ++ natDigits x)` for EVERY `x` - the digits are those of
  `Nat.toDigits 10`, and none of the `u8` additions `b'0' + …` overflows (`some`);
* `C17_escape_translated_eq`: `genEscape text = escape Generated.isSpecial text`, including the `Cow::Borrowed` /
  `Cow::Owned` decision, which the Rust code takes by counting special BYTES of the UTF-8 encoding
  (`special_bytes_count`: that count is the number of special CHARACTERS, because a byte of a multi-byte sequence read
  as a `char` is never special - the claim of the comment in the source);
* `C17_to_str_translated_eq`: `genToStr e buf prec = (toStr Generated.isSpecial e prec).map (buf ++ ·)` for every
  expression, buffer and precedence - in particular the same panic set (`none`) - under `hiPrintOK e`: no
  `Repeat { hi: some usize::MAX }`, a value of the model's `Option Nat` that the Rust `usize` cannot tell from "unbounded"
  (an `example` shows the two sides differ there).

A change of meaning in these functions changes the generated definitions and breaks these proofs
(notes/translator-tostr.md lists the mutations that were tried).
-/
set_option linter.unusedSimpArgs false
namespace Fancy
open Fancy.GenToStr

/-! ## `is_special`, `push_quoted` -/

theorem C17_is_special_translated_eq (c : Char) : genIsSpecial c = Generated.isSpecial c := by
  unfold genIsSpecial Generated.isSpecial Generated.specialChars
  simp only [List.contains_cons, List.contains_nil, Bool.or_false, Bool.or_assoc]
  split <;> simp_all

theorem genIsSpecial_eq : genIsSpecial = Generated.isSpecial := funext C17_is_special_translated_eq

theorem loopPushQuoted_eq (s buf : List Char) : loopPushQuoted s buf = buf ++ pushQuoted genIsSpecial s := by
  induction s generalizing buf with
  | nil => simp [loopPushQuoted, pushQuoted]
  | cons c cs ih =>
    simp only [loopPushQuoted, pushQuoted]
    by_cases h : genIsSpecial c = true <;> simp [h, ih]

theorem C17_push_quoted_translated_eq (buf s : List Char) :
    genPushQuoted buf s = buf ++ pushQuoted Generated.isSpecial s := by
  simp only [genPushQuoted, loopPushQuoted_eq, genIsSpecial_eq]

/-! ## `push_usize` -/

theorem natDigits_toDigits (n : Nat) : natDigits n = Nat.toDigits 10 n := by simp [natDigits]

theorem digit_char : ∀ d, d < 10 → Char.ofNat (48 + d) = Nat.digitChar d := by decide

/-- `push_usize` appends the decimal digits, and its `u8` additions never overflow -/
theorem C17_push_usize_translated_eq (s : List Char) (x : Nat) : genPushUsize s x = some (s ++ natDigits x) := by
  induction x using Nat.strongRecOn generalizing s with
  | _ x ih =>
    rw [genPushUsize, natDigits_toDigits, Nat.toDigits_eq_if (by decide)]
    by_cases h : x ≥ 10
    · have hlt : ¬ x < 10 := by omega
      have hm : x % 10 % 256 = x % 10 := by omega
      have hd : x % 10 < 10 := by omega
      have ha : 48 + x % 10 < 256 := by omega
      simp only [h, dite_true, ih (x / 10) (by omega), hlt, if_false, hm, u8Add, ha, if_true, digit_char _ hd,
        natDigits_toDigits, List.append_assoc]
    · have hlt : x < 10 := by omega
      have hm : x % 256 = x := by omega
      have ha : 48 + x < 256 := by omega
      simp only [h, dite_false, hlt, if_true, hm, u8Add, ha, digit_char _ hlt]

/-! ## `escape`: counting special BYTES is counting special CHARACTERS -/

set_option maxRecDepth 100000 in
/-- a byte of a multi-byte sequence, read as a `char`, is never special ("all special characters are single bytes") -/
theorem high_byte_not_special : ∀ b, b < 256 → 128 ≤ b → genIsSpecial (Char.ofNat b) = false := by decide

theorem special_bytes_char (c : Char) :
    ((Utf8.encodeChar c.toNat).filter fun b => genIsSpecial (Char.ofNat b)).length = if genIsSpecial c then 1 else 0 := by
  have hv : c.toNat < 1114112 := by
    have hval := c.valid
    have e : c.toNat = c.val.toNat := rfl
    rw [e]
    rcases hval with h | ⟨_, h⟩ <;> omega
  unfold Utf8.encodeChar
  by_cases h1 : c.toNat < 128
  · simp only [h1, if_true, List.filter_cons, List.filter_nil, Char.ofNat_toNat]
    by_cases hs : genIsSpecial c = true <;> simp [hs]
  · have hns : genIsSpecial c = false := by
      have := high_byte_not_special
      by_cases h2 : c.toNat < 256
      · have := this c.toNat h2 (by omega); rwa [Char.ofNat_toNat] at this
      · -- a character beyond U+00FF is none of the ASCII specials
        rw [C17_is_special_translated_eq]
        unfold Generated.isSpecial Generated.specialChars
        simp only [List.contains_cons, List.contains_nil, Bool.or_false, Bool.or_eq_false_iff, beq_eq_false_iff_ne, ne_eq]
        refine ⟨?_, ?_, ?_, ?_, ?_, ?_, ?_, ?_, ?_, ?_, ?_, ?_, ?_, ?_, ?_⟩ <;>
          (intro e; rw [e] at h2; exact h2 (by decide))
    have hb := high_byte_not_special
    by_cases h2 : c.toNat < 2048
    · simp [h1, h2, hns, hb (192 + c.toNat / 64) (by omega) (by omega), hb (128 + c.toNat % 64) (by omega) (by omega)]
    · by_cases h3 : c.toNat < 65536
      · simp [h1, h2, h3, hns, hb (224 + c.toNat / 4096) (by omega) (by omega),
          hb (128 + c.toNat / 64 % 64) (by omega) (by omega), hb (128 + c.toNat % 64) (by omega) (by omega)]
      · simp [h1, h2, h3, hns, hb (240 + c.toNat / 262144) (by omega) (by omega),
          hb (128 + c.toNat / 4096 % 64) (by omega) (by omega), hb (128 + c.toNat / 64 % 64) (by omega) (by omega),
          hb (128 + c.toNat % 64) (by omega) (by omega)]

theorem special_bytes_count (s : List Char) :
    ((strBytes s).filter fun b => genIsSpecial (Char.ofNat b)).length = (s.filter genIsSpecial).length := by
  induction s with
  | nil => rfl
  | cons c cs ih =>
    have hc := special_bytes_char c
    simp only [strBytes, Utf8.encode, List.map_cons, List.flatMap_cons, List.filter_append, List.length_append] at ih ⊢
    rw [ih, hc, List.filter_cons]
    by_cases hs : genIsSpecial c = true <;> simp [hs] <;> omega

/-- `escape`, with its `Cow::Borrowed` / `Cow::Owned` decision (the count over the BYTES of the text) -/
theorem C17_escape_translated_eq (text : List Char) : genEscape text = escape Generated.isSpecial text := by
  unfold genEscape escape
  rw [special_bytes_count]
  simp only [C17_push_quoted_translated_eq, List.nil_append, genIsSpecial_eq]
  by_cases h : text.any Generated.isSpecial = true
  · have : (text.filter Generated.isSpecial).length ≠ 0 := by
      intro e
      have : text.filter Generated.isSpecial = [] := List.eq_nil_of_length_eq_zero e
      simp [List.filter_eq_nil_iff] at this
      simp [List.any_eq_true] at h
      obtain ⟨x, hx, hsx⟩ := h
      exact absurd hsx (by simp [this x hx])
    simp [h, this]
  · have hf : text.filter Generated.isSpecial = [] := by
      simp [List.filter_eq_nil_iff]
      intro x hx
      simp [List.any_eq_true] at h
      simpa using h x hx
    simp [h, hf]

/-! ## `to_str` -/

mutual
/-- the representation side condition: `Repeat::hi` is a `usize` in Rust, `usize::MAX` meaning "unbounded"; the model's
    `some UNSET` has no Rust counterpart distinct from `none` -/
def hiPrintOK : Expr → Bool
  | .concat es => hiPrintOKAll es
  | .alt es => hiPrintOKAll es
  | .group _ e => hiPrintOK e
  | .repeat e _ hi _ => (hi != some UNSET) && hiPrintOK e
  | _ => true
def hiPrintOKAll : List Expr → Bool
  | [] => true
  | e :: es => hiPrintOK e && hiPrintOKAll es
end

local notation "sp" => Generated.isSpecial

theorem unset_ne : UNSET ≠ 1 ∧ UNSET ≠ 0 := by decide

mutual
theorem genToStr_eq : ∀ (e : Expr) (buf : List Char) (prec : Nat), hiPrintOK e = true →
    genToStr e buf prec = (toStr sp e prec).map (buf ++ ·)
  | .empty, buf, prec, _ => by simp [genToStr, toStr]
  | .any nl, buf, prec, _ => by cases nl <;> simp [genToStr, toStr]
  | .literal val casei, buf, prec, _ => by
    cases casei <;> simp [genToStr, toStr, C17_push_quoted_translated_eq]
  | .assertion a, buf, prec, _ => by
    rcases a with _ | _ | ⟨_ | _⟩ | ⟨_ | _⟩ | _ | _ | _ | _ <;> simp [genToStr, toStr]
  | .concat es, buf, prec, h => by
    have hes : hiPrintOKAll es = true := by simpa [hiPrintOK] using h
    simp only [genToStr, toStr]
    by_cases hp : prec > 1
    · simp only [hp, decide_true, if_true, loopToStr_eq es _ hes]
      cases toStrConcat sp es <;> simp
    · simp only [hp, decide_false, Bool.false_eq_true, if_false, loopToStr_eq es _ hes]
      cases toStrConcat sp es <;> simp
  | .alt es, buf, prec, h => by
    have hes : hiPrintOKAll es = true := by simpa [hiPrintOK] using h
    simp only [genToStr, toStr]
    by_cases hp : prec > 0
    · simp only [hp, decide_true, if_true, loopToStr2_eq es 0 _ hes, beq_self_eq_true]
      cases toStrAlt sp es true <;> simp
    · simp only [hp, decide_false, Bool.false_eq_true, if_false, loopToStr2_eq es 0 _ hes, beq_self_eq_true]
      cases toStrAlt sp es true <;> simp
  | .group g e, buf, prec, h => by
    have he : hiPrintOK e = true := by simpa [hiPrintOK] using h
    simp only [genToStr, toStr, genToStr_eq e _ 0 he]
    cases toStr sp e 0 <;> simp
  | .repeat e lo hi greedy, buf, prec, h => by
    have hh : hi ≠ some UNSET ∧ hiPrintOK e = true := by simpa [hiPrintOK] using h
    obtain ⟨hhi, he⟩ := hh
    simp only [genToStr, toStr, genToStr_eq e _ 3 he]
    cases toStr sp e 3 with
    | none => simp
    | some s =>
      simp only [Option.map_some, C17_push_usize_translated_eq]
      have hu1 : (UNSET == 1) = false := by decide
      have hU0 : UNSET ≠ 0 := by decide
      have hU1 : UNSET ≠ 1 := by decide
      have h0U : (0 : Nat) ≠ UNSET := by decide
      have h1U : (1 : Nat) ≠ UNSET := by decide
      cases hi with
      | none =>
        rcases lo with _ | _ | lo
        · by_cases hp : prec > 2 <;> cases greedy <;> simp [hiVal, hp, hu1]
        · by_cases hp : prec > 2 <;> cases greedy <;> simp [hiVal, hp, hu1]
        · by_cases hl : lo + 2 = UNSET
          · have hl' : lo + 1 + 1 = 18446744073709551615 := by simpa [UNSET] using hl
            by_cases hp : prec > 2 <;> cases greedy <;> simp [hiVal, hp, hl', UNSET]
          · by_cases hp : prec > 2 <;> cases greedy <;> simp [hiVal, hp, hu1, hl]
      | some hv =>
        have hne : hv ≠ UNSET := fun e => hhi (by rw [e])
        have hb : (hv == UNSET) = false := by simpa using hne
        rcases lo with _ | _ | lo
        · by_cases h1 : hv = 1
          · subst h1; by_cases hp : prec > 2 <;> cases greedy <;> simp [hiVal, hp]
          · by_cases h0 : hv = 0 <;> by_cases hp : prec > 2 <;> cases greedy <;>
              simp [hiVal, hp, h1, h0, hb, hne, h0U, Ne.symm h0U, eq_comm (a := 0) (b := hv)]
        · by_cases h1 : hv = 1 <;> by_cases hp : prec > 2 <;> cases greedy <;>
            simp [hiVal, hp, h1, hb, hne, h1U, eq_comm (a := 1) (b := hv)]
        · have hsym : (lo + 1 + 1 = hv) = (hv = lo + 2) := by apply propext; omega
          by_cases hl : hv = lo + 2 <;> by_cases hp : prec > 2 <;> cases greedy <;> simp [hiVal, hp, hl, hb, hne, hsym]
  | .delegate inner size casei, buf, prec, _ => by cases casei <;> simp [genToStr, toStr]
  | .look e la, buf, prec, _ => by simp [genToStr, toStr]
  | .backref g, buf, prec, _ => by simp [genToStr, toStr]
  | .atomic e, buf, prec, _ => by simp [genToStr, toStr]
  | .keepOut, buf, prec, _ => by simp [genToStr, toStr]
  | .contPrev, buf, prec, _ => by simp [genToStr, toStr]
  | .backrefExists g, buf, prec, _ => by simp [genToStr, toStr]
  | .cond c y n, buf, prec, _ => by simp [genToStr, toStr]
  | .subroutine g, buf, prec, _ => by simp [genToStr, toStr]
theorem loopToStr_eq : ∀ (es : List Expr) (buf : List Char), hiPrintOKAll es = true →
    loopToStr es buf = (toStrConcat sp es).map (buf ++ ·)
  | [], buf, _ => by simp [loopToStr, toStrConcat]
  | e :: es, buf, h => by
    have hh : hiPrintOK e = true ∧ hiPrintOKAll es = true := by simpa [hiPrintOKAll] using h
    simp only [loopToStr, toStrConcat, genToStr_eq e _ 2 hh.1]
    cases toStr sp e 2 with
    | none => simp
    | some a =>
      simp only [Option.map_some, loopToStr_eq es _ hh.2]
      cases toStrConcat sp es <;> simp
theorem loopToStr2_eq : ∀ (es : List Expr) (i : Nat) (buf : List Char), hiPrintOKAll es = true →
    loopToStr2 es i buf = (toStrAlt sp es (i == 0)).map (buf ++ ·)
  | [], i, buf, _ => by simp [loopToStr2, toStrAlt]
  | e :: es, i, buf, h => by
    have hh : hiPrintOK e = true ∧ hiPrintOKAll es = true := by simpa [hiPrintOKAll] using h
    simp only [loopToStr2, toStrAlt, genToStr_eq e _ 1 hh.1]
    cases toStr sp e 1 with
    | none => simp
    | some a =>
      simp only [Option.map_some, loopToStr2_eq es _ _ hh.2]
      have : (i + 1 == 0) = false := by simp
      rw [this]
      cases toStrAlt sp es false with
      | none => simp
      | some b => by_cases hi0 : i = 0 <;> simp [hi0]
end

/-- **`Expr::to_str` as translated is the model's `toStr`** (appended to the buffer; `none` = the panic
    "attempting to format hard expr"), for every expression whose repeat bounds are Rust values -/
theorem C17_to_str_translated_eq (e : Expr) (buf : List Char) (prec : Nat) (h : hiPrintOK e = true) :
    genToStr e buf prec = (toStr Generated.isSpecial e prec).map (buf ++ ·) := genToStr_eq e buf prec h

/-- from the empty buffer, as `compile` calls it -/
theorem C17_to_str_translated_empty (e : Expr) (prec : Nat) (h : hiPrintOK e = true) :
    genToStr e [] prec = toStr Generated.isSpecial e prec := by
  rw [genToStr_eq e [] prec h]; cases toStr Generated.isSpecial e prec <;> simp

/-- same panic set -/
theorem C17_to_str_translated_panics (e : Expr) (buf : List Char) (prec : Nat) (h : hiPrintOK e = true) :
    genToStr e buf prec = none ↔ toStr Generated.isSpecial e prec = none := by
  rw [genToStr_eq e buf prec h]; cases toStr Generated.isSpecial e prec <;> simp

/-- why `hiPrintOK`: `x{0,usize::MAX}` as a model value `some UNSET` prints with the bound, the Rust side (which sees
    `usize::MAX` = unbounded) prints `*` -/
example : genToStr (.repeat (.any false) 0 (some UNSET) true) [] 0 = some ['.', '*'] ∧
    toStr Generated.isSpecial (.repeat (.any false) 0 (some UNSET) true) 0 ≠ some ['.', '*'] := by
  constructor
  · simp [genToStr, hiVal, UNSET]
  · simp [toStr, UNSET]

end Fancy
