import FancyModel.Proofs.C01d
import FancyModel.Proofs.C02d
import FancyModel.Lemmas.ParseShape
import FancyModel.Lemmas.ProgDelegAll
/-!
# From the pattern *string* to the search result (stage S3, no shape hypotheses left)

`C01_vm_correct_s3` takes the tree and three decidable side conditions that are not about the pattern's
meaning but about its shape: `wellShaped b.raw`, `progDelegOK …`, and `noBareEndZ b.raw`. The first holds
of every tree the parser returns and `build` accepts (`Lemmas/ParseShape`: induction over the whole
recursive descent, every byte string); the second of every program `build` emits
(`Lemmas/ProgDelegAll`: induction over the compiler). What remains is the stage predicate itself
(`s3ok`) and `noBareEndZ`, both stated on the parser's own output.

So, for every pattern string `cs` (any characters), both values of the `case_insensitive` option, every
text, every offset: parse → analyze → compile → run computes the reference search.
-/
namespace Fancy
open Fancy.Parse

/-- the stage predicate on what the parser returned (the driver evaluates the same thing on `b.raw`,
    which is the renumbered tree: `build_raw_eq`) -/
def s3Pattern (t : Tree) (b : Built) : Bool :=
  s3ok (fun g => t.backrefs.contains g) b.raw true && noBareEndZ t.expr

theorem C01_pipeline_s3 (isAlnum : Char → Bool) (cs : List Char) (casei : Bool) (t : Tree) (b : Built)
    (prog : Prog) (c : Ctx)
    (hp : parseStr isAlnum cs casei = .ok t) (hb : build t.expr t.backrefs = .ok b)
    (hk : b.kind = .fancy prog) (hst : s3Pattern t b = true)
    (hlen : c.len < UNSET) (hpos : c.pos ≤ c.len) : VmCorrectR b c := by
  simp only [s3Pattern, Bool.and_eq_true] at hst
  exact C01_vm_correct_s3 t.expr t.backrefs b prog c hb hk hst.1
    (parse_build_wellShaped isAlnum cs casei t b hp hb).2
    (build_raw_noBareEndZ t.expr t.backrefs b hb hst.2)
    (build_progDelegOK t.expr t.backrefs b prog hb hk) hlen hpos

/-- every capture group, from the pattern string -/
theorem C02_pipeline_s3 (isAlnum : Char → Bool) (cs : List Char) (casei : Bool) (t : Tree) (b : Built)
    (prog : Prog) (c : Ctx)
    (hp : parseStr isAlnum cs casei = .ok t) (hb : build t.expr t.backrefs = .ok b)
    (hk : b.kind = .fancy prog) (hst : s3Pattern t b = true)
    (hlen : c.len < UNSET) (hpos : c.pos ≤ c.len) (limit fuel : Nat) (slots : List (Option Nat))
    (hfound : (b.captures c limit fuel).1 = .found slots) :
    ∃ f, refSearch c b.raw b.nGroups = some f ∧ ∀ i : Nat, slots[i]? = f.slots[i]? := by
  simp only [s3Pattern, Bool.and_eq_true] at hst
  exact C02_groups_s3 t.expr t.backrefs b prog c hb hk hst.1
    (parse_build_wellShaped isAlnum cs casei t b hp hb).2
    (build_raw_noBareEndZ t.expr t.backrefs b hb hst.2)
    (build_progDelegOK t.expr t.backrefs b prog hb hk) hlen hpos limit fuel slots hfound

/-- the search terminates, from the pattern string -/
theorem C07_pipeline_terminates (isAlnum : Char → Bool) (cs : List Char) (casei : Bool) (t : Tree) (b : Built)
    (prog : Prog) (c : Ctx)
    (hp : parseStr isAlnum cs casei = .ok t) (hb : build t.expr t.backrefs = .ok b)
    (hk : b.kind = .fancy prog) (hst : s3Pattern t b = true)
    (hlen : c.len < UNSET) (hpos : c.pos ≤ c.len) (limit : Nat) :
    ∃ N, ∀ fuel, N ≤ fuel → (b.captures c limit fuel).1 ≠ .outOfFuel := by
  simp only [s3Pattern, Bool.and_eq_true] at hst
  exact C07_terminates_s3 t.expr t.backrefs b prog c hb hk hst.1
    (parse_build_wellShaped isAlnum cs casei t b hp hb).2
    (build_raw_noBareEndZ t.expr t.backrefs b hb hst.2)
    (build_progDelegOK t.expr t.backrefs b prog hb hk) hlen hpos limit

/-- and never panics, from the pattern string -/
theorem C05_pipeline_no_panic (isAlnum : Char → Bool) (cs : List Char) (casei : Bool) (t : Tree) (b : Built)
    (prog : Prog) (c : Ctx)
    (hp : parseStr isAlnum cs casei = .ok t) (hb : build t.expr t.backrefs = .ok b)
    (hk : b.kind = .fancy prog) (hst : s3Pattern t b = true)
    (hlen : c.len < UNSET) (hpos : c.pos ≤ c.len) (limit fuel : Nat) (site : String) :
    (b.captures c limit fuel).1 ≠ .panic site := by
  simp only [s3Pattern, Bool.and_eq_true] at hst
  exact C05_no_panic_s3 t.expr t.backrefs b prog c hb hk hst.1
    (parse_build_wellShaped isAlnum cs casei t b hp hb).2
    (build_raw_noBareEndZ t.expr t.backrefs b hb hst.2)
    (build_progDelegOK t.expr t.backrefs b prog hb hk) hlen hpos limit fuel site

/-- the plain path (no fancy feature): for every pattern string the parser accepts and `build` hands to
    the automata engine as a whole, the search is the reference search (under A-RA, which is what
    `Built.captures` on a `.wrap` *is*) -/
theorem C01_pipeline_wrap (isAlnum : Char → Bool) (cs : List Char) (casei : Bool) (t : Tree) (b : Built)
    (c : Ctx) (_hp : parseStr isAlnum cs casei = .ok t)
    (_hb : build t.expr t.backrefs = .ok b) (hk : b.kind = .wrap) : VmCorrectR b c :=
  fun limit fuel => Or.inr (Or.inr (Or.inr (C01_wrap_path b c limit fuel hk)))

/-! ### Non-vacuity: the string `\w+(?=\d)(?i:x)` meets every hypothesis of the pipeline theorems -/
theorem ex3_parse : parseStr (fun c => c.isAlphanum) "\\w+(?=\\d)(?i:x)".toList false = .ok ⟨exTree3, [], []⟩ :=
  isTree_sound (by decide +kernel)

set_option linter.unusedSimpArgs false in
theorem ex3_built : ∃ b prog, build exTree3 [] = .ok b ∧ b.kind = .fancy prog ∧ s3Pattern ⟨exTree3, [], []⟩ b = true := by
  simp [s3Pattern, build, exTree3, wrapTree, renumber, renumberList, checkRefs, checkRefsList, isHard, isHardAny,
    compile, visit, visitMiddle, visitAlt, concatSplit, groupCount, groupCountList, constSize, constSizeAll, minSize, minSizeMin,
    minSizeSum, allMinSize, compileDelegates, compileDelegate, isLiteral, isLiteralAll, s3ok, s3okAll, s3okAlts, condFree, condFreeAll,
    boundsEq, satMul, satAdd, sureReps, UNSET, Assertion.isHard, wrapPosLook, posLookBodyPc, pushLiteral, wellShaped, wellShapedAll,
    noBareEndZ, noBareEndZAll, progDelegOK, slotsBelow, slotsBelowAll]

/-- … hence, for every text and offset, the search of that pattern is the reference search -/
example (c : Ctx) (hlen : c.len < UNSET) (hpos : c.pos ≤ c.len) : ∃ b, build exTree3 [] = .ok b ∧ VmCorrectR b c := by
  obtain ⟨b, prog, hb, hk, hst⟩ := ex3_built
  exact ⟨b, hb, C01_pipeline_s3 _ _ _ ⟨exTree3, [], []⟩ b prog c ex3_parse hb hk hst hlen hpos⟩

end Fancy
