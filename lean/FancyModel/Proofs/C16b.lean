import FancyModel.Proofs.C15c
import FancyModel.Proofs.C05c
import FancyModel.Proofs.C16
/-!
# C16 (second part) — group metadata: the parser's counter, names, accessors

**Part 1 — the parser's group counter is the analyzer's numbering.**
* `C16_descent` (`Desc16`, `Inv`): the invariant of the mutual descent of the parser, for every byte
  string, fuel, state, index and depth: a call that returns `ok (ix', e, st')` has advanced
  `curr_group` by `groupCount e`, has extended `named_groups` by the names of the groups of `e`
  bound to their numbers in opening-parenthesis (pre-)order (`bindNames`), has not moved left, and has
  moved right if `e` holds a group.  The last clause is what makes the two places where the parser
  DROPS a parsed node harmless (`next == ix` in `parse_branch`, `end == next` in
  `parse_conditional`): a node that consumed nothing holds no group.  `parse_group` increments
  before the body (pre-order); `parse_conditional` visits condition, then/else in `renumber`'s order;
  look-arounds, atomic groups, flag groups, conditionals do not count.  One more place needed an
  argument: a named group `(?<n>…)` is returned as `Group` only because `skip + 1 ≠ 2`
  (`(None, 2)` means "atomic" in `parse_group`), which holds because `parse_id` consumes more than
  its two delimiters (`okP_parseId`).
* `C16_parse_counter`: final `curr_group` = `groupCount tree` (= where `renumber _ 1` ends, minus 1).
* `C16_names_at_index`, `mem_bindNames_top`, `C16_names_range`, `C16_names_distinct`,
  `C16_preorder`, `C16_named_group`, `C16_named_group_P`: the name table is `bindNames [] 0 ann`
  where `ann[i]` is the name written at the `(i+1)`-th capture group; `(name, k)` is an entry iff
  group `k` is written with that name and no later group is; `1 ≤ k ≤ groupCount`; no name twice, no
  index twice; `renumber` numbers the groups `1, 2, …` in the same pre-order.
  The model's `Expr.group` carries no name (the Rust `Expr::Group` has none either), so "the group
  carrying that name" is expressed through `ann` and tied to the source text by `C16_named_group`:
  `parse_group` at `(?<name>` binds `name ↦ curr_group + 1` and returns the capture group whose
  opening parenthesis is the `(curr_group + 1)`-th.

**Part 2 — `capture_names`** (`captureNames`, any `HashMap` iteration order): `C16_names_model`.

**Part 3 — `Captures`** (`Caps`: `len`, `get`, `name`, `iter`): `C16_caps_accessors`,
`C16_caps_model` (any stage with `VmCorrectR`), `C16_caps_fancy` (stage S2), `C16_caps_wrap`
(hand-off path), `C16_caps_names`.
-/
namespace Fancy.Parse
open Fancy.Utf8 (codepointLen isLead)
open Fancy

/-! ## Outcomes: what holds of an `ok` -/

/-- `P` holds of the value when the outcome is `ok` (nothing is said of the other outcomes) -/
def OkP {α : Type} (P : α → Prop) : Res α → Prop
  | .ok a => P a
  | _ => True

theorem OkP.bind {α β : Type} {P : α → Prop} {Q : β → Prop} {x : Res α} {f : α → Res β}
    (hx : OkP P x) (hf : ∀ a, P a → OkP Q (f a)) : OkP Q (x >>= f) := by
  cases x with
  | ok a => exact hf a hx
  | err k p => trivial
  | cerr => trivial
  | panic s => trivial
  | outOfFuel => trivial

theorem OkP.mono {α : Type} {P Q : α → Prop} {x : Res α} (hx : OkP P x) (h : ∀ a, P a → Q a) :
    OkP Q x := by
  cases x with
  | ok a => exact h a hx
  | err k p => trivial
  | cerr => trivial
  | panic s => trivial
  | outOfFuel => trivial

theorem OkP.ite {α : Type} {P : α → Prop} {c : Prop} [Decidable c] {t e : Res α}
    (ht : c → OkP P t) (he : ¬c → OkP P e) : OkP P (if c then t else e) := by
  split
  · exact ht ‹_›
  · exact he ‹_›

theorem OkP.of_eq {α : Type} {P : α → Prop} {x : Res α} {a : α} (hx : OkP P x) (h : x = .ok a) :
    P a := by
  rw [h] at hx; exact hx

theorem OkP.intro {α : Type} {P : α → Prop} {x : Res α} (h : ∀ a, x = .ok a → P a) : OkP P x := by
  cases x with
  | ok a => exact h a rfl
  | err k p => trivial
  | cerr => trivial
  | panic s => trivial
  | outOfFuel => trivial

theorem OkP.trivial {α : Type} {x : Res α} : OkP (fun _ => True) x := by
  cases x <;> exact True.intro

@[simp] theorem OkP_ok {α : Type} (P : α → Prop) (a : α) : OkP P (.ok a) = P a := rfl
@[simp] theorem OkP_pure {α : Type} (P : α → Prop) (a : α) : OkP P (pure a) = P a := rfl
@[simp] theorem OkP_err {α : Type} (P : α → Prop) (k : PErr) (p : Nat) :
    OkP P (.err k p) = True := rfl
@[simp] theorem OkP_cerr {α : Type} (P : α → Prop) : OkP P .cerr = True := rfl
@[simp] theorem OkP_panic {α : Type} (P : α → Prop) (s : String) : OkP P (.panic s) = True := rfl
@[simp] theorem OkP_outOfFuel {α : Type} (P : α → Prop) : OkP P .outOfFuel = True := rfl

theorem GoodS.okP {α : Type} {re : Bytes} {P : α → Prop} {x : Res α} (h : GoodS re P x) :
    OkP P x := by
  cases x with
  | ok a => exact h
  | err k p => trivial
  | cerr => trivial
  | panic s => trivial
  | outOfFuel => trivial

/-! ## Positions move to the right (any byte string) -/

/-- `optional_whitespace` never moves left -/
theorem okP_optWs (re : Bytes) (fl : Flags) (ix : Nat) :
    OkP (fun ix' => ix ≤ ix') (optWs re fl ix) := by
  by_cases hix : ix ≤ re.size
  · exact (goodS_optWs re fl ix hix).okP.mono fun _ h => h.1
  · have hne : (ix == re.size) = false := by simp; omega
    have hget : re[ix]? = none := by rw [Array.getElem?_eq_none_iff]; omega
    simp [optWs, optionalWhitespace, hne, hget]

theorem okP_checkForCloseParen (re : Bytes) (fl : Flags) (ix : Nat) :
    OkP (fun ix' => ix < ix') (checkForCloseParen re fl ix) := by
  unfold checkForCloseParen
  refine OkP.bind (okP_optWs re fl ix) (fun ix1 h1 => ?_)
  refine OkP.ite (fun _ => trivial) (fun _ => ?_)
  refine OkP.bind OkP.trivial (fun b _ => ?_)
  refine OkP.ite (fun _ => trivial) (fun _ => ?_)
  simp only [OkP_ok]; omega

theorem okP_parseDecimal (re : Bytes) (ix : Nat) :
    OkP (fun r => ∀ e v, r = some (e, v) → ix < e) (parseDecimal re ix) :=
  OkP.intro fun r hr e v he => by
    subst he
    exact (C06_parseDecimal_bounds re ix e v hr).1

/-- `parse_repeat` ends to the right of the `{` -/
theorem okP_parseRepeat (re : Bytes) (fl : Flags) (ix : Nat) :
    OkP (fun r => ix < r.1) (parseRepeat re fl ix) := by
  unfold parseRepeat
  refine OkP.bind (okP_optWs re fl (ix + 1)) (fun ix1 h1 => ?_)
  refine OkP.ite (fun _ => trivial) (fun _ => ?_)
  refine OkP.bind OkP.trivial (fun b _ => ?_)
  refine OkP.bind (P := fun p : Nat × Nat => ix1 ≤ p.2) ?_ (fun p hp => ?_)
  · refine OkP.ite (fun _ => by simp) (fun _ => ?_)
    refine OkP.bind (okP_parseDecimal re ix1) (fun r hr => ?_)
    cases r with
    | none => trivial
    | some q =>
      obtain ⟨next, lo⟩ := q
      have := hr _ _ rfl
      simp only [OkP_pure]; omega
  refine OkP.bind (okP_optWs re fl p.2) (fun ix2 h2 => ?_)
  refine OkP.ite (fun _ => trivial) (fun _ => ?_)
  refine OkP.bind OkP.trivial (fun b2 _ => ?_)
  refine OkP.bind (P := fun q : Nat × Nat => ix2 ≤ q.2) ?_ (fun q hq => ?_)
  · refine OkP.ite (fun _ => by simp) (fun _ => ?_)
    refine OkP.ite (fun _ => ?_) (fun _ => trivial)
    refine OkP.bind (okP_optWs re fl (ix2 + 1)) (fun e he => ?_)
    refine OkP.bind (okP_parseDecimal re e) (fun r hr => ?_)
    cases r with
    | none => simp only [OkP_pure]; omega
    | some q =>
      obtain ⟨next, hi⟩ := q
      have := hr _ _ rfl
      simp only [OkP_pure]; omega
  refine OkP.bind (okP_optWs re fl q.2) (fun ix3 h3 => ?_)
  refine OkP.ite (fun _ => trivial) (fun _ => ?_)
  refine OkP.bind OkP.trivial (fun b3 _ => ?_)
  refine OkP.ite (fun _ => trivial) (fun _ => ?_)
  simp only [OkP_ok]; omega

/-! ## Leaves: no group inside, counter and names untouched -/

/-- outcome of a function that reads a leaf at `ix`: not to the left, no group inside, the group
    counter and the name table untouched -/
def Leaf (st : PState) (ix : Nat) (r : Nat × Expr × PState) : Prop :=
  ix ≤ r.1 ∧ groupCount r.2.1 = 0 ∧ r.2.2.currGroup = st.currGroup ∧
    r.2.2.namedGroups = st.namedGroups

theorem Leaf.mono {st : PState} {ix ix' : Nat} {r : Nat × Expr × PState} (h : Leaf st ix' r)
    (hle : ix ≤ ix') : Leaf st ix r :=
  ⟨Nat.le_trans hle h.1, h.2⟩

theorem groupCount_mk (k : RefKind) (g : Nat) : groupCount (k.mk g) = 0 := by
  cases k <;> simp [RefKind.mk, groupCount]

theorem okP_parseNumberedBackref (re : Bytes) (st : PState) (ix : Nat) (k : RefKind) :
    OkP (Leaf st ix) (parseNumberedBackref re st ix k) := by
  unfold parseNumberedBackref
  refine OkP.bind (okP_parseDecimal re ix) (fun r hr => ?_)
  cases r with
  | none => trivial
  | some q =>
    obtain ⟨e, g⟩ := q
    have := hr _ _ rfl
    simp only
    refine OkP.ite (fun _ => ?_) (fun _ => trivial)
    exact ⟨by simp only; omega, groupCount_mk k g, rfl, rfl⟩

theorem okP_parseNamedBackref (isAlnum : Char → Bool) (re : Bytes) (st : PState) (ix : Nat)
    (open_ close : List Nat) (allowRelative : Bool) (k : RefKind) :
    OkP (Leaf st ix) (parseNamedBackref isAlnum re st ix open_ close allowRelative k) := by
  unfold parseNamedBackref
  refine OkP.bind OkP.trivial (fun _ _ => ?_)
  refine OkP.bind OkP.trivial (fun r _ => ?_)
  cases r with
  | none => trivial
  | some q =>
    obtain ⟨a, b, skip⟩ := q
    simp only
    split
    · exact ⟨by simp only; omega, groupCount_mk k _, rfl, rfl⟩
    · trivial

theorem okP_hexBraceLoop (re : Bytes) (ix starthex : Nat) : ∀ (f endhex : Nat),
    OkP (fun e => endhex ≤ e) (hexBraceLoop f re ix starthex endhex) := by
  intro f
  induction f with
  | zero => intro endhex; trivial
  | succ f ih =>
    intro endhex
    unfold hexBraceLoop
    refine OkP.ite (fun _ => trivial) (fun _ => ?_)
    split
    · trivial
    · refine OkP.ite (fun _ => by simp) (fun _ => ?_)
      refine OkP.ite (fun _ => ?_) (fun _ => trivial)
      exact (ih (endhex + 1)).mono fun e he => by omega

theorem okP_parseHex (re : Bytes) (fl : Flags) (ix digits : Nat) :
    OkP (fun r => ix ≤ r.1 ∧ groupCount r.2 = 0) (parseHex re fl ix digits) := by
  unfold parseHex
  refine OkP.ite (fun _ => trivial) (fun _ => ?_)
  refine OkP.bind OkP.trivial (fun b _ => ?_)
  refine OkP.bind (P := fun p : Nat × List Nat => ix ≤ p.1) ?_ (fun p hp => ?_)
  · refine OkP.ite (fun _ => ?_) (fun _ => ?_)
    · refine OkP.bind OkP.trivial (fun s _ => ?_)
      simp only [OkP_pure]; omega
    refine OkP.ite (fun _ => ?_) (fun _ => trivial)
    refine OkP.bind (okP_hexBraceLoop re ix (ix + 1) 16 (ix + 1)) (fun e he => ?_)
    refine OkP.bind OkP.trivial (fun s _ => ?_)
    simp only [OkP_pure]; omega
  split
  · trivial
  · refine OkP.ite (fun _ => ?_) (fun _ => trivial)
    exact ⟨hp, by simp [groupCount]⟩

theorem okP_uniNameLoop (re : Bytes) (ix : Nat) : ∀ (f end_ : Nat),
    OkP (fun e => end_ ≤ e) (uniNameLoop f re ix end_) := by
  intro f
  induction f with
  | zero => intro end_; trivial
  | succ f ih =>
    intro end_
    unfold uniNameLoop
    refine OkP.ite (fun _ => trivial) (fun _ => ?_)
    split
    · trivial
    · refine OkP.ite (fun _ => by simp) (fun _ => ?_)
      exact (ih _).mono fun e he => by omega

/-- `parse_escape` reads a leaf -/
theorem okP_parseEscape (isAlnum : Char → Bool) (re : Bytes) (st : PState) (ix : Nat)
    (inClass : Bool) : OkP (Leaf st ix) (parseEscape isAlnum re st ix inClass) := by
  unfold parseEscape
  split
  · trivial
  rename_i b hb
  have hpos := codepointLen_pos b
  simp only
  have one : ∀ (e : Expr), groupCount e = 0 →
      OkP (Leaf st ix) (.ok (ix + 1 + codepointLen b, e, st)) :=
    fun e he => ⟨by simp only; omega, he, rfl, rfl⟩
  have hexc : ∀ n, OkP (Leaf st ix) (do
      let (e, x) ← parseHex re st.flags (ix + 1 + codepointLen b) n
      Res.ok (e, x, st)) := by
    intro n
    refine OkP.bind (okP_parseHex re st.flags _ n) (fun r hr => ?_)
    obtain ⟨e, x⟩ := r
    exact ⟨by simp only at hr ⊢; omega, hr.2, rfl, rfl⟩
  refine OkP.ite (fun _ => (okP_parseNumberedBackref re st (ix + 1) .backref).mono
    fun r hr => hr.mono (by omega)) (fun _ => ?_)
  refine OkP.ite (fun _ => ?_) (fun _ => ?_)
  · refine OkP.ite (fun _ => ?_) (fun _ => ?_)
    · exact (okP_parseNamedBackref ..).mono fun r hr => hr.mono (by omega)
    · exact (okP_parseNamedBackref ..).mono fun r hr => hr.mono (by omega)
  refine OkP.ite (fun _ => one _ (by simp [groupCount])) (fun _ => ?_)
  refine OkP.ite (fun _ => one _ (by simp [groupCount])) (fun _ => ?_)
  refine OkP.ite (fun _ => one _ (by simp [groupCount])) (fun _ => ?_)
  refine OkP.ite (fun _ => ?_) (fun _ => ?_)
  · refine OkP.ite (fun _ => ?_) (fun _ => one _ (by simp [groupCount]))
    exact OkP.bind OkP.trivial (fun _ _ => trivial)
  refine OkP.ite (fun _ => ?_) (fun _ => ?_)
  · refine OkP.ite (fun _ => ?_) (fun _ => one _ (by simp [groupCount]))
    exact OkP.bind OkP.trivial (fun _ _ => trivial)
  refine OkP.ite (fun _ => one _ (by simp [groupCount])) (fun _ => ?_)
  refine OkP.ite (fun _ => one _ (by simp [groupCount])) (fun _ => ?_)
  refine OkP.ite (fun _ => ?_) (fun _ => ?_)
  · exact OkP.bind OkP.trivial (fun _ _ => one _ (by simp [groupCount]))
  refine OkP.ite (fun _ => one _ (by simp [groupCount])) (fun _ => ?_)
  refine OkP.ite (fun _ => hexc 2) (fun _ => ?_)
  refine OkP.ite (fun _ => hexc 4) (fun _ => ?_)
  refine OkP.ite (fun _ => hexc 8) (fun _ => ?_)
  refine OkP.ite (fun _ => ?_) (fun _ => ?_)
  · refine OkP.bind OkP.trivial (fun b2 _ => ?_)
    have hpos2 := codepointLen_pos b2
    refine OkP.bind (P := fun e => ix + 1 + codepointLen b ≤ e) ?_ (fun e he => ?_)
    · refine OkP.ite (fun _ => ?_) (fun _ => by simp only [OkP_pure]; omega)
      exact (okP_uniNameLoop re ix _ _).mono fun e he => by omega
    refine OkP.bind OkP.trivial (fun s _ => ?_)
    exact ⟨by simp only; omega, by simp [groupCount], rfl, rfl⟩
  refine OkP.ite (fun _ => one _ (by simp [groupCount])) (fun _ => ?_)
  refine OkP.ite (fun _ => one _ (by simp [groupCount])) (fun _ => ?_)
  refine OkP.ite (fun _ => ?_) (fun _ => ?_)
  · refine OkP.ite (fun _ => trivial) (fun _ => ?_)
    refine OkP.bind OkP.trivial (fun b2 _ => ?_)
    refine OkP.ite (fun _ => (okP_parseNumberedBackref ..).mono fun r hr => hr.mono (by omega))
      (fun _ => ?_)
    refine OkP.ite (fun _ => ?_) (fun _ => ?_)
    · exact (okP_parseNamedBackref ..).mono fun r hr => hr.mono (by omega)
    · exact (okP_parseNamedBackref ..).mono fun r hr => hr.mono (by omega)
  refine OkP.ite (fun _ => one _ (by simp [groupCount, makeLiteral])) (fun _ => ?_)
  refine OkP.ite (fun _ => one _ (by simp [groupCount, makeLiteral])) (fun _ => ?_)
  refine OkP.ite (fun _ => one _ (by simp [groupCount, makeLiteral])) (fun _ => ?_)
  refine OkP.ite (fun _ => one _ (by simp [groupCount, makeLiteral])) (fun _ => ?_)
  refine OkP.ite (fun _ => one _ (by simp [groupCount, makeLiteral])) (fun _ => ?_)
  refine OkP.ite (fun _ => one _ (by simp [groupCount, makeLiteral])) (fun _ => ?_)
  refine OkP.ite (fun _ => one _ (by simp [groupCount, makeLiteral])) (fun _ => ?_)
  refine OkP.ite (fun _ => one _ (by simp [groupCount, makeLiteral])) (fun _ => ?_)
  refine OkP.ite (fun _ => one _ (by simp [groupCount, makeLiteral])) (fun _ => ?_)
  refine OkP.bind OkP.trivial (fun s _ => ?_)
  refine OkP.ite (fun _ => trivial) (fun _ => one _ (by simp [groupCount, makeLiteral]))

/-- the loop of `parse_class`: to the right, counter and names untouched -/
theorem okP_classLoop (isAlnum : Char → Bool) (re : Bytes) : ∀ (f : Nat) (st : PState) (ix : Nat)
    (nest : Int) (rcls : List Char),
    OkP (fun r => ix ≤ r.1 ∧ r.2.2.currGroup = st.currGroup ∧ r.2.2.namedGroups = st.namedGroups)
      (classLoop isAlnum f re st ix nest rcls) := by
  intro f
  induction f with
  | zero => intro st ix nest rcls; trivial
  | succ f ih =>
    intro st ix nest rcls
    unfold classLoop
    refine OkP.ite (fun _ => trivial) (fun _ => ?_)
    split
    · trivial
    rename_i b hb
    refine OkP.ite (fun _ => ?_) (fun _ => ?_)
    · have hesc := okP_parseEscape isAlnum re st ix true
      split
      · rename_i end_ e st' heq
        rw [heq] at hesc
        obtain ⟨h1, _, h3, h4⟩ := hesc
        simp only at h1 h3 h4
        split
        · refine OkP.ite (fun _ => trivial) (fun _ => ?_)
          exact (ih st' end_ _ _).mono fun r hr => ⟨by omega, by rw [hr.2.1, h3], by rw [hr.2.2, h4]⟩
        · exact (ih st' end_ _ _).mono fun r hr => ⟨by omega, by rw [hr.2.1, h3], by rw [hr.2.2, h4]⟩
        · trivial
      all_goals trivial
    refine OkP.ite (fun _ => ?_) (fun _ => ?_)
    · exact (ih st (ix + 1) _ _).mono fun r hr => ⟨by omega, hr.2⟩
    refine OkP.ite (fun _ => ?_) (fun _ => ?_)
    · refine OkP.ite (fun _ => ⟨Nat.le_refl _, rfl, rfl⟩) (fun _ => ?_)
      exact (ih st (ix + 1) _ _).mono fun r hr => ⟨by omega, hr.2⟩
    · have hpos := codepointLen_pos b
      simp only
      split
      · exact (ih st _ _ _).mono fun r hr => ⟨by omega, hr.2⟩
      all_goals trivial

/-- `parse_class` reads a leaf -/
theorem okP_parseClass (isAlnum : Char → Bool) (re : Bytes) (st : PState) (ix : Nat) :
    OkP (Leaf st ix) (parseClass isAlnum re st ix) := by
  unfold parseClass
  simp only
  refine OkP.bind (okP_classLoop isAlnum re _ st _ _ _) (fun r hr => ?_)
  obtain ⟨ix', rcls, st'⟩ := r
  obtain ⟨h1, h2, h3⟩ := hr
  simp only at h1 h2 h3 ⊢
  refine ⟨?_, by simp [groupCount], h2, h3⟩
  simp only
  have : ix + 1 ≤ ix' := by
    refine Nat.le_trans ?_ h1
    split <;> split <;> simp only <;> omega
  omega

/-- the letter loop of `parse_flags` stops to the right -/
theorem okP_flagsLoop (re : Bytes) (start : Nat) : ∀ (f : Nat) (fl : Flags) (ix : Nat) (neg : Bool),
    OkP (fun r => match r.1 with | .close i => ix ≤ i | .colon i => ix ≤ i)
      (flagsLoop f re fl start ix neg) := by
  intro f
  induction f with
  | zero => intro fl ix neg; trivial
  | succ f ih =>
    intro fl ix neg
    unfold flagsLoop
    have hws := okP_optWs re fl ix
    split
    · rename_i ix1 heq
      rw [heq] at hws
      simp only [OkP_ok] at hws
      refine OkP.ite (fun _ => trivial) (fun _ => ?_)
      split
      · trivial
      have next : ∀ fl' neg', OkP (fun r => match r.1 with | .close i => ix ≤ i | .colon i => ix ≤ i)
          (flagsLoop f re fl' start (ix1 + 1) neg') := fun fl' neg' =>
        (ih fl' (ix1 + 1) neg').mono fun r hr => by
          cases hr1 : r.1 <;> rw [hr1] at hr <;> simp only at hr ⊢ <;> omega
      have unk : ∀ i, OkP (fun r : FlagsEnd × Flags => match r.1 with | .close i => ix ≤ i | .colon i => ix ≤ i)
          (match unknownFlag re start i with
            | .ok e => .err e start
            | .err k p => .err k p | .cerr => .cerr | .panic s => .panic s | .outOfFuel => .outOfFuel) := by
        intro i; split <;> trivial
      refine OkP.ite (fun _ => next _ _) (fun _ => ?_)
      refine OkP.ite (fun _ => OkP.ite (fun _ => trivial) (fun _ => next _ _)) (fun _ => ?_)
      refine OkP.ite (fun _ => OkP.ite (fun _ => unk _) (fun _ => next _ _)) (fun _ => ?_)
      refine OkP.ite (fun _ => OkP.ite (fun _ => unk _) (fun _ => hws)) (fun _ => ?_)
      refine OkP.ite (fun _ => OkP.ite (fun _ => unk _) (fun _ => hws)) (fun _ => unk _)
    all_goals trivial

/-- `parse_id`: the consumed length is more than the two delimiters (the name is not empty) -/
theorem okP_parseId (isAlnum : Char → Bool) (re : Bytes) (base : Nat) (open_ close : List Nat)
    (allowRelative : Bool) :
    OkP (fun r => ∀ a b skip, r = some (a, b, skip) → open_.length + close.length < skip)
      (parseId isAlnum re base open_ close allowRelative) := by
  unfold parseId
  refine OkP.ite (fun _ => trivial) (fun _ => ?_)
  refine OkP.ite (fun _ => by simp) (fun _ => ?_)
  refine OkP.bind OkP.trivial (fun _ _ => ?_)
  refine OkP.bind OkP.trivial (fun afterId _ => ?_)
  refine OkP.bind OkP.trivial (fun idLen _ => ?_)
  split
  · simp
  · simp
  · rename_i l hl0
    refine OkP.ite (fun _ => trivial) (fun _ => ?_)
    simp only [OkP_ok, Option.some.injEq, Prod.mk.injEq]
    rintro a b skip ⟨rfl, rfl, rfl⟩
    have : l ≠ 0 := fun h => hl0 (by rw [h])
    omega

/-! ## The name table as a function of the groups' names, in opening order -/

abbrev Name := List Nat
abbrev Names := List (List Nat × Nat)

/-- the table after the groups `base+1, base+2, …` have been opened, the `i`-th of them carrying
    the name `ann[i]` (or none): each named group does `named_groups.insert(name, curr_group)` -/
def bindNames (m : Names) (base : Nat) : List (Option Name) → Names
  | [] => m
  | none :: as => bindNames m (base + 1) as
  | some nm :: as => bindNames (namedInsert m nm (base + 1)) (base + 1) as

theorem bindNames_append (a1 : List (Option Name)) : ∀ (m : Names) (base : Nat) (a2 : List (Option Name)),
    bindNames m base (a1 ++ a2) = bindNames (bindNames m base a1) (base + a1.length) a2 := by
  induction a1 with
  | nil => intro m base a2; rfl
  | cons a as ih =>
    intro m base a2
    cases a with
    | none =>
      simp only [List.cons_append, bindNames, List.length_cons]
      rw [ih]; congr 1; omega
    | some nm =>
      simp only [List.cons_append, bindNames, List.length_cons]
      rw [ih]; congr 1; omega

/-- the group counter goes from `c` to `c' = c + n` and the table from `m` to `m'` by opening `n`
    groups in order -/
def Thr (c : Nat) (m : Names) (c' : Nat) (m' : Names) (n : Nat) : Prop :=
  c' = c + n ∧ ∃ ann : List (Option Name), ann.length = n ∧ m' = bindNames m c ann

theorem Thr.refl (c : Nat) (m : Names) : Thr c m c m 0 := ⟨rfl, [], rfl, rfl⟩

theorem Thr.trans {c c1 c2 : Nat} {m m1 m2 : Names} {n1 n2 : Nat} (h1 : Thr c m c1 m1 n1)
    (h2 : Thr c1 m1 c2 m2 n2) : Thr c m c2 m2 (n1 + n2) := by
  obtain ⟨e1, a1, l1, b1⟩ := h1
  obtain ⟨e2, a2, l2, b2⟩ := h2
  refine ⟨by omega, a1 ++ a2, by simp [l1, l2], ?_⟩
  rw [bindNames_append, ← b1, l1, ← e1]; exact b2

theorem Thr.cast {c c' : Nat} {m m' : Names} {n n' : Nat} (h : Thr c m c' m' n) (hn : n = n') :
    Thr c m c' m' n' := hn ▸ h

/-- opening an unnamed capture group -/
theorem Thr.group {c c' : Nat} {m m' : Names} {n : Nat} (h : Thr (c + 1) m c' m' n) :
    Thr c m c' m' (n + 1) := by
  obtain ⟨e, a, l, b⟩ := h
  exact ⟨by omega, none :: a, by simp [l], by simpa [bindNames] using b⟩

/-- opening a named capture group -/
theorem Thr.named {c c' : Nat} {m m' : Names} {n : Nat} (nm : Name)
    (h : Thr (c + 1) (namedInsert m nm (c + 1)) c' m' n) : Thr c m c' m' (n + 1) := by
  obtain ⟨e, a, l, b⟩ := h
  exact ⟨by omega, some nm :: a, by simp [l], by simpa [bindNames] using b⟩

/-- outcome of a descent function started at `ix` in state `st`: not to the left — strictly to the
    right when a group was opened —, the counter has advanced by the number of groups of the tree,
    the table has been extended by their names in opening order -/
def Inv (st : PState) (ix : Nat) (r : Nat × Expr × PState) : Prop :=
  ix ≤ r.1 ∧ (0 < groupCount r.2.1 → ix < r.1) ∧
    Thr st.currGroup st.namedGroups r.2.2.currGroup r.2.2.namedGroups (groupCount r.2.1)

/-- the same for the two loops -/
def InvL (st : PState) (ix : Nat) (r : Nat × List Expr × PState) : Prop :=
  ix ≤ r.1 ∧ (0 < groupCountList r.2.1 → ix < r.1) ∧
    Thr st.currGroup st.namedGroups r.2.2.currGroup r.2.2.namedGroups (groupCountList r.2.1)

theorem Leaf.inv {st : PState} {ix : Nat} {r : Nat × Expr × PState} (h : Leaf st ix r) :
    Inv st ix r := by
  obtain ⟨h1, h2, h3, h4⟩ := h
  refine ⟨h1, by omega, ?_⟩
  rw [h2, h3, h4]; exact Thr.refl _ _

theorem Inv.mono {st : PState} {ix ix' : Nat} {r : Nat × Expr × PState} (h : Inv st ix' r)
    (hle : ix ≤ ix') : Inv st ix r :=
  ⟨Nat.le_trans hle h.1, fun hp => Nat.lt_of_le_of_lt hle (h.2.1 hp), h.2.2⟩

/-- same groups, further right, same counter and table -/
theorem Inv.reshape {st st1 st' : PState} {ix ix1 ix' : Nat} {child e' : Expr}
    (h : Inv st ix (ix1, child, st1)) (hle : ix1 ≤ ix') (hc : groupCount e' = groupCount child)
    (hcg : st'.currGroup = st1.currGroup) (hng : st'.namedGroups = st1.namedGroups) :
    Inv st ix (ix', e', st') := by
  obtain ⟨h1, h2, h3⟩ := h
  simp only at h1 h2 h3
  refine ⟨by simp only; omega, ?_, ?_⟩
  · simp only; rw [hc]; intro hp; have := h2 hp; omega
  · simp only; rw [hc, hcg, hng]; exact h3

theorem groupCount_of_isEmpty {e : Expr} (h : e.isEmpty = true) : groupCount e = 0 := by
  cases e <;> simp [Expr.isEmpty] at h <;> simp [groupCount]

/-- the induction hypothesis of the descent: all functions at fuel `f` -/
structure Desc16 (re : Bytes) (isAlnum : Char → Bool) (f : Nat) : Prop where
  re_ : ∀ st ix d, OkP (Inv st ix) (parseRe isAlnum f re st ix d)
  alt_ : ∀ st ix d, OkP (InvL st ix) (reAltLoop isAlnum f re st ix d)
  branch_ : ∀ st ix d, OkP (Inv st ix) (parseBranch isAlnum f re st ix d)
  bloop_ : ∀ st ix d, OkP (InvL st ix) (branchLoop isAlnum f re st ix d)
  piece_ : ∀ st ix d, OkP (Inv st ix) (parsePiece isAlnum f re st ix d)
  atom_ : ∀ st ix d, OkP (Inv st ix) (parseAtom isAlnum f re st ix d)
  group_ : ∀ st ix d, OkP (Inv st ix) (parseGroup isAlnum f re st ix d)
  flags_ : ∀ st ix d, OkP (Inv st ix) (parseFlags isAlnum f re st ix d)
  cond_ : ∀ st ix d, OkP (Inv st ix) (parseConditional isAlnum f re st ix d)

section steps
variable {re : Bytes} {isAlnum : Char → Bool}

theorem step16_parseRe {f : Nat} (h : Desc16 re isAlnum f) (st : PState) (ix d : Nat) :
    OkP (Inv st ix) (parseRe isAlnum (f + 1) re st ix d) := by
  unfold parseRe
  refine OkP.bind (h.branch_ st ix d) (fun r hr => ?_)
  obtain ⟨ix1, child, st1⟩ := r
  obtain ⟨h1, h2, h3⟩ := hr
  try simp only at h1 h2 h3 ⊢
  refine OkP.bind (okP_optWs re _ ix1) (fun ix2 h4 => ?_)
  refine OkP.bind OkP.trivial (fun _ _ => ?_)
  refine OkP.ite (fun _ => ?_) (fun _ => ?_)
  · refine OkP.bind (h.alt_ st1 ix2 d) (fun r hr => ?_)
    obtain ⟨ix3, rest, st3⟩ := r
    obtain ⟨h5, h6, h7⟩ := hr
    try simp only at h5 h6 h7 ⊢
    refine ⟨by simp only; omega, ?_, ?_⟩
    · simp only [groupCount, groupCountList]; omega
    · simp only [groupCount, groupCountList]; exact h3.trans h7
  · try simp only
    refine OkP.ite (fun _ => trivial) (fun _ => ?_)
    exact ⟨by simp only; omega, by simp only; omega, h3⟩

theorem step16_reAltLoop {f : Nat} (h : Desc16 re isAlnum f) (st : PState) (ix d : Nat) :
    OkP (InvL st ix) (reAltLoop isAlnum (f + 1) re st ix d) := by
  unfold reAltLoop
  refine OkP.bind OkP.trivial (fun _ _ => ?_)
  refine OkP.ite (fun _ => ?_) (fun _ => ⟨Nat.le_refl _, by simp [groupCountList], by
    simp only [groupCountList]; exact Thr.refl _ _⟩)
  refine OkP.bind (h.branch_ st (ix + 1) d) (fun r hr => ?_)
  obtain ⟨ix1, child, st1⟩ := r
  obtain ⟨h1, h2, h3⟩ := hr
  try simp only at h1 h2 h3 ⊢
  refine OkP.bind (okP_optWs re _ ix1) (fun ix2 h4 => ?_)
  refine OkP.bind (h.alt_ st1 ix2 d) (fun r hr => ?_)
  obtain ⟨ix3, rest, st3⟩ := r
  obtain ⟨h5, h6, h7⟩ := hr
  try simp only at h5 h6 h7 ⊢
  refine ⟨by simp only; omega, ?_, ?_⟩
  · simp only [groupCountList]; omega
  · simp only [groupCountList]; exact h3.trans h7

theorem step16_parseBranch {f : Nat} (h : Desc16 re isAlnum f) (st : PState) (ix d : Nat) :
    OkP (Inv st ix) (parseBranch isAlnum (f + 1) re st ix d) := by
  unfold parseBranch
  refine OkP.bind (h.bloop_ st ix d) (fun r hr => ?_)
  obtain ⟨ix1, children, st1⟩ := r
  obtain ⟨h1, h2, h3⟩ := hr
  try simp only at h1 h2 h3 ⊢
  match children, h2, h3 with
  | [], _, h3 => exact ⟨h1, by simp [groupCount], by simpa [groupCount, groupCountList] using h3⟩
  | [c], h2, h3 =>
    simp only [groupCountList, Nat.add_zero] at h2 h3
    exact ⟨h1, h2, h3⟩
  | c1 :: c2 :: cs, h2, h3 => exact ⟨h1, by simpa only [groupCount] using h2, by simpa only [groupCount] using h3⟩

theorem step16_branchLoop {f : Nat} (h : Desc16 re isAlnum f) (st : PState) (ix d : Nat) :
    OkP (InvL st ix) (branchLoop isAlnum (f + 1) re st ix d) := by
  unfold branchLoop
  refine OkP.ite (fun _ => ?_) (fun _ => ⟨Nat.le_refl _, by simp [groupCountList], by
    simp only [groupCountList]; exact Thr.refl _ _⟩)
  refine OkP.bind (h.piece_ st ix d) (fun r hr => ?_)
  obtain ⟨next, child, st1⟩ := r
  obtain ⟨h1, h2, h3⟩ := hr
  try simp only at h1 h2 h3 ⊢
  refine OkP.ite (fun hnx => ?_) (fun hnx => ?_)
  · -- the piece is dropped: it consumed nothing, so it holds no group
    have hnx' : next = ix := by simpa using hnx
    have hz : groupCount child = 0 := by
      rcases Nat.eq_zero_or_pos (groupCount child) with hz | hp
      · exact hz
      · have := h2 hp; omega
    rw [hz] at h3
    exact ⟨Nat.le_refl _, by simp [groupCountList], by simpa only [groupCountList] using h3⟩
  refine OkP.bind (h.bloop_ st1 next d) (fun r hr => ?_)
  obtain ⟨ix3, rest, st3⟩ := r
  obtain ⟨h5, h6, h7⟩ := hr
  try simp only at h5 h6 h7 ⊢
  have hcount : groupCountList (if child.isEmpty = true then rest else child :: rest) =
      groupCount child + groupCountList rest := by
    split
    · rename_i he; rw [groupCount_of_isEmpty he]; omega
    · simp only [groupCountList]
  refine ⟨by simp only; omega, ?_, ?_⟩
  · simp only; rw [hcount]; omega
  · simp only; rw [hcount]; exact h3.trans h7

theorem step16_parsePiece {f : Nat} (h : Desc16 re isAlnum f) (st : PState) (ix d : Nat) :
    OkP (Inv st ix) (parsePiece isAlnum (f + 1) re st ix d) := by
  unfold parsePiece
  refine OkP.bind (h.atom_ st ix d) (fun r hr => ?_)
  obtain ⟨ix1, child, st1⟩ := r
  try simp only at hr ⊢
  refine OkP.bind (okP_optWs re _ ix1) (fun ix2 h4 => ?_)
  refine OkP.ite (fun hlt => ?_) (fun _ => hr.reshape h4 rfl rfl rfl)
  refine OkP.bind OkP.trivial (fun b _ => ?_)
  refine OkP.bind (P := fun q => ∀ lo hi i, q = some (lo, hi, i) → ix2 ≤ i) ?_ (fun q hq => ?_)
  · have q0 : ∀ lo hi, OkP (fun q => ∀ lo hi i, q = some (lo, hi, i) → ix2 ≤ i)
        (pure (some (lo, hi, ix2)) : Res (Option (Nat × Nat × Nat))) := by
      intro lo hi lo' hi' i hi2
      cases hi2
      exact Nat.le_refl _
    refine OkP.ite (fun _ => q0 _ _) (fun _ => ?_)
    refine OkP.ite (fun _ => q0 _ _) (fun _ => ?_)
    refine OkP.ite (fun _ => q0 _ _) (fun _ => ?_)
    refine OkP.ite (fun _ => ?_) (fun _ => by intro lo hi i hi2; cases hi2)
    have hrep := okP_parseRepeat re st1.flags ix2
    cases hres : parseRepeat re st1.flags ix2 with
    | ok r =>
      rw [hres] at hrep
      obtain ⟨next, lo, hi⟩ := r
      simp only [OkP_ok] at hrep
      simp only
      refine OkP.ite (fun _ => trivial) (fun _ => ?_)
      intro lo' hi' i hi2
      cases hi2
      omega
    | err k p => intro lo hi i hi2; cases hi2
    | cerr => intro lo hi i hi2; cases hi2
    | panic s => trivial
    | outOfFuel => trivial
  · cases q with
    | none => exact hr.reshape h4 rfl rfl rfl
    | some p =>
      obtain ⟨lo, hi, i⟩ := p
      have hq1 := hq _ _ _ rfl
      simp only
      refine OkP.ite (fun _ => trivial) (fun _ => ?_)
      refine OkP.bind (okP_optWs re _ (i + 1)) (fun ix3 h6 => ?_)
      have hle4 : ix3 ≤
          (if (decide (ix3 < re.size) && re[ix3]? == some (ch '?')) = true then ix3 + 1 else ix3) := by
        split <;> omega
      generalize (if (decide (ix3 < re.size) && re[ix3]? == some (ch '?')) = true then ix3 + 1 else ix3)
        = ix4 at hle4 ⊢
      refine OkP.ite (fun _ => ?_) (fun _ => ?_)
      · exact hr.reshape (by omega) (by simp only [groupCount]) rfl rfl
      · exact hr.reshape (by omega) (by simp only [groupCount]) rfl rfl

theorem step16_parseAtom {f : Nat} (h : Desc16 re isAlnum f) (st : PState) (ix d : Nat) :
    OkP (Inv st ix) (parseAtom isAlnum (f + 1) re st ix d) := by
  unfold parseAtom
  refine OkP.bind (okP_optWs re _ ix) (fun ix1 h1 => ?_)
  have leaf : ∀ (ix' : Nat) (e : Expr), ix1 ≤ ix' → groupCount e = 0 →
      OkP (Inv st ix) (.ok (ix', e, st)) :=
    fun ix' e hle he => Leaf.inv ⟨by simp only; omega, he, rfl, rfl⟩
  refine OkP.ite (fun _ => leaf _ _ (Nat.le_refl _) (by simp [groupCount])) (fun _ => ?_)
  refine OkP.bind OkP.trivial (fun b _ => ?_)
  refine OkP.ite (fun _ => leaf _ _ (by omega) (by simp [groupCount])) (fun _ => ?_)
  refine OkP.ite (fun _ => leaf _ _ (by omega) (by simp [groupCount])) (fun _ => ?_)
  refine OkP.ite (fun _ => leaf _ _ (by omega) (by simp [groupCount])) (fun _ => ?_)
  refine OkP.ite (fun _ => (h.group_ st ix1 d).mono fun r hr => hr.mono h1) (fun _ => ?_)
  refine OkP.ite (fun _ => (okP_parseEscape isAlnum re st ix1 false).mono fun r hr =>
    (hr.mono h1).inv) (fun _ => ?_)
  refine OkP.ite (fun _ => leaf _ _ (Nat.le_refl _) (by simp [groupCount])) (fun _ => ?_)
  refine OkP.ite (fun _ => (okP_parseClass isAlnum re st ix1).mono fun r hr =>
    (hr.mono h1).inv) (fun _ => ?_)
  refine OkP.bind OkP.trivial (fun s _ => ?_)
  exact leaf _ _ (by omega) (by simp [groupCount])

theorem inv_of_body {st : PState} {ix n : Nat} {r : Nat × Expr × PState} (hlt : ix < r.1)
    (he : groupCount r.2.1 = n)
    (hthr : Thr st.currGroup st.namedGroups r.2.2.currGroup r.2.2.namedGroups n) : Inv st ix r :=
  ⟨Nat.le_of_lt hlt, fun _ => hlt, he ▸ hthr⟩

/-- what the common tail of `parse_group` (`parse_re`, `check_for_close_paren`, the node) returns -/
def BodyOut (ix : Nat) (la : Option Look) (skip : Nat) (st' : PState) (r : Nat × Expr × PState) :
    Prop :=
  ix < r.1 ∧ ∃ child, r.2.1 = (match la with
      | some la => Expr.look child la
      | none => if skip == 2 then Expr.atomic child else Expr.group 0 child) ∧
    Thr st'.currGroup st'.namedGroups r.2.2.currGroup r.2.2.namedGroups (groupCount child)

theorem step16_parseGroup {f : Nat} (h : Desc16 re isAlnum f) (st : PState) (ix d : Nat) :
    OkP (Inv st ix) (parseGroup isAlnum (f + 1) re st ix d) := by
  unfold parseGroup
  refine OkP.ite (fun _ => trivial) (fun hd => ?_)
  refine OkP.bind (okP_optWs re _ (ix + 1)) (fun ix1 h1 => ?_)
  refine OkP.bind OkP.trivial (fun _ _ => ?_)
  extract_lets body st2
  have hbody : ∀ la skip st', OkP (BodyOut ix la skip st') (body la skip st') := by
    intro la skip st'
    simp only [body]
    refine OkP.bind (h.re_ st' (ix1 + skip) (d + 1)) (fun r hr => ?_)
    obtain ⟨ix2, child, st3⟩ := r
    obtain ⟨h2, _, h4⟩ := hr
    try simp only at h2 h4 ⊢
    refine OkP.bind (okP_checkForCloseParen re _ ix2) (fun ix3 h5 => ?_)
    cases la with
    | some la => exact ⟨by simp only; omega, child, rfl, h4⟩
    | none =>
      simp only
      refine OkP.ite (fun hs => ?_) (fun hs => ?_)
      · exact ⟨by simp only; omega, child, by simp [hs], h4⟩
      · exact ⟨by simp only; omega, child, by simp [hs], h4⟩
  clear_value body
  -- a named group: `curr_group += 1`, then `named_groups.insert(name, curr_group)`
  have named : ∀ (nm : Name) (skip : Nat), 2 < skip →
      OkP (Inv st ix) (body none skip
        { st2 with namedGroups := namedInsert st2.namedGroups nm st2.currGroup }) := by
    intro nm skip hskip
    refine (hbody none skip _).mono fun r hr => ?_
    obtain ⟨hlt, child, he, hthr⟩ := hr
    have hne : (skip == 2) = false := by simp; omega
    simp only [hne] at he
    refine inv_of_body hlt (n := groupCount child + 1) (by rw [he]; simp [groupCount]) ?_
    exact Thr.named nm hthr
  cases hlook : lookOf re ix1 with
  | some p =>
    obtain ⟨la, skip⟩ := p
    simp only
    refine (hbody (some la) skip st).mono fun r hr => ?_
    obtain ⟨hlt, child, he, hthr⟩ := hr
    exact inv_of_body hlt (by rw [he]; simp [groupCount]) hthr
  | none =>
    simp only
    -- (?<name>
    refine OkP.ite (fun _ => ?_) (fun _ => ?_)
    · refine OkP.bind OkP.trivial (fun _ _ => ?_)
      refine OkP.bind (okP_parseId isAlnum re _ _ _ _) (fun r hr => ?_)
      cases r with
      | none => trivial
      | some p =>
        obtain ⟨a, b, skip⟩ := p
        have := hr _ _ _ rfl
        simp only [List.length_cons, List.length_nil] at this
        simp only
        exact named _ _ (by omega)
    -- (?P<name>
    refine OkP.ite (fun _ => ?_) (fun _ => ?_)
    · refine OkP.bind OkP.trivial (fun _ _ => ?_)
      refine OkP.bind (okP_parseId isAlnum re _ _ _ _) (fun r hr => ?_)
      cases r with
      | none => trivial
      | some p =>
        obtain ⟨a, b, skip⟩ := p
        have := hr _ _ _ rfl
        simp only [List.length_cons, List.length_nil] at this
        simp only
        exact named _ _ (by omega)
    -- (?P=name)
    refine OkP.ite (fun _ => ?_) (fun _ => ?_)
    · exact (okP_parseNamedBackref ..).mono fun r hr => (hr.mono (by omega)).inv
    -- (?>
    refine OkP.ite (fun _ => ?_) (fun _ => ?_)
    · refine (hbody none 2 st).mono fun r hr => ?_
      obtain ⟨hlt, child, he, hthr⟩ := hr
      exact inv_of_body hlt (by rw [he]; simp [groupCount]) hthr
    -- (?(
    refine OkP.ite (fun _ => ?_) (fun _ => ?_)
    · exact (h.cond_ st _ (d + 1)).mono fun r hr => hr.mono (by omega)
    -- (?P>name)
    refine OkP.ite (fun _ => ?_) (fun _ => ?_)
    · exact (okP_parseNamedBackref ..).mono fun r hr => (hr.mono (by omega)).inv
    -- (?flags
    refine OkP.ite (fun _ => ?_) (fun _ => ?_)
    · exact (h.flags_ st ix1 (d + 1)).mono fun r hr => hr.mono (by omega)
    -- a plain capture group: `curr_group += 1`
    · refine (hbody none 0 st2).mono fun r hr => ?_
      obtain ⟨hlt, child, he, hthr⟩ := hr
      have hne : ((0 : Nat) == 2) = false := by decide
      simp only [hne] at he
      refine inv_of_body hlt (n := groupCount child + 1) (by rw [he]; simp [groupCount]) ?_
      exact Thr.group hthr

theorem step16_parseFlags {f : Nat} (h : Desc16 re isAlnum f) (st : PState) (ix d : Nat) :
    OkP (Inv st ix) (parseFlags isAlnum (f + 1) re st ix d) := by
  unfold parseFlags
  refine OkP.bind (okP_flagsLoop re (ix + 1) (re.size + 2) st.flags (ix + 1) false) (fun r hr => ?_)
  obtain ⟨e, fl⟩ := r
  try simp only at hr ⊢
  cases e with
  | close i =>
    simp only at hr ⊢
    exact Leaf.inv ⟨by simp only; omega, by simp [groupCount], rfl, rfl⟩
  | colon i =>
    simp only at hr ⊢
    refine OkP.bind (h.re_ _ (i + 1) d) (fun r hr2 => ?_)
    obtain ⟨ix2, child, st2⟩ := r
    try simp only at hr2 ⊢
    refine OkP.ite (fun _ => trivial) (fun _ => ?_)
    refine OkP.bind OkP.trivial (fun b _ => ?_)
    refine OkP.ite (fun _ => trivial) (fun _ => ?_)
    have hr3 : Inv st (i + 1) (ix2, child, st2) := hr2
    exact (hr3.reshape (Nat.le_succ _) rfl rfl rfl).mono (by omega)

theorem step16_parseConditional {f : Nat} (h : Desc16 re isAlnum f) (st : PState) (ix d : Nat) :
    OkP (Inv st ix) (parseConditional isAlnum (f + 1) re st ix d) := by
  unfold parseConditional
  refine OkP.ite (fun _ => trivial) (fun _ => ?_)
  refine OkP.bind OkP.trivial (fun b _ => ?_)
  refine OkP.bind (P := Inv st ix) ?_ (fun r hr => ?_)
  · refine OkP.ite (fun _ => ?_) (fun _ => ?_)
    · exact (okP_parseNumberedBackref ..).mono fun r hr => hr.inv
    refine OkP.ite (fun _ => ?_) (fun _ => ?_)
    · exact (okP_parseNamedBackref ..).mono fun r hr => hr.inv
    refine OkP.ite (fun _ => ?_) (fun _ => ?_)
    · exact (okP_parseNamedBackref ..).mono fun r hr => hr.inv
    · exact h.re_ st ix d
  obtain ⟨next, condition, st1⟩ := r
  obtain ⟨h1, _, h3⟩ := hr
  try simp only at h1 h3 ⊢
  refine OkP.bind (okP_checkForCloseParen re _ next) (fun next2 h4 => ?_)
  refine OkP.bind (h.re_ st1 next2 d) (fun r hr => ?_)
  obtain ⟨end_, child, st2⟩ := r
  obtain ⟨h5, h6, h7⟩ := hr
  try simp only at h5 h6 h7 ⊢
  refine OkP.ite (fun heq => ?_) (fun _ => ?_)
  · -- `(?(1))`: the body is dropped: it consumed nothing, so it holds no group
    have heq' : end_ = next2 := by simpa using heq
    have hz : groupCount child = 0 := by
      rcases Nat.eq_zero_or_pos (groupCount child) with hz | hp
      · exact hz
      · have := h6 hp; omega
    rw [hz] at h7
    split
    · refine OkP.bind (okP_checkForCloseParen re _ end_) (fun after h8 => ?_)
      refine inv_of_body (n := 0) (by simp only; omega) (by simp [groupCount]) ?_
      simp only [groupCount] at h3
      exact h3.trans h7
    · trivial
  · refine OkP.bind (P := fun br : Expr × Expr =>
        groupCount br.1 + groupCount br.2 = groupCount child ∧
        (st2.lastReHadAlt = false → br.1 = child)) ?_ (fun br hbr => ?_)
    · split
      · -- `Expr::Alt(alternatives) if has_else`
        rename_i alternatives helse
        cases alternatives with
        | nil => trivial
        | cons t rest =>
          simp only
          split
          · rename_i e
            exact ⟨by simp [groupCount, groupCountList], by simp [helse]⟩
          · exact ⟨by simp [groupCount, groupCountList], by simp [helse]⟩
      · exact ⟨by simp [groupCount], fun _ => rfl⟩
    · have hbr1 := hbr.1
      refine OkP.bind (okP_checkForCloseParen re _ end_) (fun after h8 => ?_)
      refine OkP.ite (fun hc => ?_) (fun _ => ?_)
      · -- no else and an empty "then": the whole conditional is its condition
        have hc' := (Bool.and_eq_true _ _).mp hc
        have hne : st2.lastReHadAlt = false := by simpa using hc'.1
        have hz : groupCount child = 0 := by
          rw [← hbr.2 hne]; exact groupCount_of_isEmpty hc'.2
        rw [hz] at h7
        refine inv_of_body (n := groupCount condition + 0) (by simp only; omega) ?_ (h3.trans h7)
        simp only
        split
        · simp [groupCount]
        · rfl
      · refine inv_of_body (n := groupCount condition + groupCount child) (by simp only; omega) ?_ ?_
        · simp only [groupCount]
          split
          · simp only [groupCount]; omega
          · omega
        · exact h3.trans h7

end steps

/-- **the invariant of the recursive descent**, for every fuel, every byte string, every state,
    index and depth -/
theorem desc16 (re : Bytes) (isAlnum : Char → Bool) : ∀ f, Desc16 re isAlnum f := by
  intro f
  induction f with
  | zero =>
    constructor <;> intro st ix d
    · unfold parseRe; trivial
    · unfold reAltLoop; trivial
    · unfold parseBranch; trivial
    · unfold branchLoop; trivial
    · unfold parsePiece; trivial
    · unfold parseAtom; trivial
    · unfold parseGroup; trivial
    · unfold parseFlags; trivial
    · unfold parseConditional; trivial
  | succ f ih =>
    exact {
      re_ := step16_parseRe ih
      alt_ := step16_reAltLoop ih
      branch_ := step16_parseBranch ih
      bloop_ := step16_branchLoop ih
      piece_ := step16_parsePiece ih
      atom_ := step16_parseAtom ih
      group_ := step16_parseGroup ih
      flags_ := step16_parseFlags ih
      cond_ := step16_parseConditional ih }

/-! ## What the table holds, in terms of the groups' names -/

theorem mem_namedInsert {m : Names} {n0 nm : Name} {v k : Nat} :
    (nm, k) ∈ namedInsert m n0 v ↔ (nm = n0 ∧ k = v) ∨ ((nm, k) ∈ m ∧ nm ≠ n0) := by
  simp only [namedInsert, List.mem_cons, Prod.mk.injEq, List.mem_filter, bne_iff_ne, ne_eq]

/-- **the table, entry by entry**: `(name, k)` is in the table after the groups `base+1, …` have
    been opened iff group `k` is one of them, carries that name, and no later group does — or the
    entry was there before and none of the new groups carries that name -/
theorem mem_bindNames (ann : List (Option Name)) : ∀ (m : Names) (base : Nat) (nm : Name) (k : Nat),
    (nm, k) ∈ bindNames m base ann ↔
      (base < k ∧ ann[k - base - 1]? = some (some nm) ∧ some nm ∉ ann.drop (k - base)) ∨
      ((nm, k) ∈ m ∧ some nm ∉ ann) := by
  induction ann with
  | nil => intro m base nm k; simp [bindNames]
  | cons a as ih =>
    intro m base nm k
    have hdrop : base + 1 < k → (a :: as).drop (k - base) = as.drop (k - (base + 1)) := by
      intro hk
      rw [show k - base = (k - (base + 1)) + 1 by omega, List.drop_succ_cons]
    have hget : base + 1 < k → (a :: as)[k - base - 1]? = as[k - (base + 1) - 1]? := by
      intro hk
      rw [show k - base - 1 = (k - (base + 1) - 1) + 1 by omega, List.getElem?_cons_succ]
    cases a with
    | none =>
      simp only [bindNames]
      rw [ih]
      constructor
      · rintro (⟨h1, h2, h3⟩ | ⟨h1, h2⟩)
        · exact Or.inl ⟨by omega, by rw [hget h1]; exact h2, by rw [hdrop h1]; exact h3⟩
        · exact Or.inr ⟨h1, by simpa using h2⟩
      · rintro (⟨h1, h2, h3⟩ | ⟨h1, h2⟩)
        · by_cases hk : base + 1 < k
          · exact Or.inl ⟨hk, by rw [← hget hk]; exact h2, by rw [← hdrop hk]; exact h3⟩
          · have : k - base - 1 = 0 := by omega
            rw [this] at h2; simp at h2
        · exact Or.inr ⟨h1, by simpa using h2⟩
    | some n0 =>
      simp only [bindNames]
      rw [ih, mem_namedInsert]
      constructor
      · rintro (⟨h1, h2, h3⟩ | ⟨(⟨h1, h2⟩ | ⟨h1, h2⟩), h3⟩)
        · exact Or.inl ⟨by omega, by rw [hget h1]; exact h2, by rw [hdrop h1]; exact h3⟩
        · subst h1; subst h2
          refine Or.inl ⟨by omega, by simp, ?_⟩
          rw [show base + 1 - base = 1 by omega]
          simpa using h3
        · refine Or.inr ⟨h1, ?_⟩
          simp only [List.mem_cons, Option.some.injEq, not_or]
          exact ⟨h2, h3⟩
      · rintro (⟨h1, h2, h3⟩ | ⟨h1, h2⟩)
        · by_cases hk : base + 1 < k
          · exact Or.inl ⟨hk, by rw [← hget hk]; exact h2, by rw [← hdrop hk]; exact h3⟩
          · have hk1 : k = base + 1 := by omega
            subst hk1
            rw [show base + 1 - base - 1 = 0 by omega] at h2
            rw [show base + 1 - base = 1 by omega] at h3
            simp only [List.getElem?_cons_zero, Option.some.injEq] at h2
            subst h2
            exact Or.inr ⟨Or.inl ⟨rfl, rfl⟩, by simpa using h3⟩
        · simp only [List.mem_cons, Option.some.injEq, not_or] at h2
          exact Or.inr ⟨Or.inr ⟨h1, h2.1⟩, h2.2⟩

/-- the table is an association list: no name twice -/
theorem namedInsert_nodup {m : Names} (h : (m.map (·.1)).Nodup) (nm : Name) (v : Nat) :
    ((namedInsert m nm v).map (·.1)).Nodup := by
  simp only [namedInsert, List.map_cons, List.nodup_cons, List.mem_map, List.mem_filter,
    bne_iff_ne, ne_eq, not_exists, not_and]
  refine ⟨fun e he => fun h2 => he.2 h2, ?_⟩
  exact (List.Nodup.sublist (List.Sublist.map _ List.filter_sublist) h)

theorem bindNames_nodup (ann : List (Option Name)) : ∀ (m : Names) (base : Nat),
    (m.map (·.1)).Nodup → ((bindNames m base ann).map (·.1)).Nodup := by
  induction ann with
  | nil => intro m base h; exact h
  | cons a as ih =>
    intro m base h
    cases a with
    | none => exact ih m _ h
    | some nm => exact ih _ _ (namedInsert_nodup h nm _)

/-! ## Part 1 — the parser's group counter is the analyzer's numbering -/

/-- **C16_descent**: the invariant of the recursive descent — for every byte string, fuel, state,
    index and depth, each of the nine functions of the descent, when it returns `ok (ix', e, st')`,
    has advanced `curr_group` by exactly the number of capture groups of `e`
    (`st'.currGroup = st.currGroup + groupCount e`: look-arounds, atomic groups, flag groups and
    conditionals do not count), has extended `named_groups` by the names of those groups bound to
    their numbers in opening (pre-)order, and has not moved left (and has moved right if `e` holds
    a group — which is why the two places where the parser DROPS a parsed node, `next == ix` in
    `parse_branch` and `end == next` in `parse_conditional`, lose no group) -/
theorem C16_descent (re : Bytes) (isAlnum : Char → Bool) (f : Nat) : Desc16 re isAlnum f :=
  desc16 re isAlnum f

/-- `parse_re` in plain words -/
theorem C16_parseRe_counter (isAlnum : Char → Bool) (re : Bytes) (f : Nat) (st st' : PState)
    (ix d ix' : Nat) (e : Expr) (h : parseRe isAlnum f re st ix d = .ok (ix', e, st')) :
    st'.currGroup = st.currGroup + groupCount e ∧
    ∃ ann : List (Option Name), ann.length = groupCount e ∧
      st'.namedGroups = bindNames st.namedGroups st.currGroup ann :=
  (((desc16 re isAlnum f).re_ st ix d).of_eq h).2.2

theorem parseBytes_ok {isAlnum : Char → Bool} {re : Bytes} {casei : Bool} {t : Tree}
    (h : parseBytes isAlnum re casei = .ok t) :
    ∃ ix st, parseRe isAlnum (descentFuel re.size) re { flags := { casei := casei } } 0 0 =
        .ok (ix, t.expr, st) ∧ t.namedGroups = st.namedGroups ∧ t.backrefs = st.backrefs := by
  unfold parseBytes at h
  simp only at h
  split at h
  · rename_i ix e st heq
    split at h
    · cases h
    · cases h
      exact ⟨ix, st, heq, rfl, rfl⟩
  all_goals cases h

/-- **C16_parse_counter**: for every pattern that parses, the parser's final `curr_group` is the
    number of capture groups of the tree — the number the analyzer's numbering (`renumber`,
    `checkRefs`: `C16_renumber_count`, `C16_checkRefs_count`) ends at. (`Tree` does not keep the
    counter, so the statement exhibits the final state of `parse_re`.) -/
theorem C16_parse_counter (isAlnum : Char → Bool) (cs : List Char) (casei : Bool) (t : Tree)
    (h : parseStr isAlnum cs casei = .ok t) :
    ∃ ix st, parseRe isAlnum (descentFuel (bytesOf cs).size) (bytesOf cs)
        { flags := { casei := casei } } 0 0 = .ok (ix, t.expr, st) ∧
      t.namedGroups = st.namedGroups ∧ st.currGroup = groupCount t.expr ∧
      (renumber t.expr 1).2 = st.currGroup + 1 := by
  obtain ⟨ix, st, hre, hn, _⟩ := parseBytes_ok h
  have := (C16_parseRe_counter isAlnum _ _ _ _ _ _ _ _ hre).1
  simp only [Nat.zero_add] at this
  exact ⟨ix, st, hre, hn, this, by rw [C16_renumber_count, this]; omega⟩

/-- **C16_names_at_index**: for every pattern that parses there is the list `ann` of the names of
    its capture groups in opening-parenthesis order (`ann[i]` = the name, if any, written at the
    `(i+1)`-th capture group), one entry per group of the tree, and the name table is exactly what
    binding each name to its group's number yields (`bindNames [] 0 ann`: a later group with the
    same name takes the name over, as `HashMap::insert` does). -/
theorem C16_names_at_index (isAlnum : Char → Bool) (cs : List Char) (casei : Bool) (t : Tree)
    (h : parseStr isAlnum cs casei = .ok t) :
    ∃ ann : List (Option Name), ann.length = groupCount t.expr ∧
      t.namedGroups = bindNames [] 0 ann := by
  obtain ⟨ix, st, hre, hn, _⟩ := parseBytes_ok h
  obtain ⟨_, ann, hl, hb⟩ := C16_parseRe_counter isAlnum _ _ _ _ _ _ _ _ hre
  exact ⟨ann, hl, by rw [hn, hb]⟩

/-- the table `bindNames [] 0 ann`, entry by entry: `(name, k)` is an entry iff `1 ≤ k`, the `k`-th
    group carries that name and no later group does -/
theorem mem_bindNames_top (ann : List (Option Name)) (nm : Name) (k : Nat) :
    (nm, k) ∈ bindNames [] 0 ann ↔
      0 < k ∧ ann[k - 1]? = some (some nm) ∧ some nm ∉ ann.drop k := by
  rw [mem_bindNames]
  simp

/-- **C16_names_range**: every entry `(name, k)` of the table has `1 ≤ k ≤ number of capture
    groups`: `names[i] = Some(name)` in `capture_names` never indexes out of bounds, and `k` is the
    number `renumber _ 1` gives to a group of the tree -/
theorem C16_names_range (isAlnum : Char → Bool) (cs : List Char) (casei : Bool) (t : Tree)
    (h : parseStr isAlnum cs casei = .ok t) (nm : Name) (k : Nat) (hk : (nm, k) ∈ t.namedGroups) :
    1 ≤ k ∧ k ≤ groupCount t.expr := by
  obtain ⟨ann, hl, hb⟩ := C16_names_at_index isAlnum cs casei t h
  rw [hb, mem_bindNames_top] at hk
  obtain ⟨h1, h2, _⟩ := hk
  have : k - 1 < ann.length := by
    rcases Nat.lt_or_ge (k - 1) ann.length with h | h
    · exact h
    · rw [List.getElem?_eq_none h] at h2; cases h2
  omega

/-- **C16_names_distinct**: the table is a map in both directions — no name has two entries (a name
    written at two groups belongs to the LATER one only), and no group number has two names -/
theorem C16_names_distinct (isAlnum : Char → Bool) (cs : List Char) (casei : Bool) (t : Tree)
    (h : parseStr isAlnum cs casei = .ok t) :
    (t.namedGroups.map (·.1)).Nodup ∧
    (∀ nm k1 k2, (nm, k1) ∈ t.namedGroups → (nm, k2) ∈ t.namedGroups → k1 = k2) ∧
    (∀ n1 n2 k, (n1, k) ∈ t.namedGroups → (n2, k) ∈ t.namedGroups → n1 = n2) := by
  obtain ⟨ann, hl, hb⟩ := C16_names_at_index isAlnum cs casei t h
  rw [hb]
  refine ⟨bindNames_nodup ann [] 0 (by simp), ?_, ?_⟩
  · have key : ∀ nm k1 k2, k1 < k2 → (nm, k1) ∈ bindNames [] 0 ann → (nm, k2) ∈ bindNames [] 0 ann →
        False := by
      intro nm k1 k2 hlt h1 h2
      rw [mem_bindNames_top] at h1 h2
      apply h1.2.2
      have hmem := List.mem_of_getElem? h2.2.1
      have h3 : (ann.drop k1)[k2 - 1 - k1]? = some (some nm) := by
        rw [List.getElem?_drop, show k1 + (k2 - 1 - k1) = k2 - 1 by omega]; exact h2.2.1
      exact List.mem_of_getElem? h3
    intro nm k1 k2 h1 h2
    rcases Nat.lt_trichotomy k1 k2 with hlt | heq | hgt
    · exact (key nm k1 k2 hlt h1 h2).elim
    · exact heq
    · exact (key nm k2 k1 hgt h2 h1).elim
  · intro n1 n2 k h1 h2
    rw [mem_bindNames_top] at h1 h2
    have := h1.2.1.symm.trans h2.2.1
    simpa using this

/-! ### the numbers `renumber` hands out, in pre-order -/

mutual
/-- the numbers of the `.group` nodes of a tree, in pre-order (opening-parenthesis order; the
    order of `renumber`: condition, then-branch, else-branch for a conditional) -/
def groupNums : Expr → List Nat
  | .group g e => g :: groupNums e
  | .concat es => groupNumsList es
  | .alt es => groupNumsList es
  | .look e _ => groupNums e
  | .repeat e _ _ _ => groupNums e
  | .atomic e => groupNums e
  | .cond c y f => groupNums c ++ (groupNums y ++ groupNums f)
  | _ => []
def groupNumsList : List Expr → List Nat
  | [] => []
  | e :: es => groupNums e ++ groupNumsList es
end

mutual
theorem groupNums_renumber (e : Expr) (n : Nat) :
    groupNums (renumber e n).1 = List.range' n (groupCount e) := by
  cases e with
  | group g c =>
    simp only [renumber, groupNums, groupCount]
    rw [groupNums_renumber c (n + 1), List.range'_succ]
  | concat es => simp only [renumber, groupNums, groupCount]; exact groupNumsList_renumber es n
  | alt es => simp only [renumber, groupNums, groupCount]; exact groupNumsList_renumber es n
  | look c la => simp only [renumber, groupNums, groupCount]; exact groupNums_renumber c n
  | «repeat» c lo hi g => simp only [renumber, groupNums, groupCount]; exact groupNums_renumber c n
  | atomic c => simp only [renumber, groupNums, groupCount]; exact groupNums_renumber c n
  | cond c y f =>
    simp only [renumber, groupNums, groupCount]
    rw [groupNums_renumber c, groupNums_renumber y, groupNums_renumber f, renumber_snd y,
      renumber_snd c, List.range'_append_1, List.range'_append_1, Nat.add_assoc]
  | empty | any _ | assertion _ | literal _ _ | delegate _ _ _ | backref _ | keepOut | contPrev
  | backrefExists _ | subroutine _ => simp [renumber, groupNums, groupCount]
theorem groupNumsList_renumber (es : List Expr) (n : Nat) :
    groupNumsList (renumberList es n).1 = List.range' n (groupCountList es) := by
  cases es with
  | nil => simp [renumberList, groupNumsList, groupCountList]
  | cons e es =>
    simp only [renumberList, groupNumsList, groupCountList]
    rw [groupNums_renumber e, groupNumsList_renumber es, renumber_snd e, List.range'_append_1]
end

/-- **C16_preorder**: the analyzer numbers the capture groups `n, n+1, …` in pre-order; with
    `C16_names_at_index` (`ann[i]` is the name written at the `(i+1)`-th capture group in opening
    order, bound to `i + 1`): in `(renumber t.expr 1).1` the `(i+1)`-th group in pre-order — the
    one `ann[i]` belongs to — has number `i + 1` -/
theorem C16_preorder (e : Expr) (n i : Nat) (h : i < groupCount e) :
    (groupNums (renumber e n).1)[i]? = some (n + i) := by
  rw [groupNums_renumber, List.getElem?_range' h]; simp

/-! ### the source-level fact: which group a name is bound to -/

/-- **C16_named_group**: the source-level fact behind `ann`. When `parse_group` stands at `(?<name>`
    (after the optional white space: `hws`; not a look-behind: `hlook`; `parse_id` reads the name
    `re[a..b]`: `hid`) and succeeds, it returns a CAPTURE group `Group(child)`, the counter has
    advanced by `1 + groupCount child`, and the table is the old one extended by
    `name ↦ curr_group + 1` — the number `renumber` gives this very node, its opening parenthesis
    being the `(curr_group + 1)`-th — followed by the names of the groups inside `child` -/
theorem C16_named_group (isAlnum : Char → Bool) {re : Bytes} (f : Nat) (st st' : PState)
    {ix d ix1 a b skip ix' : Nat} {e : Expr}
    (hws : optWs re st.flags (ix + 1) = .ok ix1) (hlook : lookOf re ix1 = none)
    (hs : startsWithAt re ix1 [ch '?', ch '<'] = true)
    (hid : parseId isAlnum re (ix1 + 1) [ch '<'] [ch '>'] false = .ok (some (a, b, skip)))
    (h : parseGroup isAlnum (f + 1) re st ix d = .ok (ix', e, st')) :
    ∃ child annC, e = .group 0 child ∧ annC.length = groupCount child ∧
      st'.currGroup = st.currGroup + 1 + groupCount child ∧
      st'.namedGroups = bindNames st.namedGroups st.currGroup
        (some (re.extract a b).toList :: annC) := by
  rw [parseGroup] at h
  split at h
  · cases h
  simp only [hws, Res.ok_bind, hlook, hs, if_true] at h
  unfold sliceFrom at h
  split at h
  · split at h
    · simp only [Res.ok_bind, hid] at h
      have hsk := (okP_parseId isAlnum re (ix1 + 1) [ch '<'] [ch '>'] false).of_eq hid _ _ _ rfl
      simp only [List.length_cons, List.length_nil] at hsk
      have hne : (skip + 1 == 2) = false := by simp; omega
      simp only [hne] at h
      cases hre : parseRe isAlnum f re
            { backrefs := st.backrefs, flags := st.flags,
              namedGroups := namedInsert st.namedGroups (Array.extract re a b).toList (st.currGroup + 1),
              numericBackrefs := st.numericBackrefs, currGroup := st.currGroup + 1, lastReHadAlt := st.lastReHadAlt }
            (ix1 + (skip + 1)) (d + 1) with
      | ok r =>
        obtain ⟨ix2, child, st3⟩ := r
        rw [hre] at h
        simp only [Res.ok_bind] at h
        obtain ⟨hc, annC, hl, hb⟩ := C16_parseRe_counter isAlnum _ _ _ _ _ _ _ _ hre
        simp only at hc hb
        cases hcp : checkForCloseParen re st3.flags ix2 with
        | ok ix3 =>
          rw [hcp] at h
          simp only [Res.ok_bind, Bool.false_eq_true, if_false, Res.ok.injEq, Prod.mk.injEq] at h
          obtain ⟨_, rfl, rfl⟩ := h
          exact ⟨child, annC, rfl, hl, by omega, by simpa [bindNames] using hb⟩
        | err k p => rw [hcp] at h; cases h
        | cerr => rw [hcp] at h; cases h
        | panic s => rw [hcp] at h; cases h
        | outOfFuel => rw [hcp] at h; cases h
      | err k p => rw [hre] at h; cases h
      | cerr => rw [hre] at h; cases h
      | panic s => rw [hre] at h; cases h
      | outOfFuel => rw [hre] at h; cases h
    · cases h
  · cases h

/-- the same for the `(?P<name>` spelling -/
theorem C16_named_group_P (isAlnum : Char → Bool) {re : Bytes} (f : Nat) (st st' : PState)
    {ix d ix1 a b skip ix' : Nat} {e : Expr}
    (hws : optWs re st.flags (ix + 1) = .ok ix1) (hlook : lookOf re ix1 = none)
    (hs1 : startsWithAt re ix1 [ch '?', ch '<'] = false)
    (hs : startsWithAt re ix1 [ch '?', ch 'P', ch '<'] = true)
    (hid : parseId isAlnum re (ix1 + 2) [ch '<'] [ch '>'] false = .ok (some (a, b, skip)))
    (h : parseGroup isAlnum (f + 1) re st ix d = .ok (ix', e, st')) :
    ∃ child annC, e = .group 0 child ∧ annC.length = groupCount child ∧
      st'.currGroup = st.currGroup + 1 + groupCount child ∧
      st'.namedGroups = bindNames st.namedGroups st.currGroup
        (some (re.extract a b).toList :: annC) := by
  rw [parseGroup] at h
  split at h
  · cases h
  simp only [hws, Res.ok_bind, hlook, hs1, hs, if_true, Bool.false_eq_true, if_false] at h
  unfold sliceFrom at h
  split at h
  · split at h
    · simp only [Res.ok_bind, hid] at h
      have hsk := (okP_parseId isAlnum re (ix1 + 2) [ch '<'] [ch '>'] false).of_eq hid _ _ _ rfl
      simp only [List.length_cons, List.length_nil] at hsk
      have hne : (skip + 2 == 2) = false := by simp; omega
      simp only [hne] at h
      cases hre : parseRe isAlnum f re
            { backrefs := st.backrefs, flags := st.flags,
              namedGroups := namedInsert st.namedGroups (Array.extract re a b).toList (st.currGroup + 1),
              numericBackrefs := st.numericBackrefs, currGroup := st.currGroup + 1, lastReHadAlt := st.lastReHadAlt }
            (ix1 + (skip + 2)) (d + 1) with
      | ok r =>
        obtain ⟨ix2, child, st3⟩ := r
        rw [hre] at h
        simp only [Res.ok_bind] at h
        obtain ⟨hc, annC, hl, hb⟩ := C16_parseRe_counter isAlnum _ _ _ _ _ _ _ _ hre
        simp only at hc hb
        cases hcp : checkForCloseParen re st3.flags ix2 with
        | ok ix3 =>
          rw [hcp] at h
          simp only [Res.ok_bind, Bool.false_eq_true, if_false, Res.ok.injEq, Prod.mk.injEq] at h
          obtain ⟨_, rfl, rfl⟩ := h
          exact ⟨child, annC, rfl, hl, by omega, by simpa [bindNames] using hb⟩
        | err k p => rw [hcp] at h; cases h
        | cerr => rw [hcp] at h; cases h
        | panic s => rw [hcp] at h; cases h
        | outOfFuel => rw [hcp] at h; cases h
      | err k p => rw [hre] at h; cases h
      | cerr => rw [hre] at h; cases h
      | panic s => rw [hre] at h; cases h
      | outOfFuel => rw [hre] at h; cases h
    · cases h
  · cases h

/-! ## The model of `capture_names` -/

/-- one `names[i] = Some(name)` of `capture_names`; `none` is the index-out-of-bounds panic -/
def captureNamesStep (acc : Option (List (Option Name))) (e : Name × Nat) :
    Option (List (Option Name)) :=
  match acc with
  | none => none
  | some v => if e.2 < v.length then some (v.set e.2 (some e.1)) else none

/-- `Regex::capture_names` (src/lib.rs): `names.resize(captures_len, None)`, then
    `names[i] = Some(name)` for every entry `(name, i)` of `named_groups`, in the order `order` in
    which the `HashMap` iterates (unspecified: the theorems hold for every order) -/
def captureNames (order : Names) (len : Nat) : Option (List (Option Name)) :=
  order.foldl captureNamesStep (some (List.replicate len none))

theorem captureNames_fold (len : Nat) : ∀ (order : Names) (v0 : List (Option Name)),
    v0.length = len → (∀ e ∈ order, e.2 < len) →
    (∀ e1 ∈ order, ∀ e2 ∈ order, e1.2 = e2.2 → e1.1 = e2.1) →
    ∃ v, order.foldl captureNamesStep (some v0) = some v ∧ v.length = len ∧
      ∀ k nm, v[k]? = some (some nm) ↔
        ((nm, k) ∈ order ∨ (v0[k]? = some (some nm) ∧ ∀ e ∈ order, e.2 ≠ k)) := by
  intro order
  induction order with
  | nil => intro v0 hl _ _; exact ⟨v0, rfl, hl, by simp⟩
  | cons e es ih =>
    intro v0 hl hlt hinj
    have he : e.2 < v0.length := by rw [hl]; exact hlt e (List.mem_cons_self ..)
    simp only [List.foldl_cons, captureNamesStep, he, if_true]
    obtain ⟨v, hv, hvl, hiff⟩ := ih (v0.set e.2 (some e.1)) (by simp [hl])
      (fun e' h' => hlt e' (List.mem_cons_of_mem _ h'))
      (fun e1 h1 e2 h2 => hinj e1 (List.mem_cons_of_mem _ h1) e2 (List.mem_cons_of_mem _ h2))
    refine ⟨v, hv, hvl, fun k nm => ?_⟩
    rw [hiff, List.getElem?_set]
    constructor
    · rintro (h | ⟨h1, h2⟩)
      · exact Or.inl (List.mem_cons_of_mem _ h)
      · by_cases hk : e.2 = k
        · simp only [hk, if_true] at h1
          split at h1
          · simp only [Option.some.injEq] at h1
            left
            have : e = (nm, k) := Prod.ext h1 hk
            rw [this]; exact List.mem_cons_self ..
          · cases h1
        · simp only [hk, if_false] at h1
          refine Or.inr ⟨h1, fun e' he' => ?_⟩
          rcases List.mem_cons.mp he' with rfl | h'
          · exact hk
          · exact h2 e' h'
    · rintro (h | ⟨h1, h2⟩)
      · rcases List.mem_cons.mp h with heq | h'
        · by_cases hex : ∃ e' ∈ es, e'.2 = k
          · obtain ⟨e', he', hk'⟩ := hex
            left
            have h1 : e'.1 = nm := by
              have := hinj e' (List.mem_cons_of_mem _ he') e (List.mem_cons_self ..)
                (by rw [hk', ← heq])
              rw [this, ← heq]
            have : e' = (nm, k) := Prod.ext h1 hk'
            rw [← this]; exact he'
          · right
            have hk : e.2 = k := by rw [← heq]
            have h1 : e.1 = nm := by rw [← heq]
            refine ⟨by subst hk; subst h1; simp [he], fun e' he' hk' => hex ⟨e', he', hk'⟩⟩
        · exact Or.inl h'
      · have hk : e.2 ≠ k := h2 e (List.mem_cons_self ..)
        right
        refine ⟨by simp only [hk, if_false]; exact h1, fun e' he' => h2 e' (List.mem_cons_of_mem _ he')⟩

/-- the model of `capture_names` on any table whose indices are in range and distinct per name:
    no panic, `len` entries, entry `k` is `Some(name)` exactly for the entries `(name, k)` of the
    table — whatever the iteration order -/
theorem captureNames_spec (order : Names) (len : Nat) (hlt : ∀ e ∈ order, e.2 < len)
    (hinj : ∀ e1 ∈ order, ∀ e2 ∈ order, e1.2 = e2.2 → e1.1 = e2.1) :
    ∃ v, captureNames order len = some v ∧ v.length = len ∧
      ∀ k nm, v[k]? = some (some nm) ↔ (nm, k) ∈ order := by
  obtain ⟨v, hv, hl, hiff⟩ := captureNames_fold len order (List.replicate len none) (by simp) hlt hinj
  refine ⟨v, hv, hl, fun k nm => ?_⟩
  rw [hiff, List.getElem?_replicate]
  constructor
  · rintro (h | ⟨h1, _⟩)
    · exact h
    · split at h1 <;> cases h1
  · exact Or.inl

/-! ## Part 2 — `capture_names` -/

/-- **C16_names_model**: for every pattern that parses and builds (on the Wrap and on the Fancy
    path alike: `captures_len` is `b.nGroups`, `C16_len`), and for every iteration order of the
    `HashMap` (`order` a permutation of the table), `capture_names`
    * does not panic (`names[i] = …` is always in bounds),
    * yields `captures_len = 1 + number of capture groups` entries,
    * entry 0 is `None`,
    * entry `k` is `Some(name)` iff `(name, k)` is in the table (so the result does not depend on
      the order), and
    * in terms of the pattern: entry `i + 1` is `Some(name)` iff the `(i+1)`-th capture group (the
      one `renumber` numbers `i + 1`, `C16_preorder`) is written with that name (`ann[i]`) and no
      later group is: a name written twice names the LATER group only, the earlier one is
      reported as unnamed. -/
theorem C16_names_model (isAlnum : Char → Bool) (cs : List Char) (casei : Bool) (t : Tree)
    (h : parseStr isAlnum cs casei = .ok t) (b : Built) (hb : build t.expr t.backrefs = .ok b)
    (order : Names) (hperm : order.Perm t.namedGroups) :
    ∃ v, captureNames order b.nGroups = some v ∧
      v.length = b.nGroups ∧ v.length = 1 + groupCount t.expr ∧
      v[0]? = some none ∧
      (∀ k nm, v[k]? = some (some nm) ↔ (nm, k) ∈ t.namedGroups) ∧
      ∃ ann : List (Option Name), ann.length = groupCount t.expr ∧
        ∀ i nm, v[i + 1]? = some (some nm) ↔
          (ann[i]? = some (some nm) ∧ some nm ∉ ann.drop (i + 1)) := by
  have hlen := C16_len t.expr t.backrefs b hb
  obtain ⟨hnd, hfun, hinj⟩ := C16_names_distinct isAlnum cs casei t h
  obtain ⟨v, hv, hl, hiff⟩ := captureNames_spec order b.nGroups
    (fun e he => by
      have := C16_names_range isAlnum cs casei t h e.1 e.2 (hperm.mem_iff.mp he)
      omega)
    (fun e1 h1 e2 h2 heq => by
      have m1 : (e1.1, e1.2) ∈ t.namedGroups := hperm.mem_iff.mp h1
      have m2 : (e2.1, e1.2) ∈ t.namedGroups := by rw [heq]; exact hperm.mem_iff.mp h2
      exact hinj _ _ _ m1 m2)
  have hiff' : ∀ k nm, v[k]? = some (some nm) ↔ (nm, k) ∈ t.namedGroups :=
    fun k nm => (hiff k nm).trans hperm.mem_iff
  refine ⟨v, hv, hl, by omega, ?_, hiff', ?_⟩
  · have h0 : 0 < v.length := by omega
    rw [List.getElem?_eq_getElem h0]
    cases hx : v[0] with
    | none => rfl
    | some nm =>
      have : v[0]? = some (some nm) := by rw [List.getElem?_eq_getElem h0, hx]
      have := C16_names_range isAlnum cs casei t h nm 0 ((hiff' 0 nm).mp this)
      omega
  · obtain ⟨ann, hal, hab⟩ := C16_names_at_index isAlnum cs casei t h
    refine ⟨ann, hal, fun i nm => ?_⟩
    rw [hiff', hab, mem_bindNames_top]
    simp

end Fancy.Parse

namespace Fancy
open Fancy.Parse

/-! ## The model of `Captures` -/

/-- what `Captures::get` returns -/
inductive Got where
  /-- `None` -/
  | absent
  /-- `Some(Match { start, end })` -/
  | span (start end_ : Nat)
  /-- `saves[slot + 1]` out of bounds -/
  | panic
deriving DecidableEq, Repr

/-- `Captures` on the VM path (`CapturesImpl::Fancy { saves }`, after `saves.truncate(n_groups * 2)`)
    as the model's slot list (`none` = `usize::MAX`), with the `named_groups` it shares with the
    `Regex`.  On the Wrap path the same slot list stands for regex-automata's `Captures`
    (assumption A-RA). -/
structure Caps where
  slots : List (Option Nat)
  names : Names

/-- `Captures::len`: `saves.len() / 2` -/
def Caps.len (c : Caps) : Nat := c.slots.length / 2

/-- `Captures::get(i)` -/
def Caps.get (c : Caps) (i : Nat) : Got :=
  if i * 2 ≥ c.slots.length then .absent
  else
    match c.slots[i * 2]? with
    | some (some lo) =>
      match c.slots[i * 2 + 1]? with
      | some hi => .span lo (hi.getD UNSET)
      | none => .panic
    | _ => .absent

/-- `Captures::name(name)`: `self.named_groups.get(name).and_then(|i| self.get(*i))` -/
def Caps.name (c : Caps) (nm : Name) : Got :=
  match namedGet c.names nm with
  | some i => c.get i
  | none => .absent

/-- `SubCaptureMatches { caps, i }` drained: `next` yields `get(i)` while `i < len` -/
def Caps.iterFrom (c : Caps) (i : Nat) : List Got :=
  if i < c.len then c.get i :: c.iterFrom (i + 1) else []
termination_by c.len - i

/-- `Captures::iter()`, collected -/
def Caps.iter (c : Caps) : List Got := c.iterFrom 0

theorem Caps.iterFrom_eq (c : Caps) : ∀ (k i : Nat), c.len - i = k →
    c.iterFrom i = (List.range' i k).map c.get := by
  intro k
  induction k with
  | zero =>
    intro i h
    rw [Caps.iterFrom, if_neg (by omega)]; rfl
  | succ k ih =>
    intro i h
    rw [Caps.iterFrom, if_pos (by omega), ih (i + 1) (by omega), List.range'_succ]; rfl

theorem Caps.iter_eq (c : Caps) : c.iter = (List.range c.len).map c.get := by
  rw [Caps.iter, c.iterFrom_eq c.len 0 (by omega), List.range_eq_range']

/-- a unique key is found -/
theorem namedGet_of_mem : ∀ (m : Names) (nm : Name) (k : Nat), (m.map (·.1)).Nodup → (nm, k) ∈ m →
    namedGet m nm = some k := by
  intro m
  induction m with
  | nil => intro nm k _ h; cases h
  | cons e es ih =>
    intro nm k hnd h
    simp only [List.map_cons, List.nodup_cons] at hnd
    unfold namedGet
    rcases List.mem_cons.mp h with rfl | h'
    · simp
    · have hne : (e.1 == nm) = false := by
        apply Bool.eq_false_iff.mpr
        intro heq
        have : e.1 = nm := by simpa using heq
        exact hnd.1 (this ▸ List.mem_map.mpr ⟨(nm, k), h', rfl⟩)
      rw [List.find?_cons_of_neg (by simp [hne])]
      exact ih nm k hnd.2 h'

theorem namedGet_none : ∀ (m : Names) (nm : Name), (∀ k, (nm, k) ∉ m) → namedGet m nm = none := by
  intro m nm h
  unfold namedGet
  rw [List.find?_eq_none.mpr]
  · rfl
  · intro e he heq
    have : e.1 = nm := by simpa using heq
    exact h e.2 (this ▸ he)

/-! ## Part 3 — the accessors of `Captures` -/

/-- **C16_caps_accessors**: the accessor laws, for every `Captures` value with `2 * n` slots:
    `len = n`; `iter()` yields `len()` items, the `i`-th being `get(i)`; `get(i)` is `None` for
    `i ≥ len`; `get` never indexes out of bounds; `name(n) = get(k)` for the entry `(n, k)` of the
    name table (unique keys), and `None` for a name not in the table -/
theorem C16_caps_accessors (c : Caps) (n : Nat) (hlen : c.slots.length = 2 * n) :
    c.len = n ∧ c.iter.length = c.len ∧ (∀ i, i < c.len → c.iter[i]? = some (c.get i)) ∧
    (∀ i, c.len ≤ i → c.get i = .absent) ∧ (∀ i, c.get i ≠ .panic) ∧
    ((c.names.map (·.1)).Nodup → ∀ nm k, (nm, k) ∈ c.names → c.name nm = c.get k) ∧
    (∀ nm, (∀ k, (nm, k) ∉ c.names) → c.name nm = .absent) := by
  have hl : c.len = n := by unfold Caps.len; omega
  refine ⟨hl, by rw [c.iter_eq]; simp, ?_, ?_, ?_, ?_, ?_⟩
  · intro i hi
    rw [c.iter_eq, List.getElem?_map, List.getElem?_range hi]; rfl
  · intro i hi
    unfold Caps.get
    rw [if_pos (by omega)]
  · intro i
    unfold Caps.get
    split
    · simp
    · rename_i hlt
      have h1 : i * 2 + 1 < c.slots.length := by omega
      split
      · rw [List.getElem?_eq_getElem h1]; simp
      · simp
  · intro hnd nm k hk
    unfold Caps.name
    rw [namedGet_of_mem c.names nm k hnd hk]
  · intro nm h
    unfold Caps.name
    rw [namedGet_none c.names nm h]

/-- the laws of property C16 about one `Captures` value `c` of a regex with `n = captures_len`
    groups, found by a search in context `ctx` -/
structure CapsLaws (ctx : Ctx) (c : Caps) (n : Nat) : Prop where
  /-- `Captures::len() = Regex::captures_len()` -/
  len : c.len = n
  /-- `get(0)` is `Some`: the overall match, `pos ≤ start ≤ end ≤ len(text)` -/
  get0 : ∃ s e, c.get 0 = .span s e ∧ ctx.pos ≤ s ∧ s ≤ e ∧ e ≤ ctx.len
  /-- `iter()` yields `len()` items … -/
  iter_len : c.iter.length = c.len
  /-- … the `i`-th being `get(i)` -/
  iter_get : ∀ i, i < c.len → c.iter[i]? = some (c.get i)
  /-- indices `≥ len` give `None` -/
  get_ge : ∀ i, c.len ≤ i → c.get i = .absent
  /-- `get` never indexes out of bounds -/
  no_panic : ∀ i, c.get i ≠ .panic

/-- the laws on a reported slot vector that is valid (`SlotsValid`: what `C05_offsets_valid`,
    `C05_offsets_valid_wrap` establish of every result of the model search) -/
theorem caps_of_valid (tree : Expr) (backrefs : List Nat) (b : Built) (ctx : Ctx)
    (hb : build tree backrefs = .ok b) (slots : List (Option Nat))
    (hv : SlotsValid ctx (2 * b.nGroups) slots) (names : Names) :
    CapsLaws ctx ⟨slots, names⟩ b.nGroups ∧ b.nGroups = 1 + groupCount tree := by
  have hn := C16_len tree backrefs b hb
  obtain ⟨h1, h2, h3, h4, h5, _, _⟩ := C16_caps_accessors ⟨slots, names⟩ b.nGroups hv.len
  refine ⟨⟨h1, ?_, h2, h3, h4, h5⟩, hn⟩
  obtain ⟨s, e, hs, he, p1, p2, p3⟩ := hv.span (by omega)
  refine ⟨s, e, ?_, p1, p2, p3⟩
  have hlen : slots.length = 2 * b.nGroups := hv.len
  have hs' : slots[0 * 2]? = some (some s) := hs
  have he' : slots[0 * 2 + 1]? = some (some e) := he
  unfold Caps.get
  simp only
  rw [if_neg (by omega), hs']
  simp only [he', Option.getD_some]

/-- **C16_caps_model**: every `Captures` the model search returns obeys the accessor laws —
    whenever the model search equals the reference search up to the resource stops
    (`VmCorrectR`: proved for the engine stages S2 `C01_vm_correct_s2` and S3 `C01_vm_correct_s3`;
    the Wrap path is `C16_caps_wrap`) -/
theorem C16_caps_model (tree : Expr) (backrefs : List Nat) (b : Built) (ctx : Ctx)
    (hb : build tree backrefs = .ok b) (hcorr : VmCorrectR b ctx) (limit fuel : Nat)
    (slots : List (Option Nat)) (hfound : (b.captures ctx limit fuel).1 = .found slots)
    (names : Names) :
    CapsLaws ctx ⟨slots, names⟩ b.nGroups ∧ b.nGroups = 1 + groupCount tree := by
  refine caps_of_valid tree backrefs b ctx hb slots ?_ names
  have h := hcorr limit fuel
  rw [hfound] at h
  rcases h with h | h | h | h
  · cases h
  · cases h
  · cases h
  · cases href : refSearch ctx b.raw b.nGroups with
    | none => rw [href] at h; cases h
    | some f =>
      rw [href] at h
      simp only [SearchResult.found.injEq] at h
      subst h
      exact refSearch_valid ctx b.raw b.nGroups (build_noSelfNest tree backrefs b hb) f href

/-- the VM path, engine stage S2 -/
theorem C16_caps_fancy (tree : Expr) (backrefs : List Nat) (b : Built) (prog : Prog) (ctx : Ctx)
    (hb : build tree backrefs = .ok b) (hk : b.kind = .fancy prog)
    (hok : s2ok b.raw = true) (hnd : noDeleg prog.body = true)
    (hlen : ctx.len < UNSET) (hpos : ctx.pos ≤ ctx.len) (limit fuel : Nat)
    (slots : List (Option Nat)) (hfound : (b.captures ctx limit fuel).1 = .found slots)
    (names : Names) :
    CapsLaws ctx ⟨slots, names⟩ b.nGroups ∧ b.nGroups = 1 + groupCount tree :=
  caps_of_valid tree backrefs b ctx hb slots
    (C05_offsets_valid tree backrefs b prog ctx hb hk hok hnd hlen hpos limit fuel slots hfound) names

/-- the Wrap path (whole pattern handed to the automata engine; assumption A-RA), every pattern:
    identical laws -/
theorem C16_caps_wrap (tree : Expr) (backrefs : List Nat) (b : Built) (ctx : Ctx)
    (hb : build tree backrefs = .ok b) (hk : b.kind = .wrap) (limit fuel : Nat)
    (slots : List (Option Nat)) (hfound : (b.captures ctx limit fuel).1 = .found slots)
    (names : Names) :
    CapsLaws ctx ⟨slots, names⟩ b.nGroups ∧ b.nGroups = 1 + groupCount tree :=
  caps_of_valid tree backrefs b ctx hb slots
    (C05_offsets_valid_wrap tree backrefs b ctx hb hk limit fuel slots hfound) names

/-- **C16_caps_names**: `name(n) = get(index of n)` for a pattern: with the table the parser built,
    every name of the table is looked up at its group's index, which is `< len`; any other name
    gives `None` -/
theorem C16_caps_names (isAlnum : Char → Bool) (cs : List Char) (casei : Bool) (t : Tree)
    (h : parseStr isAlnum cs casei = .ok t) (b : Built) (hb : build t.expr t.backrefs = .ok b)
    (slots : List (Option Nat)) (hlen : slots.length = 2 * b.nGroups) :
    let c : Caps := ⟨slots, t.namedGroups⟩
    (∀ nm k, (nm, k) ∈ t.namedGroups → c.name nm = c.get k ∧ 1 ≤ k ∧ k < c.len) ∧
    (∀ nm, (∀ k, (nm, k) ∉ t.namedGroups) → c.name nm = .absent) := by
  intro c
  obtain ⟨h1, _, _, _, _, h6, h7⟩ := C16_caps_accessors c b.nGroups hlen
  have hn := C16_len t.expr t.backrefs b hb
  refine ⟨fun nm k hk => ?_, h7⟩
  have hr := C16_names_range isAlnum cs casei t h nm k hk
  exact ⟨h6 (C16_names_distinct isAlnum cs casei t h).1 nm k hk, hr.1, by omega⟩

/-! ### Non-vacuity (Part 3): a `Captures` value of a 3-group regex, groups 0 and 1 set -/

private def caps1 : Caps := ⟨[some 0, some 2, some 0, some 1, none, none], [([110], 1), ([109], 2)]⟩
example : caps1.len = 3 := by decide
example : caps1.get 0 = .span 0 2 := by decide
example : caps1.get 2 = .absent := by decide
example : caps1.get 3 = .absent := by decide
example : caps1.name [110] = .span 0 1 := by decide
example : caps1.iter = [.span 0 2, .span 0 1, .absent] := by
  simp [Caps.iter, Caps.iterFrom, Caps.len, Caps.get, caps1]

/-- the hypothesis `VmCorrectR` of `C16_caps_model` holds of every stage-S2 pattern
    (`C01_vm_correct_s2`), e.g. of `exTree2` = `(a)(?>\\1|b)(?=c)` (C05c) -/
example (tree : Expr) (backrefs : List Nat) (b : Built) (prog : Prog) (c : Ctx)
    (hb : build tree backrefs = .ok b) (hk : b.kind = .fancy prog)
    (hok : s2ok b.raw = true) (hnd : noDeleg prog.body = true)
    (hlen : c.len < UNSET) (hpos : c.pos ≤ c.len) : VmCorrectR b c :=
  C01_vm_correct_s2 tree backrefs b prog c hb hk hok hnd hlen hpos

end Fancy

namespace Fancy.Parse
open Fancy

/-! ### Non-vacuity (Parts 1, 2): concrete patterns, by evaluation -/

private def P16 (s : String) : Res Tree := parseStr (fun c => c.isAlphanum) s.toList false
private def la : Expr := .literal ['a'] false
private def lb : Expr := .literal ['b'] false
private def lc : Expr := .literal ['c'] false

/-- `(?<n>a)(?:b)(?<m>(c))(?=(a))`: 4 capture groups; `n ↦ 1`, `m ↦ 2` -/
private def tree1 : Expr :=
  .concat [.group 0 la, lb, .group 0 (.group 0 lc), .look (.group 0 la) .ahead]

example : P16 "(?<n>a)(?:b)(?<m>(c))(?=(a))" = .ok ⟨tree1, [], [([109], 2), ([110], 1)]⟩ :=
  isTree_sound (by decide +kernel)

example : groupCount tree1 = 4 := by decide

example : bindNames [] 0 [some [110], some [109], none, none] = [([109], 2), ([110], 1)] := by decide

-- a name written twice
example : P16 "(?<n>a)(?<n>b)" = .ok ⟨.concat [.group 0 la, .group 0 lb], [], [([110], 2)]⟩ :=
  isTree_sound (by decide +kernel)

example : bindNames [] 0 [some [110], some [110]] = [([110], 2)] := by decide

example : captureNames [([109], 2), ([110], 1)] 5 = some [none, some [110], some [109], none, none] := by
  decide
example : captureNames [([110], 1), ([109], 2)] 5 = some [none, some [110], some [109], none, none] := by
  decide

/-- `(?<n>a)(?:b)(?<m>(c))` (handed over whole: the Wrap path) -/
private def tree2 : Expr := .concat [.group 0 la, lb, .group 0 (.group 0 lc)]

example : P16 "(?<n>a)(?:b)(?<m>(c))" = .ok ⟨tree2, [], [([109], 2), ([110], 1)]⟩ :=
  isTree_sound (by decide +kernel)

example : ∃ b, build tree2 [] = .ok b ∧ b.nGroups = 4 ∧ b.kind = .wrap := by
  simp [build, tree2, wrapTree, renumber, renumberList, checkRefs, checkRefsList, isHard, isHardAny,
    la, lb, lc]

private def re1 : Bytes := bytesOf "(?<n>a)".toList

/-- the hypotheses of `C16_named_group` on `(?<n>a)` -/
example :
    optWs re1 ({} : PState).flags (0 + 1) = .ok 1 ∧ lookOf re1 1 = none ∧
    startsWithAt re1 1 [ch '?', ch '<'] = true ∧
    parseId (fun c => c.isAlphanum) re1 (1 + 1) [ch '<'] [ch '>'] false = .ok (some (3, 4, 3)) ∧
    parseGroup (fun c => c.isAlphanum) (49 + 1) re1 {} 0 0 =
      .ok (7, .group 0 la, { currGroup := 1, namedGroups := [([110], 1)] }) :=
  ⟨isOkVal_sound (by decide +kernel), by decide +kernel, by decide +kernel,
    isOkVal_sound (by decide +kernel), isOk3_sound (by decide +kernel)⟩

end Fancy.Parse
